import ConserveModel.Proofs.NoPanicRead
/-
No panic in restore and validate (property C10).  No property statements here.
-/
namespace Conserve.NP
open Conserve Prog

section
variable (H : Str → Str)

theorem getBlockContent_safe (h : Str) : Safe (fun _ => True) (getBlockContent H h) := by
  unfold getBlockContent
  simp only [Prog.bind_def, Prog.pure_def]
  repeat safe_step

theorem readAddress_safe (a : Addr) : Safe (fun _ => True) (readAddress H a) := by
  unfold readAddress
  simp only [Prog.bind_def, Prog.pure_def]
  refine Safe.bind' (getBlockContent_safe H _) (fun r => ?_)
  repeat safe_step

theorem readContent_safe (as : List Addr) (acc : Str) : Safe (fun _ => True) (readContent H as acc) := by
  induction as generalizing acc with
  | nil => exact .ret trivial
  | cons a as ih =>
    unfold readContent
    simp only [Prog.bind_def, Prog.pure_def]
    refine Safe.bind' (readAddress_safe H a) (fun r => ?_)
    split
    · exact .ret trivial
    · exact ih _

/-- The per-entry loop of restore: its only panic is `IndexEntry::mtime()` on a time that is
out of range, which `IndexEntry::check` excludes. -/
theorem restoreEntries_safe (syms : List Str) (es : List IndexEntry) (hes : AllUsable es) :
    Safe (fun _ => True) (restoreEntries H syms es) := by
  induction es generalizing syms with
  | nil => exact .ret trivial
  | cons e es ih =>
    have hes' : AllUsable es := hes.sub fun x hx => List.mem_cons_of_mem _ hx
    obtain ⟨t, ht⟩ := usable_time (hes e (List.mem_cons_self ..))
    have hrest : ∀ syms (f : List RNode → List RNode),
        Safe (fun _ => True) ((restoreEntries H syms es).bind fun rest => Prog.ret (f rest)) :=
      fun syms f => Safe.bind' (ih syms hes') (fun _ => .ret trivial)
    unfold restoreEntries
    simp only [Prog.bind_def, Prog.pure_def, logError, ht]
    split
    · exact .emit _ (Safe.bind' (Q1 := fun _ => True) (.ret trivial) (fun _ => ih _ hes'))
    · split
      · exact hrest _ _
      · refine Safe.bind' (readContent_safe H _ _) (fun r => ?_)
        split
        · exact .emit _ (Safe.bind' (Q1 := fun _ => True) (.ret trivial) (fun _ => hrest _ _))
        · exact hrest _ _
      · split
        · exact .emit _ (Safe.bind' (Q1 := fun _ => True) (.ret trivial) (fun _ => ih _ hes'))
        · exact hrest _ _
      · exact .emit _ (Safe.bind' (Q1 := fun _ => True) (.ret trivial) (fun _ => ih _ hes'))

theorem restore_safe (sel : BandSelection) (subtree : Str) (excl : Str → Bool) :
    Safe (fun _ => True) (restore H sel subtree excl) := by
  unfold restore
  simp only [Prog.bind_def]
  refine Safe.bind' (resolveBandId_safe sel) (fun b => ?_)
  refine Safe.bind' (bandOpen_safe b) (fun _ => ?_)
  refine Safe.bind' listBlocks_safe (fun _ => ?_)
  exact Safe.bind (listEntries_safe b subtree excl) (fun es hes => restoreEntries_safe H [] es hes)

/-! ### validate -/

theorem validateBlocks_safe (hs : List Str) : Safe (fun _ => True) (validateBlocks H hs) := by
  induction hs with
  | nil => exact .ret trivial
  | cons h hs ih =>
    unfold validateBlocks
    simp only [Prog.bind_def, Prog.pure_def, logError]
    refine Safe.bind' (getBlockContent_safe H h) (fun r => ?_)
    split
    · exact Safe.bind' ih (fun _ => .ret trivial)
    · exact .emit _ (Safe.bind' (Q1 := fun _ => True) (.ret trivial) (fun _ => ih))

end

theorem validateBands_safe (bs : List Nat) (m : List (Str × Nat)) :
    Safe (fun _ => True) (validateBands bs m) := by
  induction bs generalizing m with
  | nil => exact .ret trivial
  | cons b bs ih =>
    unfold validateBands
    simp only [Prog.bind_def, logError]
    have hlog : ∀ (e : Err) m, Safe (fun _ => True)
        (Prog.emit (.error e) ((Prog.ret ()).bind fun _ => validateBands bs m)) := fun e m =>
      .emit _ (Safe.bind' (Q1 := fun _ => True) (.ret trivial) (fun _ => ih m))
    refine Safe.bind' (bandOpen_safe b).attempt_triv (fun r => ?_)
    split
    · exact hlog _ _
    · refine Safe.bind' (Safe.perform _) (fun r => ?_)
      split
      · exact hlog _ _
      · have hcont : Safe (fun _ => True) ((bandOpen b).attempt.bind fun r =>
            match r with
            | Except.error e => (Prog.emit (Event.error e) (Prog.ret ())).bind fun _ => validateBands bs m
            | Except.ok PUnit.unit =>
              (listEntries b [slash] fun _ => false).bind fun es => validateBands bs (entryLens m es)) := by
          refine Safe.bind' (bandOpen_safe b).attempt_triv (fun r => ?_)
          split
          · exact hlog _ _
          · exact Safe.bind' (listEntries_safe b _ _) (fun _ => ih _)
        split
        · exact .emit _ (Safe.bind' (Q1 := fun _ => True) (.ret trivial) (fun _ => hcont))
        · exact hcont
      · exact hlog _ _

/-- A `for` loop whose body only logs. -/
theorem forIn_safe {α : Type} (xs : List α) (f : α → Unit → Prog (ForInStep Unit))
    (hf : ∀ a u, Safe (fun _ => True) (f a u)) :
    Safe (fun _ => True) (forIn xs () f) := by
  induction xs with
  | nil => exact .ret trivial
  | cons x xs ih =>
    rw [List.forIn_cons]
    simp only [Prog.bind_def]
    refine Safe.bind' (hf x ()) (fun r => ?_)
    split
    · exact .ret trivial
    · exact ih

theorem validate_safe (H : Str → Str) (quick : Bool) : Safe (fun _ => True) (validate H quick) := by
  unfold validate
  simp only [Prog.bind_def, Prog.pure_def, logError]
  refine Safe.bind' (Safe.perform _) (fun r => ?_)
  split
  · exact .fail _
  refine Safe.bind' listBandIds_safe (fun bands => ?_)
  refine Safe.bind' (validateBands_safe _ _) (fun referenced => ?_)
  refine Safe.bind' listBlocks_safe (fun present => ?_)
  split
  · refine Safe.bind' (forIn_safe _ _ (fun a u => ?_)) (fun _ => .ret trivial)
    repeat safe_step
  · refine Safe.bind' (validateBlocks_safe H _) (fun lens => ?_)
    refine Safe.bind' (forIn_safe _ _ (fun a u => ?_)) (fun _ => .ret trivial)
    repeat safe_step

end Conserve.NP
