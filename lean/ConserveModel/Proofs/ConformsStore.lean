import ConserveModel.Proofs.BackupPrelude
import ConserveModel.Proofs.CleanWorldDel
import ConserveModel.Proofs.StoreNoDup
/-
Store-level facts for C13 (`Conforms` is preserved): how the list-scanning parts of `Conforms`
(`hunkNumsOf`, `bandIdsOf`, `blocksConform`) see `get?`, congruence and monotonicity of
`bandConforms` / `entryConforms`, `DirsOk` under `put`, and the general lemma `conforms_put`:
putting a value where there was nothing (or a zero-length file) keeps `Conforms` provided the
band the key belongs to (if any) conforms afterwards.  No property statements here.
-/
namespace Conserve.Conf
open Conserve Conserve.Inv

/-! ### `strictlySorted` is pairwise `<` -/

theorem strictlySorted_iff (xs : List Str) :
    strictlySorted xs = true ↔ xs.Pairwise (fun a b => apathCmp a b = .lt) := by
  induction xs with
  | nil => simp [strictlySorted]
  | cons a rest ih =>
    cases rest with
    | nil => simp [strictlySorted]
    | cons b rest =>
      simp only [strictlySorted, Bool.and_eq_true, beq_iff_eq, ih]
      constructor
      · rintro ⟨hab, hrest⟩
        refine List.pairwise_cons.mpr ⟨?_, hrest⟩
        intro y hy
        rcases List.mem_cons.mp hy with rfl | hy
        · exact hab
        · exact C11.cmp_trans hab ((List.pairwise_cons.mp hrest).1 y hy)
      · intro h
        obtain ⟨h1, h2⟩ := List.pairwise_cons.mp h
        exact ⟨h1 b (by simp), h2⟩

/-! ### `hunkNumsOf` through `get?` -/

theorem mem_hunkNumsOf_get? {s : Store} (hn : NoDupKeys s) {b n : Nat} :
    n ∈ hunkNumsOf s b ↔ ∃ v, s.get? (.hunk b n) = some v ∧ v.isDir = false := by
  rw [mem_hunkNumsOf]
  constructor
  · rintro ⟨v, hm, hv⟩; exact ⟨v, hn.get?_of_mem hm, hv⟩
  · rintro ⟨v, hg, hv⟩; exact ⟨v, Store.mem_of_get? hg, hv⟩

theorem hunkNumsOf_sorted {s : Store} (hn : NoDupKeys s) (b : Nat) : (hunkNumsOf s b).Pairwise (· < ·) :=
  hunkNumsOf_sorted_lt ((uniqueKeys_iff_nodup s).2 hn) b

/-- The hunk numbers of a band only depend on what `get?` says about its hunk keys. -/
theorem hunkNumsOf_congr {s s' : Store} (hn : NoDupKeys s) (hn' : NoDupKeys s') {b : Nat}
    (h : ∀ n, s'.get? (.hunk b n) = s.get? (.hunk b n)) : hunkNumsOf s' b = hunkNumsOf s b :=
  eq_of_sorted_lt (hunkNumsOf_sorted hn' b) (hunkNumsOf_sorted hn b)
    (fun n => by rw [mem_hunkNumsOf_get? hn', mem_hunkNumsOf_get? hn, h])

theorem range_sorted_lt (m : Nat) : (List.range m).Pairwise (· < ·) := by
  simpa using List.pairwise_lt_range (n := m)

/-- If exactly the hunk keys `0 … m-1` of band `b` hold files, its hunk numbers are `range m`. -/
theorem hunkNumsOf_eq_range {s : Store} (hn : NoDupKeys s) {b m : Nat}
    (h : ∀ n, (∃ v, s.get? (.hunk b n) = some v ∧ v.isDir = false) ↔ n < m) :
    hunkNumsOf s b = List.range m :=
  eq_of_sorted_lt (hunkNumsOf_sorted hn b) (range_sorted_lt m)
    (fun n => by rw [mem_hunkNumsOf_get? hn, h, List.mem_range])

/-! ### `entryConforms` / `bandConforms`: monotone, and a function of the band's own keys -/

section
variable (H : Str → Str)

theorem entryConforms_mono {s s' : Store} (hx : Extends s s') {e : IndexEntry}
    (h : entryConforms H s e = true) : entryConforms H s' e = true := by
  unfold entryConforms at h ⊢
  simp only [Bool.and_eq_true] at h ⊢
  refine ⟨h.1, ?_⟩
  have h2 := h.2
  cases hk : e.kind <;> simp only [hk] at h2 ⊢
  · -- file
    simp only [Bool.and_eq_true, List.all_eq_true] at h2 ⊢
    refine ⟨h2.1, fun a ha => ?_⟩
    obtain ⟨x, hx'⟩ := Option.isSome_iff_exists.mp (h2.2 a ha)
    rw [readAddrPure_mono H hx' hx]; rfl
  · exact h2
  · exact h2
  · exact h2

/-- `bandConforms` only looks at the band's hunk numbers, hunk files, tail and head, and is
monotone in what the entries' addresses resolve to. -/
theorem bandConforms_congr {s s' : Store} {b : Nat}
    (hnums : hunkNumsOf s' b = hunkNumsOf s b)
    (hh : ∀ n, s'.get? (.hunk b n) = s.get? (.hunk b n))
    (ht : s'.get? (.bandTail b) = s.get? (.bandTail b))
    (hd : s'.get? (.bandHead b) = s.get? (.bandHead b))
    (he : ∀ e, entryConforms H s e = true → entryConforms H s' e = true)
    (h : bandConforms H s b = true) : bandConforms H s' b = true := by
  unfold bandConforms isComplete at h ⊢
  simp only [hnums, hh, ht, hd]
  simp only [Bool.and_eq_true] at h ⊢
  obtain ⟨⟨⟨⟨⟨⟨h1, h2⟩, h3⟩, h4⟩, h5⟩, h6⟩, h7⟩ := h
  refine ⟨⟨⟨⟨⟨⟨h1, h2⟩, h3⟩, ?_⟩, h5⟩, h6⟩, h7⟩
  rw [List.all_eq_true] at h4 ⊢
  exact fun e hm => he e (h4 e hm)

/-- The same, asking monotonicity only of the entries the band's decodable hunks hold. -/
theorem bandConforms_congr' {s s' : Store} {b : Nat}
    (hnums : hunkNumsOf s' b = hunkNumsOf s b)
    (hh : ∀ n, s'.get? (.hunk b n) = s.get? (.hunk b n))
    (ht : s'.get? (.bandTail b) = s.get? (.bandTail b))
    (hd : s'.get? (.bandHead b) = s.get? (.bandHead b))
    (he : ∀ n es, s.get? (.hunk b n) = some (.hunk es) → ∀ e ∈ es,
      entryConforms H s e = true → entryConforms H s' e = true)
    (h : bandConforms H s b = true) : bandConforms H s' b = true := by
  unfold bandConforms isComplete at h ⊢
  simp only [hnums, hh, ht, hd]
  simp only [Bool.and_eq_true] at h ⊢
  obtain ⟨⟨⟨⟨⟨⟨h1, h2⟩, h3⟩, h4⟩, h5⟩, h6⟩, h7⟩ := h
  refine ⟨⟨⟨⟨⟨⟨h1, h2⟩, h3⟩, ?_⟩, h5⟩, h6⟩, h7⟩
  rw [List.all_eq_true] at h4 ⊢
  intro e hm
  have h4e := h4 e hm
  simp only [List.mem_flatten, List.mem_filterMap, List.mem_map] at hm
  obtain ⟨es, ⟨v, ⟨n, _, rfl⟩, hv⟩, hes⟩ := hm
  split at hv
  · rename_i es' heq
    cases hv
    exact he n es heq e hes h4e
  · cases hv

end

/-! ### `blocksConform` under `put` -/

section
variable (H : Str → Str)

/-- What `blocksConform` asks of one store entry. -/
def blockEntryOk (kv : Key × FileVal) : Bool :=
  match kv.1, kv.2 with
  | .block h, .blockData c => H c == h
  | .block _, .empty => true
  | .block _, _ => false
  | .blockDir p, v => v.isDir && p.length == subdirNameChars
  | _, _ => true

theorem blocksConform_eq (s : Store) : blocksConform H s = s.all (blockEntryOk H) := rfl

theorem blocksConform_put {s : Store} {k : Key} {v : FileVal} (h : blocksConform H s = true)
    (hkv : blockEntryOk H (k, v) = true) : blocksConform H (s.put k v) = true := by
  rw [blocksConform_eq] at h ⊢
  unfold Store.put Store.erase
  rw [List.all_append, Bool.and_eq_true]
  refine ⟨?_, by simp [hkv]⟩
  rw [List.all_eq_true] at h ⊢
  intro x hx
  exact h x (List.mem_filter.mp hx).1

/-- With distinct keys, `blocksConform` is `BlocksGood` plus well-formed block directories. -/
theorem blocksGood_of_conform {s : Store} (h : blocksConform H s = true) : BlocksGood H s := by
  intro hh v hv
  rw [blocksConform_eq, List.all_eq_true] at h
  have := h _ (Store.mem_of_get? hv)
  cases v <;> simp [blockEntryOk] at this ⊢
  exact this

end

/-! ### `DirsOk` under `put` -/

theorem Key.parent_ne_self (k : Key) : k.parent ≠ some k := by
  cases k <;> simp [Key.parent]

theorem parentOk_put {s : Store} {k k' : Key} {v : FileVal} (h : s.parentOk k' = true)
    (hk : k'.parent = some k → v = .dir) : (s.put k v).parentOk k' = true := by
  unfold Store.parentOk at h ⊢
  cases hp : k'.parent with
  | none => rfl
  | some p =>
    simp only [hp] at h ⊢
    rw [Store.inv_get?_put]
    by_cases hpk : p = k
    · subst hpk; simp [hk hp]
    · simpa [hpk] using h

/-- Putting a value where nothing (or a zero-length file) was, below an existing directory,
keeps "every key's parent is a directory". -/
theorem _root_.Conserve.DirsOk.put {s : Store} (hd : DirsOk s) {k : Key} {v : FileVal}
    (hpre : s.get? k = none ∨ s.get? k = some .empty) (hp : s.parentOk k = true) :
    DirsOk (s.put k v) := by
  intro kv hkv
  have hno : ∀ k', (∃ v', (k', v') ∈ s) → k'.parent ≠ some k := by
    rintro k' ⟨v', hm⟩ hpar
    have := hd _ hm
    simp only [Store.parentOk, hpar, beq_iff_eq] at this
    rcases hpre with h | h <;> rw [h] at this <;> cases this
  unfold Store.put Store.erase at hkv
  rcases List.mem_append.mp hkv with hm | hm
  · have hm' := (List.mem_filter.mp hm).1
    exact parentOk_put (hd _ hm') (fun hpar => absurd hpar (hno kv.1 ⟨kv.2, hm'⟩))
  · simp only [List.mem_singleton] at hm
    subst hm
    exact parentOk_put hp (fun hpar => absurd hpar (Key.parent_ne_self k))

end Conserve.Conf
