import ConserveModel.Proofs.ConformsMain
/-
C13: `Band::create`, the prelude (with: the basis listing's addresses resolve, because every entry
of a conforming archive does), the main part and `backup()` as a whole in all worlds
(`backup_csat`).  No property statements here.
-/
namespace Conserve.Conf
open Conserve Conserve.Inv Prog

/-- `last_band_id`, in any world: if it answers, the answer is the largest band id of the store. -/
theorem lastBandId_result (w : World) (r : Option Nat) (h : (lastBandId.run w).1 = .ok r) :
    r = maxNat? (bandIdsOf w.store) := by
  unfold lastBandId at h
  simp only [Prog.bind_def, Prog.pure_def] at h
  rw [Prog.run_bind] at h
  cases hrun : listBandIds.run w with
  | mk out w1 =>
    rw [hrun] at h
    cases out with
    | ok ids =>
      simp only [Prog.run_ret, Outcome.ok.injEq] at h
      have := listBandIds_sound (w := w) (all := ids) (by rw [hrun])
      rw [← h, this]
    | err e => cases h
    | panic s => cases h

/-- The id `Band::create` picks. -/
def nextId (r : Option Nat) : Nat :=
  match r with
  | none => 0
  | some l => l + 1

/-- `Band::create` after the listing: two directories and the head. -/
def bandCreateTail (b : Nat) : Prog Nat :=
  (performUnit (.createDir (.bandDir b))).bind fun _ =>
  (performUnit (.createDir (.indexDir b))).bind fun _ =>
  (performUnit (.write (.bandHead b) (.head .ok []) .createNew)).bind fun _ => Prog.ret b

theorem bandCreate_eq : bandCreate = lastBandId.bind fun r => bandCreateTail (nextId r) := by
  unfold bandCreate
  simp only [Prog.bind_def, Prog.pure_def]
  congr 1

/-- The id after the largest existing one has no directory. -/
theorem next_band_fresh {s : Store} (hn : NoDupKeys s) :
    s.get? (.bandDir (nextId (maxNat? (bandIdsOf s)))) ≠ some .dir := by
  intro h
  have hmem := (mem_bandIdsOf_iff_get? hn).2 h
  cases hm : maxNat? (bandIdsOf s) with
  | none =>
    rw [maxNat?_none hm] at hmem
    cases hmem
  | some l =>
    rw [hm] at hmem
    have := maxNat?_ge hm _ hmem
    simp only [nextId] at this
    omega

section
variable {H : Str → Str}

theorem bandCreateTail_csat (b : Nat) (w1 : World) (hw1 : CWOK H w1) (hfresh : EmptyBand w1.store b) :
    CSat H (bandCreateTail b) w1 (fun b w' => BandOpen w'.store b []) := by
  unfold bandCreateTail
  apply CSat.bind
  refine (CSat.performUnit hw1 (createOnly_createDir _) (exec_createDir_band hw1.ci hfresh)).mono ?_
  intro _ w2 hf2 ⟨hw2, _⟩
  subst hw2
  have he2 : EmptyBand (w1.exec (.createDir (.bandDir b))).1.store b :=
    hfresh.same (exec_createDir_bandKeys w1 b (fun _ => by simp) (by simp) (by simp))
  apply CSat.bind
  refine (CSat.performUnit hf2.wok (createOnly_createDir _)
    (exec_createDir_plain hf2.ci rfl (fun b' => touchesBand_indexDir _ b'))).mono ?_
  intro _ w3 hf3 ⟨hw3, _⟩
  subst hw3
  have he3 := he2.same (exec_createDir_bandKeys (w1.exec (.createDir (.bandDir b))).1 b (k := .indexDir b)
    (fun _ => by simp) (by simp) (by simp))
  have hx := exec_write_head hf3.ci hf3.wok.enforce he3 .ok []
  apply CSat.bind
  refine (CSat.performUnit hf3.wok (createOnly_write _ _) hx.1).mono ?_
  intro _ w4 hf4 ⟨hw4, hunit⟩
  subst hw4
  exact CSat.ret hf4.wok (hx.2 hunit)

/-- `Band::create` in every world: conforming after each of its steps (the new band directory, the
index directory, the zero-length head, the head); if it returns `b`, band `b` is open with no hunks. -/
theorem bandCreate_csat (w : World) (hw : CWOK H w) :
    CSat H bandCreate w (fun b w' => BandOpen w'.store b []) := by
  rw [bandCreate_eq]
  apply CSat.bind
  refine ((CSat.of_ro Inv.lastBandId_ro hw).and_run (Q' := fun r _ => r = maxNat? (bandIdsOf w.store))
    (fun r hr => lastBandId_result w r hr)).mono ?_
  intro r w1 hf1 ⟨hst1, hr⟩
  subst hr
  refine bandCreateTail_csat _ w1 hf1.wok ?_
  rw [hst1]
  exact EmptyBand.of_fresh hw.ci.dirs (next_band_fresh hw.ci.nodup)

/-- Every entry of every decodable hunk of a store satisfying `CI` conforms (the hunk's band has
a directory, because parents are directories, so `Conforms` looks at it). -/
theorem entry_of_hunk_conforms {s : Store} (hci : CI H s) {b n : Nat} {es : List IndexEntry}
    (h : hunkAt s b n = some es) {e : IndexEntry} (he : e ∈ es) : entryConforms H s e = true := by
  have hget : s.get? (.hunk b n) = some (.hunk es) := by
    unfold hunkAt at h
    split at h
    · rename_i es' hg; cases h; exact hg
    · cases h
  have hbd := (hci.dirs.hunkTreeOk b n _ hget).2
  have hband : bandConforms H s b = true := by
    have := hci.conf
    unfold Conforms at this
    simp only [Bool.and_eq_true, List.all_eq_true] at this
    exact this.2 b ((mem_bandIdsOf_iff_get? hci.nodup).2 hbd)
  unfold bandConforms at hband
  simp only [Bool.and_eq_true, List.all_eq_true] at hband
  apply hband.1.1.1.2
  simp only [List.mem_flatten, List.mem_filterMap, List.mem_map]
  refine ⟨es, ⟨some (.hunk es), ⟨n, ?_, hget⟩, rfl⟩, he⟩
  exact (mem_hunkNumsOf_get? hci.nodup).2 ⟨_, hget, rfl⟩

/-- The file entries of the basis listing have addresses that resolve. -/
def BasisAddr (H : Str → Str) (s : Store) (basis : List IndexEntry) : Prop :=
  ∀ b ∈ basis, b.kind = .file → ∀ a ∈ b.addrs, (readAddrPure H s a).isSome = true

theorem BasisAddr.of_fromHunks {s : Store} (hci : CI H s) {basis : List IndexEntry} (h : FromHunks s basis) :
    BasisAddr H s basis := by
  intro b hb hk a ha
  obtain ⟨b', n, es, hes, hmem⟩ := h b hb
  have := entry_of_hunk_conforms hci hes hmem
  unfold entryConforms at this
  simp only [hk, Bool.and_eq_true, List.all_eq_true] at this
  exact this.2.2 a ha

theorem mergeTrees_matchedAddr {s : Store} {basis : List IndexEntry} (hb : BasisAddr H s basis)
    (bs : List IndexEntry) (ss : List SrcEntry) (hbs : ∀ b ∈ bs, b ∈ basis) :
    ∀ m ∈ mergeTrees bs ss, MatchedAddr H s m := by
  fun_induction mergeTrees bs ss with
  | case1 ss =>
    intro m hm
    obtain ⟨x, _, rfl⟩ := List.mem_map.mp hm
    trivial
  | case2 bs _ =>
    intro m hm
    obtain ⟨x, _, rfl⟩ := List.mem_map.mp hm
    trivial
  | case3 b bs x ss hcmp ih =>
    intro m hm
    rcases List.mem_cons.mp hm with rfl | hm
    · exact fun hk a ha => hb b (hbs b (List.mem_cons_self ..)) hk a ha
    · exact ih (fun b' hb' => hbs b' (List.mem_cons_of_mem _ hb')) m hm
  | case4 b bs x ss hcmp ih =>
    intro m hm
    rcases List.mem_cons.mp hm with rfl | hm
    · trivial
    · exact ih (fun b' hb' => hbs b' (List.mem_cons_of_mem _ hb')) m hm
  | case5 b bs x ss hcmp ih =>
    intro m hm
    rcases List.mem_cons.mp hm with rfl | hm
    · trivial
    · exact ih hbs m hm

/-- The prelude in every world: conforming throughout; if it returns, the new band is open with
no hunks, the block names returned are present intact blocks, and the basis listing's file
entries have addresses that resolve. -/
theorem backupPrelude_csat (w : World) (hw : CWOK H w) :
    CSat H backupPrelude w (fun x w1 =>
      BandOpen w1.store x.1 [] ∧ ExistsOK H w1.store x.2.1 ∧ BasisAddr H w1.store x.2.2) := by
  unfold backupPrelude
  apply CSat.bind
  refine (CSat.of_ro (Inv.isFile_ro .gcLock) hw).mono ?_
  intro locked w1 hf1 _
  split
  · exact CSat.fail hf1.wok
  · apply CSat.bind
    refine (CSat.of_ro Inv.lastBandId_ro hf1.wok).mono ?_
    intro basisBand w2 hf2 _
    apply CSat.bind
    refine (bandCreate_csat w2 hf2.wok).mono ?_
    intro band w3' hf3' hband'
    apply CSat.bind
    refine (CSat.of_ro Inv.gcLockListed_ro hf3'.wok).mono ?_
    intro locked2 w3 hf3 hst3
    split
    · exact CSat.fail hf3.wok
    have hband : BandOpen w3.store band [] := by rw [hst3]; exact hband'
    apply CSat.bind
    refine ((CSat.of_ro Inv.listBlocks_ro hf3.wok).and_run (Q' := fun hs _ => ExistsOK H w3.store hs)
      (listBlocks_result w3 hf3.ci.nodup hf3.wok.toWOK.good.blocks)).mono ?_
    intro blocks w4 hf4 ⟨hst4, hex⟩
    have hband4 : BandOpen w4.store band [] := by rw [hst4]; exact hband
    have hex4 : ExistsOK H w4.store blocks := by rw [hst4]; exact hex
    cases basisBand with
    | none => exact CSat.ret hf4.wok ⟨hband4, hex4, fun _ h => nomatch h⟩
    | some b =>
      apply CSat.bind
      refine ((CSat.of_ro (Inv.listEntries_ro b [slash] fun _ => false) hf4.wok).and_run
        (Q' := fun basis _ => FromHunks w4.store basis)
        (fun a ha => ((listEntries_spec w4.store b _ _) w4 rfl).2 a ha)).mono ?_
      intro basis w5 hf5 ⟨hst5, hfh⟩
      refine CSat.ret hf5.wok ⟨by rw [hst5]; exact hband4, by rw [hst5]; exact hex4, ?_⟩
      rw [hst5]
      exact BasisAddr.of_fromHunks hf4.ci hfh

/-- The main part in every world, from an open empty band, a sound block list, a basis listing
whose addresses resolve, and a strictly increasing well-formed source listing. -/
theorem backupMain_csat (hinj : Function.Injective H) (hlen : HashLen H) (o : BackupOpts)
    {src : List SrcEntry} (hsrc : SrcOK src)
    (x : Nat × List Str × List IndexEntry) (w : World) (hw : CWOK H w)
    (hex : ExistsOK H w.store x.2.1) (hb : BasisAddr H w.store x.2.2)
    (hband : BandOpen w.store x.1 []) :
    CSat H (backupMain H o src x) w (fun _ _ => True) := by
  unfold backupMain
  apply CSat.bind
  have hwr : W2 H w.store { band := x.1, exists_ := x.2.1 } :=
    ⟨hex, (by intro q hq; cases hq), (by intro e he; cases he), (by intro e he; cases he)⟩
  have hst0 : LoopSt H (srcOf (mergeTrees x.2.2 src)) [] w.store { band := x.1, exists_ := x.2.1 } :=
    ⟨hwr, hband, HsOK.nil _, rfl, rfl, BufOK.init _⟩
  refine (backupLoop_csat hinj hlen o _ _ w [] hw hst0 (by rw [srcOf_mergeTrees]; exact hsrc)
    (mergeTrees_matchedAddr hb _ _ (fun _ h => h))).mono ?_
  rintro wr1 w1 hf1 ⟨hs1, hst1⟩
  apply CSat.bind
  refine (flushGroup_csat hinj hlen wr1 w1 [] hs1 hf1.wok hst1).mono ?_
  rintro wr2 w2 hf2 ⟨hs2, hst2, _, hbe2⟩
  have hp2 : wr2.pending = [] := by
    have : wr2.pending ++ wr2.finished ++ wr2.queue.map (·.2.2) = [] := hbe2
    simp only [List.append_eq_nil_iff] at this
    exact this.1.1
  apply CSat.bind
  refine (finishHunk_csat wr2 w2 hs2 hf2.wok hst2.wok hst2.band hst2.hsok hst2.len
    (by rw [hp2]; exact ⟨(by intro e he; cases he), List.nodup_nil, (by intro a _ e he; cases he)⟩)).mono ?_
  rintro wr3 w3 hf3 ⟨⟨hs3, hb3, hok3, hrel⟩, _⟩
  have hfin : wr3.band = wr2.band ∧ wr3.hunksWritten = hs3.length := by
    rcases hrel with ⟨rfl, _, rfl⟩ | ⟨rfl, rfl⟩
    · exact ⟨rfl, by rw [hst2.count, hst2.len]⟩
    · refine ⟨rfl, ?_⟩
      simp only [List.length_append, List.length_cons, List.length_nil]
      rw [hst2.count, hst2.len]
  apply CSat.bind
  unfold bandClose
  have hci := exec_write_tail hf3.ci hf3.wok.enforce (by rw [← hfin.1] at hb3; exact hb3) hok3
  rw [← hfin.2] at hci
  refine (CSat.performUnit hf3.wok (createOnly_write _ _) hci).mono ?_
  intro _ w4 hf4 _
  exact CSat.ret hf4.wok trivial

/-- **`backup` in every world keeps the invariant `CI`**: the archive conforms to the format,
parents are directories, keys are distinct — of the store the run ends in, for every fault list and
every crash point, dead or alive, all options, and every strictly increasing well-formed source
listing.  Nothing is assumed about file contents, sizes or the basis version. -/
theorem backup_csat (hinj : Function.Injective H) (hlen : HashLen H) (o : BackupOpts)
    {src : List SrcEntry} (hsrc : SrcOK src) (w : World) (hw : CWOK H w) :
    CSat H (backup H o src) w (fun _ _ => True) := by
  rw [backup_eq]
  apply CSat.bind
  refine (backupPrelude_csat w hw).mono ?_
  intro x w1 hf1 ⟨hband, hex, hbasis⟩
  exact backupMain_csat hinj hlen o hsrc x w1 hf1.wok hex hbasis hband

end

end Conserve.Conf
