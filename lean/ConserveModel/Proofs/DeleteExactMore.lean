import ConserveModel.Proofs.DeleteFault
import ConserveModel.Proofs.TraceNew
/-
More about `delete_bands`, for Props/C05g.lean:
* the first band of an ARBITRARY list `D` (unsorted, with repetitions, naming absent bands) that
  cannot be removed (`split_first_bad`);
* a dry run touches only `GC_LOCK`, in every world (`touches_deleteBands_dry`);
* the store `deleted s D` a successful delete leaves satisfies the hypotheses of the
  functional-correctness theorems again, and has nothing left to collect (`unrefOf_deleted_nil`).
-/
set_option linter.unusedSimpArgs false
namespace Conserve
open Prog

/-! ### The first element of a list that is bad: fails `p`, or repeats an earlier element -/

theorem split_first_bad (p : Nat → Bool) (D : List Nat) :
    (D.Nodup ∧ ∀ b ∈ D, p b = true) ∨
    ∃ pre b post, D = pre ++ b :: post ∧ pre.Nodup ∧ (∀ b' ∈ pre, p b' = true) ∧ (p b = false ∨ b ∈ pre) := by
  induction D with
  | nil => exact .inl ⟨List.nodup_nil, fun _ h => nomatch h⟩
  | cons b D ih =>
    cases hpb : p b with
    | false => exact .inr ⟨[], b, D, rfl, List.nodup_nil, (fun _ h => nomatch h), .inl hpb⟩
    | true =>
      rcases ih with ⟨hnd, hall⟩ | ⟨pre, c, post, hD, hnd, hall, hc⟩
      · by_cases hb : b ∈ D
        · obtain ⟨l1, l2, hl⟩ := List.append_of_mem hb
          right
          refine ⟨b :: l1, b, l2, by rw [hl]; rfl, ?_, ?_, .inr List.mem_cons_self⟩
          · rw [hl] at hnd
            have h1 := (List.nodup_append.1 hnd)
            refine List.nodup_cons.2 ⟨fun hm => h1.2.2 b hm b List.mem_cons_self rfl, h1.1⟩
          · intro b' hb'
            rcases List.mem_cons.1 hb' with rfl | hb'
            · exact hpb
            · exact hall b' (by rw [hl]; exact List.mem_append_left _ hb')
        · left
          exact ⟨List.nodup_cons.2 ⟨hb, hnd⟩, fun b' hb' => by
            rcases List.mem_cons.1 hb' with rfl | hb'
            · exact hpb
            · exact hall b' hb'⟩
      · right
        by_cases hb : b ∈ pre
        · obtain ⟨l1, l2, hl⟩ := List.append_of_mem hb
          refine ⟨b :: l1, b, l2 ++ c :: post, by rw [hD, hl]; simp, ?_, ?_, .inr List.mem_cons_self⟩
          · rw [hl] at hnd
            have h1 := (List.nodup_append.1 hnd)
            refine List.nodup_cons.2 ⟨fun hm => h1.2.2 b hm b List.mem_cons_self rfl, h1.1⟩
          · intro b' hb'
            rcases List.mem_cons.1 hb' with rfl | hb'
            · exact hpb
            · exact hall b' (by rw [hl]; exact List.mem_append_left _ hb')
        · refine ⟨b :: pre, c, post, by rw [hD]; rfl, List.nodup_cons.2 ⟨hb, hnd⟩, ?_, ?_⟩
          · intro b' hb'
            rcases List.mem_cons.1 hb' with rfl | hb'
            · exact hpb
            · exact hall b' hb'
          · rcases hc with hc | hc
            · exact .inl hc
            · exact .inr (List.mem_cons_of_mem _ hc)

/-! ### A dry run touches only the lock file -/

theorem touches_bodyRest_dry (D : List Nat) (o : DeleteOpts) (held : Option Nat) (referenced : List Str)
    (hdry : o.dryRun = true) :
    TouchesOnly (fun k => k = .gcLock) (bodyRest D o held referenced) := by
  simp only [bodyRest, hdry, if_true]
  refine (readOnly_listBlocks.touchesOnly _).bind fun present => ?_
  refine ((readOnly_measure _).touchesOnly _).bind fun _ => ?_
  exact TouchesOnly.bind (.ret _) fun _ =>
    (touches_gcLockRelease (fun k => k = .gcLock) rfl).bind fun _ => .ret _

/-- **Program text, hence every world:** with `dry_run` set, every operation `delete_bands` can issue
either changes nothing or changes only `GC_LOCK` — for both versions of the reference scan, any `D`,
with or without `--break-lock`. -/
theorem touches_deleteBands_dry (strict : Bool) (D : List Nat) (o : DeleteOpts) (hdry : o.dryRun = true) :
    TouchesOnly (fun k => k = .gcLock) (deleteBands strict D o) := by
  rw [deleteBands_eq]
  refine (touches_acquire (fun k => k = .gcLock) rfl o).bind fun held => ?_
  simp only [withLock]
  refine TouchesOnly.bind (Prog.AllOps.attemptAll' ?_) fun r =>
    touches_withLock_tail (fun k => k = .gcLock) rfl r
  rw [deleteBody_eq]
  refine (readOnly_listBandIds.touchesOnly _).bind fun all => ?_
  refine ((readOnly_referencedBlocks strict _).touchesOnly _).bind fun referenced => ?_
  exact touches_bodyRest_dry D o held referenced hdry

/-- An operation that can only change `GC_LOCK` is non-mutating, or is a write / createDir /
removeFile of `GC_LOCK` itself; never a `removeDirAll` of a band. -/
theorem lockOnly_cases {o : Op} (h : ∀ k, Op.affects o k = true → k = .gcLock) :
    o.isMutating = false ∨ (o.key = .gcLock ∧ ∀ k, o ≠ .removeDirAll k) ∨ o = .removeDirAll .gcLock := by
  cases o with
  | read k => exact .inl rfl
  | listDir k => exact .inl rfl
  | metadata k => exact .inl rfl
  | write k v m => exact .inr (.inl ⟨h k (by simp [Op.affects]), fun _ e => nomatch e⟩)
  | createDir k => exact .inr (.inl ⟨h k (by simp [Op.affects]), fun _ e => nomatch e⟩)
  | removeFile k => exact .inr (.inl ⟨h k (by simp [Op.affects]), fun _ e => nomatch e⟩)
  | removeDirAll k =>
    have : k = .gcLock := h k (by simp [Op.affects, Key.isUnder])
    exact .inr (.inr (by rw [this]))

/-! ### The store after a delete that stopped at a missing band -/

theorem get?_deletedBandsOnly (s : Store) (pre : List Nat) (k : Key) :
    (deletedBandsOnly s pre).get? k = if underAny pre k then none else s.get? k := by
  rw [deletedBandsOnly, Store.get?_filter_key (fun k => !underAny pre k) s k]
  cases underAny pre k <;> rfl

theorem bandIdsOf_deletedBandsOnly (s : Store) (pre : List Nat) :
    bandIdsOf (deletedBandsOnly s pre) = (bandIdsOf s).filter fun b => !pre.contains b := by
  simp only [bandIdsOf, deletedBandsOnly]
  rw [filterMap_filter_comm _ _ (fun b => !pre.contains b), sortNat_filter]
  rintro ⟨k, v⟩ b hf
  cases k <;> cases v <;> simp at hf
  subst hf
  congr 1
  rw [Bool.eq_iff_iff]
  simp [underAny, isUnder_bandDir_bandDir]

/-! ### The store after a successful delete is again a good archive, with nothing to collect -/

theorem survives_parent {s : Store} {D : List Nat} {k p : Key} (hp : k.parent = some p)
    (hk : survives s D k = true) : survives s D p = true := by
  simp only [survives, Bool.and_eq_true, Bool.not_eq_true'] at hk ⊢
  refine ⟨?_, ?_⟩
  · cases hu : underAny D p with
    | false => rfl
    | true =>
      obtain ⟨b, hb, hbp⟩ := underAny_eq_true.1 hu
      have := underAny_eq_true.2 ⟨b, hb, isUnder_of_parent hp hbp⟩
      rw [hk.1] at this; cases this
  · cases k <;> simp [Key.parent] at hp <;> subst hp <;> rfl

theorem dirsOk_deleted {s : Store} (hd : DirsOk s) (D : List Nat) : DirsOk (deleted s D) := by
  intro kv hkv
  have hm := List.mem_filter.1 hkv
  have h1 := hd kv hm.1
  cases hp : kv.1.parent with
  | none => simp [Store.parentOk, hp]
  | some p =>
    simp only [Store.parentOk, hp] at h1 ⊢
    rw [get?_deleted, survives_parent hp hm.2]
    simpa using h1

theorem hunkDirsOf_deleted (s : Store) {D : List Nat} {b : Nat} (hb : b ∉ D) :
    hunkDirsOf (deleted s D) b = hunkDirsOf s b := by
  simp only [hunkDirsOf, deleted]
  congr 1
  apply filterMap_filter_irrelevant
  rintro ⟨k, v⟩ hsv
  cases k with
  | hunkDir b' d =>
    by_cases hbb : b' = b
    · subst hbb
      have hu : Key.isUnder (.bandDir b') (.hunkDir b' d) = true := by simp [Key.isUnder, Key.parent]
      simp [survives, underAny_of_under_kept hb hu, blockIn_of_under_band hu] at hsv
    · simp [hbb]
  | _ => rfl

theorem hunksInDir_deleted (s : Store) {D : List Nat} {b : Nat} (hb : b ∉ D) (d : Nat) :
    hunksInDir (deleted s D) b d = hunksInDir s b d := by
  simp only [hunksInDir, deleted]
  congr 1
  apply filterMap_filter_irrelevant
  rintro ⟨k, v⟩ hsv
  cases k with
  | hunk b' n =>
    by_cases hbb : b' = b
    · subst hbb
      have hu : Key.isUnder (.bandDir b') (.hunk b' n) = true := by simp [Key.isUnder, Key.parent]
      simp [survives, underAny_of_under_kept hb hu, blockIn_of_under_band hu] at hsv
    · simp [hbb]
  | _ => rfl

theorem hunksListed_deleted (s : Store) {D : List Nat} {b : Nat} (hb : b ∉ D) :
    hunksListed (deleted s D) b = hunksListed s b := by
  simp only [hunksListed, hunkDirsOf_deleted s hb]
  congr 1
  funext d
  exact hunksInDir_deleted s hb d

theorem bandReadable_deleted {s : Store} {D : List Nat} {b : Nat} (hb : b ∉ D) (h : BandReadable s b) :
    BandReadable (deleted s D) b := by
  have hk : ∀ k, Key.isUnder (.bandDir b) k = true → (deleted s D).get? k = s.get? k :=
    fun k hk => kept_band_unchanged s hb hk
  refine ⟨?_, ?_, ?_⟩
  · simp only [headReadable, hk (.bandHead b) (by simp [Key.isUnder, Key.parent])]
    exact h.head
  · rw [hk (.indexDir b) (by simp [Key.isUnder, Key.parent])]; exact h.index
  · intro n hn
    rw [hunksListed_deleted s hb] at hn
    simp only [hunkUsable, hk (.hunk b n) (by simp [Key.isUnder, Key.parent])]
    exact h.hunks n hn

theorem mem_keptOf {s : Store} {D : List Nat} {b : Nat} : b ∈ keptOf s D ↔ b ∈ bandIdsOf s ∧ b ∉ D := by
  simp [keptOf]

theorem keptOf_nil (s : Store) : keptOf s [] = bandIdsOf s := by
  simp [keptOf]

/-- After a successful delete of `D` the archive is again well-formed for any further delete `D'`
(the kept bands of the new store are among the kept bands of the old one). -/
theorem delArchOK_deleted {s : Store} {D : List Nat} (ok : DelArchOK s D) (D' : List Nat) :
    DelArchOK (deleted s D) D' where
  nodup := ok.nodup.filter _
  root := by rw [other_unchanged s (by simp [underAny, Key.isUnder, Key.parent]) (by intro h; simp)]; exact ok.root
  blockRoot := by
    rw [other_unchanged s (by simp [underAny, Key.isUnder, Key.parent]) (by intro h; simp)]; exact ok.blockRoot
  kept := by
    intro b hb
    have hb' := (mem_keptOf.1 hb).1
    rw [bandIdsOf_deleted] at hb'
    exact bandReadable_deleted (mem_keptOf.1 hb').2 (ok.kept b hb')

theorem newestComplete_deleted_nil {s : Store} (hnew : newestComplete s) :
    newestComplete (deleted s []) := by
  intro b hb
  rw [bandIdsOf_deleted, keptOf_nil] at hb
  have := hnew b hb
  simp only [isComplete] at this ⊢
  rw [kept_band_unchanged s (D := []) (b := b) (by simp) (by simp [Key.isUnder, Key.parent])]
  exact this

/-- Being referenced by a kept band is the same before and after the delete. -/
theorem referencedBy_deleted {s : Store} {D : List Nat} {h : Str} :
    referencedBy (deleted s D) (bandIdsOf (deleted s D)) h ↔ referencedBy s (keptOf s D) h := by
  rw [bandIdsOf_deleted]
  constructor
  · rintro ⟨b, hb, n, es, hes, rest⟩
    refine ⟨b, hb, n, es, ?_, rest⟩
    simp only [hunkAt] at hes ⊢
    rwa [kept_band_unchanged s (mem_keptOf.1 hb).2 (by simp [Key.isUnder, Key.parent])] at hes
  · rintro ⟨b, hb, n, es, hes, rest⟩
    refine ⟨b, hb, n, es, ?_, rest⟩
    simp only [hunkAt] at hes ⊢
    rwa [kept_band_unchanged s (mem_keptOf.1 hb).2 (by simp [Key.isUnder, Key.parent])]

theorem blockListed_deleted {s : Store} {D : List Nat} {h : Str} :
    blockListed (deleted s D) h ↔ blockListed s h ∧ h ∉ unrefOf s D := by
  simp only [blockListed, get?_deleted_block]
  by_cases hm : h ∈ unrefOf s D
  · simp [hm]
  · simp [hm]

/-- **Nothing is left to collect**: in the store a successful delete leaves, every block file
`list_blocks` can see is named by a band that is still there. -/
theorem unrefOf_deleted_nil {s : Store} {D : List Nat} (hn : UniqueKeys s) (hd : DirsOk s) :
    unrefOf (deleted s D) [] = [] := by
  apply List.eq_nil_iff_forall_not_mem.2
  intro h hh
  have hn' : UniqueKeys (deleted s D) := hn.filter _
  have h1 := (mem_unrefOf_iff hn' (dirsOk_deleted hd D)).1 hh
  rw [keptOf_nil] at h1
  obtain ⟨hl, hlen, hnr⟩ := h1
  have hl' := blockListed_deleted.1 hl
  apply hnr
  rw [referencedBy_deleted]
  apply Classical.byContradiction
  intro hr
  exact hl'.2 ((mem_unrefOf_iff hn hd).2 ⟨hl'.1, hlen, hr⟩)

theorem deleted_nil_of_no_garbage {s : Store} (h : unrefOf s [] = []) : deleted s [] = s := by
  simp only [deleted, survives, h]
  apply List.filter_eq_self.2
  rintro ⟨k, v⟩ _
  cases k <;> simp [underAny, blockIn]

/-! ### A successful `referenced_blocks` opened every band it was given -/

/-- In ANY world: if `Band::open` returns `Ok`, the head file really holds an accepted head. -/
theorem bandOpen_ok_sound {b : Nat} {w : World} (h : ((bandOpen b).run w).1 = .ok ()) :
    headReadable w.store b = true := by
  simp only [bandOpen, perform, bind_def, op_bind, ret_bind] at h
  obtain ⟨w', r, hrun, _, hr⟩ := run_op_ro_inv (o := .read (.bandHead b)) _ w rfl
  rw [hrun] at h
  rcases hr with rfl | ⟨e, rfl⟩
  · simp only [roResp, readResp] at h
    cases hg : w.store.get? (.bandHead b) with
    | none => simp [hg] at h
    | some v =>
      cases v with
      | head ver flags =>
        cases ver <;> simp [hg] at h
        · cases flags with
          | nil => simp [headReadable, hg]
          | cons x xs => simp at h
        · cases flags with
          | nil => simp [headReadable, hg]
          | cons x xs => simp at h
      | _ => simp [hg] at h
  · cases e <;> simp at h

/-- In ANY world (either scan): if `referenced_blocks` returns at all, every band it was given has
an accepted head. -/
theorem referencedBlocks_heads (strict : Bool) (bs : List Nat) :
    ∀ (w : World) (refs : List Str), ((referencedBlocks strict bs).run w).1 = .ok refs →
      ∀ b ∈ bs, headReadable w.store b = true := by
  induction bs with
  | nil => intro w refs _ b hb; cases hb
  | cons b' bs ih =>
    intro w refs h b hb
    have key : ∀ (av : Prog (List Nat)), ReadOnlyProg av →
        (((bandOpen b').bind fun _ => av.bind fun hunks => (bandHunkEntries strict b' hunks).bind fun es =>
          (referencedBlocks strict bs).bind fun more =>
            ret (dedupStr (List.flatMap (fun e => List.map (fun x => x.hash) e.addrs) es ++ more))).run w).1
          = .ok refs → headReadable w.store b = true := by
      intro av hro h
      obtain ⟨_, w1, h1, hst1, h⟩ := run_bind_ok_ro (readOnly_bandOpen b') h
      obtain ⟨hunks, w2, _, hst2, h⟩ := run_bind_ok_ro hro h
      obtain ⟨all, w3, _, hst3, h⟩ := run_bind_ok_ro (readOnly_bandHunkEntries strict b' hunks) h
      obtain ⟨more, w4, hmore, _, h⟩ := run_bind_ok_ro (readOnly_referencedBlocks strict bs) h
      rcases List.mem_cons.1 hb with rfl | hb
      · exact bandOpen_ok_sound (by rw [h1])
      · have e3 : w3.store = w.store := hst3.trans (hst2.trans hst1)
        rw [← e3]
        exact ih w3 more (by rw [hmore]) b hb
    cases strict with
    | true =>
      simp only [referencedBlocks, bind_def, pure_def, if_true] at h
      exact key _ (readOnly_hunksAvailable b') h
    | false =>
      simp only [referencedBlocks, bind_def, pure_def, Bool.false_eq_true, if_false] at h
      exact key _ (readOnly_iterAvailableHunks b') h

end Conserve
