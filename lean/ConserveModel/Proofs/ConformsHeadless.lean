import ConserveModel.Proofs.ConformsStep
import ConserveModel.Proofs.StitchStore
/-
A conforming archive (C13: `CI` — conforms to the format, a tree, a map) has no version that lost
its head: `bandConforms` allows a version directory without head file only with NO hunk files at all
("killed right after creating the directory").  So the repaired `previous_existing_band`, which
reports an id without head whose index holds hunk 0 (`headLost`, StitchSpec.lean), is silent on every
archive the tool can produce.  No property statements here (Props/C10h.lean).
-/
namespace Conserve.Conf
open Conserve Conserve.Inv

variable {H : Str → Str}

theorem CI.headLost_false {s : Store} (h : CI H s) (c : Nat) : headLost s c = false := by
  unfold headLost
  cases hg : s.get? (.hunk c 0) with
  | none => simp
  | some v =>
    by_cases hv : v.isDir = true
    · simp [hv]
    · have hv' : v.isDir = false := by simpa using hv
      have hdir := (h.dirs.hunkTreeOk c 0 v hg).2
      have hc : c ∈ bandIdsOf s := mem_bandIdsOf'.mpr (get?_mem hdir)
      have hconf := h.conf
      unfold Conforms at hconf
      simp only [Bool.and_eq_true, List.all_eq_true] at hconf
      have hb := hconf.2 c hc
      have h0 : 0 ∈ hunkNumsOf s c := (mem_hunkNumsOf_get? h.nodup).mpr ⟨v, hg, hv'⟩
      unfold bandConforms at hb
      simp only [Bool.and_eq_true] at hb
      have hhead := hb.2
      have hne : (hunkNumsOf s c).isEmpty = false := by
        cases hl : hunkNumsOf s c with
        | nil => rw [hl] at h0; cases h0
        | cons _ _ => rfl
      have hp : bandPresent s c = true := by
        unfold bandPresent
        cases hh : s.get? (.bandHead c) with
        | none => simp [hh, hne] at hhead
        | some hv => cases hv <;> simp [hh, hne, FileVal.isDir] at hhead ⊢
      simp [hp]

end Conserve.Conf
