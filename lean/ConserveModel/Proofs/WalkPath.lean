import ConserveModel.Proofs.WalkRec
import ConserveModel.Proofs.ApathPrefix
/-
Helper lemmas: paths as component lists (`pathOf`), their sort keys, and the comparisons the
walk-order proof needs.
-/
namespace Conserve
open Std

/-- The apath with the given components below the root. -/
def pathOf : List Str → Str
  | [] => [slash]
  | c :: cs => slash :: joinSlash (c :: cs)

/-- Every component is a good name. -/
def GoodComps (cs : List Str) : Prop := ∀ c ∈ cs, goodName c = true

theorem goodName_iff (c : Str) :
    goodName c = true ↔ c ≠ [] ∧ slash ∉ c ∧ 0 ∉ c ∧ c ≠ [dot] ∧ c ≠ [dot, dot] := by
  simp [goodName, and_assoc]

theorem GoodComps.append {a b : List Str} (ha : GoodComps a) (hb : GoodComps b) :
    GoodComps (a ++ b) := by
  intro c hc
  rcases List.mem_append.1 hc with h | h
  · exact ha c h
  · exact hb c h

theorem GoodComps.left {a b : List Str} (h : GoodComps (a ++ b)) : GoodComps a :=
  fun c hc => h c (List.mem_append_left _ hc)

theorem GoodComps.right {a b : List Str} (h : GoodComps (a ++ b)) : GoodComps b :=
  fun c hc => h c (List.mem_append_right _ hc)

theorem GoodComps.single {x : Str} (h : goodName x = true) : GoodComps [x] := by
  intro c hc; rw [List.mem_singleton.1 hc]; exact h

theorem splitSlash_of_not_mem {c : Str} (h : slash ∉ c) : splitSlash c = [c] := by
  induction c with
  | nil => rfl
  | cons a as ih =>
    have ha : a ≠ slash := fun e => h (e ▸ List.mem_cons_self)
    have has : slash ∉ as := fun e => h (List.mem_cons_of_mem _ e)
    rw [splitSlash, if_neg ha, ih has]

theorem splitSlash_joinSlash {c : Str} {cs : List Str} (h : ∀ x ∈ c :: cs, slash ∉ x) :
    splitSlash (joinSlash (c :: cs)) = c :: cs := by
  induction cs generalizing c with
  | nil => exact splitSlash_of_not_mem (h c List.mem_cons_self)
  | cons d ds ih =>
    rw [joinSlash_cons_cons, splitSlash_append_slash, splitSlash_of_not_mem (h c List.mem_cons_self),
      ih (fun x hx => h x (List.mem_cons_of_mem _ hx))]
    rfl

theorem joinSlash_ne_nil {c : Str} (cs : List Str) (h : c ≠ []) : joinSlash (c :: cs) ≠ [] := by
  cases cs with
  | nil => exact h
  | cons d ds => rw [joinSlash_cons_cons]; simp [h]

theorem GoodComps.noSlash {cs : List Str} (h : GoodComps cs) : ∀ x ∈ cs, slash ∉ x :=
  fun x hx => ((goodName_iff x).1 (h x hx)).2.1

theorem splitSlash_pathOf {c : Str} {cs : List Str} (h : GoodComps (c :: cs)) :
    splitSlash (pathOf (c :: cs)) = [] :: c :: cs := by
  have : splitSlash (pathOf (c :: cs)) = [] :: splitSlash (joinSlash (c :: cs)) := by
    simp [pathOf, splitSlash]
  rw [this, splitSlash_joinSlash h.noSlash]

theorem components_pathOf {cs : List Str} (h : GoodComps cs) : components (pathOf cs) = cs := by
  cases cs with
  | nil => rfl
  | cons c cs =>
    have hne := joinSlash_ne_nil cs ((goodName_iff c).1 (h c List.mem_cons_self)).1
    unfold pathOf
    rw [components_cons _ hne, splitSlash_joinSlash h.noSlash]

theorem pathOf_injective {a b : List Str} (ha : GoodComps a) (hb : GoodComps b)
    (h : pathOf a = pathOf b) : a = b := by
  rw [← components_pathOf ha, ← components_pathOf hb, h]

theorem pathOf_valid {cs : List Str} (h : GoodComps cs) : isValid (pathOf cs) = true := by
  rw [C11.valid_iff_spec]
  refine ⟨by cases cs <;> rfl, Or.inr ?_⟩
  rw [components_pathOf h]
  intro c hc
  have := (goodName_iff c).1 (h c hc)
  exact ⟨this.1, this.2.2.2.1, this.2.2.2.2, this.2.2.1⟩

/-- `Apath::append` on a path given by components. -/
theorem apathAppend_pathOf {cs : List Str} (h : GoodComps cs) (x : Str) :
    apathAppend (pathOf cs) x = pathOf (cs ++ [x]) := by
  cases cs with
  | nil => simp [apathAppend, pathOf, joinSlash]
  | cons c cs =>
    have hne := joinSlash_ne_nil cs ((goodName_iff c).1 (h c List.mem_cons_self)).1
    have h1 : pathOf (c :: cs) ≠ [slash] := by
      simp [pathOf, hne]
    rw [apathAppend, if_neg h1]
    have := joinSlash_append (List.cons_ne_nil c cs) (List.cons_ne_nil x [])
    simp only [pathOf, List.cons_append] at this ⊢
    rw [this]
    simp [joinSlash]

/-- The keys of the directory part: every component flagged 1, after the empty first piece. -/
def dirKeys (cs : List Str) : List Str := (1 :: []) :: cs.map (1 :: ·)

theorem keysOf_append (o : Str) (pre : List Str) (x : Str) (t : List Str) :
    keysOf o (pre ++ x :: t) = (o :: pre).map (1 :: ·) ++ keysOf x t := by
  induction pre generalizing o with
  | nil => simp [keysOf]
  | cons p pre ih => simp [keysOf, ih]

theorem keys_pathOf {cs : List Str} {x : Str} {t : List Str} (h : GoodComps (cs ++ x :: t)) :
    keys (pathOf (cs ++ x :: t)) = dirKeys cs ++ keysOf x t := by
  have hne : cs ++ x :: t ≠ [] := by simp
  obtain ⟨c, r, hcr⟩ := List.exists_cons_of_ne_nil hne
  unfold keys
  rw [hcr] at h
  rw [hcr, splitSlash_pathOf h, ← hcr]
  show keysOf [] (cs ++ x :: t) = _
  rw [keysOf_append]
  rfl

/-! ### Lexicographic comparison of key lists -/

theorem compare_append_left (p a b : List Str) : compare (p ++ a) (p ++ b) = compare a b := by
  induction p with
  | nil => rfl
  | cons k p ih =>
    simp only [List.cons_append]
    rw [List.compare_cons_cons, ih]
    simp [ReflOrd.compare_self]

theorem compare_keysOf_nil_nil (x y : Str) : compare (keysOf x []) (keysOf y []) = compare x y := by
  simp only [keysOf]
  rw [List.compare_cons_cons, compare_cons_same]
  have : compare ([] : List Str) [] = .eq := ReflOrd.compare_self
  rw [this]; cases compare x y <;> rfl

theorem compare_keysOf_nil_cons (x y z : Str) (t : List Str) :
    compare (keysOf x []) (keysOf y (z :: t)) = .lt := by
  simp only [keysOf]
  rw [List.compare_cons_cons, compare_zero_one]; rfl

theorem compare_keysOf_cons_cons {x y : Str} (h : compare x y = .lt) (a b : Str) (s t : List Str) :
    compare (keysOf x (a :: s)) (keysOf y (b :: t)) = .lt := by
  simp only [keysOf]
  rw [List.compare_cons_cons, compare_cons_same, h]; rfl

/-- Comparison of two paths below a common directory `cs`. -/
theorem apathCmp_pathOf {cs : List Str} {x y : Str} {s t : List Str}
    (h1 : GoodComps (cs ++ x :: s)) (h2 : GoodComps (cs ++ y :: t)) :
    apathCmp (pathOf (cs ++ x :: s)) (pathOf (cs ++ y :: t)) =
      compare (keysOf x s) (keysOf y t) := by
  rw [apathCmp_eq_keys, keys_pathOf h1, keys_pathOf h2, compare_append_left]

/-- Siblings compare as their names. -/
theorem apathCmp_siblings {cs : List Str} {x y : Str}
    (h1 : GoodComps (cs ++ [x])) (h2 : GoodComps (cs ++ [y])) :
    apathCmp (pathOf (cs ++ [x])) (pathOf (cs ++ [y])) = compare x y := by
  rw [apathCmp_pathOf h1 h2, compare_keysOf_nil_nil]

/-- A child of `cs` sorts before anything at least two levels below `cs`. -/
theorem apathCmp_child_deeper {cs : List Str} {x y z : Str} {t : List Str}
    (h1 : GoodComps (cs ++ [x])) (h2 : GoodComps (cs ++ y :: z :: t)) :
    apathCmp (pathOf (cs ++ [x])) (pathOf (cs ++ y :: z :: t)) = .lt := by
  rw [apathCmp_pathOf h1 h2, compare_keysOf_nil_cons]

/-- Everything strictly below `cs/x` sorts before everything strictly below `cs/y` when `x < y`. -/
theorem apathCmp_below_siblings {cs : List Str} {x y a b : Str} {s t : List Str}
    (hxy : compare x y = .lt)
    (h1 : GoodComps (cs ++ x :: a :: s)) (h2 : GoodComps (cs ++ y :: b :: t)) :
    apathCmp (pathOf (cs ++ x :: a :: s)) (pathOf (cs ++ y :: b :: t)) = .lt := by
  rw [apathCmp_pathOf h1 h2, compare_keysOf_cons_cons hxy]

/-! ### Well-formed listings -/

theorem Forest.hasName_iff (f : Forest) (name : Str) :
    f.hasName name = true ↔ ∃ p ∈ f.toList, p.1 = name := by
  induction f using Forest.induct with
  | nil => simp [Forest.hasName, Forest.toList]
  | cons nm n rest ih => simp [Forest.hasName, Forest.toList, ih]

theorem Node.WF_kids {n : Node} (h : n.WF = true) : n.kids.WF = true := by
  cases n <;> simp_all [Node.WF, Node.kids, Forest.WF]

/-- What `WF` says about one listing: good, pairwise distinct names and well-formed children. -/
theorem Forest.WF_iff (f : Forest) :
    f.WF = true ↔
      f.toList.Pairwise (fun a b => a.1 ≠ b.1) ∧
        ∀ p ∈ f.toList, goodName p.1 = true ∧ p.2.WF = true := by
  induction f using Forest.induct with
  | nil => simp [Forest.WF, Forest.toList]
  | cons nm n rest ih =>
    simp only [Forest.WF, Forest.toList, Bool.and_eq_true, Bool.not_eq_true', List.pairwise_cons,
      List.mem_cons, forall_eq_or_imp, ih]
    have : rest.hasName nm = false ↔ ∀ a' ∈ rest.toList, nm ≠ a'.1 := by
      rw [← Bool.not_eq_true, Forest.hasName_iff]
      constructor
      · intro h a ha e; exact h ⟨a, ha, e.symm⟩
      · rintro h ⟨a, ha, e⟩; exact h a ha e.symm
    rw [this]
    constructor
    · rintro ⟨⟨⟨h1, h2⟩, h3⟩, h4, h5⟩; exact ⟨⟨h2, h4⟩, ⟨h1, h3⟩, h5⟩
    · rintro ⟨⟨h2, h4⟩, ⟨h1, h3⟩, h5⟩; exact ⟨⟨⟨h1, h2⟩, h3⟩, h4, h5⟩

theorem Node.entry_apath (n : Node) (ap : Str) : (n.entry ap).apath = ap := by
  cases n <;> rfl

end Conserve
