import ConserveModel.Proofs.WalkSort
/-
Helper lemmas: the recursion equation of `Forest.walkBelow`, induction on trees through
`Node.kids`, and the iterator (`iterRun`) against the recursive specification.
-/
namespace Conserve

/-- The children of directory `ap` that pass the exclusion test, in `read_dir` order. -/
def live (excl : Str → Bool) (ap : Str) (f : Forest) : List (Str × Node) :=
  f.toList.filter (fun p => !excl (apathAppend ap p.1))

/-- Order of `children.sort_unstable_by(|a, b| a.0.cmp(&b.0))`. -/
def nameLe (a b : Str × Node) : Bool := strLe a.1 b.1

/-- Order of `subdir_apaths.sort_unstable()` for children of `ap`. -/
def childApLe (ap : Str) (a b : Str × Node) : Bool :=
  apathLe (apathAppend ap a.1) (apathAppend ap b.1)

/-- Induction on a directory listing (ignoring what is inside the nodes). -/
theorem Forest.induct {P : Forest → Prop} (nil : P .nil)
    (cons : ∀ name n rest, P rest → P (.cons name n rest)) : ∀ f, P f
  | .nil => nil
  | .cons name n rest => cons name n rest (Forest.induct nil cons rest)

theorem Nat.le_sum_of_mem' {L : List Nat} {x : Nat} (h : x ∈ L) : x ≤ L.sum := by
  induction L with
  | nil => cases h
  | cons y L ih =>
    rcases List.mem_cons.1 h with rfl | h
    · simp
    · have := ih h; simp; omega

theorem Node.walkBelow_eq_kids (excl : Str → Bool) (n : Node) (ap : Str) :
    n.walkBelow excl ap = n.kids.walkBelow excl ap := by
  cases n <;> simp [Node.walkBelow, Node.kids, Forest.walkBelow, Forest.items, assemble, sortBy]

theorem Forest.items_eq (excl : Str → Bool) (f : Forest) (ap : Str) :
    f.items excl ap =
      (live excl ap f).map (fun p => (p, p.2.walkBelow excl (apathAppend ap p.1))) := by
  induction f using Forest.induct with
  | nil => simp [Forest.items, live, Forest.toList]
  | cons name n rest ih =>
    rw [Forest.items, ih]
    simp only [live, Forest.toList, List.filter_cons]
    by_cases h : excl (apathAppend ap name) = true <;> simp [h]

/-- The recursion equation of the specification: the non-excluded children sorted by name,
then the walk below each child directory, in apath order. -/
theorem Forest.walkBelow_eq (excl : Str → Bool) (f : Forest) (ap : Str) :
    f.walkBelow excl ap =
      (sortBy nameLe (live excl ap f)).map (fun p => p.2.entry (apathAppend ap p.1)) ++
      (sortBy (childApLe ap) ((live excl ap f).filter (·.2.isDir))).flatMap
        (fun p => p.2.kids.walkBelow excl (apathAppend ap p.1)) := by
  unfold Forest.walkBelow assemble
  rw [Forest.items_eq]
  have h1 := sortBy_map (fun p : Str × Node => (p, p.2.walkBelow excl (apathAppend ap p.1)))
    (le' := fun a b : Item => strLe a.1.1 b.1.1) (le := nameLe) (fun _ _ => rfl)
  have h2 := sortBy_map (fun p : Str × Node => (p, p.2.walkBelow excl (apathAppend ap p.1)))
    (le' := fun a b : Item => apathLe (apathAppend ap a.1.1) (apathAppend ap b.1.1))
    (le := childApLe ap) (fun _ _ => rfl)
  congr 1
  · rw [h1, List.map_map]
    rfl
  · rw [List.filter_map, h2, List.flatMap_map]
    congr 1
    funext p
    exact Node.walkBelow_eq_kids excl p.2 _

theorem walkRec_eq (root : Node) (excl : Str → Bool) :
    walkRec root excl = root.entry [slash] :: root.kids.walkBelow excl [slash] := by
  unfold walkRec
  rw [Node.walkBelow_eq_kids]

/-! ### Sizes and induction -/

theorem Node.kids_size_lt (n : Node) : n.kids.size < n.size := by
  cases n <;> simp [Node.kids, Node.size, Forest.size]

theorem Forest.size_eq_sum (f : Forest) : f.size = (f.toList.map (·.2.size)).sum := by
  induction f using Forest.induct with
  | nil => simp [Forest.size, Forest.toList]
  | cons name n rest ih => simp [Forest.size, Forest.toList, ih]

theorem Forest.size_le_of_mem {f : Forest} {p : Str × Node} (h : p ∈ f.toList) :
    p.2.size ≤ f.size := by
  rw [Forest.size_eq_sum]
  exact Nat.le_sum_of_mem' (List.mem_map.2 ⟨p, h, rfl⟩)

/-- Induction on trees: to prove `P` of a directory listing, assume it for the listing of
every child. -/
theorem Forest.kids_induction {P : Forest → Prop}
    (h : ∀ f, (∀ p ∈ f.toList, P p.2.kids) → P f) (f : Forest) : P f := by
  suffices ∀ k f, f.size < k → P f from this _ f (Nat.lt_succ_self _)
  intro k
  induction k with
  | zero => intro f hf; omega
  | succ k ih =>
    intro f hf
    apply h
    intro p hp
    apply ih
    have := Forest.size_le_of_mem hp
    have := p.2.kids_size_lt
    omega

theorem mem_live {excl : Str → Bool} {ap : Str} {f : Forest} {p : Str × Node} :
    p ∈ live excl ap f ↔ p ∈ f.toList ∧ excl (apathAppend ap p.1) = false := by
  simp [live, List.mem_filter]

private theorem count_le (L : List (Str × Node)) (q r : Str × Node → Bool) (g : Str × Node → Nat)
    (hg : ∀ p ∈ L, g p + 1 ≤ p.2.size) :
    (L.filter q).length + (((L.filter q).filter r).map g).sum ≤ (L.map (·.2.size)).sum := by
  induction L with
  | nil => simp
  | cons p L ih =>
    have h1 := hg p List.mem_cons_self
    have h2 := ih (fun x hx => hg x (List.mem_cons_of_mem _ hx))
    rw [List.filter_cons]
    by_cases hq : q p = true
    · rw [if_pos hq, List.filter_cons]
      by_cases hr : r p = true
      · rw [if_pos hr]; simp only [List.length_cons, List.map_cons, List.sum_cons]; omega
      · rw [if_neg hr]; simp only [List.length_cons, List.map_cons, List.sum_cons]; omega
    · rw [if_neg hq]; simp only [List.map_cons, List.sum_cons]; omega

/-- The walk emits at most one entry per node. -/
theorem Forest.walkBelow_length_le (excl : Str → Bool) (f : Forest) :
    ∀ ap, (f.walkBelow excl ap).length ≤ f.size := by
  induction f using Forest.kids_induction with
  | h f ih =>
    intro ap
    rw [Forest.walkBelow_eq, List.length_append, List.length_map, length_sortBy,
      List.length_flatMap, Forest.size_eq_sum]
    rw [((sortBy_perm (childApLe ap) _).map _).sum_nat]
    unfold live
    apply count_le
    intro p hp
    have := ih p hp (apathAppend ap p.1)
    have := p.2.kids_size_lt
    omega

/-! ### The iterator against the specification -/

theorem scanDir_eq (excl : Str → Bool) (ap : Str) (f : Forest) :
    scanDir excl ap f =
      ((live excl ap f).map (fun p => (p.1, p.2.entry (apathAppend ap p.1))),
       ((live excl ap f).filter (·.2.isDir)).map (fun p => (apathAppend ap p.1, p.2.kids))) := by
  induction f using Forest.induct with
  | nil => simp [scanDir, live, Forest.toList]
  | cons name n rest ih =>
    rw [scanDir, ih]
    simp only [live, Forest.toList, List.filter_cons]
    by_cases h : excl (apathAppend ap name) = true
    · simp [h]
    · by_cases hd : n.isDir = true <;> simp [h, hd]

theorem pushFrontRev_eq {α : Type} (xs deque : List α) : pushFrontRev xs deque = xs ++ deque := by
  unfold pushFrontRev
  induction xs generalizing deque with
  | nil => rfl
  | cons x xs ih => simp [List.foldl_append, ih]

theorem visitNextDirectory_eq (excl : Str → Bool) (ap : Str) (f : Forest)
    (es : List SrcEntry) (ds : List (Str × Forest)) :
    visitNextDirectory excl ap f es ds =
      (es ++ (sortBy nameLe (live excl ap f)).map (fun p => p.2.entry (apathAppend ap p.1)),
       (sortBy (childApLe ap) ((live excl ap f).filter (·.2.isDir))).map
          (fun p => (apathAppend ap p.1, p.2.kids)) ++ ds) := by
  have h1 := sortBy_map (fun p : Str × Node => (p.1, p.2.entry (apathAppend ap p.1)))
    (le' := fun a b : Str × SrcEntry => strLe a.1 b.1) (le := nameLe) (fun _ _ => rfl)
  have h2 := sortBy_map (fun p : Str × Node => (apathAppend ap p.1, p.2.kids))
    (le' := fun a b : Str × Forest => apathLe a.1 b.1) (le := childApLe ap) (fun _ _ => rfl)
  unfold visitNextDirectory
  simp only [scanDir_eq, pushFrontRev_eq]
  rw [h1, h2, List.map_map]
  rfl

/-- What the iterator still has to emit, by the specification: the queued entries, then the
walk below every queued directory. -/
def pending (excl : Str → Bool) (es : List SrcEntry) (ds : List (Str × Forest)) : List SrcEntry :=
  es ++ ds.flatMap (fun d => d.2.walkBelow excl d.1)

/-- Turns of the `next` loop that certainly suffice from a given state. -/
def turnsNeeded (excl : Str → Bool) (es : List SrcEntry) (ds : List (Str × Forest)) : Nat :=
  es.length + (ds.map (fun d => 1 + 2 * (d.2.walkBelow excl d.1).length)).sum + 1

theorem iterRun_eq_pending (excl : Str → Bool) (fuel : Nat) :
    ∀ es ds, turnsNeeded excl es ds ≤ fuel → iterRun excl fuel es ds = pending excl es ds := by
  induction fuel with
  | zero => intro es ds h; simp [turnsNeeded] at h
  | succ fuel ih =>
    intro es ds h
    cases es with
    | cons e es =>
      rw [iterRun, ih es ds (by simp [turnsNeeded] at h ⊢; omega)]
      rfl
    | nil =>
      cases ds with
      | nil => simp [iterRun, pending]
      | cons d ds =>
        obtain ⟨ap, f⟩ := d
        rw [iterRun]
        simp only [visitNextDirectory_eq, List.nil_append]
        rw [ih]
        · simp only [pending, List.flatMap_append, List.flatMap_map, List.flatMap_cons]
          rw [Forest.walkBelow_eq excl f ap, List.append_assoc, List.nil_append]
        · simp only [turnsNeeded, List.length_nil, List.map_cons, List.sum_cons, Nat.zero_add] at h
          rw [Forest.walkBelow_eq, List.length_append, List.length_map, length_sortBy,
            List.length_flatMap] at h
          simp only [turnsNeeded, List.length_map, length_sortBy, List.map_append, List.map_map,
            List.sum_append]
          -- the subdirectories are among the children
          have hlen : (sortBy (childApLe ap) ((live excl ap f).filter (·.2.isDir))).length
              ≤ (live excl ap f).length := by
            rw [length_sortBy]; exact List.length_filter_le _ _
          generalize sortBy (childApLe ap) ((live excl ap f).filter (·.2.isDir)) = S at *
          have hsum : ∀ (S : List (Str × Node)) (g : Str × Node → Nat),
              (S.map (fun p => 1 + 2 * g p)).sum = S.length + 2 * (S.map g).sum := by
            intro S g
            induction S with
            | nil => rfl
            | cons s S ih => simp only [List.map_cons, List.sum_cons, List.length_cons, ih]; omega
          have := hsum S (fun p => (p.2.kids.walkBelow excl (apathAppend ap p.1)).length)
          simp only [Function.comp_def] at *
          omega

end Conserve
