import ConserveModel.Proofs.ProtocolInv5
/-
Invariants of the protocol skeleton, group 6: the REPAIRED backup (`recheck = true`: after creating
its band the backup looks for the gc lock again, and only then lists the blocks).  No hypothesis
on the schedule.

Why it is safe now.  gc remembers the newest band id (N) before it writes the lock (W) and compares
again in `check()` (K) before any removal (D); the backup creates its band (C), looks for the lock
again (L2) and only then lists the blocks (B).
* C before N: gc sees an open newest band and refuses — or the backup had finished (`SawDone`).
* C between N and K: `check()` sees a new newest band and refuses.
  (These two are `check_pass_case`: when `check()` passes, the backup has not created its band
  yet, or it is done and gc has taken the new band's references into account.)
* C after K, hence after W: at L2 the lock is still there (gc holds it as long as it sweeps:
  `Inv1.lock`) and the backup refuses, leaving a band without a tail — or gc has unlocked, and
  every removal is over before B.
Hence `Exclusive`: gc in its sweep phase and the backup between L2 and its tail never coexist.
-/
set_option linter.unusedVariables false  -- uniform lemma signatures

namespace Conserve.Proto

/-- While gc sweeps (between a `check()` that passed and the unlock), the repaired backup is not
between its second lock check and its tail: it has not listed the blocks and will not list them
while the lock is there, or it has finished. -/
def Exclusive (p : State) : Prop :=
  p.b.recheck = true → p.g.pc = .sweep →
    p.b.pc ≠ .listBlocks ∧ p.b.pc ≠ .blocks ∧ p.b.pc ≠ .tail
/-- While gc sweeps, a backup that is done was done when gc looked at the newest band: its band is
about to be deleted or shares no block with `unref`. -/
def DoneSeen (p : State) : Prop :=
  p.b.recheck = true → p.g.pc = .sweep → p.b.pc = .done →
    ∀ b ∈ p.bands, isNew p b → b.id ∈ p.g.todoBands ∨ ∀ g ∈ b.refs, g ∉ p.g.unref
/-- `Snapshot` without a condition on the schedule: while the repaired backup handles blocks,
what it believes to exist (and needs) does exist. -/
def SnapshotR (p : State) : Prop :=
  p.b.recheck = true → p.b.pc = .blocks → ∀ g ∈ p.b.needed, g ∈ p.b.exists_ → g ∈ p.present
/-- `NewSafe` without a condition on the schedule: every block the repaired backup's band refers
to is present. -/
def NewSafeR (p : State) : Prop :=
  p.b.recheck = true → ∀ b ∈ p.bands, isNew p b → ∀ g ∈ b.refs, g ∈ p.present

structure Inv6 (c : Config) (p : State) : Prop where
  exclusive : Exclusive p
  doneSeen : DoneSeen p
  snapshotR : SnapshotR p
  newSafeR : NewSafeR p

theorem Inv6.start (c : Config) : Inv6 c c.start := by
  constructor <;>
    simp [Config.start, isNew, BPc.mkdirDone, Exclusive, DoneSeen, SnapshotR, NewSafeR]

section
variable {c : Config} {p : State}

/-- The moment `check()` passes, seen from the repaired backup: it has not created its band, or it
is done. -/
theorem check_pass_pc (h1 : Inv1 c p) (h2 : Inv2 c p) (h4 : Inv4 c p)
    (hpc : p.g.pc = .measure) (heq : newestId p.bands = p.g.newest) :
    p.b.pc ≠ .listBlocks ∧ p.b.pc ≠ .blocks ∧ p.b.pc ≠ .tail := by
  rcases check_pass_case h1 h2 h4 hpc heq with h | ⟨h, _⟩
  · cases hb : p.b.pc <;> simp_all [BPc.mkdirDone]
  · simp [h]

theorem Exclusive.presB (h1 : Inv1 c p) (h : Inv6 c p) : Exclusive (stepB p) := by
  have k1 := h.exclusive
  have hlk := h1.lock
  simp only [Exclusive] at *
  pres_step stepB

theorem Exclusive.presG (h1 : Inv1 c p) (h2 : Inv2 c p) (h4 : Inv4 c p) (h : Inv6 c p) :
    Exclusive (stepG p) := by
  have k1 := h.exclusive
  have hcp := check_pass_pc h1 h2 h4
  simp only [Exclusive] at *
  pres_step stepG

theorem DoneSeen.presB (h1 : Inv1 c p) (h : Inv6 c p) : DoneSeen (stepB p) := by
  have k1 := h.exclusive
  have k2 := h.doneSeen
  simp only [Exclusive, DoneSeen] at *
  pres_step stepB

theorem DoneSeen.presG (h1 : Inv1 c p) (h2 : Inv2 c p) (h4 : Inv4 c p) (h : Inv6 c p) :
    DoneSeen (stepG p) := by
  have k2 := h.doneSeen
  have hcp := check_pass_case h1 h2 h4
  have hdel := h1.del
  simp only [DoneSeen] at *
  pres_step stepG

theorem SnapshotR.presB (h : Inv6 c p) : SnapshotR (stepB p) := by
  have k3 := h.snapshotR
  simp only [SnapshotR] at *
  pres_step stepB

theorem SnapshotR.presG (h : Inv6 c p) : SnapshotR (stepG p) := by
  have k3 := h.snapshotR
  have k1 := h.exclusive
  simp only [SnapshotR, Exclusive] at *
  pres_step' stepG

theorem NewSafeR.presB (h2 : Inv2 c p) (h4 : Inv4 c p) (h : Inv6 c p) : NewSafeR (stepB p) := by
  have k4 := h.newSafeR
  have k3 := h.snapshotR
  have f1 := h4.handled
  have o2 := h2.below
  have hb := @hasBand_iff p.bands p.b.newId
  simp only [NewSafeR, SnapshotR, Handled, Below] at *
  pres_step' stepB

theorem NewSafeR.presG (h1 : Inv1 c p) (h2 : Inv2 c p) (h : Inv6 c p) : NewSafeR (stepG p) := by
  have k4 := h.newSafeR
  have k1 := h.exclusive
  have k2 := h.doneSeen
  have htk := h1.todoBlocks
  have o3 := h2.newBand
  simp only [NewSafeR, Exclusive, DoneSeen, NewBand] at *
  pres_step' stepG

theorem Inv6.presB (h1 : Inv1 c p) (h2 : Inv2 c p) (h3 : Inv3 c p) (h4 : Inv4 c p) (h : Inv6 c p) :
    Inv6 c (stepB p) :=
  ⟨Exclusive.presB h1 h, DoneSeen.presB h1 h, SnapshotR.presB h, NewSafeR.presB h2 h4 h⟩

theorem Inv6.presG (h1 : Inv1 c p) (h2 : Inv2 c p) (h3 : Inv3 c p) (h4 : Inv4 c p) (h : Inv6 c p) :
    Inv6 c (stepG p) :=
  ⟨Exclusive.presG h1 h2 h4 h, DoneSeen.presG h1 h2 h4 h, SnapshotR.presG h, NewSafeR.presG h1 h2 h⟩

end

end Conserve.Proto
