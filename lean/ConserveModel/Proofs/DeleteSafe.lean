import ConserveModel.Proofs.DeleteClean
import ConserveModel.Proofs.ReadOnlyProg
/-
`deleteBands` in ANY world (arbitrary faults, any crash point, dead or alive):
which keys it can touch, and (strict mode) that it never removes a block named by a hunk of a
band outside `D`.  Helper lemmas for Props/C05.lean.
-/
set_option linter.unusedSimpArgs false
namespace Conserve
open Prog

/-! ### Frames -/

/-- `s'` agrees with `s` on every key outside `Touch`. -/
def FrameOff (Touch : Key → Prop) (s s' : Store) : Prop := ∀ k, ¬ Touch k → s'.get? k = s.get? k

theorem FrameOff.refl (Touch : Key → Prop) (s : Store) : FrameOff Touch s s := fun _ _ => rfl

theorem FrameOff.trans {Touch : Key → Prop} {a b c : Store} (h1 : FrameOff Touch a b)
    (h2 : FrameOff Touch b c) : FrameOff Touch a c := fun k hk => (h2 k hk).trans (h1 k hk)

/-- All operations of `p` affect only keys in `Touch`. -/
def TouchesOnly {α : Type} (Touch : Key → Prop) (p : Prog α) : Prop :=
  Prog.AllOps (fun o => ∀ k, Op.affects o k = true → Touch k) p

/-- Then, in every world, every key outside `Touch` is left as it was. -/
theorem TouchesOnly.frame {α : Type} {Touch : Key → Prop} {p : Prog α} (hp : TouchesOnly Touch p)
    (w : World) : FrameOff Touch w.store (p.run w).2.store := by
  refine Prog.run_store_rel (R := FrameOff Touch) (FrameOff.refl Touch) (fun _ _ _ => FrameOff.trans) ?_ hp w
  intro w o ho k hk
  apply World.exec_get?_of_not_affects
  cases h : Op.affects o k with
  | false => rfl
  | true => exact absurd (ho k h) hk

theorem affects_of_ro {o : Op} (h : o.isMutating = false) (k : Key) : Op.affects o k = false := by
  cases o <;> simp [Op.isMutating] at h <;> rfl

theorem ReadOnlyProg.touchesOnly {α : Type} {p : Prog α} (hp : ReadOnlyProg p) (Touch : Key → Prop) :
    TouchesOnly Touch p :=
  hp.allOps fun o ho k hk => by rw [affects_of_ro ho k] at hk; cases hk

theorem TouchesOnly.bind {α β : Type} {Touch : Key → Prop} {p : Prog α} {f : α → Prog β}
    (hp : TouchesOnly Touch p) (hf : ∀ a, TouchesOnly Touch (f a)) : TouchesOnly Touch (p.bind f) :=
  Prog.AllOps.bind hp hf

theorem TouchesOnly.mono {α : Type} {T T' : Key → Prop} {p : Prog α} (h : ∀ k, T k → T' k)
    (hp : TouchesOnly T p) : TouchesOnly T' p :=
  Prog.AllOps.mono' (fun _ ho k hk => h k (ho k hk)) hp

/-! ### What `deleteBands` can touch -/

/-- Keys `delete_bands D` may change: the lock file, anything at or under a band directory of `D`,
and block files whose hash satisfies `Q`. -/
def DelTouch (D : List Nat) (Q : Str → Prop) (k : Key) : Prop :=
  k = .gcLock ∨ underAny D k = true ∨ ∃ h, k = .block h ∧ Q h

theorem touches_performUnit_lock (Q : Key → Prop) (hQ : Q .gcLock) (o : Op) (ho : ∀ k, Op.affects o k = true → k = .gcLock) :
    TouchesOnly Q (performUnit o) := by
  simp only [performUnit, perform, bind_def, op_bind, ret_bind, pure_def]
  refine .op (fun k hk => (ho k hk) ▸ hQ) fun r => ?_
  split <;> first | exact .ret _ | exact .fail _

theorem affects_write_lock (v : FileVal) (m : WriteMode) (k : Key)
    (h : Op.affects (.write .gcLock v m) k = true) : k = .gcLock := by simpa [Op.affects] using h

theorem affects_remove_lock (k : Key) (h : Op.affects (.removeFile .gcLock) k = true) : k = .gcLock := by
  simpa [Op.affects] using h

theorem touches_lockTail (T : Key → Prop) (hT : T .gcLock) (last : Option Nat) :
    TouchesOnly T (lockTail last) := by
  simp only [lockTail, unwrapOr, bind_def, pure_def]
  refine TouchesOnly.bind (TouchesOnly.bind (Prog.AllOps.attempt ((readOnly_isFile _).touchesOnly T))
    fun r => ?_) fun l => ?_
  · split <;> exact .ret _
  · split
    · exact .fail _
    · exact (touches_performUnit_lock T hT _ (affects_write_lock _ _)).bind fun _ => .ret _

theorem touches_gcLockNew (T : Key → Prop) (hT : T .gcLock) : TouchesOnly T gcLockNew := by
  rw [gcLockNew_eq]
  refine (readOnly_lastBandId.touchesOnly T).bind fun last => ?_
  split
  · refine ((readOnly_isFile _).touchesOnly T).bind fun c => ?_
    split
    · exact .fail _
    · exact touches_lockTail T hT _
  · exact touches_lockTail T hT _

theorem touches_gcBreakLock (T : Key → Prop) (hT : T .gcLock) : TouchesOnly T gcBreakLock := by
  simp only [gcBreakLock, gcIsLocked, bind_def, pure_def]
  refine ((readOnly_isFile _).touchesOnly T).bind fun l => ?_
  split
  · exact (touches_performUnit_lock T hT _ affects_remove_lock).bind fun _ => touches_gcLockNew T hT
  · exact touches_gcLockNew T hT

theorem touches_acquire (T : Key → Prop) (hT : T .gcLock) (o : DeleteOpts) : TouchesOnly T (acquire o) := by
  simp only [acquire]
  split
  · exact touches_gcBreakLock T hT
  · exact touches_gcLockNew T hT

theorem touches_gcLockRelease (T : Key → Prop) (hT : T .gcLock) : TouchesOnly T gcLockRelease :=
  touches_performUnit_lock T hT _ affects_remove_lock

theorem touches_gcLockDrop (T : Key → Prop) (hT : T .gcLock) : TouchesOnly T gcLockDrop := by
  simp only [gcLockDrop, perform, bind_def, op_bind, ret_bind, pure_def]
  exact .op (fun k hk => (affects_remove_lock k hk) ▸ hT) fun r => .ret _

theorem touches_gcLockReleaseOnError (T : Key → Prop) (hT : T .gcLock) : TouchesOnly T gcLockReleaseOnError := by
  simp only [gcLockReleaseOnError, perform, bind_def, op_bind, ret_bind, pure_def]
  refine .op (fun k hk => (affects_remove_lock k hk) ▸ hT) fun r => ?_
  split
  · exact .ret _
  · exact touches_gcLockDrop T hT

theorem touches_delBands (D D' : List Nat) (Q : Str → Prop) (hsub : ∀ b ∈ D', b ∈ D) :
    ∀ n, TouchesOnly (DelTouch D Q) (deleteBody.delBands D' n) := by
  induction D' with
  | nil => intro n; simp only [deleteBody.delBands, pure_def]; exact .ret _
  | cons b D' ih =>
    intro n
    simp only [deleteBody.delBands, bandDelete, perform, bind_def, op_bind, ret_bind, pure_def]
    refine .op ?_ fun r => ?_
    · intro k hk
      refine Or.inr (Or.inl ?_)
      simp only [Op.affects] at hk
      simp only [underAny, List.any_eq_true]
      exact ⟨b, hsub b (List.mem_cons_self ..), hk⟩
    · have := ih (fun b' hb' => hsub b' (List.mem_cons_of_mem _ hb')) (n + 1)
      split <;> first | exact this | exact .fail _

theorem touches_delBlocks (D : List Nat) (Q : Str → Prop) (hs : List Str) (hQ : ∀ h ∈ hs, Q h) :
    ∀ n, TouchesOnly (DelTouch D Q) (deleteBody.delBlocks hs n) := by
  induction hs with
  | nil => intro n; simp only [deleteBody.delBlocks, pure_def]; exact .ret _
  | cons h hs ih =>
    intro n
    simp only [deleteBody.delBlocks, perform, bind_def, op_bind, ret_bind, pure_def]
    refine .op ?_ fun r => ?_
    · intro k hk
      simp only [Op.affects, beq_iff_eq] at hk
      exact Or.inr (Or.inr ⟨h, hk, hQ h (List.mem_cons_self ..)⟩)
    · have := ih (fun h' hh' => hQ h' (List.mem_cons_of_mem _ hh'))
      split <;> exact this _

/-- `deleteBody` after the referenced set is known. -/
def bodyRest (D : List Nat) (o : DeleteOpts) (held : Option Nat) (referenced : List Str) : Prog DeleteStats :=
  listBlocks.bind fun present =>
    (deleteBody.measure ((List.filter (fun h => !referenced.contains h) present).mergeSort strLe)).bind fun _ =>
      if o.dryRun = true then
        (ret ({ unreferencedBlockCount :=
            ((List.filter (fun h => !referenced.contains h) present).mergeSort strLe).length } : DeleteStats)).bind
          fun stats => gcLockRelease.bind fun _ => ret stats
      else
        (gcLockCheck held).bind fun _ =>
          (deleteBody.delBands D 0).bind fun nb =>
            (deleteBody.delBlocks ((List.filter (fun h => !referenced.contains h) present).mergeSort strLe) 0).bind
              fun errs =>
              (ret ({ unreferencedBlockCount :=
                        ((List.filter (fun h => !referenced.contains h) present).mergeSort strLe).length,
                      deletedBandCount := nb,
                      deletedBlockCount :=
                        ((List.filter (fun h => !referenced.contains h) present).mergeSort strLe).length - errs,
                      deletionErrors := errs } : DeleteStats)).bind
                fun stats => gcLockRelease.bind fun _ => ret stats

theorem deleteBody_eq (strict : Bool) (D : List Nat) (o : DeleteOpts) (held : Option Nat) :
    deleteBody strict D o held =
      listBandIds.bind fun all =>
        (referencedBlocks strict (List.filter (fun b => !D.contains b) all)).bind fun referenced =>
          bodyRest D o held referenced := by
  simp only [deleteBody, bind_def, pure_def, bodyRest]

/-- After the referenced set is known, only the lock, the bands of `D` and blocks OUTSIDE the
referenced set can be touched. -/
theorem touches_bodyRest (D : List Nat) (o : DeleteOpts) (held : Option Nat) (referenced : List Str) :
    TouchesOnly (DelTouch D fun h => h ∉ referenced) (bodyRest D o held referenced) := by
  have hT : DelTouch D (fun h => h ∉ referenced) .gcLock := Or.inl rfl
  simp only [bodyRest]
  refine (readOnly_listBlocks.touchesOnly _).bind fun present => ?_
  refine ((readOnly_measure _).touchesOnly _).bind fun _ => ?_
  split
  · exact TouchesOnly.bind (.ret _) fun _ => (touches_gcLockRelease _ hT).bind fun _ => .ret _
  · refine ((readOnly_gcLockCheck _).touchesOnly _).bind fun _ => ?_
    refine (touches_delBands D D _ (fun _ h => h) 0).bind fun nb => ?_
    refine (touches_delBlocks D _ _ ?_ 0).bind fun errs => ?_
    · intro h hh
      simp only [List.mem_mergeSort, List.mem_filter, Bool.not_eq_true', List.contains_eq_mem,
        decide_eq_false_iff_not] at hh
      exact hh.2
    · exact TouchesOnly.bind (.ret _) fun _ => (touches_gcLockRelease _ hT).bind fun _ => .ret _

theorem touches_deleteBody (strict : Bool) (D : List Nat) (o : DeleteOpts) (held : Option Nat) :
    TouchesOnly (DelTouch D fun _ => True) (deleteBody strict D o held) := by
  rw [deleteBody_eq]
  refine (readOnly_listBandIds.touchesOnly _).bind fun all => ?_
  refine ((readOnly_referencedBlocks strict _).touchesOnly _).bind fun referenced => ?_
  refine TouchesOnly.mono ?_ (touches_bodyRest D o held referenced)
  rintro k (h | h | ⟨h, hk, _⟩)
  · exact Or.inl h
  · exact Or.inr (Or.inl h)
  · exact Or.inr (Or.inr ⟨h, hk, trivial⟩)

theorem touches_withLock_tail (T : Key → Prop) (hT : T .gcLock) (r : Outcome DeleteStats) :
    TouchesOnly T (match r with
      | .ok st => (.ret st : Prog DeleteStats)
      | .err e => gcLockReleaseOnError.bind fun _ => .fail e
      | .panic site => gcLockDrop.bind fun _ => .panic site) := by
  cases r with
  | ok st => exact .ret _
  | err e => exact (touches_gcLockReleaseOnError T hT).bind fun _ => .fail _
  | panic site => exact (touches_gcLockDrop T hT).bind fun _ => .panic _

theorem touches_deleteBands (strict : Bool) (D : List Nat) (o : DeleteOpts) :
    TouchesOnly (DelTouch D fun _ => True) (deleteBands strict D o) := by
  rw [deleteBands_eq]
  refine (touches_acquire _ (Or.inl rfl) o).bind fun held => ?_
  simp only [withLock]
  refine TouchesOnly.bind (Prog.AllOps.attemptAll' (touches_deleteBody strict D o held)) fun r => ?_
  exact touches_withLock_tail _ (Or.inl rfl) r

/-- **Frame, all worlds, both versions of the code.**  Whatever faults are injected and wherever the
run is killed, `delete_bands D` leaves every key alone that is not the lock file, not at or
under a band directory of `D`, and not a block file. -/
theorem deleteBands_frame (strict : Bool) (D : List Nat) (o : DeleteOpts) (w : World) (k : Key)
    (h1 : k ≠ .gcLock) (h2 : underAny D k = false) (h3 : ∀ h, k ≠ .block h) :
    ((deleteBands strict D o).run w).2.store.get? k = w.store.get? k := by
  apply (touches_deleteBands strict D o).frame w k
  rintro (h | h | ⟨h, hk, _⟩)
  · exact h1 h
  · rw [h2] at h; cases h
  · exact h3 h hk

/-! ### What the read-only steps can return in any world -/

/-- One non-mutating operation in any world: the continuation runs on the real answer or on an
error, in a world with the same store. -/
theorem run_op_ro_inv {α : Type} {o : Op} (k : Resp → Prog α) (w : World) (ho : o.isMutating = false) :
    ∃ w' r, (Prog.op o k).run w = (k r).run w' ∧ w'.store = w.store ∧
      (r = roResp w.store o ∨ ∃ e, r = .err e) := by
  obtain ⟨hs, hr⟩ := World.exec_ro_cases w ho
  exact ⟨_, _, Prog.run_op o k w, hs, hr⟩

/-- Inversion of a successful `bind` whose first part is read-only. -/
theorem run_bind_ok_ro {α β : Type} {p : Prog α} {f : α → Prog β} {w : World} {c : β}
    (hp : ReadOnlyProg p) (h : ((p.bind f).run w).1 = .ok c) :
    ∃ a w', p.run w = (.ok a, w') ∧ w'.store = w.store ∧ ((f a).run w').1 = .ok c := by
  obtain ⟨a, ha, hrun⟩ := Prog.run_bind_ok_split h
  refine ⟨a, (p.run w).2, ?_, hp.store_eq w, ?_⟩
  · rw [← ha]
  · rw [← hrun]; exact h

theorem listBandIds_sound {w : World} {all : List Nat} (h : (listBandIds.run w).1 = .ok all) :
    all = bandIdsOf w.store := by
  simp only [listBandIds, perform, bind_def, op_bind, ret_bind, pure_def] at h
  obtain ⟨w', r, hrun, _, hr⟩ := run_op_ro_inv (o := .listDir .root) _ w rfl
  rw [hrun] at h
  rcases hr with rfl | ⟨e, rfl⟩
  · simp only [roResp, listResp] at h
    cases hg : w.store.get? .root with
    | none => simp [hg] at h
    | some v =>
      cases v <;> simp [hg] at h
      rw [← h]
      exact bandIds_listing w.store
  · simp at h

theorem hunksAvailable_go_sound (b : Nat) (ds : List Nat) :
    ∀ (acc : List Nat) (w : World) (hs : List Nat), ((hunksAvailable.go b ds acc).run w).1 = .ok hs →
      (∀ n ∈ acc, n ∈ hs) ∧ ∀ d ∈ ds, ∀ n ∈ hunksInDir w.store b d, n ∈ hs := by
  induction ds with
  | nil =>
    intro acc w hs h
    simp only [hunksAvailable.go, pure_def, run_ret, Outcome.ok.injEq] at h
    subst h
    exact ⟨fun _ h => h, by simp⟩
  | cons d ds ih =>
    intro acc w hs h
    simp only [hunksAvailable.go, perform, bind_def, op_bind, ret_bind] at h
    obtain ⟨w', r, hrun, hst, hr⟩ := run_op_ro_inv (o := .listDir (.hunkDir b d)) _ w rfl
    rw [hrun] at h
    rcases hr with rfl | ⟨e, rfl⟩
    · simp only [roResp, listResp] at h
      cases hg : w.store.get? (.hunkDir b d) with
      | none => simp [hg] at h
      | some v =>
        cases v with
        | dir =>
          rw [hg] at h; dsimp only at h
          obtain ⟨h1, h2⟩ := ih _ w' hs h
          rw [hst] at h2
          refine ⟨fun n hn => h1 n (List.mem_append_left _ hn), ?_⟩
          intro d' hd' n hn
          rcases List.mem_cons.1 hd' with rfl | hd'
          · have hn' := (hunksInDir_listing w.store b d').symm ▸ hn
            exact h1 n (List.mem_append_right _ hn')
          · exact h2 d' hd' n hn
        | _ => simp [hg] at h
    · simp at h

/-- If `hunks_available` succeeds (in any world) it has seen every hunk file that sits in a
subdirectory which is a directory. -/
theorem hunksAvailable_sound {b : Nat} {w : World} {hs : List Nat}
    (h : ((hunksAvailable b).run w).1 = .ok hs) {n : Nat}
    (hd : (Key.hunkDir b (n / hunksPerSubdir), FileVal.dir) ∈ w.store)
    (hn : ∃ v, (Key.hunk b n, v) ∈ w.store ∧ v.isDir = false) : n ∈ hs := by
  simp only [hunksAvailable, perform, bind_def, op_bind, ret_bind] at h
  obtain ⟨w', r, hrun, hst, hr⟩ := run_op_ro_inv (o := .listDir (.indexDir b)) _ w rfl
  rw [hrun] at h
  rcases hr with rfl | ⟨e, rfl⟩
  · simp only [roResp, listResp] at h
    cases hg : w.store.get? (.indexDir b) with
    | none => simp [hg] at h
    | some v =>
      cases v <;> simp [hg] at h
      obtain ⟨_, h2⟩ := hunksAvailable_go_sound b _ _ w' hs h
      rw [hst] at h2
      refine h2 (n / hunksPerSubdir) ?_ n (mem_hunksInDir.2 ⟨rfl, hn⟩)
      have := mem_hunkDirsOf.2 hd
      exact (hunkDirs_listing w.store b).symm ▸ this
  · simp at h

/-- In any world: if `read_hunk` returns entries and the hunk file decodes, they are its entries. -/
theorem readHunk_sound {b n : Nat} {w : World} {es' : List IndexEntry}
    (h : ((readHunk b n).run w).1 = .ok (some es')) :
    ∀ es, hunkAt w.store b n = some es → es' = es := by
  intro es hes
  simp only [readHunk, perform, bind_def, op_bind, ret_bind, pure_def] at h
  obtain ⟨w', r, hrun, _, hr⟩ := run_op_ro_inv (o := .read (.hunk b n)) _ w rfl
  rw [hrun] at h
  rcases hr with rfl | ⟨e, rfl⟩
  · simp only [roResp, readResp] at h
    simp only [hunkAt] at hes
    cases hg : w.store.get? (.hunk b n) with
    | none => simp [hg] at hes
    | some v =>
      cases v with
      | hunk es0 =>
        simp only [hg, Option.some.injEq] at hes
        subst hes
        simp only [hg] at h
        split at h
        · simp at h; exact h.symm
        · simp at h
      | _ => simp [hg] at hes
  · cases e <;> simp at h

/-- Also: whatever `read_hunk` returns has passed `IndexEntry::check`. -/
theorem readHunk_usable {b n : Nat} {w : World} {es : List IndexEntry}
    (h : ((readHunk b n).run w).1 = .ok (some es)) : es.all entryUsable = true := by
  simp only [readHunk, perform, bind_def, op_bind, ret_bind, pure_def] at h
  obtain ⟨w', r, hrun, _, hr⟩ := run_op_ro_inv (o := .read (.hunk b n)) _ w rfl
  rw [hrun] at h
  rcases hr with rfl | ⟨e, rfl⟩
  · simp only [roResp, readResp] at h
    cases hg : w.store.get? (.hunk b n) with
    | none => simp [hg] at h
    | some v =>
      cases v with
      | hunk es0 =>
        simp only [hg] at h
        split at h
        · rename_i hu
          simp at h; subst h; simpa using hu
        · simp at h
      | empty => simp [hg] at h; subst h; rfl
      | _ => simp [hg] at h
  · cases e <;> simp at h

/-- Strict mode, any world: if the hunks of `ns` were all read, every entry of every hunk of `ns`
that decodes is in the result. -/
theorem bandHunkEntries_sound (b : Nat) (ns : List Nat) :
    ∀ (w : World) (all : List IndexEntry), ((bandHunkEntries true b ns).run w).1 = .ok all →
      ∀ n ∈ ns, ∀ es, hunkAt w.store b n = some es → ∀ e ∈ es, e ∈ all := by
  induction ns with
  | nil => intro w all _ n hn; cases hn
  | cons m ns ih =>
    intro w all h n hn es hes e he
    simp only [bandHunkEntries, bind_def, pure_def] at h
    obtain ⟨r, w1, hr, hst, h⟩ := run_bind_ok_ro (Prog.AllOps.attempt (readOnly_readHunk b m)) h
    rw [Prog.run_attempt] at hr
    rcases hrun : (readHunk b m).run w with ⟨o, w1'⟩
    rw [hrun] at hr
    cases o with
    | ok x =>
      simp only [Prod.mk.injEq, Outcome.ok.injEq] at hr
      obtain ⟨rfl, rfl⟩ := hr
      cases x with
      | none => simp at h
      | some es' =>
        simp only at h
        obtain ⟨more, w2, hmore, _, h⟩ := run_bind_ok_ro (readOnly_bandHunkEntries true b ns) h
        simp only [run_ret, Outcome.ok.injEq] at h
        subst h
        have hes' : ∀ es, hunkAt w.store b m = some es → es' = es := readHunk_sound (by rw [hrun])
        rcases List.mem_cons.1 hn with rfl | hn
        · rw [hes' es hes]
          exact List.mem_append_left _ he
        · refine List.mem_append_right _ ?_
          have hm1 : ((bandHunkEntries true b ns).run w1').1 = .ok more := by rw [hmore]
          exact ih w1' more hm1 n hn es (by rw [hst]; exact hes) e he
    | err e' =>
      simp only [Prod.mk.injEq, Outcome.ok.injEq] at hr
      obtain ⟨rfl, rfl⟩ := hr
      simp at h
    | panic s => simp at hr

/-- Every hunk file of the band sits in a subdirectory that is a directory. -/
def HunkFilesOk (s : Store) (b : Nat) : Prop :=
  ∀ n v, s.get? (.hunk b n) = some v → s.get? (.hunkDir b (n / hunksPerSubdir)) = some .dir

/-- **The crux of D6.**  Strict mode, any world (any faults, crash point): if `referenced_blocks`
returns at all, its result contains every hash named by any decodable hunk of the given bands.
A failing read can only make it fail, never shrink the set. -/
theorem referencedBlocks_sound (bs : List Nat) :
    ∀ (w : World) (refs : List Str), ((referencedBlocks true bs).run w).1 = .ok refs →
      ∀ b ∈ bs, HunkFilesOk w.store b → ∀ n es, hunkAt w.store b n = some es →
        ∀ e ∈ es, ∀ a ∈ e.addrs, a.hash ∈ refs := by
  induction bs with
  | nil => intro w refs _ b hb; cases hb
  | cons b' bs ih =>
    intro w refs h b hb hok n es hes e he a ha
    simp only [referencedBlocks, bind_def, pure_def, if_true] at h
    obtain ⟨_, w1, _, hst1, h⟩ := run_bind_ok_ro (readOnly_bandOpen b') h
    obtain ⟨hunks, w2, hh, hst2, h⟩ := run_bind_ok_ro (readOnly_hunksAvailable b') h
    obtain ⟨all, w3, hall, hst3, h⟩ := run_bind_ok_ro (readOnly_bandHunkEntries true b' hunks) h
    obtain ⟨more, w4, hmore, _, h⟩ := run_bind_ok_ro (readOnly_referencedBlocks true bs) h
    simp only [run_ret, Outcome.ok.injEq] at h
    subst h
    rw [mem_dedupStr, List.mem_append]
    have e1 : w1.store = w.store := hst1
    have e2 : w2.store = w.store := hst2.trans e1
    have e3 : w3.store = w.store := hst3.trans e2
    rcases List.mem_cons.1 hb with rfl | hb
    · left
      have hn : n ∈ hunks := by
        refine hunksAvailable_sound (w := w1) (by rw [hh]) ?_ ?_
        · rw [e1]
          simp only [hunkAt] at hes
          cases hg : w.store.get? (.hunk b n) with
          | none => simp [hg] at hes
          | some v => exact Store.mem_of_get?' (hok n v hg)
        · rw [e1]
          simp only [hunkAt] at hes
          cases hg : w.store.get? (.hunk b n) with
          | none => simp [hg] at hes
          | some v =>
            cases v <;> simp [hg] at hes
            exact ⟨_, Store.mem_of_get?' hg, rfl⟩
      have := bandHunkEntries_sound b hunks w2 all (by rw [hall]) n hn es (by rw [e2]; exact hes) e he
      exact List.mem_flatMap.2 ⟨e, this, List.mem_map.2 ⟨a, ha, rfl⟩⟩
    · right
      exact ih w3 more (by rw [hmore]) b hb (by rw [e3]; exact hok) n es (by rw [e3]; exact hes) e he a ha

theorem listBlocks_go_sound (ps : List Str) :
    ∀ (acc : List Str) (w : World) (hs : List Str), ((listBlocks.go ps acc).run w).1 = .ok hs →
      hs = blockNamesFrom w.store ps acc := by
  induction ps with
  | nil =>
    intro acc w hs h
    simp only [listBlocks.go, pure_def, run_ret, Outcome.ok.injEq] at h
    subst h; rfl
  | cons p ps ih =>
    intro acc w hs h
    simp only [listBlocks.go, perform, bind_def, op_bind, ret_bind] at h
    obtain ⟨w', r, hrun, hst, hr⟩ := run_op_ro_inv (o := .listDir (.blockDir p)) _ w rfl
    rw [hrun] at h
    rcases hr with rfl | ⟨e, rfl⟩
    · simp only [roResp, listResp] at h
      cases hg : w.store.get? (.blockDir p) with
      | none => simp [hg] at h
      | some v =>
        cases v with
        | dir =>
          rw [hg] at h; dsimp only at h
          have := ih _ w' hs h
          rw [hst] at this
          rw [this, blockNamesFrom]
          exact congrArg (fun x => blockNamesFrom w.store ps (acc ++ x.filter fun h => !acc.contains h))
            (blocksInDir_listing w.store p)
        | _ => simp [hg] at h
    · simp at h

/-- In ANY world: if `list_blocks` returns at all, it returns exactly what the store holds
(`blockNamesOf`).  A fault on the listing of `d/` or of any single subdirectory `d/xxx` makes the
whole call fail; it can never return a shorter list. -/
theorem listBlocks_sound {w : World} {hs : List Str} (h : (listBlocks.run w).1 = .ok hs) :
    hs = blockNamesOf w.store := by
  simp only [listBlocks, perform, bind_def, op_bind, ret_bind] at h
  obtain ⟨w', r, hrun, hst, hr⟩ := run_op_ro_inv (o := .listDir .blockRoot) _ w rfl
  rw [hrun] at h
  rcases hr with rfl | ⟨e, rfl⟩
  · simp only [roResp, listResp] at h
    cases hg : w.store.get? .blockRoot with
    | none => simp [hg] at h
    | some v =>
      cases v with
      | dir =>
        rw [hg] at h; dsimp only at h
        have := listBlocks_go_sound _ _ w' hs h
        rw [hst] at this
        rw [this, blockNamesOf]
        exact congrArg (fun x => blockNamesFrom w.store x []) (blockSubdirs_listing w.store)
      | _ => simp [hg] at h
  · simp at h

/-! ### No block named by a band outside `D` is ever removed -/

/-- Hash `h` is named by an entry of a decodable hunk of some band that is not in `D`. -/
def referencedOutside (s : Store) (D : List Nat) (h : Str) : Prop :=
  ∃ b, b ∉ D ∧ ∃ n es, hunkAt s b n = some es ∧ ∃ e ∈ es, ∃ a ∈ e.addrs, a.hash = h

/-- Every hunk file sits in a subdirectory that is a directory, inside a band whose directory is a
directory (a consequence of `DirsOk`). -/
def HunkTreeOk (s : Store) : Prop :=
  ∀ b n v, s.get? (.hunk b n) = some v →
    s.get? (.hunkDir b (n / hunksPerSubdir)) = some .dir ∧ s.get? (.bandDir b) = some .dir

theorem DirsOk.hunkTreeOk {s : Store} (hd : DirsOk s) : HunkTreeOk s := by
  intro b n v hv
  have h1 := hd.parent_of_get? hv
  simp only [Store.parentOk, Key.parent, beq_iff_eq] at h1
  have h2 := hd.parent_of_get? h1
  simp only [Store.parentOk, Key.parent, beq_iff_eq] at h2
  have h3 := hd.parent_of_get? h2
  simp only [Store.parentOk, Key.parent, beq_iff_eq] at h3
  exact ⟨h1, h3⟩

theorem not_delTouch_block {D : List Nat} {refs : List Str} {h : Str} (hr : h ∈ refs) :
    ¬ DelTouch D (fun h => h ∉ refs) (.block h) := by
  rintro (e | e | ⟨h', e, hn⟩)
  · cases e
  · simp at e
  · cases e; exact hn hr

theorem deleteBody_safe (D : List Nat) (o : DeleteOpts) (held : Option Nat) (w : World)
    (hok : HunkTreeOk w.store) {h : Str} (href : referencedOutside w.store D h) :
    ((deleteBody true D o held).run w).2.store.get? (.block h) = w.store.get? (.block h) := by
  rw [deleteBody_eq]
  refine Prog.run_bind_store _ _ w (fun s' => s'.get? (.block h) = w.store.get? (.block h)) ?_ ?_
  · intro _; rw [readOnly_listBandIds.store_eq]
  · intro all hall
    have hall' := listBandIds_sound hall
    have e1 : (listBandIds.run w).2.store = w.store := readOnly_listBandIds.store_eq w
    refine Prog.run_bind_store _ _ _ (fun s' => s'.get? (.block h) = w.store.get? (.block h)) ?_ ?_
    · intro _; rw [(readOnly_referencedBlocks true _).store_eq, e1]
    · intro refs hrefs
      have e2 := (readOnly_referencedBlocks true (List.filter (fun b => !D.contains b) all)).store_eq
        (listBandIds.run w).2
      have hin : h ∈ refs := by
        obtain ⟨b, hbD, n, es, hes, e, he, a, ha, rfl⟩ := href
        have hv : ∃ v, w.store.get? (.hunk b n) = some v := by
          simp only [hunkAt] at hes
          cases hg : w.store.get? (.hunk b n) with
          | none => simp [hg] at hes
          | some v => exact ⟨v, rfl⟩
        obtain ⟨v, hv⟩ := hv
        refine referencedBlocks_sound _ _ refs hrefs b ?_ ?_ n es (by rw [e1]; exact hes) e he a ha
        · rw [List.mem_filter, hall']
          refine ⟨mem_bandIdsOf'.2 (Store.mem_of_get?' (hok b n v hv).2), ?_⟩
          simpa using hbD
        · intro n' v' hv'
          rw [e1] at hv' ⊢
          exact (hok b n' v' hv').1
      have := (touches_bodyRest D o held refs).frame
        ((referencedBlocks true (List.filter (fun b => !D.contains b) all)).run (listBandIds.run w).2).2
        (.block h) (not_delTouch_block hin)
      rw [this, e2, e1]

/-- **Safety in every world** (strict mode): with arbitrary injected faults (on any operation, of any
kind), killed at any micro-step or not at all, `delete_bands D` does not change any block
that is named by a decodable hunk of a band outside `D`. -/
theorem deleteBands_safe (D : List Nat) (o : DeleteOpts) (w : World)
    (hok : HunkTreeOk w.store) {h : Str} (href : referencedOutside w.store D h) :
    ((deleteBands true D o).run w).2.store.get? (.block h) = w.store.get? (.block h) := by
  rw [deleteBands_eq]
  have hacq := (touches_acquire (fun k => k = .gcLock) rfl o).frame w
  refine Prog.run_bind_store _ _ w (fun s' => s'.get? (.block h) = w.store.get? (.block h)) ?_ ?_
  · intro _; exact hacq _ (by simp)
  · intro held _
    have hok' : HunkTreeOk ((acquire o).run w).2.store := by
      intro b n v hv
      rw [hacq _ (by simp)] at hv
      rw [hacq _ (by simp), hacq _ (by simp)]
      exact hok b n v hv
    have href' : referencedOutside ((acquire o).run w).2.store D h := by
      obtain ⟨b, hbD, n, es, hes, rest⟩ := href
      refine ⟨b, hbD, n, es, ?_, rest⟩
      simp only [hunkAt, hacq _ (show ¬ (Key.hunk b n = Key.gcLock) by simp)]
      exact hes
    simp only [withLock]
    rw [Prog.run_bind, Prog.run_attemptAll]
    simp only
    have ht := (touches_withLock_tail (fun k => k = .gcLock) rfl
      ((deleteBody true D o held).run ((acquire o).run w).2).1).frame
      ((deleteBody true D o held).run ((acquire o).run w).2).2 (.block h) (by simp)
    refine ht.trans ?_
    rw [deleteBody_safe D o held _ hok' href', hacq _ (by simp)]

end Conserve
