import ConserveModel.Proofs.ExactTop
/-
C14, first clause: backing up a tree every file of which looks unchanged against the listing of the
newest version issues NO block write at all and records the basis addresses.  Runs with a
description of the new trace events (`RunsT`).  No property statements here.
-/
set_option linter.unusedSimpArgs false
namespace Conserve.Exact
open Conserve Prog

variable {H : Str → Str} {o : BackupOpts}

/-- Not a write to a block file (successful or not). -/
def NoBlockWrite (o : Op) : Prop := ∀ h v m, o ≠ .write (.block h) v m

/-- `RunsAt`, and every operation the run adds to the trace satisfies `P`. -/
def RunsT {α : Type} (P : Op → Prop) (p : Prog α) (s : Store) (out : Outcome α) (s' : Store)
    (ev : List Event) : Prop :=
  ∀ w, At w s → Runs p w out s' ev ∧ ∃ new, (p.run w).2.trace = new ++ w.trace ∧ ∀ e ∈ new, P e.op

theorem RunsT.runsAt {α : Type} {P : Op → Prop} {p : Prog α} {s s' : Store} {out : Outcome α}
    {ev : List Event} (h : RunsT P p s out s' ev) : RunsAt p s out s' ev := fun w hw => (h w hw).1

theorem RunsT.of_allOps {α : Type} {P : Op → Prop} {p : Prog α} {s s' : Store} {out : Outcome α}
    {ev : List Event} (h : RunsAt p s out s' ev) (ha : Prog.AllOps P p) : RunsT P p s out s' ev :=
  fun w hw => ⟨h w hw, Prog.run_trace_ops ha w⟩

theorem RunsT.ret {α : Type} {P : Op → Prop} (a : α) (s : Store) : RunsT P (.ret a) s (.ok a) s [] :=
  RunsT.of_allOps (RunsAt.ret a s) (.ret a)

theorem RunsT.bind {α β : Type} {P : Op → Prop} {p : Prog α} {f : α → Prog β} {s s1 s2 : Store} {a : α}
    {e1 e2 : List Event} {out : Outcome β} (hp : RunsT P p s (.ok a) s1 e1)
    (hf : RunsT P (f a) s1 out s2 e2) : RunsT P (p.bind f) s out s2 (e2 ++ e1) := by
  intro w hw
  obtain ⟨hr1, new1, ht1, hP1⟩ := hp w hw
  have hw1 : At (p.run w).2 s1 := hw.next hr1.2
  obtain ⟨hr2, new2, ht2, hP2⟩ := hf _ hw1
  refine ⟨hw.bind hr1 (fun w1 hw1' => (hf w1 hw1').1), new2 ++ new1, ?_, ?_⟩
  · rw [Prog.run_bind_ok hr1.1, ht2, ht1, List.append_assoc]
  · intro e he
    rcases List.mem_append.mp he with he | he
    · exact hP2 e he
    · exact hP1 e he

theorem RunsT.bind0 {α β : Type} {P : Op → Prop} {p : Prog α} {f : α → Prog β} {s s1 s2 : Store} {a : α}
    {e2 : List Event} {out : Outcome β} (hp : RunsT P p s (.ok a) s1 [])
    (hf : RunsT P (f a) s1 out s2 e2) : RunsT P (p.bind f) s out s2 e2 := by
  simpa using RunsT.bind hp hf

theorem RunsT.bind_r0 {α β : Type} {P : Op → Prop} {p : Prog α} {f : α → Prog β} {s s1 s2 : Store} {a : α}
    {e1 : List Event} {out : Outcome β} (hp : RunsT P p s (.ok a) s1 e1)
    (hf : RunsT P (f a) s1 out s2 []) : RunsT P (p.bind f) s out s2 e1 := by
  simpa using RunsT.bind hp hf

theorem RunsT.emit {α : Type} {P : Op → Prop} {s : Store} {ev : Event} {k : Prog α} {out : Outcome α}
    {s' : Store} {evs : List Event} (hk : RunsT P k s out s' evs) : RunsT P (.emit ev k) s out s' (evs ++ [ev]) := by
  intro w hw
  have hw1 : At { w with events := ev :: w.events } s :=
    ⟨⟨hw.quiet.noFaults, hw.quiet.noCrash, hw.quiet.alive⟩, hw.ecn, hw.store⟩
  obtain ⟨_, new, ht, hP⟩ := hk _ hw1
  exact ⟨hw.emit (fun w1 hw1' => (hk w1 hw1').1), new, by rw [Prog.run_emit, ht], hP⟩

/-! ### Programs without block writes -/

theorem readOnly_noBlockWrite {o : Op} (h : ReadOnly o) : NoBlockWrite o := by
  intro hh v m e; subst e; exact h

theorem AllOps.ro_nbw {α : Type} {p : Prog α} (h : Prog.AllOps ReadOnly p) : Prog.AllOps NoBlockWrite p :=
  h.mono fun _ => readOnly_noBlockWrite

theorem bandCreate_nbw : Prog.AllOps NoBlockWrite bandCreate := by
  unfold bandCreate
  simp only [Prog.bind_def, Prog.pure_def]
  refine Prog.AllOps.bind (AllOps.ro_nbw lastBandId_ro) fun _ => ?_
  refine Prog.AllOps.bind (performUnit_allOps (fun _ _ _ h => by cases h)) fun _ => ?_
  refine Prog.AllOps.bind (performUnit_allOps (fun _ _ _ h => by cases h)) fun _ => ?_
  exact Prog.AllOps.bind (performUnit_allOps (fun _ _ _ h => by cases h)) fun _ => .ret _

theorem finishHunk_nbw (wr : Writer) : Prog.AllOps NoBlockWrite (finishHunk wr) := by
  unfold finishHunk
  simp only [Prog.bind_def, Prog.pure_def]
  split
  · exact .ret _
  · split
    · refine Prog.AllOps.bind (performUnit_allOps (fun _ _ _ h => by cases h)) fun _ => ?_
      exact Prog.AllOps.bind (performUnit_allOps (fun _ _ _ h => by cases h)) fun _ => .ret _
    · exact Prog.AllOps.bind (performUnit_allOps (fun _ _ _ h => by cases h)) fun _ => .ret _

theorem bandClose_nbw (b n : Nat) : Prog.AllOps NoBlockWrite (bandClose b n) :=
  performUnit_allOps (fun _ _ _ h => by cases h)

theorem backupPrelude_nbw : Prog.AllOps NoBlockWrite Inv.backupPrelude := by
  unfold Inv.backupPrelude
  refine Prog.AllOps.bind (AllOps.ro_nbw gcIsLocked_ro) fun locked => ?_
  split
  · exact .fail _
  · refine Prog.AllOps.bind (AllOps.ro_nbw lastBandId_ro) fun basisBand => ?_
    refine Prog.AllOps.bind bandCreate_nbw fun band => ?_
    refine Prog.AllOps.bind (AllOps.ro_nbw gcLockListed_ro) fun locked2 => ?_
    split
    · exact .fail _
    refine Prog.AllOps.bind (AllOps.ro_nbw listBlocks_ro) fun blocks => ?_
    cases basisBand with
    | none => exact .ret _
    | some b => exact Prog.AllOps.bind (AllOps.ro_nbw (listEntries_ro b _ _)) fun _ => .ret _

/-- With an empty combiner queue `flush_group` is `finish_hunk`. -/
theorem flushGroup_queue_nil (wr : Writer) (hq : wr.queue = []) :
    flushGroup H wr = finishHunk { wr with pending := wr.pending ++ wr.finished, finished := [] } := by
  unfold flushGroup combinerFlush
  simp [hq]

/-! ### `copy_entry` when nothing changed -/

theorem copyEntry_unchanged (wr : Writer) (basis : Option IndexEntry) (sf : SrcEntry) (hkind : sf.kind ≠ .unknown)
    (hun : sf.kind = .file → ∃ be, basis = some be ∧ heuristicallyUnchanged sf be = some true ∧
      be.addrs.all (fun a => wr.exists_.contains a.hash) = true) :
    ∃ e st' ch, copyEntry H o wr basis sf =
        .ret ({ wr with pending := wr.pending ++ [e], stats := st' }, .ok ch) ∧
      st'.errors = wr.stats.errors ∧ strip e = Inv.metaOf o sf ∧ (e.kind ≠ .file → e.addrs = []) ∧
      (e.kind = .file → ∃ be, basis = some be ∧ e.addrs = be.addrs) := by
  unfold copyEntry
  simp only [Inv.metadataFrom_eq, Prog.pure_def]
  cases hk : sf.kind with
  | dir =>
    refine ⟨Inv.metaOf o sf, _, none, rfl, rfl, rfl, fun _ => rfl, fun h => ?_⟩
    simp [Inv.metaOf, hk] at h
  | symlink =>
    refine ⟨Inv.metaOf o sf, _, none, rfl, rfl, rfl, fun _ => rfl, fun h => ?_⟩
    simp [Inv.metaOf, hk] at h
  | unknown => exact absurd hk hkind
  | file =>
    obtain ⟨be, rfl, hh, hall⟩ := hun hk
    have : ∃ st' ck, copyFile H o wr (some be) sf =
        .ret ({ wr with pending := wr.pending ++ [{ Inv.metaOf o sf with addrs := be.addrs }],
                        stats := st' }, .ok (some ck)) ∧ st'.errors = wr.stats.errors := by
      unfold copyFile
      simp only [hh, hall, Inv.metadataFrom_eq]
      exact ⟨_, _, rfl, rfl⟩
    obtain ⟨st', ck, heq, herr⟩ := this
    have hkm : (Inv.metaOf o sf).kind = .file := hk
    exact ⟨{ Inv.metaOf o sf with addrs := be.addrs }, st', some ck, heq, herr, rfl,
      fun h => absurd hkm h, fun _ => ⟨be, rfl, rfl⟩⟩

/-- A merged pair of an unchanged tree, given the in-memory block set. -/
def UnchangedM (ex : List Str) : Matched → Prop
  | .both be sf => be.apath = sf.apath ∧ (sf.kind = .file → heuristicallyUnchanged sf be = some true ∧
      be.addrs.all (fun a => ex.contains a.hash) = true)
  | .right sf => sf.kind ≠ .file
  | .left _ => True

/-- The basis entries of a merged listing. -/
def basisOf : List Matched → List IndexEntry
  | [] => []
  | .left b :: ms => b :: basisOf ms
  | .right _ :: ms => basisOf ms
  | .both b _ :: ms => b :: basisOf ms

/-- Every recorded file entry carries the addresses of the basis entry with its path. -/
def AddrsFrom (basis : List IndexEntry) (l : List IndexEntry) : Prop :=
  ∀ e ∈ l, e.kind = .file → ∃ be ∈ basis, be.apath = e.apath ∧ e.addrs = be.addrs

/-- The loop invariant of the unchanged run. -/
structure UInv (H : Str → Str) (o : BackupOpts) (nb : Nat) (s0 : Store) (basis : List IndexEntry) (ex : List Str)
    (s : Store) (wr : Writer) (hs : List (List IndexEntry)) (pre grp : List SrcEntry) (bytes : Nat) : Prop where
  l : LInv H o nb s0 s wr hs pre grp bytes
  q : wr.queue = []
  f : wr.finished = []
  ex : wr.exists_ = ex
  addrs : AddrsFrom basis (hs.flatten ++ wr.pending)

variable {nb : Nat} {s0 : Store} {basis : List IndexEntry} {ex : List Str}

/-- `flush_group` in the unchanged run. -/
theorem flushGroup_unchanged {s : Store} {wr : Writer} {hs : List (List IndexEntry)} {pre grp : List SrcEntry}
    {bytes : Nat} (hu : UInv H o nb s0 basis ex s wr hs pre grp bytes)
    (hsorted : (grp.map (·.apath)).Pairwise fun a b => apathCmp a b = .lt) :
    ∃ s' wr' hs', RunsT NoBlockWrite (flushGroup H wr) s (.ok wr') s' [] ∧
      UInv H o nb s0 basis ex s' wr' hs' (pre ++ grp) [] bytes := by
  have hl := hu.l
  have hl2 : LInv H o nb s0 s { wr with pending := wr.pending ++ wr.finished, finished := [] } hs pre grp
      bytes := by
    refine ⟨⟨hl.b.st, hl.b.exAll, ?_, ?_, hl.b.queueFiles, hl.b.buf⟩, hl.band, hl.seq, hl.hw, hl.bi, hl.errors,
      hl.shape, hl.hsNonfile, hl.frame⟩
    · have := hl.b.perm
      simpa [groupEntries] using this
    · intro e he hk
      exact hl.b.nonfile e (by simpa using he) hk
  obtain ⟨s2, wr2, hs2, hr2, hl3, h1, h2, h3, hmem, hex⟩ := finishHunk_runs hl2 hu.q rfl hsorted
  refine ⟨s2, wr2, hs2, ?_, hl3, h2, h3, hex.trans hu.ex, ?_⟩
  · rw [flushGroup_queue_nil wr hu.q]
    exact RunsT.of_allOps hr2 (finishHunk_nbw _)
  · intro e he hk
    rw [h1, List.append_nil] at he
    rcases hmem e he with he | he
    · exact hu.addrs e (List.mem_append_left _ he) hk
    · simp only [hu.f, List.append_nil] at he
      exact hu.addrs e (List.mem_append_right _ he) hk

/-- The main loop in the unchanged run. -/
theorem backupLoop_unchanged (ms : List Matched) :
    ∀ (s : Store) (wr : Writer) (hs : List (List IndexEntry)) (pre grp : List SrcEntry) (bytes : Nat),
      UInv H o nb s0 basis ex s wr hs pre grp bytes →
      (∀ sf ∈ srcsOf ms, sf.kind ≠ .unknown) → (∀ m ∈ ms, UnchangedM ex m) →
      (∀ be ∈ basisOf ms, be ∈ basis) →
      ((grp ++ srcsOf ms).map (·.apath)).Pairwise (fun a b => apathCmp a b = .lt) →
      ∃ s' wr' hs' pre' grp' bytes' evs, RunsT NoBlockWrite (backupLoop H o wr ms) s (.ok wr') s' evs ∧
        UInv H o nb s0 basis ex s' wr' hs' pre' grp' bytes' ∧
        (grp'.map (·.apath)).Pairwise (fun a b => apathCmp a b = .lt) := by
  induction ms with
  | nil =>
    intro s wr hs pre grp bytes hu _ _ _ hsorted
    rw [backupLoop]
    exact ⟨s, wr, hs, pre, grp, bytes, [], RunsT.ret _ _, hu, by simpa [srcsOf] using hsorted⟩
  | cons m rest ih =>
    intro s wr hs pre grp bytes hu hsrc hun hbas hsorted
    have hun' : ∀ m ∈ rest, UnchangedM ex m := fun m hm => hun m (List.mem_cons_of_mem _ hm)
    have entry : ∀ (bo : Option IndexEntry) (sf : SrcEntry), srcsOf (m :: rest) = sf :: srcsOf rest →
        (∀ be ∈ basisOf rest, be ∈ basis) → (∀ be, bo = some be → be ∈ basis ∧ be.apath = sf.apath) →
        (sf.kind = .file → ∃ be, bo = some be ∧ heuristicallyUnchanged sf be = some true ∧
          be.addrs.all (fun a => wr.exists_.contains a.hash) = true) →
        ∃ s' wr' hs' pre' grp' bytes' evs,
          RunsT NoBlockWrite ((copyEntry H o wr bo sf).bind (Inv.loopCont H o sf rest)) s (.ok wr') s' evs ∧
          UInv H o nb s0 basis ex s' wr' hs' pre' grp' bytes' ∧
          (grp'.map (·.apath)).Pairwise (fun a b => apathCmp a b = .lt) := by
      intro bo sf hsf hbas' hbo hunch
      rw [hsf] at hsrc hsorted
      have hkind := hsrc sf (List.mem_cons_self ..)
      obtain ⟨e, st', ch, heq, herr, hstrip, hnf, haddr⟩ := copyEntry_unchanged (H := H) (o := o) wr bo sf hkind hunch
      rw [heq]
      simp only [Prog.ret_bind]
      -- the state after recording the entry
      have hu1 : UInv H o nb s0 basis ex s { wr with pending := wr.pending ++ [e], stats := st' } hs pre
          (grp ++ [sf]) bytes := by
        refine ⟨hu.l.step (hu.l.b.pushPending hstrip hnf st') ⟨rfl, rfl, rfl, herr, fun _ _ => rfl⟩, hu.q, hu.f,
          hu.ex, ?_⟩
        intro e' he' hk
        simp only [List.mem_append, List.mem_singleton] at he'
        rcases he' with he' | he' | rfl
        · exact hu.addrs e' (List.mem_append_left _ he') hk
        · exact hu.addrs e' (List.mem_append_right _ he') hk
        · obtain ⟨be, rfl, hab⟩ := haddr hk
          obtain ⟨hbm, hap⟩ := hbo be rfl
          refine ⟨be, hbm, ?_, hab⟩
          rw [hap]
          exact (congrArg IndexEntry.apath hstrip).symm
      have hso1 : (((grp ++ [sf]) ++ srcsOf rest).map (·.apath)).Pairwise fun a b => apathCmp a b = .lt := by
        simpa using hsorted
      -- maybe flush, then the rest
      have hrest : ∃ s' wr' hs' pre' grp' bytes' evs,
          RunsT NoBlockWrite ((if ({ wr with pending := wr.pending ++ [e], stats := st' } : Writer).pending.length +
                ({ wr with pending := wr.pending ++ [e], stats := st' } : Writer).queue.length ≥ o.maxEntriesPerHunk
              then flushGroup H { wr with pending := wr.pending ++ [e], stats := st' }
              else Prog.ret { wr with pending := wr.pending ++ [e], stats := st' }).bind
            fun w => backupLoop H o w rest) s (.ok wr') s' evs ∧
          UInv H o nb s0 basis ex s' wr' hs' pre' grp' bytes' ∧
          (grp'.map (·.apath)).Pairwise (fun a b => apathCmp a b = .lt) := by
        split
        · have hsg : ((grp ++ [sf]).map (·.apath)).Pairwise fun a b => apathCmp a b = .lt := by
            rw [List.map_append] at hso1
            exact (List.pairwise_append.mp hso1).1
          obtain ⟨s1, wr1, hs1, hr1, hu2⟩ := flushGroup_unchanged hu1 hsg
          have hsr : ((([] : List SrcEntry) ++ srcsOf rest).map (·.apath)).Pairwise
              fun a b => apathCmp a b = .lt := by
            rw [List.map_append] at hso1
            simpa using (List.pairwise_append.mp hso1).2.1
          obtain ⟨s', wr', hs', pre', grp', bytes', evs, hr, hu', hsg'⟩ :=
            ih s1 wr1 hs1 _ [] bytes hu2 (fun x hx => hsrc x (List.mem_cons_of_mem _ hx)) hun' hbas' hsr
          exact ⟨s', wr', hs', pre', grp', bytes', evs, RunsT.bind0 hr1 hr, hu', hsg'⟩
        · obtain ⟨s', wr', hs', pre', grp', bytes', evs, hr, hu', hsg'⟩ :=
            ih s _ hs pre (grp ++ [sf]) bytes hu1 (fun x hx => hsrc x (List.mem_cons_of_mem _ hx)) hun' hbas' hso1
          exact ⟨s', wr', hs', pre', grp', bytes', evs,
            RunsT.bind0 (f := fun w => backupLoop H o w rest) (RunsT.ret _ s) hr, hu', hsg'⟩
      obtain ⟨s', wr', hs', pre', grp', bytes', evs, hr, hu', hsg'⟩ := hrest
      cases ch with
      | none =>
        refine ⟨s', wr', hs', pre', grp', bytes', evs, ?_, hu', hsg'⟩
        simpa [Inv.loopCont] using hr
      | some ck =>
        refine ⟨s', wr', hs', pre', grp', bytes', evs ++ [.change sf.apath ck], ?_, hu', hsg'⟩
        simp only [Inv.loopCont, report, Prog.emit_bind, Prog.ret_bind]
        exact RunsT.emit hr
    cases m with
    | left b =>
      obtain ⟨s', wr', hs', pre', grp', bytes', evs, hr, hu', hsg'⟩ :=
        ih s wr hs pre grp bytes hu hsrc hun' (fun be hbe => hbas be (List.mem_cons_of_mem _ hbe)) hsorted
      refine ⟨s', wr', hs', pre', grp', bytes', evs ++ [.change b.apath .deleted], ?_, hu', hsg'⟩
      rw [Inv.backupLoop_left]
      simp only [report, Prog.emit_bind, Prog.ret_bind]
      exact RunsT.emit hr
    | right sf =>
      rw [Inv.backupLoop_right]
      refine entry none sf rfl hbas (fun _ h => nomatch h) ?_
      intro hk
      exact absurd hk (hun _ (List.mem_cons_self ..))
    | both b sf =>
      rw [Inv.backupLoop_both]
      have hm := hun _ (List.mem_cons_self ..)
      refine entry (some b) sf rfl (fun be hbe => hbas be (List.mem_cons_of_mem _ hbe)) ?_ ?_
      · intro be hbe
        cases hbe
        exact ⟨hbas b (List.mem_cons_self ..), hm.1⟩
      · intro hk
        obtain ⟨h1, h2⟩ := hm.2 hk
        exact ⟨b, rfl, h1, by rw [hu.ex]; exact h2⟩

/-! ### The whole run -/

theorem basisOf_map_right (ss : List SrcEntry) : basisOf (ss.map .right) = [] := by
  induction ss with
  | nil => rfl
  | cons x ss ih => simp [basisOf, ih]

theorem basisOf_map_left (bs : List IndexEntry) : basisOf (bs.map .left) = bs := by
  induction bs with
  | nil => rfl
  | cons x bs ih => simp [basisOf, ih]

theorem basisOf_mergeTrees (bs : List IndexEntry) (ss : List SrcEntry) :
    ∀ be ∈ basisOf (mergeTrees bs ss), be ∈ bs := by
  fun_induction mergeTrees bs ss with
  | case1 ss => intro be hbe; rw [basisOf_map_right] at hbe; cases hbe
  | case2 bs _ => intro be hbe; rwa [basisOf_map_left] at hbe
  | case3 b bs x ss hcmp ih =>
    intro be hbe
    simp only [basisOf, List.mem_cons] at hbe
    rcases hbe with rfl | hbe
    · exact List.mem_cons_self ..
    · exact List.mem_cons_of_mem _ (ih be hbe)
  | case4 b bs x ss hcmp ih =>
    intro be hbe
    simp only [basisOf, List.mem_cons] at hbe
    rcases hbe with rfl | hbe
    · exact List.mem_cons_self ..
    · exact List.mem_cons_of_mem _ (ih be hbe)
  | case5 b bs x ss hcmp ih =>
    intro be hbe
    exact ih be (by simpa [basisOf] using hbe)

/-- Merging a listing with a source that has the same paths pairs them up one by one. -/
theorem mergeTrees_paired {R : IndexEntry → SrcEntry → Prop} {bs : List IndexEntry} {ss : List SrcEntry}
    (hp : Paired (fun be sf => be.apath = sf.apath ∧ R be sf) bs ss) :
    ∀ m ∈ mergeTrees bs ss, ∃ be sf, m = .both be sf ∧ be.apath = sf.apath ∧ R be sf := by
  induction hp with
  | nil => intro m hm; simp [mergeTrees] at hm
  | @cons be sf bs ss hab _ ih =>
    intro m hm
    have hcmp : apathCmp be.apath sf.apath = .eq := (C11.cmp_eq_iff _ _).2 hab.1
    rw [mergeTrees] at hm
    simp only [hcmp, List.mem_cons] at hm
    rcases hm with rfl | hm
    · exact ⟨be, sf, rfl, hab.1, hab.2⟩
    · exact ih m hm

/-- The main part of `backup()` in the unchanged run. -/
theorem backupMain_unchanged {src : List SrcEntry} {s : Store} (x : Nat × List Str × List IndexEntry)
    (hl : LInv H o nb s0 s { band := x.1, exists_ := x.2.1 } [] [] [] 0)
    (hsrc : ∀ sf ∈ src, sf.kind ≠ .unknown)
    (hun : ∀ m ∈ mergeTrees x.2.2 src, UnchangedM x.2.1 m)
    (hsorted : (src.map (·.apath)).Pairwise fun a b => apathCmp a b = .lt) :
    ∃ (s' : Store) (hs : List (List IndexEntry)) (evs : List Event) (stats : Stats),
      RunsT NoBlockWrite (Inv.backupMain H o src x) s (.ok stats) s' evs ∧
      (∀ n, s'.get? (.hunk nb n) = (hs[n]?).map FileVal.hunk) ∧ AddrsFrom x.2.2 hs.flatten := by
  have hsrcs := srcsOf_mergeTrees x.2.2 src
  have hu0 : UInv H o nb s0 x.2.2 x.2.1 s { band := x.1, exists_ := x.2.1 } [] [] [] 0 :=
    ⟨hl, rfl, rfl, rfl, fun _ h => nomatch h⟩
  obtain ⟨s1, wr1, hs1, pre1, grp1, bytes1, evs, hr1, hu1, hsg1⟩ :=
    backupLoop_unchanged (mergeTrees x.2.2 src) s _ [] [] [] 0 hu0 (by rwa [hsrcs]) hun
      (basisOf_mergeTrees _ _) (by simpa [hsrcs] using hsorted)
  obtain ⟨s2, wr2, hs2, hr2, hu2⟩ := flushGroup_unchanged hu1 hsg1
  have hl2 := hu2.l
  have hp2 : wr2.pending = [] := by
    have := hl2.b.perm
    simp only [groupEntries, hu2.q, hu2.f, List.map_nil, List.append_nil] at this
    have := this.length_eq
    simpa using this
  have hr3 : RunsT NoBlockWrite (finishHunk wr2) s2 (.ok wr2) s2 [] := by
    refine RunsT.of_allOps ?_ (finishHunk_nbw _)
    unfold finishHunk
    simp only [hp2, List.isEmpty_nil, if_true, Prog.pure_def]
    exact RunsAt.ret _ _
  have hpar : s2.parentOk (.bandTail nb) = true := by
    simp [Store.parentOk, Key.parent, hl2.bi.bandDir]
  have hclose : RunsT NoBlockWrite (bandClose wr2.band wr2.hunksWritten) s2 (.ok ())
      (s2.put (.bandTail nb) (.tail (some hs2.length))) [] := by
    refine RunsT.of_allOps ?_ (bandClose_nbw _ _)
    rw [hl2.band, hl2.hw]
    exact RunsAt.performUnit_write hpar (Or.inl hl2.bi.tail)
  refine ⟨s2.put (.bandTail nb) (.tail (some hs2.length)), hs2, evs, wr2.stats, ?_, ?_, ?_⟩
  · unfold Inv.backupMain
    refine RunsT.bind_r0 hr1 ?_
    refine RunsT.bind0 hr2 ?_
    refine RunsT.bind0 hr3 ?_
    exact RunsT.bind0 (a := ()) hclose (RunsT.ret wr2.stats _)
  · intro n
    rw [get?_put]
    simp only [show Key.hunk nb n ≠ Key.bandTail nb from (fun e => by cases e), if_false]
    exact hl2.bi.hunk n
  · intro e he hk
    exact hu2.addrs e (by rw [hp2, List.append_nil]; exact he) hk

/-- Two descriptions of the hunks of the same store agree. -/
theorem hunks_unique {s : Store} {nb : Nat} {hs hs' : List (List IndexEntry)}
    (h : ∀ n, s.get? (.hunk nb n) = (hs[n]?).map FileVal.hunk)
    (h' : ∀ n, s.get? (.hunk nb n) = (hs'[n]?).map FileVal.hunk) : hs = hs' := by
  apply List.ext_getElem?
  intro n
  have := (h n).symm.trans (h' n)
  cases h1 : hs[n]? <;> cases h2 : hs'[n]? <;> simp_all

theorem Paired.comp {α β γ : Type} {R : α → β → Prop} {S : β → γ → Prop} {l1 : List α} {l2 : List β}
    {l3 : List γ} (h1 : Paired R l1 l2) (h2 : Paired S l2 l3) :
    Paired (fun a c => ∃ b, R a b ∧ S b c) l1 l3 := by
  induction h1 generalizing l3 with
  | nil => cases h2; exact .nil
  | cons hab _ ih =>
    cases h2 with
    | cons hbc h2' => exact .cons ⟨_, hab, hbc⟩ (ih h2')

/-- **C14, first clause.**  Every file of the source looks unchanged (kind, mtime, size) against the
entry with its path in the listing of the newest version: the run issues no block write and every
file entry it records carries the basis addresses. -/
theorem backup_unchanged (hinj : Function.Injective H) (hlen : ∀ d, subdirNameChars ≤ (H d).length)
    (hmax : 0 < o.maxBlockSize) {src : List SrcEntry} {s : Store} (hsrc : SrcGood src)
    (hg : ArchiveGood H src s)
    (hpair : Paired (fun be sf => be.apath = sf.apath ∧
      (sf.kind = .file → heuristicallyUnchanged sf be = some true)) (basisListing s) src) :
    ∃ s' hs stats evs, Summary H o src s s' hs stats evs ∧
      (∀ ev ∈ ((backup H o src).run (World.clean s)).2.trace, NoBlockWrite ev.op) ∧
      Paired (fun be e => e.apath = be.apath ∧ (e.kind = .file → e.addrs = be.addrs))
        (basisListing s) hs.flatten := by
  obtain ⟨s', hs, stats, evs, hsum⟩ := backup_summary (o := o) hinj hlen hmax hsrc hg
  obtain ⟨hr1, hbasis, hl⟩ := backupPrelude_runs (o := o) hlen hg
  -- every basis address names a block the in-memory set knows
  have hblocks : ∀ be ∈ basisListing s, be.addrs.all
      (fun a => (blockNamesOf (withNewBand s)).contains a.hash) = true := by
    intro be hbe
    rw [List.all_eq_true]
    intro a ha
    have hbe' : ∃ b, be ∈ listSpec s b := by
      unfold basisListing at hbe
      split at hbe
      · cases hbe
      · exact ⟨_, hbe⟩
    obtain ⟨b, hbe'⟩ := hbe'
    obtain ⟨b', k, es, hgk, _, hee⟩ := C08.listed_is_stored hbe'
    have := hg.noDangling b' k es (by simp [hunkAt, hgk]) be hee a ha
    unfold readAddrPure blockContent at this
    cases hgb : s.get? (.block a.hash) with
    | none => simp [hgb] at this
    | some v =>
      cases v with
      | blockData c =>
        have hl' : blockListed (withNewBand s) a.hash :=
          ⟨.blockData c, by rw [get?_withNewBand]; simpa using hgb, rfl, rfl⟩
        simpa using hl.b.exAll _ hl'
      | _ => simp [hgb] at this
  have hun : ∀ m ∈ mergeTrees (basisListing s) src, UnchangedM (blockNamesOf (withNewBand s)) m := by
    have hp2 : Paired (fun be sf => be.apath = sf.apath ∧
        ((sf.kind = .file → heuristicallyUnchanged sf be = some true) ∧ be ∈ basisListing s))
        (basisListing s) src :=
      hpair.imp_mem fun be hbe sf _ h => ⟨h.1, h.2, hbe⟩
    intro m hm
    obtain ⟨be, sf, rfl, hap, hh, hbe⟩ := mergeTrees_paired hp2 m hm
    exact ⟨hap, fun hk => ⟨hh hk, hblocks be hbe⟩⟩
  obtain ⟨s2, hs2, evs2, stats2, hr2, hhunks, haddrs⟩ :=
    backupMain_unchanged (newBandOf s, blockNamesOf (withNewBand s), basisListing s) hl
      (fun sf hsf => hsrc.kinds sf hsf) hun hsrc.sorted
  have hrun : RunsT NoBlockWrite (backup H o src) s (.ok stats2) s2 evs2 := by
    rw [Inv.backup_eq]
    exact RunsT.bind0 (RunsT.of_allOps hr1 backupPrelude_nbw) hr2
  -- the two descriptions are of the same run
  have hs_eq : s2 = s' := by
    have h1 := hrun.runsAt.clean.2.1
    have h2 := hsum.runs.clean.2.1
    exact h1.symm.trans h2
  subst hs_eq
  have hhs : hs2 = hs := hunks_unique hhunks hsum.final.hunk
  subst hhs
  refine ⟨s2, hs2, stats, evs, hsum, ?_, ?_⟩
  · obtain ⟨_, new, ht, hP⟩ := hrun _ (At.clean s)
    intro ev hev
    rw [ht] at hev
    simp only [World.clean, List.append_nil] at hev
    exact hP ev hev
  · have hcomp := hpair.comp hsum.records
    have hsorted := C08.stitch_sorted hg.wf
    have hinjb : ∀ x ∈ basisListing s, ∀ y ∈ basisListing s, x.apath = y.apath → x = y := by
      unfold basisListing
      split
      · intro x hx; cases hx
      · rename_i b _
        have := hsorted b
        rw [List.pairwise_map] at this
        exact pairwise_lt_inj this
    refine hcomp.imp_mem ?_
    intro be hbe e he ⟨sf, ⟨hap, _⟩, hrec⟩
    have hea : e.apath = be.apath := hrec.apath.trans hap.symm
    refine ⟨hea, fun hk => ?_⟩
    obtain ⟨be', hbe', hap', hadd⟩ := haddrs e he hk
    have : be' = be := hinjb be' hbe' be hbe (hap'.trans hea)
    rw [hadd, this]

/-! ### The same tree again -/

theorem readBack_length {s : Store} {as : List Addr} {x : Str} (h : readBack H s as = some x) :
    (as.map (·.len)).sum = x.length := by
  induction as generalizing x with
  | nil => simp only [readBack, Option.some.injEq] at h; subst h; rfl
  | cons a as ih =>
    simp only [readBack] at h
    cases h1 : readAddrPure H s a with
    | none => simp [h1] at h
    | some y =>
      cases h2 : readBack H s as with
      | none => simp [h1, h2] at h
      | some z =>
        simp only [h1, h2, Option.some.injEq] at h
        subst h
        have hy : y.length = a.len := by
          unfold readAddrPure at h1
          cases hc : blockContent H s a.hash with
          | none => simp [hc] at h1
          | some c =>
            simp only [hc, Option.bind_some, sliceOf] at h1
            split at h1
            · cases h1
              simp only [List.length_take, List.length_drop]
              omega
            · cases h1
        simp [ih h2, hy]

theorem maxNat?_of_max {l : List Nat} {m : Nat} (hm : m ∈ l) (hle : ∀ x ∈ l, x ≤ m) : maxNat? l = some m := by
  cases h : maxNat? l with
  | none => rw [maxNat?_none h] at hm; cases hm
  | some m' =>
    have h1 := hle m' (maxNat?_mem h)
    have h2 := maxNat?_ge h m hm
    rw [Nat.le_antisymm h1 h2]

/-- After a backup, the basis the next backup meets is the new version's listing, and every file of
the SAME source looks unchanged against it. -/
theorem Summary.unchanged_pair {src : List SrcEntry} {s s' : Store} {hs : List (List IndexEntry)} {stats : Stats}
    {evs : List Event} (h : Summary H o src s s' hs stats evs) (hsrc : SrcGood src) (hst : StoreOK H s) :
    Paired (fun be sf => be.apath = sf.apath ∧ (sf.kind = .file → heuristicallyUnchanged sf be = some true))
      (basisListing s') src := by
  have hb : basisListing s' = hs.flatten := by
    unfold basisListing
    rw [maxNat?_of_max h.bandIds_mem (h.bandIds_le hst)]
    exact final_listSpec h.final h.usable
  rw [hb]
  have : ∀ {l1 : List SrcEntry} {l2 : List IndexEntry}, Paired (Records H o s') l1 l2 → (∀ sf ∈ l1, sf ∈ src) →
      Paired (fun be sf => be.apath = sf.apath ∧ (sf.kind = .file → heuristicallyUnchanged sf be = some true))
        l2 l1 := by
    intro l1 l2 hp
    induction hp with
    | nil => intro _; exact .nil
    | @cons sf e l1 l2 hr _ ih =>
      intro hsub
      refine .cons ⟨hr.apath, fun hk => ?_⟩ (ih fun x hx => hsub x (List.mem_cons_of_mem _ hx))
      have hsf := hsub sf (List.mem_cons_self ..)
      obtain ⟨sec, nanos, h1, _, h3⟩ := C01.mtime_roundtrip sf.mtimeNs (hsrc.mtimes sf hsf).1 (hsrc.mtimes sf hsf).2
      simp only [mtimeToIndex, Option.some.injEq, Prod.mk.injEq] at h1
      have ht : entryTimeNs e.mtime e.mtimeNanos = some sf.mtimeNs := by
        rw [hr.mtime, hr.mtimeNanos, h1.1, h1.2]; exact h3
      have hsize : e.size = sf.size := by
        have := readBack_length (hr.content hk)
        rw [List.length_take, hsrc.wf sf hsf hk, Nat.min_self] at this
        rw [hsrc.wf sf hsf hk]
        exact this
      simp [heuristicallyUnchanged, hr.kind, ht, hsize]
  exact this h.records (fun _ hx => hx)

end Conserve.Exact
