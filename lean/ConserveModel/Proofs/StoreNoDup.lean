import ConserveModel.Proofs.FrameStep
/-
`NoDupKeys`: the association list holds each key at most once.  Every operation preserves it, so
it holds of every store reachable from one that has it (e.g. from `[]`).  With it, `get?` and
list membership agree, which ties `bandIdsOf` (a scan of the list) to `get?`.
-/
namespace Conserve
open Prog

/-- Each key occurs at most once in the association list. -/
def Store.NoDupKeys (s : Store) : Prop := (s.map Prod.fst).Nodup

theorem Store.noDupKeys_nil : Store.NoDupKeys [] := List.nodup_nil

theorem Store.mem_of_get? {s : Store} {k : Key} {v : FileVal} (h : s.get? k = some v) : (k, v) ∈ s := by
  induction s with
  | nil => simp [Store.get?] at h
  | cons kv s ih =>
    obtain ⟨a, b⟩ := kv
    simp only [Store.get?, List.lookup_cons] at h ih
    by_cases hk : k = a
    · subst hk; simp at h; subst h; simp
    · have : (k == a) = false := by simpa using hk
      simp only [this] at h
      exact List.mem_cons_of_mem _ (ih h)

theorem Store.get?_of_mem {s : Store} (hs : s.NoDupKeys) {k : Key} {v : FileVal} (h : (k, v) ∈ s) :
    s.get? k = some v := by
  induction s with
  | nil => cases h
  | cons kv s ih =>
    obtain ⟨a, b⟩ := kv
    simp only [Store.NoDupKeys, List.map_cons, List.nodup_cons] at hs
    simp only [Store.get?, List.lookup_cons] at ih ⊢
    rcases List.mem_cons.mp h with heq | hin
    · cases heq; simp
    · have hne : k ≠ a := by
        rintro rfl
        exact hs.1 (List.mem_map.mpr ⟨(k, v), hin, rfl⟩)
      have : (k == a) = false := by simpa using hne
      simp only [this]
      exact ih hs.2 hin

theorem Store.get?_iff_mem {s : Store} (hs : s.NoDupKeys) {k : Key} {v : FileVal} :
    s.get? k = some v ↔ (k, v) ∈ s := ⟨Store.mem_of_get?, Store.get?_of_mem hs⟩

theorem Store.NoDupKeys.filter {s : Store} (hs : s.NoDupKeys) (p : Key × FileVal → Bool) :
    Store.NoDupKeys (List.filter p s) := by
  unfold Store.NoDupKeys at hs ⊢
  exact hs.sublist ((List.filter_sublist).map _)

theorem Store.NoDupKeys.erase {s : Store} (hs : s.NoDupKeys) (k : Key) : (s.erase k).NoDupKeys := hs.filter _

theorem Store.NoDupKeys.eraseTree {s : Store} (hs : s.NoDupKeys) (k : Key) : (s.eraseTree k).NoDupKeys := hs.filter _

theorem Store.NoDupKeys.put {s : Store} (hs : s.NoDupKeys) (k : Key) (v : FileVal) : (s.put k v).NoDupKeys := by
  have he := hs.erase k
  unfold Store.NoDupKeys at he ⊢
  simp only [Store.put, List.map_append, List.map_cons, List.map_nil]
  refine List.nodup_append.mpr ⟨he, by simp, ?_⟩
  intro a ha b hb
  simp only [List.mem_singleton] at hb
  subst hb
  obtain ⟨⟨k', v'⟩, hin, rfl⟩ := List.mem_map.mp ha
  simp only [Store.erase, List.mem_filter, bne_iff_ne, ne_eq] at hin
  exact hin.2

/-- Every operation keeps the keys distinct. -/
theorem applyOp_noDupKeys (e : Bool) {s : Store} (hs : s.NoDupKeys) (o : Op) : (applyOp e s o).1.NoDupKeys := by
  cases o with
  | read k => rw [applyOp_readOnly_store (by simp [ReadOnly])]; exact hs
  | listDir k => rw [applyOp_readOnly_store (by simp [ReadOnly])]; exact hs
  | metadata k => rw [applyOp_readOnly_store (by simp [ReadOnly])]; exact hs
  | write k v m =>
    rcases applyOp_write_store e s k v m with ⟨_, h⟩ | ⟨_, h⟩
    · rw [h]; exact hs.put k v
    · rw [h]; exact hs
  | createDir k =>
    rcases applyOp_createDir_store e s k with h | ⟨_, h⟩
    · rw [h]; exact hs
    · rw [h]; exact hs.put k .dir
  | removeFile k =>
    simp only [applyOp]
    split
    · exact hs
    · exact hs
    · exact hs.erase k
  | removeDirAll k =>
    simp only [applyOp]
    split
    · exact hs
    · exact hs.eraseTree k

theorem World.exec_noDupKeys (w : World) (o : Op) (hs : w.store.NoDupKeys) : (w.exec o).1.store.NoDupKeys := by
  rcases (World.exec_cases w o).2 with ⟨h, _, _⟩ | ⟨k, _, _, _, _, h, _, _⟩ | ⟨_, h, _, _⟩ | ⟨h, _, _⟩
  · rw [h]; exact hs
  · rw [h]; exact hs.put k .empty
  · rw [h]; exact hs
  · rw [h]; exact applyOp_noDupKeys _ hs o

/-- Every store a run visits has distinct keys if the first one has (any program, any world). -/
theorem Prog.run_noDupKeys {α : Type} (p : Prog α) (w : World) (hs : w.store.NoDupKeys) :
    (p.run w).2.store.NoDupKeys := by
  induction p generalizing w with
  | ret a => exact hs
  | fail e => exact hs
  | panic s => exact hs
  | emit ev k ih => exact ih { w with events := ev :: w.events } hs
  | op o k ih => rw [Prog.run_op]; exact ih _ _ (World.exec_noDupKeys w o hs)

/-! ### `bandIdsOf` -/

theorem mem_bandIdsOf {s : Store} {b : Nat} : b ∈ bandIdsOf s ↔ (Key.bandDir b, FileVal.dir) ∈ s := by
  unfold bandIdsOf sortNat
  rw [List.mem_mergeSort, List.mem_filterMap]
  constructor
  · rintro ⟨⟨k, v⟩, hin, h⟩
    split at h
    · rename_i b' hk hv
      simp only at hk hv
      cases h
      rw [← hk, ← hv]; exact hin
    · cases h
  · intro h
    exact ⟨(.bandDir b, .dir), h, rfl⟩

theorem mem_bandIdsOf_iff_get? {s : Store} (hs : s.NoDupKeys) {b : Nat} :
    b ∈ bandIdsOf s ↔ s.get? (.bandDir b) = some .dir := by
  rw [mem_bandIdsOf, Store.get?_iff_mem hs]

/-- Band directories are never lost when the store is extended. -/
theorem bandIdsOf_subset_of_extends {s s' : Store} (h : Extends s s') (hs : s.NoDupKeys) (hs' : s'.NoDupKeys) :
    ∀ b ∈ bandIdsOf s, b ∈ bandIdsOf s' := by
  intro b hb
  rw [mem_bandIdsOf_iff_get? hs] at hb
  rw [mem_bandIdsOf_iff_get? hs']
  exact h.keeps hb (by simp)

end Conserve
