import ConserveModel.Proofs.FsRestore
/-
The restore loop and the deferrals keep the invariant, for listings in which no entry lies
below a non-directory entry (`Confinable`).
-/
namespace Conserve

theorem joinSlash_head? (c : Str) (cs : List Str) (hc : c ≠ []) :
    (joinSlash (c :: cs)).head? = c.head? := by
  cases c with
  | nil => exact absurd rfl hc
  | cons x xs => cases cs <;> simp [joinSlash]

/-- `destination.join(&apath[1..])` for a valid apath: the destination, the apath's components,
and a trailing empty component for the root apath (`dest/`). -/
theorem joinDest_valid (D : Path) {a : Str} (h : isValid a = true) :
    joinDest D a = D ++ components a ++ (if a = [slash] then [[]] else []) := by
  obtain ⟨cs, hg, rfl⟩ := (valid_iff_pathOf a).1 h
  rw [components_pathOf hg]
  cases cs with
  | nil => simp [joinDest, pathOf, splitSlash]
  | cons c cs' =>
    have hc := (goodName_iff c).1 (hg c List.mem_cons_self)
    have hne := joinSlash_ne_nil cs' hc.1
    have h1 : pathOf (c :: cs') ≠ [slash] := by simp [pathOf, hne]
    have hhead : (joinSlash (c :: cs')).head? ≠ some slash := by
      rw [joinSlash_head? c cs' hc.1]
      intro e
      exact hc.2.1 (List.mem_of_mem_head? e)
    rw [if_neg h1, List.append_nil]
    unfold joinDest
    simp only [pathOf, List.drop_succ_cons, List.drop_zero]
    rw [if_neg hhead, splitSlash_joinSlash hg.noSlash]

theorem comps_root_of_eq {a : Str} (h : a = [slash]) : components a = [] := by subst h; rfl

theorem ctx_of_cleanL {D : Path} {fs : Fs} {n : RNode} (hD : DestOk fs D)
    (hv : isValid n.apath = true) (hc : CleanFullL fs D (comps n)) :
    Ctx fs D (comps n) (if n.apath = [slash] then [[]] else []) := by
  refine ⟨hD, (valid_eq_pathOf hv).1, ?_, ?_, hc.to⟩
  · intro c hc'
    by_cases hr : n.apath = [slash]
    · rw [if_pos hr] at hc'; simpa using hc'
    · rw [if_neg hr] at hc'; cases hc'
  · by_cases hr : n.apath = [slash]
    · exact Or.inr (comps_root_of_eq hr)
    · exact Or.inl (if_neg hr)

theorem ctx_of_inv {D : Path} {S : List Str → Prop} {fs : Fs} {n : RNode} (hI : Inv D S fs)
    (hv : isValid n.apath = true) (hcl : ∀ pre, pre <+: comps n → ¬ S pre) :
    Ctx fs D (comps n) (if n.apath = [slash] then [[]] else []) ∧ CleanFull fs D (comps n) :=
  ⟨ctx_of_cleanL hI.dest hv (hI.cleanFull hcl).toL, hI.cleanFull hcl⟩

/-- No symlink appears where there was nothing. -/
def NoNewLink (fs fs' : Fs) : Prop :=
  ∀ q x, fs.node q = none → fs'.node q = some x → x.kind ≠ .symlink

theorem Local.noNewLink {k : FKind} {fs fs' : Fs} {p : Path} (h : Local k fs fs' p)
    (hk : k ≠ .symlink) : NoNewLink fs fs' := by
  intro q x hn hs
  by_cases hq : q = p
  · subst hq; rw [h.created x hn hs]; exact hk
  · rw [(h.eqMod_of_ne hq).none_iff.1 hn] at hs; cases hs

theorem Grows.noNewLink {D : Path} {T : List Str → Prop} {fs fs' : Fs}
    (h : Grows D T (fun _ => False) fs fs') : NoNewLink fs fs' := by
  intro q x hn hs
  by_cases hq : D <+: q
  · obtain ⟨cs, rfl⟩ := hq
    rcases h.fresh cs x hn hs with hk | hf
    · rw [hk]; decide
    · exact hf.elim
  · rw [h.outside q hq, hn] at hs; cases hs

theorem NoNewLink.refl (fs : Fs) : NoNewLink fs fs := fun q x hn hs => by rw [hn] at hs; cases hs

/-- One turn of the loop, from the weak hypothesis: no prefix of the entry's path (the path
itself included) is a symlink in the file system. -/
theorem restoreNodeFs_growsL {uidOf gidOf : Str → Option Nat} {old : Bool} {D : Path}
    {fs : Fs} {n : RNode} (hD : DestOk fs D) (hv : isValid n.apath = true)
    (hfull : CleanFullL fs D (comps n)) :
    Grows D (· <+: comps n) (fun c => c = comps n ∧ n.kind ≠ .dir) fs
      (restoreNodeFs uidOf gidOf old D fs n).1 ∧
    (∀ d ∈ (restoreNodeFs uidOf gidOf old D fs n).2.2,
      d.node = n ∧ n.kind = .dir ∧ d.path = joinDest D n.apath) ∧
    (n.kind ≠ .symlink → NoNewLink fs (restoreNodeFs uidOf gidOf old D fs n).1) := by
  have hctx := ctx_of_cleanL hD hv hfull
  have hpath := joinDest_valid D hv
  have hDn : fs.node D ≠ none := by
    obtain ⟨x, hx, _⟩ := Fs.isDir_iff.1 (hD.dirs D (List.prefix_refl _))
    rw [hx]; simp
  unfold restoreNodeFs
  cases hk : n.kind with
  | dir =>
    dsimp only
    by_cases hr : n.apath = [slash]
    · simp only [hr, ne_eq, not_true_eq_false, if_false]
      refine ⟨Grows.refl _ _ _ _, fun d hd => ?_, fun _ => NoNewLink.refl _⟩
      simp only [List.mem_singleton] at hd
      subst hd
      exact ⟨rfl, trivial, rfl⟩
    · simp only [hr, ne_eq, not_false_eq_true, if_true]
      have hG : Grows D (· <+: comps n) (fun _ => False) fs
          (restoreDirFs fs (joinDest D n.apath)).1 := by
        rw [restoreDirFs_fst, hpath, if_neg hr, List.append_nil]
        exact mkdirAll_grows _ fs (comps n) hD hctx.good hfull
      rcases hrd : restoreDirFs fs (joinDest D n.apath) with ⟨fs1, r⟩
      rw [hrd] at hG
      cases r with
      | error e =>
        exact ⟨hG.mono (fun _ h => h) (fun _ h => h.elim), (fun d hd => by cases hd), fun _ => hG.noNewLink⟩
      | ok u =>
        refine ⟨hG.mono (fun _ h => h) (fun _ h => h.elim), fun d hd => ?_, fun _ => hG.noNewLink⟩
        simp only [List.mem_singleton] at hd
        subst hd
        exact ⟨rfl, trivial, rfl⟩
  | file =>
    dsimp only
    rw [hpath]
    have L := restoreFileFs_local (uidOf := uidOf) (gidOf := gidOf) (old := old) (n := n) hctx
      (hfull _ (List.prefix_refl _))
    exact ⟨(L.grows hDn).mono (fun c h => h ▸ List.prefix_refl _) (fun c h => ⟨h.1, by decide⟩),
      (fun d hd => by cases hd), fun _ => L.noNewLink (by decide)⟩
  | symlink =>
    dsimp only
    rw [hpath]
    have L := restoreSymlinkFs_local (uidOf := uidOf) (gidOf := gidOf) (n := n) hctx
    exact ⟨(L.grows hDn).mono (fun c h => h ▸ List.prefix_refl _) (fun c h => ⟨h.1, by decide⟩),
      (fun d hd => by cases hd), fun h => absurd rfl h⟩
  | unknown =>
    exact ⟨Grows.refl _ _ _ _, (fun d hd => by cases hd), fun _ => NoNewLink.refl _⟩

/-- One turn of the loop (from the strong invariant). -/
theorem restoreNodeFs_grows {uidOf gidOf : Str → Option Nat} {old : Bool} {D : Path}
    {S : List Str → Prop} {fs : Fs} {n : RNode} (hI : Inv D S fs) (hv : isValid n.apath = true)
    (hcl : ∀ pre, pre <+: comps n → ¬ S pre) :
    Grows D (· <+: comps n) (fun c => c = comps n ∧ n.kind ≠ .dir) fs
      (restoreNodeFs uidOf gidOf old D fs n).1 ∧
    ∀ d ∈ (restoreNodeFs uidOf gidOf old D fs n).2.2,
      d.node = n ∧ n.kind = .dir ∧ d.path = joinDest D n.apath :=
  have h := restoreNodeFs_growsL (uidOf := uidOf) (gidOf := gidOf) (old := old) hI.dest hv
    (hI.cleanFull hcl).toL
  ⟨h.1, h.2.1⟩

theorem Inv.mono {D : Path} {S S' : List Str → Prop} {fs : Fs} (h : Inv D S fs)
    (hS : ∀ c, S c → S' c) : Inv D S' fs :=
  ⟨h.dest, fun cs x hx => (h.below cs x hx).imp id (hS cs)⟩

/-- The non-directory entries of a listing, by relative path. -/
def nonDirAt (l : List RNode) : List Str → Prop := fun c => ∃ m ∈ l, m.kind ≠ .dir ∧ comps m = c

/-- What later turns must respect about earlier ones. -/
def NotBelowNonDir (a b : RNode) : Prop := a.kind ≠ .dir → ¬ comps a <+: comps b

theorem restoreLoopFs_inv {uidOf gidOf : Str → Option Nat} {old : Bool} {D : Path} :
    ∀ (rest : List RNode) (fs : Fs) (S : List Str → Prop), Inv D S fs →
      (∀ n ∈ rest, isValid n.apath = true) →
      (∀ n ∈ rest, ∀ pre, pre <+: comps n → ¬ S pre) →
      rest.Pairwise NotBelowNonDir →
      Inv D (fun c => nonDirAt rest c ∨ S c) (restoreLoopFs uidOf gidOf old D fs rest).1 ∧
      (∀ q, ¬ D <+: q → (restoreLoopFs uidOf gidOf old D fs rest).1.node q = fs.node q) ∧
      (∀ d ∈ (restoreLoopFs uidOf gidOf old D fs rest).2.2,
        d.node ∈ rest ∧ d.node.kind = .dir ∧ d.path = joinDest D d.node.apath) := by
  intro rest
  induction rest with
  | nil =>
    intro fs S hI _ _ _
    exact ⟨hI.mono fun c h => Or.inr h, fun _ _ => rfl, fun d hd => by cases hd⟩
  | cons n rest ih =>
    intro fs S hI hv hcl hp
    obtain ⟨hpn, hpr⟩ := List.pairwise_cons.1 hp
    obtain ⟨G, hdef⟩ := restoreNodeFs_grows (uidOf := uidOf) (gidOf := gidOf) (old := old) hI
      (hv n List.mem_cons_self) (hcl n List.mem_cons_self)
    have I1 := hI.grows G
    obtain ⟨I2, hout, hdefs⟩ := ih (restoreNodeFs uidOf gidOf old D fs n).1 _ I1
      (fun m hm => hv m (List.mem_cons_of_mem _ hm))
      (fun m hm pre hpre hS => by
        rcases hS with ⟨rfl, hk⟩ | hS
        · exact hpn m hm hk hpre
        · exact hcl m (List.mem_cons_of_mem _ hm) pre hpre hS)
      hpr
    simp only [restoreLoopFs]
    refine ⟨I2.mono ?_, fun q hq => (hout q hq).trans (G.outside q hq), fun d hd => ?_⟩
    · intro c hc
      rcases hc with ⟨m, hm, hk, e⟩ | ⟨e, hk⟩ | hS
      · exact Or.inl ⟨m, List.mem_cons_of_mem _ hm, hk, e⟩
      · exact Or.inl ⟨n, List.mem_cons_self, hk, e.symm⟩
      · exact Or.inr hS
    · rcases List.mem_append.1 hd with h | h
      · obtain ⟨e, hk, hp'⟩ := hdef d h
        exact ⟨e ▸ List.mem_cons_self, e ▸ hk, e ▸ hp'⟩
      · obtain ⟨hm, hk, hp'⟩ := hdefs d h
        exact ⟨List.mem_cons_of_mem _ hm, hk, hp'⟩

theorem applyDeferralsFs_inv {uidOf gidOf : Str → Option Nat} {D : Path} {S : List Str → Prop} :
    ∀ (ds : List Deferral) (fs : Fs), Inv D S fs →
      (∀ d ∈ ds, isValid d.node.apath = true ∧ d.path = joinDest D d.node.apath ∧
        ∀ pre, pre <+: comps d.node → ¬ S pre) →
      Inv D S (applyDeferralsFs uidOf gidOf fs ds).1 ∧
      (∀ q, ¬ D <+: q → (applyDeferralsFs uidOf gidOf fs ds).1.node q = fs.node q) := by
  intro ds
  induction ds with
  | nil => intro fs hI _; exact ⟨hI, fun _ _ => rfl⟩
  | cons d ds ih =>
    intro fs hI hd
    obtain ⟨hv, hp, hcl⟩ := hd d List.mem_cons_self
    obtain ⟨hctx, hfull⟩ := ctx_of_inv hI hv hcl
    have L := applyDeferralFs_local (uidOf := uidOf) (gidOf := gidOf) (n := d.node) hctx
      (FinalNotLink.of_noneOrDir (hfull _ (List.prefix_refl _)))
    have hj : d.path = D ++ comps d.node ++ (if d.node.apath = [slash] then [[]] else []) := by
      rw [hp, joinDest_valid D hv]; rfl
    rw [← hj] at L
    have L' : Local .dir fs (applyDeferralFs uidOf gidOf fs d).1 (D ++ comps d.node) := L
    have G := L'.grows hI.dest_ne_none
    have I1 : Inv D S (applyDeferralFs uidOf gidOf fs d).1 :=
      (hI.grows G).mono fun c h => h.elim (fun h => absurd rfl h.2) id
    obtain ⟨I2, hout⟩ := ih _ I1 (fun d' hd' => hd d' (List.mem_cons_of_mem _ hd'))
    simp only [applyDeferralsFs]
    exact ⟨I2, fun q hq => (hout q hq).trans (G.outside q hq)⟩

/-- A listing restore can replay without leaving the destination: valid, pairwise distinct
apaths, and every entry that is a proper ancestor of another entry is a directory. -/
structure Confinable (nodes : List RNode) : Prop where
  valid : ∀ n ∈ nodes, isValid n.apath = true
  distinct : nodes.Pairwise (fun a b => comps a ≠ comps b)
  anc : ∀ m ∈ nodes, ∀ n ∈ nodes, comps m <+: comps n → comps m ≠ comps n → m.kind = .dir

theorem pairwise_inj {α β : Type} {f : α → β} {l : List α} (h : l.Pairwise (fun a b => f a ≠ f b)) :
    ∀ a ∈ l, ∀ b ∈ l, f a = f b → a = b := by
  induction l with
  | nil => intro a ha; cases ha
  | cons x xs ih =>
    obtain ⟨hx, hxs⟩ := List.pairwise_cons.1 h
    intro a ha b hb e
    rcases List.mem_cons.1 ha with ha1 | ha1 <;> rcases List.mem_cons.1 hb with hb1 | hb1
    · rw [ha1, hb1]
    · rw [ha1] at e; exact absurd e (hx b hb1)
    · rw [hb1] at e; exact absurd e.symm (hx a ha1)
    · exact ih hxs a ha1 b hb1 e

/-- Loop and deferrals together, from a destination that is an empty directory. -/
theorem restoreBody_outside {uidOf gidOf : Str → Option Nat} {old : Bool} {D : Path} {fs : Fs}
    {nodes : List RNode} (hC : Confinable nodes) (hI : Inv D (fun _ => False) fs) :
    ∀ q, ¬ D <+: q →
      (applyDeferralsFs uidOf gidOf (restoreLoopFs uidOf gidOf old D fs nodes).1
        (restoreLoopFs uidOf gidOf old D fs nodes).2.2).1.node q = fs.node q := by
  have hp : nodes.Pairwise NotBelowNonDir :=
    hC.distinct.imp_of_mem fun {a b} ha hb hne hk hpre => by
      have := hC.anc a ha b hb hpre hne
      exact hk this
  obtain ⟨I1, hout1, hdefs⟩ := restoreLoopFs_inv (uidOf := uidOf) (gidOf := gidOf) (old := old)
    nodes fs _ hI hC.valid (fun _ _ _ _ h => h) hp
  obtain ⟨_, hout2⟩ := applyDeferralsFs_inv (uidOf := uidOf) (gidOf := gidOf) _ _ I1 (fun d hd => by
    obtain ⟨hm, hk, hpath⟩ := hdefs d hd
    refine ⟨hC.valid _ hm, hpath, fun pre hpre hS => ?_⟩
    rcases hS with ⟨m, hmm, hmk, e⟩ | hS
    · subst e
      by_cases heq : comps m = comps d.node
      · have := pairwise_inj hC.distinct m hmm d.node hm heq
        rw [this] at hmk
        exact hmk hk
      · exact hmk (hC.anc m hmm d.node hm hpre heq)
    · exact hS)
  intro q hq
  exact (hout2 q hq).trans (hout1 q hq)

end Conserve
