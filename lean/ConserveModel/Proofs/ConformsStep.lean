import ConserveModel.Proofs.ConformsBand
import ConserveModel.Proofs.DeleteSafe
/-
C13, step level: the store invariant `CI` (`Conforms` + `DirsOk` + distinct keys) and what each
kind of operation `backup` issues does to it in EVERY world (faults, both micro-steps of a
killed write, dead): read-only operations, block-directory creation, block writes, band/index/
hunk-directory creation, the head write, a hunk write, the tail write.  No property statements here.
-/
namespace Conserve.Conf
open Conserve Conserve.Inv

/-! ### `exec` on creating operations, with the parent check exposed -/

theorem applyOp_write_unit_parent {s : Store} {k : Key} {v : FileVal}
    (h : (applyOp true s (.write k v .createNew)).2 = .unit) : s.parentOk k = true := by
  simp only [applyOp] at h
  split at h
  · cases h
  · rename_i hp; simpa using hp

theorem exec_createDir_cases (w : World) (k : Key) :
    (w.exec (.createDir k)).1.store = w.store ∨
    (w.store.get? k = none ∧ w.store.parentOk k = true ∧
      (w.exec (.createDir k)).1.store = w.store.put k .dir) := by
  rcases (World.exec_cases w (.createDir k)).2 with ⟨hs, _, _⟩ | ⟨k', v, m, ho, _⟩ | ⟨e, hs, _, _⟩ | ⟨hs, _, _⟩
  · exact Or.inl hs
  · cases ho
  · exact Or.inl hs
  · rw [hs]
    simp only [applyOp]
    split
    · exact Or.inl rfl
    · rename_i hhas
      split
      · exact Or.inl rfl
      · rename_i hp
        exact Or.inr ⟨by simpa [Store.has] using hhas, by simpa using hp, rfl⟩

/-- A `CreateNew` write in a world that enforces it: nothing happens and an error comes back; or
the key was absent / zero-length below an existing directory and either the world was killed after
the empty file appeared, or the value is there and the answer is `unit`. -/
theorem exec_write_cases (w : World) (k : Key) (v : FileVal) (he : w.enforceCreateNew = true) :
    ((w.exec (.write k v .createNew)).1.store = w.store ∧ ∃ e, (w.exec (.write k v .createNew)).2 = .err e) ∨
    ((w.store.get? k = none ∨ w.store.get? k = some .empty) ∧ w.store.parentOk k = true ∧
      (((w.exec (.write k v .createNew)).1.store = w.store.put k .empty ∧
          (w.exec (.write k v .createNew)).2 = .err .other) ∨
       ((w.exec (.write k v .createNew)).1.store = w.store.put k v ∧
          (w.exec (.write k v .createNew)).2 = .unit))) := by
  rcases (World.exec_cases w (.write k v .createNew)).2 with
    ⟨hs, _, hr⟩ | ⟨k', v', m, ho, hu, hs, _, hr⟩ | ⟨e, hs, _, hr⟩ | ⟨hs, _, hr⟩
  · exact Or.inl ⟨hs, _, hr⟩
  · cases ho
    rw [he] at hu
    exact Or.inr ⟨applyOp_createNew_pre hu, applyOp_write_unit_parent hu, Or.inl ⟨hs, hr⟩⟩
  · exact Or.inl ⟨hs, _, hr⟩
  · rw [he] at hs hr
    rcases applyOp_write_store true w.store k v .createNew with ⟨hu, hst⟩ | ⟨⟨e, herr⟩, hst⟩
    · exact Or.inr ⟨applyOp_createNew_pre hu, applyOp_write_unit_parent hu,
        Or.inr ⟨hs.trans hst, hr.trans hu⟩⟩
    · exact Or.inl ⟨hs.trans hst, e, hr.trans herr⟩

theorem exec_write_unit (w : World) (k : Key) (v : FileVal) (he : w.enforceCreateNew = true)
    (hr : (w.exec (.write k v .createNew)).2 = .unit) :
    (w.exec (.write k v .createNew)).1.store = w.store.put k v := by
  rcases exec_write_cases w k v he with ⟨_, e, h⟩ | ⟨_, _, ⟨_, h⟩ | ⟨h, _⟩⟩
  · rw [h] at hr; cases hr
  · rw [h] at hr; cases hr
  · exact h

section
variable (H : Str → Str)

/-! ### The store invariant -/

/-- The store part of the C13 invariant: the archive conforms, every key's parent is a directory,
and no key occurs twice. -/
structure CI (s : Store) : Prop where
  conf : Conforms H s = true
  dirs : DirsOk s
  nodup : NoDupKeys s

variable {H}

theorem CI.put {s : Store} {k : Key} {v : FileVal} (h : CI H s)
    (hpre : s.get? k = none ∨ s.get? k = some .empty) (hp : s.parentOk k = true)
    (hblk : blockEntryOk H (k, v) = true)
    (hband : ∀ b, touchesBand k b → bandConforms H (s.put k v) b = true) : CI H (s.put k v) :=
  ⟨conforms_put H h.nodup h.conf hpre hblk (fun b ht _ => hband b ht), h.dirs.put hpre hp, h.nodup.put k v⟩

theorem CI.exec_ro {w : World} (h : CI H w.store) {o : Op} (ho : o.isMutating = false) :
    CI H (w.exec o).1.store := by
  rw [w.inv_exec_ro_store o ho]; exact h

/-! ### Band states -/

/-- The keys `bandConforms … b` reads have the same values in both stores. -/
def BandKeysSame (b : Nat) (s s' : Store) : Prop :=
  (∀ n, s'.get? (.hunk b n) = s.get? (.hunk b n)) ∧
  s'.get? (.bandTail b) = s.get? (.bandTail b) ∧ s'.get? (.bandHead b) = s.get? (.bandHead b)

theorem BandKeysSame.refl (b : Nat) (s : Store) : BandKeysSame b s s := ⟨fun _ => rfl, rfl, rfl⟩

theorem BandKeysSame.trans {b : Nat} {s1 s2 s3 : Store} (h1 : BandKeysSame b s1 s2)
    (h2 : BandKeysSame b s2 s3) : BandKeysSame b s1 s3 :=
  ⟨fun n => (h2.1 n).trans (h1.1 n), h2.2.1.trans h1.2.1, h2.2.2.trans h1.2.2⟩

theorem BandKeysSame.of_eq {b : Nat} {s s' : Store} (h : s' = s) : BandKeysSame b s s' := by
  subst h; exact BandKeysSame.refl _ _

theorem BandKeysSame.put {b : Nat} (s : Store) {k : Key} (v : FileVal)
    (hk : ∀ n, k ≠ .hunk b n) (ht : k ≠ .bandTail b) (hh : k ≠ .bandHead b) :
    BandKeysSame b s (s.put k v) :=
  ⟨fun n => by rw [Store.inv_get?_put, if_neg (fun e => hk n e.symm)],
   by rw [Store.inv_get?_put, if_neg (fun e => ht e.symm)],
   by rw [Store.inv_get?_put, if_neg (fun e => hh e.symm)]⟩

/-- Nothing of band `b` below its directory that `bandConforms` looks at exists. -/
structure EmptyBand (s : Store) (b : Nat) : Prop where
  hunks : ∀ n, s.get? (.hunk b n) = none
  tail : s.get? (.bandTail b) = none
  head : s.get? (.bandHead b) = none

theorem EmptyBand.same {s s' : Store} {b : Nat} (h : EmptyBand s b) (hs : BandKeysSame b s s') :
    EmptyBand s' b :=
  ⟨fun n => (hs.1 n).trans (h.hunks n), hs.2.1.trans h.tail, hs.2.2.trans h.head⟩

/-- A band id whose directory is not there has nothing below it (parents are directories). -/
theorem EmptyBand.of_fresh {s : Store} {b : Nat} (hd : DirsOk s) (h : s.get? (.bandDir b) ≠ some .dir) :
    EmptyBand s b := by
  refine ⟨fun n => ?_, ?_, ?_⟩
  · cases hv : s.get? (.hunk b n) with
    | none => rfl
    | some v => exact absurd (hd.hunkTreeOk b n v hv).2 h
  · cases hv : s.get? (.bandTail b) with
    | none => rfl
    | some v =>
      have := hd.parent_of_get? hv
      simp only [Store.parentOk, Key.parent, beq_iff_eq] at this
      exact absurd this h
  · cases hv : s.get? (.bandHead b) with
    | none => rfl
    | some v =>
      have := hd.parent_of_get? hv
      simp only [Store.parentOk, Key.parent, beq_iff_eq] at this
      exact absurd this h

theorem HunksAre.nil_of_none {s : Store} {b : Nat} (h : ∀ n, s.get? (.hunk b n) = none) :
    HunksAre s b [] false := fun n => by simp [h n]

theorem EmptyBand.conforms {s : Store} {b : Nat} (hn : NoDupKeys s) (h : EmptyBand s b) :
    bandConforms H s b = true :=
  bandConforms_full hn (HunksAre.nil_of_none h.hunks) (by simp) (by simp) (by simp) (Or.inl h.tail)
    (Or.inr ⟨rfl, h.tail, Or.inl h.head⟩)

/-- Band `b` while its writer runs: hunks `hs` written (all decoded, numbered from zero), no
tail, head there. -/
structure BandOpen (s : Store) (b : Nat) (hs : List (List IndexEntry)) : Prop where
  hunks : HunksAre s b hs false
  tail : s.get? (.bandTail b) = none
  head : ∃ v f, s.get? (.bandHead b) = some (.head v f)

theorem BandOpen.same {s s' : Store} {b : Nat} {hs : List (List IndexEntry)} (h : BandOpen s b hs)
    (hk : BandKeysSame b s s') : BandOpen s' b hs :=
  ⟨fun n => (hk.1 n).trans (h.hunks n), hk.2.1.trans h.tail, by rw [hk.2.2]; exact h.head⟩

variable (H)

/-- What the hunks written so far must satisfy. -/
structure HsOK (s : Store) (hs : List (List IndexEntry)) : Prop where
  ne : ∀ es ∈ hs, es ≠ []
  ent : ∀ e ∈ hs.flatten, entryConforms H s e = true
  sorted : (hs.flatten.map (·.apath)).Pairwise (fun a b => apathCmp a b = .lt)

variable {H}

theorem HsOK.nil (s : Store) : HsOK H s [] := ⟨by simp, by simp, by simp⟩

theorem HsOK.mono {s s' : Store} {hs : List (List IndexEntry)} (h : HsOK H s hs) (hx : Extends s s') :
    HsOK H s' hs := ⟨h.ne, fun e he => entryConforms_mono H hx (h.ent e he), h.sorted⟩

/-- Appending a hunk: non-empty, conforming, strictly increasing, and above everything before. -/
theorem HsOK.snoc {s : Store} {hs : List (List IndexEntry)} {es : List IndexEntry} (h : HsOK H s hs)
    (hne : es ≠ []) (hent : ∀ e ∈ es, entryConforms H s e = true)
    (hsort : (es.map (·.apath)).Pairwise (fun a b => apathCmp a b = .lt))
    (hlt : ∀ a ∈ hs.flatten, ∀ e ∈ es, apathCmp a.apath e.apath = .lt) : HsOK H s (hs ++ [es]) := by
  refine ⟨?_, ?_, ?_⟩
  · intro x hx
    rcases List.mem_append.mp hx with hx | hx
    · exact h.ne x hx
    · simp only [List.mem_singleton] at hx; subst hx; exact hne
  · intro e he
    simp only [List.flatten_append, List.flatten_cons, List.flatten_nil, List.append_nil,
      List.mem_append] at he
    rcases he with he | he
    · exact h.ent e he
    · exact hent e he
  · simp only [List.flatten_append, List.flatten_cons, List.flatten_nil, List.append_nil, List.map_append]
    rw [List.pairwise_append]
    refine ⟨h.sorted, hsort, ?_⟩
    intro a ha x hx
    obtain ⟨a', ha', rfl⟩ := List.mem_map.mp ha
    obtain ⟨x', hx', rfl⟩ := List.mem_map.mp hx
    exact hlt a' ha' x' hx'

/-! ### Steps -/

theorem touchesBand_block (h : Str) (b : Nat) : ¬ touchesBand (.block h) b := by
  rintro (e | e | e | ⟨n, e⟩) <;> cases e

theorem touchesBand_blockDir (p : Str) (b : Nat) : ¬ touchesBand (.blockDir p) b := by
  rintro (e | e | e | ⟨n, e⟩) <;> cases e

theorem touchesBand_indexDir (b' b : Nat) : ¬ touchesBand (.indexDir b') b := by
  rintro (e | e | e | ⟨n, e⟩) <;> cases e

theorem touchesBand_hunkDir (b' d b : Nat) : ¬ touchesBand (.hunkDir b' d) b := by
  rintro (e | e | e | ⟨n, e⟩) <;> cases e

/-- Creating a directory that is no band directory (block sub-directory of a well-formed name,
index directory, hunk sub-directory). -/
theorem exec_createDir_plain {w : World} (h : CI H w.store) {k : Key}
    (hblk : blockEntryOk H (k, .dir) = true) (hk : ∀ b, ¬ touchesBand k b) :
    CI H (w.exec (.createDir k)).1.store := by
  rcases exec_createDir_cases w k with hs | ⟨hpre, hp, hs⟩
  · rw [hs]; exact h
  · rw [hs]; exact h.put (Or.inl hpre) hp hblk (fun b ht => absurd ht (hk b))

/-- Creating the directory of a band that has nothing below it yet. -/
theorem exec_createDir_band {w : World} (h : CI H w.store) {b : Nat} (he : EmptyBand w.store b) :
    CI H (w.exec (.createDir (.bandDir b))).1.store := by
  rcases exec_createDir_cases w (.bandDir b) with hs | ⟨hpre, hp, hs⟩
  · rw [hs]; exact h
  · rw [hs]
    refine h.put (Or.inl hpre) hp rfl ?_
    intro b' ht
    have hb : b' = b := by
      rcases ht with e | e | e | ⟨n, e⟩ <;> cases e; rfl
    subst hb
    exact (he.same (BandKeysSame.put _ _ (fun _ => by simp) (by simp) (by simp))).conforms (h.nodup.put _ _)

/-- A `CreateNew` write, generically: the invariant survives if both the zero-length file and the
final value are acceptable where they land. -/
theorem exec_write_ci {w : World} (h : CI H w.store) (he : w.enforceCreateNew = true) {k : Key}
    {v : FileVal} (hblk0 : blockEntryOk H (k, .empty) = true) (hblk : blockEntryOk H (k, v) = true)
    (hband : ∀ b, touchesBand k b → (w.store.get? k = none ∨ w.store.get? k = some .empty) →
      bandConforms H (w.store.put k .empty) b = true ∧ bandConforms H (w.store.put k v) b = true) :
    CI H (w.exec (.write k v .createNew)).1.store := by
  rcases exec_write_cases w k v he with ⟨hs, _⟩ | ⟨hpre, hp, ⟨hs, _⟩ | ⟨hs, _⟩⟩
  · rw [hs]; exact h
  · rw [hs]; exact h.put hpre hp hblk0 (fun b ht => (hband b ht hpre).1)
  · rw [hs]; exact h.put hpre hp hblk (fun b ht => (hband b ht hpre).2)

/-- Writing a block under the hash of its content. -/
theorem exec_write_block {w : World} (h : CI H w.store) (he : w.enforceCreateNew = true) (d : Str) :
    CI H (w.exec (.write (.block (H d)) (.blockData d) .createNew)).1.store :=
  exec_write_ci h he rfl (by simp [blockEntryOk]) (fun b ht => absurd ht (touchesBand_block _ b))

theorem touchesBand_head {b b' : Nat} (h : touchesBand (.bandHead b) b') : b' = b := by
  rcases h with e | e | e | ⟨n, e⟩ <;> cases e; rfl

theorem touchesBand_tail {b b' : Nat} (h : touchesBand (.bandTail b) b') : b' = b := by
  rcases h with e | e | e | ⟨n, e⟩ <;> cases e; rfl

theorem touchesBand_hunk {b n b' : Nat} (h : touchesBand (.hunk b n) b') : b' = b := by
  rcases h with e | e | e | ⟨m, e⟩ <;> cases e; rfl

/-- Writing the head of a band that has nothing yet: conforms at both micro-steps; on success the
band is open with no hunks. -/
theorem exec_write_head {w : World} (h : CI H w.store) (he : w.enforceCreateNew = true) {b : Nat}
    (hb : EmptyBand w.store b) (ver : VerClass) (flags : List Str) :
    CI H (w.exec (.write (.bandHead b) (.head ver flags) .createNew)).1.store ∧
    ((w.exec (.write (.bandHead b) (.head ver flags) .createNew)).2 = .unit →
      BandOpen (w.exec (.write (.bandHead b) (.head ver flags) .createNew)).1.store b []) := by
  have hsame : ∀ v, BandKeysSame b w.store (w.store.put (.bandHead b) v) → True := fun _ _ => trivial
  have hh : ∀ v, HunksAre (w.store.put (.bandHead b) v) b [] false := fun v =>
    (HunksAre.nil_of_none hb.hunks).put_other v (fun _ => by simp)
  have ht : ∀ v, (w.store.put (.bandHead b) v).get? (.bandTail b) = none := fun v => by
    rw [Store.inv_get?_put, if_neg (by simp)]; exact hb.tail
  refine ⟨exec_write_ci h he rfl rfl ?_, ?_⟩
  · intro b' ht' _
    have := touchesBand_head ht'; subst this
    constructor
    · exact bandConforms_full (h.nodup.put _ _) (hh _) (by simp) (by simp) (by simp) (Or.inl (ht _))
        (Or.inr ⟨rfl, ht _, Or.inr (by simp)⟩)
    · exact bandConforms_full (h.nodup.put _ _) (hh _) (by simp) (by simp) (by simp) (Or.inl (ht _))
        (Or.inl ⟨ver, flags, by simp⟩)
  · intro hr
    rw [exec_write_unit w _ _ he hr]
    exact ⟨hh _, ht _, ver, flags, by simp⟩

/-- Writing the next hunk of an open band: conforms at both micro-steps (the zero-length file is
the permitted leftover); on success the band is open with one more hunk. -/
theorem exec_write_hunk {w : World} (h : CI H w.store) (he : w.enforceCreateNew = true) {b : Nat}
    {hs : List (List IndexEntry)} (hb : BandOpen w.store b hs) (hok : HsOK H w.store hs)
    {es : List IndexEntry} (hne : es ≠ []) (hent : ∀ e ∈ es, entryConforms H w.store e = true)
    (hsort : (es.map (·.apath)).Pairwise (fun a b => apathCmp a b = .lt))
    (hlt : ∀ a ∈ hs.flatten, ∀ e ∈ es, apathCmp a.apath e.apath = .lt) :
    CI H (w.exec (.write (.hunk b hs.length) (.hunk es) .createNew)).1.store ∧
    ((w.exec (.write (.hunk b hs.length) (.hunk es) .createNew)).2 = .unit →
      BandOpen (w.exec (.write (.hunk b hs.length) (.hunk es) .createNew)).1.store b (hs ++ [es]) ∧
      HsOK H (w.exec (.write (.hunk b hs.length) (.hunk es) .createNew)).1.store (hs ++ [es])) := by
  have ht : ∀ v, (w.store.put (.hunk b hs.length) v).get? (.bandTail b) = none := fun v => by
    rw [Store.inv_get?_put, if_neg (by simp)]; exact hb.tail
  have hhd : ∀ v, ∃ ver f, (w.store.put (.hunk b hs.length) v).get? (.bandHead b) = some (.head ver f) :=
    fun v => by rw [Store.inv_get?_put, if_neg (by simp)]; exact hb.head
  have hpost : ∀ (hpre : w.store.get? (.hunk b hs.length) = none ∨ w.store.get? (.hunk b hs.length) = some .empty),
      HsOK H (w.store.put (.hunk b hs.length) (.hunk es)) (hs ++ [es]) := fun hpre =>
    (hok.snoc hne hent hsort hlt).mono (extends_put _ hpre)
  refine ⟨exec_write_ci h he rfl rfl ?_, ?_⟩
  · intro b' ht' hpre
    have := touchesBand_hunk ht'; subst this
    constructor
    · have hok' := hok.mono (extends_put .empty hpre)
      exact bandConforms_leftover (h.nodup.put _ _) hb.hunks.put_empty hok'.ne hok'.ent hok'.sorted
        (ht _) (hhd _)
    · have hok' := hpost hpre
      have := bandConforms_full (H := H) (h.nodup.put _ (.hunk es)) (hb.hunks.put_hunk es) hok'.ne hok'.ent
        hok'.sorted (Or.inl (ht _)) (Or.inl (hhd _))
      exact this
  · intro hr
    have hpre : w.store.get? (.hunk b hs.length) = none ∨ w.store.get? (.hunk b hs.length) = some .empty := by
      rcases exec_write_cases w (.hunk b hs.length) (.hunk es) he with ⟨_, e, h'⟩ | ⟨hpre, _⟩
      · rw [h'] at hr; cases hr
      · exact hpre
    rw [exec_write_unit w _ _ he hr]
    exact ⟨⟨hb.hunks.put_hunk es, ht _, hhd _⟩, hpost hpre⟩

/-- Writing the tail of an open band with the true hunk count: conforms at both micro-steps. -/
theorem exec_write_tail {w : World} (h : CI H w.store) (he : w.enforceCreateNew = true) {b : Nat}
    {hs : List (List IndexEntry)} (hb : BandOpen w.store b hs) (hok : HsOK H w.store hs) :
    CI H (w.exec (.write (.bandTail b) (.tail (some hs.length)) .createNew)).1.store := by
  have hh : ∀ v, HunksAre (w.store.put (.bandTail b) v) b hs false := fun v =>
    hb.hunks.put_other v (fun _ => by simp)
  have hhd : ∀ v, ∃ ver f, (w.store.put (.bandTail b) v).get? (.bandHead b) = some (.head ver f) :=
    fun v => by rw [Store.inv_get?_put, if_neg (by simp)]; exact hb.head
  refine exec_write_ci h he rfl rfl ?_
  intro b' ht' hpre
  have := touchesBand_tail ht'; subst this
  constructor
  · have hok' := hok.mono (extends_put .empty hpre)
    exact bandConforms_full (h.nodup.put _ _) (hh _) hok'.ne hok'.ent hok'.sorted
      (Or.inr (Or.inl (by simp))) (Or.inl (hhd _))
  · have hok' := hok.mono (extends_put (.tail (some hs.length)) hpre)
    exact bandConforms_full (h.nodup.put _ _) (hh _) hok'.ne hok'.ent hok'.sorted
      (Or.inr (Or.inr (by simp))) (Or.inl (hhd _))

end

end Conserve.Conf
