import ConserveModel.Proofs.RaceCritOps
/-
C06 on the full model — `backup` after its second look at the gc lock keeps the store invariant
`CI`, run alone from a store satisfying it, in the two situations it can find its new band in:
(A) open with no hunks (`crit_ci_open`, from the C13 development), and
(B) removed altogether by a `delete` that named its id (`crit_ci_gone`: every write into the
band fails, block writes are harmless).  No property statements here.
-/
namespace Conserve
open Prog Conserve.Conf Conserve.Inv

variable {H : Str → Str}

section
variable (o : BackupOpts) {src : List SrcEntry}

/-! ### (A) the new band is open -/

theorem crit_csat (hinj : Function.Injective H) (hlen : HashLen H) (hsrc : SrcOK src)
    (basis : Option Nat) (n : Nat) (w : World) (hw : CWOK H w) (hband : BandOpen w.store n []) :
    CSat H (crit H o src basis n) w (fun _ _ => True) := by
  unfold crit
  apply CSat.bind
  refine ((CSat.of_ro Inv.listBlocks_ro hw).and_run (Q' := fun hs _ => ExistsOK H w.store hs)
    (listBlocks_result w hw.ci.nodup hw.toWOK.good.blocks)).mono ?_
  intro blocks w4 hf4 ⟨hst4, hex⟩
  have hband4 : BandOpen w4.store n [] := by rw [hst4]; exact hband
  have hex4 : ExistsOK H w4.store blocks := by rw [hst4]; exact hex
  cases basis with
  | none =>
    simp only [basisListing, Prog.ret_bind]
    exact backupMain_csat hinj hlen o hsrc (n, blocks, []) w4 hf4.wok hex4 (fun _ h => nomatch h) hband4
  | some b =>
    simp only [basisListing]
    apply CSat.bind
    refine ((CSat.of_ro (Inv.listEntries_ro b [slash] fun _ => false) hf4.wok).and_run
      (Q' := fun basis _ => FromHunks w4.store basis)
      (fun a ha => ((listEntries_spec w4.store b _ _) w4 rfl).2 a ha)).mono ?_
    intro be w5 hf5 ⟨hst5, hfh⟩
    refine backupMain_csat hinj hlen o hsrc (n, blocks, be) w5 hf5.wok (by rw [hst5]; exact hex4) ?_
      (by rw [hst5]; exact hband4)
    rw [hst5]
    exact BasisAddr.of_fromHunks hf4.ci hfh

/-- (A) Alone from a store satisfying `CI` in which the new band is open with no hunks. -/
theorem crit_ci_open (hinj : Function.Injective H) (hlen : HashLen H) (hsrc : SrcOK src)
    (basis : Option Nat) (n : Nat) {s : Store} (hci : CI H s) (hband : BandOpen s n []) :
    CI H ((crit H o src basis n).solo s).2 := by
  have := (crit_csat o hinj hlen hsrc basis n (World.clean s) ⟨rfl, hci⟩ hband).1.ci
  rwa [((crit H o src basis n).run_clean_eq_solo s).2] at this

end

/-! ### (B) the new band is gone -/

/-- Clean world, `CI`, and no directory for band `n`. -/
structure GoneW (H : Str → Str) (n : Nat) (w : World) : Prop where
  clean : w.Clean
  ci : CI H w.store
  gone : w.store.get? (.bandDir n) ≠ some .dir

/-- Running `p` keeps `GoneW`; the value returned satisfies `Q`. -/
def GSat (H : Str → Str) (n : Nat) {α : Type} (p : Prog α) (w : World) (Q : α → Prop) : Prop :=
  GoneW H n (p.run w).2 ∧ ∀ a, (p.run w).1 = .ok a → Q a

namespace GSat
variable {n : Nat}

theorem ret {α : Type} {a : α} {w : World} {Q : α → Prop} (hw : GoneW H n w) (hq : Q a) :
    GSat H n (.ret a) w Q := ⟨hw, fun _ h => by cases h; exact hq⟩

theorem fail {α : Type} {e : Err} {w : World} {Q : α → Prop} (hw : GoneW H n w) :
    GSat H n (.fail e) w Q := ⟨hw, fun _ h => nomatch h⟩

theorem panic {α : Type} {m : String} {w : World} {Q : α → Prop} (hw : GoneW H n w) :
    GSat H n (.panic m) w Q := ⟨hw, fun _ h => nomatch h⟩

theorem bind {α β : Type} {p : Prog α} {f : α → Prog β} {w : World} {Q : α → Prop} {Q' : β → Prop}
    (hp : GSat H n p w Q) (hf : ∀ a w', GoneW H n w' → Q a → GSat H n (f a) w' Q') :
    GSat H n (p.bind f) w Q' := by
  unfold GSat at hp ⊢
  rw [Prog.run_bind]
  obtain ⟨hi, hq⟩ := hp
  cases hrun : p.run w with
  | mk out w1 =>
    rw [hrun] at hi hq
    cases out with
    | ok a => exact hf a w1 hi (hq a rfl)
    | err e => exact ⟨hi, fun _ h => nomatch h⟩
    | panic s => exact ⟨hi, fun _ h => nomatch h⟩

theorem emit {α : Type} {ev : Event} {k : Prog α} {w : World} {Q : α → Prop}
    (hk : ∀ w', GoneW H n w' → GSat H n k w' Q) (hw : GoneW H n w) : GSat H n (.emit ev k) w Q :=
  hk { w with events := ev :: w.events } ⟨hw.clean, hw.ci, hw.gone⟩

theorem logError {w : World} (e : Err) (hw : GoneW H n w) : GSat H n (Prog.logError e) w (fun _ => True) :=
  emit (fun _ hw' => ret hw' trivial) hw

theorem report {w : World} (ev : Event) (hw : GoneW H n w) : GSat H n (Prog.report ev) w (fun _ => True) :=
  emit (fun _ hw' => ret hw' trivial) hw

/-- Block-level programs. -/
theorem of_blk (hlen : HashLen H) {α : Type} {p : Prog α} (hp : AllOps (BlockOp H) p) {Q : α → Prop}
    (hq : RetSpec p Q) {w : World} (hw : GoneW H n w) : GSat H n p w Q := by
  obtain ⟨h1, h2, _⟩ := run_blockOps hlen hp w hw.clean.1 hw.ci
  refine ⟨⟨Prog.run_clean p hw.clean, h1, ?_⟩, fun a ha => hq w a ha⟩
  rw [h2 _ (fun _ => by simp) (fun _ => by simp)]
  exact hw.gone

theorem mono {α : Type} {p : Prog α} {w : World} {Q Q' : α → Prop} (hp : GSat H n p w Q)
    (h : ∀ a, Q a → Q' a) : GSat H n p w Q' := ⟨hp.1, fun a ha => h a (hp.2 a ha)⟩

end GSat

/-- With no directory for band `n` (and parents being directories), nothing can be created below it. -/
theorem gone_createDir_hunkDir {s : Store} (hd : DirsOk s) {n : Nat} (hg : s.get? (.bandDir n) ≠ some .dir) (d : Nat) :
    applyOp true s (.createDir (.hunkDir n d)) = (s, .err .notFound) := by
  have hi : s.get? (.indexDir n) ≠ some .dir := by
    intro h
    have := hd.parent_of_get? h
    simp only [Store.parentOk, Key.parent, beq_iff_eq] at this
    exact hg this
  have hh : s.get? (.hunkDir n d) = none := by
    cases hv : s.get? (.hunkDir n d) with
    | none => rfl
    | some v =>
      have := hd.parent_of_get? hv
      simp only [Store.parentOk, Key.parent, beq_iff_eq] at this
      exact absurd this hi
  simp only [applyOp, Store.has, hh, Option.isSome_none, Bool.false_eq_true, if_false, Store.parentOk, Key.parent]
  have : (s.get? (.indexDir n) == some FileVal.dir) = false := by simpa using hi
  simp [this]

theorem gone_write_hunk {s : Store} (hd : DirsOk s) {n : Nat} (hg : s.get? (.bandDir n) ≠ some .dir)
    (i : Nat) (v : FileVal) (m : WriteMode) :
    applyOp true s (.write (.hunk n i) v m) = (s, .err .notFound) := by
  have hi : s.get? (.indexDir n) ≠ some .dir := by
    intro h
    have := hd.parent_of_get? h
    simp only [Store.parentOk, Key.parent, beq_iff_eq] at this
    exact hg this
  have hh : s.get? (.hunkDir n (i / hunksPerSubdir)) ≠ some .dir := by
    intro h
    have := hd.parent_of_get? h
    simp only [Store.parentOk, Key.parent, beq_iff_eq] at this
    exact hi this
  have : (s.get? (.hunkDir n (i / hunksPerSubdir)) == some FileVal.dir) = false := by simpa using hh
  simp [applyOp, Store.parentOk, Key.parent, this]

theorem gone_write_tail {s : Store} {n : Nat} (hg : s.get? (.bandDir n) ≠ some .dir) (v : FileVal) (m : WriteMode) :
    applyOp true s (.write (.bandTail n) v m) = (s, .err .notFound) := by
  have : (s.get? (.bandDir n) == some FileVal.dir) = false := by simpa using hg
  simp [applyOp, Store.parentOk, Key.parent, this]

/-- An operation that answers `notFound` without touching the store, followed by `?`. -/
theorem GSat.performUnit_notFound {n : Nat} {w : World} (hw : GoneW H n w) {o : Op}
    (h : applyOp true w.store o = (w.store, .err .notFound)) {Q : Unit → Prop} :
    GSat H n (performUnit o) w Q := by
  have hr : (w.exec o).2 = .err .notFound := by rw [World.exec_clean_resp hw.clean, h]
  have hs : (w.exec o).1.store = w.store := by rw [World.exec_clean_store hw.clean, h]
  have hw1 : GoneW H n (w.exec o).1 := ⟨World.exec_clean_Clean hw.clean o, hs ▸ hw.ci, hs ▸ hw.gone⟩
  unfold GSat performUnit perform
  simp only [Prog.bind_def, Prog.op_bind, Prog.ret_bind, Prog.run_op]
  rw [hr]
  exact GSat.fail hw1

theorem finishHunk_gsat {n : Nat} (wr : Writer) (hb : wr.band = n) (w : World) (hw : GoneW H n w) :
    GSat H n (finishHunk wr) w (fun wr' => wr'.band = n) := by
  unfold finishHunk
  simp only [Prog.bind_def, Prog.pure_def]
  split
  · exact GSat.ret hw hb
  · split
    · refine GSat.bind (Q := fun _ => False) ?_ (fun _ _ _ h => h.elim)
      rw [hb]
      exact GSat.performUnit_notFound hw (gone_createDir_hunkDir hw.ci.dirs hw.gone _)
    · refine GSat.bind (Q := fun _ => False) ?_ (fun _ _ _ h => h.elim)
      rw [hb]
      exact GSat.performUnit_notFound hw (gone_write_hunk hw.ci.dirs hw.gone _ _ _)

section
variable (hlen : HashLen H)
include hlen

theorem flushGroup_gsat {n : Nat} (wr : Writer) (hb : wr.band = n) (w : World) (hw : GoneW H n w) :
    GSat H n (flushGroup H wr) w (fun wr' => wr'.band = n) := by
  unfold flushGroup
  simp only [Prog.bind_def]
  refine GSat.bind (GSat.of_blk hlen (combinerFlush_blk H wr) (combinerFlush_ret H wr) hw) ?_
  rintro ⟨w1, r⟩ w' hw' ⟨hstep, _⟩
  cases r with
  | error e => exact GSat.fail hw'
  | ok u => exact finishHunk_gsat _ (by simpa using hstep.band.trans hb) w' hw'

theorem backupLoop_gsat (o : BackupOpts) {n : Nat} (ms : List Matched) :
    ∀ (wr : Writer), wr.band = n → ∀ w, GoneW H n w →
      GSat H n (backupLoop H o wr ms) w (fun wr' => wr'.band = n) := by
  induction ms with
  | nil => intro wr hb w hw; simp only [backupLoop, Prog.pure_def]; exact GSat.ret hw hb
  | cons m ms ih =>
    have tail : ∀ (w1 : Writer), w1.band = n → ∀ w'', GoneW H n w'' →
        GSat H n (if w1.pending.length + w1.queue.length ≥ o.maxEntriesPerHunk then
            (flushGroup H w1).bind fun w => backupLoop H o w ms
          else (Prog.ret w1).bind fun w => backupLoop H o w ms) w'' (fun wr' => wr'.band = n) := by
      intro w1 hb1 w'' hw''
      split
      · exact GSat.bind (flushGroup_gsat hlen w1 hb1 w'' hw'') fun wr' w3 hw3 hb3 => ih wr' hb3 w3 hw3
      · exact ih w1 hb1 w'' hw''
    have step : ∀ (basis : Option IndexEntry) (sf : SrcEntry) (wr : Writer), wr.band = n → ∀ w, GoneW H n w →
        ∀ (x : Writer × Except Err (Option ChangeKind)) (w' : World), GoneW H n w' → StepOf o sf wr x.1 →
        GSat H n (match x.2 with
          | .error e => (Prog.logError e).bind fun _ =>
              backupLoop H o { x.1 with stats := { x.1.stats with errors := x.1.stats.errors + 1 } } ms
          | .ok ch =>
            match ch with
            | some ck => (Prog.report (.change sf.apath ck)).bind fun _ =>
                if x.1.pending.length + x.1.queue.length ≥ o.maxEntriesPerHunk then
                  (flushGroup H x.1).bind fun w => backupLoop H o w ms
                else (Prog.ret x.1).bind fun w => backupLoop H o w ms
            | none =>
                if x.1.pending.length + x.1.queue.length ≥ o.maxEntriesPerHunk then
                  (flushGroup H x.1).bind fun w => backupLoop H o w ms
                else (Prog.ret x.1).bind fun w => backupLoop H o w ms) w' (fun wr' => wr'.band = n) := by
      rintro basis sf wr hb w hw ⟨w1, r⟩ w' hw' ⟨xs, _, hstep⟩
      have hb1 : w1.band = n := hstep.band.trans hb
      cases r with
      | error e =>
        exact GSat.bind (GSat.logError e hw') fun _ w'' hw'' _ =>
          ih { w1 with stats := { w1.stats with errors := w1.stats.errors + 1 } } hb1 w'' hw''
      | ok ch =>
        cases ch with
        | some ck => exact GSat.bind (GSat.report _ hw') fun _ w'' hw'' _ => tail w1 hb1 w'' hw''
        | none => exact tail w1 hb1 w' hw'
    intro wr hb w hw
    cases m with
    | left b =>
      simp only [backupLoop, Prog.bind_def]
      exact GSat.bind (GSat.report _ hw) fun _ w' hw' _ => ih wr hb w' hw'
    | right sf =>
      simp only [backupLoop, Prog.bind_def, Prog.pure_def]
      exact GSat.bind (GSat.of_blk hlen (copyEntry_blk H o wr none sf) (copyEntry_ret H o wr none sf) hw)
        fun x w' hw' hx => step none sf wr hb w hw x w' hw' hx
    | both b sf =>
      simp only [backupLoop, Prog.bind_def, Prog.pure_def]
      exact GSat.bind (GSat.of_blk hlen (copyEntry_blk H o wr (some b) sf) (copyEntry_ret H o wr (some b) sf) hw)
        fun x w' hw' hx => step (some b) sf wr hb w hw x w' hw' hx

end

theorem readOnly_blockOp {α : Type} {p : Prog α} (hp : AllOps ReadOnly p) : AllOps (BlockOp H) p :=
  hp.mono fun _ ho => Or.inl ho.not_mutating

theorem basisListing_ro (basis : Option Nat) : AllOps ReadOnly (basisListing basis) := by
  cases basis with
  | none => exact .ret _
  | some b => exact listEntries_ro b _ _

theorem crit_gsat (hlen : HashLen H) (o : BackupOpts) (src : List SrcEntry) (basis : Option Nat) (n : Nat)
    (w : World) (hw : GoneW H n w) : GSat H n (crit H o src basis n) w (fun _ => True) := by
  unfold crit
  refine GSat.bind (GSat.of_blk hlen (readOnly_blockOp listBlocks_ro) (Q := fun _ => True) (fun _ _ _ => trivial) hw) ?_
  intro blocks w1 hw1 _
  refine GSat.bind (GSat.of_blk hlen (readOnly_blockOp (basisListing_ro basis)) (Q := fun _ => True)
    (fun _ _ _ => trivial) hw1) ?_
  intro be w2 hw2 _
  unfold backupMain
  refine GSat.bind (backupLoop_gsat hlen o (n := n) _ { band := n, exists_ := blocks } rfl w2 hw2) ?_
  intro wr1 w3 hw3 hb1
  refine GSat.bind (flushGroup_gsat hlen wr1 hb1 w3 hw3) ?_
  intro wr2 w4 hw4 hb2
  refine GSat.bind (finishHunk_gsat wr2 hb2 w4 hw4) ?_
  intro wr3 w5 hw5 hb3
  refine GSat.bind (Q := fun _ => False) ?_ (fun _ _ _ h => h.elim)
  unfold bandClose
  rw [hb3]
  exact GSat.performUnit_notFound hw5 (gone_write_tail hw5.gone _ _)

/-- (B) Alone from a store satisfying `CI` in which the new band has no directory. -/
theorem crit_ci_gone (hlen : HashLen H) (o : BackupOpts) (src : List SrcEntry) (basis : Option Nat) (n : Nat)
    {s : Store} (hci : CI H s) (hg : s.get? (.bandDir n) ≠ some .dir) :
    CI H ((crit H o src basis n).solo s).2 := by
  have := (crit_gsat hlen o src basis n (World.clean s) ⟨World.clean_Clean s, hci, hg⟩).1.ci
  rwa [((crit H o src basis n).run_clean_eq_solo s).2] at this

end Conserve
