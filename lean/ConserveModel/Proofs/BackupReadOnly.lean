import ConserveModel.Proofs.BackupLoop
/-
The read-only parts of `backup()` (lock check, band and block listings, the stitched basis
listing): they only issue read-only operations, so they never change the store; what
`list_blocks` returns names present intact blocks; `Band::create` / `Band::close` issue only
admissible operations.  No property statements here.
-/
namespace Conserve.Inv
open Conserve Prog

theorem _root_.Conserve.Prog.inv_bind_assoc {α β γ : Type} (p : Prog α) (f : α → Prog β) (g : β → Prog γ) :
    (p.bind f).bind g = p.bind (fun a => (f a).bind g) := by
  induction p with
  | ret a => rfl
  | fail e => rfl
  | panic s => rfl
  | emit ev k ih => simp [ih]
  | op o k ih => simp [ih]

/-- Read-only operation. -/
def RO (o : Op) : Prop := o.isMutating = false

theorem AllOps.perform {P : Op → Prop} {o : Op} (h : P o) : Prog.AllOps P (perform o) :=
  .op h (fun _ => .ret _)

/-- Try the structural rules for `AllOps`. -/
macro "allops_step" : tactic => `(tactic| first
  | assumption
  | exact Prog.AllOps.ret _
  | exact Prog.AllOps.fail _
  | exact Prog.AllOps.panic _
  | exact AllOps.perform rfl
  | apply Prog.AllOps.emit
  | apply Prog.AllOps.attempt
  | refine Prog.AllOps.op rfl (fun _ => ?_)
  | refine Prog.AllOps.bind ?_ (fun _ => ?_)
  | split)

theorem isFile_ro (k : Key) : Prog.AllOps RO (isFile k) := by
  unfold isFile
  simp only [Prog.bind_def, Prog.pure_def]
  repeat allops_step

theorem listBandIds_ro : Prog.AllOps RO listBandIds := by
  unfold listBandIds
  simp only [Prog.bind_def, Prog.pure_def]
  repeat allops_step

/-- The second look at the lock issues one read-only operation (`listDir` of the root). -/
theorem gcLockListed_ro : Prog.AllOps RO gcLockListed := by
  unfold gcLockListed
  simp only [Prog.bind_def, Prog.pure_def]
  repeat allops_step

theorem lastBandId_ro : Prog.AllOps RO lastBandId := by
  unfold lastBandId
  simp only [Prog.bind_def, Prog.pure_def]
  exact Prog.AllOps.bind listBandIds_ro (fun _ => .ret _)

theorem bandOpen_ro (b : Nat) : Prog.AllOps RO (bandOpen b) := by
  unfold bandOpen
  simp only [Prog.bind_def, Prog.pure_def]
  repeat allops_step

theorem unwrapOr_ro {α : Type} {p : Prog α} (d : α) (h : Prog.AllOps RO p) : Prog.AllOps RO (unwrapOr p d) := by
  unfold unwrapOr
  simp only [Prog.bind_def, Prog.pure_def]
  refine Prog.AllOps.bind h.attempt (fun r => ?_)
  repeat allops_step

theorem hunksAvailable_go_ro (b : Nat) (ds : List Nat) (acc : List Nat) :
    Prog.AllOps RO (hunksAvailable.go b ds acc) := by
  induction ds generalizing acc with
  | nil => exact .ret _
  | cons d ds ih =>
    unfold hunksAvailable.go
    simp only [Prog.bind_def]
    refine Prog.AllOps.bind (AllOps.perform rfl) (fun r => ?_)
    split
    · exact ih _
    · exact .fail _
    · exact .fail _

theorem hunksAvailable_ro (b : Nat) : Prog.AllOps RO (hunksAvailable b) := by
  unfold hunksAvailable
  simp only [Prog.bind_def]
  refine Prog.AllOps.bind (AllOps.perform rfl) (fun r => ?_)
  split
  · exact hunksAvailable_go_ro _ _ _
  · exact .fail _
  · exact .fail _

theorem readHunk_ro (b n : Nat) : Prog.AllOps RO (readHunk b n) := by
  unfold readHunk
  simp only [Prog.bind_def, Prog.pure_def]
  repeat allops_step

theorem readHunks_ro (b : Nat) (ns : List Nat) (after last : Option Str) :
    Prog.AllOps RO (readHunks b ns after last) := by
  induction ns generalizing after last with
  | nil => exact .ret _
  | cons n rest ih =>
    unfold readHunks
    simp only [Prog.bind_def, Prog.pure_def]
    refine Prog.AllOps.bind (readHunk_ro b n).attempt (fun r => ?_)
    repeat (first | exact ih _ _ | exact Prog.AllOps.bind (ih _ _) (fun _ => .ret _) | allops_step)

theorem hunkLengths_go_ro (b : Nat) (ds : List Nat) (acc : List (Nat × Bool)) :
    Prog.AllOps RO (hunkLengths.go b ds acc) := by
  induction ds generalizing acc with
  | nil => exact .ret _
  | cons d ds ih =>
    unfold hunkLengths.go
    simp only [Prog.bind_def]
    refine Prog.AllOps.bind (AllOps.perform rfl) (fun r => ?_)
    split
    · exact ih _
    · exact .fail _
    · exact .fail _

theorem hunkLengths_ro (b : Nat) : Prog.AllOps RO (hunkLengths b) := by
  unfold hunkLengths
  simp only [Prog.bind_def]
  refine Prog.AllOps.bind (AllOps.perform rfl) (fun r => ?_)
  split
  · exact hunkLengths_go_ro _ _ _
  · exact .fail _
  · exact .fail _

theorem checkIndexHunks_ro (b : Nat) : Prog.AllOps RO (checkIndexHunks b) := by
  unfold checkIndexHunks
  simp only [Prog.bind_def, Prog.pure_def]
  refine Prog.AllOps.bind (hunkLengths_ro b) (fun hs => ?_)
  repeat allops_step

theorem readBand_ro (b : Nat) (last : Option Str) : Prog.AllOps RO (readBand b last) := by
  unfold readBand
  simp only [Prog.bind_def, Prog.pure_def, logError]
  refine Prog.AllOps.bind (bandOpen_ro b).attempt (fun r => ?_)
  split
  · repeat allops_step
  · refine Prog.AllOps.bind (hunksAvailable_ro b).attempt (fun r => ?_)
    split
    · repeat allops_step
    · refine Prog.AllOps.bind (checkIndexHunks_ro b).attempt (fun r => ?_)
      split
      · exact .emit _ (Prog.AllOps.bind (.ret _) (fun _ => readHunks_ro _ _ _ _))
      · exact readHunks_ro _ _ _ _

theorem stitchDown_ro (b : Nat) (last : Option Str) : Prog.AllOps RO (stitchDown b last) := by
  induction b generalizing last with
  | zero => exact .ret _
  | succ b ih =>
    unfold stitchDown
    simp only [Prog.bind_def, Prog.pure_def]
    refine Prog.AllOps.bind (unwrapOr_ro _ (isFile_ro _)) (fun r => ?_)
    split
    · refine Prog.AllOps.bind (readBand_ro _ _) (fun r => ?_)
      refine Prog.AllOps.bind (unwrapOr_ro _ (isFile_ro _)) (fun r => ?_)
      split
      · exact .ret _
      · exact Prog.AllOps.bind (ih _) (fun _ => .ret _)
    · refine Prog.AllOps.bind (unwrapOr_ro _ (isFile_ro _)) (fun r => ?_)
      split
      · exact .emit _ (ih _)
      · exact ih _

theorem stitchAll_ro (b : Nat) : Prog.AllOps RO (stitchAll b) := by
  unfold stitchAll
  simp only [Prog.bind_def, Prog.pure_def]
  refine Prog.AllOps.bind (readBand_ro _ _) (fun r => ?_)
  refine Prog.AllOps.bind (unwrapOr_ro _ (isFile_ro _)) (fun r => ?_)
  split
  · exact .ret _
  · exact Prog.AllOps.bind (stitchDown_ro _ _) (fun _ => .ret _)

theorem filterEntries_ro (subtree : Str) (excl : Str → Bool) (es : List IndexEntry) :
    Prog.AllOps RO (filterEntries subtree excl es) := by
  induction es with
  | nil => exact .ret _
  | cons e es ih =>
    unfold filterEntries
    simp only [Prog.bind_def, Prog.pure_def]
    repeat (first | exact Prog.AllOps.bind ih (fun _ => .ret _) | allops_step)

theorem listEntries_ro (b : Nat) (subtree : Str) (excl : Str → Bool) :
    Prog.AllOps RO (listEntries b subtree excl) := by
  unfold listEntries
  simp only [Prog.bind_def]
  exact Prog.AllOps.bind (stitchAll_ro b) (fun _ => filterEntries_ro _ _ _)

theorem _root_.Conserve.Prog.AllOps.inv_imp {α : Type} {P Q : Op → Prop} {p : Prog α} (h : ∀ o, P o → Q o)
    (hp : Prog.AllOps P p) : Prog.AllOps Q p := by
  induction hp with
  | ret a => exact .ret a
  | fail e => exact .fail e
  | panic s => exact .panic s
  | emit ev _ ih => exact .emit ev ih
  | op ho _ ih => exact .op (h _ ho) ih

section
variable {H : Str → Str} {src : List SrcEntry} {s0 : Store}

/-- A program all of whose operations are admissible in every store keeps the invariant. -/
theorem Sat.of_allOps {α : Type} {p : Prog α} (hp : Prog.AllOps (fun o => ∀ s, OpOK H src s o) p)
    {w : World} (hw : WOK H src s0 w) : Sat H src s0 p w (fun _ _ => True) := by
  induction hp generalizing w with
  | ret a => exact Sat.ret hw trivial
  | fail e => exact Sat.fail hw
  | panic s => exact Sat.panic hw
  | emit ev _ ih => exact Sat.emit (ih ⟨hw.enforce, hw.good⟩)
  | op ho _ ih => exact Sat.op hw (ho _) (fun r => ih r (Frame.exec hw (ho _)).wok)

theorem Sat.of_ro {α : Type} {p : Prog α} (hp : Prog.AllOps RO p) {w : World} (hw : WOK H src s0 w) :
    Sat H src s0 p w (fun _ _ => True) :=
  Sat.of_allOps (hp.inv_imp fun _ ho _ => OpOK.readOnly _ ho) hw

/-- Add a fact about the returned value proved directly on `run`. -/
theorem Sat.and_run {α : Type} {p : Prog α} {w : World} {Q Q' : α → World → Prop}
    (hp : Sat H src s0 p w Q) (h : ∀ a, (p.run w).1 = .ok a → Q' a (p.run w).2) :
    Sat H src s0 p w (fun a w' => Q a w' ∧ Q' a w') :=
  ⟨hp.1, fun a ha => ⟨hp.2 a ha, h a ha⟩⟩

end

/-- A listing that succeeds returns the children of the directory in the (unchanged) store. -/
theorem _root_.Conserve.World.inv_exec_listDir (w : World) (k : Key) :
    (w.exec (.listDir k)).1.store = w.store ∧
      ∀ xs, (w.exec (.listDir k)).2 = .listing xs → xs = w.store.children k := by
  unfold World.exec
  split
  · exact ⟨rfl, fun _ h => nomatch h⟩
  · split
    · exact ⟨rfl, fun _ h => nomatch h⟩
    · simp only [Op.isMutating, Bool.not_false, if_true, applyOp]
      refine ⟨trivial, fun xs h => ?_⟩
      split at h <;> cases h
      rfl

theorem mem_children {s : Store} {k : Key} {e : DirEnt} (h : e ∈ s.children k) :
    ∃ kv ∈ s, kv.1.parent = some k ∧ e.key = kv.1 ∧ e.isDir = kv.2.isDir ∧
      e.nonEmpty = (!kv.2.isDir && !kv.2.isEmptyFile) := by
  unfold Store.children at h
  obtain ⟨kv, hkv, rfl⟩ := List.mem_map.mp h
  obtain ⟨hm, hp⟩ := List.mem_filter.mp hkv
  exact ⟨kv, hm, by simpa using hp, rfl, rfl, rfl⟩

/-- The archive has no band directory entries at all. -/
def NoBands (s : Store) : Prop := ∀ kv ∈ s, ∀ b, kv.1 ≠ .bandDir b

theorem lastBandId_noBands (w : World) (hnb : NoBands w.store) :
    ∀ r, (lastBandId.run w).1 = .ok r → r = none := by
  intro r hr
  unfold lastBandId listBandIds perform at hr
  simp only [Prog.bind_def, Prog.pure_def, Prog.op_bind, Prog.ret_bind, Prog.run_op] at hr
  obtain ⟨_, hl⟩ := w.inv_exec_listDir .root
  generalize (w.exec (.listDir .root)) = x at hr hl
  obtain ⟨w1, r1⟩ := x
  cases r1 with
  | listing xs =>
    have hxs := hl xs rfl
    simp only [Prog.ret_bind, Prog.run_ret, Outcome.ok.injEq] at hr
    subst hr
    have hnil : ∀ l : List Nat, l = [] → maxNat? (sortNat l) = none := fun l hl => by subst hl; simp [sortNat, maxNat?]
    apply hnil
    rw [List.filterMap_eq_nil_iff]
    intro e he
    rw [hxs] at he
    obtain ⟨kv, hkv, _, hkey, _⟩ := mem_children he
    split
    · rename_i b hb
      exact absurd (hkey ▸ hb) (hnb kv hkv b)
    · rfl
  | err e => simp at hr
  | _ => simp at hr

section
variable {H : Str → Str}

/-- A non-empty, non-directory entry `block h` in a listing is a present intact block. -/
theorem block_of_listing {s : Store} (hnd : NoDupKeys s) (hbg : BlocksGood H s) {k : Key} {e : DirEnt}
    (he : e ∈ s.children k) {h : Str} (hkey : e.key = .block h) (hne : (!e.isDir && e.nonEmpty) = true) :
    ∃ c, blockContent H s h = some c := by
  obtain ⟨kv, hkv, _, hk, hd, hn⟩ := mem_children he
  obtain ⟨k', v⟩ := kv
  simp only at hk hd hn
  rw [hkey] at hk
  subst hk
  have hget := hnd.get?_of_mem hkv
  rcases hbg h v hget with rfl | ⟨c, rfl, hc⟩
  · simp [hn, FileVal.isEmptyFile] at hne
  · exact ⟨c, by simp [blockContent, hget, hc]⟩

theorem listBlocks_go_result (ps : List Str) (acc : List Str) (w : World) (hnd : NoDupKeys w.store)
    (hbg : BlocksGood H w.store) (hacc : ExistsOK H w.store acc) :
    ∀ hs, ((listBlocks.go ps acc).run w).1 = .ok hs → ExistsOK H w.store hs := by
  induction ps generalizing acc w with
  | nil =>
    intro hs h
    simp only [listBlocks.go, Prog.pure_def, Prog.run_ret, Outcome.ok.injEq] at h
    subst h; exact hacc
  | cons p ps ih =>
    intro hs h
    unfold listBlocks.go perform at h
    simp only [Prog.bind_def, Prog.op_bind, Prog.ret_bind, Prog.run_op] at h
    obtain ⟨hst, hl⟩ := w.inv_exec_listDir (.blockDir p)
    generalize (w.exec (.listDir (.blockDir p))) = x at h hl hst
    obtain ⟨w1, r1⟩ := x
    simp only at hst hl h
    cases r1 with
    | listing ys =>
      have hys := hl ys rfl
      simp only at h
      rw [← hst]
      refine ih _ w1 (hst ▸ hnd) (hst ▸ hbg) ?_ hs h
      rw [hst]
      intro a ha
      rcases List.mem_append.mp ha with ha | ha
      · exact hacc a ha
      · have ha' := (List.mem_filter.mp ha).1
        obtain ⟨e, he, hsome⟩ := List.mem_filterMap.mp ha'
        rw [hys] at he
        split at hsome
        · rename_i h' hkey
          split at hsome
          · rename_i hcond
            cases hsome
            exact block_of_listing hnd hbg he hkey hcond
          · cases hsome
        · cases hsome
    | err e => simp at h
    | _ => simp at h

theorem listBlocks_result (w : World) (hnd : NoDupKeys w.store) (hbg : BlocksGood H w.store) :
    ∀ hs, (listBlocks.run w).1 = .ok hs → ExistsOK H w.store hs := by
  intro hs h
  unfold listBlocks perform at h
  simp only [Prog.bind_def, Prog.op_bind, Prog.ret_bind, Prog.run_op] at h
  obtain ⟨hst, _⟩ := w.inv_exec_listDir .blockRoot
  generalize (w.exec (.listDir .blockRoot)) = x at h hst
  obtain ⟨w1, r1⟩ := x
  simp only at hst h
  cases r1 with
  | listing xs =>
    simp only at h
    rw [← hst]
    exact listBlocks_go_result _ [] w1 (hst ▸ hnd) (hst ▸ hbg) (fun _ h => nomatch h) hs h
  | err e => simp at h
  | _ => simp at h

end

theorem listBlocks_go_ro (ps acc : List Str) : Prog.AllOps RO (listBlocks.go ps acc) := by
  induction ps generalizing acc with
  | nil => exact .ret _
  | cons p ps ih =>
    unfold listBlocks.go
    simp only [Prog.bind_def]
    refine Prog.AllOps.bind (AllOps.perform rfl) (fun r => ?_)
    split
    · exact ih _
    · exact .fail _
    · exact .fail _

theorem listBlocks_ro : Prog.AllOps RO listBlocks := by
  unfold listBlocks
  simp only [Prog.bind_def]
  refine Prog.AllOps.bind (AllOps.perform rfl) (fun r => ?_)
  split
  · exact listBlocks_go_ro _ _
  · exact .fail _
  · exact .fail _

theorem AllOps.performUnit {P : Op → Prop} {o : Op} (h : P o) : Prog.AllOps P (performUnit o) := by
  unfold Conserve.performUnit
  simp only [Prog.bind_def, Prog.pure_def]
  refine Prog.AllOps.bind (AllOps.perform h) (fun r => ?_)
  repeat allops_step

section
variable {H : Str → Str} {src : List SrcEntry} {s0 : Store}

theorem bandCreate_fine : Prog.AllOps (fun o => ∀ s, OpOK H src s o) bandCreate := by
  unfold bandCreate
  simp only [Prog.bind_def, Prog.pure_def]
  refine Prog.AllOps.bind (lastBandId_ro.inv_imp fun _ ho _ => OpOK.readOnly _ ho) (fun l => ?_)
  refine Prog.AllOps.bind (AllOps.performUnit fun s => OpOK.createDir s (fun _ h => nomatch h)) (fun _ => ?_)
  refine Prog.AllOps.bind (AllOps.performUnit fun s => OpOK.createDir s (fun _ h => nomatch h)) (fun _ => ?_)
  refine Prog.AllOps.bind (AllOps.performUnit fun s =>
    OpOK.writeOther s _ (fun _ h => nomatch h) (fun _ _ h => nomatch h)) (fun _ => .ret _)

theorem bandClose_fine (b n : Nat) : Prog.AllOps (fun o => ∀ s, OpOK H src s o) (bandClose b n) :=
  AllOps.performUnit fun s => OpOK.writeOther s _ (fun _ h => nomatch h) (fun _ _ h => nomatch h)

end

/-- A read-only operation never touches the store. -/
theorem _root_.Conserve.World.inv_exec_ro_store (w : World) (o : Op) (h : o.isMutating = false) :
    (w.exec o).1.store = w.store := by
  unfold World.exec
  split
  · rfl
  · split
    · rfl
    · simp [h]

theorem run_ro_store {α : Type} {p : Prog α} (hp : Prog.AllOps RO p) (w : World) :
    (p.run w).2.store = w.store :=
  (Prog.run_store_rel (R := fun a b => b = a) (fun _ => rfl) (fun _ _ _ h1 h2 => h2.trans h1)
    (fun w o ho => w.inv_exec_ro_store o ho) hp w)

end Conserve.Inv
