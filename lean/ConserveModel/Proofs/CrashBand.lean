import ConserveModel.Proofs.CrashPrefix
import ConserveModel.Proofs.FaultRestore
import ConserveModel.Proofs.ProducedArchive
import ConserveModel.Proofs.ProducedLock
import ConserveModel.Props.C02h
import ConserveModel.Props.C04r
/-
The archive a backup killed at any micro-step leaves (no injected faults), described through the
archive the uninterrupted run leaves (`Exact.Summary`) and the prefix relation of Proofs/CrashPrefix.lean:
the new version's hunks are an initial segment of the complete run's hunks, hence record a prefix of
the source; the archive is good again once the new version's head is readable.
No property statements here.
-/
set_option linter.unusedSimpArgs false
namespace Conserve.Crash
open Conserve Conserve.Exact Conserve.Inv Conserve.Conf Conserve.Fault Conserve.Hist Conserve.Rng Prog

variable {H : Str → Str} {o : BackupOpts}

/-! ### The tool's assumption is re-established for the same source, in every world -/

/-- **Every world** (faults, crash points): after `backup` of `src`, the tool's "looks unchanged ⇒ is
unchanged" assumption holds again for the SAME source: old hunks by the assumption before, new hunks
because every file entry the run recorded reads back to the source file with its path (C04). -/
theorem heuristic_after_backup (hinj : Function.Injective H) {src : List SrcEntry} (ho : 0 < o.maxBlockSize)
    (hsrc : SrcGood src) {w : World} (he : w.enforceCreateNew = true) (hnd : NoDupKeys w.store)
    (hbg : BlocksGood H w.store) (hd : NoDangling H w.store) (hh : HeuristicSoundStore H src w.store) :
    HeuristicSoundStore H src ((backup H o src).run w).2.store := by
  have hset : C04.Setting H o src w := C04.Setting.of_store hinj ho hsrc.wf he hnd hbg hd hh
  have hx := C04.faults_extends hset
  intro b n es hhunk e hee sf hsf hkf hap hheur hblocks
  cases h0 : hunkAt w.store b n with
  | none =>
    have hk : e.kind = .file := (heuristicallyUnchanged_kind hheur).trans hkf
    obtain ⟨sf', hsf', hap', _, hrb⟩ := C04.faults_recorded_content hset b n es h0 hhunk e hee hk
    have : sf' = sf := hsrc.inj sf' hsf' sf hsf (hap'.trans hap)
    subst this
    exact hrb
  | some es0 =>
    have heq : es0 = es := by
      have := hunkAt_mono h0 hx
      rw [hhunk] at this
      cases this; rfl
    subst heq
    have hprem : ∀ a ∈ e.addrs, ∃ c, blockContent H w.store a.hash = some c := by
      intro a ha
      have := hd b n es0 h0 e hee a ha
      unfold readAddrPure at this
      cases hc : blockContent H w.store a.hash with
      | none => simp [hc] at this
      | some c => exact ⟨c, rfl⟩
    exact readBack_mono H (hh b n es0 h0 e hee sf hsf hkf hap hheur hprem) hx

/-! ### What is assumed of the archive the interrupted backup started from -/

/-- A good archive (C01a's `ArchiveGood`, C13's `CI`, stored values in range) whose newest version
directory `p` holds a complete version. -/
structure CrashStart (H : Str → Str) (src : List SrcEntry) (s : Store) (p : Nat) : Prop where
  good : ArchiveGood H src s
  ci : CI H s
  inRange : entriesInRange s = true
  newest : maxNat? (bandIdsOf s) = some p
  complete : isComplete s p = true

theorem CrashStart.new_eq {src : List SrcEntry} {s : Store} {p : Nat} (h : CrashStart H src s p) :
    newBandOf s = p + 1 := by
  simp [newBandOf, nextBandId, h.newest]

theorem CrashStart.mem {src : List SrcEntry} {s : Store} {p : Nat} (h : CrashStart H src s p) :
    p ∈ bandIdsOf s := maxNat?_mem h.newest

/-- The store a backup killed before micro-step `j` leaves. -/
abbrev crashed (H : Str → Str) (o : BackupOpts) (src : List SrcEntry) (s : Store) (j : Nat) : Store :=
  ((backup H o src).run { store := s, crashAt := some j }).2.store

section crashed
variable {src : List SrcEntry} {s sF : Store} {hs : List (List IndexEntry)} {stats : Stats} {evs : List Event}

/-- The killed run's store is extended by the complete run's store. -/
theorem crashed_prefix (h : Summary H o src s sF hs stats evs) (j : Nat) : Extends (crashed H o src s j) sF := by
  have := crash_prefix_clean (backup_createOnly H o src) s j
  rwa [h.runs.clean.2.1] at this

theorem crashed_extends (s : Store) (j : Nat) : Extends s (crashed H o src s j) :=
  Prog.run_extends (backup_createOnly H o src) { store := s, crashAt := some j } rfl

/-- Keys outside the new version's directory that are not blocks: what the killed run holds there is
what the archive held before. -/
theorem crashed_old_key (h : Summary H o src s sF hs stats evs) (j : Nat) {k : Key} {v : FileVal}
    (hk : newKey (newBandOf s) k = false) (hv : (crashed H o src s j).get? k = some v) (hne : v ≠ .empty) :
    s.get? k = some v := by
  have := (crashed_prefix h j).keeps hv hne
  rwa [h.final.frame k hk] at this

/-- Every version directory of the killed run's store is the new one or was there before. -/
theorem crashed_bandIds (h : Summary H o src s sF hs stats evs) (hst : StoreOK H s) (j : Nat) {b : Nat}
    (hnd : NoDupKeys (crashed H o src s j)) (hb : b ∈ bandIdsOf (crashed H o src s j)) (hne : b ≠ newBandOf s) :
    b ∈ bandIdsOf s := by
  have hg : (crashed H o src s j).get? (.bandDir b) = some .dir :=
    hnd.get?_of_mem (mem_bandIdsOf'.1 hb)
  have := crashed_old_key h j (k := .bandDir b) (by simp [newKey, Key.isUnder, Key.parent, Exact.isBlockish, hne]) hg
    (by simp)
  exact (Exact.mem_bandIdsOf hst).2 this

/-- Earlier versions' keys are untouched. -/
theorem crashed_bandSame (hst : StoreOK H s) (j : Nat) {b : Nat} (hb : b ∈ bandIdsOf s) :
    BandSame s (crashed H o src s j) b :=
  backup_bandSame H o src { store := s, crashAt := some j } ((Exact.mem_bandIdsOf hst).1 hb)

end crashed

/-! ### The killed run's archive is good again, once the new head is readable -/

/-- **`ArchiveGood` of the archive a killed backup leaves**, for the same source, provided the new
version's head is readable (the crash point lies after the head write) — or no directory was created
for it at all. -/
theorem crashed_archiveGood (hinj : Function.Injective H) (hlen : HashLen H) {src : List SrcEntry} {s : Store}
    {p : Nat} (ho : 0 < o.maxBlockSize) (hsrc : SrcGood src) (hsw : C13.SrcSortedWeak src)
    (hst : CrashStart H src s p) (j : Nat)
    (hhead : newBandOf s ∈ bandIdsOf (crashed H o src s j) → bandReadable (crashed H o src s j) (newBandOf s) = true) :
    ArchiveGood H src (crashed H o src s j) := by
  obtain ⟨sF, hs, stats, evs, h⟩ := backup_summary (o := o) hinj (fun d => hlen d) ho hsrc hst.good
  have hg := hst.good
  have hci' : CI H (crashed H o src s j) :=
    C13.backup_ci_all_worlds (w := { store := s, crashAt := some j }) hinj hlen hsw rfl hst.ci
  refine archiveGood_of_ci hci' ?_ ?_ ?_ ?_ ?_ ?_
  · intro b hb
    by_cases hne : b = newBandOf s
    · subst hne; exact hhead hb
    · have hbs := crashed_bandIds h hg.st j hci'.nodup hb hne
      rw [bandReadable_same (crashed_bandSame hg.st j hbs)]
      exact (hg.bands b hbs).1
  · exact C09p.backup_keeps_inRange o (C09p.srcInRange_of_srcGood hsrc) { store := s, crashAt := some j } hst.inRange
  · exact backup_kindsOK H o src { store := s, crashAt := some j } hg.st.noDup hg.st.kinds
  · exact (backup_irs H o (C09p.srcInRange_of_srcGood hsrc) { store := s, crashAt := some j }
      ⟨hst.inRange, hg.st.small⟩).2
  · rw [crashed, backup_lock_same]; exact hg.noLock
  · exact heuristic_after_backup hinj ho hsrc rfl hg.st.noDup hg.st.blocks hg.noDangling hg.heuristic

/-! ### The killed run's hunks are an initial segment of the complete run's hunks -/

theorem filterMap_range_getElem? {α : Type} (l : List α) (L : Nat) :
    (List.range L).filterMap (fun k => l[k]?) = l.take L := by
  induction L with
  | zero => simp
  | succ L ih =>
    rw [List.range_succ, List.filterMap_append, ih, List.take_add_one]
    congr 1

theorem filterMap_congr' {α β : Type} {f g : α → Option β} {l : List α} (h : ∀ x ∈ l, f x = g x) :
    l.filterMap f = l.filterMap g := by
  induction l with
  | nil => rfl
  | cons a l ih =>
    simp only [List.filterMap_cons, h a (List.mem_cons_self ..), ih (fun x hx => h x (List.mem_cons_of_mem _ hx))]

theorem take_flatten_prefix {α : Type} (hs : List (List α)) (m : Nat) : (hs.take m).flatten <+: hs.flatten := by
  conv => rhs; rw [← List.take_append_drop m hs, List.flatten_append]
  exact List.prefix_append _ _

section shape
variable {src : List SrcEntry} {s sF : Store} {hs : List (List IndexEntry)} {stats : Stats} {evs : List Event}

/-- A hunk file of the new version in the killed run's store is a hunk of the complete run, or the
zero-length leftover of the killed write. -/
theorem crashed_hunk (h : Summary H o src s sF hs stats evs) (j k : Nat) {v : FileVal}
    (hv : (crashed H o src s j).get? (.hunk (newBandOf s) k) = some v) :
    (∃ es, v = .hunk es ∧ hs[k]? = some es) ∨ v = .empty := by
  rcases crashed_prefix h j _ _ hv with hF | ⟨he, _⟩
  · left
    rw [h.final.hunk k] at hF
    cases hk : hs[k]? with
    | none => simp [hk] at hF
    | some es => simp only [hk, Option.map_some, Option.some.injEq] at hF; exact ⟨es, hF.symm, rfl⟩
  · exact Or.inr he

/-- **The entries of the new version in the killed run's store are the first `m` hunks of the complete
run**, for some `m`. -/
theorem crashed_own (h : Summary H o src s sF hs stats evs) (j : Nat) (hci' : CI H (crashed H o src s j)) :
    ∃ m, ownEntries (crashed H o src s j) (newBandOf s) = (hs.take m).flatten ∧
      ((∃ c, (crashed H o src s j).get? (.bandTail (newBandOf s)) = some (.tail c)) → hs.length ≤ m) := by
  have hnd := hci'.nodup
  -- usable hunks of the killed store that decode are hunks of the complete run
  have husable : ∀ k es, (crashed H o src s j).get? (.hunk (newBandOf s) k) = some (.hunk es) →
      usableHunk (crashed H o src s j) (newBandOf s) k = hs[k]? := by
    intro k es hg
    rcases crashed_hunk h j k hg with ⟨es', he, hk⟩ | he
    · cases he
      have hall : es.all entryUsable = true := by
        rw [List.all_eq_true]
        intro e he
        exact h.usable e (List.mem_flatten.mpr ⟨es, List.mem_of_getElem? hk, he⟩)
      simp [usableHunk, hg, hall, hk]
    · cases he
  -- a decoded tail in the killed store is the complete run's tail
  have hT : ∀ c, (crashed H o src s j).get? (.bandTail (newBandOf s)) = some (.tail c) → c = some hs.length := by
    intro c hc
    have := (crashed_prefix h j).keeps hc (by simp)
    rw [h.final.tail] at this
    cases this; rfl
  by_cases hb : newBandOf s ∈ bandIdsOf (crashed H o src s j)
  · have hconf := hci'.conf
    simp only [Conforms, Bool.and_eq_true, List.all_eq_true] at hconf
    have ok := bandOK_of_conforms (hconf.2 _ hb)
    obtain ⟨L, hrange⟩ : ∃ L, hunkNumsOf (crashed H o src s j) (newBandOf s) = List.range L := ⟨_, ok.range⟩
    have hvals := ok.vals
    have htail := ok.tail
    rw [hrange, List.length_range] at hvals htail
    -- with a decoded tail: it states `L`, and every hunk decodes
    have hfull : ∀ c, (crashed H o src s j).get? (.bandTail (newBandOf s)) = some (.tail c) →
        hs.length = L ∧ ∀ n ∈ List.range L, ∃ es, (crashed H o src s j).get? (.hunk (newBandOf s) n) = some (.hunk es) := by
      intro c hc
      rcases htail with hn | ⟨ht, hall⟩
      · rw [hn] at hc; cases hc
      · refine ⟨?_, hall⟩
        rcases ht with ht | ht
        · have := hT _ ht
          simp only [Option.some.injEq] at this
          exact this.symm
        · rw [ht] at hc; cases hc
    cases L with
    | zero =>
      refine ⟨0, by simp [ownEntries, hrange], ?_⟩
      rintro ⟨c, hc⟩
      have := (hfull c hc).1
      omega
    | succ L' =>
      have hdec : ∀ k, k < L' → ∃ es, (crashed H o src s j).get? (.hunk (newBandOf s) k) = some (.hunk es) := by
        intro k hk
        rcases hvals k (List.mem_range.mpr (by omega)) with hd | ⟨_, _, hl⟩
        · exact hd
        · omega
      have hfirst : (List.range L').filterMap (usableHunk (crashed H o src s j) (newBandOf s)) = hs.take L' := by
        rw [← filterMap_range_getElem?]
        apply filterMap_congr'
        intro k hk
        obtain ⟨es, hg⟩ := hdec k (List.mem_range.mp hk)
        exact husable k es hg
      unfold ownEntries
      rw [hrange, List.range_succ, List.filterMap_append, hfirst]
      rcases hvals L' (List.mem_range.mpr (by omega)) with ⟨es, hg⟩ | ⟨hg, _, _⟩
      · refine ⟨L' + 1, ?_, ?_⟩
        · rw [List.take_add_one, List.filterMap_cons, List.filterMap_nil, husable L' es hg]
          cases hs[L']? <;> simp
        · rintro ⟨c, hc⟩
          have := (hfull c hc).1
          omega
      · refine ⟨L', by simp [usableHunk, hg], ?_⟩
        rintro ⟨c, hc⟩
        obtain ⟨es, hes⟩ := (hfull c hc).2 L' (List.mem_range.mpr (by omega))
        rw [hg] at hes; cases hes
  · have : hunkNumsOf (crashed H o src s j) (newBandOf s) = [] := by
      rw [List.eq_nil_iff_forall_not_mem]
      intro k hk
      obtain ⟨v, hg, _⟩ := (Conf.mem_hunkNumsOf_get? hnd).1 hk
      exact hb (bandDir_of_hunk hci'.dirs hg)
    refine ⟨0, by simp [ownEntries, this], ?_⟩
    rintro ⟨c, hc⟩
    have := hci'.dirs.parent_of_get? hc
    exact absurd (mem_bandIdsOf_of_get? (by simpa [Store.parentOk, Key.parent] using this)) hb

theorem crashed_band (h : Summary H o src s sF hs stats evs) (j : Nat) (hci' : CI H (crashed H o src s j)) :
    ∃ m, bandEntries (crashed H o src s j) (newBandOf s) = (hs.take m).flatten ∧
      (bandReadable (crashed H o src s j) (newBandOf s) = true →
        (∃ c, (crashed H o src s j).get? (.bandTail (newBandOf s)) = some (.tail c)) → hs.length ≤ m) := by
  unfold bandEntries
  split
  · obtain ⟨m, h1, h2⟩ := crashed_own h j hci'
    exact ⟨m, h1, fun _ => h2⟩
  · rename_i hr
    exact ⟨0, by simp, fun h' => absurd h' hr⟩

/-- **The new version's entries in the killed run's store record a prefix of the source**, entry by entry. -/
theorem crashed_records (hinj : Function.Injective H) (ho : 0 < o.maxBlockSize) (hsrc : SrcGood src)
    (hg : ArchiveGood H src s) (h : Summary H o src s sF hs stats evs) (j : Nat)
    (hci' : CI H (crashed H o src s j)) :
    ∃ pre, pre <+: src ∧
      Paired (Records H o (crashed H o src s j)) pre (bandEntries (crashed H o src s j) (newBandOf s)) ∧
      (bandReadable (crashed H o src s j) (newBandOf s) = true →
        (∃ c, (crashed H o src s j).get? (.bandTail (newBandOf s)) = some (.tail c)) → pre = src) := by
  obtain ⟨m, hm, hfull⟩ := crashed_band h j hci'
  have hpre : bandEntries (crashed H o src s j) (newBandOf s) <+: hs.flatten := hm ▸ take_flatten_prefix hs m
  generalize hown : bandEntries (crashed H o src s j) (newBandOf s) = own at hpre hm
  have htake : own = hs.flatten.take own.length := List.prefix_iff_eq_take.mp hpre
  have hlen : hs.flatten.length = src.length := by
    have := congrArg List.length h.final.shape
    rw [List.length_map, List.length_map] at this
    exact this
  refine ⟨src.take own.length, List.take_prefix _ _, ?_, fun hr ht => ?_⟩
  rotate_left
  · have hall : own = hs.flatten := by rw [hm, List.take_of_length_le (hfull hr ht)]
    rw [hall, hlen, List.take_length]
  have hmap : (src.take own.length).map (Inv.metaOf o) = own.map strip := by
    rw [List.map_take, ← h.final.shape, ← List.map_take, ← htake]
  have hset : C04.Setting H o src { store := s, crashAt := some j } :=
    C04.Setting.of_store hinj ho hsrc.wf rfl hg.st.noDup hg.st.blocks hg.noDangling hg.heuristic
  refine (paired_of_map_eq hmap).imp_mem ?_
  intro sf hsf e he hmeta
  have hsf' : sf ∈ src := List.mem_of_mem_take hsf
  have hk : e.kind = sf.kind := congrArg IndexEntry.kind hmeta.symm
  have heF : e ∈ hs.flatten := hpre.subset he
  refine ⟨hmeta.symm, ?_, fun hnf => h.final.hsNonfile e heF (by rw [hk]; exact hnf)⟩
  intro hfile
  have heown : e ∈ ownEntries (crashed H o src s j) (newBandOf s) := by
    rw [← hown] at he
    unfold bandEntries at he
    split at he
    · exact he
    · cases he
  obtain ⟨n, es, hh, hee⟩ := C04r.mem_ownEntries heown
  have h0 : hunkAt s (newBandOf s) n = none := by
    simp [hunkAt, fresh_under_new hg.st (k := .hunk (newBandOf s) n) (by simp [Key.isUnder, Key.parent])]
  obtain ⟨sf2, hsf2, hap, _, hrb⟩ := C04.faults_recorded_content hset (newBandOf s) n es h0 hh e hee (hk.trans hfile)
  have hap' : sf2.apath = sf.apath := hap.trans (congrArg IndexEntry.apath hmeta.symm)
  rw [hsrc.inj sf2 hsf2 sf hsf' hap'] at hrb
  exact hrb

end shape

/-! ### The listing of the interrupted version -/

theorem bandPresent_of_readable {s : Store} {b : Nat} (h : bandReadable s b = true) : bandPresent s b = true := by
  unfold bandReadable at h
  unfold bandPresent
  cases hg : s.get? (.bandHead b) with
  | none => simp [hg] at h
  | some v => cases v <;> simp_all [FileVal.isDir]

/-- **The stitching rule on the killed run's store**: the new version's own entries, then — unless the
tail file already exists — the entries of the previous (complete, newest) version that sort after the
last path the new version recorded. -/
theorem crashed_listSpec {src : List SrcEntry} {s : Store} {p : Nat} (hst : CrashStart H src s p) (j : Nat) :
    listSpec (crashed H o src s j) (newBandOf s) =
      bandEntries (crashed H o src s j) (newBandOf s) ++
        (if isComplete (crashed H o src s j) (newBandOf s) then []
         else (listSpec s p).filter (sortsAfter (lastOr (bandEntries (crashed H o src s j) (newBandOf s)) none))) := by
  have hg := hst.good
  have hnd' : NoDupKeys (crashed H o src s j) := Prog.run_noDupKeys _ { store := s, crashAt := some j } hg.st.noDup
  have hsame := crashed_bandSame (H := H) (o := o) (src := src) hg.st j hst.mem
  have hn := hg.st.uniqueKeys
  have hn' : UniqueKeys (crashed H o src s j) := (uniqueKeys_iff_nodup _).2 hnd'
  have hpres : bandPresent (crashed H o src s j) p = true := by
    rw [bandPresent_same hsame]; exact bandPresent_of_readable (hg.bands p hst.mem).1
  have hcomp : isComplete (crashed H o src s j) p = true := by rw [isComplete_same hsame]; exact hst.complete
  have hold : listSpec s p = bandEntries s p := by simp [listSpec, hst.complete]
  rw [hold]
  unfold listSpec
  congr 1
  split
  · rfl
  · rw [hst.new_eq]
    simp only [contSpec, hpres, hcomp, if_true, List.append_nil, bandEntries_same hn hn' hsame]

end Conserve.Crash
