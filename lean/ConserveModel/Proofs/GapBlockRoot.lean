import ConserveModel.Proofs.ProducedOps
import ConserveModel.Proofs.HistFrame
/-
C02h gap "a backup never creates `d/`": helper lemmas.

`SparesKey k0 o` — the operation `o` cannot change what the store holds at key `k0`: it reads, or it
creates / writes / removes ONE key other than `k0`, or it removes a whole tree that `k0` is not in.
One `World.exec` step of such an operation keeps `get? k0` in EVERY world (`exec_sparesKey`), hence so
does every program built from such operations (`run_sparesKey`).  Every operation `backup` and
`delete_bands` can issue (`Rng.FineOp`, Proofs/ProducedOps.lean: `backup_fine`, `deleteBands_fine2`)
spares `d/` (`fineOp_spares_blockRoot`), the archive directory itself and the header.
No property statements here.
-/
namespace Conserve.GapBlockRoot
open Conserve Prog

/-- The operation cannot change the value at key `k0`: a read, or a single-key mutation of another
key, or `removeDirAll` of a directory that `k0` is neither equal to nor below. -/
def SparesKey (k0 : Key) : Op → Prop
  | .read _ | .listDir _ | .metadata _ => True
  | .createDir k | .write k _ _ | .removeFile k => k ≠ k0
  | .removeDirAll k => Key.isUnder k k0 = false

instance (k0 : Key) : DecidablePred (SparesKey k0) := fun o => by
  cases o <;> simp only [SparesKey] <;> infer_instance

/-- Looking a key up after filtering with a predicate that keeps every pair with that key. -/
theorem lookup_filter_keep (s : Store) (p : Key × FileVal → Bool) (k0 : Key)
    (hp : ∀ v, p (k0, v) = true) : (s.filter p).lookup k0 = s.lookup k0 := by
  induction s with
  | nil => rfl
  | cons kv s ih =>
    obtain ⟨a, v⟩ := kv
    by_cases hk : k0 = a
    · subst hk
      simp [hp v]
    · have hb : (k0 == a) = false := by simpa using hk
      cases hpa : p (a, v) with
      | true => simp [hpa, List.lookup_cons, hb, ih]
      | false => simp [hpa, List.lookup_cons, hb, ih]

/-- Removing a tree that `k0` is not in keeps `k0`. -/
theorem get?_eraseTree_spared (s : Store) (k k0 : Key) (h : Key.isUnder k k0 = false) :
    (s.eraseTree k).get? k0 = s.get? k0 :=
  lookup_filter_keep s _ k0 (fun _ => by simp [h])

/-- One fault-free operation that spares `k0` keeps `get? k0` (whatever the `CreateNew` policy). -/
theorem applyOp_sparesKey (e : Bool) (s : Store) {o : Op} {k0 : Key} (ho : SparesKey k0 o) :
    (applyOp e s o).1.get? k0 = s.get? k0 := by
  cases o with
  | removeDirAll k =>
    simp only [applyOp]
    split
    · rfl
    · exact get?_eraseTree_spared s k k0 ho
  | read k => rw [applyOp_readOnly_store (by simp [ReadOnly])]
  | listDir k => rw [applyOp_readOnly_store (by simp [ReadOnly])]
  | metadata k => rw [applyOp_readOnly_store (by simp [ReadOnly])]
  | write k v m =>
    exact Hist.applyOp_get?_other e s _ k0 (fun h => ho h.symm) (by intro _ h; cases h)
  | createDir k =>
    exact Hist.applyOp_get?_other e s _ k0 (fun h => ho h.symm) (by intro _ h; cases h)
  | removeFile k =>
    exact Hist.applyOp_get?_other e s _ k0 (fun h => ho h.symm) (by intro _ h; cases h)

/-- **One step, any world** (any faults, any crash point — also between the two micro-steps of a
write —, dead or alive, `CreateNew` honoured or not): an operation that spares `k0` leaves
`get? k0` as it was. -/
theorem exec_sparesKey (w : World) {o : Op} {k0 : Key} (ho : SparesKey k0 o) :
    (w.exec o).1.store.get? k0 = w.store.get? k0 := by
  rcases (World.exec_cases w o).2 with ⟨hs, _, _⟩ | ⟨k, v, m, rfl, _, hs, _, _⟩ | ⟨e, hs, _, _⟩ | ⟨hs, _, _⟩
  · rw [hs]
  · have hne : k0 ≠ k := fun h => ho h.symm
    rw [hs, Store.get?_put, if_neg hne]
  · rw [hs]
  · rw [hs]; exact applyOp_sparesKey _ _ ho

/-- A program all of whose operations spare `k0` leaves `get? k0` as it was, in every world and
whatever its outcome. -/
theorem run_sparesKey {α : Type} {p : Prog α} {k0 : Key} (hp : AllOps (SparesKey k0) p) (w : World) :
    (p.run w).2.store.get? k0 = w.store.get? k0 :=
  Prog.run_store_rel (R := fun a b => b.get? k0 = a.get? k0) (fun _ => rfl)
    (fun _ _ _ h1 h2 => h2.trans h1) (fun w _ ho => exec_sparesKey w ho) hp w

/-! ### What `backup` and `delete_bands` issue spares `d/`, the archive directory and the header -/

/-- `d/` is not at or below any version directory. -/
theorem blockRoot_not_under_band (b : Nat) : Key.isUnder (.bandDir b) .blockRoot = false := by
  simp [Key.isUnder, Key.parent]

/-- Every operation of `backup` / `delete_bands` (`FineOp`) spares `d/`: the directories created are
`bNNNN`, `bNNNN/i`, `bNNNN/i/DDDDD` and `d/xxx`; the files written are heads, hunks, tails, blocks and
the lock; the files removed are the lock and blocks; the trees removed are version directories. -/
theorem fineOp_spares_blockRoot {o : Op} (h : Rng.FineOp o) : SparesKey .blockRoot o := by
  cases o with
  | read k => trivial
  | listDir k => trivial
  | metadata k => trivial
  | createDir k =>
    rcases h with ⟨b, rfl⟩ | ⟨b, rfl⟩ | ⟨b, d, rfl⟩ | ⟨p, rfl⟩ <;> simp [SparesKey]
  | write k v m =>
    rcases h.2 with ⟨b, ver, fl, rfl, _⟩ | ⟨b, n, es, rfl, _⟩ | ⟨b, c, rfl, _⟩ | ⟨h', c, rfl, _⟩ | ⟨rfl, _⟩ <;>
      simp [SparesKey]
  | removeFile k =>
    rcases h with rfl | ⟨h', rfl⟩ <;> simp [SparesKey]
  | removeDirAll k =>
    obtain ⟨b, rfl⟩ := h
    exact blockRoot_not_under_band b

/-- … and the archive directory itself. -/
theorem fineOp_spares_root {o : Op} (h : Rng.FineOp o) : SparesKey .root o := by
  cases o with
  | read k => trivial
  | listDir k => trivial
  | metadata k => trivial
  | createDir k =>
    rcases h with ⟨b, rfl⟩ | ⟨b, rfl⟩ | ⟨b, d, rfl⟩ | ⟨p, rfl⟩ <;> simp [SparesKey]
  | write k v m =>
    rcases h.2 with ⟨b, ver, fl, rfl, _⟩ | ⟨b, n, es, rfl, _⟩ | ⟨b, c, rfl, _⟩ | ⟨h', c, rfl, _⟩ | ⟨rfl, _⟩ <;>
      simp [SparesKey]
  | removeFile k =>
    rcases h with rfl | ⟨h', rfl⟩ <;> simp [SparesKey]
  | removeDirAll k =>
    obtain ⟨b, rfl⟩ := h
    simp [SparesKey, Key.isUnder, Key.parent]

/-- … and the `CONSERVE` header. -/
theorem fineOp_spares_header {o : Op} (h : Rng.FineOp o) : SparesKey .header o := by
  cases o with
  | read k => trivial
  | listDir k => trivial
  | metadata k => trivial
  | createDir k =>
    rcases h with ⟨b, rfl⟩ | ⟨b, rfl⟩ | ⟨b, d, rfl⟩ | ⟨p, rfl⟩ <;> simp [SparesKey]
  | write k v m =>
    rcases h.2 with ⟨b, ver, fl, rfl, _⟩ | ⟨b, n, es, rfl, _⟩ | ⟨b, c, rfl, _⟩ | ⟨h', c, rfl, _⟩ | ⟨rfl, _⟩ <;>
      simp [SparesKey]
  | removeFile k =>
    rcases h with rfl | ⟨h', rfl⟩ <;> simp [SparesKey]
  | removeDirAll k =>
    obtain ⟨b, rfl⟩ := h
    simp [SparesKey, Key.isUnder, Key.parent]

/-- Every operation a backup can issue spares `d/`. -/
theorem backup_spares_blockRoot (H : Str → Str) (o : BackupOpts) (src : List SrcEntry) :
    AllOps (SparesKey .blockRoot) (backup H o src) :=
  (Rng.backup_fine H o src).mono fun _ => fineOp_spares_blockRoot

/-- Every operation a backup can issue spares the archive directory. -/
theorem backup_spares_root (H : Str → Str) (o : BackupOpts) (src : List SrcEntry) :
    AllOps (SparesKey .root) (backup H o src) :=
  (Rng.backup_fine H o src).mono fun _ => fineOp_spares_root

/-- Every operation a backup can issue spares the header. -/
theorem backup_spares_header (H : Str → Str) (o : BackupOpts) (src : List SrcEntry) :
    AllOps (SparesKey .header) (backup H o src) :=
  (Rng.backup_fine H o src).mono fun _ => fineOp_spares_header

/-- Every operation `delete_bands` can issue spares `d/`. -/
theorem deleteBands_spares_blockRoot (strict : Bool) (D : List Nat) (o : DeleteOpts) :
    AllOps (SparesKey .blockRoot) (deleteBands strict D o) :=
  (Rng.deleteBands_fine2 strict D o).mono fun _ h => fineOp_spares_blockRoot h.1

end Conserve.GapBlockRoot
