import ConserveModel.Proofs.GlobMatch
import ConserveModel.Proofs.GlobParse
/-
Helper lemmas for C15: what the "**/" that `add_pattern` puts in front of an unanchored pattern
does.  For a pattern that does not itself start with '*', the tokens are those of the pattern with
a `RecursivePrefix` in front (the parser run after "**/" simulates the run from the start).
-/
namespace Conserve

/-- The same parser state with a `RecursivePrefix` in front of the tokens. -/
def PSt.pre (s : PSt) : PSt := { s with toks := .recPrefix :: s.toks }

/-- With no token yet, the parser is inside an escape or a class (or has failed): true from the
second character on, if the first one is not a '*'. -/
def Busy (s : PSt) : Prop :=
  s.toks = [] → s.mode = .esc ∨ (∃ cs, s.mode = .cls cs) ∨ ∃ e, s.mode = .failed e

theorem stepNormal_pre (toks : List Tok) (last : Option Nat) (c : Nat) :
    stepNormal (.recPrefix :: toks) last c = (stepNormal toks last c).pre := by
  unfold stepNormal PSt.pre
  repeat' split
  all_goals simp

theorem stepNormal_busy (toks : List Tok) (last : Option Nat) (c : Nat) (h : toks ≠ [] ∨ c ≠ 42) :
    Busy (stepNormal toks last c) := by
  unfold stepNormal Busy
  repeat' split
  all_goals simp_all

theorem popPush_snoc (init : List Tok) (t : Tok) (s : Bool) :
    popPush (init ++ [t]) s =
      if t = .recPrefix ∨ t = .recSuffix then init ++ [t]
      else init ++ [if s then .recSuffix else .recMid] := by
  cases t <;> simp [popPush]

theorem popPush_pre {toks : List Tok} (h : toks ≠ []) (s : Bool) :
    popPush (.recPrefix :: toks) s = .recPrefix :: popPush toks s := by
  obtain ⟨init, t, rfl⟩ : ∃ init t, toks = init ++ [t] := by
    rcases List.eq_nil_or_concat toks with h0 | ⟨i, t, h1⟩
    · exact absurd h0 h
    · exact ⟨i, t, by rw [h1, List.concat_eq_append]⟩
  rw [← List.cons_append, popPush_snoc, popPush_snoc]
  split <;> simp

theorem step_pre {s : PSt} (hb : Busy s) (c : Nat) :
    step s.pre c = (step s c).pre ∧ Busy (step s c) := by
  obtain ⟨toks, last, mode⟩ := s
  cases mode with
  | normal =>
    have hne : toks ≠ [] := by
      intro h; rcases hb h with h | ⟨_, h⟩ | ⟨_, h⟩ <;> simp at h
    exact ⟨by simp [step, PSt.pre, stepNormal_pre], by simpa [step] using stepNormal_busy toks last c (Or.inl hne)⟩
  | esc => exact ⟨by simp [step, PSt.pre], by simp [step, Busy]⟩
  | star1 =>
    have hne : toks ≠ [] := by
      intro h; rcases hb h with h | ⟨_, h⟩ | ⟨_, h⟩ <;> simp at h
    by_cases hc : c = 42
    · subst hc
      exact ⟨by simp [step, PSt.pre], by simp [step, Busy, hne]⟩
    · refine ⟨?_, ?_⟩
      · simp only [step, PSt.pre, hc, if_false]
        rw [List.cons_append, stepNormal_pre]; rfl
      · simp only [step, hc, if_false]
        exact stepNormal_busy _ _ _ (Or.inl (by simp))
  | star2 =>
    have hne : toks ≠ [] := by
      intro h; rcases hb h with h | ⟨_, h⟩ | ⟨_, h⟩ <;> simp at h
    have he : toks.isEmpty = false := by
      cases toks with
      | nil => exact absurd rfl hne
      | cons _ _ => rfl
    refine ⟨?_, ?_⟩
    · by_cases hl : last = some 47 <;> by_cases hc : c = 47 <;>
        simp [step, PSt.pre, stepStar2, he, hl, hc, popPush_pre hne, stepNormal_pre]
    · by_cases hl : last = some 47 <;> by_cases hc : c = 47
      · simp only [step, stepStar2, he, hl, hc]
        intro h0
        exfalso
        simp only [ne_eq, not_true_eq_false, if_false, if_true, Bool.false_eq_true] at h0
        obtain ⟨init, t, rfl⟩ : ∃ init t, toks = init ++ [t] := by
          rcases List.eq_nil_or_concat toks with h0 | ⟨i, t, h1⟩
          · exact absurd h0 hne
          · exact ⟨i, t, by rw [h1, List.concat_eq_append]⟩
        rw [popPush_snoc] at h0
        split at h0 <;> simp at h0
      · have := stepNormal_busy (toks ++ [.star, .star]) (some 42) c (Or.inl (by simp))
        simpa [step, stepStar2, he, hl, hc] using this
      · have := stepNormal_busy (toks ++ [.star, .star]) (some 42) c (Or.inl (by simp))
        simpa [step, stepStar2, he, hl, hc] using this
      · have := stepNormal_busy (toks ++ [.star, .star]) (some 42) c (Or.inl (by simp))
        simpa [step, stepStar2, he, hl, hc] using this
  | cls cs =>
    refine ⟨?_, ?_⟩
    · simp only [step, PSt.pre]
      split <;> simp
    · simp only [step]
      split <;> simp [Busy]
  | failed e => exact ⟨by simp [step, PSt.pre], by simpa [step] using hb⟩

theorem run_pre {s : PSt} (hb : Busy s) (p : Str) :
    runParser s.pre p = (runParser s p).pre ∧ Busy (runParser s p) := by
  induction p generalizing s with
  | nil => exact ⟨rfl, hb⟩
  | cons c p ih =>
    obtain ⟨h1, h2⟩ := step_pre hb c
    have := ih h2
    simp only [runParser, List.foldl_cons] at this ⊢
    rw [h1]; exact this

theorem finish_pre {s : PSt} (hb : Busy s ∨ s = PSt.init) :
    finish s.pre = (finish s).map (Tok.recPrefix :: ·) := by
  rcases hb with hb | rfl
  · obtain ⟨toks, last, mode⟩ := s
    cases mode with
    | normal => simp [finish, PSt.pre, Except.map]
    | esc => simp [finish, PSt.pre, Except.map]
    | star1 => simp [finish, PSt.pre, Except.map]
    | star2 =>
      have hne : toks ≠ [] := by
        intro h; rcases hb h with h | ⟨_, h⟩ | ⟨_, h⟩ <;> simp at h
      have he : toks.isEmpty = false := by
        cases toks with
        | nil => exact absurd rfl hne
        | cons _ _ => rfl
      by_cases hl : last = some 47 <;>
        simp [finish, PSt.pre, he, hl, Except.map, popPush_pre hne]
    | cls cs => simp [finish, PSt.pre, Except.map]
    | failed e => simp [finish, PSt.pre, Except.map]
  · simp [finish, PSt.pre, PSt.init, Except.map]

/-- "**/" as bytes. -/
def starStarSlash : Str := [42, 42, 47]

theorem run_starStarSlash : runParser PSt.init starStarSlash = ⟨[.recPrefix], some 47, .normal⟩ := by
  simp [runParser, starStarSlash, PSt.init, step, stepNormal, stepStar2]

/-- Parsing "**/" ++ p for a `p` that does not start with '*': the tokens of `p` with a
`RecursivePrefix` in front. -/
theorem parseGlobE_starStarSlash (p : Str) (h : p.head? ≠ some 42) :
    parseGlobE (starStarSlash ++ p) = (parseGlobE p).map (Tok.recPrefix :: ·) := by
  unfold parseGlobE
  rw [runParser_append, run_starStarSlash]
  cases p with
  | nil => simp [runParser, finish, PSt.init, Except.map]
  | cons c rest =>
    have hc : c ≠ 42 := by simpa using h
    -- first character by hand, then the simulation
    have h1 : step ⟨[.recPrefix], some 47, .normal⟩ c = (step PSt.init c).pre := by
      simp only [step, PSt.init]
      unfold stepNormal PSt.pre
      repeat' split
      all_goals simp_all
    have hb : Busy (step PSt.init c) := by
      simpa [step, PSt.init] using stepNormal_busy [] none c (Or.inr hc)
    obtain ⟨h2, h3⟩ := run_pre hb rest
    simp only [runParser, List.foldl_cons] at h2 h3 ⊢
    rw [h1, h2]
    exact finish_pre (Or.inl h3)

/-- A non-empty glob that does not start with '*' has at least one token. -/
theorem parseGlob_toks_ne_nil {P : Str} {ts : List Tok} (h0 : P ≠ []) (hstar : P.head? ≠ some 42)
    (hp : parseGlob P = some ts) : ts ≠ [] := by
  intro hts
  subst hts
  rw [parseGlob_eq_some] at hp
  unfold parseGlobE at hp
  cases P with
  | nil => exact h0 rfl
  | cons c rest =>
    have hc : c ≠ 42 := by simpa using hstar
    have hb : Busy (step PSt.init c) := by
      simpa [step, PSt.init] using stepNormal_busy [] none c (Or.inr hc)
    have hb2 := (run_pre hb rest).2
    simp only [runParser, List.foldl_cons] at hp hb2
    generalize List.foldl step (step PSt.init c) rest = st at hp hb2
    obtain ⟨toks, last, mode⟩ := st
    cases mode with
    | normal =>
      simp [finish] at hp; subst hp
      rcases hb2 rfl with h | ⟨_, h⟩ | ⟨_, h⟩ <;> simp at h
    | esc => simp [finish] at hp
    | star1 => simp [finish] at hp
    | star2 =>
      simp only [finish] at hp
      split at hp
      · simp at hp
      · rename_i he
        split at hp
        · simp at hp
        · have hne : toks ≠ [] := by intro h; simp [h] at he
          obtain ⟨init, t, rfl⟩ : ∃ init t, toks = init ++ [t] := by
            rcases List.eq_nil_or_concat toks with h0 | ⟨i, t, h1⟩
            · exact absurd h0 hne
            · exact ⟨i, t, by rw [h1, List.concat_eq_append]⟩
          rw [popPush_snoc] at hp
          split at hp <;> simp at hp
    | cls cs => simp [finish] at hp
    | failed e => simp [finish] at hp

theorem parseGlob_starStarSlash {p : Str} (h : p.head? ≠ some 42) {ts : List Tok}
    (hp : parseGlob p = some ts) : parseGlob (starStarSlash ++ p) = some (.recPrefix :: ts) := by
  rw [parseGlob_eq_some] at hp ⊢
  rw [parseGlobE_starStarSlash p h, hp]; rfl

theorem parseGlob_starStarSlash_none {p : Str} (h : p.head? ≠ some 42)
    (hp : parseGlob p = none) : parseGlob (starStarSlash ++ p) = none := by
  unfold parseGlob at hp ⊢
  rw [parseGlobE_starStarSlash p h]
  cases hE : parseGlobE p with
  | ok ts => simp [hE] at hp
  | error e => simp [Except.map]

end Conserve
