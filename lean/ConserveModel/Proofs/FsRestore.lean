import ConserveModel.Proofs.FsGrows
/-
Each step of `restoreToFs` on a clean path is local at that path.
-/
namespace Conserve

/-- The path `D ++ cs ++ trail` of one restored node is clean in `fs`. -/
structure Ctx (fs : Fs) (D : Path) (cs trail : List Str) : Prop where
  dest : DestOk fs D
  good : ∀ c ∈ cs, goodName c = true
  trailEmpty : ∀ c ∈ trail, c = []
  trailRoot : trail = [] ∨ cs = []
  clean : CleanTo fs D cs

def FinalNotLink (fs : Fs) (p : Path) : Prop := ∀ x, fs.node p = some x → x.kind ≠ .symlink

theorem FinalNotLink.of_noneOrDir {fs : Fs} {p : Path} (h : NoneOrDir (fs.node p)) : FinalNotLink fs p := by
  intro x hx; rw [h x hx]; decide

theorem Local.finalNotLink {k : FKind} {fs fs' : Fs} {p : Path} (h : Local k fs fs' p)
    (hk : k ≠ .symlink) (hf : FinalNotLink fs p) : FinalNotLink fs' p := by
  intro x' hx'
  cases hn : fs.node p with
  | none => rw [h.created x' hn hx']; exact hk
  | some x =>
    obtain ⟨y, hy, hky⟩ := h.self x hn
    rw [hx'] at hy; cases hy
    rw [hky]; exact hf x hn

theorem Local.destOk {k : FKind} {fs fs' : Fs} {p D : Path} (h : Local k fs fs' p) (hD : DestOk fs D) :
    DestOk fs' D := by
  refine ⟨hD.good, fun pre hp => ?_⟩
  obtain ⟨x, hx, hk⟩ := Fs.isDir_iff.1 (hD.dirs pre hp)
  obtain ⟨x', hx', hk'⟩ := h.kept pre x hx
  exact Fs.isDir_iff.2 ⟨x', hx', hk'.trans hk⟩

theorem Local.ctx {k : FKind} {fs fs' : Fs} {D : Path} {cs trail : List Str}
    (h : Local k fs fs' (D ++ cs)) (hc : Ctx fs D cs trail) : Ctx fs' D cs trail :=
  ⟨h.destOk hc.dest, hc.good, hc.trailEmpty, hc.trailRoot, fun pre hp hne =>
    NotLink.of_eqMod (h.eqMod_of_ne (fun e => hne (List.append_cancel_left e))) (hc.clean pre hp hne)⟩

theorem Ctx.res {fs : Fs} {D : Path} {cs trail : List Str} (hc : Ctx fs D cs trail) (follow : Bool)
    (hf : FinalNotLink fs (D ++ cs)) :
    ∀ p, fs.resolve follow (D ++ cs ++ trail) = .ok p → p = D ++ cs :=
  resolve_clean hc.dest hc.good hc.trailEmpty hc.clean (Or.inr hf)

theorem Ctx.res_nofollow {fs : Fs} {D : Path} {cs trail : List Str} (hc : Ctx fs D cs trail) :
    ∀ p, fs.resolve false (D ++ cs ++ trail) = .ok p → p = D ++ cs := by
  rcases hc.trailRoot with h | h
  · exact resolve_clean hc.dest hc.good hc.trailEmpty hc.clean (Or.inl ⟨rfl, h⟩)
  · refine hc.res false ?_
    subst h
    rw [List.append_nil]
    exact FinalNotLink.of_noneOrDir (noneOrDir_of_isDir (hc.dest.dirs D (List.prefix_refl _)))

/-! ### Owner and mode -/

theorem setOwnerFs_fst (uidOf gidOf : Str → Option Nat) (fs : Fs) (path : List Str) (n : RNode) :
    (setOwnerFs uidOf gidOf fs path n).1 = (fs.lchown path (n.user.bind uidOf) (n.group.bind gidOf)).1 := by
  unfold setOwnerFs
  split <;> simp_all

theorem setOwnerFs_local {k : FKind} {uidOf gidOf : Str → Option Nat} {fs : Fs} {D : Path}
    {cs trail : List Str} {n : RNode} (hc : Ctx fs D cs trail) :
    Local k fs (setOwnerFs uidOf gidOf fs (D ++ cs ++ trail) n).1 (D ++ cs) := by
  rw [setOwnerFs_fst]
  exact Fs.lchown_local hc.res_nofollow

theorem setPermsFs_local {k : FKind} {fs : Fs} {D : Path} {cs trail : List Str} {n : RNode}
    (hc : Ctx fs D cs trail) (hf : FinalNotLink fs (D ++ cs)) :
    Local k fs (setPermsFs fs (D ++ cs ++ trail) n).1 (D ++ cs) := by
  unfold setPermsFs
  cases n.unixMode with
  | none => exact Local.refl _ _ _
  | some m =>
    have := Fs.chmod_local (k := k) (m := m) (hc.res true hf)
    dsimp only
    split
    · rename_i heq; rw [heq] at this; exact this
    · rename_i heq; rw [heq] at this; exact this

/-! ### One file -/

theorem restoreFileFs_local {uidOf gidOf : Str → Option Nat} {old : Bool} {fs : Fs} {D : Path}
    {cs trail : List Str} {n : RNode} (hc : Ctx fs D cs trail) (hf0 : FinalNotLink fs (D ++ cs)) :
    Local .file fs (restoreFileFs uidOf gidOf old fs (D ++ cs ++ trail) n).1 (D ++ cs) := by
  have hfile : FKind.file ≠ .symlink := by decide
  obtain ⟨L1, hh⟩ := Fs.create_local (hc.res true hf0)
  unfold restoreFileFs
  rcases hcr : fs.create (D ++ cs ++ trail) with ⟨fs1, r⟩
  rw [hcr] at L1 hh
  cases r with
  | error e => exact L1
  | ok h =>
    obtain ⟨rfl, -⟩ := hh h rfl
    dsimp only
    have L2 : Local .file fs (fs1.writeAt (D ++ cs) n.content) (D ++ cs) :=
      L1.trans (Fs.writeAt_local _ _ _)
    by_cases hcomp : n.complete = true
    · simp only [hcomp, Bool.not_true, Bool.false_eq_true, if_false]
      have L3 : Local .file fs ((fs1.writeAt (D ++ cs) n.content).futimensAt (D ++ cs) n.mtimeNs) (D ++ cs) :=
        L2.trans (Fs.futimensAt_local _ _ _)
      cases old with
      | true =>
        simp only [if_true]
        have L4 := L3.trans (setPermsFs_local (k := .file) (n := n) (L3.ctx hc) (L3.finalNotLink hfile hf0))
        exact L4.trans (setOwnerFs_local (L4.ctx hc))
      | false =>
        simp only [Bool.false_eq_true, if_false]
        have L4 := L3.trans (setOwnerFs_local (k := .file) (uidOf := uidOf) (gidOf := gidOf) (n := n) (L3.ctx hc))
        exact L4.trans (setPermsFs_local (L4.ctx hc) (L4.finalNotLink hfile hf0))
    · simp only [hcomp, Bool.not_false, if_true]
      exact L2

/-! ### One symlink -/

theorem restoreSymlinkFs_local {uidOf gidOf : Str → Option Nat} {fs : Fs} {D : Path}
    {cs trail : List Str} {n : RNode} (hc : Ctx fs D cs trail) :
    Local .symlink fs (restoreSymlinkFs uidOf gidOf fs (D ++ cs ++ trail) n).1 (D ++ cs) := by
  unfold restoreSymlinkFs
  cases n.target with
  | none => exact Local.refl _ _ _
  | some target =>
    dsimp only
    have L1 : Local .symlink fs (fs.symlink target (D ++ cs ++ trail)).1 (D ++ cs) :=
      Fs.symlink_local hc.res_nofollow
    rcases hs : fs.symlink target (D ++ cs ++ trail) with ⟨fs1, r⟩
    rw [hs] at L1
    cases r with
    | error e => exact L1
    | ok u =>
      dsimp only
      have L2 : Local .symlink fs (setOwnerFs uidOf gidOf fs1 (D ++ cs ++ trail) n).1 (D ++ cs) :=
        L1.trans (setOwnerFs_local (L1.ctx hc))
      rcases ho : setOwnerFs uidOf gidOf fs1 (D ++ cs ++ trail) n with ⟨fs2, e⟩
      rw [ho] at L2
      cases e with
      | some e => exact L2
      | none =>
        dsimp only
        have L3 : Local .symlink fs (fs2.utimes false (D ++ cs ++ trail) n.mtimeNs).1 (D ++ cs) :=
          L2.trans (Fs.utimes_local (L2.ctx hc).res_nofollow)
        rcases hu : fs2.utimes false (D ++ cs ++ trail) n.mtimeNs with ⟨fs3, r3⟩
        rw [hu] at L3
        cases r3 <;> exact L3

/-! ### One deferral -/

theorem applyDeferralFs_local {uidOf gidOf : Str → Option Nat} {fs : Fs} {D : Path}
    {cs trail : List Str} {n : RNode} (hc : Ctx fs D cs trail) (hf0 : FinalNotLink fs (D ++ cs)) :
    Local .dir fs (applyDeferralFs uidOf gidOf fs { path := D ++ cs ++ trail, node := n }).1 (D ++ cs) := by
  have hdir : FKind.dir ≠ .symlink := by decide
  unfold applyDeferralFs
  dsimp only
  have L1 : Local .dir fs (setOwnerFs uidOf gidOf fs (D ++ cs ++ trail) n).1 (D ++ cs) :=
    setOwnerFs_local hc
  have L2 := L1.trans (setPermsFs_local (k := .dir) (n := n) (L1.ctx hc) (L1.finalNotLink hdir hf0))
  exact L2.trans (Fs.utimes_local ((L2.ctx hc).res true (L2.finalNotLink hdir hf0)))

/-! ### `create_dir_all` -/

theorem Fs.mkdir_enoent {fs fs1 : Fs} {path : List Str} (h : fs.mkdir path = (fs1, .error .ENOENT)) :
    fs.resolve false path = .error .ENOENT := by
  unfold Fs.mkdir at h
  cases hr : fs.resolve false path with
  | error e => rw [hr] at h; simp only [Prod.mk.injEq, Except.error.injEq] at h; rw [h.2]
  | ok p =>
    rw [hr] at h
    dsimp only at h
    cases hn : fs.node p <;> rw [hn] at h <;> simp at h

theorem ctx_of_cleanFull {fs : Fs} {D : Path} {cs : List Str} (hD : DestOk fs D)
    (hg : ∀ c ∈ cs, goodName c = true) (hc : CleanFullL fs D cs) : Ctx fs D cs [] :=
  ⟨hD, hg, (fun _ h => nomatch h), Or.inl rfl, hc.to⟩

theorem Grows.cleanFull {D : Path} {T : List Str → Prop} {fs fs' : Fs} {cs : List Str}
    (h : Grows D T (fun _ => False) fs fs') (hc : CleanFull fs D cs) : CleanFull fs' D cs := by
  intro pre hp x hx
  cases hn : fs.node (D ++ pre) with
  | none => exact (h.fresh pre x hn hx).elim id False.elim
  | some y =>
    obtain ⟨x', hx', hk'⟩ := h.kept _ y hn
    rw [hx] at hx'; cases hx'
    rw [hk']; exact hc pre hp y hn

theorem Grows.cleanFullL {D : Path} {T : List Str → Prop} {fs fs' : Fs} {cs : List Str}
    (h : Grows D T (fun _ => False) fs fs') (hc : CleanFullL fs D cs) : CleanFullL fs' D cs := by
  intro pre hp x hx
  cases hn : fs.node (D ++ pre) with
  | none =>
    rcases h.fresh pre x hn hx with hk | hf
    · rw [hk]; decide
    · exact hf.elim
  | some y =>
    obtain ⟨x', hx', hk'⟩ := h.kept _ y hn
    rw [hx] at hx'; cases hx'
    rw [hk']; exact hc pre hp y hn

theorem mkdir_grows {fs : Fs} {D : Path} {cs : List Str} (hD : DestOk fs D)
    (hg : ∀ c ∈ cs, goodName c = true) (hc : CleanFullL fs D cs) :
    Grows D (· <+: cs) (fun _ => False) fs (fs.mkdir (D ++ cs)).1 := by
  have hctx := ctx_of_cleanFull hD hg hc
  have L : Local .dir fs (fs.mkdir (D ++ cs ++ [])).1 (D ++ cs) := Fs.mkdir_local hctx.res_nofollow
  rw [List.append_nil] at L
  have hDn : fs.node D ≠ none := by
    obtain ⟨x, hx, _⟩ := Fs.isDir_iff.1 (hD.dirs D (List.prefix_refl _))
    rw [hx]; simp
  exact (L.grows hDn).mono (fun c h => h ▸ List.prefix_refl _) (fun c h => h.2 rfl)

theorem mkdirAll_grows {D : Path} : ∀ (k : Nat) (fs : Fs) (cs : List Str), DestOk fs D →
    (∀ c ∈ cs, goodName c = true) → CleanFullL fs D cs →
    Grows D (· <+: cs) (fun _ => False) fs (Fs.mkdirAll k fs (D ++ cs)).1 := by
  intro k
  induction k with
  | zero => intro fs cs _ _ _; exact Grows.refl _ _ _ _
  | succ k ih =>
    intro fs cs hD hg hc
    have G1 := mkdir_grows hD hg hc
    unfold Fs.mkdirAll
    split
    · rename_i fs1 _ heq
      rw [heq] at G1; exact G1
    · rename_i fs1 heq
      split
      · exact Grows.refl _ _ _ _
      · by_cases hcs : cs = []
        · subst hcs
          rw [List.append_nil] at heq
          exact absurd (Fs.mkdir_enoent heq) (resolve_dest_ne_enoent hD)
        · rw [dropLast_dest_append hcs]
          have hpre : cs.dropLast <+: cs := List.dropLast_prefix cs
          have G2 := (ih fs cs.dropLast hD (fun c h => hg c (List.dropLast_subset cs h)) (hc.prefix hpre)).mono
            (T' := (· <+: cs)) (N' := fun _ => False) (fun c h => h.trans hpre) (fun _ h => h)
          rcases hm : Fs.mkdirAll k fs (D ++ cs.dropLast) with ⟨fs1', r⟩
          rw [hm] at G2
          cases r with
          | error e => exact G2
          | ok u =>
            dsimp only at G2 ⊢
            have G3 := mkdir_grows (G2.destOk hD) hg (G2.cleanFullL hc)
            split
            · rename_i fs2 _ heq3
              rw [heq3] at G3
              exact G2.trans G3
            · split <;> exact G2
    · split <;> exact Grows.refl _ _ _ _

theorem restoreDirFs_fst (fs : Fs) (path : List Str) :
    (restoreDirFs fs path).1 = (Fs.mkdirAll (path.length + 1) fs path).1 := by
  unfold restoreDirFs
  split <;> simp_all

end Conserve
