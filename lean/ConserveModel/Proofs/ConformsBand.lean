import ConserveModel.Proofs.ConformsStore
/-
C13, store level, part 2: the general `put` lemma for `Conforms`, and `bandConforms` computed
from an explicit description of a band's hunk files (`HunksAre`).  No property statements here.
-/
namespace Conserve.Conf
open Conserve Conserve.Inv

section
variable (H : Str → Str)

/-- Keys `bandConforms … b` looks at, plus the band directory itself. -/
def touchesBand (k : Key) (b : Nat) : Prop :=
  k = .bandDir b ∨ k = .bandTail b ∨ k = .bandHead b ∨ ∃ n, k = .hunk b n

/-- **The general step.**  Putting a value where there was nothing or a zero-length file keeps
`Conforms`, if the new entry is fine as a block-directory entry and every band the key belongs to
conforms afterwards.  (All other bands are untouched, and what their addresses resolve to can only grow.) -/
theorem conforms_put {s : Store} {k : Key} {v : FileVal} (hn : NoDupKeys s)
    (hc : Conforms H s = true) (hpre : s.get? k = none ∨ s.get? k = some .empty)
    (hblk : blockEntryOk H (k, v) = true)
    (hband : ∀ b, touchesBand k b → (s.put k v).get? (.bandDir b) = some .dir →
      bandConforms H (s.put k v) b = true) :
    Conforms H (s.put k v) = true := by
  have hx : Extends s (s.put k v) := extends_put v hpre
  have hn' : NoDupKeys (s.put k v) := hn.put k v
  unfold Conforms at hc ⊢
  simp only [Bool.and_eq_true, beq_iff_eq] at hc ⊢
  obtain ⟨⟨⟨⟨h1, h2⟩, h3⟩, h4⟩, h5⟩ := hc
  have keep : ∀ k' v', s.get? k' = some v' → v' ≠ .empty → (s.put k v).get? k' = some v' := by
    intro k' v' hg hne
    rcases hx k' v' hg with h | ⟨h, _⟩
    · exact h
    · exact absurd h hne
  refine ⟨⟨⟨⟨keep _ _ h1 (by simp), keep _ _ h2 (by simp)⟩, keep _ _ h3 (by simp)⟩,
    blocksConform_put H h4 hblk⟩, ?_⟩
  rw [List.all_eq_true] at h5 ⊢
  intro b hb
  have hb' := (mem_bandIdsOf_iff_get? hn').1 hb
  by_cases ht : touchesBand k b
  · exact hband b ht hb'
  · have hne : ∀ k', touchesBand k' b → (s.put k v).get? k' = s.get? k' := by
      intro k' hk'
      rw [Store.inv_get?_put, if_neg]
      rintro rfl
      exact ht hk'
    have hbd : s.get? (.bandDir b) = some .dir := by
      rw [← hne _ (Or.inl rfl)]; exact hb'
    have hhk : ∀ n, (s.put k v).get? (.hunk b n) = s.get? (.hunk b n) :=
      fun n => hne _ (Or.inr (Or.inr (Or.inr ⟨n, rfl⟩)))
    exact bandConforms_congr H (hunkNumsOf_congr hn hn' hhk) hhk (hne _ (Or.inr (Or.inl rfl)))
      (hne _ (Or.inr (Or.inr (Or.inl rfl)))) (fun e => entryConforms_mono H hx)
      (h5 b ((mem_bandIdsOf_iff_get? hn).2 hbd))

/-! ### A band described explicitly -/

/-- The hunk files of band `b` are exactly `hs` (decoded), numbered from zero, plus — if `lo` —
one zero-length leftover right after them. -/
def HunksAre (s : Store) (b : Nat) (hs : List (List IndexEntry)) (lo : Bool) : Prop :=
  ∀ n, s.get? (.hunk b n) =
    if h : n < hs.length then some (.hunk hs[n])
    else if lo = true ∧ n = hs.length then some .empty else none

/-- The decoder `bandConforms` applies to the hunk files it finds. -/
def decodeVal (v : Option FileVal) : Option (List IndexEntry) :=
  match v with
  | some (.hunk es) => some es
  | _ => none

/-- `bandConforms` with its three local definitions named. -/
theorem bandConforms_of {s : Store} {b : Nat} (nums : List Nat) (vals : List (Option FileVal))
    (decoded : List (List IndexEntry)) (hnums : hunkNumsOf s b = nums)
    (hvals : nums.map (fun n => s.get? (.hunk b n)) = vals) (hdec : vals.filterMap decodeVal = decoded) :
    bandConforms H s b =
      (nums == List.range nums.length &&
      (decoded.length == vals.length ||
        (!isComplete s b && vals.getLast? == some (some .empty) && decoded.length + 1 == vals.length)) &&
      decoded.all (fun es => !es.isEmpty) &&
      (decoded.flatten).all (entryConforms H s) &&
      strictlySorted ((decoded.flatten).map (·.apath)) &&
      (match s.get? (.bandTail b) with
       | none => true
       | some (.tail (some n)) => n == nums.length && decoded.length == vals.length
       | some .empty => decoded.length == vals.length
       | some _ => false) &&
      (match s.get? (.bandHead b) with
       | some (.head _ _) => true
       | some .empty => nums.isEmpty && !isComplete s b
       | none => nums.isEmpty && !isComplete s b
       | some _ => false)) := by
  subst hnums hvals hdec
  rfl

theorem decode_hunks (hs : List (List IndexEntry)) :
    (hs.map fun es => some (FileVal.hunk es)).filterMap decodeVal = hs := by
  induction hs with
  | nil => rfl
  | cons es hs ih => simp [decodeVal, ih]

variable {H}

theorem HunksAre.nums {s : Store} {b : Nat} {hs : List (List IndexEntry)} {lo : Bool}
    (hn : NoDupKeys s) (hh : HunksAre s b hs lo) :
    hunkNumsOf s b = List.range (hs.length + lo.toNat) := by
  apply hunkNumsOf_eq_range hn
  intro n
  rw [hh n]
  by_cases h1 : n < hs.length
  · simp only [h1, dite_true]
    constructor
    · intro _; omega
    · intro _; exact ⟨_, rfl, rfl⟩
  · simp only [h1, dite_false]
    cases lo with
    | false => simp; omega
    | true =>
      by_cases h2 : n = hs.length
      · simp only [h2, and_self, if_true, Bool.toNat_true]
        constructor
        · intro _; omega
        · intro _; exact ⟨_, rfl, rfl⟩
      · simp only [h2, and_false, if_false, Bool.toNat_true]
        constructor
        · rintro ⟨_, h, _⟩; cases h
        · intro _; omega

theorem HunksAre.vals {s : Store} {b : Nat} {hs : List (List IndexEntry)} {lo : Bool}
    (hh : HunksAre s b hs lo) :
    (List.range hs.length).map (fun n => s.get? (.hunk b n)) = hs.map fun es => some (FileVal.hunk es) := by
  apply List.ext_getElem
  · simp
  · intro i h1 h2
    simp only [List.length_map, List.length_range] at h1
    simp only [List.getElem_map, List.getElem_range]
    rw [hh i]
    simp [h1]

/-- A band all of whose hunk files decode (no leftover): conforms if the hunks are non-empty,
their entries conform and are strictly increasing throughout, the tail (if any) is a zero-length
leftover or states the count, and the head is there (or the band is still completely empty). -/
theorem bandConforms_full {s : Store} {b : Nat} {hs : List (List IndexEntry)} (hn : NoDupKeys s)
    (hh : HunksAre s b hs false) (hne : ∀ es ∈ hs, es ≠ [])
    (hent : ∀ e ∈ hs.flatten, entryConforms H s e = true)
    (hsort : (hs.flatten.map (·.apath)).Pairwise (fun a b => apathCmp a b = .lt))
    (htail : s.get? (.bandTail b) = none ∨ s.get? (.bandTail b) = some .empty ∨
      s.get? (.bandTail b) = some (.tail (some hs.length)))
    (hhead : (∃ v f, s.get? (.bandHead b) = some (.head v f)) ∨
      (hs = [] ∧ s.get? (.bandTail b) = none ∧
        (s.get? (.bandHead b) = none ∨ s.get? (.bandHead b) = some .empty))) :
    bandConforms H s b = true := by
  have hnums := hh.nums hn
  simp only [Bool.toNat_false, Nat.add_zero] at hnums
  rw [bandConforms_of H _ _ hs hnums hh.vals (decode_hunks hs)]
  simp only [Bool.and_eq_true]
  refine ⟨⟨⟨⟨⟨⟨?_, ?_⟩, ?_⟩, ?_⟩, ?_⟩, ?_⟩, ?_⟩
  · simp
  · simp
  · rw [List.all_eq_true]; intro es he; simpa using hne es he
  · rw [List.all_eq_true]; exact hent
  · exact (strictlySorted_iff _).2 hsort
  · rcases htail with h | h | h <;> rw [h] <;> simp
  · rcases hhead with ⟨v, f, h⟩ | ⟨rfl, ht, h | h⟩
    · rw [h]
    · rw [h]; simp [isComplete, ht]
    · rw [h]; simp [isComplete, ht]

/-- A band whose last hunk file is the zero-length leftover of a killed write, without tail. -/
theorem bandConforms_leftover {s : Store} {b : Nat} {hs : List (List IndexEntry)} (hn : NoDupKeys s)
    (hh : HunksAre s b hs true) (hne : ∀ es ∈ hs, es ≠ [])
    (hent : ∀ e ∈ hs.flatten, entryConforms H s e = true)
    (hsort : (hs.flatten.map (·.apath)).Pairwise (fun a b => apathCmp a b = .lt))
    (htail : s.get? (.bandTail b) = none)
    (hhead : ∃ v f, s.get? (.bandHead b) = some (.head v f)) :
    bandConforms H s b = true := by
  have hnums := hh.nums hn
  simp only [Bool.toNat_true] at hnums
  have hlast : s.get? (.hunk b hs.length) = some .empty := by
    rw [hh hs.length]; simp
  have hvals : (List.range (hs.length + 1)).map (fun n => s.get? (.hunk b n)) =
      (hs.map fun es => some (FileVal.hunk es)) ++ [some .empty] := by
    rw [List.range_succ, List.map_append, hh.vals]
    simp [hlast]
  have hdec : ((hs.map fun es => some (FileVal.hunk es)) ++ [some FileVal.empty]).filterMap decodeVal = hs := by
    rw [List.filterMap_append, decode_hunks]
    simp [decodeVal]
  rw [bandConforms_of H _ _ hs hnums hvals hdec]
  simp only [Bool.and_eq_true]
  refine ⟨⟨⟨⟨⟨⟨?_, ?_⟩, ?_⟩, ?_⟩, ?_⟩, ?_⟩, ?_⟩
  · simp
  · simp [isComplete, htail]
  · rw [List.all_eq_true]; intro es he; simpa using hne es he
  · rw [List.all_eq_true]; exact hent
  · exact (strictlySorted_iff _).2 hsort
  · rw [htail]
  · obtain ⟨v, f, h⟩ := hhead
    rw [h]

end

/-! ### `HunksAre` under `put` -/

theorem HunksAre.put_other {s : Store} {b : Nat} {hs : List (List IndexEntry)} {lo : Bool}
    (hh : HunksAre s b hs lo) {k : Key} (v : FileVal) (hk : ∀ n, k ≠ .hunk b n) :
    HunksAre (s.put k v) b hs lo := by
  intro n
  rw [Store.inv_get?_put, if_neg (fun e => hk n e.symm)]
  exact hh n

/-- First micro-step of writing the next hunk: a zero-length file appears after the decoded ones. -/
theorem HunksAre.put_empty {s : Store} {b : Nat} {hs : List (List IndexEntry)}
    (hh : HunksAre s b hs false) : HunksAre (s.put (.hunk b hs.length) .empty) b hs true := by
  intro n
  rw [Store.inv_get?_put]
  by_cases hn : n = hs.length
  · subst hn; simp
  · have : Key.hunk b n ≠ Key.hunk b hs.length := by simp [hn]
    rw [if_neg this, hh n]
    simp [hn]

/-- The next hunk written completely. -/
theorem HunksAre.put_hunk {s : Store} {b : Nat} {hs : List (List IndexEntry)} {lo : Bool}
    (hh : HunksAre s b hs lo) (es : List IndexEntry) :
    HunksAre (s.put (.hunk b hs.length) (.hunk es)) b (hs ++ [es]) false := by
  intro n
  rw [Store.inv_get?_put]
  by_cases hn : n = hs.length
  · subst hn; simp
  · have : Key.hunk b n ≠ Key.hunk b hs.length := by simp [hn]
    rw [if_neg this, hh n]
    by_cases h1 : n < hs.length
    · have h2 : n < (hs ++ [es]).length := by simp; omega
      simp only [h1, h2, dite_true]
      rw [List.getElem_append_left]
    · have h2 : ¬ n < (hs ++ [es]).length := by simp; omega
      simp [h1, hn]
      omega

end Conserve.Conf
