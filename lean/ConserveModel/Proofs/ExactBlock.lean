import ConserveModel.Proofs.ExactStore
/-
The block store, the small-file combiner and `copy_entry` on a fault-free world: they SUCCEED, and
what they do to the writer is described exactly enough to know, at the end, which entries were
recorded in which order (`BInv.perm`).  Content fidelity is not repeated here — it is the
all-worlds development Proofs/Backup*.lean.  No property statements here.
-/
set_option linter.unusedSimpArgs false
namespace Conserve.Exact
open Conserve Prog

/-- An index entry without its addresses. -/
def strip (e : IndexEntry) : IndexEntry := { e with addrs := [] }

@[simp] theorem strip_kind (e : IndexEntry) : (strip e).kind = e.kind := rfl
@[simp] theorem strip_apath (e : IndexEntry) : (strip e).apath = e.apath := rfl
@[simp] theorem strip_setAddrs (e : IndexEntry) (as : List Addr) : strip { e with addrs := as } = strip e := rfl
@[simp] theorem strip_metaOf (o : BackupOpts) (sf : SrcEntry) : strip (Inv.metaOf o sf) = Inv.metaOf o sf := rfl

/-- The entries of the group being assembled: pending, finished by the combiner, still queued. -/
def groupEntries (wr : Writer) : List IndexEntry := wr.pending ++ wr.finished ++ wr.queue.map (·.2.2)

/-- The in-memory block set knows every non-empty block file of the store. -/
def ExAll (s : Store) (ex : List Str) : Prop := ∀ h, blockListed s h → h ∈ ex

/-- The part of the writer/store invariant the block-level functions maintain.  `grp` are the source
entries recorded since the last hunk was written; `bytes` bounds the combiner buffer. -/
structure BInv (H : Str → Str) (o : BackupOpts) (s : Store) (wr : Writer) (grp : List SrcEntry) (bytes : Nat) :
    Prop where
  st : StoreOK H s
  exAll : ExAll s wr.exists_
  perm : ((groupEntries wr).map strip).Perm (grp.map (Inv.metaOf o))
  nonfile : ∀ e ∈ wr.pending ++ wr.finished, e.kind ≠ .file → e.addrs = []
  queueFiles : ∀ q ∈ wr.queue, q.2.2.kind = .file
  buf : wr.buf.length ≤ bytes

/-- What the block-level functions leave alone. -/
structure Keep (s : Store) (wr : Writer) (s' : Store) (wr' : Writer) : Prop where
  band : wr'.band = wr.band
  sequence : wr'.sequence = wr.sequence
  hunksWritten : wr'.hunksWritten = wr.hunksWritten
  errors : wr'.stats.errors = wr.stats.errors
  frame : ∀ k, isBlockish k = false → s'.get? k = s.get? k

theorem Keep.refl (s : Store) (wr : Writer) : Keep s wr s wr := ⟨rfl, rfl, rfl, rfl, fun _ _ => rfl⟩

theorem Keep.trans {s s1 s2 : Store} {wr wr1 wr2 : Writer} (h1 : Keep s wr s1 wr1) (h2 : Keep s1 wr1 s2 wr2) :
    Keep s wr s2 wr2 :=
  ⟨h2.band.trans h1.band, h2.sequence.trans h1.sequence, h2.hunksWritten.trans h1.hunksWritten,
   h2.errors.trans h1.errors, fun k hk => (h2.frame k hk).trans (h1.frame k hk)⟩

variable {H : Str → Str} {o : BackupOpts}

theorem BInv.mono_bytes {s : Store} {wr : Writer} {grp : List SrcEntry} {b b' : Nat}
    (h : BInv H o s wr grp b) (hb : b ≤ b') : BInv H o s wr grp b' :=
  ⟨h.st, h.exAll, h.perm, h.nonfile, h.queueFiles, Nat.le_trans h.buf hb⟩

/-- Recording one more entry at the end of `pending`. -/
theorem BInv.pushPending {s : Store} {wr : Writer} {grp : List SrcEntry} {b : Nat} (h : BInv H o s wr grp b)
    {e : IndexEntry} {sf : SrcEntry} (he : strip e = Inv.metaOf o sf) (hnf : e.kind ≠ .file → e.addrs = [])
    (st' : Stats) :
    BInv H o s { wr with pending := wr.pending ++ [e], stats := st' } (grp ++ [sf]) b := by
  refine ⟨h.st, h.exAll, ?_, ?_, h.queueFiles, h.buf⟩
  · have hp := h.perm
    simp only [groupEntries, List.map_append, List.append_assoc, List.map_cons, List.map_nil, he] at hp ⊢
    refine List.Perm.trans ?_ (hp.append_right [Inv.metaOf o sf])
    rw [List.append_assoc]
    refine List.Perm.append_left _ ?_
    exact List.perm_append_comm (l₁ := [Inv.metaOf o sf])
  · intro e' he' hk
    simp only [List.mem_append, List.mem_singleton] at he'
    rcases he' with (he' | rfl) | he'
    · exact h.nonfile e' (List.mem_append_left _ he') hk
    · exact hnf hk
    · exact h.nonfile e' (List.mem_append_right _ he') hk

theorem BInv.setStats {s : Store} {wr : Writer} {grp : List SrcEntry} {b : Nat} (h : BInv H o s wr grp b)
    (st' : Stats) : BInv H o s { wr with stats := st' } grp b :=
  ⟨h.st, h.exAll, h.perm, h.nonfile, h.queueFiles, h.buf⟩

/-! ### `store_or_deduplicate` -/

theorem storeOrDedup_runs {s : Store} (wr : Writer) (data : Str) (hst : StoreOK H s)
    (hex : ExAll s wr.exists_) (hsmall : data.length < 18446744073709551616) :
    ∃ s' ex' st', RunsAt (storeOrDedup H wr data) s
        (.ok ({ wr with exists_ := ex', stats := st' }, .ok (H data))) s' [] ∧
      StoreOK H s' ∧ ExAll s' ex' ∧ st'.errors = wr.stats.errors ∧
      (∀ k, isBlockish k = false → s'.get? k = s.get? k) := by
  unfold storeOrDedup
  by_cases hc : wr.exists_.contains (H data) = true
  · simp only [hc, if_true, Prog.pure_def]
    exact ⟨s, wr.exists_, _, RunsAt.ret _ _, hst, hex, rfl, fun _ _ => rfl⟩
  · simp only [hc, Bool.false_eq_true, if_false, Prog.pure_def, Prog.bind_def, perform, Prog.op_bind,
      Prog.ret_bind]
    have hnotin : H data ∉ wr.exists_ := by simpa using hc
    -- what happens once the sub-directory is in place
    have rest : ∀ s1, StoreOK H s1 → s1.get? (.blockDir ((H data).take subdirNameChars)) = some .dir →
        (∀ k, k ≠ .blockDir ((H data).take subdirNameChars) → s1.get? k = s.get? k) →
        ∃ s' ex' st', RunsAt (Prog.op (.write (.block (H data)) (.blockData data) .createNew) fun r =>
            match r with
            | .unit => Prog.ret ({ wr with exists_ := H data :: wr.exists_,
                                           stats := { wr.stats with writtenBlocks := wr.stats.writtenBlocks + 1,
                                                                    uncompressedBytes := wr.stats.uncompressedBytes + data.length } },
                                 (Except.ok (H data) : Except Err Str))
            | .err e => Prog.ret (wr, .error (.transport e))
            | _ => Prog.ret (wr, .error (.transport .other))) s1
            (.ok ({ wr with exists_ := ex', stats := st' }, .ok (H data))) s' [] ∧
          StoreOK H s' ∧ ExAll s' ex' ∧ st'.errors = wr.stats.errors ∧
          (∀ k, isBlockish k = false → s'.get? k = s.get? k) := by
      intro s1 hst1 hdir hsame
      have hpar : s1.parentOk (.block (H data)) = true := by
        simp [Store.parentOk, Key.parent, hdir]
      have hblk : s1.get? (.block (H data)) = s.get? (.block (H data)) := hsame _ (by simp)
      have habs : s1.get? (.block (H data)) = none ∨ s1.get? (.block (H data)) = some .empty := by
        rw [hblk]
        cases hg : s.get? (.block (H data)) with
        | none => exact Or.inl rfl
        | some v =>
          rcases hst.blocks _ _ hg with rfl | ⟨c, rfl, _⟩
          · exact Or.inr rfl
          · exact absurd (hex _ ⟨.blockData c, hg, rfl, rfl⟩) hnotin
      have hA : StoreOK H (s1.put (.block (H data)) (.blockData data)) := by
        refine hst1.put hpar ?_ (by simp [kindOk, isDirKey, FileVal.isDir]) ?_
        · rcases habs with h0 | h0
          · exact Or.inl h0
          · exact Or.inr ⟨_, rfl, h0⟩
        · intro hh hk
          cases hk
          exact ⟨data, rfl, rfl, hsmall⟩
      have hB : ExAll (s1.put (.block (H data)) (.blockData data)) (H data :: wr.exists_) := by
        intro h' hl
        obtain ⟨v, hg, h1, h2⟩ := hl
        rw [get?_put] at hg
        by_cases hk : Key.block h' = Key.block (H data)
        · cases hk; exact List.mem_cons_self ..
        · simp only [hk, if_false] at hg
          rw [hsame _ (by simp)] at hg
          exact List.mem_cons_of_mem _ (hex h' ⟨v, hg, h1, h2⟩)
      have hC : ∀ k, isBlockish k = false →
          (s1.put (.block (H data)) (.blockData data)).get? k = s.get? k := by
        intro k hk
        rw [get?_put]
        have : k ≠ Key.block (H data) := by intro e; subst e; simp [isBlockish] at hk
        simp only [this, if_false]
        exact hsame k (by intro e; subst e; simp [isBlockish] at hk)
      exact ⟨_, H data :: wr.exists_, _, RunsAt.op_write hpar habs (RunsAt.ret _ _), hA, hB, rfl, hC⟩
    cases hg : s.get? (.blockDir ((H data).take subdirNameChars)) with
    | none =>
      have hpar : s.parentOk (.blockDir ((H data).take subdirNameChars)) = true := by
        simp [Store.parentOk, Key.parent, hst.blockRoot]
      have hst1 : StoreOK H (s.put (.blockDir ((H data).take subdirNameChars)) .dir) :=
        hst.put hpar (Or.inl hg) (by simp [kindOk, isDirKey, FileVal.isDir]) (fun _ hk => by cases hk)
      obtain ⟨s', ex', st', hr, h1, h2, h3, h4⟩ := rest _ hst1 (by simp [get?_put])
        (fun k hk => by simp [get?_put, hk])
      exact ⟨s', ex', st', RunsAt.op_createDir hg hpar hr, h1, h2, h3, h4⟩
    | some v =>
      have hv := hst.blockDir_dir hg
      subst hv
      obtain ⟨s', ex', st', hr, h1, h2, h3, h4⟩ := rest s hst hg (fun _ _ => rfl)
      exact ⟨s', ex', st', RunsAt.op_createDir_exists hg hr, h1, h2, h3, h4⟩

/-! ### The small-file combiner -/

theorem combinerFlush_runs {s : Store} {wr : Writer} {grp : List SrcEntry} {bytes : Nat}
    (hb : BInv H o s wr grp bytes) (hB : bytes < 18446744073709551616) :
    ∃ s' wr', RunsAt (combinerFlush H wr) s (.ok (wr', .ok ())) s' [] ∧
      BInv H o s' wr' grp bytes ∧ Keep s wr s' wr' ∧ wr'.queue = [] ∧ wr'.pending = wr.pending := by
  unfold combinerFlush
  by_cases hq : wr.queue.isEmpty = true
  · simp only [hq, if_true, Prog.pure_def]
    exact ⟨s, wr, RunsAt.ret _ _, hb, Keep.refl _ _, by simpa using hq, rfl⟩
  · simp only [hq, Bool.false_eq_true, if_false, Prog.pure_def, Prog.bind_def]
    obtain ⟨s', ex', st', hr, hst', hex', herr, hfr⟩ :=
      storeOrDedup_runs (H := H) { wr with buf := [] } wr.buf hb.st hb.exAll (Nat.lt_of_le_of_lt hb.buf hB)
    refine ⟨s', _, RunsAt.bind0 hr (RunsAt.ret _ _), ?_, ⟨rfl, rfl, rfl, herr, hfr⟩, rfl, rfl⟩
    refine ⟨hst', hex', ?_, ?_, (fun _ h => nomatch h), Nat.zero_le _⟩
    · have hp := hb.perm
      simp only [groupEntries, List.map_append, List.map_map, List.append_assoc, List.map_nil,
        List.append_nil] at hp ⊢
      refine List.Perm.trans (List.Perm.of_eq ?_) hp
      congr 2
    · intro e he hk
      simp only [List.mem_append, List.mem_map] at he
      rcases he with he | he | ⟨q, hq', rfl⟩
      · exact hb.nonfile e (List.mem_append_left _ he) hk
      · exact hb.nonfile e (List.mem_append_right _ he) hk
      · obtain ⟨a, b, e0⟩ := q
        exact absurd (hb.queueFiles _ hq') hk

theorem combinerPush_runs {s : Store} {wr : Writer} {grp : List SrcEntry} {bytes : Nat}
    (hb : BInv H o s wr grp bytes) (sf : SrcEntry) (hk : sf.kind = .file)
    (hB : bytes + sf.size < 18446744073709551616) :
    ∃ s' wr', RunsAt (combinerPush H o wr sf) s (.ok (wr', .ok ())) s' [] ∧
      BInv H o s' wr' (grp ++ [sf]) (bytes + sf.size) ∧ Keep s wr s' wr' ∧ wr'.pending = wr.pending := by
  unfold combinerPush
  simp only [Inv.metadataFrom_eq, Prog.pure_def]
  by_cases hd : (sf.content.take sf.size).isEmpty = true
  · simp only [hd, if_true]
    refine ⟨s, _, RunsAt.ret _ _, ?_, ⟨rfl, rfl, rfl, rfl, fun _ _ => rfl⟩, rfl⟩
    refine ⟨hb.st, hb.exAll, ?_, ?_, hb.queueFiles, Nat.le_trans hb.buf (Nat.le_add_right _ _)⟩
    · have hp := hb.perm
      simp only [groupEntries, List.map_append, List.append_assoc, List.map_cons, List.map_nil,
        strip_metaOf] at hp ⊢
      refine List.Perm.trans ?_ (hp.append_right [Inv.metaOf o sf])
      rw [List.append_assoc, List.append_assoc]
      refine List.Perm.append_left _ (List.Perm.append_left _ ?_)
      exact List.perm_append_comm (l₁ := [Inv.metaOf o sf])
    · intro e he hkk
      simp only [List.mem_append, List.mem_singleton] at he
      rcases he with he | he | rfl
      · exact hb.nonfile e (List.mem_append_left _ he) hkk
      · exact hb.nonfile e (List.mem_append_right _ he) hkk
      · rfl
  · simp only [hd, Bool.false_eq_true, if_false]
    have hb2 : BInv H o s
        { wr with buf := wr.buf ++ sf.content.take sf.size,
                  queue := wr.queue ++ [(wr.buf.length, (sf.content.take sf.size).length, Inv.metaOf o sf)],
                  stats := { wr.stats with smallCombinedFiles := wr.stats.smallCombinedFiles + 1 } }
        (grp ++ [sf]) (bytes + sf.size) := by
      refine ⟨hb.st, hb.exAll, ?_, hb.nonfile, ?_, ?_⟩
      · have hp := hb.perm
        simp only [groupEntries, List.map_append, List.append_assoc, List.map_cons, List.map_nil,
          strip_metaOf] at hp ⊢
        have := hp.append_right [Inv.metaOf o sf]
        simpa only [List.append_assoc] using this
      · intro q hq
        simp only [List.mem_append, List.mem_singleton] at hq
        rcases hq with hq | rfl
        · exact hb.queueFiles q hq
        · exact hk
      · have h1 := hb.buf
        have h2 : (sf.content.take sf.size).length ≤ sf.size := by
          rw [List.length_take]; exact Nat.min_le_left _ _
        simp only [List.length_append]
        omega
    split
    · obtain ⟨s', wr', hr, hb', hkeep, _, hp⟩ := combinerFlush_runs hb2 hB
      exact ⟨s', wr', hr, hb', ⟨hkeep.band, hkeep.sequence, hkeep.hunksWritten, hkeep.errors, hkeep.frame⟩, hp⟩
    · exact ⟨s, _, RunsAt.ret _ _, hb2, ⟨rfl, rfl, rfl, rfl, fun _ _ => rfl⟩, rfl⟩

/-! ### `store_file_content` -/

theorem storeChunks_runs (cs : List Str) : ∀ {s : Store} (wr : Writer) (acc : List Addr), StoreOK H s →
    ExAll s wr.exists_ → (∀ c ∈ cs, c.length < 18446744073709551616) →
    ∃ s' ex' st' addrs, RunsAt (storeChunks H wr cs acc) s
        (.ok ({ wr with exists_ := ex', stats := st' }, .ok addrs)) s' [] ∧
      StoreOK H s' ∧ ExAll s' ex' ∧ st'.errors = wr.stats.errors ∧
      (∀ k, isBlockish k = false → s'.get? k = s.get? k) := by
  induction cs with
  | nil =>
    intro s wr acc hst hex _
    exact ⟨s, wr.exists_, wr.stats, acc, RunsAt.ret _ _, hst, hex, rfl, fun _ _ => rfl⟩
  | cons c cs ih =>
    intro s wr acc hst hex hcs
    obtain ⟨s1, ex1, st1, hr1, hst1, hex1, herr1, hfr1⟩ :=
      storeOrDedup_runs (H := H) wr c hst hex (hcs c (List.mem_cons_self ..))
    obtain ⟨s2, ex2, st2, addrs, hr2, hst2, hex2, herr2, hfr2⟩ :=
      ih (s := s1) { wr with exists_ := ex1, stats := st1 }
        (acc ++ [{ hash := H c, start := 0, len := c.length }]) hst1 hex1
        (fun c' hc' => hcs c' (List.mem_cons_of_mem _ hc'))
    refine ⟨s2, ex2, st2, addrs, ?_, hst2, hex2, herr2.trans herr1, fun k hk => (hfr2 k hk).trans (hfr1 k hk)⟩
    unfold storeChunks
    simp only [Prog.bind_def]
    exact RunsAt.bind0 hr1 hr2

theorem length_le_flatten {α : Type} {L : List (List α)} {c : List α} (h : c ∈ L) :
    c.length ≤ L.flatten.length := by
  induction L with
  | nil => cases h
  | cons x L ih =>
    simp only [List.flatten_cons, List.length_append]
    rcases List.mem_cons.mp h with rfl | h
    · omega
    · have := ih h; omega

theorem storeFileContent_runs {s : Store} (wr : Writer) (sf : SrcEntry) (hmax : 0 < o.maxBlockSize)
    (hst : StoreOK H s) (hex : ExAll s wr.exists_) (hsz : sf.content.length < 18446744073709551616) :
    ∃ s' ex' st' addrs, RunsAt (storeFileContent H o wr sf) s
        (.ok ({ wr with exists_ := ex', stats := st' }, .ok addrs)) s' [] ∧
      StoreOK H s' ∧ ExAll s' ex' ∧ st'.errors = wr.stats.errors ∧
      (∀ k, isBlockish k = false → s'.get? k = s.get? k) := by
  obtain ⟨s', ex', st', addrs, hr, hst', hex', herr, hfr⟩ :=
    storeChunks_runs (H := H) (chunks o.maxBlockSize sf.content) wr [] hst hex (by
      intro c hc
      have := length_le_flatten hc
      rw [C01.chunks_flatten _ hmax] at this
      omega)
  unfold storeFileContent
  simp only [Prog.bind_def, Prog.pure_def]
  refine ⟨s', ex', _, addrs, RunsAt.bind0 hr (RunsAt.ret _ _), hst', hex', ?_, hfr⟩
  simp only
  rw [← herr]
  split <;> rfl

/-! ### `copy_file`, `copy_entry` -/

theorem copyFileStore_runs {s : Store} {wr : Writer} {grp : List SrcEntry} {bytes : Nat}
    (hb : BInv H o s wr grp bytes) (ck : ChangeKind) (sf : SrcEntry) (hk : sf.kind = .file)
    (hwf : sf.size = sf.content.length) (hmax : 0 < o.maxBlockSize)
    (hB : bytes + sf.size < 18446744073709551616) :
    ∃ s' wr', RunsAt (Inv.copyFileStore H o wr ck sf) s (.ok (wr', .ok (some ck))) s' [] ∧
      BInv H o s' wr' (grp ++ [sf]) (bytes + sf.size) ∧ Keep s wr s' wr' := by
  unfold Inv.copyFileStore
  simp only [Inv.metadataFrom_eq, Prog.pure_def, Prog.bind_def]
  have hkm : (Inv.metaOf o sf).kind = .file := hk
  split
  · refine ⟨s, _, RunsAt.ret _ _, ?_, ⟨rfl, rfl, rfl, rfl, fun _ _ => rfl⟩⟩
    exact (hb.pushPending (e := Inv.metaOf o sf) rfl (fun _ => rfl) _).mono_bytes (Nat.le_add_right _ _)
  · split
    · obtain ⟨s', wr', hr, hb', hkeep, _⟩ := combinerPush_runs hb sf hk hB
      exact ⟨s', wr', RunsAt.bind0 hr (RunsAt.ret _ _), hb', hkeep⟩
    · obtain ⟨s', ex', st', addrs, hr, hst', hex', herr, hfr⟩ :=
        storeFileContent_runs (H := H) (o := o) wr sf hmax hb.st hb.exAll (by omega)
      refine ⟨s', _, RunsAt.bind0 hr (RunsAt.ret _ _), ?_, ⟨rfl, rfl, rfl, herr, hfr⟩⟩
      have hb1 : BInv H o s' { wr with exists_ := ex', stats := st' } grp bytes :=
        ⟨hst', hex', hb.perm, hb.nonfile, hb.queueFiles, hb.buf⟩
      exact (hb1.pushPending (e := { Inv.metaOf o sf with addrs := addrs }) rfl
        (fun h => absurd hkm h) st').mono_bytes (Nat.le_add_right _ _)

theorem heuristicallyUnchanged_ne_none {sf : SrcEntry} {b : IndexEntry}
    (h : (entryTimeNs b.mtime b.mtimeNanos).isSome = true) : heuristicallyUnchanged sf b ≠ none := by
  unfold heuristicallyUnchanged
  split
  · simp
  · cases ht : entryTimeNs b.mtime b.mtimeNanos with
    | none => simp [ht] at h
    | some t => simp

theorem copyFile_runs {s : Store} {wr : Writer} {grp : List SrcEntry} {bytes : Nat}
    (hb : BInv H o s wr grp bytes) (basis : Option IndexEntry) (sf : SrcEntry) (hk : sf.kind = .file)
    (hwf : sf.size = sf.content.length) (hmax : 0 < o.maxBlockSize)
    (hB : bytes + sf.size < 18446744073709551616)
    (hbasis : ∀ b, basis = some b → (entryTimeNs b.mtime b.mtimeNanos).isSome = true) :
    ∃ s' wr' ck, RunsAt (copyFile H o wr basis sf) s (.ok (wr', .ok (some ck))) s' [] ∧
      BInv H o s' wr' (grp ++ [sf]) (bytes + sf.size) ∧ Keep s wr s' wr' := by
  have store : ∀ (st' : Stats) (ck : ChangeKind), st'.errors = wr.stats.errors →
      ∃ s' wr' ck', RunsAt (Inv.copyFileStore H o { wr with stats := st' } ck sf) s
          (.ok (wr', .ok (some ck'))) s' [] ∧
        BInv H o s' wr' (grp ++ [sf]) (bytes + sf.size) ∧ Keep s wr s' wr' := by
    intro st' ck herr
    obtain ⟨s', wr', hr, hb', hkeep⟩ := copyFileStore_runs (hb.setStats st') ck sf hk hwf hmax hB
    exact ⟨s', wr', ck, hr, hb', ⟨hkeep.band, hkeep.sequence, hkeep.hunksWritten, hkeep.errors.trans herr,
      hkeep.frame⟩⟩
  cases basis with
  | none => rw [Inv.copyFile_none]; refine store _ _ ?_; rfl
  | some b =>
    cases hh : heuristicallyUnchanged sf b with
    | none => exact absurd hh (heuristicallyUnchanged_ne_none (hbasis b rfl))
    | some t =>
      cases t with
      | false => rw [Inv.copyFile_changed o wr b sf hh]; refine store _ _ ?_; rfl
      | true =>
        cases hall : b.addrs.all (fun a => wr.exists_.contains a.hash) with
        | false => rw [Inv.copyFile_damaged o wr b sf hh hall]; refine store _ _ ?_; rfl
        | true =>
          have heq : ∃ st' ck, copyFile H o wr (some b) sf =
              .ret ({ wr with pending := wr.pending ++ [{ Inv.metaOf o sf with addrs := b.addrs }],
                              stats := st' }, .ok (some ck)) ∧ st'.errors = wr.stats.errors := by
            unfold copyFile
            simp only [hh, hall, Inv.metadataFrom_eq]
            exact ⟨_, _, rfl, rfl⟩
          obtain ⟨st', ck, heq, herr⟩ := heq
          rw [heq]
          refine ⟨s, _, ck, RunsAt.ret _ _, ?_, ⟨rfl, rfl, rfl, herr, fun _ _ => rfl⟩⟩
          have hkm : (Inv.metaOf o sf).kind = .file := hk
          exact (hb.pushPending (e := { Inv.metaOf o sf with addrs := b.addrs }) rfl
            (fun h => absurd hkm h) st').mono_bytes (Nat.le_add_right _ _)

theorem copyEntry_runs {s : Store} {wr : Writer} {grp : List SrcEntry} {bytes : Nat}
    (hb : BInv H o s wr grp bytes) (basis : Option IndexEntry) (sf : SrcEntry) (hkind : sf.kind ≠ .unknown)
    (hwf : sf.kind = .file → sf.size = sf.content.length) (hmax : 0 < o.maxBlockSize)
    (hB : bytes + sf.size < 18446744073709551616)
    (hbasis : ∀ b, basis = some b → (entryTimeNs b.mtime b.mtimeNanos).isSome = true) :
    ∃ s' wr' ch, RunsAt (copyEntry H o wr basis sf) s (.ok (wr', .ok ch)) s' [] ∧
      BInv H o s' wr' (grp ++ [sf]) (bytes + sf.size) ∧ Keep s wr s' wr' := by
  unfold copyEntry
  simp only [Inv.metadataFrom_eq, Prog.pure_def]
  cases hk : sf.kind with
  | file =>
    obtain ⟨s', wr', ck, hr, hb', hkeep⟩ := copyFile_runs hb basis sf hk (hwf hk) hmax hB hbasis
    exact ⟨s', wr', some ck, hr, hb', hkeep⟩
  | dir =>
    refine ⟨s, _, none, RunsAt.ret _ _, ?_, ⟨rfl, rfl, rfl, rfl, fun _ _ => rfl⟩⟩
    exact (hb.pushPending (e := Inv.metaOf o sf) rfl (fun _ => rfl) _).mono_bytes (Nat.le_add_right _ _)
  | symlink =>
    refine ⟨s, _, none, RunsAt.ret _ _, ?_, ⟨rfl, rfl, rfl, rfl, fun _ _ => rfl⟩⟩
    exact (hb.pushPending (e := Inv.metaOf o sf) rfl (fun _ => rfl) _).mono_bytes (Nat.le_add_right _ _)
  | unknown => exact absurd hk hkind

end Conserve.Exact
