import ConserveModel.Proofs.FaultSim
/-
A fault list that is "spent": every injected fault names an attempt number that already lies in the
past of the trace.  From such a world on, no operation can hit a fault (`unfaulted_of_spent`), so the
run is the fault-free run (`Fault.sim`).  Used to exhibit worlds in which a fault DOES fire, is swallowed
by the implementation, and the backup still — correctly — reports success.
No property statements here.
-/
namespace Conserve.Fault
open Conserve Prog

/-- Every fault of the list refers to an attempt that has already happened. -/
def Spent (w : World) : Prop :=
  ∀ f ∈ w.faults, f.at_.nth < w.occurrences f.at_.verb f.at_.key

theorem Spent.faultFor {w : World} (h : Spent w) (o : Op) : w.faultFor o = none := by
  unfold World.faultFor
  simp only [Option.map_eq_none_iff, List.find?_eq_none]
  intro f hf hp
  simp only [Bool.and_eq_true, beq_iff_eq] at hp
  have := h f hf
  rw [hp.1.1, hp.1.2, hp.2] at this
  exact absurd this (Nat.lt_irrefl _)

theorem occurrences_cons_le (w : World) (ev : TraceEv) (v : Verb) (k : Key) :
    w.occurrences v k ≤ ({ w with trace := ev :: w.trace } : World).occurrences v k := by
  unfold World.occurrences
  simp only [List.filter_cons]
  split <;> simp

theorem Spent.exec {w : World} (hl : Live w) (h : Spent w) (o : Op) : Spent (w.exec o).1 := by
  rw [exec_live hl (h.faultFor o)]
  intro f hf
  exact Nat.lt_of_lt_of_le (h f hf) (occurrences_cons_le _ _ _ _)

/-- From a live world whose faults are all spent, nothing can hit a fault any more. -/
theorem unfaulted_of_spent {α : Type} (p : Prog α) : ∀ {w : World}, Live w → Spent w → Unfaulted p w := by
  induction p with
  | ret a => intro _ _ _; trivial
  | fail e => intro _ _ _; trivial
  | panic s => intro _ _ _; trivial
  | emit ev k ih => intro w hl hs; exact ih (w := { w with events := ev :: w.events }) (hl.events _) hs
  | op o k ih => intro w hl hs; exact ⟨hs.faultFor o, ih _ (hl.exec o) (hs.exec hl o)⟩

end Conserve.Fault
