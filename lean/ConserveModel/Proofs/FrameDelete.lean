import ConserveModel.Proofs.FrameOps
/-
Which operations `delete_bands` can issue: everything `CreateOnly`, plus exactly three kinds of
removal — the directory of a requested version, a block file, and the gc lock file.
-/
namespace Conserve
open Prog

/-- Operations `deleteBands _ D _` may issue, with a side condition `Q` on the blocks removed:
anything `CreateOnly`, `removeDirAll` of the directory of a version in `D`, `removeFile` of the gc
lock, `removeFile` of a block `h` with `Q h`. -/
def DeleteOpQ (D : List Nat) (Q : Str → Prop) : Op → Prop
  | .removeDirAll k => ∃ b, b ∈ D ∧ k = .bandDir b
  | .removeFile k => k = .gcLock ∨ ∃ h, k = .block h ∧ Q h
  | o => CreateOnly o

/-- Operations `deleteBands _ D _` may issue. -/
def DeleteOp (D : List Nat) : Op → Prop := DeleteOpQ D (fun _ => True)

theorem CreateOnly.deleteOpQ {D : List Nat} {Q : Str → Prop} {o : Op} (h : CreateOnly o) : DeleteOpQ D Q o := by
  cases o <;> simp_all [CreateOnly, DeleteOpQ]

theorem DeleteOpQ.mono {D D' : List Nat} {Q Q' : Str → Prop} (hD : ∀ b ∈ D, b ∈ D') (hQ : ∀ h, Q h → Q' h)
    {o : Op} (h : DeleteOpQ D Q o) : DeleteOpQ D' Q' o := by
  cases o with
  | removeDirAll k => obtain ⟨b, hb, rfl⟩ := h; exact ⟨b, hD b hb, rfl⟩
  | removeFile k =>
    rcases h with h | ⟨x, rfl, hx⟩
    · exact .inl h
    · exact .inr ⟨x, rfl, hQ x hx⟩
  | read k => exact h
  | write k v m => exact h
  | listDir k => exact h
  | createDir k => exact h
  | metadata k => exact h

/-- Reading the predicate: what a removal can be. -/
theorem DeleteOpQ.removeFile_iff {D : List Nat} {Q : Str → Prop} {k : Key} :
    DeleteOpQ D Q (.removeFile k) ↔ (k = .gcLock ∨ ∃ h, k = .block h ∧ Q h) := Iff.rfl

theorem DeleteOpQ.removeDirAll_iff {D : List Nat} {Q : Str → Prop} {k : Key} :
    DeleteOpQ D Q (.removeDirAll k) ↔ ∃ b, b ∈ D ∧ k = .bandDir b := Iff.rfl

theorem DeleteOpQ.overwrite_false {D : List Nat} {Q : Str → Prop} {k : Key} {v : FileVal} :
    ¬ DeleteOpQ D Q (.write k v .overwrite) := by
  simp [DeleteOpQ, CreateOnly]

theorem Prog.AllOps.ro_del {α : Type} {D : List Nat} {Q : Str → Prop} {p : Prog α} (h : Prog.AllOps ReadOnly p) :
    Prog.AllOps (DeleteOpQ D Q) p := h.mono fun _ h => h.createOnly.deleteOpQ
theorem Prog.AllOps.bk_del {α : Type} {D : List Nat} {Q : Str → Prop} {p : Prog α} (h : Prog.AllOps BackupOp p) :
    Prog.AllOps (DeleteOpQ D Q) p := h.mono fun _ h => h.createOnly.deleteOpQ

theorem bandHunkEntries_ro (strict : Bool) (b : Nat) (ns : List Nat) :
    AllOps ReadOnly (bandHunkEntries strict b ns) := by
  induction ns with
  | nil => unfold bandHunkEntries; allops
  | cons n ns ih => unfold bandHunkEntries; allops [readHunk_ro, ih]

theorem referencedBlocks_ro (strict : Bool) (bs : List Nat) : AllOps ReadOnly (referencedBlocks strict bs) := by
  induction bs with
  | nil => unfold referencedBlocks; allops
  | cons b bs ih =>
    unfold referencedBlocks
    allops [bandOpen_ro, hunksAvailable_ro, iterAvailableHunks_ro, bandHunkEntries_ro, ih]

theorem gcLockCheck_ro (held : Option Nat) : AllOps ReadOnly (gcLockCheck held) := by
  unfold gcLockCheck; allops [lastBandId_ro]

/-- Taking the lock only creates (`GC_LOCK`, `CreateNew`). -/
theorem gcLockNew_bk : AllOps BackupOp gcLockNew := by
  unfold gcLockNew
  allops [lastBandId_ro, bandIsClosed_ro, unwrapOr_allOps, isFile_ro, performUnit_allOps]

section
variable {D : List Nat} {Q : Str → Prop}

theorem gcBreakLock_del : AllOps (DeleteOpQ D Q) gcBreakLock := by
  unfold gcBreakLock
  have h1 : AllOps (DeleteOpQ D Q) gcIsLocked := gcIsLocked_ro.ro_del
  have h2 : AllOps (DeleteOpQ D Q) gcLockNew := gcLockNew_bk.bk_del
  have h3 : DeleteOpQ D Q (.removeFile .gcLock) := by simp [DeleteOpQ]
  allops [performUnit_allOps]

theorem gcLockRelease_del : AllOps (DeleteOpQ D Q) gcLockRelease := by
  unfold gcLockRelease
  exact performUnit_allOps (by simp [DeleteOpQ])

theorem gcLockDrop_del : AllOps (DeleteOpQ D Q) gcLockDrop := by
  unfold gcLockDrop
  have h3 : DeleteOpQ D Q (.removeFile .gcLock) := by simp [DeleteOpQ]
  allops

theorem gcLockReleaseOnError_del : AllOps (DeleteOpQ D Q) gcLockReleaseOnError := by
  unfold gcLockReleaseOnError
  have h3 : DeleteOpQ D Q (.removeFile .gcLock) := by simp [DeleteOpQ]
  have h4 : AllOps (DeleteOpQ D Q) gcLockDrop := gcLockDrop_del
  allops

theorem bandDelete_del {b : Nat} (hb : b ∈ D) : AllOps (DeleteOpQ D Q) (bandDelete b) := by
  unfold bandDelete
  have h : DeleteOpQ D Q (.removeDirAll (.bandDir b)) := ⟨b, hb, rfl⟩
  allops

theorem deleteBody_measure_ro (hs : List Str) : AllOps ReadOnly (deleteBody.measure hs) := by
  induction hs with
  | nil => unfold deleteBody.measure; allops
  | cons h hs ih => unfold deleteBody.measure; allops [ih]

theorem deleteBody_delBands_del (bs : List Nat) (n : Nat) (hbs : ∀ b ∈ bs, b ∈ D) :
    AllOps (DeleteOpQ D Q) (deleteBody.delBands bs n) := by
  induction bs generalizing n with
  | nil => unfold deleteBody.delBands; allops
  | cons b bs ih =>
    unfold deleteBody.delBands
    have h1 := bandDelete_del (D := D) (Q := Q) (hbs b (by simp))
    have h2 := fun n => ih n (fun b' hb' => hbs b' (by simp [hb']))
    allops [h2]

theorem deleteBody_delBlocks_del (hs : List Str) (errs : Nat) (hhs : ∀ h ∈ hs, Q h) :
    AllOps (DeleteOpQ D Q) (deleteBody.delBlocks hs errs) := by
  induction hs generalizing errs with
  | nil => unfold deleteBody.delBlocks; allops
  | cons h hs ih =>
    unfold deleteBody.delBlocks
    have h1 : DeleteOpQ D Q (.removeFile (.block h)) := .inr ⟨h, rfl, hhs h (by simp)⟩
    have h2 := fun n => ih n (fun h' hh' => hhs h' (by simp [hh']))
    allops [h2]

/-- `deleteBody` = list the versions; collect the blocks the kept ones reference; list the blocks
present; then a tail that removes only blocks that were listed as present and not collected as
referenced (besides the requested versions' directories and the lock). -/
theorem deleteBody_decomp (strict : Bool) (D : List Nat) (o : DeleteOpts) (held : Option Nat) :
    ∃ tail : List Str → List Str → Prog DeleteStats,
      deleteBody strict D o held = (listBandIds.bind fun all =>
        (referencedBlocks strict (all.filter fun b => !D.contains b)).bind fun referenced =>
          listBlocks.bind fun present => tail referenced present) ∧
      ∀ referenced present,
        AllOps (DeleteOpQ D (fun h => h ∈ present ∧ h ∉ referenced)) (tail referenced present) := by
  refine ⟨?tail, ?eq, ?ops⟩
  case eq =>
    unfold deleteBody
    simp only [Prog.bind_def, Prog.pure_def]
    rfl
  case ops =>
    intro referenced present
    have h4 := fun hs => (deleteBody_measure_ro hs).ro_del (D := D) (Q := fun h => h ∈ present ∧ h ∉ referenced)
    have h5 : AllOps (DeleteOpQ D (fun h => h ∈ present ∧ h ∉ referenced)) (gcLockCheck held) :=
      (gcLockCheck_ro held).ro_del
    have h6 := fun n => deleteBody_delBands_del (D := D) (Q := fun h => h ∈ present ∧ h ∉ referenced) D n (fun _ h => h)
    have h7 := fun n => deleteBody_delBlocks_del (D := D) (Q := fun h => h ∈ present ∧ h ∉ referenced)
      ((present.filter fun h => !referenced.contains h).mergeSort strLe) n
      (by
        intro h hh
        have := List.mem_mergeSort.mp hh
        simp only [List.mem_filter, Bool.not_eq_eq_eq_not, Bool.not_true, List.contains_eq_mem,
          decide_eq_false_iff_not] at this
        exact this)
    allops [h4, h6, h7, gcLockRelease_del]

theorem deleteBody_del (strict : Bool) (o : DeleteOpts) (held : Option Nat) :
    AllOps (DeleteOp D) (deleteBody strict D o held) := by
  obtain ⟨tail, heq, hops⟩ := deleteBody_decomp strict D o held
  rw [heq]
  refine AllOps.bind listBandIds_ro.ro_del fun all => ?_
  refine AllOps.bind (referencedBlocks_ro strict _).ro_del fun referenced => ?_
  refine AllOps.bind listBlocks_ro.ro_del fun present => ?_
  exact (hops referenced present).mono fun _ h => h.mono (fun _ h => h) (fun _ _ => trivial)

/-- Every operation `deleteBands strict D o` can issue, in any world, is `CreateOnly` or one of:
`removeDirAll (bandDir b)` with `b ∈ D`, `removeFile (block h)`, `removeFile gcLock`. -/
theorem deleteBands_del (strict : Bool) (o : DeleteOpts) :
    AllOps (DeleteOp D) (deleteBands strict D o) := by
  unfold deleteBands
  have h1 : AllOps (DeleteOp D) gcLockNew := gcLockNew_bk.bk_del
  have h2 : AllOps (DeleteOp D) gcBreakLock := gcBreakLock_del
  have h3 : AllOps (DeleteOp D) gcLockDrop := gcLockDrop_del
  have h3' : AllOps (DeleteOp D) gcLockReleaseOnError := gcLockReleaseOnError_del
  allops [deleteBody_del]

end

end Conserve
