import ConserveModel.Proofs.ExactBlock
import ConserveModel.Proofs.Diff
/-
The index writer on a fault-free world: `finish_hunk` and `flush_group` succeed, each hunk written
is EXACTLY the contiguous segment of the (strictly increasing) source listing recorded since the
previous hunk, and the main loop of `backup()` records every source entry once, in order.
No property statements here.
-/
set_option linter.unusedSimpArgs false
namespace Conserve.Exact
open Conserve Prog

/-! ### `performUnit` -/

theorem RunsAt.performUnit_createDir {s : Store} {k : Key} (habs : s.get? k = none)
    (hp : s.parentOk k = true) : RunsAt (performUnit (.createDir k)) s (.ok ()) (s.put k .dir) [] := by
  simp only [performUnit, perform, Prog.bind_def, Prog.op_bind, Prog.ret_bind]
  exact RunsAt.op_createDir habs hp (RunsAt.ret _ _)

theorem RunsAt.performUnit_write {s : Store} {k : Key} {v : FileVal} (hp : s.parentOk k = true)
    (habs : s.get? k = none ∨ s.get? k = some .empty) :
    RunsAt (performUnit (.write k v .createNew)) s (.ok ()) (s.put k v) [] := by
  simp only [performUnit, perform, Prog.bind_def, Prog.op_bind, Prog.ret_bind]
  exact RunsAt.op_write hp habs (RunsAt.ret _ _)

/-! ### Sorting a group gives back the segment -/

theorem pairwise_lt_inj {α : Type} {f : α → Str} {l : List α}
    (h : l.Pairwise fun a b => apathCmp (f a) (f b) = .lt) :
    ∀ x ∈ l, ∀ y ∈ l, f x = f y → x = y := by
  induction l with
  | nil => intro x hx; cases hx
  | cons a l ih =>
    rw [List.pairwise_cons] at h
    intro x hx y hy hxy
    rcases List.mem_cons.mp hx with h1 | hx' <;> rcases List.mem_cons.mp hy with h2 | hy'
    · rw [h1, h2]
    · subst h1; exact absurd (hxy ▸ h.1 y hy') (C11.cmp_irrefl _)
    · subst h2; exact absurd (hxy ▸ h.1 x hx') (C11.cmp_irrefl _)
    · exact ih h.2 x hx' y hy' hxy

theorem apathLe_of_lt {a b : Str} (h : apathCmp a b = .lt) : apathLe a b = true := by
  simp [apathLe, h]

theorem apath_eq_of_le_le {a b : Str} (h1 : apathLe a b = true) (h2 : apathLe b a = true) : a = b := by
  rw [← C11.cmp_eq_iff]
  unfold apathLe at h1 h2
  have := C11.cmp_swap a b
  cases hc : apathCmp a b <;> cases hc' : apathCmp b a <;> simp_all

/-- `mergeSort` of the entries recorded for a contiguous segment of a strictly increasing source
listing is that segment, in order. -/
theorem sorted_segment {o : BackupOpts} {P : List IndexEntry} {grp : List SrcEntry}
    (hp : (P.map strip).Perm (grp.map (Inv.metaOf o)))
    (hs : (grp.map (·.apath)).Pairwise fun a b => apathCmp a b = .lt) :
    (P.mergeSort fun a b => apathLe a.apath b.apath).map strip = grp.map (Inv.metaOf o) := by
  have hs' : grp.Pairwise fun a b => apathCmp a.apath b.apath = .lt := by
    rwa [List.pairwise_map] at hs
  have hperm : ((P.mergeSort fun a b => apathLe a.apath b.apath).map strip).Perm (grp.map (Inv.metaOf o)) :=
    ((List.mergeSort_perm P _).map strip).trans hp
  refine List.Perm.eq_of_pairwise (le := fun a b : IndexEntry => apathLe a.apath b.apath = true) ?_ ?_ ?_ hperm
  · intro a b ha hb h1 h2
    have hab : a.apath = b.apath := apath_eq_of_le_le h1 h2
    have ha' := hperm.mem_iff.mp ha
    obtain ⟨sa, hsa, rfl⟩ := List.mem_map.mp ha'
    obtain ⟨sb, hsb, rfl⟩ := List.mem_map.mp hb
    have : sa = sb := pairwise_lt_inj hs' sa hsa sb hsb hab
    rw [this]
  · rw [List.pairwise_map]
    exact List.pairwise_mergeSort (le := fun a b : IndexEntry => apathLe a.apath b.apath)
      (fun a b c => DM.apathLe_trans a.apath b.apath c.apath) (fun a b => DM.apathLe_total a.apath b.apath) P
  · rw [List.pairwise_map]
    exact hs'.imp fun h => apathLe_of_lt h

/-! ### The new version's part of the store -/

/-- The keys of the version being written, while `hs` are the hunks written so far. -/
structure BandInv (nb : Nat) (s : Store) (hs : List (List IndexEntry)) : Prop where
  hunk : ∀ n, s.get? (.hunk nb n) = (hs[n]?).map FileVal.hunk
  hunkDir : ∀ d, s.get? (.hunkDir nb d) = if d * hunksPerSubdir < hs.length then some .dir else none
  indexDir : s.get? (.indexDir nb) = some .dir
  bandDir : s.get? (.bandDir nb) = some .dir
  head : s.get? (.bandHead nb) = some (.head .ok [])
  tail : s.get? (.bandTail nb) = none

theorem BandInv.of_frame {nb : Nat} {s s' : Store} {hs : List (List IndexEntry)} (h : BandInv nb s hs)
    (hf : ∀ k, isBlockish k = false → s'.get? k = s.get? k) : BandInv nb s' hs :=
  ⟨fun n => (hf _ rfl).trans (h.hunk n), fun d => (hf _ rfl).trans (h.hunkDir d),
   (hf _ rfl).trans h.indexDir, (hf _ rfl).trans h.bandDir, (hf _ rfl).trans h.head, (hf _ rfl).trans h.tail⟩

/-- The invariant of the main loop.  `hs`: hunks written so far; `pre`: the source entries they hold;
`grp`: the source entries recorded since; `s0`: the store before the version was created. -/
structure LInv (H : Str → Str) (o : BackupOpts) (nb : Nat) (s0 s : Store) (wr : Writer)
    (hs : List (List IndexEntry)) (pre grp : List SrcEntry) (bytes : Nat) : Prop where
  b : BInv H o s wr grp bytes
  band : wr.band = nb
  seq : wr.sequence = hs.length
  hw : wr.hunksWritten = hs.length
  bi : BandInv nb s hs
  errors : wr.stats.errors = 0
  shape : hs.flatten.map strip = pre.map (Inv.metaOf o)
  hsNonfile : ∀ e ∈ hs.flatten, e.kind ≠ .file → e.addrs = []
  frame : ∀ k, newKey nb k = false → s.get? k = s0.get? k

variable {H : Str → Str} {o : BackupOpts} {nb : Nat} {s0 : Store}

theorem newKey_false_not_blockish {nb : Nat} {k : Key} (h : newKey nb k = false) : isBlockish k = false := by
  simp only [newKey, Bool.or_eq_false_iff] at h
  exact h.2

/-- A block-level step keeps the loop invariant. -/
theorem LInv.step {s s' : Store} {wr wr' : Writer} {hs : List (List IndexEntry)} {pre grp grp' : List SrcEntry}
    {bytes bytes' : Nat} (h : LInv H o nb s0 s wr hs pre grp bytes) (hb : BInv H o s' wr' grp' bytes')
    (hk : Keep s wr s' wr') : LInv H o nb s0 s' wr' hs pre grp' bytes' :=
  ⟨hb, hk.band.trans h.band, hk.sequence.trans h.seq, hk.hunksWritten.trans h.hw, h.bi.of_frame hk.frame,
   hk.errors.trans h.errors, h.shape, h.hsNonfile,
   fun k hkk => (hk.frame k (newKey_false_not_blockish hkk)).trans (h.frame k hkk)⟩

theorem getElem?_snoc {α : Type} (l : List α) (a : α) (n : Nat) :
    (l ++ [a])[n]? = if n = l.length then some a else l[n]? := by
  by_cases h : n = l.length
  · subst h; simp
  · simp only [h, if_false]
    by_cases hlt : n < l.length
    · rw [List.getElem?_append_left hlt]
    · have h1 : l.length < n := by omega
      rw [List.getElem?_eq_none (by simp; omega), List.getElem?_eq_none (by omega)]

/-- `finish_hunk` once the combiner is drained. -/
theorem finishHunk_runs {s : Store} {wr : Writer} {hs : List (List IndexEntry)} {pre grp : List SrcEntry}
    {bytes : Nat} (hl : LInv H o nb s0 s wr hs pre grp bytes) (hq : wr.queue = []) (hf : wr.finished = [])
    (hsorted : (grp.map (·.apath)).Pairwise fun a b => apathCmp a b = .lt) :
    ∃ s' wr' hs', RunsAt (finishHunk wr) s (.ok wr') s' [] ∧
      LInv H o nb s0 s' wr' hs' (pre ++ grp) [] bytes ∧
      wr'.pending = [] ∧ wr'.queue = [] ∧ wr'.finished = [] ∧
      (∀ e ∈ hs'.flatten, e ∈ hs.flatten ∨ e ∈ wr.pending) ∧ wr'.exists_ = wr.exists_ := by
  have hperm : (wr.pending.map strip).Perm (grp.map (Inv.metaOf o)) := by
    have := hl.b.perm
    simpa [groupEntries, hq, hf] using this
  unfold finishHunk
  simp only [Prog.bind_def, Prog.pure_def]
  by_cases hp : wr.pending.isEmpty = true
  · simp only [hp, if_true]
    have hpe : wr.pending = [] := by simpa using hp
    have hg : grp = [] := by
      rw [hpe] at hperm
      have := hperm.length_eq
      simpa using this.symm
    subst hg
    exact ⟨s, wr, hs, RunsAt.ret _ _, by simpa using hl, hpe, hq, hf, fun e he => Or.inl he, rfl⟩
  · simp only [hp, Bool.false_eq_true, if_false]
    have hseg := sorted_segment hperm hsorted
    have hband := hl.band
    have hseq := hl.seq
    -- the store in which the hunk file is written: its sub-directory is in place
    have hdirStep : ∃ s1, (∀ (k : Prog Writer) out s' ev, RunsAt k s1 out s' ev →
          RunsAt (if wr.sequence % hunksPerSubdir = 0 then
            (performUnit (.createDir (.hunkDir wr.band (wr.sequence / hunksPerSubdir)))).bind fun _ => k
            else k) s out s' ev) ∧ StoreOK H s1 ∧
        s1.get? (.hunkDir nb (hs.length / hunksPerSubdir)) = some .dir ∧
        (∀ k, k ≠ .hunkDir nb (hs.length / hunksPerSubdir) → s1.get? k = s.get? k) ∧
        (∀ d, s1.get? (.hunkDir nb d) = if d * hunksPerSubdir < hs.length + 1 then some .dir else none) := by
      rw [hband, hseq]
      by_cases hm : hs.length % hunksPerSubdir = 0
      · simp only [hm, if_true]
        have habs : s.get? (.hunkDir nb (hs.length / hunksPerSubdir)) = none := by
          rw [hl.bi.hunkDir]
          have : ¬ (hs.length / hunksPerSubdir * hunksPerSubdir < hs.length) := by
            simp only [hunksPerSubdir] at hm ⊢; omega
          simp [this]
        have hpar : s.parentOk (.hunkDir nb (hs.length / hunksPerSubdir)) = true := by
          simp [Store.parentOk, Key.parent, hl.bi.indexDir]
        refine ⟨_, fun k out s' ev hk => RunsAt.bind0 (RunsAt.performUnit_createDir habs hpar) hk, ?_,
          by simp [get?_put], fun k hk => by simp [get?_put, hk], ?_⟩
        · exact hl.b.st.put hpar (Or.inl habs) (by simp [kindOk, isDirKey, FileVal.isDir])
            (fun _ hk => by cases hk)
        · intro d
          rw [get?_put]
          by_cases hd : d = hs.length / hunksPerSubdir
          · subst hd
            have : hs.length / hunksPerSubdir * hunksPerSubdir < hs.length + 1 := by
              simp only [hunksPerSubdir] at hm ⊢; omega
            simp [this]
          · have hne : Key.hunkDir nb d ≠ Key.hunkDir nb (hs.length / hunksPerSubdir) := by
              intro e; cases e; exact hd rfl
            simp only [hne, if_false, hl.bi.hunkDir]
            have : (d * hunksPerSubdir < hs.length + 1) ↔ (d * hunksPerSubdir < hs.length) := by
              simp only [hunksPerSubdir] at hm hd ⊢; omega
            simp [this]
      · simp only [hm, if_false]
        have hdir : s.get? (.hunkDir nb (hs.length / hunksPerSubdir)) = some .dir := by
          rw [hl.bi.hunkDir]
          have : hs.length / hunksPerSubdir * hunksPerSubdir < hs.length := by
            simp only [hunksPerSubdir] at hm ⊢; omega
          simp [this]
        refine ⟨s, fun k out s' ev hk => hk, hl.b.st, hdir, fun _ _ => rfl, ?_⟩
        intro d
        rw [hl.bi.hunkDir]
        have : (d * hunksPerSubdir < hs.length + 1) ↔ (d * hunksPerSubdir < hs.length) := by
          simp only [hunksPerSubdir] at hm ⊢; omega
        simp [this]
    obtain ⟨s1, hr1, hst1, hdir1, hsame1, hdirs1⟩ := hdirStep
    have hhunkKey : ∀ n, s1.get? (.hunk nb n) = (hs[n]?).map FileVal.hunk := fun n =>
      (hsame1 _ (by simp)).trans (hl.bi.hunk n)
    have hpar : s1.parentOk (.hunk nb hs.length) = true := by
      simp [Store.parentOk, Key.parent, hdir1]
    have habs : s1.get? (.hunk nb hs.length) = none := by
      rw [hhunkKey]; simp
    let es := wr.pending.mergeSort fun a b => apathLe a.apath b.apath
    have hst2 : StoreOK H (s1.put (.hunk nb hs.length) (.hunk es)) :=
      hst1.put hpar (Or.inl habs) (by simp [kindOk, isDirKey, FileVal.isDir]) (fun _ hk => by cases hk)
    have hget2 : ∀ k, k ≠ .hunk nb hs.length → k ≠ .hunkDir nb (hs.length / hunksPerSubdir) →
        (s1.put (.hunk nb hs.length) (.hunk es)).get? k = s.get? k := by
      intro k h1 h2
      rw [get?_put]; simp only [h1, if_false]; exact hsame1 k h2
    refine ⟨s1.put (.hunk nb hs.length) (.hunk es),
      { wr with pending := [], sequence := wr.sequence + 1, hunksWritten := wr.hunksWritten + 1 },
      hs ++ [es], ?_, ?_, rfl, hq, hf, ?_, rfl⟩
    rotate_left 2
    · intro e he
      rw [List.flatten_append, List.mem_append] at he
      rcases he with he | he
      · exact Or.inl he
      · simp only [List.flatten_cons, List.flatten_nil, List.append_nil] at he
        exact Or.inr (List.mem_mergeSort.mp he)
    · refine hr1 _ _ _ _ ?_
      refine RunsAt.bind0 (a := ()) ?_ (RunsAt.ret _ _)
      rw [hband, hseq]
      exact RunsAt.performUnit_write hpar (Or.inl habs)
    · refine ⟨⟨hst2, ?_, ?_, ?_, ?_, hl.b.buf⟩, hband, ?_, ?_, ?_, hl.errors, ?_, ?_, ?_⟩
      · intro h hbl
        obtain ⟨v, hg, h1, h2⟩ := hbl
        rw [hget2 _ (by simp) (by simp)] at hg
        exact hl.b.exAll h ⟨v, hg, h1, h2⟩
      · simp [groupEntries, hq, hf]
      · simp [hf]
      · simp [hq]
      · simp [hseq]
      · simp [hl.hw]
      · refine ⟨?_, ?_, ?_, ?_, ?_, ?_⟩
        · intro n
          rw [get?_put, getElem?_snoc]
          by_cases hn : n = hs.length
          · subst hn; simp
          · have : Key.hunk nb n ≠ Key.hunk nb hs.length := by intro e; cases e; exact hn rfl
            simp only [this, hn, if_false]
            exact hhunkKey n
        · intro d
          rw [get?_put]
          simp only [show Key.hunkDir nb d ≠ Key.hunk nb hs.length from (fun e => by cases e), if_false,
            List.length_append, List.length_singleton]
          exact hdirs1 d
        · rw [get?_put]; simp only [show Key.indexDir nb ≠ Key.hunk nb hs.length from (fun e => by cases e),
            if_false]
          exact (hsame1 _ (by simp)).trans hl.bi.indexDir
        · rw [get?_put]; simp only [show Key.bandDir nb ≠ Key.hunk nb hs.length from (fun e => by cases e),
            if_false]
          exact (hsame1 _ (by simp)).trans hl.bi.bandDir
        · rw [get?_put]; simp only [show Key.bandHead nb ≠ Key.hunk nb hs.length from (fun e => by cases e),
            if_false]
          exact (hsame1 _ (by simp)).trans hl.bi.head
        · rw [get?_put]; simp only [show Key.bandTail nb ≠ Key.hunk nb hs.length from (fun e => by cases e),
            if_false]
          exact (hsame1 _ (by simp)).trans hl.bi.tail
      · rw [List.flatten_append, List.map_append, List.map_append, hl.shape]
        simp only [List.flatten_cons, List.flatten_nil, List.append_nil]
        rw [hseg]
      · intro e he hk
        rw [List.flatten_append, List.mem_append] at he
        rcases he with he | he
        · exact hl.hsNonfile e he hk
        · simp only [List.flatten_cons, List.flatten_nil, List.append_nil] at he
          have : e ∈ wr.pending := List.mem_mergeSort.mp he
          exact hl.b.nonfile e (List.mem_append_left _ this) hk
      · intro k hk
        have h1 : k ≠ .hunk nb hs.length := by
          intro e; subst e; simp [newKey, Key.isUnder, Key.parent] at hk
        have h2 : k ≠ .hunkDir nb (hs.length / hunksPerSubdir) := by
          intro e; subst e; simp [newKey, Key.isUnder, Key.parent] at hk
        exact (hget2 k h1 h2).trans (hl.frame k hk)

/-- `flush_group`: drain the combiner, write the hunk. -/
theorem flushGroup_runs {s : Store} {wr : Writer} {hs : List (List IndexEntry)} {pre grp : List SrcEntry}
    {bytes : Nat} (hl : LInv H o nb s0 s wr hs pre grp bytes) (hB : bytes < 18446744073709551616)
    (hsorted : (grp.map (·.apath)).Pairwise fun a b => apathCmp a b = .lt) :
    ∃ s' wr' hs', RunsAt (flushGroup H wr) s (.ok wr') s' [] ∧
      LInv H o nb s0 s' wr' hs' (pre ++ grp) [] bytes ∧
      wr'.pending = [] ∧ wr'.queue = [] ∧ wr'.finished = [] := by
  obtain ⟨s1, wr1, hr1, hb1, hk1, hq1, _⟩ := combinerFlush_runs hl.b hB
  have hl1 := hl.step hb1 hk1
  -- move the combiner's finished entries to `pending`
  have hl2 : LInv H o nb s0 s1 { wr1 with pending := wr1.pending ++ wr1.finished, finished := [] } hs pre grp
      bytes := by
    refine ⟨⟨hb1.st, hb1.exAll, ?_, ?_, hb1.queueFiles, hb1.buf⟩, hl1.band, hl1.seq, hl1.hw, hl1.bi, hl1.errors,
      hl1.shape, hl1.hsNonfile, hl1.frame⟩
    · have := hb1.perm
      simpa [groupEntries] using this
    · intro e he hk
      exact hb1.nonfile e (by simpa using he) hk
  obtain ⟨s2, wr2, hs2, hr2, hl3, h1, h2, h3, _, _⟩ := finishHunk_runs hl2 hq1 rfl hsorted
  refine ⟨s2, wr2, hs2, ?_, hl3, h1, h2, h3⟩
  unfold flushGroup
  simp only [Prog.bind_def]
  exact RunsAt.bind0 hr1 hr2

/-! ### The main loop -/

/-- The source entries of a merged listing, in order. -/
def srcsOf : List Matched → List SrcEntry
  | [] => []
  | .left _ :: ms => srcsOf ms
  | .right sf :: ms => sf :: srcsOf ms
  | .both _ sf :: ms => sf :: srcsOf ms

/-- The basis entry of a merged pair has a representable time (it passed `IndexEntry::check`). -/
def MatchedGood : Matched → Prop
  | .both b _ => (entryTimeNs b.mtime b.mtimeNanos).isSome = true
  | _ => True

def totalSize (l : List SrcEntry) : Nat := (l.map (·.size)).sum

@[simp] theorem totalSize_cons (sf : SrcEntry) (l : List SrcEntry) : totalSize (sf :: l) = sf.size + totalSize l := by
  simp [totalSize]

@[simp] theorem totalSize_nil : totalSize [] = 0 := rfl

/-- What a source entry must satisfy to be recorded without a hitch. -/
def EntryGood (sf : SrcEntry) : Prop :=
  sf.kind ≠ .unknown ∧ (sf.kind = .file → sf.size = sf.content.length)

def NoErrorEvents (evs : List Event) : Prop := ∀ ev ∈ evs, ∀ e, ev ≠ .error e

theorem NoErrorEvents.nil : NoErrorEvents [] := fun _ h => nomatch h

theorem NoErrorEvents.append {a b : List Event} (ha : NoErrorEvents a) (hb : NoErrorEvents b) :
    NoErrorEvents (a ++ b) := fun ev h => by
  rcases List.mem_append.mp h with h | h
  · exact ha ev h
  · exact hb ev h

theorem NoErrorEvents.change (p : Str) (c : ChangeKind) : NoErrorEvents [.change p c] := by
  intro ev h e
  simp only [List.mem_singleton] at h
  subst h
  intro h; cases h

/-- The loop after one entry has been recorded: report it, maybe flush, go on. -/
theorem loopCont_runs (sf : SrcEntry) (rest : List Matched)
    (ih : ∀ (s : Store) (wr : Writer) (hs : List (List IndexEntry)) (pre grp : List SrcEntry) (bytes : Nat),
      LInv H o nb s0 s wr hs pre grp bytes →
      ((grp ++ srcsOf rest).map (·.apath)).Pairwise (fun a b => apathCmp a b = .lt) →
      bytes + totalSize (srcsOf rest) < 18446744073709551616 →
      ∃ s' wr' hs' pre' grp' bytes' evs, RunsAt (backupLoop H o wr rest) s (.ok wr') s' evs ∧
        LInv H o nb s0 s' wr' hs' pre' grp' bytes' ∧ pre' ++ grp' = pre ++ grp ++ srcsOf rest ∧
        bytes' < 18446744073709551616 ∧ NoErrorEvents evs ∧
        (grp'.map (·.apath)).Pairwise (fun a b => apathCmp a b = .lt))
    {s : Store} {wr : Writer} {hs : List (List IndexEntry)} {pre grp : List SrcEntry} {bytes : Nat}
    (hl : LInv H o nb s0 s wr hs pre grp bytes) (ch : Option ChangeKind)
    (hsorted : ((grp ++ srcsOf rest).map (·.apath)).Pairwise fun a b => apathCmp a b = .lt)
    (hB : bytes + totalSize (srcsOf rest) < 18446744073709551616) :
    ∃ s' wr' hs' pre' grp' bytes' evs, RunsAt (Inv.loopCont H o sf rest (wr, .ok ch)) s (.ok wr') s' evs ∧
      LInv H o nb s0 s' wr' hs' pre' grp' bytes' ∧ pre' ++ grp' = pre ++ grp ++ srcsOf rest ∧
      bytes' < 18446744073709551616 ∧ NoErrorEvents evs ∧
      (grp'.map (·.apath)).Pairwise (fun a b => apathCmp a b = .lt) := by
  -- after the report: maybe flush, then the rest of the loop
  have hrest : ∃ s' wr' hs' pre' grp' bytes' evs,
      RunsAt ((if wr.pending.length + wr.queue.length ≥ o.maxEntriesPerHunk then flushGroup H wr
          else Prog.ret wr).bind fun w => backupLoop H o w rest) s (.ok wr') s' evs ∧
      LInv H o nb s0 s' wr' hs' pre' grp' bytes' ∧ pre' ++ grp' = pre ++ grp ++ srcsOf rest ∧
      bytes' < 18446744073709551616 ∧ NoErrorEvents evs ∧
      (grp'.map (·.apath)).Pairwise (fun a b => apathCmp a b = .lt) := by
    split
    · have hsg : (grp.map (·.apath)).Pairwise fun a b => apathCmp a b = .lt := by
        rw [List.map_append] at hsorted
        exact (List.pairwise_append.mp hsorted).1
      obtain ⟨s1, wr1, hs1, hr1, hl1, _, _, _⟩ := flushGroup_runs hl (by omega) hsg
      have hsr : ((([] : List SrcEntry) ++ srcsOf rest).map (·.apath)).Pairwise fun a b => apathCmp a b = .lt := by
        rw [List.map_append] at hsorted
        simpa using (List.pairwise_append.mp hsorted).2.1
      obtain ⟨s', wr', hs', pre', grp', bytes', evs, hr, hl', heq, hb', hne, hsg'⟩ :=
        ih s1 wr1 hs1 (pre ++ grp) [] bytes hl1 hsr hB
      refine ⟨s', wr', hs', pre', grp', bytes', evs, ?_, hl', by simpa using heq, hb', hne, hsg'⟩
      simpa using RunsAt.bind (f := fun w => backupLoop H o w rest) hr1 hr
    · obtain ⟨s', wr', hs', pre', grp', bytes', evs, hr, hl', heq, hb', hne, hsg'⟩ :=
        ih s wr hs pre grp bytes hl hsorted hB
      refine ⟨s', wr', hs', pre', grp', bytes', evs, ?_, hl', heq, hb', hne, hsg'⟩
      simpa using RunsAt.bind (f := fun w => backupLoop H o w rest) (RunsAt.ret wr s) hr
  obtain ⟨s', wr', hs', pre', grp', bytes', evs, hr, hl', heq, hb', hne, hsg'⟩ := hrest
  cases ch with
  | none =>
    refine ⟨s', wr', hs', pre', grp', bytes', evs, ?_, hl', heq, hb', hne, hsg'⟩
    simpa [Inv.loopCont] using hr
  | some ck =>
    refine ⟨s', wr', hs', pre', grp', bytes', evs ++ [.change sf.apath ck], ?_, hl', heq, hb',
      hne.append (NoErrorEvents.change _ _), hsg'⟩
    simp only [Inv.loopCont, report, Prog.emit_bind, Prog.ret_bind]
    exact RunsAt.emit hr

/-- The main loop of `backup()` on a fault-free world: it returns, reports no error, and every
source entry of the merged listing has been recorded, in order. -/
theorem backupLoop_runs (hmax : 0 < o.maxBlockSize) (ms : List Matched) :
    ∀ (s : Store) (wr : Writer) (hs : List (List IndexEntry)) (pre grp : List SrcEntry) (bytes : Nat),
      LInv H o nb s0 s wr hs pre grp bytes →
      (∀ sf ∈ srcsOf ms, EntryGood sf) → (∀ m ∈ ms, MatchedGood m) →
      ((grp ++ srcsOf ms).map (·.apath)).Pairwise (fun a b => apathCmp a b = .lt) →
      bytes + totalSize (srcsOf ms) < 18446744073709551616 →
      ∃ s' wr' hs' pre' grp' bytes' evs, RunsAt (backupLoop H o wr ms) s (.ok wr') s' evs ∧
        LInv H o nb s0 s' wr' hs' pre' grp' bytes' ∧ pre' ++ grp' = pre ++ grp ++ srcsOf ms ∧
        bytes' < 18446744073709551616 ∧ NoErrorEvents evs ∧
        (grp'.map (·.apath)).Pairwise (fun a b => apathCmp a b = .lt) := by
  induction ms with
  | nil =>
    intro s wr hs pre grp bytes hl _ _ hsorted hB
    rw [backupLoop]
    exact ⟨s, wr, hs, pre, grp, bytes, [], RunsAt.ret _ _, hl, by simp [srcsOf], by simpa [srcsOf] using hB,
      NoErrorEvents.nil, by simpa [srcsOf] using hsorted⟩
  | cons m rest ih =>
    intro s wr hs pre grp bytes hl hsrc hgood hsorted hB
    have hgood' : ∀ m ∈ rest, MatchedGood m := fun m hm => hgood m (List.mem_cons_of_mem _ hm)
    -- one source entry, with or without a basis entry
    have entry : ∀ (basis : Option IndexEntry) (sf : SrcEntry), srcsOf (m :: rest) = sf :: srcsOf rest →
        (∀ b, basis = some b → (entryTimeNs b.mtime b.mtimeNanos).isSome = true) →
        ∃ s' wr' hs' pre' grp' bytes' evs,
          RunsAt ((copyEntry H o wr basis sf).bind (Inv.loopCont H o sf rest)) s (.ok wr') s' evs ∧
          LInv H o nb s0 s' wr' hs' pre' grp' bytes' ∧ pre' ++ grp' = pre ++ grp ++ srcsOf (m :: rest) ∧
          bytes' < 18446744073709551616 ∧ NoErrorEvents evs ∧
          (grp'.map (·.apath)).Pairwise (fun a b => apathCmp a b = .lt) := by
      intro basis sf hsf hbasis
      rw [hsf] at hsrc hsorted hB ⊢
      obtain ⟨hkind, hwf⟩ := hsrc sf (List.mem_cons_self ..)
      simp only [totalSize_cons] at hB
      obtain ⟨s1, wr1, ch, hr1, hb1, hk1⟩ := copyEntry_runs hl.b basis sf hkind hwf hmax (by omega) hbasis
      have hl1 := hl.step hb1 hk1
      obtain ⟨s', wr', hs', pre', grp', bytes', evs, hr, hl', heq, hb', hne, hsg'⟩ :=
        loopCont_runs sf rest
          (fun s wr hs pre grp bytes hl hso hB =>
            ih s wr hs pre grp bytes hl (fun x hx => hsrc x (List.mem_cons_of_mem _ hx)) hgood' hso hB)
          hl1 ch (by simpa using hsorted) (by omega)
      refine ⟨s', wr', hs', pre', grp', bytes', evs, ?_, hl', by simpa using heq, hb', hne, hsg'⟩
      simpa using RunsAt.bind hr1 hr
    cases m with
    | left b =>
      obtain ⟨s', wr', hs', pre', grp', bytes', evs, hr, hl', heq, hb', hne, hsg'⟩ :=
        ih s wr hs pre grp bytes hl hsrc hgood' hsorted hB
      refine ⟨s', wr', hs', pre', grp', bytes', evs ++ [.change b.apath .deleted], ?_, hl', heq, hb',
        hne.append (NoErrorEvents.change _ _), hsg'⟩
      rw [Inv.backupLoop_left]
      simp only [report, Prog.emit_bind, Prog.ret_bind]
      exact RunsAt.emit hr
    | right sf =>
      rw [Inv.backupLoop_right]
      exact entry none sf rfl (fun _ h => nomatch h)
    | both b sf =>
      rw [Inv.backupLoop_both]
      refine entry (some b) sf rfl ?_
      intro b' hb'
      cases hb'
      exact hgood _ (List.mem_cons_self ..)

end Conserve.Exact
