import ConserveModel.Proofs.DeleteMisc
/-
Running programs in a world with ONE injected read fault, by simulation against the fault-free
world: operations the fault does not apply to behave exactly as in a quiet world.  Used for the
witness of defect D6 (`strict = false`) in Props/C05.lean.
-/
set_option linter.unusedSimpArgs false
namespace Conserve
open Prog

/-! ### `exec` when nothing interferes -/

/-- What `exec` does when no fault applies, no crash point is set and the world is alive. -/
def World.plainExec (w : World) (o : Op) : World × Resp :=
  if !o.isMutating then
    ({ w with trace := ⟨o, (applyOp w.enforceCreateNew w.store o).2⟩ :: w.trace },
      (applyOp w.enforceCreateNew w.store o).2)
  else
    match o with
    | .write k v m =>
      match applyOp w.enforceCreateNew w.store (.write k .empty m) with
      | (s1, .unit) =>
        ({ w with store := s1.put k v, steps := w.steps + 2, trace := ⟨o, .unit⟩ :: w.trace }, .unit)
      | (_, r) => ({ w with trace := ⟨o, r⟩ :: w.trace }, r)
    | _ =>
      ({ w with store := (applyOp w.enforceCreateNew w.store o).1,
                steps := (match (applyOp w.enforceCreateNew w.store o).2 with
                  | .err _ => w.steps
                  | _ => w.steps + 1),
                trace := ⟨o, (applyOp w.enforceCreateNew w.store o).2⟩ :: w.trace },
        (applyOp w.enforceCreateNew w.store o).2)

theorem World.exec_eq_plain {w : World} {o : Op} (hc : w.crashAt = none) (ha : w.dead = false)
    (hf : w.faultFor o = none) : w.exec o = w.plainExec o := by
  unfold World.exec World.plainExec
  simp only [ha, Bool.false_eq_true, if_false, hf, World.crashesAt, hc]
  cases o with
  | write k v m =>
    simp [Op.isMutating]
    rcases h : applyOp w.enforceCreateNew w.store (Op.write k FileVal.empty m) with ⟨s1, r⟩
    cases r <;> simp
  | read k => simp [Op.isMutating]
  | listDir k => simp [Op.isMutating]
  | metadata k => simp [Op.isMutating]
  | createDir k => simp [Op.isMutating]; rfl
  | removeFile k => simp [Op.isMutating]; rfl
  | removeDirAll k => simp [Op.isMutating]; rfl

theorem World.plainExec_frame (w : World) (o : Op) :
    (w.plainExec o).1.faults = w.faults ∧ (w.plainExec o).1.crashAt = w.crashAt ∧
      (w.plainExec o).1.dead = w.dead ∧ (w.plainExec o).1.enforceCreateNew = w.enforceCreateNew ∧
      (w.plainExec o).1.events = w.events ∧
      (w.plainExec o).1.trace = ⟨o, (w.plainExec o).2⟩ :: w.trace := by
  unfold World.plainExec
  split
  · simp
  · cases o with
    | write k v m =>
      simp only
      rcases h : applyOp w.enforceCreateNew w.store (Op.write k FileVal.empty m) with ⟨s1, r⟩
      cases r <;> simp
    | _ => simp

/-- The fault-free companion world: same store and transport behaviour, quiet. -/
structure Sim (w w0 : World) : Prop where
  store : w0.store = w.store
  ecn : w0.enforceCreateNew = w.enforceCreateNew
  quiet : w0.Quiet

theorem World.Quiet.faultFor {w : World} (hq : w.Quiet) (o : Op) : w.faultFor o = none := by
  simp [World.faultFor, hq.noFaults]

theorem plainExec_sim {w w0 : World} (hs : Sim w w0) (o : Op) :
    (w.plainExec o).2 = (w0.plainExec o).2 ∧ (w0.plainExec o).1.store = (w.plainExec o).1.store := by
  unfold World.plainExec
  rw [hs.store, hs.ecn]
  split
  · simp
  · cases o with
    | write k v m =>
      simp only
      rcases h : applyOp w.enforceCreateNew w.store (Op.write k FileVal.empty m) with ⟨s1, r⟩
      cases r <;> simp
    | _ => simp

/-- Simulation: a program all of whose operations satisfy `P`, run in a world `w` satisfying an
invariant `Inv` under which no fault applies to `P`-operations, does what it does in the fault-free
companion world. -/
theorem run_sim {α : Type} {Inv : World → Prop} {P : Op → Prop}
    (hcalm : ∀ w, Inv w → w.crashAt = none ∧ w.dead = false)
    (hf : ∀ w o, Inv w → P o → w.faultFor o = none)
    (hi : ∀ w o, Inv w → P o → Inv (w.plainExec o).1)
    (he : ∀ w ev, Inv w → Inv { w with events := ev :: w.events })
    {p : Prog α} (hp : Prog.AllOps P p) :
    ∀ w w0, Inv w → Sim w w0 →
      (p.run w).1 = (p.run w0).1 ∧ Sim (p.run w).2 (p.run w0).2 ∧ Inv (p.run w).2 := by
  induction hp with
  | ret a => intro w w0 hI hs; exact ⟨rfl, hs, hI⟩
  | fail e => intro w w0 hI hs; exact ⟨rfl, hs, hI⟩
  | panic s => intro w w0 hI hs; exact ⟨rfl, hs, hI⟩
  | emit ev _ ih =>
    intro w w0 hI hs
    simp only [Prog.run_emit]
    exact ih _ _ (he w ev hI) ⟨hs.store, hs.ecn, ⟨hs.quiet.noFaults, hs.quiet.noCrash, hs.quiet.alive⟩⟩
  | @op o k ho _ ih =>
    intro w w0 hI hs
    obtain ⟨hc, ha⟩ := hcalm w hI
    have e1 : w.exec o = w.plainExec o := World.exec_eq_plain hc ha (hf w o hI ho)
    have e0 : w0.exec o = w0.plainExec o :=
      World.exec_eq_plain hs.quiet.noCrash hs.quiet.alive (hs.quiet.faultFor o)
    obtain ⟨hr, hst⟩ := plainExec_sim hs o
    obtain ⟨f1, f2, f3, f4, _, _⟩ := World.plainExec_frame w0 o
    obtain ⟨_, _, _, g4, _, _⟩ := World.plainExec_frame w o
    simp only [Prog.run_op, e1, e0, hr]
    refine ih _ _ _ (hi w o hI ho) ⟨hst, ?_, ⟨?_, ?_, ?_⟩⟩
    · rw [f4, g4]; exact hs.ecn
    · rw [f1]; exact hs.quiet.noFaults
    · rw [f2]; exact hs.quiet.noCrash
    · rw [f3]; exact hs.quiet.alive

/-! ### One fault: a failing first read of key `kf` -/

/-- The fault list: the first `read` of `kf` fails with `Other`. -/
def readFault (kf : Key) : List Fault := [⟨⟨.read, kf, 0⟩, .other⟩]

/-- The fault has not fired yet. -/
structure Armed (kf : Key) (w : World) : Prop where
  faults : w.faults = readFault kf
  noCrash : w.crashAt = none
  alive : w.dead = false
  occ : w.occurrences .read kf = 0

/-- The fault has fired (it cannot fire again). -/
structure Spent (kf : Key) (w : World) : Prop where
  faults : w.faults = readFault kf
  noCrash : w.crashAt = none
  alive : w.dead = false
  occ : 0 < w.occurrences .read kf

/-- Operations other than `read kf`. -/
def NotRead (kf : Key) (o : Op) : Prop := o ≠ .read kf

theorem occurrences_plainExec (w : World) (o : Op) (v : Verb) (k : Key) :
    (w.plainExec o).1.occurrences v k =
      w.occurrences v k + (if o.verb == v && o.key == k then 1 else 0) := by
  obtain ⟨_, _, _, _, _, ht⟩ := World.plainExec_frame w o
  simp only [World.occurrences, ht, List.filter_cons]
  split <;> simp [Nat.add_comm]

theorem verb_key_read {o : Op} {kf : Key} (h : (o.verb == Verb.read && o.key == kf) = true) : o = .read kf := by
  cases o <;> simp [Op.verb, Op.key] at h
  subst h; rfl

theorem Armed.faultFor {kf : Key} {w : World} (hA : Armed kf w) {o : Op} (ho : NotRead kf o) :
    w.faultFor o = none := by
  simp only [World.faultFor, hA.faults, readFault, List.find?_cons, List.find?_nil]
  cases h : (Verb.read == o.verb && kf == o.key) with
  | false => simp [h]
  | true =>
    exfalso
    apply ho
    apply verb_key_read
    simp only [Bool.and_eq_true, beq_iff_eq] at h ⊢
    exact ⟨h.1.symm, h.2.symm⟩

theorem Armed.step {kf : Key} {w : World} (hA : Armed kf w) {o : Op} (ho : NotRead kf o) :
    Armed kf (w.plainExec o).1 := by
  obtain ⟨f1, f2, f3, _, _, _⟩ := World.plainExec_frame w o
  refine ⟨f1.trans hA.faults, f2.trans hA.noCrash, f3.trans hA.alive, ?_⟩
  rw [occurrences_plainExec, hA.occ]
  cases h : (o.verb == Verb.read && o.key == kf) with
  | false => simp
  | true => exact absurd (verb_key_read h) ho

theorem Spent.faultFor {kf : Key} {w : World} (hS : Spent kf w) (o : Op) : w.faultFor o = none := by
  simp only [World.faultFor, hS.faults, readFault, List.find?_cons, List.find?_nil]
  cases h : (Verb.read == o.verb && kf == o.key && 0 == w.occurrences o.verb o.key) with
  | false => simp [h]
  | true =>
    exfalso
    simp only [Bool.and_eq_true, beq_iff_eq] at h
    have := hS.occ
    rw [h.1.1, h.1.2] at this
    omega

theorem Spent.step {kf : Key} {w : World} (hS : Spent kf w) (o : Op) : Spent kf (w.plainExec o).1 := by
  obtain ⟨f1, f2, f3, _, _, _⟩ := World.plainExec_frame w o
  refine ⟨f1.trans hS.faults, f2.trans hS.noCrash, f3.trans hS.alive, ?_⟩
  rw [occurrences_plainExec]
  have := hS.occ
  omega

/-- A program that never reads `kf`, run while the fault is armed: same outcome and store as in the
fault-free companion; the fault stays armed. -/
theorem run_armed {α : Type} {kf : Key} {p : Prog α} (hp : Prog.AllOps (NotRead kf) p) (w w0 : World)
    (hA : Armed kf w) (hs : Sim w w0) :
    (p.run w).1 = (p.run w0).1 ∧ Sim (p.run w).2 (p.run w0).2 ∧ Armed kf (p.run w).2 :=
  run_sim (Inv := Armed kf) (fun _ h => ⟨h.noCrash, h.alive⟩) (fun _ _ h ho => h.faultFor ho)
    (fun _ _ h ho => h.step ho) (fun _ _ h => ⟨h.faults, h.noCrash, h.alive, h.occ⟩) hp w w0 hA hs

theorem allOps_true {α : Type} (p : Prog α) : Prog.AllOps (fun _ => True) p := by
  induction p with
  | ret a => exact .ret a
  | fail e => exact .fail e
  | panic s => exact .panic s
  | emit ev k ih => exact .emit ev ih
  | op o k ih => exact .op trivial ih

/-- Any program, run after the fault has fired: same outcome and store as in the fault-free companion. -/
theorem run_spent {α : Type} {kf : Key} (p : Prog α) (w w0 : World) (hS : Spent kf w) (hs : Sim w w0) :
    (p.run w).1 = (p.run w0).1 ∧ Sim (p.run w).2 (p.run w0).2 ∧ Spent kf (p.run w).2 :=
  run_sim (Inv := Spent kf) (P := fun _ => True) (fun _ h => ⟨h.noCrash, h.alive⟩)
    (fun _ o h _ => h.faultFor o) (fun _ o h _ => h.step o)
    (fun _ _ h => ⟨h.faults, h.noCrash, h.alive, h.occ⟩) (allOps_true p) w w0 hS hs

/-- The faulty read itself: it fails with `Other`, the store is untouched, the fault is spent. -/
theorem exec_armed_read {kf : Key} {w : World} (hA : Armed kf w) :
    (w.exec (.read kf)).2 = .err .other ∧ (w.exec (.read kf)).1.store = w.store ∧
      (w.exec (.read kf)).1.enforceCreateNew = w.enforceCreateNew ∧ Spent kf (w.exec (.read kf)).1 := by
  have hf : w.faultFor (.read kf) = some .other := by
    simp [World.faultFor, hA.faults, readFault, Op.verb, Op.key, hA.occ]
  unfold World.exec
  simp only [hA.alive, Bool.false_eq_true, if_false, hf]
  refine ⟨by simp, by simp, by simp, by simpa using hA.faults, by simpa using hA.noCrash, by simp, ?_⟩
  simp [World.occurrences, Op.verb, Op.key]

end Conserve

namespace Conserve
open Prog

/-! ### Tracking runs under an invariant on worlds -/

/-- Running `p` in `w` gives outcome `out`, final store `s'`, and the final world satisfies `Inv`. -/
def RunsI {α : Type} (Inv : World → Prop) (p : Prog α) (w : World) (out : Outcome α) (s' : Store) : Prop :=
  (p.run w).1 = out ∧ (p.run w).2.store = s' ∧ Inv (p.run w).2

theorem RunsI.run_eq {α : Type} {Inv : World → Prop} {p : Prog α} {w : World} {out : Outcome α} {s' : Store}
    (h : RunsI Inv p w out s') : p.run w = (out, (p.run w).2) := by rw [← h.1]

theorem RunsI.bind_ok {α β : Type} {I1 I2 : World → Prop} {p : Prog α} {f : α → Prog β} {w : World} {a : α}
    {s1 s2 : Store} {out : Outcome β} (hp : RunsI I1 p w (.ok a) s1)
    (hf : ∀ w1, I1 w1 → w1.store = s1 → RunsI I2 (f a) w1 out s2) : RunsI I2 (p.bind f) w out s2 := by
  have := hf _ hp.2.2 hp.2.1
  unfold RunsI
  rw [Prog.run_bind, hp.run_eq]
  exact this

theorem RunsI.bind_err {α β : Type} {I1 : World → Prop} {p : Prog α} {f : α → Prog β} {w : World} {e : Err}
    {s1 : Store} (hp : RunsI I1 p w (.err e) s1) : RunsI I1 (p.bind f) w (.err e) s1 := by
  unfold RunsI
  rw [Prog.run_bind, hp.run_eq]
  exact ⟨rfl, hp.2⟩

theorem RunsI.attempt_ok {α : Type} {I1 : World → Prop} {p : Prog α} {w : World} {a : α} {s1 : Store}
    (hp : RunsI I1 p w (.ok a) s1) : RunsI I1 p.attempt w (.ok (.ok a)) s1 := by
  unfold RunsI
  rw [Prog.run_attempt, hp.run_eq]
  exact ⟨rfl, hp.2⟩

theorem RunsI.attempt_err {α : Type} {I1 : World → Prop} {p : Prog α} {w : World} {e : Err} {s1 : Store}
    (hp : RunsI I1 p w (.err e) s1) : RunsI I1 p.attempt w (.ok (.error e)) s1 := by
  unfold RunsI
  rw [Prog.run_attempt, hp.run_eq]
  exact ⟨rfl, hp.2⟩

theorem RunsI.attemptAll {α : Type} {I1 : World → Prop} {p : Prog α} {w : World} {out : Outcome α}
    {s1 : Store} (hp : RunsI I1 p w out s1) : RunsI I1 p.attemptAll w (.ok out) s1 := by
  unfold RunsI
  rw [Prog.run_attemptAll, hp.1]
  exact ⟨rfl, hp.2⟩

theorem RunsI.ret {α : Type} {I1 : World → Prop} {w : World} (h : I1 w) (a : α) :
    RunsI I1 (.ret a) w (.ok a) w.store := ⟨rfl, rfl, h⟩

/-- While the fault is armed, a program that never reads `kf` runs as in a quiet world. -/
theorem RunsI.of_runs_armed {α : Type} {kf : Key} {p : Prog α} {w : World} {s s' : Store}
    {out : Outcome α} {ev : List Event} (hp : Prog.AllOps (NotRead kf) p) (hA : Armed kf w)
    (hs : w.store = s) (h : ∀ w0 : World, w0.Quiet → w0.store = s → Runs p w0 out s' ev) :
    RunsI (Armed kf) p w out s' := by
  have hq : ({ w with faults := [] } : World).Quiet := ⟨rfl, hA.noCrash, hA.alive⟩
  have hsim : Sim w { w with faults := [] } := ⟨rfl, rfl, hq⟩
  obtain ⟨h1, h2, h3⟩ := run_armed hp w _ hA hsim
  have hr := h _ hq hs
  exact ⟨h1.trans hr.1, h2.store.symm.trans hr.2.store, h3⟩

/-- After the fault has fired, every program runs as in a quiet world. -/
theorem RunsI.of_runs_spent {α : Type} {kf : Key} {p : Prog α} {w : World} {s s' : Store}
    {out : Outcome α} {ev : List Event} (hS : Spent kf w)
    (hs : w.store = s) (h : ∀ w0 : World, w0.Quiet → w0.store = s → Runs p w0 out s' ev) :
    RunsI (Spent kf) p w out s' := by
  have hq : ({ w with faults := [] } : World).Quiet := ⟨rfl, hS.noCrash, hS.alive⟩
  have hsim : Sim w { w with faults := [] } := ⟨rfl, rfl, hq⟩
  obtain ⟨h1, h2, h3⟩ := run_spent p w _ hS hsim
  have hr := h _ hq hs
  exact ⟨h1.trans hr.1, h2.store.symm.trans hr.2.store, h3⟩

/-- The faulty read: the continuation sees `Err(Other)`, in a world where the fault is spent. -/
theorem RunsI.read_fault {α : Type} {kf : Key} {I2 : World → Prop} {k : Resp → Prog α} {w : World}
    {out : Outcome α} {s' : Store} (hA : Armed kf w)
    (hk : ∀ w1, Spent kf w1 → w1.store = w.store → RunsI I2 (k (.err .other)) w1 out s') :
    RunsI I2 (.op (.read kf) k) w out s' := by
  obtain ⟨h1, h2, _, h4⟩ := exec_armed_read hA
  have := hk _ h4 h2
  unfold RunsI
  rw [Prog.run_op, h1]
  exact this

/-! ### Programs that never read an index hunk -/

/-- The operation is not the read of an index hunk. -/
def NoHunkRead (o : Op) : Prop := ∀ b n, o ≠ .read (.hunk b n)

theorem NoHunkRead.notRead {o : Op} (h : NoHunkRead o) (b n : Nat) : NotRead (.hunk b n) o := h b n

theorem noHunkRead_isFile (k : Key) : Prog.AllOps NoHunkRead (isFile k) := by
  simp only [isFile, perform, bind_def, op_bind, ret_bind, pure_def]
  refine .op (by intro b n h; cases h) fun r => ?_
  split <;> first | exact .ret _ | exact .fail _

theorem noHunkRead_listBandIds : Prog.AllOps NoHunkRead listBandIds := by
  simp only [listBandIds, perform, bind_def, op_bind, ret_bind, pure_def]
  refine .op (by intro b n h; cases h) fun r => ?_
  split <;> first | exact .ret _ | exact .fail _

theorem noHunkRead_lastBandId : Prog.AllOps NoHunkRead lastBandId := by
  simp only [lastBandId, bind_def, pure_def]
  exact noHunkRead_listBandIds.bind fun _ => .ret _

theorem noHunkRead_bandOpen (b : Nat) : Prog.AllOps NoHunkRead (bandOpen b) := by
  simp only [bandOpen, perform, bind_def, op_bind, ret_bind, pure_def]
  refine .op (by intro b n h; cases h) fun r => ?_
  split
  · exact .fail _
  · exact .fail _
  · split
    · exact .fail _
    · exact .fail _
    · split <;> first | exact .ret _ | exact .fail _
  · exact .fail _
  · exact .fail _

theorem noHunkRead_hunksAvailable_go (b : Nat) (ds : List Nat) :
    ∀ acc, Prog.AllOps NoHunkRead (hunksAvailable.go b ds acc) := by
  induction ds with
  | nil => intro acc; simp only [hunksAvailable.go, pure_def]; exact .ret _
  | cons d ds ih =>
    intro acc
    simp only [hunksAvailable.go, perform, bind_def, op_bind, ret_bind]
    refine .op (by intro b n h; cases h) fun r => ?_
    split <;> first | exact ih _ | exact .fail _

theorem noHunkRead_iterAvailableHunks (b : Nat) : Prog.AllOps NoHunkRead (iterAvailableHunks b) := by
  simp only [iterAvailableHunks, hunksAvailable, perform, bind_def, op_bind, ret_bind, pure_def]
  refine Prog.AllOps.bind (Prog.AllOps.attempt (.op (by intro b n h; cases h) fun r => ?_)) fun r => ?_
  · split <;> first | exact noHunkRead_hunksAvailable_go _ _ _ | exact .fail _
  · split <;> first | exact .ret _ | exact .panic _

theorem noHunkRead_performUnit (o : Op) (ho : NoHunkRead o) : Prog.AllOps NoHunkRead (performUnit o) := by
  simp only [performUnit, perform, bind_def, op_bind, ret_bind, pure_def]
  refine .op ho fun r => ?_
  split <;> first | exact .ret _ | exact .fail _

theorem noHunkRead_lockTail (last : Option Nat) : Prog.AllOps NoHunkRead (lockTail last) := by
  simp only [lockTail, unwrapOr, bind_def, pure_def]
  refine Prog.AllOps.bind (Prog.AllOps.bind (Prog.AllOps.attempt (noHunkRead_isFile _)) fun r => ?_) fun l => ?_
  · split <;> exact .ret _
  · split
    · exact .fail _
    · exact (noHunkRead_performUnit _ (by intro b n h; cases h)).bind fun _ => .ret _

theorem noHunkRead_gcLockNew : Prog.AllOps NoHunkRead gcLockNew := by
  rw [gcLockNew_eq]
  refine noHunkRead_lastBandId.bind fun last => ?_
  split
  · refine (noHunkRead_isFile _).bind fun c => ?_
    split
    · exact .fail _
    · exact noHunkRead_lockTail _
  · exact noHunkRead_lockTail _

theorem noHunkRead_acquire (o : DeleteOpts) : Prog.AllOps NoHunkRead (acquire o) := by
  simp only [acquire, gcBreakLock, gcIsLocked, bind_def, pure_def]
  split
  · refine (noHunkRead_isFile _).bind fun l => ?_
    split
    · exact (noHunkRead_performUnit _ (by intro b n h; cases h)).bind fun _ => noHunkRead_gcLockNew
    · exact noHunkRead_gcLockNew
  · exact noHunkRead_gcLockNew

end Conserve

namespace Conserve
open Prog

theorem iterAvailableHunks_runs {s : Store} (hn : UniqueKeys s) (b : Nat)
    (hi : s.get? (.indexDir b) = some .dir) :
    ∀ w : World, w.Quiet → w.store = s → Runs (iterAvailableHunks b) w (.ok (hunksListed s b)) s [] := by
  intro w hq hs
  simp only [iterAvailableHunks, bind_def, pure_def]
  have h1 : Runs (hunksAvailable b) w (.ok (hunksListed s b)) s [] := by
    have := hunksAvailable_runs hq b (by rw [hs]; exact hi) (by rw [hs]; exact hunkDirs_are_dirs hn b)
    rwa [hs] at this
  refine Runs.bind_ok0 (Runs.attempt_ok h1) fun w1 hn1 => ?_
  exact Runs.ret' hn1 _

/-- The unreferenced set for a GIVEN referenced set (whatever `referenced_blocks` returned). -/
def unrefGiven (s : Store) (refs : List Str) : List Str :=
  ((blockNamesOf s).filter fun h => !refs.contains h).mergeSort strLe

/-- Statistics of a real run for a given referenced set. -/
def statsGiven (s : Store) (D : List Nat) (refs : List Str) : DeleteStats :=
  { unreferencedBlockCount := (unrefGiven s refs).length, deletedBandCount := D.length,
    deletedBlockCount := (unrefGiven s refs).length, deletionErrors := 0 }

/-- `deleteBody` after the referenced set is known, real run, fault-free world, lock held. -/
theorem bodyRest_real_runs {s : Store} {D : List Nat} (refs : List Str) (hn : UniqueKeys s)
    (hroot : s.get? .root = some .dir) (hbr : s.get? .blockRoot = some .dir)
    (hlock : fileAt s .gcLock = true) (o : DeleteOpts) (hdry : o.dryRun = false) (hnd : D.Nodup)
    (hex : ∀ b ∈ D, (s.get? (.bandDir b)).isSome = true) :
    ∀ w : World, w.Quiet → w.store = s →
      Runs (bodyRest D o (maxNat? (bandIdsOf s)) refs) w
        (.ok (statsGiven s D refs))
        ((eraseBlocks (eraseBands s D) (unrefGiven s refs)).erase .gcLock) [] := by
  intro w hq hs
  simp only [bodyRest, hdry, Bool.false_eq_true, if_false, ret_bind]
  have h3 : Runs listBlocks w (.ok (blockNamesOf s)) s [] := by
    have := listBlocks_runs hq (by rw [hs]; exact hbr) (by rw [hs]; exact blockSubdirs_are_dirs hn)
    rwa [hs] at this
  refine Runs.bind_ok0 h3 fun w3 hn3 => ?_
  have hmem : ∀ h ∈ unrefGiven s refs, h ∈ blockNamesOf s := by
    intro h hh
    simp only [unrefGiven, List.mem_mergeSort, List.mem_filter] at hh
    exact hh.1
  have h4 : Runs (deleteBody.measure (unrefGiven s refs)) w3 (.ok ()) s [] := by
    refine measure_runs _ ?_ w3 hn3.quiet hn3.store
    intro h hh
    have := blockNamesOf_file hn (hmem h hh)
    simp only [fileAt] at this
    cases hg : s.get? (.block h) <;> simp_all
  refine Runs.bind_ok0 h4 fun w4 hn4 => ?_
  refine Runs.bind_ok0 (gcLockCheck_runs hroot w4 hn4.quiet hn4.store) fun w5 hn5 => ?_
  refine Runs.bind_ok0 (delBands_runs D s 0 hnd hex w5 hn5.quiet hn5.store) fun w6 hn6 => ?_
  have hfile : ∀ h ∈ unrefGiven s refs, fileAt (eraseBands s D) (.block h) = true := by
    intro h hh
    simp only [fileAt, get?_eraseBands, underAny_block, Bool.false_eq_true, if_false]
    exact blockNamesOf_file hn (hmem h hh)
  have hnd' : (unrefGiven s refs).Nodup := by
    rw [unrefGiven, (List.mergeSort_perm _ _).nodup_iff]
    exact List.Nodup.sublist List.filter_sublist (nodup_blockNamesOf hn)
  refine Runs.bind_ok0 (delBlocks_runs _ _ 0 hnd' hfile w6 hn6.quiet hn6.store) fun w7 hn7 => ?_
  have hl : fileAt (eraseBlocks (eraseBands s D) (unrefGiven s refs)) .gcLock = true := by
    simp only [fileAt, get?_eraseBlocks, blockIn, get?_eraseBands, underAny_gcLock, Bool.false_eq_true,
      if_false]
    exact hlock
  refine Runs.bind_ok0 (gcLockRelease_runs hl w7 hn7.quiet hn7.store) fun w8 hn8 => ?_
  have := Runs.ret' hn8 (statsGiven s D refs)
  simpa [statsGiven, unrefGiven] using this

end Conserve

namespace Conserve
open Prog

/-- **Defect D6, general form.**  The code before the repair (`strict = false`), an archive with a
single version `b` whose index has a single hunk `n`, nothing to delete (`D = []`: pure garbage
collection), and ONE injected fault: the first read of that hunk fails.  The hunk is silently
skipped, `referenced_blocks` returns the empty set, and the run SUCCEEDS after removing every
block file `list_blocks` can see — including all blocks the version names. -/
theorem nonstrict_read_fault_removes_all {s : Store} {b n : Nat} (hn : UniqueKeys s)
    (hroot : s.get? .root = some .dir) (hbr : s.get? .blockRoot = some .dir)
    (hfree : s.get? .gcLock = none) (hnew : newestComplete s) (hbands : bandIdsOf s = [b])
    (hhead : headReadable s b = true) (hidx : s.get? (.indexDir b) = some .dir)
    (hhunks : hunksListed s b = [n]) (o : DeleteOpts) (hdry : o.dryRun = false) :
    let w : World := { store := s, faults := readFault (.hunk b n) }
    (∃ st, ((deleteBands false [] o).run w).1 = .ok st) ∧
      ∀ h ∈ blockNamesOf s, ((deleteBands false [] o).run w).2.store.get? (.block h) = none := by
  intro w
  let kf : Key := .hunk b n
  let s1 : Store := s ++ [(.gcLock, .lock)]
  have hA0 : Armed kf w := ⟨rfl, rfl, rfl, rfl⟩
  have hn1 : UniqueKeys s1 := uniqueKeys_lock hn hfree _
  have hroot1 : s1.get? .root = some .dir := by rw [get?_lock _ _ (by simp)]; exact hroot
  have hbr1 : s1.get? .blockRoot = some .dir := by rw [get?_lock _ _ (by simp)]; exact hbr
  have hlock1 : fileAt s1 .gcLock = true := by
    have := put_lock_eq hfree .lock
    show fileAt (s ++ [(.gcLock, .lock)]) .gcLock = true
    rw [← this]; simp [fileAt, FileVal.isDir]
  have hbands1 : bandIdsOf s1 = [b] := by rw [bandIdsOf_lock]; exact hbands
  have mono : ∀ {α : Type} {p : Prog α}, Prog.AllOps NoHunkRead p → Prog.AllOps (NotRead kf) p :=
    fun hp => Prog.AllOps.mono' (fun _ ho => ho b n) hp
  -- the whole run, tracked
  have key : RunsI (Spent kf) (deleteBands false [] o) w (.ok (statsGiven s1 [] []))
      ((eraseBlocks (eraseBands s1 []) (unrefGiven s1 [])).erase .gcLock) := by
    rw [deleteBands_eq]
    -- take the lock
    have hacq : RunsI (Armed kf) (acquire o) w (.ok (maxNat? (bandIdsOf s))) s1 := by
      refine RunsI.of_runs_armed (ev := []) (mono (noHunkRead_acquire o)) hA0 rfl fun w0 hq hs => ?_
      have := acquire_runs hroot o w0 hq hs
      rwa [acquireOutcome_ok hfree hnew] at this
    refine RunsI.bind_ok hacq fun w1 hA1 hs1 => ?_
    simp only [withLock]
    suffices hbody : RunsI (Spent kf) (deleteBody false [] o (maxNat? (bandIdsOf s))) w1
        (.ok (statsGiven s1 [] [])) ((eraseBlocks (eraseBands s1 []) (unrefGiven s1 [])).erase .gcLock) by
      refine RunsI.bind_ok (RunsI.attemptAll hbody) fun w9 hS9 hs9 => ?_
      exact hs9 ▸ RunsI.ret hS9 _
    -- the body
    rw [deleteBody_eq]
    have hlist : RunsI (Armed kf) listBandIds w1 (.ok [b]) s1 := by
      refine RunsI.of_runs_armed (ev := []) (mono noHunkRead_listBandIds) hA1 hs1 fun w0 hq hs => ?_
      have := hs ▸ listBandIds_runs hq (hs ▸ hroot1)
      rwa [hbands1] at this
    refine RunsI.bind_ok hlist fun w2 hA2 hs2 => ?_
    have hfilter : List.filter (fun x => !([] : List Nat).contains x) [b] = [b] := by simp
    rw [hfilter]
    -- referenced_blocks: the hunk read fails and is skipped
    have hrefs : RunsI (Spent kf) (referencedBlocks false [b]) w2 (.ok []) s1 := by
      simp only [referencedBlocks, bind_def, pure_def, Bool.false_eq_true, if_false]
      have hopen : RunsI (Armed kf) (bandOpen b) w2 (.ok ()) s1 := by
        refine RunsI.of_runs_armed (ev := []) (mono (noHunkRead_bandOpen b)) hA2 hs2 fun w0 hq hs => ?_
        have := hs ▸ bandOpen_runs hq b
        have hhead1 : headReadable s1 b = true := by
          show headReadable (s ++ [(.gcLock, .lock)]) b = true
          simpa only [headReadable, get?_lock s _ (show Key.bandHead b ≠ .gcLock by simp)] using hhead
        rwa [headOutcome_of_readable hhead1] at this
      refine RunsI.bind_ok hopen fun w3 hA3 hs3 => ?_
      have hiter : RunsI (Armed kf) (iterAvailableHunks b) w3 (.ok [n]) s1 := by
        refine RunsI.of_runs_armed (ev := []) (mono (noHunkRead_iterAvailableHunks b)) hA3 hs3
          fun w0 hq hs => ?_
        have := iterAvailableHunks_runs hn1 b (by rw [get?_lock _ _ (by simp)]; exact hidx) w0 hq hs
        rwa [hunksListed_lock, hhunks] at this
      refine RunsI.bind_ok hiter fun w4 hA4 hs4 => ?_
      have hent : RunsI (Spent kf) (bandHunkEntries false b [n]) w4 (.ok []) s1 := by
        simp only [bandHunkEntries, readHunk, perform, bind_def, op_bind, ret_bind, pure_def, Prog.attempt]
        refine RunsI.read_fault hA4 fun w5 hS5 hs5 => ?_
        simp only [Prog.attempt, ret_bind, Bool.false_eq_true, if_false]
        exact (hs5.trans hs4) ▸ RunsI.ret hS5 _
      refine RunsI.bind_ok hent fun w5 hS5 hs5 => ?_
      exact hs5 ▸ RunsI.ret hS5 _
    refine RunsI.bind_ok hrefs fun w6 hS6 hs6 => ?_
    -- with nothing referenced, everything present is removed
    refine RunsI.of_runs_spent (ev := []) hS6 hs6 fun w0 hq hs => ?_
    have := bodyRest_real_runs (D := []) [] hn1 hroot1 hbr1 hlock1 o hdry List.nodup_nil (by simp) w0 hq hs
    rwa [bandIdsOf_lock] at this
  refine ⟨⟨_, key.1⟩, ?_⟩
  intro h hh
  rw [key.2.1, Store.get?_erase_ne _ (by simp), get?_eraseBlocks]
  have : h ∈ unrefGiven s1 [] := by
    simp only [unrefGiven, List.mem_mergeSort, List.mem_filter]
    exact ⟨by rw [blockNamesOf_lock]; exact hh, by simp⟩
  simp [blockIn, this]

end Conserve
