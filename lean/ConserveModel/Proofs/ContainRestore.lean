import ConserveModel.Proofs.ContainWF
/-
C10 (full containment): the per-entry loop of `restore()` (`NP.restoreP`) on a listing in which no
entry lies below a symlink restored BEFORE it (`Unshadowed`) is a plain `filterMap` — one node and at
most one report per entry, in order.  From that: which nodes carry a given path, what a silent
restore says about the listing, and what happens when further entries follow.  No property
statements here.
-/
set_option linter.unusedSimpArgs false
namespace Conserve.Contain
open Conserve Conserve.NP

variable (H : Str → Str)

/-- The node `restore` creates for one entry that is not skipped. -/
def nodeP (s : Store) (e : IndexEntry) : Option RNode :=
  match e.kind with
  | .dir => some (RNode.ofEntry e)
  | .file =>
    match readContentP H s e.addrs [] with
    | (bytes, some _) => some { RNode.ofEntry e with content := bytes, complete := false }
    | (bytes, none) => some { RNode.ofEntry e with content := bytes }
  | .symlink => if e.target.isSome then some (RNode.ofEntry e) else none
  | .unknown => none

/-- The error `restore` reports for one entry that is not skipped. -/
def errP (s : Store) (e : IndexEntry) : Option Err :=
  match e.kind with
  | .dir => none
  | .file =>
    match readContentP H s e.addrs [] with
    | (_, some (h, _)) => some (.restoreFileBlock e.apath h)
    | (_, none) => none
  | .symlink => if e.target.isSome then none else some .invalidMetadata
  | .unknown => some .invalidMetadata

/-- No entry lies strictly below one of the symlinks `syms` restored so far, or below a symlink entry
that comes BEFORE it in the list.  Positional, hence inherited by sub-lists and prefixes. -/
def Unshadowed (syms : List Str) (es : List IndexEntry) : Prop :=
  (∀ p ∈ syms, ∀ y ∈ es, strictlyBelow p y.apath = false) ∧
  es.Pairwise (fun x y => x.kind = .symlink → strictlyBelow x.apath y.apath = false)

variable {H}

theorem Unshadowed.nil (syms : List Str) : Unshadowed syms [] :=
  ⟨fun _ _ _ h => (nomatch h), List.Pairwise.nil⟩

theorem Unshadowed.head {syms : List Str} {x : IndexEntry} {es : List IndexEntry}
    (h : Unshadowed syms (x :: es)) : belowSymlink syms x.apath = false := by
  rw [belowSymlink_eq]
  cases hb : syms.any (fun p => strictlyBelow p x.apath) with
  | false => rfl
  | true =>
    obtain ⟨p, hp, hpb⟩ := List.any_eq_true.mp hb
    rw [h.1 p hp x (List.mem_cons_self ..)] at hpb
    cases hpb

theorem Unshadowed.tail {syms : List Str} {x : IndexEntry} {es : List IndexEntry}
    (h : Unshadowed syms (x :: es)) : Unshadowed syms es :=
  ⟨fun p hp y hy => h.1 p hp y (List.mem_cons_of_mem _ hy), (List.pairwise_cons.mp h.2).2⟩

theorem Unshadowed.push {syms : List Str} {x : IndexEntry} {es : List IndexEntry}
    (h : Unshadowed syms (x :: es)) (hk : x.kind = .symlink) : Unshadowed (x.apath :: syms) es := by
  refine ⟨fun p hp y hy => ?_, h.tail.2⟩
  rcases List.mem_cons.mp hp with rfl | hp
  · exact (List.pairwise_cons.mp h.2).1 y hy hk
  · exact h.1 p hp y (List.mem_cons_of_mem _ hy)

theorem Unshadowed.sublist {syms : List Str} {es es' : List IndexEntry} (h : Unshadowed syms es)
    (hs : es'.Sublist es) : Unshadowed syms es' :=
  ⟨fun p hp y hy => h.1 p hp y (hs.subset hy), h.2.sublist hs⟩

/-- `NoSymlinkAbove` (the order-free form used in Props/C10.lean) implies the positional one. -/
theorem unshadowed_of_noSymlinkAbove {syms : List Str} {es : List IndexEntry} (h : NoSymlinkAbove syms es) :
    Unshadowed syms es :=
  ⟨h.1, List.pairwise_of_forall_mem_list fun x hx y hy hk => h.2 x hx hk y hy⟩

/-- **The loop on an unshadowed list, possibly followed by more entries**: one node and at most one
report per entry of the unshadowed part, in order, then whatever the rest gives. -/
theorem restoreP_append_unshadowed (s : Store) (l2 : List IndexEntry) :
    ∀ (l1 : List IndexEntry) (syms : List Str), Unshadowed syms l1 →
      ∃ syms', restoreP H s syms (l1 ++ l2) =
        (l1.filterMap (nodeP H s) ++ (restoreP H s syms' l2).1,
         l1.filterMap (errP H s) ++ (restoreP H s syms' l2).2) := by
  intro l1
  induction l1 with
  | nil => intro syms _; exact ⟨syms, rfl⟩
  | cons x es ih =>
    intro syms hn
    have hb := hn.head
    simp only [List.cons_append]
    cases hx : x.kind with
    | dir =>
      obtain ⟨syms', h'⟩ := ih syms hn.tail
      refine ⟨syms', ?_⟩
      rw [restoreP]
      simp [hb, h', nodeP, errP, hx]
    | file =>
      obtain ⟨syms', h'⟩ := ih syms hn.tail
      refine ⟨syms', ?_⟩
      rw [restoreP]
      rcases hc : readContentP H s x.addrs [] with ⟨bytes, bad⟩
      cases bad with
      | some p => obtain ⟨h0, e0⟩ := p; simp [hb, h', nodeP, errP, hx, hc]
      | none => simp [hb, h', nodeP, errP, hx, hc]
    | symlink =>
      cases ht : x.target with
      | none =>
        obtain ⟨syms', h'⟩ := ih syms hn.tail
        refine ⟨syms', ?_⟩
        rw [restoreP]
        simp [hb, h', nodeP, errP, hx, ht]
      | some tg =>
        obtain ⟨syms', h'⟩ := ih (x.apath :: syms) (hn.push hx)
        refine ⟨syms', ?_⟩
        rw [restoreP]
        simp [hb, h', nodeP, errP, hx, ht]
    | unknown =>
      obtain ⟨syms', h'⟩ := ih syms hn.tail
      refine ⟨syms', ?_⟩
      rw [restoreP]
      simp [hb, h', nodeP, errP, hx]

/-- The loop on an unshadowed list. -/
theorem restoreP_unshadowed (s : Store) {syms : List Str} {es : List IndexEntry} (hn : Unshadowed syms es) :
    restoreP H s syms es = (es.filterMap (nodeP H s), es.filterMap (errP H s)) := by
  obtain ⟨syms', h⟩ := restoreP_append_unshadowed (H := H) s [] es syms hn
  simpa [restoreP] using h

/-! ### What `nodeP` / `errP` say about one entry -/

theorem nodeP_apath {s : Store} {e : IndexEntry} {nd : RNode} (h : nodeP H s e = some nd) : nd.apath = e.apath := by
  unfold nodeP at h
  split at h
  · cases h; rfl
  · split at h <;> (cases h; rfl)
  · split at h
    · cases h; rfl
    · cases h
  · cases h

theorem nodeP_file_some {s : Store} {e : IndexEntry} (hk : e.kind = .file) {c : Str}
    (h : readBack H s e.addrs = some c) : nodeP H s e = some { RNode.ofEntry e with content := c } := by
  have := readContentP_some H e.addrs [] h
  simp only [List.nil_append] at this
  simp [nodeP, hk, this]

theorem nodeP_file_none {s : Store} {e : IndexEntry} (hk : e.kind = .file)
    (h : readBack H s e.addrs = none) :
    (∃ bytes, nodeP H s e = some { RNode.ofEntry e with content := bytes, complete := false }) ∧
    ∃ hh, errP H s e = some (.restoreFileBlock e.apath hh) := by
  obtain ⟨part, hh, er, hp⟩ := readContentP_none H e.addrs [] h
  exact ⟨⟨part, by simp [nodeP, hk, hp]⟩, ⟨hh, by simp [errP, hk, hp]⟩⟩

/-- A node of an unreadable file is never complete. -/
theorem nodeP_incomplete {s : Store} {e : IndexEntry} (hk : e.kind = .file)
    (h : readBack H s e.addrs = none) {nd : RNode} (hn : nodeP H s e = some nd) : nd.complete = false := by
  obtain ⟨⟨bytes, hb⟩, _⟩ := nodeP_file_none (H := H) hk h
  rw [hb] at hn
  cases hn
  rfl

/-! ### A silent restore says the listing is unshadowed -/

/-- If the loop reports nothing, then nothing was skipped below a symlink (and every file read back). -/
theorem unshadowed_of_silent {s : Store} :
    ∀ (es : List IndexEntry) (syms : List Str), (restoreP H s syms es).2 = [] →
      (∀ p ∈ syms, ∀ y ∈ es, strictlyBelow p y.apath = false) ∧
      (∀ e ∈ es, e.kind = .file → ∃ c, readBack H s e.addrs = some c) := by
  intro es
  induction es with
  | nil => intro syms _; exact ⟨fun _ _ _ h => (nomatch h), fun _ h => (nomatch h)⟩
  | cons x es ih =>
    intro syms h
    unfold restoreP at h
    by_cases hb : belowSymlink syms x.apath = true
    · simp [hb] at h
    · have hb' : belowSymlink syms x.apath = false := by simpa using hb
      simp only [hb', Bool.false_eq_true, if_false] at h
      have hhead : ∀ p ∈ syms, strictlyBelow p x.apath = false := by
        intro p hp
        rw [belowSymlink_eq] at hb'
        cases hq : strictlyBelow p x.apath with
        | false => rfl
        | true =>
          have : syms.any (fun p => strictlyBelow p x.apath) = true := List.any_eq_true.mpr ⟨p, hp, hq⟩
          rw [this] at hb'; cases hb'
      have fin : ∀ {syms2 : List Str}, (∀ p ∈ syms, p ∈ syms2) → (restoreP H s syms2 es).2 = [] →
          (x.kind = .file → ∃ c, readBack H s x.addrs = some c) →
          (∀ p ∈ syms, ∀ y ∈ x :: es, strictlyBelow p y.apath = false) ∧
          (∀ e ∈ x :: es, e.kind = .file → ∃ c, readBack H s e.addrs = some c) := by
        intro syms2 hsub hr hx
        obtain ⟨h1, h2⟩ := ih syms2 hr
        refine ⟨fun p hp y hy => ?_, fun e he hk => ?_⟩
        · rcases List.mem_cons.mp hy with rfl | hy
          · exact hhead p hp
          · exact h1 p (hsub p hp) y hy
        · rcases List.mem_cons.mp he with rfl | he
          · exact hx hk
          · exact h2 e he hk
      cases hx : x.kind with
      | dir =>
        simp only [hx] at h
        exact fin (fun _ hp => hp) h (fun hk => by rw [hx] at hk; cases hk)
      | file =>
        simp only [hx] at h
        rcases hc : readContentP H s x.addrs [] with ⟨bytes, bad⟩
        rw [hc] at h
        cases bad with
        | some p => simp at h
        | none =>
          simp only at h
          refine fin (fun _ hp => hp) h (fun _ => ?_)
          cases hr : readBack H s x.addrs with
          | some c => exact ⟨c, rfl⟩
          | none =>
            obtain ⟨part, hh, er, hp⟩ := readContentP_none H x.addrs [] hr
            rw [hp] at hc; cases hc
      | symlink =>
        simp only [hx] at h
        cases ht : x.target with
        | none => simp [ht] at h
        | some tg =>
          simp only [ht] at h
          exact fin (fun _ hp => List.mem_cons_of_mem _ hp) h (fun hk => by rw [hx] at hk; cases hk)
      | unknown => simp [hx] at h

/-- … in the positional form. -/
theorem unshadowed_of_silent' {s : Store} :
    ∀ (es : List IndexEntry) (syms : List Str), (restoreP H s syms es).2 = [] → Unshadowed syms es := by
  intro es
  induction es with
  | nil => intro syms _; exact Unshadowed.nil syms
  | cons x es ih =>
    intro syms h
    have h1 := (unshadowed_of_silent (H := H) (x :: es) syms h).1
    refine ⟨h1, List.pairwise_cons.mpr ⟨?_, ?_⟩⟩
    · -- `x` above a later entry: then `x` is a symlink that was pushed
      intro y hy hk
      unfold restoreP at h
      have hb : belowSymlink syms x.apath = false := by
        by_cases hb : belowSymlink syms x.apath = true
        · simp [hb] at h
        · simpa using hb
      simp only [hb, Bool.false_eq_true, if_false, hk] at h
      cases ht : x.target with
      | none => simp [ht] at h
      | some tg =>
        simp only [ht] at h
        exact (unshadowed_of_silent (H := H) es (x.apath :: syms) h).1 x.apath (List.mem_cons_self ..) y hy
    · -- the rest
      unfold restoreP at h
      have hb : belowSymlink syms x.apath = false := by
        by_cases hb : belowSymlink syms x.apath = true
        · simp [hb] at h
        · simpa using hb
      simp only [hb, Bool.false_eq_true, if_false] at h
      cases hx : x.kind with
      | dir => simp only [hx] at h; exact (ih syms h).2
      | file =>
        simp only [hx] at h
        rcases hc : readContentP H s x.addrs [] with ⟨bytes, bad⟩
        rw [hc] at h
        cases bad with
        | some p => simp at h
        | none => exact (ih syms h).2
      | symlink =>
        simp only [hx] at h
        cases ht : x.target with
        | none => simp [ht] at h
        | some tg => simp only [ht] at h; exact (ih _ h).2
      | unknown => simp [hx] at h


/-! ### The loop on ANY list: every entry gets its node and report, or is reported as skipped -/

/-- What the loop makes of the tail is part of what it makes of the whole list. -/
theorem restoreP_tail_subset (s : Store) (x : IndexEntry) (es : List IndexEntry) (syms : List Str) :
    ∃ syms', (∀ nd ∈ (restoreP H s syms' es).1, nd ∈ (restoreP H s syms (x :: es)).1) ∧
      (∀ er ∈ (restoreP H s syms' es).2, er ∈ (restoreP H s syms (x :: es)).2) := by
  rw [restoreP]
  by_cases hb : belowSymlink syms x.apath = true
  · exact ⟨syms, by simp [hb], by simp only [hb, if_true]; exact fun er h => List.mem_cons_of_mem _ h⟩
  · simp only [hb, Bool.false_eq_true, if_false]
    cases hx : x.kind with
    | dir => exact ⟨syms, fun nd h => List.mem_cons_of_mem _ h, fun er h => h⟩
    | file =>
      rcases hc : readContentP H s x.addrs [] with ⟨bytes, bad⟩
      cases bad with
      | some p =>
        obtain ⟨h0, e0⟩ := p
        exact ⟨syms, fun nd h => List.mem_cons_of_mem _ h, fun er h => List.mem_cons_of_mem _ h⟩
      | none => exact ⟨syms, fun nd h => List.mem_cons_of_mem _ h, fun er h => h⟩
    | symlink =>
      cases ht : x.target with
      | none => exact ⟨syms, fun nd h => h, fun er h => List.mem_cons_of_mem _ h⟩
      | some tg => exact ⟨x.apath :: syms, fun nd h => List.mem_cons_of_mem _ h, fun er h => h⟩
    | unknown => exact ⟨syms, fun nd h => h, fun er h => List.mem_cons_of_mem _ h⟩

/-- Every node the loop produces is the node of some entry of the list. -/
theorem restoreP_node_from (s : Store) :
    ∀ (es : List IndexEntry) (syms : List Str) (nd : RNode), nd ∈ (restoreP H s syms es).1 →
      ∃ x ∈ es, nodeP H s x = some nd := by
  intro es
  induction es with
  | nil => intro syms nd h; simp [restoreP] at h
  | cons x es ih =>
    intro syms nd h
    have lift : ∀ syms2, nd ∈ (restoreP H s syms2 es).1 → ∃ y ∈ x :: es, nodeP H s y = some nd := by
      intro syms2 h2
      obtain ⟨y, hy, hyn⟩ := ih syms2 nd h2
      exact ⟨y, List.mem_cons_of_mem _ hy, hyn⟩
    rw [restoreP] at h
    by_cases hb : belowSymlink syms x.apath = true
    · simp only [hb, if_true] at h; exact lift _ h
    · simp only [hb, Bool.false_eq_true, if_false] at h
      cases hx : x.kind with
      | dir =>
        simp only [hx, List.mem_cons] at h
        rcases h with rfl | h
        · exact ⟨x, List.mem_cons_self .., by simp [nodeP, hx]⟩
        · exact lift _ h
      | file =>
        simp only [hx] at h
        rcases hc : readContentP H s x.addrs [] with ⟨bytes, bad⟩
        rw [hc] at h
        cases bad with
        | some p =>
          obtain ⟨h0, e0⟩ := p
          simp only [List.mem_cons] at h
          rcases h with rfl | h
          · exact ⟨x, List.mem_cons_self .., by simp [nodeP, hx, hc]⟩
          · exact lift _ h
        | none =>
          simp only [List.mem_cons] at h
          rcases h with rfl | h
          · exact ⟨x, List.mem_cons_self .., by simp [nodeP, hx, hc]⟩
          · exact lift _ h
      | symlink =>
        simp only [hx] at h
        cases ht : x.target with
        | none => simp only [ht] at h; exact lift _ h
        | some tg =>
          simp only [ht, List.mem_cons] at h
          rcases h with rfl | h
          · exact ⟨x, List.mem_cons_self .., by simp [nodeP, hx, ht]⟩
          · exact lift _ h
      | unknown => simp only [hx] at h; exact lift _ h

/-- Every entry of the list is either skipped below a symlink — and `invalidMetadata` is reported — or
gets its node and its report. -/
theorem restoreP_entry (s : Store) :
    ∀ (es : List IndexEntry) (syms : List Str) (x : IndexEntry), x ∈ es →
      Err.invalidMetadata ∈ (restoreP H s syms es).2 ∨
      ((∀ nd, nodeP H s x = some nd → nd ∈ (restoreP H s syms es).1) ∧
       (∀ er, errP H s x = some er → er ∈ (restoreP H s syms es).2)) := by
  intro es
  induction es with
  | nil => intro syms x h; cases h
  | cons y es ih =>
    intro syms x hx
    rcases List.mem_cons.mp hx with rfl | hx'
    · rw [restoreP]
      by_cases hb : belowSymlink syms x.apath = true
      · left; simp [hb]
      · right
        simp only [hb, Bool.false_eq_true, if_false]
        cases hk : x.kind with
        | dir => simp [nodeP, errP, hk]
        | file =>
          rcases hc : readContentP H s x.addrs [] with ⟨bytes, bad⟩
          cases bad with
          | some p => obtain ⟨h0, e0⟩ := p; simp [nodeP, errP, hk, hc]
          | none => simp [nodeP, errP, hk, hc]
        | symlink =>
          cases ht : x.target with
          | none => simp [nodeP, errP, hk, ht]
          | some tg => simp [nodeP, errP, hk, ht]
        | unknown => simp [nodeP, errP, hk]
    · obtain ⟨syms', h1, h2⟩ := restoreP_tail_subset (H := H) s y es syms
      rcases ih syms' x hx' with h | ⟨ha, hb⟩
      · exact .inl (h2 _ h)
      · exact .inr ⟨fun nd hn => h1 _ (ha nd hn), fun er he => h2 _ (hb er he)⟩

end Conserve.Contain
