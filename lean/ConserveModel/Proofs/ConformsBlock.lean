import ConserveModel.Proofs.ConformsStep
import ConserveModel.Proofs.FrameOps
/-
C13, the block-level half of `backup` (`copy_entry` and everything below it):
(a) it only issues block operations — reads, creation of a block sub-directory named by the first
    three characters of a hash, `CreateNew` writes of a block under the hash of its content — and
    those keep the store invariant `CI` and leave every non-block key alone, in every world;
(b) pure facts about the writer it returns (`BufStep`): band, sequence and hunk count unchanged,
    and the buffered entries (pending ++ finished ++ queue), seen through (apath, kind, target),
    are the old ones plus at most the entry for the source file just processed.
No property statements here.
-/
namespace Conserve.Conf
open Conserve Conserve.Inv Prog

/-- The block hash, as a file name, has at least the three characters that name its sub-directory
(BLAKE2b-512 in hex has 128). -/
def HashLen (H : Str → Str) : Prop := ∀ c, subdirNameChars ≤ (H c).length

/-- Operations of the block store. -/
def BlockOp (H : Str → Str) (o : Op) : Prop :=
  o.isMutating = false ∨ (∃ d, o = .createDir (.blockDir ((H d).take subdirNameChars))) ∨
  (∃ d, o = .write (.block (H d)) (.blockData d) .createNew)

/-- Every key that is neither a block nor a block sub-directory has the same value. -/
def NonBlockSame (s s' : Store) : Prop :=
  ∀ k, (∀ h, k ≠ .block h) → (∀ p, k ≠ .blockDir p) → s'.get? k = s.get? k

theorem NonBlockSame.refl (s : Store) : NonBlockSame s s := fun _ _ _ => rfl

theorem NonBlockSame.trans {a b c : Store} (h1 : NonBlockSame a b) (h2 : NonBlockSame b c) :
    NonBlockSame a c := fun k hb hd => (h2 k hb hd).trans (h1 k hb hd)

theorem NonBlockSame.bandKeys {s s' : Store} (h : NonBlockSame s s') (b : Nat) : BandKeysSame b s s' :=
  ⟨fun n => h _ (fun _ => by simp) (fun _ => by simp), h _ (fun _ => by simp) (fun _ => by simp),
   h _ (fun _ => by simp) (fun _ => by simp)⟩

section
variable {H : Str → Str}

theorem BlockOp.createOnly {o : Op} (ho : BlockOp H o) : Inv.CreateOnly o := by
  rcases ho with ho | ⟨d, rfl⟩ | ⟨d, rfl⟩
  · exact Or.inl ho
  · exact Or.inr (Or.inl ⟨_, rfl⟩)
  · exact Or.inr (Or.inr ⟨_, _, rfl⟩)

/-- One block operation, in every world that enforces `CreateNew`. -/
theorem exec_blockOp (hlen : HashLen H) (w : World) (he : w.enforceCreateNew = true)
    (h : CI H w.store) {o : Op} (ho : BlockOp H o) :
    CI H (w.exec o).1.store ∧ NonBlockSame w.store (w.exec o).1.store := by
  rcases ho with ho | ⟨d, rfl⟩ | ⟨d, rfl⟩
  · rw [w.inv_exec_ro_store o ho]; exact ⟨h, NonBlockSame.refl _⟩
  · refine ⟨exec_createDir_plain h ?_ (fun b => touchesBand_blockDir _ b), ?_⟩
    · have := hlen d
      simp [blockEntryOk, FileVal.isDir, List.length_take]
      omega
    · rcases exec_createDir_cases w (.blockDir ((H d).take subdirNameChars)) with hs | ⟨_, _, hs⟩
      · rw [hs]; exact NonBlockSame.refl _
      · rw [hs]
        intro k _ hd
        rw [Store.inv_get?_put, if_neg (hd _)]
  · refine ⟨exec_write_block h he d, ?_⟩
    rcases exec_write_cases w (.block (H d)) (.blockData d) he with ⟨hs, _⟩ | ⟨_, _, ⟨hs, _⟩ | ⟨hs, _⟩⟩
    · rw [hs]; exact NonBlockSame.refl _
    · rw [hs]; intro k hb _; rw [Store.inv_get?_put, if_neg (hb _)]
    · rw [hs]; intro k hb _; rw [Store.inv_get?_put, if_neg (hb _)]

/-- A program built from block operations keeps `CI` and every non-block key, and only extends
the store, in every world. -/
theorem run_blockOps (hlen : HashLen H) {α : Type} {p : Prog α} (hp : Prog.AllOps (BlockOp H) p)
    (w : World) (he : w.enforceCreateNew = true) (h : CI H w.store) :
    CI H (p.run w).2.store ∧ NonBlockSame w.store (p.run w).2.store ∧ Extends w.store (p.run w).2.store := by
  have := Prog.run_world_inv (P := BlockOp H)
    (I := fun w' => w'.enforceCreateNew = true ∧ CI H w'.store ∧ NonBlockSame w.store w'.store ∧
      Extends w.store w'.store)
    (fun _ _ h => h)
    (fun w' o ho ⟨he', hc, hs, hx⟩ =>
      ⟨by simpa using he', (exec_blockOp hlen w' he' hc ho).1, hs.trans (exec_blockOp hlen w' he' hc ho).2,
       hx.inv_trans (w'.inv_exec_extends o he' ho.createOnly)⟩)
    hp w ⟨he, h, NonBlockSame.refl _, Extends.refl _⟩
  exact ⟨this.2.1, this.2.2.1, this.2.2.2⟩

end

/-! ### Which operations the block-level functions issue -/

macro "blk_side" : tactic =>
  `(tactic| first
    | assumption
    | exact Or.inl rfl
    | exact Or.inr (Or.inl ⟨_, rfl⟩)
    | exact Or.inr (Or.inr ⟨_, rfl⟩))

syntax "blkops" ("[" term,* "]")? : tactic
macro_rules
  | `(tactic| blkops) => `(tactic| blkops [])
  | `(tactic| blkops [$ts,*]) => do
    let mut alts : Array (Lean.TSyntax `Lean.Parser.Tactic.tacticSeq) := #[]
    for t in ts.getElems do
      alts := alts.push (← `(tacticSeq| apply $t))
    `(tactic| repeat (first
      | exact Prog.AllOps.ret _
      | exact Prog.AllOps.fail _
      | exact Prog.AllOps.panic _
      | exact Prog.AllOps.logError _
      | exact Prog.AllOps.report _
      | assumption
      | (first $[| $alts]* | fail)
      | (apply Prog.AllOps.perform; blk_side)
      | apply Prog.AllOps.emit
      | apply Prog.AllOps.bind
      | (apply Prog.AllOps.op; blk_side)
      | intro _
      | split
      | simp only [Prog.bind_def, Prog.pure_def]
      | dsimp only))

section
variable (H : Str → Str)

theorem storeOrDedup_blk (w : Writer) (data : Str) : AllOps (BlockOp H) (storeOrDedup H w data) := by
  unfold storeOrDedup; blkops

theorem combinerFlush_blk (w : Writer) : AllOps (BlockOp H) (combinerFlush H w) := by
  unfold combinerFlush; blkops [storeOrDedup_blk]

theorem combinerPush_blk (o : BackupOpts) (w : Writer) (s : SrcEntry) :
    AllOps (BlockOp H) (combinerPush H o w s) := by
  unfold combinerPush; blkops [combinerFlush_blk]

theorem storeChunks_blk (w : Writer) (cs : List Str) (acc : List Addr) :
    AllOps (BlockOp H) (storeChunks H w cs acc) := by
  induction cs generalizing w acc with
  | nil => unfold storeChunks; blkops
  | cons c cs ih => unfold storeChunks; blkops [storeOrDedup_blk, ih]

theorem storeFileContent_blk (o : BackupOpts) (w : Writer) (s : SrcEntry) :
    AllOps (BlockOp H) (storeFileContent H o w s) := by
  unfold storeFileContent; blkops [storeChunks_blk]

theorem copyFile_blk (o : BackupOpts) (w : Writer) (basis : Option IndexEntry) (s : SrcEntry) :
    AllOps (BlockOp H) (copyFile H o w basis s) := by
  unfold copyFile; blkops [combinerPush_blk, storeFileContent_blk]

theorem copyEntry_blk (o : BackupOpts) (w : Writer) (basis : Option IndexEntry) (s : SrcEntry) :
    AllOps (BlockOp H) (copyEntry H o w basis s) := by
  unfold copyEntry; blkops [copyFile_blk]

end

/-! ### Pure facts about returned values -/

/-- Whatever the world, if the program returns `a` then `Q a`. -/
def RetSpec {α : Type} (p : Prog α) (Q : α → Prop) : Prop := ∀ w a, (p.run w).1 = .ok a → Q a

namespace RetSpec

theorem ret {α : Type} {a : α} {Q : α → Prop} (h : Q a) : RetSpec (.ret a) Q :=
  fun _ _ h' => by cases h'; exact h

theorem fail {α : Type} {e : Err} {Q : α → Prop} : RetSpec (.fail e : Prog α) Q := fun _ _ h' => nomatch h'

theorem panic {α : Type} {m : String} {Q : α → Prop} : RetSpec (.panic m : Prog α) Q := fun _ _ h' => nomatch h'

theorem emit {α : Type} {ev : Event} {k : Prog α} {Q : α → Prop} (h : RetSpec k Q) : RetSpec (.emit ev k) Q :=
  fun w a ha => h { w with events := ev :: w.events } a ha

theorem op {α : Type} {o : Op} {k : Resp → Prog α} {Q : α → Prop} (h : ∀ r, RetSpec (k r) Q) :
    RetSpec (.op o k) Q := fun _ a ha => h _ _ a ha

theorem bind {α β : Type} {p : Prog α} {f : α → Prog β} {Q1 : α → Prop} {Q : β → Prop}
    (hp : RetSpec p Q1) (hf : ∀ a, Q1 a → RetSpec (f a) Q) : RetSpec (p.bind f) Q := by
  intro w b hb
  rw [Prog.run_bind] at hb
  cases hrun : p.run w with
  | mk out w1 =>
    rw [hrun] at hb
    cases out with
    | ok a => exact hf a (hp w a (by rw [hrun])) w1 b hb
    | err e => cases hb
    | panic m => cases hb

theorem mono {α : Type} {p : Prog α} {Q Q' : α → Prop} (hp : RetSpec p Q) (h : ∀ a, Q a → Q' a) :
    RetSpec p Q' := fun w a ha => h a (hp w a ha)

end RetSpec

/-- What the order / shape argument needs of an index entry. -/
abbrev Sig := Str × Kind × Option Str

def sig (e : IndexEntry) : Sig := (e.apath, e.kind, e.target)

/-- The entries the writer holds in memory: pending, finished, and queued in the combiner. -/
def bufEntries (wr : Writer) : List IndexEntry := wr.pending ++ wr.finished ++ wr.queue.map (·.2.2)

def bufSig (wr : Writer) : List Sig := (bufEntries wr).map sig

/-- Writer before / after a block-level function: same band, sequence and hunk count; the buffered
entries are the old ones plus `xs` (up to order; addresses may have been filled in). -/
structure BufStep (wr wr' : Writer) (xs : List Sig) : Prop where
  band : wr'.band = wr.band
  seq : wr'.sequence = wr.sequence
  hw : wr'.hunksWritten = wr.hunksWritten
  perm : (bufSig wr').Perm (bufSig wr ++ xs)

theorem BufStep.of_eq {wr wr' : Writer} (hb : wr'.band = wr.band) (hs : wr'.sequence = wr.sequence)
    (hh : wr'.hunksWritten = wr.hunksWritten) (he : bufSig wr' = bufSig wr) : BufStep wr wr' [] :=
  ⟨hb, hs, hh, by rw [he]; simp⟩

theorem BufStep.refl (wr : Writer) : BufStep wr wr [] := BufStep.of_eq rfl rfl rfl rfl

theorem BufStep.trans_nil {a b c : Writer} {xs : List Sig} (h1 : BufStep a b xs) (h2 : BufStep b c []) :
    BufStep a c xs :=
  ⟨h2.band.trans h1.band, h2.seq.trans h1.seq, h2.hw.trans h1.hw,
   (by simpa using h2.perm : (bufSig c).Perm (bufSig b)).trans h1.perm⟩

theorem BufStep.nil_trans {a b c : Writer} {xs : List Sig} (h1 : BufStep a b []) (h2 : BufStep b c xs) :
    BufStep a c xs :=
  ⟨h2.band.trans h1.band, h2.seq.trans h1.seq, h2.hw.trans h1.hw,
   h2.perm.trans (List.Perm.append_right xs (by simpa using h1.perm))⟩

theorem perm_insert {α : Type} (a : α) (l1 l2 : List α) : (l1 ++ a :: l2).Perm (l1 ++ l2 ++ [a]) :=
  List.perm_middle.trans (List.perm_append_singleton a (l1 ++ l2)).symm

theorem BufStep.pushPending (wr : Writer) (e : IndexEntry) (st : Stats) :
    BufStep wr { wr with pending := wr.pending ++ [e], stats := st } [sig e] := by
  refine ⟨rfl, rfl, rfl, ?_⟩
  simp only [bufSig, bufEntries, List.map_append, List.map_cons, List.append_assoc,
    List.singleton_append]
  exact (perm_insert _ _ _).trans (by simp)

theorem BufStep.pushFinished (wr : Writer) (e : IndexEntry) (st : Stats) :
    BufStep wr { wr with finished := wr.finished ++ [e], stats := st } [sig e] := by
  refine ⟨rfl, rfl, rfl, ?_⟩
  simp only [bufSig, bufEntries, List.map_append, List.map_cons, List.append_assoc,
    List.singleton_append]
  have := perm_insert (sig e) (wr.pending.map sig ++ wr.finished.map sig) ((wr.queue.map (·.2.2)).map sig)
  simpa using this

section
variable (H : Str → Str)

theorem storeOrDedup_ret (wr : Writer) (data : Str) :
    RetSpec (storeOrDedup H wr data) (fun x => ∃ ex st, x.1 = { wr with exists_ := ex, stats := st }) := by
  unfold storeOrDedup perform
  simp only [Prog.bind_def, Prog.pure_def, Prog.op_bind, Prog.ret_bind]
  split
  · exact RetSpec.ret ⟨_, _, rfl⟩
  · apply RetSpec.op; intro r1
    split
    · exact RetSpec.ret ⟨wr.exists_, wr.stats, rfl⟩
    · apply RetSpec.op; intro r2
      split
      · exact RetSpec.ret ⟨_, _, rfl⟩
      · exact RetSpec.ret ⟨wr.exists_, wr.stats, rfl⟩
      · exact RetSpec.ret ⟨wr.exists_, wr.stats, rfl⟩

theorem sig_queue_done (h : Str) (q : List (Nat × Nat × IndexEntry)) :
    (q.map fun (x : Nat × Nat × IndexEntry) =>
      ({ x.2.2 with addrs := [{ hash := h, start := x.1, len := x.2.1 }] } : IndexEntry)).map sig =
    (q.map (·.2.2)).map sig := by
  simp only [List.map_map]
  rfl

theorem combinerFlush_ret (wr : Writer) :
    RetSpec (combinerFlush H wr) (fun x => BufStep wr x.1 [] ∧ (x.2 = .ok () → x.1.queue = [])) := by
  unfold combinerFlush
  simp only [Prog.bind_def, Prog.pure_def]
  split
  · rename_i hq
    exact RetSpec.ret ⟨BufStep.refl _, fun _ => by simpa using hq⟩
  · refine RetSpec.bind (storeOrDedup_ret H _ _) ?_
    rintro ⟨w1, r⟩ ⟨ex, st, hw1⟩
    simp only at hw1
    subst hw1
    cases r with
    | error e => exact RetSpec.ret ⟨BufStep.of_eq rfl rfl rfl rfl, fun h => nomatch h⟩
    | ok h =>
      refine RetSpec.ret ⟨BufStep.of_eq rfl rfl rfl ?_, fun _ => rfl⟩
      simp only [bufSig, bufEntries, List.map_append, List.map_nil, List.append_nil, List.append_assoc]
      congr 2
      exact sig_queue_done h wr.queue

theorem combinerPush_ret (o : BackupOpts) (wr : Writer) (sf : SrcEntry) :
    RetSpec (combinerPush H o wr sf) (fun x => BufStep wr x.1 [sig (metaOf o sf)]) := by
  unfold combinerPush
  simp only [metadataFrom_eq, Prog.pure_def]
  split
  · exact RetSpec.ret (BufStep.pushFinished wr _ _)
  · have hstep : BufStep wr
        { wr with buf := wr.buf ++ sf.content.take sf.size,
                  queue := wr.queue ++ [(wr.buf.length, (sf.content.take sf.size).length, metaOf o sf)],
                  stats := { wr.stats with smallCombinedFiles := wr.stats.smallCombinedFiles + 1 } }
        [sig (metaOf o sf)] := by
      refine ⟨rfl, rfl, rfl, ?_⟩
      simp [bufSig, bufEntries]
    split
    · exact (combinerFlush_ret H _).mono fun x hx => hstep.trans_nil hx.1
    · exact RetSpec.ret hstep

theorem storeChunks_ret (cs : List Str) (wr : Writer) (acc : List Addr) :
    RetSpec (storeChunks H wr cs acc) (fun x => ∃ ex st, x.1 = { wr with exists_ := ex, stats := st }) := by
  induction cs generalizing wr acc with
  | nil => exact RetSpec.ret ⟨_, _, rfl⟩
  | cons c cs ih =>
    unfold storeChunks
    simp only [Prog.bind_def, Prog.pure_def]
    refine RetSpec.bind (storeOrDedup_ret H _ _) ?_
    rintro ⟨w1, r⟩ ⟨ex, st, hw1⟩
    simp only at hw1
    subst hw1
    cases r with
    | error e => exact RetSpec.ret ⟨_, _, rfl⟩
    | ok h =>
      refine (ih _ _).mono ?_
      rintro x ⟨ex', st', hx⟩
      exact ⟨ex', st', hx⟩

theorem storeFileContent_ret (o : BackupOpts) (wr : Writer) (sf : SrcEntry) :
    RetSpec (storeFileContent H o wr sf) (fun x => ∃ ex st, x.1 = { wr with exists_ := ex, stats := st }) := by
  unfold storeFileContent
  simp only [Prog.bind_def, Prog.pure_def]
  refine RetSpec.bind (storeChunks_ret H _ _ _) ?_
  rintro ⟨w1, r⟩ ⟨ex, st, hw1⟩
  simp only at hw1
  subst hw1
  cases r with
  | error e => exact RetSpec.ret ⟨_, _, rfl⟩
  | ok addrs => exact RetSpec.ret ⟨_, _, rfl⟩

/-- The result every recording function has: nothing or exactly the entry of this source file
joined the buffered entries. -/
def StepOf (o : BackupOpts) (sf : SrcEntry) (wr wr' : Writer) : Prop :=
  ∃ xs, (xs = [] ∨ xs = [sig (metaOf o sf)]) ∧ BufStep wr wr' xs

theorem copyFileStore_ret (o : BackupOpts) (wr : Writer) (ck : ChangeKind) (sf : SrcEntry) :
    RetSpec (copyFileStore H o wr ck sf) (fun x => StepOf o sf wr x.1) := by
  unfold copyFileStore
  simp only [metadataFrom_eq, Prog.pure_def, Prog.bind_def]
  split
  · exact RetSpec.ret ⟨_, Or.inr rfl, BufStep.pushPending wr _ _⟩
  · split
    · refine RetSpec.bind (combinerPush_ret H o wr sf) ?_
      rintro ⟨w1, r⟩ hstep
      cases r with
      | error e => exact RetSpec.ret ⟨_, Or.inr rfl, hstep⟩
      | ok u => exact RetSpec.ret ⟨_, Or.inr rfl, hstep⟩
    · refine RetSpec.bind (storeFileContent_ret H o wr sf) ?_
      rintro ⟨w1, r⟩ ⟨ex, st, hw1⟩
      simp only at hw1
      subst hw1
      cases r with
      | error e => exact RetSpec.ret ⟨[], Or.inl rfl, BufStep.of_eq rfl rfl rfl rfl⟩
      | ok addrs =>
        refine RetSpec.ret ⟨_, Or.inr rfl, ?_⟩
        exact BufStep.nil_trans (b := { wr with exists_ := ex, stats := st })
          (BufStep.of_eq rfl rfl rfl rfl) (BufStep.pushPending _ { metaOf o sf with addrs := addrs } st)

theorem StepOf.of_stats {o : BackupOpts} {sf : SrcEntry} {wr wr' : Writer} (st : Stats)
    (h : StepOf o sf { wr with stats := st } wr') : StepOf o sf wr wr' := by
  obtain ⟨xs, hxs, hstep⟩ := h
  exact ⟨xs, hxs, BufStep.nil_trans (b := { wr with stats := st }) (BufStep.of_eq rfl rfl rfl rfl) hstep⟩

theorem copyFile_ret (o : BackupOpts) (wr : Writer) (basis : Option IndexEntry) (sf : SrcEntry) :
    RetSpec (copyFile H o wr basis sf) (fun x => StepOf o sf wr x.1) := by
  cases basis with
  | none =>
    rw [copyFile_none]
    exact (copyFileStore_ret H o _ _ sf).mono fun x hx => hx.of_stats
  | some b =>
    cases hh : heuristicallyUnchanged sf b with
    | none => rw [copyFile_panic o wr b sf hh]; exact RetSpec.panic
    | some t =>
      cases t with
      | false =>
        rw [copyFile_changed o wr b sf hh]
        exact (copyFileStore_ret H o _ _ sf).mono fun x hx => hx.of_stats
      | true =>
        cases hall : b.addrs.all (fun a => wr.exists_.contains a.hash) with
        | false =>
          rw [copyFile_damaged o wr b sf hh hall]
          exact (copyFileStore_ret H o _ _ sf).mono fun x hx => hx.of_stats
        | true =>
          obtain ⟨st', ck, heq⟩ := copyFile_unchanged (H := H) o wr b sf hh hall
          rw [heq]
          exact RetSpec.ret ⟨_, Or.inr rfl, BufStep.pushPending wr { metaOf o sf with addrs := b.addrs } st'⟩

theorem copyEntry_ret (o : BackupOpts) (wr : Writer) (basis : Option IndexEntry) (sf : SrcEntry) :
    RetSpec (copyEntry H o wr basis sf) (fun x => StepOf o sf wr x.1) := by
  unfold copyEntry
  simp only [metadataFrom_eq, Prog.pure_def]
  cases hk : sf.kind with
  | file => exact copyFile_ret H o wr basis sf
  | dir => exact RetSpec.ret ⟨_, Or.inr rfl, BufStep.pushPending wr _ _⟩
  | symlink => exact RetSpec.ret ⟨_, Or.inr rfl, BufStep.pushPending wr _ _⟩
  | unknown => exact RetSpec.ret ⟨[], Or.inl rfl, BufStep.of_eq rfl rfl rfl rfl⟩

end

end Conserve.Conf
