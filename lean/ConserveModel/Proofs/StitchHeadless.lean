import ConserveModel.Proofs.StitchRule
import ConserveModel.Proofs.HistCongr
/-
The repair of `previous_existing_band` (src/index/stitch.rs): on its way down, the walk reports an id
whose head file is gone although its index still holds hunk 0 (`headLost`, StitchSpec.lean).

* `stitchDownOld`, `stitchDownOldP`: the walk as it was before the repair, and its store-level mirror;
  `run_stitchDownOld`.
* the repaired walk against the old one: same entries, the old errors in the same order, and nothing
  added but `bandHeadMissing` of ids that lost their head.
* a lost head on the way down is always among the errors (`lost_mem_stitchDownP`, `lost_mem_listErrors`).
* a directory without head and without hunk 0 is passed over like an absent one
  (`stitchDownP_leftover`, `chainSame_of_absent`).
No property statements here (Props/C10h.lean).
-/
namespace Conserve
open Prog

/-! ### The walk before the repair -/

/-- `stitchDown` (IndexRead.lean) as it was before the repair: an id without head file is passed
over without looking at anything else. -/
def stitchDownOld : Nat → Option Str → Prog (List IndexEntry)
  | 0, _ => pure []
  | b + 1, last => do
    if ← unwrapOr (bandExists b) false then
      let (es, last') ← readBand b last
      if ← unwrapOr (bandIsClosed b) false then pure es
      else
        let more ← stitchDownOld b last'
        pure (es ++ more)
    else stitchDownOld b last

/-- `stitchDownOld` on a store: entries, and the errors reported (in order). -/
def stitchDownOldP (s : Store) : Nat → Option Str → List IndexEntry × List Err
  | 0, _ => ([], [])
  | b + 1, last =>
    if isFileP s (.bandHead b) then
      let r := bandTake s b last
      if isFileP s (.bandTail b) then (r.1, bandErrs s b)
      else
        let m := stitchDownOldP s b r.2
        (r.1 ++ m.1, bandErrs s b ++ m.2)
    else stitchDownOldP s b last

theorem run_stitchDownOld {s : Store} (b : Nat) :
    ∀ (last : Option Str) (evs : List Event) (w : World), Quiet s evs w →
    ∃ w', (stitchDownOld b last).run w = (.ok (stitchDownOldP s b last).1, w') ∧
      Quiet s (evsOf (stitchDownOldP s b last).2 ++ evs) w' := by
  induction b with
  | zero => intro last evs w h; exact ⟨w, rfl, by simpa [stitchDownOldP, evsOf] using h⟩
  | succ b ih =>
    intro last evs w h
    obtain ⟨w1, h1, q1⟩ := run_unwrapOr_isFile h (.bandHead b) false
    simp only [stitchDownOld, stitchDownOldP, bandExists, bandIsClosed, Prog.bind_def, Prog.run_bind, h1]
    by_cases hex : isFileP s (.bandHead b) = true
    · obtain ⟨w2, h2, q2⟩ := run_readBand q1 b last
      obtain ⟨w3, h3, q3⟩ := run_unwrapOr_isFile q2 (.bandTail b) false
      simp only [hex, if_true, Prog.run_bind, h2, h3]
      by_cases hcl : isFileP s (.bandTail b) = true
      · exact ⟨w3, by simp [hcl], by simpa [hcl] using q3⟩
      · obtain ⟨w4, h4, q4⟩ := ih (bandTake s b last).2 _ w3 q3
        refine ⟨w4, by simp [hcl, Prog.run_bind, h4], ?_⟩
        simp only [hcl, Bool.false_eq_true, if_false, evsOf_append, List.append_assoc]
        exact q4
    · obtain ⟨w2, h2, q2⟩ := ih last evs w1 q1
      exact ⟨w2, by simpa [hex] using h2, by simpa [hex] using q2⟩

/-! ### The repaired walk against the old one -/

theorem headLost_absent_eq {s : Store} {b : Nat} (hp : isFileP s (.bandHead b) = false) :
    isFileP s (.hunk b 0) = headLost s b :=
  headLost_eq s b (by rw [← bandPresent_eq]; exact hp)

theorem headLost_absent' {s : Store} {b : Nat} (h : headLost s b = true) : bandPresent s b = false := by
  unfold headLost at h
  cases hp : bandPresent s b with
  | false => rfl
  | true => simp [hp] at h

/-- The same entries. -/
theorem stitchDownP_fst_old (s : Store) (b : Nat) : ∀ last,
    (stitchDownP s b last).1 = (stitchDownOldP s b last).1 := by
  induction b with
  | zero => intro _; rfl
  | succ b ih =>
    intro last
    simp only [stitchDownP, stitchDownOldP]
    by_cases hex : isFileP s (.bandHead b) = true
    · by_cases hcl : isFileP s (.bandTail b) = true
      · simp [hex, hcl]
      · simp [hex, hcl, ih]
    · simp [hex, ih]

/-- The old errors, in the same order. -/
theorem stitchDownOldP_sublist (s : Store) (b : Nat) : ∀ last,
    ((stitchDownOldP s b last).2).Sublist (stitchDownP s b last).2 := by
  induction b with
  | zero => intro _; exact List.Sublist.refl _
  | succ b ih =>
    intro last
    simp only [stitchDownP, stitchDownOldP]
    by_cases hex : isFileP s (.bandHead b) = true
    · by_cases hcl : isFileP s (.bandTail b) = true
      · simp [hex, hcl]
      · simp only [hex, hcl, if_true, Bool.false_eq_true, if_false]
        exact List.Sublist.append (List.Sublist.refl _) (ih _)
    · simp only [hex, Bool.false_eq_true, if_false]
      exact (ih last).trans (List.sublist_append_right _ _)

/-- Nothing is added but `bandHeadMissing` of ids below that lost their head. -/
theorem mem_stitchDownP_snd {s : Store} {e : Err} (b : Nat) : ∀ last,
    e ∈ (stitchDownP s b last).2 →
    e ∈ (stitchDownOldP s b last).2 ∨ ∃ c, c < b ∧ headLost s c = true ∧ e = .bandHeadMissing c := by
  induction b with
  | zero => intro _ h; simp [stitchDownP] at h
  | succ b ih =>
    intro last h
    simp only [stitchDownP, stitchDownOldP] at h ⊢
    by_cases hex : isFileP s (.bandHead b) = true
    · by_cases hcl : isFileP s (.bandTail b) = true
      · simp only [hex, hcl, if_true] at h ⊢
        exact Or.inl h
      · simp only [hex, hcl, if_true, Bool.false_eq_true, if_false, List.mem_append] at h ⊢
        rcases h with h | h
        · exact Or.inl (Or.inl h)
        · rcases ih _ h with h | ⟨c, hc, hl, rfl⟩
          · exact Or.inl (Or.inr h)
          · exact Or.inr ⟨c, by omega, hl, rfl⟩
    · have hex' : isFileP s (.bandHead b) = false := by simpa using hex
      simp only [hex', Bool.false_eq_true, if_false, List.mem_append] at h ⊢
      rcases h with h | h
      · rw [headLost_absent_eq hex'] at h
        by_cases hl : headLost s b = true
        · simp only [hl, if_true, List.mem_singleton] at h
          exact Or.inr ⟨b, by omega, hl, h⟩
        · simp [hl] at h
      · rcases ih _ h with h | ⟨c, hc, hl, rfl⟩
        · exact Or.inl h
        · exact Or.inr ⟨c, by omega, hl, rfl⟩

/-- No id below has lost its head: the repaired walk is the old walk. -/
theorem stitchDownP_eq_old {s : Store} (b : Nat) (hn : ∀ c, c < b → headLost s c = false) : ∀ last,
    stitchDownP s b last = stitchDownOldP s b last := by
  induction b with
  | zero => intro _; rfl
  | succ b ih =>
    intro last
    have ih' := ih (fun c hc => hn c (by omega))
    simp only [stitchDownP, stitchDownOldP]
    by_cases hex : isFileP s (.bandHead b) = true
    · by_cases hcl : isFileP s (.bandTail b) = true
      · simp [hex, hcl]
      · simp [hex, hcl, ih']
    · have hex' : isFileP s (.bandHead b) = false := by simpa using hex
      simp [hex', ih', headLost_absent_eq hex', hn b (by omega)]

/-! ### A lost head on the way down is reported -/

/-- The walk down from `n` gets as far as `b`: no version strictly between is complete. -/
def WalkReaches (s : Store) (n b : Nat) : Prop :=
  b < n ∧ ∀ c, b < c → c < n → ¬ (bandPresent s c = true ∧ isComplete s c = true)

theorem WalkReaches.pred {s : Store} {n b : Nat} (h : WalkReaches s (n + 1) b) (hne : b ≠ n) :
    WalkReaches s n b ∧ ¬ (bandPresent s n = true ∧ isComplete s n = true) :=
  ⟨⟨by have := h.1; omega, fun c h1 h2 => h.2 c h1 (by omega)⟩, h.2 n (by have := h.1; omega) (by omega)⟩

theorem lost_mem_stitchDownP {s : Store} {b : Nat} (hl : headLost s b = true) (n : Nat) : ∀ last,
    WalkReaches s n b → Err.bandHeadMissing b ∈ (stitchDownP s n last).2 := by
  induction n with
  | zero => intro _ h; exact absurd h.1 (by omega)
  | succ n ih =>
    intro last h
    simp only [stitchDownP]
    by_cases hbn : b = n
    · subst hbn
      have hp : isFileP s (.bandHead b) = false := by rw [bandPresent_eq]; exact headLost_absent' hl
      simp [hp, headLost_absent_eq hp, hl]
    · obtain ⟨hr, hnc⟩ := h.pred hbn
      by_cases hex : isFileP s (.bandHead n) = true
      · have hcl : isFileP s (.bandTail n) = false := by
          cases hc : isFileP s (.bandTail n) with
          | false => rfl
          | true => exact absurd ⟨by rw [← bandPresent_eq]; exact hex, by rw [← isComplete_eq]; exact hc⟩ hnc
        simp only [hex, hcl, if_true, Bool.false_eq_true, if_false, List.mem_append]
        exact Or.inr (ih _ hr)
      · simp only [hex, Bool.false_eq_true, if_false, List.mem_append]
        exact Or.inr (ih _ hr)

theorem lost_mem_errorsBelow {s : Store} {b : Nat} (hl : headLost s b = true) (n : Nat) :
    WalkReaches s n b → Err.bandHeadMissing b ∈ errorsBelow s n := by
  induction n with
  | zero => intro h; exact absurd h.1 (by omega)
  | succ n ih =>
    intro h
    unfold errorsBelow
    by_cases hbn : b = n
    · subst hbn
      simp [headLost_absent' hl, hl]
    · obtain ⟨hr, hnc⟩ := h.pred hbn
      by_cases hp : bandPresent s n = true
      · have hc : isComplete s n = false := by
          cases hc : isComplete s n with
          | false => rfl
          | true => exact absurd ⟨hp, hc⟩ hnc
        simp only [hp, hc, if_true, Bool.false_eq_true, if_false, List.mem_append]
        exact Or.inr (ih hr)
      · simp only [hp, Bool.false_eq_true, if_false, List.mem_append]
        exact Or.inr (ih hr)

theorem lost_mem_listErrors {s : Store} {n b : Nat} (hl : headLost s b = true)
    (hopen : isComplete s n = false) (h : WalkReaches s n b) : Err.bandHeadMissing b ∈ listErrors s n := by
  unfold listErrors
  simp only [hopen, Bool.false_eq_true, if_false, List.mem_append]
  exact Or.inr (lost_mem_errorsBelow hl n h)

/-! ### A directory without head and without hunk 0 is passed over like an absent one -/

theorem stitchDownP_leftover {s : Store} {b : Nat} (hp : bandPresent s b = false)
    (h0 : headLost s b = false) (last : Option Str) : stitchDownP s (b + 1) last = stitchDownP s b last := by
  have hp' : isFileP s (.bandHead b) = false := by rw [bandPresent_eq]; exact hp
  simp [stitchDownP, hp', headLost_absent_eq hp', h0]

theorem isUnder_bandDir_other {k : Key} {m b : Nat} (h : Key.isUnder (.bandDir m) k = true) (hne : m ≠ b) :
    Key.isUnder (.bandDir b) k = false := by
  cases hh : Key.isUnder (.bandDir b) k with
  | false => rfl
  | true =>
    exfalso
    apply hne
    cases k <;> simp [Key.isUnder, Key.parent] at h hh <;> omega

/-- `s'` is `s` without anything at or under `b`'s directory, and in `s` that directory holds neither
a head nor hunk 0: the two stores look alike to the walk down from anywhere. -/
theorem chainSame_of_absent {s s' : Store} {b : Nat}
    (hout : ∀ k, Key.isUnder (.bandDir b) k = false → s'.get? k = s.get? k)
    (habs : ∀ k, Key.isUnder (.bandDir b) k = true → s'.get? k = none)
    (hp : bandPresent s b = false) (h0 : headLost s b = false) : ∀ n, Hist.ChainSame s s' n := by
  intro n
  induction n with
  | zero => trivial
  | succ m ih =>
    simp only [Hist.ChainSame]
    by_cases hex : isFileP s (.bandHead m) = true
    · have hmb : m ≠ b := by
        rintro rfl
        rw [bandPresent_eq, hp] at hex
        cases hex
      simp only [hex, if_true]
      exact ⟨fun k hk => hout k (isUnder_bandDir_other hk hmb), fun _ => ih⟩
    · have hex' : isFileP s (.bandHead m) = false := by simpa using hex
      simp only [hex', Bool.false_eq_true, if_false]
      refine ⟨?_, ?_, ih⟩
      · by_cases hmb : m = b
        · subst hmb
          simp [isFileP, habs (.bandHead m) (by simp [Key.isUnder, Key.parent])]
        · have := hout (.bandHead m) (isUnder_bandDir_other (by simp [Key.isUnder, Key.parent]) hmb)
          simp only [isFileP, this] at hex' ⊢
          exact hex'
      · by_cases hmb : m = b
        · subst hmb
          rw [headLost_absent_eq hex', h0]
          simp [isFileP, habs (.hunk m 0) (by simp [Key.isUnder, Key.parent])]
        · have := hout (.hunk m 0) (isUnder_bandDir_other (by simp [Key.isUnder, Key.parent]) hmb)
          simp only [isFileP, this]

end Conserve
