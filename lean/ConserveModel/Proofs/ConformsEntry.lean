import ConserveModel.Proofs.ConformsSat
/-
C13: the writer invariant `W2` (every recorded address resolves; only files have addresses; the
combiner's queue describes its buffer) and the block-level half of `backup` in all worlds:
`store_or_deduplicate`, the combiner, `store_file_content`, `copy_file`, `copy_entry`.
Unlike C04's `WriterOK` nothing is said about WHICH bytes an address denotes, so nothing has to be
assumed about the basis listing beyond its addresses resolving.  No property statements here.
-/
namespace Conserve.Conf
open Conserve Conserve.Inv Prog

section
variable {H : Str → Str}

/-- An entry's addresses lie inside present, well-named blocks, and only files have any. -/
def AddrOK (H : Str → Str) (s : Store) (e : IndexEntry) : Prop :=
  (∀ a ∈ e.addrs, (readAddrPure H s a).isSome = true) ∧ (e.kind ≠ .file → e.addrs = [])

theorem AddrOK.mono {s s' : Store} {e : IndexEntry} (h : AddrOK H s e) (hx : Extends s s') : AddrOK H s' e := by
  refine ⟨fun a ha => ?_, h.2⟩
  obtain ⟨x, hx'⟩ := Option.isSome_iff_exists.mp (h.1 a ha)
  rw [readAddrPure_mono H hx' hx]; rfl

theorem AddrOK.nil {s : Store} {e : IndexEntry} (h : e.addrs = []) : AddrOK H s e :=
  ⟨fun a ha => (by rw [h] at ha; cases ha), fun _ => h⟩

/-- The writer part of the C13 invariant. -/
structure W2 (H : Str → Str) (s : Store) (wr : Writer) : Prop where
  exists_ : ExistsOK H s wr.exists_
  queue : ∀ q ∈ wr.queue, q.2.2.kind = .file ∧ q.1 + q.2.1 ≤ wr.buf.length
  pending : ∀ e ∈ wr.pending, AddrOK H s e
  finished : ∀ e ∈ wr.finished, AddrOK H s e

theorem W2.mono {s s' : Store} {wr : Writer} (h : W2 H s wr) (hx : Extends s s') : W2 H s' wr :=
  ⟨h.exists_.mono hx, h.queue, fun e he => (h.pending e he).mono hx, fun e he => (h.finished e he).mono hx⟩

theorem W2.setStats {s : Store} {wr : Writer} (h : W2 H s wr) (st : Stats) : W2 H s { wr with stats := st } :=
  ⟨h.exists_, h.queue, h.pending, h.finished⟩

theorem W2.setExists {s s' : Store} {wr : Writer} (h : W2 H s wr) (hx : Extends s s') {ex : List Str}
    (hex : ExistsOK H s' ex) (st : Stats) : W2 H s' { wr with exists_ := ex, stats := st } :=
  ⟨hex, h.queue, fun e he => (h.pending e he).mono hx, fun e he => (h.finished e he).mono hx⟩

theorem W2.pushPending {s : Store} {wr : Writer} (h : W2 H s wr) {e : IndexEntry} (he : AddrOK H s e)
    (st : Stats) : W2 H s { wr with pending := wr.pending ++ [e], stats := st } := by
  refine ⟨h.exists_, h.queue, ?_, h.finished⟩
  intro e' he'
  simp only [List.mem_append, List.mem_singleton] at he'
  rcases he' with he' | rfl
  · exact h.pending e' he'
  · exact he

/-- `CI` gives the C04 world invariant relative to the store itself and an empty source (enough
to reuse C04's specification of `store_or_deduplicate`). -/
theorem CWOK.toWOK {w : World} (hw : CWOK H w) : WOK H [] w.store w := by
  refine ⟨hw.enforce, ⟨hw.ci.nodup, ?_, fun h => h, fun b n es h0 h1 => by rw [h0] at h1; cases h1⟩⟩
  apply blocksGood_of_conform
  have := hw.ci.conf
  unfold Conforms at this
  simp only [Bool.and_eq_true] at this
  exact this.1.2

/-- `BlockDir::store_or_deduplicate` in every world. -/
theorem storeOrDedup_csat (hinj : Function.Injective H) (hlen : HashLen H) (wr : Writer) (data : Str)
    (w : World) (hw : CWOK H w) (hex : ExistsOK H w.store wr.exists_) :
    CSat H (storeOrDedup H wr data) w (fun x w' =>
      ∃ ex st, x.1 = { wr with exists_ := ex, stats := st } ∧ ExistsOK H w'.store ex ∧
        ∀ h, x.2 = .ok h → h = H data ∧ blockContent H w'.store h = some data) := by
  refine ⟨(CSat.of_blk hlen (storeOrDedup_blk H wr data) hw).1, ?_⟩
  obtain ⟨ex', st', r, w', hrun, _, hex', hok, _⟩ := storeOrDedup_spec hinj wr data w hw.toWOK hex
  intro a ha
  rw [hrun] at ha ⊢
  cases ha
  exact ⟨ex', st', rfl, hex', hok⟩

/-- One address into a present block resolves. -/
theorem readAddr_single {s : Store} {buf : Str} {start len : Nat}
    (hb : blockContent H s (H buf) = some buf) (hle : start + len ≤ buf.length) :
    (readAddrPure H s { hash := H buf, start := start, len := len }).isSome = true := by
  simp [readAddrPure, hb, sliceOf, hle]

/-- `FileCombiner::flush` in every world. -/
theorem combinerFlush_csat (hinj : Function.Injective H) (hlen : HashLen H) (wr : Writer) (w : World)
    (hw : CWOK H w) (hwr : W2 H w.store wr) :
    CSat H (combinerFlush H wr) w (fun x w' => W2 H w'.store x.1 ∧ (x.2 = .ok () → x.1.queue = [])) := by
  unfold combinerFlush
  by_cases hq : wr.queue.isEmpty = true
  · simp only [hq, if_true, Prog.pure_def]
    exact CSat.ret hw ⟨hwr, fun _ => by simpa using hq⟩
  · simp only [hq, Bool.false_eq_true, ↓reduceIte, Prog.pure_def, Prog.bind_def]
    apply CSat.bind
    refine (storeOrDedup_csat hinj hlen { wr with buf := [] } wr.buf w hw hwr.exists_).mono ?_
    rintro ⟨w1, r⟩ w' hf ⟨ex, st, hw1, hex, hok⟩
    simp only at hw1
    subst hw1
    cases r with
    | error e =>
      refine CSat.ret hf.wok ⟨⟨hex, hwr.queue, ?_, ?_⟩, fun h => nomatch h⟩
      · exact fun e he => (hwr.pending e he).mono hf.ext
      · exact fun e he => (hwr.finished e he).mono hf.ext
    | ok h =>
      obtain ⟨rfl, hb⟩ := hok _ rfl
      refine CSat.ret hf.wok ⟨⟨hex, (by intro q hq; cases hq), ?_, ?_⟩, fun _ => rfl⟩
      · exact fun e he => (hwr.pending e he).mono hf.ext
      · intro e he
        simp only [List.mem_append, List.mem_map] at he
        rcases he with he | ⟨q, hq', rfl⟩
        · exact (hwr.finished e he).mono hf.ext
        · obtain ⟨start, len, e0⟩ := q
          obtain ⟨hk, hle⟩ := hwr.queue _ hq'
          refine ⟨?_, fun hne => absurd hk hne⟩
          intro a ha
          simp only [List.mem_singleton] at ha
          subst ha
          exact readAddr_single hb hle

/-- `FileCombiner::push_file` for a source file, in every world. -/
theorem combinerPush_csat (hinj : Function.Injective H) (hlen : HashLen H) (o : BackupOpts) (wr : Writer)
    (sf : SrcEntry) (w : World) (hw : CWOK H w) (hwr : W2 H w.store wr) (hkind : sf.kind = .file) :
    CSat H (combinerPush H o wr sf) w (fun x w' => W2 H w'.store x.1) := by
  unfold combinerPush
  simp only [metadataFrom_eq, Prog.pure_def]
  by_cases hd : (sf.content.take sf.size).isEmpty = true
  · simp only [hd, if_true]
    refine CSat.ret hw ⟨hwr.exists_, hwr.queue, hwr.pending, ?_⟩
    intro e he
    simp only [List.mem_append, List.mem_singleton] at he
    rcases he with he | rfl
    · exact hwr.finished e he
    · exact AddrOK.nil rfl
  · simp only [hd, Bool.false_eq_true, ↓reduceIte]
    have hwr2 : W2 H w.store
        { wr with buf := wr.buf ++ sf.content.take sf.size,
                  queue := wr.queue ++ [(wr.buf.length, (sf.content.take sf.size).length, metaOf o sf)],
                  stats := { wr.stats with smallCombinedFiles := wr.stats.smallCombinedFiles + 1 } } := by
      refine ⟨hwr.exists_, ?_, hwr.pending, hwr.finished⟩
      intro q hq
      simp only [List.mem_append, List.mem_singleton] at hq
      rcases hq with hq | rfl
      · obtain ⟨h1, h2⟩ := hwr.queue q hq
        exact ⟨h1, by simp only [List.length_append]; omega⟩
      · exact ⟨hkind, by simp⟩
    split
    · exact (combinerFlush_csat hinj hlen _ w hw hwr2).mono fun x w' _ h => h.1
    · exact CSat.ret hw hwr2

/-- `store_file_content`'s loop: every address collected resolves. -/
theorem storeChunks_csat (hinj : Function.Injective H) (hlen : HashLen H) (cs : List Str) :
    ∀ (wr : Writer) (acc : List Addr) (w : World), CWOK H w → W2 H w.store wr →
      (∀ a ∈ acc, (readAddrPure H w.store a).isSome = true) →
      CSat H (storeChunks H wr cs acc) w (fun x w' =>
        (∃ ex st, x.1 = { wr with exists_ := ex, stats := st }) ∧ W2 H w'.store x.1 ∧
        ∀ addrs, x.2 = .ok addrs → ∀ a ∈ addrs, (readAddrPure H w'.store a).isSome = true) := by
  induction cs with
  | nil =>
    intro wr acc w hw hwr hacc
    exact CSat.ret hw ⟨⟨_, _, rfl⟩, hwr, fun addrs h => by cases h; exact hacc⟩
  | cons c cs ih =>
    intro wr acc w hw hwr hacc
    unfold storeChunks
    simp only [Prog.bind_def, Prog.pure_def]
    apply CSat.bind
    refine (storeOrDedup_csat hinj hlen wr c w hw hwr.exists_).mono ?_
    rintro ⟨w1, r⟩ w' hf ⟨ex, st, hw1, hex, hok⟩
    simp only at hw1
    subst hw1
    have hwr1 := hwr.setExists hf.ext hex st
    cases r with
    | error e => exact CSat.ret hf.wok ⟨⟨_, _, rfl⟩, hwr1, fun _ h => nomatch h⟩
    | ok h =>
      obtain ⟨rfl, hb⟩ := hok _ rfl
      have hacc1 : ∀ a ∈ acc ++ [{ hash := H c, start := 0, len := c.length }],
          (readAddrPure H w'.store a).isSome = true := by
        intro a ha
        simp only [List.mem_append, List.mem_singleton] at ha
        rcases ha with ha | rfl
        · obtain ⟨x, hx'⟩ := Option.isSome_iff_exists.mp (hacc a ha)
          rw [readAddrPure_mono H hx' hf.ext]; rfl
        · exact readAddr_single hb (by simp)
      refine (ih _ _ w' hf.wok hwr1 hacc1).mono ?_
      rintro x w2 _ ⟨⟨ex', st', hx⟩, hwr2, hres⟩
      exact ⟨⟨ex', st', hx⟩, hwr2, hres⟩

/-- `store_file_content` in every world. -/
theorem storeFileContent_csat (hinj : Function.Injective H) (hlen : HashLen H) (o : BackupOpts)
    (wr : Writer) (sf : SrcEntry) (w : World) (hw : CWOK H w) (hwr : W2 H w.store wr) :
    CSat H (storeFileContent H o wr sf) w (fun x w' =>
      (∃ ex st, x.1 = { wr with exists_ := ex, stats := st }) ∧ W2 H w'.store x.1 ∧
      ∀ addrs, x.2 = .ok addrs → ∀ a ∈ addrs, (readAddrPure H w'.store a).isSome = true) := by
  unfold storeFileContent
  simp only [Prog.bind_def, Prog.pure_def]
  apply CSat.bind
  refine (storeChunks_csat hinj hlen _ wr [] w hw hwr (fun _ h => nomatch h)).mono ?_
  rintro ⟨w1, r⟩ w' hf ⟨⟨ex, st, hw1⟩, hwr1, hres⟩
  simp only at hw1
  subst hw1
  cases r with
  | error e => exact CSat.ret hf.wok ⟨⟨_, _, rfl⟩, hwr1, fun _ h => nomatch h⟩
  | ok addrs =>
    refine CSat.ret hf.wok ⟨⟨_, _, rfl⟩, hwr1.setStats _, ?_⟩
    intro addrs' h
    cases h
    exact hres addrs rfl

/-- The "store it" half of `copy_file`, in every world. -/
theorem copyFileStore_csat (hinj : Function.Injective H) (hlen : HashLen H) (o : BackupOpts) (wr : Writer)
    (ck : ChangeKind) (sf : SrcEntry) (w : World) (hw : CWOK H w) (hwr : W2 H w.store wr)
    (hkind : sf.kind = .file) :
    CSat H (copyFileStore H o wr ck sf) w (fun x w' => W2 H w'.store x.1) := by
  unfold copyFileStore
  simp only [metadataFrom_eq, Prog.pure_def, Prog.bind_def]
  split
  · exact CSat.ret hw (hwr.pushPending (AddrOK.nil rfl) _)
  · split
    · apply CSat.bind
      refine (combinerPush_csat hinj hlen o wr sf w hw hwr hkind).mono ?_
      rintro ⟨w1, r⟩ w' hf hwr1
      cases r with
      | error e => exact CSat.ret hf.wok hwr1
      | ok u => exact CSat.ret hf.wok hwr1
    · apply CSat.bind
      refine (storeFileContent_csat hinj hlen o wr sf w hw hwr).mono ?_
      rintro ⟨w1, r⟩ w' hf ⟨_, hwr1, hres⟩
      cases r with
      | error e => exact CSat.ret hf.wok hwr1
      | ok addrs =>
        refine CSat.ret hf.wok ?_
        have := hwr1.pushPending (e := { metaOf o sf with addrs := addrs })
          ⟨hres addrs rfl, fun hne => absurd hkind hne⟩ w1.stats
        exact this

/-- `copy_file` in every world.  `hbasis`: the basis entry (if it is a file entry) has addresses
that resolve — true of every entry of a conforming archive. -/
theorem copyFile_csat (hinj : Function.Injective H) (hlen : HashLen H) (o : BackupOpts) (wr : Writer)
    (basis : Option IndexEntry) (sf : SrcEntry) (w : World) (hw : CWOK H w) (hwr : W2 H w.store wr)
    (hkind : sf.kind = .file)
    (hbasis : ∀ b, basis = some b → b.kind = .file → ∀ a ∈ b.addrs, (readAddrPure H w.store a).isSome = true) :
    CSat H (copyFile H o wr basis sf) w (fun x w' => W2 H w'.store x.1) := by
  cases basis with
  | none =>
    rw [copyFile_none]
    exact copyFileStore_csat hinj hlen o _ _ sf w hw (hwr.setStats _) hkind
  | some b =>
    cases hh : heuristicallyUnchanged sf b with
    | none => rw [copyFile_panic o wr b sf hh]; exact CSat.panic hw
    | some t =>
      cases t with
      | false =>
        rw [copyFile_changed o wr b sf hh]
        exact copyFileStore_csat hinj hlen o _ _ sf w hw (hwr.setStats _) hkind
      | true =>
        cases hall : b.addrs.all (fun a => wr.exists_.contains a.hash) with
        | false =>
          rw [copyFile_damaged o wr b sf hh hall]
          exact copyFileStore_csat hinj hlen o _ _ sf w hw (hwr.setStats _) hkind
        | true =>
          obtain ⟨st', ck, heq⟩ := copyFile_unchanged (H := H) o wr b sf hh hall
          rw [heq]
          refine CSat.ret hw (hwr.pushPending ⟨?_, fun hne => absurd hkind hne⟩ st')
          exact hbasis b rfl ((heuristicallyUnchanged_kind hh).trans hkind)

/-- `copy_entry` in every world: the writer invariant is kept. -/
theorem copyEntry_w2 (hinj : Function.Injective H) (hlen : HashLen H) (o : BackupOpts) (wr : Writer)
    (basis : Option IndexEntry) (sf : SrcEntry) (w : World) (hw : CWOK H w) (hwr : W2 H w.store wr)
    (hbasis : ∀ b, basis = some b → b.kind = .file → ∀ a ∈ b.addrs, (readAddrPure H w.store a).isSome = true) :
    CSat H (copyEntry H o wr basis sf) w (fun x w' => W2 H w'.store x.1) := by
  unfold copyEntry
  simp only [metadataFrom_eq, Prog.pure_def]
  cases hk : sf.kind with
  | file => exact copyFile_csat hinj hlen o wr basis sf w hw hwr hk hbasis
  | dir => exact CSat.ret hw (hwr.pushPending (AddrOK.nil rfl) _)
  | symlink => exact CSat.ret hw (hwr.pushPending (AddrOK.nil rfl) _)
  | unknown => exact CSat.ret hw (hwr.setStats _)

end

end Conserve.Conf
