import ConserveModel.Proofs.RaceProg
import ConserveModel.Proofs.ConformsBackup
/-
C06 on the full model — `backup` cut at its storage operations up to the second look at the gc lock:
the residual program at every point as an explicit term (`bkL1 … bkL2`), and the rest (`crit`:
block listing, basis listing, main loop, tail) as one program.  No property statements here.
-/
set_option linter.unusedSimpArgs false
namespace Conserve
open Prog Conserve.Conf Conserve.Inv

section
variable (H : Str → Str) (o : BackupOpts) (src : List SrcEntry)

/-- The basis listing `backup` takes. -/
def basisListing : Option Nat → Prog (List IndexEntry)
  | some b => listEntries b [slash] fun _ => false
  | none => .ret []

/-- `backup` after its second look at the lock: list the blocks, list the basis, write. -/
def crit (basis : Option Nat) (n : Nat) : Prog Stats :=
  listBlocks.bind fun blocks => (basisListing basis).bind fun be => backupMain H o src (n, blocks, be)

/-- At the second look at the lock (`list_dir` of the archive directory). -/
def bkL2 (basis : Option Nat) (n : Nat) : Prog Stats :=
  .op (.listDir .root) (onLockListed fun l => if l = true then .fail .gcLockHeld else crit H o src basis n)

/-- At the write of the band head. -/
def bkHead (basis : Option Nat) (n : Nat) : Prog Stats :=
  .op (.write (.bandHead n) (.head .ok []) .createNew) (onUnit (bkL2 H o src basis n))

/-- At `create_dir bN/i`. -/
def bkMkI (basis : Option Nat) (n : Nat) : Prog Stats :=
  .op (.createDir (.indexDir n)) (onUnit (bkHead H o src basis n))

/-- At `create_dir bN`. -/
def bkMkdir (basis : Option Nat) (n : Nat) : Prog Stats :=
  .op (.createDir (.bandDir n)) (onUnit (bkMkI H o src basis n))

/-- At `last_band_id` inside `Band::create`. -/
def bkIdl (basis : Option Nat) : Prog Stats :=
  .op (.listDir .root) (onIds fun ids => bkMkdir H o src basis (nextId (maxNat? ids)))

/-- At `last_band_id` for the basis. -/
def bkBasis : Prog Stats := .op (.listDir .root) (onIds fun ids => bkIdl H o src (maxNat? ids))

/-- At the first look at the lock. -/
def bkL1 : Prog Stats :=
  .op (.metadata .gcLock) (onFile fun l => if l = true then .fail .gcLockHeld else bkBasis H o src)

/-- **`backup` from its first operation.** -/
theorem backup_start : backup H o src = bkL1 H o src := by
  rw [backup_eq]
  simp only [backupPrelude, gcIsLocked, isFile_bind, Prog.op_bind, onFile_bind, bkL1]
  congr 1; funext r; congr 1; funext l
  cases l
  · simp only [Bool.false_eq_true, if_false, Prog.inv_bind_assoc, lastBandId_bind, Prog.op_bind, onIds_bind, bkBasis]
    congr 1; funext r; congr 1; funext ids
    simp only [bandCreate_eq, Prog.inv_bind_assoc, lastBandId_bind, bkIdl, Prog.op_bind, onIds_bind]
    congr 1; funext r; congr 1; funext ids'
    simp only [bandCreateTail, Prog.inv_bind_assoc, performUnit_bind, Prog.ret_bind, gcLockListed_bind, bkMkdir, bkMkI,
      bkHead, bkL2, Prog.op_bind, onUnit_bind, onLockListed_bind]
    congr 1; funext r; congr 1; congr 1; funext r; congr 1; congr 1; funext r; congr 1; congr 1; funext r
    congr 1; funext l
    cases l
    · simp only [Bool.false_eq_true, if_false, Prog.inv_bind_assoc, crit]
      congr 1; funext blocks
      cases maxNat? ids <;> simp [basisListing, Prog.inv_bind_assoc]
    · rfl
  · rfl

end

end Conserve
