import ConserveModel.Proofs.StitchRule
/-
Counting the storage operations a listing issues: `Prog.opsIn p w` is the number of operation
nodes on the path `p.run w` takes.  Bounds for the listing programs in quiet worlds.
No property statements.
-/
namespace Conserve
open Prog

/-- The number of storage operations `p` issues when run in `w`. -/
def Prog.opsIn {α : Type} : Prog α → World → Nat
  | .ret _, _ => 0
  | .fail _, _ => 0
  | .panic _, _ => 0
  | .emit ev k, w => k.opsIn { w with events := ev :: w.events }
  | .op o k, w => 1 + (k (w.exec o).2).opsIn (w.exec o).1

theorem Prog.opsIn_bind {α β : Type} (p : Prog α) (f : α → Prog β) (w : World) :
    (p.bind f).opsIn w = p.opsIn w +
      (match p.run w with
       | (.ok a, w') => (f a).opsIn w'
       | _ => 0) := by
  induction p generalizing w with
  | ret a => simp [Prog.opsIn]
  | fail e => simp [Prog.opsIn]
  | panic s => simp [Prog.opsIn]
  | emit ev k ih => simp [Prog.opsIn, ih]
  | op o k ih => simp [Prog.opsIn, ih, Nat.add_assoc]

theorem Prog.opsIn_attempt {α : Type} (p : Prog α) (w : World) : p.attempt.opsIn w = p.opsIn w := by
  induction p generalizing w with
  | ret a => simp [Prog.attempt, Prog.opsIn]
  | fail e => simp [Prog.attempt, Prog.opsIn]
  | panic s => simp [Prog.attempt, Prog.opsIn]
  | emit ev k ih => simp [Prog.attempt, Prog.opsIn, ih]
  | op o k ih => simp [Prog.attempt, Prog.opsIn, ih]

/-! ### One operation each, in every world -/

theorem ops_isFile (k : Key) (w : World) : (isFile k).opsIn w = 1 := by
  simp only [isFile, perform, Prog.bind_def, Prog.op_bind, Prog.ret_bind, Prog.opsIn]
  split <;> rfl

theorem ops_unwrapOr_isFile (k : Key) (d : Bool) (w : World) : (unwrapOr (isFile k) d).opsIn w = 1 := by
  simp only [unwrapOr, Prog.bind_def, Prog.opsIn_bind, Prog.opsIn_attempt, ops_isFile]
  split
  · rename_i a w' _; cases a <;> rfl
  · rfl

theorem ops_bandOpen (b : Nat) (w : World) : (bandOpen b).opsIn w = 1 := by
  simp only [bandOpen, perform, Prog.bind_def, Prog.op_bind, Prog.ret_bind, Prog.opsIn]
  split <;> try rfl
  split <;> try rfl
  split <;> rfl

theorem ops_readHunk (b n : Nat) (w : World) : (readHunk b n).opsIn w = 1 := by
  simp only [readHunk, perform, Prog.bind_def, Prog.op_bind, Prog.ret_bind, Prog.opsIn]
  split <;> try rfl
  split <;> rfl

/-! ### Loops, in every world -/

theorem ops_hunksAvailable_go (b : Nat) (ds acc : List Nat) (w : World) :
    (hunksAvailable.go b ds acc).opsIn w ≤ ds.length := by
  induction ds generalizing acc w with
  | nil => simp [hunksAvailable.go, Prog.opsIn]
  | cons d ds ih =>
    simp only [hunksAvailable.go, perform, Prog.bind_def, Prog.op_bind, Prog.ret_bind, Prog.opsIn,
      List.length_cons]
    split
    · rw [Nat.add_comm]; exact Nat.succ_le_succ (ih _ _)
    · simp [Prog.opsIn]
    · simp [Prog.opsIn]

theorem ops_readHunks (b : Nat) (ns : List Nat) (after last : Option Str) (w : World) :
    (readHunks b ns after last).opsIn w ≤ ns.length := by
  induction ns generalizing after last w with
  | nil => simp [readHunks, Prog.opsIn]
  | cons n rest ih =>
    rw [readHunks_cons]
    simp only [Prog.opsIn_bind, Prog.opsIn_attempt, ops_readHunk, List.length_cons]
    have hb : ∀ (pre : List IndexEntry) (a l : Option Str) (w' : World),
        ((readHunks b rest a l).bind fun r => pure (pre ++ r.1, r.2)).opsIn w' ≤ rest.length := by
      intro pre a l w'
      rw [Prog.opsIn_bind]
      have := ih a l w'
      split <;> simp [Prog.opsIn] <;> omega
    split
    · rename_i r w' _
      cases r with
      | error e =>
        have := ih after last { w' with events := Event.error e :: w'.events }
        simp only [logError, Prog.emit_bind, Prog.ret_bind, Prog.opsIn]; omega
      | ok o =>
        cases o with
        | none => simp [Prog.opsIn]
        | some es =>
          simp only
          cases after with
          | none =>
            simp only
            split
            · have := ih none last w'; omega
            · have := hb es none (lastApath? es) w'; omega
          | some a =>
            simp only
            split
            · have := ih (some a) last w'; omega
            · split
              · have := hb es none (lastApath? es) w'; omega
              · have := hb (trimAfter a es) (some a) (lastOr (trimAfter a es) last) w'; omega
    · omega

/-! ### Bounds from the store, in quiet worlds -/

theorem length_sortNat (xs : List Nat) : (sortNat xs).length = xs.length :=
  (sortNat_perm xs).length_eq

theorem hunkSubdirsP_length (s : Store) (b : Nat) : (hunkSubdirsP s b).length ≤ s.length := by
  rw [hunkSubdirsP_eq, length_sortNat]; exact List.length_filterMap_le _ _

theorem hunkNumsOf_length (s : Store) (b : Nat) : (hunkNumsOf s b).length ≤ s.length := by
  rw [hunkNumsOf_eq, length_sortNat]; exact List.length_filterMap_le _ _

theorem ops_hunksAvailable {s : Store} {evs : List Event} {w : World} (h : Quiet s evs w) (b : Nat) :
    (hunksAvailable b).opsIn w ≤ 1 + s.length := by
  obtain ⟨w1, he, _⟩ := h.exec_ro (.listDir (.indexDir b)) rfl
  simp only [hunksAvailable, perform, Prog.bind_def, Prog.op_bind, Prog.ret_bind, Prog.opsIn, he, quietResp]
  cases s.get? (.indexDir b) with
  | none => simp [Prog.opsIn]
  | some v =>
    cases v with
    | dir =>
      have h1 := ops_hunksAvailable_go b (hunkSubdirsP s b) [] w1
      have h2 := hunkSubdirsP_length s b
      exact Nat.add_le_add_left (Nat.le_trans h1 h2) 1
    | _ => simp [Prog.opsIn]

theorem ops_hunkLengths_go (b : Nat) (ds : List Nat) (acc : List (Nat × Bool)) (w : World) :
    (hunkLengths.go b ds acc).opsIn w ≤ ds.length := by
  induction ds generalizing acc w with
  | nil => simp [hunkLengths.go, Prog.opsIn]
  | cons d ds ih =>
    simp only [hunkLengths.go, perform, Prog.bind_def, Prog.op_bind, Prog.ret_bind, Prog.opsIn,
      List.length_cons]
    split
    · rw [Nat.add_comm]; exact Nat.succ_le_succ (ih _ _)
    · simp [Prog.opsIn]
    · simp [Prog.opsIn]

theorem ops_hunkLengths {s : Store} {evs : List Event} {w : World} (h : Quiet s evs w) (b : Nat) :
    (hunkLengths b).opsIn w ≤ 1 + s.length := by
  obtain ⟨w1, he, _⟩ := h.exec_ro (.listDir (.indexDir b)) rfl
  simp only [hunkLengths, perform, Prog.bind_def, Prog.op_bind, Prog.ret_bind, Prog.opsIn, he, quietResp]
  cases s.get? (.indexDir b) with
  | none => simp [Prog.opsIn]
  | some v =>
    cases v with
    | dir =>
      have h1 := ops_hunkLengths_go b (hunkSubdirsP s b) [] w1
      have h2 := hunkSubdirsP_length s b
      exact Nat.add_le_add_left (Nat.le_trans h1 h2) 1
    | _ => simp [Prog.opsIn]

theorem ops_checkIndexHunks {s : Store} {evs : List Event} {w : World} (h : Quiet s evs w) (b : Nat) :
    (checkIndexHunks b).opsIn w ≤ 2 + s.length := by
  obtain ⟨w1, h1, q1⟩ := run_hunkLengths h b
  have ha := ops_hunkLengths h b
  simp only [checkIndexHunks, Prog.bind_def, Prog.opsIn_bind, h1]
  cases hunkLengthsP s b with
  | error e => simp only [toOutcome]; omega
  | ok hunks =>
    simp only [toOutcome]
    split
    · simp only [Prog.fail_bind, Prog.opsIn]; omega
    · simp only [perform, Prog.op_bind, Prog.ret_bind, Prog.opsIn]
      split <;> simp only [Prog.pure_def, Prog.ret_bind] <;> (repeat' split) <;>
        simp only [Prog.fail_bind, Prog.opsIn, Nat.add_zero] <;> omega

/-- Reading one version: head, directory listings (twice: once for the iterator, once for the
check), the tail, and the hunks. -/
theorem ops_readBand {s : Store} (wf : ArchWF s) {evs : List Event} {w : World} (h : Quiet s evs w)
    (b : Nat) (last : Option Str) : (readBand b last).opsIn w ≤ 4 + 3 * s.length := by
  obtain ⟨w1, h1, q1⟩ := run_bandOpen h b
  simp only [readBand, Prog.bind_def, Prog.opsIn_bind, Prog.opsIn_attempt, Prog.run_attempt, ops_bandOpen, h1]
  cases bandOpenP s b with
  | error e => simp [toOutcome, logError, Prog.opsIn]; omega
  | ok u =>
    obtain ⟨w2, h2, q2⟩ := run_hunksAvailable q1 b
    have ha := ops_hunksAvailable q1 b
    simp only [toOutcome, Prog.opsIn_bind, Prog.opsIn_attempt, Prog.run_attempt, h2]
    cases hh : hunksAvailableP s b with
    | error e => simp [logError, Prog.opsIn]; omega
    | ok hs =>
      obtain ⟨w3, h3, q3⟩ := run_checkIndexHunks q2 b
      have hc := ops_checkIndexHunks q2 b
      have hl : hs.length ≤ s.length := by
        by_cases hi : s.get? (.indexDir b) = some .dir
        · rw [hunksAvailableP_eq wf hi] at hh
          cases hh; exact hunkNumsOf_length s b
        · rw [hunksAvailableP_error hi] at hh; cases hh
      simp only [Prog.opsIn_bind, Prog.opsIn_attempt, Prog.run_attempt, h3]
      cases checkIndexHunksP s b with
      | error e =>
        have hr := ops_readHunks b hs last last { w3 with events := Event.error e :: w3.events }
        simp only [toOutcome, logError, Prog.emit_bind, Prog.ret_bind, Prog.opsIn]
        generalize (hunksAvailable b).opsIn w1 = x at *
        generalize (checkIndexHunks b).opsIn w2 = y at *
        generalize (readHunks b hs last last).opsIn _ = z at *
        have h5 : 1 + (x + (y + z)) ≤ 4 + 3 * s.length := by omega
        exact h5
      | ok u =>
        have hr := ops_readHunks b hs last last w3
        simp only [toOutcome]
        generalize (hunksAvailable b).opsIn w1 = x at *
        generalize (checkIndexHunks b).opsIn w2 = y at *
        generalize (readHunks b hs last last).opsIn _ = z at *
        have h5 : 1 + (x + (y + z)) ≤ 4 + 3 * s.length := by omega
        exact h5

theorem ops_stitchDown {s : Store} (wf : ArchWF s) (b : Nat) :
    ∀ (last : Option Str) (evs : List Event) (w : World), Quiet s evs w →
    (stitchDown b last).opsIn w ≤ b * (6 + 3 * s.length) := by
  generalize hK : 6 + 3 * s.length = K
  induction b with
  | zero => intro last evs w _; simp [stitchDown, Prog.opsIn]
  | succ b ih =>
    intro last evs w h
    obtain ⟨w1, h1, q1⟩ := run_unwrapOr_isFile h (.bandHead b) false
    simp only [stitchDown, bandExists, bandIsClosed, Prog.bind_def, Prog.opsIn_bind, ops_unwrapOr_isFile, h1]
    rw [Nat.succ_mul]
    by_cases hex : isFileP s (.bandHead b) = true
    · obtain ⟨w2, h2, q2⟩ := run_readBand q1 b last
      obtain ⟨w3, h3, q3⟩ := run_unwrapOr_isFile q2 (.bandTail b) false
      have hb := ops_readBand wf q1 b last
      simp only [hex, if_true, Prog.opsIn_bind, h2, ops_unwrapOr_isFile, h3]
      by_cases hcl : isFileP s (.bandTail b) = true
      · simp only [hcl, if_true, Prog.pure_def, Prog.opsIn, Nat.add_zero]
        generalize (readBand b last).opsIn w1 = c at *
        have h5 : 1 + (c + 1) ≤ b * K + K := by omega
        exact h5
      · have hrec := ih (bandTake s b last).2 _ w3 q3
        obtain ⟨w4, h4, _⟩ := run_stitchDown b (bandTake s b last).2 _ w3 q3
        have hcl' : isFileP s (.bandTail b) = false := by simpa using hcl
        simp only [hcl', Bool.false_eq_true, if_false, Prog.opsIn_bind, h4, Prog.pure_def, Prog.opsIn, Nat.add_zero]
        generalize (readBand b last).opsIn w1 = c at *
        generalize (stitchDown b (bandTake s b last).snd).opsIn w3 = d at *
        have h5 : 1 + (c + (1 + d)) ≤ b * K + K := by omega
        exact h5
    · have hex' : isFileP s (.bandHead b) = false := by simpa using hex
      obtain ⟨w2, h2, q2⟩ := run_unwrapOr_isFile q1 (.hunk b 0) false
      simp only [hex', Bool.false_eq_true, if_false, Prog.opsIn_bind, ops_unwrapOr_isFile, h2]
      by_cases hk : isFileP s (.hunk b 0) = true
      · have hrec := ih last _ _ (q2.emit (.error (.bandHeadMissing b)))
        simp only [hk, if_true, logError, Prog.emit_bind, Prog.ret_bind, Prog.opsIn]
        generalize (stitchDown b last).opsIn _ = d at *
        have h5 : 1 + (1 + d) ≤ b * K + K := by omega
        exact h5
      · have hrec := ih last evs w2 q2
        have hk' : isFileP s (.hunk b 0) = false := by simpa using hk
        simp only [hk', Bool.false_eq_true, if_false]
        generalize (stitchDown b last).opsIn _ = d at *
        have h5 : 1 + (1 + d) ≤ b * K + K := by omega
        exact h5

theorem ops_stitchAll {s : Store} (wf : ArchWF s) (n : Nat)
    {evs : List Event} {w : World} (h : Quiet s evs w) :
    (stitchAll n).opsIn w ≤ (n + 1) * (6 + 3 * s.length) := by
  obtain ⟨w2, h2, q2⟩ := run_readBand h n none
  obtain ⟨w3, h3, q3⟩ := run_unwrapOr_isFile q2 (.bandTail n) false
  have hb := ops_readBand wf h n none
  simp only [stitchAll, bandIsClosed, Prog.bind_def, Prog.opsIn_bind, h2, ops_unwrapOr_isFile, h3]
  rw [Nat.succ_mul]
  generalize hK : 6 + 3 * s.length = K
  by_cases hcl : isFileP s (.bandTail n) = true
  · simp only [hcl, if_true, Prog.pure_def, Prog.opsIn, Nat.add_zero]
    generalize (readBand n none).opsIn w = c at *
    have h5 : c + 1 ≤ n * K + K := by omega
    exact h5
  · have hrec := ops_stitchDown wf n (bandTake s n none).2 _ w3 q3
    obtain ⟨w4, h4, _⟩ := run_stitchDown n (bandTake s n none).2 _ w3 q3
    have hcl' : isFileP s (.bandTail n) = false := by simpa using hcl
    simp only [hcl', Bool.false_eq_true, if_false, Prog.opsIn_bind, h4, Prog.pure_def, Prog.opsIn, Nat.add_zero]
    rw [hK] at hrec
    generalize (readBand n none).opsIn w = c at *
    generalize (stitchDown n (bandTake s n none).snd).opsIn w3 = d at *
    have h5 : c + (1 + d) ≤ n * K + K := by omega
    exact h5

/-- In a world that records (not dead, no crash point), every operation adds one trace event. -/
theorem exec_trace_length (w : World) (o : Op) (hd : w.dead = false) (hc : w.crashAt = none) :
    (w.exec o).1.trace.length = w.trace.length + 1 ∧ (w.exec o).1.dead = false ∧
      (w.exec o).1.crashAt = none := by
  unfold World.exec
  simp only [hd, World.crashesAt, hc, Bool.false_eq_true, if_false, reduceCtorEq, beq_iff_eq]
  cases w.faultFor o with
  | some e => simp
  | none =>
    simp only
    by_cases hm : o.isMutating = true
    · simp only [hm, Bool.not_true, Bool.false_eq_true, if_false]
      cases o with
      | write k v m =>
        simp only
        split <;> simp
      | _ => simp
    · simp [hm]

/-- `opsIn` is the growth of the trace: each counted operation is one recorded storage operation. -/
theorem opsIn_eq_trace {α : Type} (p : Prog α) (w : World) (hd : w.dead = false) (hc : w.crashAt = none) :
    (p.run w).2.trace.length = w.trace.length + p.opsIn w := by
  induction p generalizing w with
  | ret a => simp [Prog.opsIn]
  | fail e => simp [Prog.opsIn]
  | panic s => simp [Prog.opsIn]
  | emit ev k ih => simpa [Prog.opsIn] using ih { w with events := ev :: w.events } hd hc
  | op o k ih =>
    obtain ⟨h1, h2, h3⟩ := exec_trace_length w o hd hc
    rw [Prog.run_op, Prog.opsIn, ih _ _ h2 h3, h1]
    omega

end Conserve
