import ConserveModel.Proofs.HistCongr
import ConserveModel.Proofs.ConformsMain
import ConserveModel.Proofs.FrameBand
/-
C02 (history): in EVERY world (faults, crash point, dead) a `backup` leaves every key at or under the
directory of an existing version alone (`backup_bandSame`).  The new version's id is above every
existing one (it is computed from a root listing that shows them all), and everything the index
writer touches carries the id `bandCreate` returned.  The argument is a small Hoare logic `BSat`:
frame `BandSame _ _ b`, precondition "`b`'s directory exists", postcondition on the returned value
(used to carry the writer's `band` field through the main loop).  No property statements here.
-/
set_option linter.unusedSimpArgs false
namespace Conserve.Hist
open Conserve Conserve.Exact Conserve.Inv Conserve.Conf Prog

/-! ### Operations that stay away from one version's directory -/

/-- The operation cannot change a key at or under `b`'s directory: it reads, or it creates / writes /
removes one file or directory elsewhere (never `removeDirAll`). -/
def OffBand (b : Nat) : Op → Prop
  | .read _ | .listDir _ | .metadata _ => True
  | .createDir k | .write k _ _ | .removeFile k => Key.isUnder (.bandDir b) k = false
  | .removeDirAll _ => False

theorem applyOp_get?_other (e : Bool) (s : Store) (o : Op) (k : Key) (hk : k ≠ o.key)
    (hr : ∀ k', o ≠ .removeDirAll k') : (applyOp e s o).1.get? k = s.get? k := by
  cases o with
  | read k' => simp only [applyOp]; split <;> rfl
  | listDir k' => simp only [applyOp]; split <;> rfl
  | metadata k' => simp only [applyOp]; split <;> rfl
  | write k' v m =>
    have hk' : k ≠ k' := hk
    simp only [applyOp]
    repeat' split
    all_goals first | rfl | simp [Store.get?_put, hk']
  | createDir k' =>
    have hk' : k ≠ k' := hk
    simp only [applyOp]
    repeat' split
    all_goals first | rfl | simp [Store.get?_put, hk']
  | removeFile k' =>
    have hk' : k ≠ k' := hk
    simp only [applyOp]
    repeat' split
    all_goals first | rfl | simp [Store.get?_erase, hk']
  | removeDirAll k' => exact absurd rfl (hr k')

/-- One step, any world: an operation off `b`'s directory leaves the keys under it alone. -/
theorem exec_offBand (w : World) (o : Op) {b : Nat} (ho : OffBand b o) :
    BandSame w.store (w.exec o).1.store b := by
  intro k hk
  by_cases hro : ReadOnly o
  · rw [World.exec_readOnly_store w o hro]
  · have hne : k ≠ o.key := by
      rintro rfl
      cases o <;> simp_all [OffBand, ReadOnly, Op.key]
    have hnr : ∀ k', o ≠ .removeDirAll k' := by
      rintro k' rfl; exact ho
    rcases (World.exec_cases w o).2 with ⟨hs, _, _⟩ | ⟨k', v, m, rfl, _, hs, _, _⟩ | ⟨e, hs, _, _⟩ | ⟨hs, _, _⟩
    · rw [hs]
    · rw [hs, Store.get?_put]; simp [show k ≠ k' from hne]
    · rw [hs]
    · rw [hs]; exact applyOp_get?_other _ _ _ _ hne hnr

/-! ### The logic -/

/-- `BSat b p Q`: from every world in which `b`'s directory exists, running `p` — whatever the
outcome, faults and crash point — leaves every key at or under `b`'s directory alone; and if `p`
returns `a` then `Q a`. -/
def BSat {α : Type} (b : Nat) (p : Prog α) (Q : α → Prop) : Prop :=
  ∀ w : World, w.store.get? (.bandDir b) = some .dir →
    BandSame w.store (p.run w).2.store b ∧ ∀ a, (p.run w).1 = .ok a → Q a

namespace BSat
variable {α β : Type} {b : Nat}

theorem ret {a : α} {Q : α → Prop} (h : Q a) : BSat b (.ret a) Q :=
  fun w _ => ⟨BandSame.refl _ _, fun _ h' => by cases h'; exact h⟩

theorem fail {e : Err} {Q : α → Prop} : BSat b (.fail e : Prog α) Q :=
  fun _ _ => ⟨BandSame.refl _ _, fun _ h' => nomatch h'⟩

theorem panic {m : String} {Q : α → Prop} : BSat b (.panic m : Prog α) Q :=
  fun _ _ => ⟨BandSame.refl _ _, fun _ h' => nomatch h'⟩

theorem emit {ev : Event} {k : Prog α} {Q : α → Prop} (h : BSat b k Q) : BSat b (.emit ev k) Q :=
  fun w hw => h { w with events := ev :: w.events } hw

theorem mono {p : Prog α} {Q Q' : α → Prop} (h : BSat b p Q) (hq : ∀ a, Q a → Q' a) : BSat b p Q' :=
  fun w hw => ⟨(h w hw).1, fun a ha => hq a ((h w hw).2 a ha)⟩

theorem bind {p : Prog α} {f : α → Prog β} {Q1 : α → Prop} {Q : β → Prop}
    (hp : BSat b p Q1) (hf : ∀ a, Q1 a → BSat b (f a) Q) : BSat b (p.bind f) Q := by
  intro w hw
  obtain ⟨h1, h2⟩ := hp w hw
  rw [Prog.run_bind]
  cases hrun : p.run w with
  | mk out w1 =>
    rw [hrun] at h1 h2
    cases out with
    | ok a =>
      have hw1 : w1.store.get? (.bandDir b) = some .dir := by
        rw [h1 _ (by simp [Key.isUnder])]; exact hw
      obtain ⟨h3, h4⟩ := hf a (h2 a rfl) w1 hw1
      exact ⟨h1.trans h3, h4⟩
    | err e => exact ⟨h1, fun _ h' => nomatch h'⟩
    | panic m => exact ⟨h1, fun _ h' => nomatch h'⟩

/-- A program all of whose operations stay off `b`'s directory. -/
theorem of_allOps {p : Prog α} {Q : α → Prop} (hp : AllOps (OffBand b) p) (hr : RetSpec p Q) : BSat b p Q := by
  intro w _
  refine ⟨?_, fun a ha => hr w a ha⟩
  exact Prog.run_store_rel (R := fun s s' => BandSame s s' b) (fun s => BandSame.refl s b)
    (fun _ _ _ h1 h2 => h1.trans h2) (fun w o ho => exec_offBand w o ho) hp w

theorem of_readOnly {p : Prog α} (hp : AllOps ReadOnly p) : BSat b p (fun _ => True) :=
  of_allOps (hp.mono fun o ho => by cases o <;> simp_all [ReadOnly, OffBand]) (fun _ _ _ => trivial)

end BSat

/-! ### The block store and the index writer stay off every other version -/

/-- Side goals `OffBand b o` for a concrete operation. -/
macro "off_side" : tactic =>
  `(tactic| first
    | assumption
    | focus (simp [OffBand, Key.isUnder, Key.parent]; done)
    | focus (simp_all [OffBand, Key.isUnder, Key.parent]; done))

/-- Structural proof of `AllOps (OffBand b) prog` (the `allops` tactic of Proofs/FrameOps.lean with
another side-goal tactic). -/
syntax "offops" ("[" term,* "]")? : tactic
macro_rules
  | `(tactic| offops) => `(tactic| offops [])
  | `(tactic| offops [$ts,*]) => do
    let mut alts : Array (Lean.TSyntax `Lean.Parser.Tactic.tacticSeq) := #[]
    for t in ts.getElems do
      alts := alts.push (← `(tacticSeq| apply $t))
    `(tactic| repeat (first
      | exact Prog.AllOps.ret _
      | exact Prog.AllOps.fail _
      | exact Prog.AllOps.panic _
      | exact Prog.AllOps.logError _
      | exact Prog.AllOps.report _
      | assumption
      | (first $[| $alts]* | fail)
      | (apply Prog.AllOps.perform; off_side)
      | apply Prog.AllOps.emit
      | apply Prog.AllOps.bind
      | apply Prog.AllOps.attempt
      | apply Prog.AllOps.attemptAll
      | (apply Prog.AllOps.op; off_side)
      | intro _
      | split
      | simp only [Prog.bind_def, Prog.pure_def]
      | off_side
      | dsimp only))

section writer
variable (H : Str → Str) (b : Nat)

theorem storeOrDedup_off (w : Writer) (data : Str) : AllOps (OffBand b) (storeOrDedup H w data) := by
  unfold storeOrDedup; offops

theorem combinerFlush_off (w : Writer) : AllOps (OffBand b) (combinerFlush H w) := by
  unfold combinerFlush; offops [storeOrDedup_off]

theorem combinerPush_off (o : BackupOpts) (w : Writer) (s : SrcEntry) :
    AllOps (OffBand b) (combinerPush H o w s) := by
  unfold combinerPush; offops [combinerFlush_off]

theorem storeChunks_off (w : Writer) (cs : List Str) (acc : List Addr) :
    AllOps (OffBand b) (storeChunks H w cs acc) := by
  induction cs generalizing w acc with
  | nil => unfold storeChunks; offops
  | cons c cs ih => unfold storeChunks; offops [storeOrDedup_off, ih]

theorem storeFileContent_off (o : BackupOpts) (w : Writer) (s : SrcEntry) :
    AllOps (OffBand b) (storeFileContent H o w s) := by
  unfold storeFileContent; offops [storeChunks_off]

theorem copyFile_off (o : BackupOpts) (w : Writer) (basis : Option IndexEntry) (s : SrcEntry) :
    AllOps (OffBand b) (copyFile H o w basis s) := by
  unfold copyFile; offops [combinerPush_off, storeFileContent_off]

theorem copyEntry_off (o : BackupOpts) (w : Writer) (basis : Option IndexEntry) (s : SrcEntry) :
    AllOps (OffBand b) (copyEntry H o w basis s) := by
  unfold copyEntry; offops [copyFile_off]

theorem performUnit_off {o : Op} (h : OffBand b o) : AllOps (OffBand b) (performUnit o) :=
  performUnit_allOps h

variable {b}

theorem finishHunk_off (w : Writer) (hne : w.band ≠ b) : AllOps (OffBand b) (finishHunk w) := by
  have h1 : ∀ d, OffBand b (.createDir (.hunkDir w.band d)) := fun d => by
    simp [OffBand, Key.isUnder, Key.parent, hne]
  have h2 : ∀ n v m, OffBand b (.write (.hunk w.band n) v m) := fun n v m => by
    simp [OffBand, Key.isUnder, Key.parent, hne]
  unfold finishHunk
  simp only [Prog.bind_def, Prog.pure_def]
  split
  · exact .ret _
  · split
    · exact AllOps.bind (performUnit_allOps (h1 _)) fun _ =>
        AllOps.bind (performUnit_allOps (h2 _ _ _)) fun _ => .ret _
    · exact AllOps.bind (performUnit_allOps (h2 _ _ _)) fun _ => .ret _

theorem bandClose_off (band n : Nat) (hne : band ≠ b) : AllOps (OffBand b) (bandClose band n) := by
  unfold bandClose
  exact performUnit_allOps (by simp [OffBand, Key.isUnder, Key.parent, hne])

theorem finishHunk_band (w : Writer) : RetSpec (finishHunk w) (fun w' => w'.band = w.band) := by
  unfold finishHunk
  simp only [Prog.bind_def, Prog.pure_def]
  split
  · exact RetSpec.ret rfl
  · split
    · refine RetSpec.bind (Q1 := fun _ => True) (fun _ _ _ => trivial) fun _ _ => ?_
      exact RetSpec.bind (Q1 := fun _ => True) (fun _ _ _ => trivial) fun _ _ => RetSpec.ret rfl
    · exact RetSpec.bind (Q1 := fun _ => True) (fun _ _ _ => trivial) fun _ _ => RetSpec.ret rfl

end writer

/-! ### The main part of `backup` -/

section main
variable (H : Str → Str) {b : Nat}

theorem flushGroup_bsat (wr : Writer) (hne : wr.band ≠ b) :
    BSat b (flushGroup H wr) (fun wr' => wr'.band = wr.band) := by
  unfold flushGroup
  simp only [Prog.bind_def]
  refine BSat.bind (BSat.of_allOps (combinerFlush_off H b wr)
    ((combinerFlush_ret H wr).mono fun x hx => hx.1.band)) ?_
  rintro ⟨w1, r⟩ hb
  simp only at hb ⊢
  cases r with
  | error e => exact BSat.fail
  | ok u =>
    exact BSat.of_allOps (finishHunk_off _ (by simpa [hb] using hne))
      ((finishHunk_band _).mono fun w' h => h.trans hb)

theorem copyEntry_bsat (o : BackupOpts) (wr : Writer) (basis : Option IndexEntry) (sf : SrcEntry) :
    BSat b (copyEntry H o wr basis sf) (fun x => x.1.band = wr.band) :=
  BSat.of_allOps (copyEntry_off H b o wr basis sf)
    ((copyEntry_ret' H o wr basis sf).mono fun x hx => by obtain ⟨_, _, h⟩ := hx; exact h.band)

theorem backupLoop_bsat (o : BackupOpts) (ms : List Matched) :
    ∀ wr : Writer, wr.band ≠ b → BSat b (backupLoop H o wr ms) (fun wr' => wr'.band = wr.band) := by
  induction ms with
  | nil => intro wr _; unfold backupLoop; exact BSat.ret rfl
  | cons m ms ih =>
    intro wr hne
    have tail : ∀ w1 : Writer, w1.band = wr.band →
        BSat b (if w1.pending.length + w1.queue.length ≥ o.maxEntriesPerHunk then
            (flushGroup H w1).bind fun w => backupLoop H o w ms
          else (pure w1 : Prog Writer).bind fun w => backupLoop H o w ms)
          (fun wr' => wr'.band = wr.band) := by
      intro w1 hb
      have hne1 : w1.band ≠ b := by rw [hb]; exact hne
      split
      · refine BSat.bind (flushGroup_bsat H w1 hne1) fun w hw => ?_
        exact (ih w (by rw [hw]; exact hne1)).mono fun w' h => h.trans (hw.trans hb)
      · simp only [Prog.pure_def, Prog.ret_bind]
        exact (ih w1 hne1).mono fun w' h => h.trans hb
    cases m with
    | left e =>
      simp only [backupLoop, report, Prog.bind_def, Prog.emit_bind, Prog.ret_bind]
      exact BSat.emit (ih wr hne)
    | right sf | both e sf =>
      simp only [backupLoop, Prog.bind_def]
      refine BSat.bind (copyEntry_bsat H o wr _ sf) ?_
      rintro ⟨w1, r⟩ hb
      simp only at hb ⊢
      have hne1 : w1.band ≠ b := by rw [hb]; exact hne
      cases r with
      | error e =>
        simp only [logError, Prog.emit_bind, Prog.ret_bind]
        exact BSat.emit ((ih _ (by simpa using hne1)).mono fun w' h => h.trans hb)
      | ok ch =>
        cases ch with
        | some ck =>
          simp only [report, Prog.emit_bind, Prog.ret_bind]
          exact BSat.emit (tail w1 hb)
        | none => exact tail w1 hb

theorem backupMain_bsat (o : BackupOpts) (src : List SrcEntry) (x : Nat × List Str × List IndexEntry)
    (hne : x.1 ≠ b) : BSat b (backupMain H o src x) (fun _ => True) := by
  unfold backupMain
  refine BSat.bind (backupLoop_bsat H o _ { band := x.1, exists_ := x.2.1 } hne) fun w1 h1 => ?_
  simp only at h1
  have hne1 : w1.band ≠ b := by rw [h1]; exact hne
  refine BSat.bind (flushGroup_bsat H w1 hne1) fun w2 h2 => ?_
  have hne2 : w2.band ≠ b := by rw [h2]; exact hne1
  refine BSat.bind (BSat.of_allOps (finishHunk_off w2 hne2) (finishHunk_band w2)) fun w3 h3 => ?_
  have hne3 : w3.band ≠ b := by rw [h3]; exact hne2
  refine BSat.bind (Q1 := fun _ => True)
    (BSat.of_allOps (bandClose_off _ _ hne3) (fun _ _ _ => trivial)) fun _ _ => BSat.ret trivial

end main

/-! ### `bandCreate` picks an id above every existing one, in every world -/

/-- Shape of `bandCreate`: it lists the root; after the response `r` every operation that can follow
is one of the three creating operations for the id after the largest one listed in `r`. -/
theorem bandCreate_shape_new :
    ∃ k, bandCreate = .op (.listDir .root) k ∧
      ∀ r, AllOps (fun o => ∃ xs, r = .listing xs ∧ o.createsBand (nextBandId (listingBandIds xs))) (k r) := by
  unfold bandCreate lastBandId listBandIds
  simp only [Prog.bind_def, Prog.perform, Prog.op_bind, Prog.ret_bind, Prog.pure_def]
  refine ⟨_, rfl, ?_⟩
  intro r
  cases r with
  | listing xs =>
    simp only [Prog.ret_bind]
    have h1 : ∃ ys, Resp.listing xs = .listing ys ∧
        (Op.createDir (.bandDir (nextBandId (listingBandIds xs)))).createsBand (nextBandId (listingBandIds ys)) :=
      ⟨xs, rfl, .inl rfl⟩
    have h2 : ∃ ys, Resp.listing xs = .listing ys ∧
        (Op.createDir (.indexDir (nextBandId (listingBandIds xs)))).createsBand (nextBandId (listingBandIds ys)) :=
      ⟨xs, rfl, .inr (.inl rfl)⟩
    have h3 : ∃ ys, Resp.listing xs = .listing ys ∧
        (Op.write (.bandHead (nextBandId (listingBandIds xs))) (.head .ok []) .createNew).createsBand
          (nextBandId (listingBandIds ys)) :=
      ⟨xs, rfl, .inr (.inr ⟨_, _, rfl⟩)⟩
    exact AllOps.bind (performUnit_allOps h1) fun _ =>
      AllOps.bind (performUnit_allOps h2) fun _ =>
      AllOps.bind (performUnit_allOps h3) fun _ => .ret _
  | val v => exact .fail _
  | stat a b => exact .fail _
  | unit => exact .fail _
  | err e => exact .fail _

/-- A root listing that comes back, in any world, is the listing of the store. -/
theorem exec_listDir_root_listing {w : World} {xs : List DirEnt}
    (h : (w.exec (.listDir .root)).2 = .listing xs) : xs = w.store.children .root := by
  rcases (World.exec_cases w (.listDir .root)).2 with ⟨_, _, hr⟩ | ⟨_, _, _, _, _, _, _, hr⟩ | ⟨e, _, _, hr⟩ | ⟨_, _, hr⟩
  · rw [hr] at h; cases h
  · rw [hr] at h; cases h
  · rw [hr] at h; cases h
  · rw [hr] at h; exact applyOp_listDir_root_listing h

theorem mem_bandIdsOf_of_get? {s : Store} {b : Nat} (h : s.get? (.bandDir b) = some .dir) : b ∈ bandIdsOf s := by
  unfold bandIdsOf
  rw [mem_sortNat, List.mem_filterMap]
  exact ⟨(.bandDir b, .dir), Store.mem_of_get?' h, rfl⟩

theorem createsBand_off {o : Op} {nb b : Nat} (h : o.createsBand nb) (hne : nb ≠ b) : OffBand b o := by
  rcases h with rfl | rfl | ⟨v, m, rfl⟩ <;> simp [OffBand, Key.isUnder, Key.parent, hne]

theorem bandCreate_bsat {b : Nat} : BSat b bandCreate (fun band => band ≠ b) := by
  intro w hw
  have hmem := mem_bandIdsOf_of_get? hw
  have hnew : ∀ xs, (w.exec (.listDir .root)).2 = .listing xs → nextBandId (listingBandIds xs) ≠ b := by
    intro xs hx
    rw [exec_listDir_root_listing hx, listingBandIds_children_root]
    exact Nat.ne_of_gt (nextBandId_gt _ b hmem)
  refine ⟨?_, fun band hband => ?_⟩
  · obtain ⟨k, hk, hops⟩ := bandCreate_shape_new
    rw [hk, Prog.run_op]
    have h0 : BandSame w.store (w.exec (.listDir .root)).1.store b := by
      rw [World.exec_readOnly_store w _ (by simp [ReadOnly])]; exact BandSame.refl _ _
    refine h0.trans ?_
    have hops' : AllOps (OffBand b) (k (w.exec (.listDir .root)).2) :=
      (hops _).mono fun o ⟨xs, hx, hc⟩ => createsBand_off hc (hnew xs hx)
    exact Prog.run_store_rel (R := fun s s' => BandSame s s' b) (fun s => BandSame.refl s b)
      (fun _ _ _ h1 h2 => h1.trans h2) (fun w o ho => exec_offBand w o ho) hops' _
  · obtain ⟨xs, hx, rfl⟩ := bandCreate_run_ok hband
    exact hnew xs hx

theorem backupPrelude_bsat {b : Nat} : BSat b backupPrelude (fun x => x.1 ≠ b) := by
  unfold backupPrelude
  refine BSat.bind (BSat.of_readOnly gcIsLocked_ro) fun locked _ => ?_
  split
  · exact BSat.fail
  · refine BSat.bind (BSat.of_readOnly lastBandId_ro) fun basisBand _ => ?_
    refine BSat.bind bandCreate_bsat fun band hband => ?_
    refine BSat.bind (BSat.of_readOnly gcLockListed_ro) fun locked2 _ => ?_
    split
    · exact BSat.fail
    refine BSat.bind (BSat.of_readOnly listBlocks_ro) fun blocks _ => ?_
    cases basisBand with
    | none => exact BSat.ret hband
    | some bb =>
      exact BSat.bind (BSat.of_readOnly (listEntries_ro bb [slash] fun _ => false)) fun basis _ => BSat.ret hband

/-- **In every world — any faults, any crash point, dead or alive — `backup` leaves every key at or
under the directory of an existing version alone** (any options, any source). -/
theorem backup_bandSame (H : Str → Str) (o : BackupOpts) (src : List SrcEntry) (w : World) {b : Nat}
    (hb : w.store.get? (.bandDir b) = some .dir) :
    BandSame w.store ((backup H o src).run w).2.store b := by
  rw [Inv.backup_eq]
  exact ((BSat.bind backupPrelude_bsat fun x hx => backupMain_bsat H o src x hx) w hb).1

/-! ### What a backup can leave in a head file -/

/-- The head files of `s'`, compared with `s`: unchanged, or zero-length (a killed write), or the
head `Band::create` writes, or — not excluded by the operation classes, but by `Conforms` — a directory. -/
def HeadRel (s s' : Store) : Prop :=
  ∀ b, s'.get? (.bandHead b) = s.get? (.bandHead b) ∨ s'.get? (.bandHead b) = some .empty ∨
    s'.get? (.bandHead b) = some (.head .ok []) ∨ s'.get? (.bandHead b) = some .dir

theorem HeadRel.refl (s : Store) : HeadRel s s := fun _ => Or.inl rfl

theorem HeadRel.trans {a b c : Store} (h1 : HeadRel a b) (h2 : HeadRel b c) : HeadRel a c := by
  intro n
  rcases h2 n with h | h | h | h
  · rw [h]; exact h1 n
  · exact Or.inr (Or.inl h)
  · exact Or.inr (Or.inr (Or.inl h))
  · exact Or.inr (Or.inr (Or.inr h))

/-- A `BackupOp` that writes a head only with the value `Band::create` writes. -/
def HeadOp (o : Op) : Prop := BackupOp o ∧ ∀ b v m, o = .write (.bandHead b) v m → v = .head .ok []

theorem HeadRel.put {s : Store} {k : Key} {v : FileVal}
    (h : ∀ b, k = .bandHead b → v = .empty ∨ v = .head .ok [] ∨ v = .dir) : HeadRel s (s.put k v) := by
  intro b
  rw [Store.get?_put]
  by_cases hk : Key.bandHead b = k
  · simp only [hk, if_true]
    rcases h b hk.symm with rfl | rfl | rfl
    · exact Or.inr (Or.inl rfl)
    · exact Or.inr (Or.inr (Or.inl rfl))
    · exact Or.inr (Or.inr (Or.inr rfl))
  · simp [hk]

theorem exec_headRel (w : World) (o : Op) (ho : HeadOp o) : HeadRel w.store (w.exec o).1.store := by
  rcases (World.exec_cases w o).2 with ⟨hs, _, _⟩ | ⟨k', v, m, rfl, _, hs, _, _⟩ | ⟨e, hs, _, _⟩ | ⟨hs, _, _⟩
  · rw [hs]; exact HeadRel.refl _
  · rw [hs]; exact HeadRel.put fun _ _ => Or.inl rfl
  · rw [hs]; exact HeadRel.refl _
  · rw [hs]
    cases o with
    | read k | listDir k | metadata k =>
      rw [applyOp_readOnly_store (by simp [ReadOnly])]; exact HeadRel.refl _
    | createDir k =>
      rcases applyOp_createDir_store w.enforceCreateNew w.store k with h | ⟨_, h⟩
      · rw [h]; exact HeadRel.refl _
      · rw [h]; exact HeadRel.put fun _ _ => Or.inr (Or.inr rfl)
    | write k v m =>
      rcases applyOp_write_store w.enforceCreateNew w.store k v m with ⟨_, h⟩ | ⟨_, h⟩
      · rw [h]; exact HeadRel.put fun b hb => Or.inr (Or.inl (ho.2 b v m (by rw [hb])))
      · rw [h]; exact HeadRel.refl _
    | removeFile k => exact absurd ho.1 (by simp [BackupOp])
    | removeDirAll k => exact absurd ho.1 (by simp [BackupOp])

theorem WriterOp.headOp {o : Op} (h : WriterOp o) : HeadOp o :=
  ⟨h.1, fun b v m ho => by subst ho; exact absurd trivial h.2.1⟩

theorem bandCreate_headOps : AllOps HeadOp bandCreate := by
  have hc : ∀ k, HeadOp (.createDir k) := fun k => ⟨trivial, fun _ _ _ h => nomatch h⟩
  unfold bandCreate
  simp only [Prog.bind_def, Prog.pure_def]
  refine AllOps.bind (lastBandId_ro.ro_wr.mono fun _ => WriterOp.headOp) fun l => ?_
  refine AllOps.bind (performUnit_allOps (hc _)) fun _ => ?_
  refine AllOps.bind (performUnit_allOps (hc _)) fun _ => ?_
  refine AllOps.bind (performUnit_allOps ⟨⟨rfl, by simp⟩, fun b v m h => ?_⟩) fun _ => .ret _
  cases h; rfl

theorem backup_headOps (H : Str → Str) (o : BackupOpts) (src : List SrcEntry) : AllOps HeadOp (backup H o src) := by
  obtain ⟨tail, heq, hops⟩ := backup_decomp H o src
  rw [heq]
  refine AllOps.bind (gcIsLocked_ro.ro_wr.mono fun _ => WriterOp.headOp) fun c => ?_
  split
  · exact .fail _
  · refine AllOps.bind (lastBandId_ro.ro_wr.mono fun _ => WriterOp.headOp) fun basis => ?_
    exact AllOps.bind bandCreate_headOps fun band => (hops basis band).mono fun _ => WriterOp.headOp

/-- In every world, the head files a `backup` leaves are the old ones, zero-length, or `Band::create`'s
(or directories, which `Conforms` excludes). -/
theorem backup_headRel (H : Str → Str) (o : BackupOpts) (src : List SrcEntry) (w : World) :
    HeadRel w.store ((backup H o src).run w).2.store :=
  Prog.run_store_rel HeadRel.refl (fun _ _ _ h1 h2 => h1.trans h2) (fun w o ho => exec_headRel w o ho)
    (backup_headOps H o src) w

end Conserve.Hist
