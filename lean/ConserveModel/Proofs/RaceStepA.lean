import ConserveModel.Proofs.RaceStepB
/-
C06 on the full model — every single storage operation of `backup` preserves the joint invariant
`J`.  No property statements here.
-/
namespace Conserve.Race
open Conserve Prog Conserve.Conf Conserve.Inv

variable {H : Str → Str}

/-! ### `Cross` when only the backup's position changes, or the store changes without touching band directories -/

theorem Cross.bk {β β' : BSt} {γ : GSt} {s : Store} (h : Cross β γ s)
    (h1 : ∀ n, β'.act = some n → β.act = some n) (h3 : β'.isCrit = true → β.isCrit = true) : Cross β' γ s := by
  refine ⟨fun m hm hd => ?_, fun n hn hp => h.there n (h1 n hn) hp, fun hs => ?_⟩
  · have := h.quiet m hm hd
    cases ha : β'.act with
    | none => rfl
    | some n => rw [h1 n ha] at this; cases this
  · have := h.excl hs
    cases hc : β'.isCrit with
    | false => rfl
    | true => rw [h3 hc] at this; cases this

theorem Cross.store {β : BSt} {γ : GSt} {s s' : Store} (h : Cross β γ s) (hb : ∀ b, isBand s' b ↔ isBand s b) :
    Cross β γ s' :=
  ⟨fun m hm hd => h.quiet m hm fun hd' => hd (hd'.mono fun b hb' => (hb b).2 hb'),
   fun n hn hp => (hb n).2 (h.there n hn hp), h.excl⟩

theorem atLeast_of_chk {D : List Nat} {γ : GSt} {s : Store} (h : GFacts D γ s) {m : Option Nat}
    (hm : γ.chk = some m) : AtLeast m s := by
  cases γ <;> simp only [GSt.chk] at hm <;> cases hm <;> simp only [GFacts] at h
  · exact h
  · exact h
  · exact h.1
  · exact h.1

theorem locked_of_sweeping {D : List Nat} {γ : GSt} {s : Store} (h : GFacts D γ s) (hs : γ.sweeping = true) :
    Locked s := by
  cases γ <;> simp [GSt.sweeping] at hs <;> (simp only [GFacts] at h; exact h.1)

/-- While `backup` has an unfinished band, a collector past `band_is_closed` sees a newer band. -/
theorem doomed_of_act {β : BSt} {γ : GSt} {s : Store} (hx : Cross β γ s) {n : Nat} (ha : β.act = some n)
    {m : Option Nat} (hm : γ.chk = some m) : Doomed s m := by
  refine Classical.byContradiction fun hd => ?_
  have := hx.quiet m hm hd
  rw [ha] at this
  cases this

/-! ### Responses and frames -/

theorem applyOp_createDir_cases (s : Store) (k : Key) :
    (s.has k = true ∧ applyOp true s (.createDir k) = (s, .unit)) ∨
    (s.has k = false ∧ s.parentOk k = false ∧ applyOp true s (.createDir k) = (s, .err .notFound)) ∨
    (s.get? k = none ∧ s.parentOk k = true ∧ applyOp true s (.createDir k) = (s.put k .dir, .unit)) := by
  simp only [applyOp]
  cases hh : s.has k with
  | true => exact Or.inl ⟨rfl, by simp⟩
  | false =>
    have hg : s.get? k = none := by simpa [Store.has] using hh
    cases hp : s.parentOk k with
    | false => exact Or.inr (Or.inl ⟨rfl, rfl, by simp⟩)
    | true => exact Or.inr (Or.inr ⟨hg, rfl, by simp⟩)

theorem applyOp_listDir_listing {s : Store} {k : Key} {xs : List DirEnt}
    (h : (applyOp true s (.listDir k)).2 = .listing xs) : xs = s.children k := by
  simp only [applyOp] at h
  split at h
  · cases h
  · cases h; rfl
  · cases h

theorem ci_of_exec {s : Store} {o' : Op} (h : CI H ((World.clean s).exec o').1.store) : CI H (applyOp true s o').1 := by
  rwa [World.exec_clean_store (World.clean_Clean s)] at h

theorem critOp_bandDir {o' : Op} (h : CritOp o') (b : Nat) : Op.affects o' (.bandDir b) = false := by
  cases o' with
  | createDir k =>
    rcases (h : (∃ b d, k = .hunkDir b d) ∨ (∃ p, k = .blockDir p)) with ⟨x, i, rfl⟩ | ⟨p, rfl⟩ <;> simp [Op.affects]
  | write k v m =>
    rcases (h : m = .createNew ∧ _).2 with ⟨x, i, rfl⟩ | ⟨p, rfl⟩ | ⟨x, rfl⟩ <;> simp [Op.affects]
  | removeFile k => exact absurd h (by simp [CritOp])
  | removeDirAll k => exact absurd h (by simp [CritOp])
  | _ => rfl

theorem critOp_lock {o' : Op} (h : CritOp o') : Op.affects o' .gcLock = false := by
  cases o' with
  | createDir k =>
    rcases (h : (∃ b d, k = .hunkDir b d) ∨ (∃ p, k = .blockDir p)) with ⟨x, i, rfl⟩ | ⟨p, rfl⟩ <;> simp [Op.affects]
  | write k v m =>
    rcases (h : m = .createNew ∧ _).2 with ⟨x, i, rfl⟩ | ⟨p, rfl⟩ | ⟨x, rfl⟩ <;> simp [Op.affects]
  | removeFile k => exact absurd h (by simp [CritOp])
  | removeDirAll k => exact absurd h (by simp [CritOp])
  | _ => rfl

theorem critOp_tail {o' : Op} (h : CritOp o') (ht : ¬ isTailWrite o') (n : Nat) :
    Op.affects o' (.bandTail n) = false := by
  cases o' with
  | createDir k =>
    rcases (h : (∃ b d, k = .hunkDir b d) ∨ (∃ p, k = .blockDir p)) with ⟨x, i, rfl⟩ | ⟨p, rfl⟩ <;> simp [Op.affects]
  | write k v m =>
    rcases (h : m = .createNew ∧ _).2 with ⟨x, i, rfl⟩ | ⟨p, rfl⟩ | ⟨x, rfl⟩
    · simp [Op.affects]
    · simp [Op.affects]
    · exact absurd trivial ht
  | removeFile k => exact absurd h (by simp [CritOp])
  | removeDirAll k => exact absurd h (by simp [CritOp])
  | _ => rfl

/-- With no directory for band `n`, `create_dir bN/i` answers `notFound`. -/
theorem gone_createDir_indexDir {s : Store} (hd : DirsOk s) {n : Nat} (hg : s.get? (.bandDir n) ≠ some .dir) :
    applyOp true s (.createDir (.indexDir n)) = (s, .err .notFound) := by
  have hh : s.get? (.indexDir n) = none := by
    cases hv : s.get? (.indexDir n) with
    | none => rfl
    | some v =>
      have := hd.parent_of_get? hv
      simp only [Store.parentOk, Key.parent, beq_iff_eq] at this
      exact absurd this hg
  have : (s.get? (.bandDir n) == some FileVal.dir) = false := by simpa using hg
  simp [applyOp, Store.has, hh, Store.parentOk, Key.parent, this]

theorem crit_head (o : BackupOpts) (src : List SrcEntry) (bs : Option Nat) (n : Nat) :
    ∃ o1 k1, crit H o src bs n = .op o1 k1 := by
  unfold crit listBlocks
  simp only [perform, Prog.bind_def, Prog.op_bind]
  exact ⟨_, _, rfl⟩

section
variable (o : BackupOpts) (src : List SrcEntry) (D : List Nat) (opts : DeleteOpts)

theorem J.toDone {s' : Store} {p' : Prog Stats} {pB : Prog DeleteStats} {β : BSt} {γ : GSt} (hp : p'.Done)
    (hpB : γ.prog D opts pB) (hci : CI H s') (hgf : GFacts D γ s') (hx : Cross β γ s') :
    J H o src D opts s' p' pB :=
  ⟨.done, γ, hp, hpB, hci, hgf, hx.bk (fun _ h => (by cases h)) (fun h => (by cases h)), hci.nodup⟩

/-- `GFacts` and `Cross` after a `put` by `backup`, while it has an unfinished band, that touches
no band directory, hunk or lock file. -/
theorem put_other {β : BSt} {γ : GSt} {s : Store} {n : Nat} (ha : β.act = some n) (hgf : GFacts D γ s)
    (hx : Cross β γ s) {k : Key} (v : FileVal) (hk1 : ∀ b, k ≠ .bandDir b) (hk2 : ∀ b i, k ≠ .hunk b i)
    (hk3 : k ≠ .gcLock) :
    GFacts D γ (s.put k v) ∧ Cross β γ (s.put k v) ∧ ∀ b, isBand (s.put k v) b ↔ isBand s b := by
  have hb : ∀ b, isBand (s.put k v) b ↔ isBand s b := by
    intro b; unfold isBand; rw [Store.get?_put, if_neg (fun e => hk1 b e.symm)]
  refine ⟨hgf.stable D (fun b h => (hb b).2 h) (by rw [Store.get?_put, if_neg (fun e => hk3 e.symm)])
    (fun m hm => (doomed_of_act hx ha hm).mono fun b h => (hb b).2 h)
    (fun _ _ _ hu => hu.put v hk2 (fun b e => absurd e (hk1 b))), hx.store hb, hb⟩

/-- **Every operation of `backup` preserves `J`.** -/
theorem J.stepA (hinj : Function.Injective H) (hlen : HashLen H) (hsrc : SrcOK src)
    {s : Store} {pB : Prog DeleteStats} {o' : Op} {k : Resp → Prog Stats}
    (h : J H o src D opts s (.op o' k) pB) :
    J H o src D opts (applyOp true s o').1 (k (applyOp true s o').2).strip pB := by
  obtain ⟨β, γ, hpA, hpB, hbf, hgf, hx, hn⟩ := h
  have hn' : NoDupKeys (applyOp true s o').1 := applyOp_noDupKeys true hn o'
  cases β with
  | done => exact absurd hpA (by simp [BSt.prog, Prog.Done])
  | l1 =>
    simp only [BSt.prog, bkL1] at hpA
    injection hpA with ho hk
    subst ho hk
    rw [applyOp_metadata_store]
    simp only [BFacts] at hbf
    rcases onFile_cases (fun l => if l = true then (Prog.fail .gcLockHeld : Prog Stats) else bkBasis H o src)
      (applyOp true s (.metadata .gcLock)).2 with ⟨b, hb⟩ | ⟨e, he⟩
    · rw [hb]
      cases b
      · exact ⟨.basis, γ, rfl, hpB, hbf, hgf, hx.bk (fun _ h => (by cases h)) (fun h => (by cases h)), hn⟩
      · exact J.toDone o src D opts trivial hpB hbf hgf hx
    · rw [he]; exact J.toDone o src D opts trivial hpB hbf hgf hx
  | basis =>
    simp only [BSt.prog, bkBasis] at hpA
    injection hpA with ho hk
    subst ho hk
    rw [applyOp_listDir_store]
    simp only [BFacts] at hbf
    cases (applyOp true s (.listDir .root)).2 with
    | listing xs =>
      exact ⟨.idl _, γ, rfl, hpB, hbf, hgf, hx.bk (fun _ h => (by cases h)) (fun h => (by cases h)), hn⟩
    | err e => exact J.toDone o src D opts trivial hpB hbf hgf hx
    | val v => exact J.toDone o src D opts trivial hpB hbf hgf hx
    | stat a b => exact J.toDone o src D opts trivial hpB hbf hgf hx
    | unit => exact J.toDone o src D opts trivial hpB hbf hgf hx
  | idl bs =>
    simp only [BSt.prog, bkIdl] at hpA
    injection hpA with ho hk
    subst ho hk
    rw [applyOp_listDir_store]
    simp only [BFacts] at hbf
    generalize hr : (applyOp true s (.listDir .root)).2 = r
    cases r with
    | listing xs =>
      simp only [onIds]
      rw [applyOp_listDir_root_ids hr]
      exact ⟨.mkdir bs _, γ, rfl, hpB, ⟨hbf, below_next hn⟩, hgf,
        hx.bk (fun _ h => (by cases h)) (fun h => (by cases h)), hn⟩
    | err e => exact J.toDone o src D opts trivial hpB hbf hgf hx
    | val v => exact J.toDone o src D opts trivial hpB hbf hgf hx
    | stat a b => exact J.toDone o src D opts trivial hpB hbf hgf hx
    | unit => exact J.toDone o src D opts trivial hpB hbf hgf hx
  | mkdir bs n =>
    simp only [BSt.prog, bkMkdir] at hpA
    injection hpA with ho hk
    subst ho hk
    simp only [BFacts] at hbf
    obtain ⟨hci, hlt⟩ := hbf
    have hfresh : s.get? (.bandDir n) ≠ some .dir := fun hh => absurd (hlt n hh) (Nat.lt_irrefl n)
    rcases applyOp_createDir_cases s (.bandDir n) with ⟨_, hr⟩ | ⟨_, _, hr⟩ | ⟨hg, _, hr⟩
    · rw [hr]
      exact ⟨.mkdirX bs n, γ, rfl, hpB, ⟨hci, hlt⟩, hgf, hx.bk (fun _ h => (by cases h)) (fun h => (by cases h)), hn⟩
    · rw [hr]; exact J.toDone o src D opts trivial hpB hci hgf hx
    · have hci' : CI H (applyOp true s (.createDir (.bandDir n))).1 :=
        ci_of_exec (exec_createDir_band (w := World.clean s) hci (EmptyBand.of_fresh hci.dirs hfresh))
      rw [hr] at hci' hn' ⊢
      simp only [onUnit]
      have hbi : ∀ b, isBand (s.put (.bandDir n) .dir) b ↔ (b = n ∨ isBand s b) := by
        intro b
        unfold isBand
        rw [Store.get?_put]
        by_cases hb : b = n
        · subst hb; simp
        · have : Key.bandDir b ≠ Key.bandDir n := fun e => hb (by injection e)
          simp [this, hb]
      have hnew : isBand (s.put (.bandDir n) .dir) n := (hbi n).2 (Or.inl rfl)
      have hdoom : ∀ m, γ.chk = some m → Doomed (s.put (.bandDir n) .dir) m := by
        intro m hm
        refine ⟨n, hnew, ?_⟩
        cases m with
        | none => trivial
        | some a =>
          obtain ⟨b, hb, hle⟩ := atLeast_of_chk hgf hm a rfl
          have := hlt b hb
          simp only [Above]; omega
      refine ⟨.mkI bs n, γ, rfl, hpB, ⟨hci', ?_, ?_⟩, ?_, ⟨?_, fun _ _ _ => ?_, fun _ => rfl⟩, hn'⟩
      · intro b hb
        rcases (hbi b).1 hb with rfl | hb'
        · exact Nat.le_refl _
        · exact Nat.le_of_lt (hlt b hb')
      · exact (EmptyBand.of_fresh hci.dirs hfresh).same (BandKeysSame.put _ _ (fun _ => by simp) (by simp) (by simp))
      · exact hgf.stable D (fun b hb => (hbi b).2 (Or.inr hb)) (by rw [Store.get?_put, if_neg (by simp)]) hdoom
          (fun _ _ _ hu => hu.put _ (fun _ _ => by simp)
            (fun b e => by injection e with e; subst e; exact (EmptyBand.of_fresh hci.dirs hfresh).hunks))
      · intro m hm hd; exact absurd (hdoom m hm) hd
      · rename_i n' hn'' _
        simp only [BSt.act] at hn''
        cases hn''
        exact hnew
  | mkdirX bs n =>
    simp only [BSt.prog, bkMkI] at hpA
    injection hpA with ho hk
    subst ho hk
    simp only [BFacts] at hbf
    obtain ⟨hci, hlt⟩ := hbf
    have hfresh : s.get? (.bandDir n) ≠ some .dir := fun hh => absurd (hlt n hh) (Nat.lt_irrefl n)
    rw [gone_createDir_indexDir hci.dirs hfresh]
    exact J.toDone o src D opts trivial hpB hci hgf hx
  | mkI bs n =>
    simp only [BSt.prog, bkMkI] at hpA
    injection hpA with ho hk
    subst ho hk
    simp only [BFacts] at hbf
    obtain ⟨hci, htop, hemp⟩ := hbf
    have hci' : CI H (applyOp true s (.createDir (.indexDir n))).1 :=
      ci_of_exec (exec_createDir_plain (w := World.clean s) hci rfl (fun b' => touchesBand_indexDir _ b'))
    rcases applyOp_createDir_cases s (.indexDir n) with ⟨_, hr⟩ | ⟨_, _, hr⟩ | ⟨hg, _, hr⟩
    · rw [hr]
      exact ⟨.head bs n, γ, rfl, hpB, ⟨hci, htop, hemp⟩, hgf, hx.bk (fun _ h => h) (fun h => (by cases h)), hn⟩
    · rw [hr]; exact J.toDone o src D opts trivial hpB hci hgf hx
    · rw [hr] at hci' hn' ⊢
      obtain ⟨hgf', hx', hbi⟩ := put_other D (β := .mkI bs n) rfl hgf hx (k := .indexDir n) .dir
        (fun _ => by simp) (fun _ _ => by simp) (by simp)
      exact ⟨.head bs n, γ, rfl, hpB,
        ⟨hci', fun b hb => htop b ((hbi b).1 hb),
          hemp.same (BandKeysSame.put _ _ (fun _ => by simp) (by simp) (by simp))⟩,
        hgf', hx'.bk (fun _ h => h) (fun h => (by cases h)), hn'⟩
  | head bs n =>
    simp only [BSt.prog, bkHead] at hpA
    injection hpA with ho hk
    subst ho hk
    simp only [BFacts] at hbf
    obtain ⟨hci, htop, hemp⟩ := hbf
    have hex := exec_write_head (w := World.clean s) hci rfl hemp .ok []
    rw [World.exec_clean_store (World.clean_Clean s), World.exec_clean_resp (World.clean_Clean s)] at hex
    obtain ⟨hci', hopen⟩ := hex
    simp only [World.clean_store] at hci' hopen
    rcases applyOp_write_store true s (.bandHead n) (.head .ok []) .createNew with ⟨hr, hs⟩ | ⟨⟨e, hr⟩, hs⟩
    · have hopen' := hopen hr
      rw [hs] at hci' hn' hopen'
      rw [hr, hs]
      obtain ⟨hgf', hx', hbi⟩ := put_other D (β := .head bs n) rfl hgf hx (k := .bandHead n) (.head .ok [])
        (fun _ => by simp) (fun _ _ => by simp) (by simp)
      exact ⟨.l2 bs n, γ, rfl, hpB, ⟨hci', fun b hb => htop b ((hbi b).1 hb), Or.inl hopen'⟩,
        hgf', hx'.bk (fun _ h => h) (fun h => (by cases h)), hn'⟩
    · rw [hr, hs]; exact J.toDone o src D opts trivial hpB hci hgf hx
  | l2 bs n =>
    simp only [BSt.prog, bkL2] at hpA
    injection hpA with ho hk
    subst ho hk
    rw [applyOp_listDir_store]
    simp only [BFacts] at hbf
    obtain ⟨hci, htop, hband⟩ := hbf
    generalize hr : (applyOp true s (.listDir .root)).2 = r
    cases r with
    | listing xs =>
      simp only [onLockListed]
      have hxs := applyOp_listDir_listing hr
      subst hxs
      split
      · exact J.toDone o src D opts trivial hpB hci hgf hx
      · rename_i hl
        have hnl : lockListedOf s = false := by simpa [lockListedOf] using hl
        have hns : γ.sweeping = false := by
          cases hsw : γ.sweeping with
          | false => rfl
          | true =>
            have hlk : s.get? .gcLock = some .lock := locked_of_sweeping hgf hsw
            rw [lockListedOf_eq_fileAt ((uniqueKeys_iff_nodup s).2 hn)] at hnl
            simp [fileAt, hlk, FileVal.isDir] at hnl
        obtain ⟨o1, k1, hc⟩ := crit_head (H := H) o src bs n
        have hstrip : (crit H o src bs n).strip = crit H o src bs n := by rw [hc]; rfl
        rw [hstrip]
        have htail : s.get? (.bandTail n) = none := by
          rcases hband with hb | hb
          · exact hb.tail
          · exact (EmptyBand.of_fresh hci.dirs hb).tail
        have hfut : CI H ((crit H o src bs n).solo s).2 := by
          rcases hband with hb | hb
          · exact crit_ci_open o hinj hlen hsrc bs n hci hb
          · exact crit_ci_gone hlen o src bs n hci hb
        refine ⟨.crit n, γ, ⟨crit_crit H o src bs n, crit_tailLast H o src bs n, by rw [hc]; exact id⟩, hpB,
          ⟨hn, htop, htail, hfut⟩, hgf, ⟨hx.quiet, hx.there, fun hsw => ?_⟩, hn⟩
        rw [hns] at hsw; cases hsw
    | err e => exact J.toDone o src D opts trivial hpB hci hgf hx
    | val v => exact J.toDone o src D opts trivial hpB hci hgf hx
    | stat a b => exact J.toDone o src D opts trivial hpB hci hgf hx
    | unit => exact J.toDone o src D opts trivial hpB hci hgf hx
  | crit n =>
    obtain ⟨hops, htl, _⟩ := hpA
    simp only [BFacts] at hbf
    obtain ⟨_, htop, htail, hfut⟩ := hbf
    cases hops with
    | op hco hk =>
    cases htl with
    | op htk hg =>
    have hbi : ∀ b, isBand (applyOp true s o').1 b ↔ isBand s b := by
      intro b; unfold isBand; rw [applyOp_get?_of_not_affects _ _ _ _ (critOp_bandDir hco b)]
    have hgf' : GFacts D γ (applyOp true s o').1 :=
      hgf.stable D (fun b h => (hbi b).2 h) (applyOp_get?_of_not_affects _ _ _ _ (critOp_lock hco))
        (fun m hm => (doomed_of_act hx (β := .crit n) rfl hm).mono fun b h => (hbi b).2 h)
        (fun hsw => by have := hx.excl hsw; cases this)
    have hx' : Cross (.crit n) γ (applyOp true s o').1 := hx.store hbi
    have hfut' : CI H ((k (applyOp true s o').2).strip.solo (applyOp true s o').1).2 := by
      rw [Prog.solo_strip]; rw [Prog.solo_op] at hfut; exact hfut
    by_cases hd : (k (applyOp true s o').2).strip.Done
    · rw [hd.solo] at hfut'
      exact J.toDone o src D opts hd hpB hfut' hgf' hx'
    · refine ⟨.crit n, γ, ⟨(hk _).strip, (htk _).strip, hd⟩, hpB, ⟨hn', fun b hb => htop b ((hbi b).1 hb), ?_, hfut'⟩,
        hgf', hx', hn'⟩
      by_cases ht : isTailWrite o'
      · have := hg ht (applyOp true s o').2
        rw [this.strip] at hd
        exact absurd this hd
      · rw [applyOp_get?_of_not_affects _ _ _ _ (critOp_tail hco ht n)]; exact htail

end

end Conserve.Race
