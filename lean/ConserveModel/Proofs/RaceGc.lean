import ConserveModel.Proofs.RaceProg
import ConserveModel.Proofs.ConformsDelete
import ConserveModel.Proofs.DeleteClean
import ConserveModel.Proofs.FrameDelete
/-
C06 on the full model — `delete_bands` (strict mode) cut at its storage operations: the residual
program at every point as an explicit term (`gcB1 … gcW`, `gcRead`, `gcK`, `gcSweepB`, `gcSweepU`),
with `deleteBands true D o = if breakLock then gcB1 else gcN`; what the reading part returns
(`readAll_safe`: the blocks it decides to remove are named by no hunk of a band outside `D`).
No property statements here.
-/
set_option linter.unusedSimpArgs false
namespace Conserve
open Prog Conf

/-- The blocks to remove, from the referenced set and the listing. -/
def unrefL (refs present : List Str) : List Str := (present.filter fun h => !refs.contains h).mergeSort strLe

/-- Everything `delete_bands` reads while it holds the lock, up to and including the sizes of the
unreferenced blocks; returns the blocks it will remove. -/
def readAll (D : List Nat) : Prog (List Str) :=
  listBandIds.bind fun all =>
    (referencedBlocks true (all.filter fun b => !D.contains b)).bind fun refs =>
      listBlocks.bind fun present =>
        (deleteBody.measure (unrefL refs present)).bind fun _ => .ret (unrefL refs present)

def gcFin (st : DeleteStats) : Prog DeleteStats := gcLockRelease.bind fun _ => .ret st

def sweepBlocks (U Urest : List Str) (errs nb : Nat) : Prog DeleteStats :=
  (deleteBody.delBlocks Urest errs).bind fun errs =>
    gcFin { unreferencedBlockCount := U.length, deletedBandCount := nb,
            deletedBlockCount := U.length - errs, deletionErrors := errs }

def sweepBands (U : List Str) (Dr : List Nat) (n : Nat) : Prog DeleteStats :=
  (deleteBody.delBands Dr n).bind fun nb => sweepBlocks U U 0 nb

section
variable (D : List Nat) (o : DeleteOpts)

/-- `deleteBody` after the reading part. -/
def tailK (held : Option Nat) (U : List Str) : Prog DeleteStats :=
  if o.dryRun = true then gcFin { unreferencedBlockCount := U.length }
  else (gcLockCheck held).bind fun _ => sweepBands U D 0

theorem deleteBody_split (held : Option Nat) :
    deleteBody true D o held = (readAll D).bind (tailK D o held) := by
  rw [deleteBody_eq]
  simp only [readAll, bodyRest, tailK, sweepBands, sweepBlocks, gcFin, unrefL, Prog.inv_bind_assoc, Prog.ret_bind]

end

/-- `withLock` around a body: catch everything, release the lock on the error paths. -/
def wl (x : Prog DeleteStats) : Prog DeleteStats :=
  x.attemptAll.bind fun r =>
    match r with
    | .ok st => .ret st
    | .err e => gcLockReleaseOnError.bind fun _ => .fail e
    | .panic site => gcLockDrop.bind fun _ => .panic site

theorem withLock_eq (D : List Nat) (o : DeleteOpts) (held : Option Nat) :
    withLock true D o held = wl (deleteBody true D o held) := rfl

@[simp] theorem wl_op (o : Op) (k : Resp → Prog DeleteStats) : wl (.op o k) = .op o (fun r => wl (k r)) := rfl
@[simp] theorem wl_emit (ev : Event) (k : Prog DeleteStats) : wl (.emit ev k) = .emit ev (wl k) := rfl
@[simp] theorem wl_ret (st : DeleteStats) : wl (.ret st) = .ret st := rfl
theorem wl_fail (e : Err) : wl (.fail e) = gcLockReleaseOnError.bind fun _ => .fail e := rfl
theorem wl_panic (m : String) : wl (.panic m) = gcLockDrop.bind fun _ => .panic m := rfl

/-- Only the removal of the lock file. -/
def Unl (o : Op) : Prop := o = .removeFile .gcLock

theorem gcLockDrop_unl : AllOps Unl gcLockDrop := by
  unfold gcLockDrop perform
  simp only [Prog.bind_def, Prog.op_bind, Prog.ret_bind, Prog.pure_def]
  exact .op rfl fun _ => .ret _

theorem gcLockReleaseOnError_unl : AllOps Unl gcLockReleaseOnError := by
  unfold gcLockReleaseOnError perform
  simp only [Prog.bind_def, Prog.op_bind, Prog.ret_bind, Prog.pure_def]
  refine .op rfl fun r => ?_
  split
  · exact .ret _
  · exact gcLockDrop_unl

theorem wl_fail_unl (e : Err) : AllOps Unl (wl (.fail e)) := by
  rw [wl_fail]; exact AllOps.bind gcLockReleaseOnError_unl fun _ => .fail _

theorem wl_panic_unl (m : String) : AllOps Unl (wl (.panic m)) := by
  rw [wl_panic]; exact AllOps.bind gcLockDrop_unl fun _ => .panic _

theorem onUnit_allOps {α : Type} {P : Op → Prop} {k : Prog α} (hk : AllOps P k) (r : Resp) : AllOps P (onUnit k r) := by
  cases r <;> first | exact hk | exact .fail _

theorem wl_gcFin (st : DeleteStats) :
    wl (gcFin st) = .op (.removeFile .gcLock) fun r => wl (onUnit (.ret st) r) := by
  simp only [gcFin, gcLockRelease, performUnit_bind, wl_op]

theorem wl_onUnit_unl (st : DeleteStats) (r : Resp) : AllOps Unl (wl (onUnit (.ret st) r)) := by
  cases r <;> first | exact .ret _ | exact wl_fail_unl _

theorem wl_gcFin_unl (st : DeleteStats) : AllOps Unl (wl (gcFin st)) := by
  rw [wl_gcFin]; exact .op rfl fun r => wl_onUnit_unl st r

/-- `strip` through `wl (q.bind K)`. -/
theorem wl_bind_strip {β : Type} (q : Prog β) (K : β → Prog DeleteStats) :
    (wl (q.bind K)).strip =
      match q.strip with
      | .ret a => (wl (K a)).strip
      | .fail e => (wl (.fail e)).strip
      | .panic m => (wl (.panic m)).strip
      | q' => wl (q'.bind K) := by
  induction q with
  | ret a => simp
  | fail e => simp
  | panic s => simp
  | emit ev k ih => simpa using ih
  | op o k _ => simp

section
variable (D : List Nat) (o : DeleteOpts)

/-- While the lock is held and the reading part is at `q`. -/
def gcRead (m : Option Nat) (q : Prog (List Str)) : Prog DeleteStats := wl (q.bind (tailK D o m))

/-- At the write of the lock file. -/
def gcW (m : Option Nat) : Prog DeleteStats :=
  .op (.write .gcLock .lock .createNew) (onUnit (gcRead D o m (readAll D)))

/-- At `is_file(GC_LOCK)` inside `GarbageCollectionLock::new`. -/
def gcLC (m : Option Nat) : Prog DeleteStats :=
  .op (.metadata .gcLock) (onFileOr true fun l => if l = true then .fail .gcLockHeld else gcW D o m)

/-- At `band_is_closed(newest)`. -/
def gcTC (b : Nat) : Prog DeleteStats :=
  .op (.metadata (.bandTail b)) (onFile fun c =>
    if (!c) = true then .fail (.deleteWithIncompleteBackup b) else gcLC D o (some b))

def gcAfterN : Option Nat → Prog DeleteStats
  | some b => gcTC D o b
  | none => gcLC D o none

/-- At `last_band_id` inside `GarbageCollectionLock::new`. -/
def gcN : Prog DeleteStats := .op (.listDir .root) (onIds fun ids => gcAfterN D o (maxNat? ids))

/-- `break_lock`: at the removal of the stale lock. -/
def gcB2 : Prog DeleteStats := .op (.removeFile .gcLock) (onUnit (gcN D o))

/-- `break_lock`: at `is_locked`. -/
def gcB1 : Prog DeleteStats :=
  .op (.metadata .gcLock) (onFile fun l => if l = true then gcB2 D o else gcN D o)

theorem lockTail_bind (m : Option Nat) : (lockTail m).bind (withLock true D o) = gcLC D o m := by
  simp only [lockTail, unwrapOr_isFile_bind, gcLC, Prog.op_bind, onFileOr_bind]
  congr 1; funext r; congr 1; funext l
  cases l
  · simp only [Bool.false_eq_true, if_false, Prog.inv_bind_assoc, performUnit_bind, Prog.ret_bind, gcW, gcRead,
      withLock_eq, deleteBody_split, Prog.op_bind, onUnit_bind]
  · rfl

theorem gcLockNew_bind : gcLockNew.bind (withLock true D o) = gcN D o := by
  rw [gcLockNew_eq, Prog.inv_bind_assoc, lastBandId_bind, gcN]
  congr 1; funext r
  cases r with
  | listing xs =>
    simp only [onIds]
    cases maxNat? (listingBandIds xs) with
    | none => exact lockTail_bind D o none
    | some b =>
      simp only [gcAfterN, gcTC, Prog.inv_bind_assoc, bandIsClosed, isFile_bind, Prog.op_bind, onFile_bind]
      congr 1; funext r; congr 1; funext c
      cases c
      · rfl
      · simpa using lockTail_bind D o (some b)
  | _ => rfl

theorem gcBreakLock_bind : gcBreakLock.bind (withLock true D o) = gcB1 D o := by
  simp only [gcBreakLock, gcIsLocked, Prog.bind_def, Prog.pure_def, Prog.inv_bind_assoc, isFile_bind, gcB1,
    Prog.op_bind, onFile_bind]
  congr 1; funext r; congr 1; funext l
  cases l
  · simpa using gcLockNew_bind D o
  · simp only [if_true, Prog.inv_bind_assoc, performUnit_bind, gcB2, gcLockNew_bind, Prog.op_bind, onUnit_bind]

/-- **`delete_bands` from its first operation.** -/
theorem deleteBands_start : deleteBands true D o = if o.breakLock = true then gcB1 D o else gcN D o := by
  rw [deleteBands_eq]
  unfold acquire
  split
  · exact gcBreakLock_bind D o
  · exact gcLockNew_bind D o

/-- At `check()`: the second `last_band_id`. -/
def gcK (m : Option Nat) (U : List Str) : Prog DeleteStats :=
  .op (.listDir .root) fun r => wl (onIds (fun ids =>
    if (maxNat? ids == m) = true then sweepBands U D 0 else .fail .gcLockHeldDuringBackup) r)

theorem wl_tailK (m : Option Nat) (U : List Str) :
    wl (tailK D o m U) =
      if o.dryRun = true then wl (gcFin { unreferencedBlockCount := U.length }) else gcK D m U := by
  unfold tailK
  split
  · rfl
  · simp only [gcLockCheck, Prog.bind_def, Prog.pure_def, Prog.inv_bind_assoc, lastBandId_bind, Prog.op_bind, wl_op, gcK,
      onIds_bind, ite_bind, Prog.ret_bind, Prog.fail_bind]

end

/-- Sweeping: at the removal of band `b`. -/
def gcSweepB (U : List Str) (b : Nat) (bs : List Nat) (n : Nat) : Prog DeleteStats :=
  .op (.removeDirAll (.bandDir b)) fun r => wl (onRmBand b (sweepBands U bs (n + 1)) r)

theorem wl_sweepBands_cons (U : List Str) (b : Nat) (bs : List Nat) (n : Nat) :
    wl (sweepBands U (b :: bs) n) = gcSweepB U b bs n := by
  simp only [sweepBands, deleteBody.delBands, Prog.bind_def, Prog.inv_bind_assoc, bandDelete_bind, Prog.op_bind,
    onRmBand_bind, wl_op, gcSweepB]

theorem wl_sweepBands_nil (U : List Str) (n : Nat) : wl (sweepBands U [] n) = wl (sweepBlocks U U 0 n) := by
  simp only [sweepBands, deleteBody.delBands, Prog.pure_def, Prog.ret_bind]

/-- Sweeping: at the removal of block `h`. -/
def gcSweepU (U : List Str) (h : Str) (hs : List Str) (errs nb : Nat) : Prog DeleteStats :=
  .op (.removeFile (.block h)) fun r =>
    match r with
    | .unit => wl (sweepBlocks U hs errs nb)
    | _ => wl (sweepBlocks U hs (errs + 1) nb)

theorem wl_sweepBlocks_cons (U : List Str) (h : Str) (hs : List Str) (errs nb : Nat) :
    wl (sweepBlocks U (h :: hs) errs nb) = gcSweepU U h hs errs nb := by
  simp only [sweepBlocks, deleteBody.delBlocks, perform, Prog.bind_def, Prog.op_bind, Prog.ret_bind, wl_op, gcSweepU]
  congr 1; funext r
  cases r <;> rfl

theorem wl_sweepBlocks_nil (U : List Str) (errs nb : Nat) :
    wl (sweepBlocks U [] errs nb) =
      wl (gcFin { unreferencedBlockCount := U.length, deletedBandCount := nb,
                  deletedBlockCount := U.length - errs, deletionErrors := errs }) := by
  simp only [sweepBlocks, deleteBody.delBlocks, Prog.pure_def, Prog.ret_bind]

/-! ### What the reading part returns -/

/-- No hunk of a band directory outside `Dr` names a block of `U`. -/
def SafeU (Dr : List Nat) (U : List Str) (s : Store) : Prop :=
  ∀ b, s.get? (.bandDir b) = some .dir → b ∉ Dr → ∀ n es, s.get? (.hunk b n) = some (.hunk es) →
    ∀ e ∈ es, ∀ a ∈ e.addrs, a.hash ∉ U

theorem SafeU.of_cover {D : List Nat} {refs U : List Str} {s : Store} (h : RefsCover D refs s)
    (hU : ∀ x ∈ U, x ∉ refs) : SafeU D U s :=
  fun b hb hbD n es hes e he a ha hin => hU _ hin (h b hb hbD n es hes e he a ha)

theorem SafeU.mono {Dr : List Nat} {U U' : List Str} {s : Store} (h : SafeU Dr U s) (hU : ∀ x ∈ U', x ∈ U) :
    SafeU Dr U' s :=
  fun b hb hbD n es hes e he a ha hin => h b hb hbD n es hes e he a ha (hU _ hin)

theorem mem_unrefL {refs present : List Str} {x : Str} (h : x ∈ unrefL refs present) : x ∉ refs := by
  simp only [unrefL, List.mem_mergeSort, List.mem_filter, Bool.not_eq_true', List.contains_eq_mem,
    decide_eq_false_iff_not] at h
  exact h.2

variable {H : Str → Str}

/-- On an archive satisfying `CI`, in any world: the blocks the reading part decides to remove are
named by no hunk of a band directory outside `D`. -/
theorem readAll_run_safe (D : List Nat) (w : World) (hI : CI H w.store) {U : List Str}
    (h : ((readAll D).run w).1 = .ok U) : SafeU D U w.store := by
  unfold readAll at h
  obtain ⟨all, w1, hall, hst1, h⟩ := run_bind_ok_ro readOnly_listBandIds h
  obtain ⟨refs, w2, hrefs, hst2, h⟩ := run_bind_ok_ro (readOnly_referencedBlocks true _) h
  obtain ⟨present, w3, _, _, h⟩ := run_bind_ok_ro readOnly_listBlocks h
  obtain ⟨_, w4, _, _, h⟩ := run_bind_ok_ro (readOnly_measure _) h
  simp only [Prog.run_ret, Outcome.ok.injEq] at h
  subst h
  have hall' : all = bandIdsOf w.store := listBandIds_sound (by rw [hall])
  have hcov : RefsCover D refs w.store := by
    intro b hbdir hbD n es hes e he a ha
    refine referencedBlocks_sound _ w1 refs (by rw [hrefs]) b ?_ ?_ n es (by rw [hst1]; simp [hunkAt, hes]) e he a ha
    · rw [List.mem_filter, hall']
      exact ⟨(mem_bandIdsOf_iff_get? hI.nodup).2 hbdir, by simpa using hbD⟩
    · intro n' v hv
      rw [hst1] at hv ⊢
      exact (hI.dirs.hunkTreeOk b n' v hv).1
  exact SafeU.of_cover hcov fun x hx => mem_unrefL hx

theorem readAll_safe (D : List Nat) {s : Store} (hI : CI H s) {U : List Str}
    (h : ((readAll D).solo s).1 = .ok U) : SafeU D U s := by
  have := readAll_run_safe (H := H) D (World.clean s) hI (U := U)
    (by rw [((readAll D).run_clean_eq_solo s).1]; exact h)
  exact this

theorem readAll_ro (D : List Nat) : AllOps ReadOnly (readAll D) := by
  unfold readAll
  refine AllOps.bind listBandIds_ro fun all => AllOps.bind (referencedBlocks_ro true _) fun refs =>
    AllOps.bind listBlocks_ro fun present => AllOps.bind (deleteBody_measure_ro _) fun _ => .ret _

end Conserve
