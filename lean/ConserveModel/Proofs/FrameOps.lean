import ConserveModel.Proofs.FrameStep
import ConserveModel.Gc
/-
Which operations each archive-level function can issue (`Prog.AllOps P f`), proved
compositionally.  Readers are `ReadOnly`; the index/block writer is `WriterOp`; `bandCreate`
and `backup` are `BackupOp` (hence `CreateOnly`).
-/
namespace Conserve
open Prog

theorem Prog.AllOps.perform {P : Op → Prop} {o : Op} (h : P o) : Prog.AllOps P (Prog.perform o) :=
  .op h (fun r => .ret r)

theorem Prog.AllOps.logError {P : Op → Prop} (e : Err) : Prog.AllOps P (Prog.logError e) :=
  .emit _ (.ret ())

theorem Prog.AllOps.report {P : Op → Prop} (ev : Event) : Prog.AllOps P (Prog.report ev) :=
  .emit _ (.ret ())

theorem Prog.AllOps.attemptAll {α : Type} {P : Op → Prop} {p : Prog α}
    (hp : Prog.AllOps P p) : Prog.AllOps P p.attemptAll := by
  induction hp with
  | ret a => exact .ret _
  | fail e => exact .ret _
  | panic s => exact .ret _
  | emit ev _ ih => exact .emit ev ih
  | op ho _ ih => exact .op ho ih

theorem Prog.AllOps.ro_wr {α : Type} {p : Prog α} (h : Prog.AllOps ReadOnly p) : Prog.AllOps WriterOp p :=
  h.mono fun _ => ReadOnly.writerOp
theorem Prog.AllOps.ro_bk {α : Type} {p : Prog α} (h : Prog.AllOps ReadOnly p) : Prog.AllOps BackupOp p :=
  h.mono fun _ => ReadOnly.backupOp
theorem Prog.AllOps.ro_co {α : Type} {p : Prog α} (h : Prog.AllOps ReadOnly p) : Prog.AllOps CreateOnly p :=
  h.mono fun _ => ReadOnly.createOnly
theorem Prog.AllOps.wr_bk {α : Type} {p : Prog α} (h : Prog.AllOps WriterOp p) : Prog.AllOps BackupOp p :=
  h.mono fun _ => WriterOp.backupOp
theorem Prog.AllOps.bk_co {α : Type} {p : Prog α} (h : Prog.AllOps BackupOp p) : Prog.AllOps CreateOnly p :=
  h.mono fun _ => BackupOp.createOnly

/-- Side goals `P o` for a concrete operation. -/
macro "op_side" : tactic =>
  `(tactic| first
    | assumption
    | focus (simp [ReadOnly, CreateOnly, BackupOp, WriterOp, isHeadWrite, isBandDirCreate]; done))

/-- Structural proof of `AllOps P prog`: peel binds, matches and ifs; close leaves with the
given lemmas (also through the inclusions between the operation classes). -/
syntax "allops" ("[" term,* "]")? : tactic
macro_rules
  | `(tactic| allops) => `(tactic| allops [])
  | `(tactic| allops [$ts,*]) => do
    let mut alts : Array (Lean.TSyntax `Lean.Parser.Tactic.tacticSeq) := #[]
    for t in ts.getElems do
      alts := alts.push (← `(tacticSeq| apply $t))
      alts := alts.push (← `(tacticSeq| (apply Prog.AllOps.ro_wr; apply $t)))
      alts := alts.push (← `(tacticSeq| (apply Prog.AllOps.ro_bk; apply $t)))
      alts := alts.push (← `(tacticSeq| (apply Prog.AllOps.wr_bk; apply $t)))
    `(tactic| repeat (first
      | exact Prog.AllOps.ret _
      | exact Prog.AllOps.fail _
      | exact Prog.AllOps.panic _
      | exact Prog.AllOps.logError _
      | exact Prog.AllOps.report _
      | assumption
      | (first $[| $alts]* | fail)
      | (apply Prog.AllOps.perform; op_side)
      | apply Prog.AllOps.emit
      | apply Prog.AllOps.bind
      | apply Prog.AllOps.attempt
      | apply Prog.AllOps.attemptAll
      | (apply Prog.AllOps.op; op_side)
      | intro _
      | split
      | simp only [Prog.bind_def, Prog.pure_def]
      | op_side
      | dsimp only))

/-! ### Readers -/

theorem isFile_ro (k : Key) : AllOps ReadOnly (isFile k) := by
  unfold isFile; allops

theorem archiveOpen_ro : AllOps ReadOnly archiveOpen := by
  unfold archiveOpen; allops

theorem listBandIds_ro : AllOps ReadOnly listBandIds := by
  unfold listBandIds; allops

theorem lastBandId_ro : AllOps ReadOnly lastBandId := by
  unfold lastBandId; allops [listBandIds_ro]

theorem bandOpen_ro (b : Nat) : AllOps ReadOnly (bandOpen b) := by
  unfold bandOpen; allops

theorem bandIsClosed_ro (b : Nat) : AllOps ReadOnly (bandIsClosed b) := isFile_ro _
theorem bandExists_ro (b : Nat) : AllOps ReadOnly (bandExists b) := isFile_ro _
theorem gcIsLocked_ro : AllOps ReadOnly gcIsLocked := isFile_ro _
/-- The second look `backup` takes at the lock: one `listDir` of the root, nothing else. -/
theorem gcLockListed_ro : AllOps ReadOnly gcLockListed := by
  unfold gcLockListed; allops

theorem unwrapOr_allOps {α : Type} {P : Op → Prop} {p : Prog α} (d : α) (h : AllOps P p) :
    AllOps P (unwrapOr p d) := by
  unfold unwrapOr; allops

theorem performUnit_allOps {P : Op → Prop} {o : Op} (h : P o) : AllOps P (performUnit o) := by
  unfold performUnit; allops

theorem listBlocks_go_ro (ps acc : List Str) : AllOps ReadOnly (listBlocks.go ps acc) := by
  induction ps generalizing acc with
  | nil => unfold listBlocks.go; allops
  | cons p ps ih => unfold listBlocks.go; allops [ih]

theorem listBlocks_ro : AllOps ReadOnly listBlocks := by
  unfold listBlocks; allops [listBlocks_go_ro]

theorem hunksAvailable_go_ro (b : Nat) (ds acc : List Nat) : AllOps ReadOnly (hunksAvailable.go b ds acc) := by
  induction ds generalizing acc with
  | nil => unfold hunksAvailable.go; allops
  | cons d ds ih => unfold hunksAvailable.go; allops [ih]

theorem hunksAvailable_ro (b : Nat) : AllOps ReadOnly (hunksAvailable b) := by
  unfold hunksAvailable; allops [hunksAvailable_go_ro]

theorem iterAvailableHunks_ro (b : Nat) : AllOps ReadOnly (iterAvailableHunks b) := by
  unfold iterAvailableHunks; allops [hunksAvailable_ro]

theorem readHunk_ro (b n : Nat) : AllOps ReadOnly (readHunk b n) := by
  unfold readHunk; allops

theorem readHunks_ro (b : Nat) (ns : List Nat) (after last : Option Str) :
    AllOps ReadOnly (readHunks b ns after last) := by
  induction ns generalizing after last with
  | nil => unfold readHunks; allops
  | cons n ns ih => unfold readHunks; allops [readHunk_ro, ih]

theorem hunkLengths_go_ro (b : Nat) (ds : List Nat) (acc : List (Nat × Bool)) :
    AllOps ReadOnly (hunkLengths.go b ds acc) := by
  induction ds generalizing acc with
  | nil => unfold hunkLengths.go; allops
  | cons d ds ih => unfold hunkLengths.go; allops [ih]

theorem hunkLengths_ro (b : Nat) : AllOps ReadOnly (hunkLengths b) := by
  unfold hunkLengths; allops [hunkLengths_go_ro]

theorem checkIndexHunks_ro (b : Nat) : AllOps ReadOnly (checkIndexHunks b) := by
  unfold checkIndexHunks; allops [hunkLengths_ro]

theorem readBand_ro (b : Nat) (last : Option Str) : AllOps ReadOnly (readBand b last) := by
  unfold readBand; allops [bandOpen_ro, hunksAvailable_ro, checkIndexHunks_ro, readHunks_ro]

theorem stitchDown_ro (b : Nat) (last : Option Str) : AllOps ReadOnly (stitchDown b last) := by
  induction b generalizing last with
  | zero => unfold stitchDown; allops
  | succ b ih =>
    unfold stitchDown
    allops [unwrapOr_allOps, bandExists_ro, bandIsClosed_ro, readBand_ro, ih]

theorem stitchAll_ro (b : Nat) : AllOps ReadOnly (stitchAll b) := by
  unfold stitchAll
  allops [unwrapOr_allOps, bandIsClosed_ro, readBand_ro, stitchDown_ro]

theorem filterEntries_allOps {P : Op → Prop} (subtree : Str) (excl : Str → Bool) (es : List IndexEntry) :
    AllOps P (filterEntries subtree excl es) := by
  induction es with
  | nil => unfold filterEntries; allops
  | cons e es ih => unfold filterEntries; allops

theorem listEntries_ro (b : Nat) (subtree : Str) (excl : Str → Bool) :
    AllOps ReadOnly (listEntries b subtree excl) := by
  unfold listEntries; allops [stitchAll_ro, filterEntries_allOps]

theorem lastCompleteBand_go_ro (bs : List Nat) : AllOps ReadOnly (lastCompleteBand.go bs) := by
  induction bs with
  | nil => unfold lastCompleteBand.go; allops
  | cons b bs ih => unfold lastCompleteBand.go; allops [bandOpen_ro, bandIsClosed_ro, ih]

theorem lastCompleteBand_ro : AllOps ReadOnly lastCompleteBand := by
  unfold lastCompleteBand; allops [listBandIds_ro, lastCompleteBand_go_ro]

theorem resolveBandId_ro (sel : BandSelection) : AllOps ReadOnly (resolveBandId sel) := by
  unfold resolveBandId; allops [lastCompleteBand_ro, lastBandId_ro]

theorem listVersion_ro (sel : BandSelection) (subtree : Str) (excl : Str → Bool) :
    AllOps ReadOnly (listVersion sel subtree excl) := by
  unfold listVersion; allops [resolveBandId_ro, bandOpen_ro, listEntries_ro]

/-! ### Band creation and the writer -/

theorem bandCreate_bk : AllOps BackupOp bandCreate := by
  unfold bandCreate; allops [lastBandId_ro, performUnit_allOps]

theorem bandClose_wr (b hunks : Nat) : AllOps WriterOp (bandClose b hunks) := by
  unfold bandClose; allops [performUnit_allOps]

section
variable (H : Str → Str)

theorem storeOrDedup_wr (w : Writer) (data : Str) : AllOps WriterOp (storeOrDedup H w data) := by
  unfold storeOrDedup; allops

theorem combinerFlush_wr (w : Writer) : AllOps WriterOp (combinerFlush H w) := by
  unfold combinerFlush; allops [storeOrDedup_wr]

theorem combinerPush_wr (o : BackupOpts) (w : Writer) (s : SrcEntry) : AllOps WriterOp (combinerPush H o w s) := by
  unfold combinerPush; allops [combinerFlush_wr]

theorem storeChunks_wr (w : Writer) (cs : List Str) (acc : List Addr) : AllOps WriterOp (storeChunks H w cs acc) := by
  induction cs generalizing w acc with
  | nil => unfold storeChunks; allops
  | cons c cs ih => unfold storeChunks; allops [storeOrDedup_wr, ih]

theorem storeFileContent_wr (o : BackupOpts) (w : Writer) (s : SrcEntry) :
    AllOps WriterOp (storeFileContent H o w s) := by
  unfold storeFileContent; allops [storeChunks_wr]

theorem copyFile_wr (o : BackupOpts) (w : Writer) (basis : Option IndexEntry) (s : SrcEntry) :
    AllOps WriterOp (copyFile H o w basis s) := by
  unfold copyFile; allops [combinerPush_wr, storeFileContent_wr]

theorem copyEntry_wr (o : BackupOpts) (w : Writer) (basis : Option IndexEntry) (s : SrcEntry) :
    AllOps WriterOp (copyEntry H o w basis s) := by
  unfold copyEntry; allops [copyFile_wr]

theorem finishHunk_wr (w : Writer) : AllOps WriterOp (finishHunk w) := by
  unfold finishHunk; allops [performUnit_allOps]

theorem flushGroup_wr (w : Writer) : AllOps WriterOp (flushGroup H w) := by
  unfold flushGroup; allops [combinerFlush_wr, finishHunk_wr]

theorem backupLoop_wr (o : BackupOpts) (w : Writer) (ms : List Matched) :
    AllOps WriterOp (backupLoop H o w ms) := by
  induction ms generalizing w with
  | nil => unfold backupLoop; allops
  | cons m ms ih =>
    cases m with
    | left b => simp only [backupLoop]; allops [ih]
    | right s => simp only [backupLoop]; allops [copyEntry_wr, flushGroup_wr, ih]
    | both b s => simp only [backupLoop]; allops [copyEntry_wr, flushGroup_wr, ih]

theorem backup_bk (o : BackupOpts) (src : List SrcEntry) : AllOps BackupOp (backup H o src) := by
  unfold backup
  allops [gcIsLocked_ro, lastBandId_ro, bandCreate_bk, gcLockListed_ro, listBlocks_ro, listEntries_ro, backupLoop_wr,
    flushGroup_wr, finishHunk_wr, bandClose_wr]

theorem backup_createOnly (o : BackupOpts) (src : List SrcEntry) : AllOps CreateOnly (backup H o src) :=
  (backup_bk H o src).bk_co

theorem open_backup_bk (o : BackupOpts) (src : List SrcEntry) :
    AllOps BackupOp (archiveOpen >>= fun _ => backup H o src) :=
  AllOps.bind archiveOpen_ro.ro_bk fun _ => backup_bk H o src

end

end Conserve
