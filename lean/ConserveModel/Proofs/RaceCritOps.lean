import ConserveModel.Proofs.RaceLock
import ConserveModel.Proofs.RaceBackup
/-
C06 on the full model — which operations `backup` issues after its second look at the gc lock:
`AllOps CritOp0 (crit …)`, and a band tail write is its last operation (`TailLast`).
No property statements here.
-/
namespace Conserve
open Prog Conserve.Conf Conserve.Inv

def isTailWrite : Op → Prop
  | .write (.bandTail _) _ _ => True
  | _ => False

/-- `CritOp` other than the write of a band tail. -/
def CritOp0 (o : Op) : Prop := CritOp o ∧ ¬ isTailWrite o

macro "crit_side" : tactic =>
  `(tactic| first
    | assumption
    | focus (simp [CritOp0, CritOp, isTailWrite, *]; done))

/-- Structural proof of `AllOps CritOp0 prog` (as `allops` of Proofs/FrameOps.lean). -/
syntax "critops" ("[" term,* "]")? : tactic
macro_rules
  | `(tactic| critops) => `(tactic| critops [])
  | `(tactic| critops [$ts,*]) => do
    let mut alts : Array (Lean.TSyntax `Lean.Parser.Tactic.tacticSeq) := #[]
    for t in ts.getElems do
      alts := alts.push (← `(tacticSeq| apply $t))
    `(tactic| repeat (first
      | exact Prog.AllOps.ret _
      | exact Prog.AllOps.fail _
      | exact Prog.AllOps.panic _
      | exact Prog.AllOps.logError _
      | exact Prog.AllOps.report _
      | assumption
      | (first $[| $alts]* | fail)
      | (apply Prog.AllOps.perform; crit_side)
      | apply Prog.AllOps.emit
      | apply Prog.AllOps.bind
      | apply Prog.AllOps.attempt
      | (apply Prog.AllOps.op; crit_side)
      | intro _
      | split
      | simp only [Prog.bind_def, Prog.pure_def]
      | crit_side
      | dsimp only))

/-! ### Readers -/

theorem isFile_crit {k : Key} (hk : k ≠ .gcLock) : AllOps CritOp0 (isFile k) := by
  unfold isFile; critops

theorem bandOpen_crit (b : Nat) : AllOps CritOp0 (bandOpen b) := by
  unfold bandOpen; critops

theorem bandIsClosed_crit (b : Nat) : AllOps CritOp0 (bandIsClosed b) := isFile_crit (by simp)
theorem bandExists_crit (b : Nat) : AllOps CritOp0 (bandExists b) := isFile_crit (by simp)

theorem listBlocks_go_crit (ps acc : List Str) : AllOps CritOp0 (listBlocks.go ps acc) := by
  induction ps generalizing acc with
  | nil => unfold listBlocks.go; critops
  | cons p ps ih => unfold listBlocks.go; critops [ih]

theorem listBlocks_crit : AllOps CritOp0 listBlocks := by
  unfold listBlocks; critops [listBlocks_go_crit]

theorem hunksAvailable_go_crit (b : Nat) (ds acc : List Nat) : AllOps CritOp0 (hunksAvailable.go b ds acc) := by
  induction ds generalizing acc with
  | nil => unfold hunksAvailable.go; critops
  | cons d ds ih => unfold hunksAvailable.go; critops [ih]

theorem hunksAvailable_crit (b : Nat) : AllOps CritOp0 (hunksAvailable b) := by
  unfold hunksAvailable; critops [hunksAvailable_go_crit]

theorem readHunk_crit (b n : Nat) : AllOps CritOp0 (readHunk b n) := by
  unfold readHunk; critops

theorem readHunks_crit (b : Nat) (ns : List Nat) (after last : Option Str) :
    AllOps CritOp0 (readHunks b ns after last) := by
  induction ns generalizing after last with
  | nil => unfold readHunks; critops
  | cons n ns ih => unfold readHunks; critops [readHunk_crit, ih]

theorem hunkLengths_go_crit (b : Nat) (ds : List Nat) (acc : List (Nat × Bool)) :
    AllOps CritOp0 (hunkLengths.go b ds acc) := by
  induction ds generalizing acc with
  | nil => unfold hunkLengths.go; critops
  | cons d ds ih => unfold hunkLengths.go; critops [ih]

theorem hunkLengths_crit (b : Nat) : AllOps CritOp0 (hunkLengths b) := by
  unfold hunkLengths; critops [hunkLengths_go_crit]

theorem checkIndexHunks_crit (b : Nat) : AllOps CritOp0 (checkIndexHunks b) := by
  unfold checkIndexHunks; critops [hunkLengths_crit]

theorem readBand_crit (b : Nat) (last : Option Str) : AllOps CritOp0 (readBand b last) := by
  unfold readBand; critops [bandOpen_crit, hunksAvailable_crit, checkIndexHunks_crit, readHunks_crit]

theorem stitchDown_crit (b : Nat) (last : Option Str) : AllOps CritOp0 (stitchDown b last) := by
  induction b generalizing last with
  | zero => unfold stitchDown; critops
  | succ b ih =>
    unfold stitchDown
    critops [unwrapOr_allOps, bandExists_crit, bandIsClosed_crit, readBand_crit, ih]

theorem stitchAll_crit (b : Nat) : AllOps CritOp0 (stitchAll b) := by
  unfold stitchAll
  critops [unwrapOr_allOps, bandIsClosed_crit, readBand_crit, stitchDown_crit]

theorem listEntries_crit (b : Nat) (subtree : Str) (excl : Str → Bool) :
    AllOps CritOp0 (listEntries b subtree excl) := by
  unfold listEntries; critops [stitchAll_crit, filterEntries_allOps]

theorem basisListing_crit (basis : Option Nat) : AllOps CritOp0 (basisListing basis) := by
  cases basis with
  | none => exact .ret _
  | some b => exact listEntries_crit b _ _

/-! ### The writer -/

theorem Prog.AllOps.crit0 {α : Type} {p : Prog α} (h : AllOps CritOp0 p) : AllOps CritOp p := h.mono fun _ h => h.1
theorem Prog.AllOps.noTail {α : Type} {p : Prog α} (h : AllOps CritOp0 p) : AllOps (fun o => ¬ isTailWrite o) p :=
  h.mono fun _ h => h.2

section
variable (H : Str → Str)

theorem storeOrDedup_crit (w : Writer) (data : Str) : AllOps CritOp0 (storeOrDedup H w data) := by
  unfold storeOrDedup; critops

theorem combinerFlush_crit (w : Writer) : AllOps CritOp0 (combinerFlush H w) := by
  unfold combinerFlush; critops [storeOrDedup_crit]

theorem combinerPush_crit (o : BackupOpts) (w : Writer) (s : SrcEntry) : AllOps CritOp0 (combinerPush H o w s) := by
  unfold combinerPush; critops [combinerFlush_crit]

theorem storeChunks_crit (w : Writer) (cs : List Str) (acc : List Addr) : AllOps CritOp0 (storeChunks H w cs acc) := by
  induction cs generalizing w acc with
  | nil => unfold storeChunks; critops
  | cons c cs ih => unfold storeChunks; critops [storeOrDedup_crit, ih]

theorem storeFileContent_crit (o : BackupOpts) (w : Writer) (s : SrcEntry) :
    AllOps CritOp0 (storeFileContent H o w s) := by
  unfold storeFileContent; critops [storeChunks_crit]

theorem copyFile_crit (o : BackupOpts) (w : Writer) (basis : Option IndexEntry) (s : SrcEntry) :
    AllOps CritOp0 (copyFile H o w basis s) := by
  unfold copyFile; critops [combinerPush_crit, storeFileContent_crit]

theorem copyEntry_crit (o : BackupOpts) (w : Writer) (basis : Option IndexEntry) (s : SrcEntry) :
    AllOps CritOp0 (copyEntry H o w basis s) := by
  unfold copyEntry; critops [copyFile_crit]

theorem finishHunk_crit (w : Writer) : AllOps CritOp0 (finishHunk w) := by
  unfold finishHunk; critops [performUnit_allOps]

theorem flushGroup_crit (w : Writer) : AllOps CritOp0 (flushGroup H w) := by
  unfold flushGroup; critops [combinerFlush_crit, finishHunk_crit]

theorem backupLoop_crit (o : BackupOpts) (w : Writer) (ms : List Matched) :
    AllOps CritOp0 (backupLoop H o w ms) := by
  induction ms generalizing w with
  | nil => unfold backupLoop; critops
  | cons m ms ih =>
    cases m with
    | left b => simp only [backupLoop]; critops [ih]
    | right s => simp only [backupLoop]; critops [copyEntry_crit, flushGroup_crit, ih]
    | both b s => simp only [backupLoop]; critops [copyEntry_crit, flushGroup_crit, ih]

end

/-! ### A tail write is the last operation -/

/-- After every write of a band tail the program is finished, whatever the response. -/
inductive TailLast {α : Type} : Prog α → Prop
  | ret (a : α) : TailLast (.ret a)
  | fail (e : Err) : TailLast (.fail e)
  | panic (s : String) : TailLast (.panic s)
  | emit (ev : Event) {k : Prog α} : TailLast k → TailLast (.emit ev k)
  | op {o : Op} {k : Resp → Prog α} : (∀ r, TailLast (k r)) → (isTailWrite o → ∀ r, (k r).Done) → TailLast (.op o k)

theorem TailLast.of_allOps {α : Type} {p : Prog α} (hp : AllOps (fun o => ¬ isTailWrite o) p) : TailLast p := by
  induction hp with
  | ret a => exact .ret a
  | fail e => exact .fail e
  | panic s => exact .panic s
  | emit ev _ ih => exact .emit ev ih
  | op ho _ ih => exact .op ih (fun hw => absurd hw ho)

theorem TailLast.bind {α β : Type} {p : Prog α} {f : α → Prog β}
    (hp : AllOps (fun o => ¬ isTailWrite o) p) (hf : ∀ a, TailLast (f a)) : TailLast (p.bind f) := by
  induction hp with
  | ret a => exact hf a
  | fail e => exact .fail e
  | panic s => exact .panic s
  | emit ev _ ih => exact .emit ev ih
  | op ho _ ih => exact .op ih (fun hw => absurd hw ho)

theorem TailLast.strip {α : Type} {p : Prog α} (h : TailLast p) : TailLast p.strip := by
  induction h with
  | ret a => exact .ret a
  | fail e => exact .fail e
  | panic s => exact .panic s
  | emit ev _ ih => exact ih
  | op hk hg _ => exact .op hk hg


section
variable (H : Str → Str) (o : BackupOpts) (src : List SrcEntry)

/-- Everything of `backupMain` before the tail. -/
def mainBody (x : Nat × List Str × List IndexEntry) : Prog Writer :=
  (backupLoop H o { band := x.1, exists_ := x.2.1 } (mergeTrees x.2.2 src)).bind fun w =>
  (flushGroup H w).bind fun w => finishHunk w

/-- The tail write and the result. -/
def mainTail (w : Writer) : Prog Stats :=
  .op (.write (.bandTail w.band) (.tail (some w.hunksWritten)) .createNew) (onUnit (.ret w.stats))

theorem backupMain_split (x : Nat × List Str × List IndexEntry) :
    backupMain H o src x = (mainBody H o src x).bind mainTail := by
  simp only [backupMain, mainBody, bandClose, Prog.inv_bind_assoc, performUnit_bind]
  rfl

theorem mainBody_crit (x : Nat × List Str × List IndexEntry) : AllOps CritOp0 (mainBody H o src x) := by
  unfold mainBody
  critops [backupLoop_crit, flushGroup_crit, finishHunk_crit]

theorem mainTail_crit (w : Writer) : AllOps CritOp (mainTail w) := by
  unfold mainTail
  refine .op (by simp [CritOp]) fun r => ?_
  cases r <;> first | exact .ret _ | exact .fail _

theorem mainTail_tailLast (w : Writer) : TailLast (mainTail w) := by
  unfold mainTail
  refine .op (fun r => ?_) (fun _ r => ?_)
  · cases r <;> first | exact .ret _ | exact .fail _
  · cases r <;> trivial

/-- Everything of `crit` before the tail. -/
def critBody (basis : Option Nat) (n : Nat) : Prog Writer :=
  listBlocks.bind fun blocks => (basisListing basis).bind fun be => mainBody H o src (n, blocks, be)

theorem crit_split (basis : Option Nat) (n : Nat) :
    crit H o src basis n = (critBody H o src basis n).bind mainTail := by
  simp only [crit, critBody, backupMain_split, Prog.inv_bind_assoc]

theorem critBody_crit (basis : Option Nat) (n : Nat) : AllOps CritOp0 (critBody H o src basis n) := by
  unfold critBody
  critops [listBlocks_crit, basisListing_crit, mainBody_crit]

theorem crit_crit (basis : Option Nat) (n : Nat) : AllOps CritOp (crit H o src basis n) := by
  rw [crit_split]
  exact AllOps.bind (critBody_crit H o src basis n).crit0 fun w => mainTail_crit w

theorem crit_tailLast (basis : Option Nat) (n : Nat) : TailLast (crit H o src basis n) := by
  rw [crit_split]
  exact TailLast.bind (critBody_crit H o src basis n).noTail fun w => mainTail_tailLast w

end

end Conserve
