import ConserveModel.Props.C09p
import ConserveModel.Props.C01a
/-
C14 from the format invariant: what C01a's `ArchiveGood` asks of the archive a backup starts from,
derived from C13's `CI = Conforms ∧ DirsOk ∧ NoDupKeys` as far as it follows, with the rest as
explicit hypotheses (`archiveGood_of_ci`).  Also `KindsOK` — directories where the layout has
directories — as an invariant of `backup` and `delete_bands` in every world.  No property
statements here.
-/
namespace Conserve.Rng
open Conserve Conserve.Inv Conserve.Conf Conserve.Exact Prog

variable {H : Str → Str}

/-! ### What follows from `CI` alone -/

theorem ci_root {s : Store} (hci : CI H s) : s.get? .root = some .dir := by
  have := hci.conf
  unfold Conforms at this
  simp only [Bool.and_eq_true, beq_iff_eq] at this
  exact this.1.1.1.2

theorem ci_blockRoot {s : Store} (hci : CI H s) : s.get? .blockRoot = some .dir := by
  have := hci.conf
  unfold Conforms at this
  simp only [Bool.and_eq_true, beq_iff_eq] at this
  exact this.1.1.2

theorem ci_blocksGood {s : Store} (hci : CI H s) : BlocksGood H s := by
  apply blocksGood_of_conform
  have := hci.conf
  unfold Conforms at this
  simp only [Bool.and_eq_true] at this
  exact this.1.2

/-- **No dangling reference**: in a conforming tree-shaped archive every address of every entry of
every decodable hunk lies inside a present, correctly named block. -/
theorem ci_noDangling {s : Store} (hci : CI H s) : NoDangling H s := by
  intro b n es hes e he a ha
  have hc := entry_of_hunk_conforms hci hes he
  unfold entryConforms at hc
  cases hk : e.kind with
  | file =>
    simp only [hk, Bool.and_eq_true, List.all_eq_true] at hc
    exact hc.2.2 a ha
  | dir =>
    simp only [hk, Bool.and_eq_true, List.isEmpty_iff] at hc
    rw [hc.2.1] at ha; cases ha
  | symlink =>
    simp only [hk, Bool.and_eq_true, List.isEmpty_iff] at hc
    rw [hc.2.1] at ha; cases ha
  | unknown => simp [hk] at hc

/-- `StoreOK` from `CI`: what does NOT follow is that keys the layout reserves for directories hold
directories and vice versa (`KindsOK`: `Conforms` does not look at `bNNNN/i`, nor at a directory
sitting where a hunk file belongs), and that blocks are shorter than 2^64 bytes (`BlocksSmall`). -/
theorem storeOK_of_ci {s : Store} (hci : CI H s) (hk : KindsOK s) (hsmall : BlocksSmall s) : StoreOK H s :=
  ⟨hci.nodup, fun _ _ h => hci.dirs.parent_of_get? h, hk, ci_root hci, ci_blockRoot hci, ci_blocksGood hci, hsmall⟩

/-! ### With readable heads and values in range: the archive is healthy -/

/-- Every version directory holds a version that lists without complaint. -/
theorem bandGood_of_good {s : Store} (g : Good H s) {b : Nat} (hb : b ∈ bandIdsOf s) : BandGood s b :=
  ⟨g.heads b hb, g.indexCheck_none hb, fun _ hk => g.hunkError_none hb hk⟩

/-- **`archiveGood_of_ci`.**  C01a's hypothesis on the archive, from C13's invariant plus exactly
what the invariant does not say:
* `AllHeadsReadable` — no head-less (or index-less) version directory (a backup killed before its
  head write leaves one; `Conforms` allows it);
* `entriesInRange` — representable times, no `u64` overflow (`Conforms` does not say it);
* `KindsOK`, `BlocksSmall` — see `storeOK_of_ci`;
* no `GC_LOCK` (invisible to the format);
* `HeuristicSoundStore` — the tool's own "looks unchanged ⇒ is unchanged" assumption about the source.
Tree shape, distinct keys, `d/` and the archive directory, block names, sorted hunks, `BandGood` of
every version, and the absence of dangling references all follow. -/
theorem archiveGood_of_ci {s : Store} {src : List SrcEntry} (hci : CI H s) (hh : AllHeadsReadable s)
    (hr : entriesInRange s = true) (hk : KindsOK s) (hsmall : BlocksSmall s)
    (hlock : s.get? .gcLock = none) (hheur : HeuristicSoundStore H src s) : ArchiveGood H src s :=
  have g : Good H s := C09p.good_of_ci hci hh hr
  ⟨storeOK_of_ci hci hk hsmall, fun _ _ _ hg => g.archWF.sorted_of_get? hg, hlock,
    fun _ hb => bandGood_of_good g hb, ci_noDangling hci, hheur⟩

/-! ### `KindsOK` is an invariant of the writers -/

theorem kindOk_empty_of_file {k : Key} {v : FileVal} (h : kindOk k v = true) (hv : v.isDir = false) :
    kindOk k .empty = true := by
  cases k <;> simp_all [kindOk, isDirKey, FileVal.isDir]

/-- What a `FineOp` writes or creates is of the right kind for its key. -/
theorem FineOp.write_kind {k : Key} {v : FileVal} {m : WriteMode} (h : FineOp (.write k v m)) :
    kindOk k v = true ∧ kindOk k .empty = true := by
  rcases h.2 with ⟨b, ver, fl, rfl, rfl⟩ | ⟨b, n, es, rfl, rfl⟩ | ⟨b, c, rfl, rfl⟩ | ⟨h', c, rfl, rfl⟩ | ⟨rfl, rfl⟩ <;>
    simp [kindOk, isDirKey, FileVal.isDir]

theorem FineOp.createDir_kind {k : Key} (h : FineOp (.createDir k)) : kindOk k .dir = true := by
  rcases h with ⟨b, rfl⟩ | ⟨b, rfl⟩ | ⟨b, d, rfl⟩ | ⟨p, rfl⟩ <;> simp [kindOk, isDirKey, FileVal.isDir]

theorem applyOp_kindsOK (e : Bool) {s : Store} {o : Op} (ho : FineOp o) (hn : NoDupKeys s) (h : KindsOK s) :
    KindsOK (applyOp e s o).1 := by
  cases o with
  | read k => rw [applyOp_readOnly_store (by simp [ReadOnly])]; exact h
  | listDir k => rw [applyOp_readOnly_store (by simp [ReadOnly])]; exact h
  | metadata k => rw [applyOp_readOnly_store (by simp [ReadOnly])]; exact h
  | write k v m =>
    rcases applyOp_write_store e s k v m with ⟨_, hs⟩ | ⟨_, hs⟩
    · rw [hs]; exact kindsOK_put h ho.write_kind.1
    · rw [hs]; exact h
  | createDir k =>
    rcases applyOp_createDir_store e s k with hs | ⟨_, hs⟩
    · rw [hs]; exact h
    · rw [hs]; exact kindsOK_put h ho.createDir_kind
  | removeFile k =>
    simp only [applyOp]
    split
    · exact h
    · exact h
    · exact kindsOK_filter h _ hn
  | removeDirAll k =>
    simp only [applyOp]
    split
    · exact h
    · exact kindsOK_filter h _ hn

/-- One `FineOp` step keeps `KindsOK` (and distinct keys), in every world. -/
theorem exec_kindsOK (w : World) {o : Op} (ho : FineOp o) (hn : NoDupKeys w.store) (h : KindsOK w.store) :
    KindsOK (w.exec o).1.store := by
  rcases (World.exec_cases w o).2 with ⟨hs, _, _⟩ | ⟨k, v, m, rfl, _, hs, _, _⟩ | ⟨e, hs, _, _⟩ | ⟨hs, _, _⟩
  · rw [hs]; exact h
  · rw [hs]; exact kindsOK_put h ho.write_kind.2
  · rw [hs]; exact h
  · rw [hs]; exact applyOp_kindsOK _ ho hn h

theorem run_kindsOK {α : Type} {p : Prog α} (hp : Prog.AllOps FineOp p) (w : World) (hn : NoDupKeys w.store)
    (h : KindsOK w.store) : KindsOK (p.run w).2.store :=
  (Prog.run_world_inv (P := FineOp) (I := fun w' => NoDupKeys w'.store ∧ KindsOK w'.store)
    (fun _ _ h => h)
    (fun w' o ho ⟨hn', h'⟩ =>
      ⟨World.exec_noDupKeys w' o hn', exec_kindsOK w' ho hn' h'⟩)
    hp w ⟨hn, h⟩).2

/-- **`backup` keeps `KindsOK` in every world.** -/
theorem backup_kindsOK (H : Str → Str) (o : BackupOpts) (src : List SrcEntry) (w : World)
    (hn : NoDupKeys w.store) (h : KindsOK w.store) : KindsOK ((backup H o src).run w).2.store :=
  run_kindsOK (backup_fine H o src) w hn h

/-- **`delete_bands` keeps `KindsOK` in every world.** -/
theorem delete_kindsOK (strict : Bool) (D : List Nat) (o : DeleteOpts) (w : World)
    (hn : NoDupKeys w.store) (h : KindsOK w.store) : KindsOK ((deleteBands strict D o).run w).2.store :=
  run_kindsOK (AllOps.fine2_fine (deleteBands_fine2 strict D o)) w hn h

end Conserve.Rng
