import ConserveModel.Proofs.DeleteSpec
/-
Refusals of `deleteBands` (incomplete newest band, lock present), a band of `D` that is missing,
and the order in which unreferenced blocks are removed.  Helper lemmas for Props/C05.lean.
-/
set_option linter.unusedSimpArgs false
namespace Conserve
open Prog

/-! ### Refusals -/

theorem filterMap_filter_irrelevant {α β : Type} (f : α → Option β) (p : α → Bool) (l : List α)
    (h : ∀ a, p a = false → f a = none) : (l.filter p).filterMap f = l.filterMap f := by
  induction l with
  | nil => rfl
  | cons a l ih =>
    cases hp : p a with
    | true => simp only [List.filter_cons, hp, if_true, List.filterMap_cons, ih]
    | false => simp [List.filter_cons, hp, ih, h a hp]

theorem bandIdsOf_erase_lock (s : Store) : bandIdsOf (s.erase .gcLock) = bandIdsOf s := by
  simp only [bandIdsOf, Store.erase]
  rw [filterMap_filter_irrelevant]
  rintro ⟨k, v⟩ hk
  have : k = .gcLock := by simpa using hk
  subst this
  rfl

theorem isComplete_erase_lock (s : Store) (b : Nat) : isComplete (s.erase .gcLock) b = isComplete s b := by
  simp only [isComplete, Store.get?_erase_ne s (show Key.bandTail b ≠ .gcLock by simp)]

theorem newestComplete_erase_lock (s : Store) : newestComplete (s.erase .gcLock) ↔ newestComplete s := by
  simp only [newestComplete, bandIdsOf_erase_lock, isComplete_erase_lock]

/-- `gcLockNew` refuses, and leaves the store alone, when the newest band has no tail or a
`GC_LOCK` entry exists (in whatever form). -/
theorem lockOutcome_refuses {s : Store} (h : ¬ newestComplete s ∨ (s.get? .gcLock).isSome = true) :
    ∃ e, lockOutcome s = (.err e, s) := by
  have tail : (s.get? .gcLock).isSome = true → ∀ last, ∃ e, lockTailOutcome s last = (.err e, s) := by
    intro hl last
    obtain ⟨v, hv⟩ := Option.isSome_iff_exists.1 hl
    simp only [lockTailOutcome, fileAt, hv]
    cases hd : v.isDir with
    | false => exact ⟨.gcLockHeld, by simp⟩
    | true => exact ⟨.transport .other, by simp⟩
  simp only [lockOutcome]
  cases hm : maxNat? (bandIdsOf s) with
  | none =>
    rcases h with h | h
    · exact absurd (fun b hb => by rw [hm] at hb; cases hb) h
    · exact tail h none
  | some b =>
    cases hc : isComplete s b with
    | false => exact ⟨.deleteWithIncompleteBackup b, by simp [hc]⟩
    | true =>
      rcases h with h | h
      · exact absurd (fun b' hb' => by rw [hm] at hb'; cases hb'; exact hc) h
      · simpa [hc] using tail h (some b)

theorem lockOutcome_incomplete {s : Store} {b : Nat} (hm : maxNat? (bandIdsOf s) = some b)
    (hc : isComplete s b = false) : lockOutcome s = (.err (.deleteWithIncompleteBackup b), s) := by
  simp [lockOutcome, hm, hc]

theorem lockOutcome_held {s : Store} (hnew : newestComplete s) (hl : fileAt s .gcLock = true) :
    lockOutcome s = (.err .gcLockHeld, s) := by
  have ht : ∀ last, lockTailOutcome s last = (.err .gcLockHeld, s) := by
    intro last; simp [lockTailOutcome, hl]
  simp only [lockOutcome]
  cases hm : maxNat? (bandIdsOf s) with
  | none => exact ht none
  | some b => simp [hnew b hm, ht]

/-- The store after a refusal: unchanged, except that `--break-lock` has already removed a stale
lock file. -/
def refusedStore (o : DeleteOpts) (s : Store) : Store :=
  if o.breakLock && fileAt s .gcLock then s.erase .gcLock else s

theorem acquireOutcome_refuses {s : Store} (o : DeleteOpts)
    (h : ¬ newestComplete s ∨ ((s.get? .gcLock).isSome = true ∧ o.breakLock = false)) :
    ∃ e, acquireOutcome o s = (.err e, refusedStore o s) := by
  simp only [acquireOutcome, breakOutcome, refusedStore]
  cases hb : o.breakLock with
  | false =>
    simp only [Bool.false_eq_true, if_false, Bool.false_and]
    exact lockOutcome_refuses (h.imp id (·.1))
  | true =>
    have hn : ¬ newestComplete s := by
      rcases h with h | ⟨_, h⟩
      · exact h
      · rw [hb] at h; cases h
    simp only [if_true, Bool.true_and]
    cases hf : fileAt s .gcLock with
    | false => simpa using lockOutcome_refuses (Or.inl hn)
    | true =>
      simpa using lockOutcome_refuses (s := s.erase .gcLock)
        (Or.inl (fun hc => hn ((newestComplete_erase_lock s).1 hc)))

/-- `--break-lock` with a stale lock FILE: the lock is taken on the store without that file. -/
theorem lockTaken_break {s : Store} (o : DeleteOpts) (hb : o.breakLock = true)
    (hl : fileAt s .gcLock = true) (hnew : newestComplete s) : LockTaken o s (s.erase .gcLock) := by
  simp only [LockTaken, acquireOutcome, hb, if_true, breakOutcome, hl]
  exact lockOutcome_ok (Store.get?_erase_self s _) ((newestComplete_erase_lock s).2 hnew)

/-! ### A band of `D` that is not there -/

theorem delBands_runs_missing (pre : List Nat) (b : Nat) (post : List Nat) :
    ∀ (s : Store) (n : Nat), pre.Nodup → (∀ b' ∈ pre, (s.get? (.bandDir b')).isSome = true) →
      (s.get? (.bandDir b) = none ∨ b ∈ pre) →
    ∀ w : World, w.Quiet → w.store = s →
      Runs (deleteBody.delBands (pre ++ b :: post) n) w (.err (.bandNotFound b)) (eraseBands s pre) [] := by
  induction pre with
  | nil =>
    intro s n _ _ hb w hq hs
    have hb : s.get? (.bandDir b) = none := by
      rcases hb with hb | hb
      · exact hb
      · cases hb
    simp only [List.nil_append, deleteBody.delBands, bandDelete, perform, bind_def, op_bind, ret_bind]
    refine Runs.op_mut hq rfl (by intro _ _ _ h; cases h) fun w1 hn => ?_
    have hap : applyOp w.enforceCreateNew w.store (.removeDirAll (.bandDir b)) = (s, .err .notFound) := by
      simp [applyOp, hs, hb]
    rw [hap] at hn ⊢
    simpa [eraseBands] using Runs.fail' (α := Nat) hn (.bandNotFound b)
  | cons b' pre ih =>
    intro s n hnd hex hb w hq hs
    simp only [List.cons_append, deleteBody.delBands, bandDelete, perform, bind_def, op_bind, ret_bind]
    refine Runs.op_mut hq rfl (by intro _ _ _ h; cases h) fun w1 hn => ?_
    obtain ⟨v, hv⟩ := Option.isSome_iff_exists.1 (hex b' (List.mem_cons_self ..))
    have hap : applyOp w.enforceCreateNew w.store (.removeDirAll (.bandDir b')) =
        (s.eraseTree (.bandDir b'), .unit) := by simp [applyOp, hs, hv]
    rw [hap] at hn ⊢
    simp only
    rw [List.nodup_cons] at hnd
    refine ih (s.eraseTree (.bandDir b')) (n + 1) hnd.2 ?_ ?_ w1 hn.quiet hn.store
    · intro b'' hb''
      rw [Store.get?_eraseTree, isUnder_bandDir_bandDir]
      have : b'' ≠ b' := fun h => hnd.1 (h ▸ hb'')
      simpa [this] using hex b'' (List.mem_cons_of_mem _ hb'')
    · by_cases hbb : b = b'
      · left
        rw [Store.get?_eraseTree, isUnder_bandDir_bandDir]
        simp [hbb]
      · rcases hb with hb | hb
        · left
          rw [Store.get?_eraseTree, isUnder_bandDir_bandDir]
          simp [hbb, hb]
        · right
          rcases List.mem_cons.1 hb with e | e
          · exact absurd e hbb
          · exact e

/-- The archive after a `delete_bands` that stopped at a missing band: the bands before it are gone,
no block has been removed, the lock is released. -/
def deletedBandsOnly (s : Store) (pre : List Nat) : Store := s.filter fun kv => !underAny pre kv.1

theorem deleteBands_missing_runs {s : Store} {pre post : List Nat} {b : Nat}
    (ok : DelArchOK s (pre ++ b :: post)) (hfree : s.get? .gcLock = none)
    (hnew : newestComplete s) (o : DeleteOpts) (hdry : o.dryRun = false) (hnd : pre.Nodup)
    (hex : ∀ b' ∈ pre, (s.get? (.bandDir b')).isSome = true)
    (hb : s.get? (.bandDir b) = none ∨ b ∈ pre) :
    ∀ w : World, w.Quiet → w.store = s →
      Runs (deleteBands true (pre ++ b :: post) o) w (.err (.bandNotFound b)) (deletedBandsOnly s pre) [] := by
  intro w hq hs
  rw [deleteBands_eq]
  have ha := acquire_runs ok.root o w hq hs
  rw [acquireOutcome_ok hfree hnew] at ha
  refine Runs.bind_ok0 ha fun w1 hn => ?_
  have bok := ok.bodyOK hfree
  -- the body fails in `delBands`
  have hbody : Runs (deleteBody true (pre ++ b :: post) o (maxNat? (bandIdsOf s))) w1
      (.err (.bandNotFound b)) (eraseBands (s ++ [(.gcLock, .lock)]) pre) [] := by
    simp only [deleteBody, bind_def, pure_def, hdry, Bool.false_eq_true, if_false, ret_bind]
    refine deleteBody_prefix_runs bok
      (fun u => (gcLockCheck (maxNat? (bandIdsOf s))).bind fun _ =>
        (deleteBody.delBands (pre ++ b :: post) 0).bind fun nb =>
          (deleteBody.delBlocks u 0).bind fun errs =>
            gcLockRelease.bind fun _ =>
              ret ({ unreferencedBlockCount := u.length, deletedBandCount := nb,
                     deletedBlockCount := u.length - errs, deletionErrors := errs } : DeleteStats))
      (fun w2 hq2 hs2 => ?_) w1 hn.quiet hn.store
    have hc := gcLockCheck_runs bok.root w2 hq2 hs2
    rw [bandIdsOf_lock] at hc
    refine Runs.bind_ok0 hc fun w3 hn3 => ?_
    refine Runs.bind_err (delBands_runs_missing pre b post _ 0 hnd ?_ ?_ w3 hn3.quiet hn3.store)
    · intro b' hb'; rw [get?_lock _ _ (by simp)]; exact hex b' hb'
    · rcases hb with hb | hb
      · left; rw [get?_lock _ _ (by simp)]; exact hb
      · right; exact hb
  have hl : fileAt (eraseBands (s ++ [(.gcLock, .lock)]) pre) .gcLock = true := by
    simp only [fileAt, get?_eraseBands, underAny_gcLock, Bool.false_eq_true, if_false]
    exact bok.lock
  refine (withLock_err hbody hl).congr rfl ?_ rfl
  simp only [eraseBands_eq_filter, Store.erase, List.filter_filter, List.filter_append, deletedBandsOnly]
  have h1 : List.filter (fun a => a.1 != Key.gcLock && !underAny pre a.1) [(Key.gcLock, FileVal.lock)] = [] := by
    simp
  rw [h1, List.append_nil]
  apply List.filter_congr
  intro kv hm
  have : (kv.1 != Key.gcLock) = true := by simpa using no_lock_entry hfree kv hm
  simp [this]

/-! ### The order in which the unreferenced blocks are removed -/

/-- Removing the same set of blocks in another order gives the very same store. -/
theorem eraseBlocks_perm (s : Store) {l₁ l₂ : List Str} (h : l₁.Perm l₂) :
    eraseBlocks s l₁ = eraseBlocks s l₂ := by
  rw [eraseBlocks_eq_filter, eraseBlocks_eq_filter]
  apply List.filter_congr
  intro kv _
  cases hk : kv.1 with
  | block x =>
    simp only [blockIn]
    congr 1
    rw [Bool.eq_iff_iff]
    simp [h.mem_iff]
  | _ => simp [blockIn]

end Conserve
