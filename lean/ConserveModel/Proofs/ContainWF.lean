import ConserveModel.Props.C10
import ConserveModel.Proofs.ValidateGood
/-
C10 (full containment): what follows from `C10.Good` (the documented format, a map, a tree, no gc
lock — NOT "heads readable", NOT "values in range") and how the listing rule reacts to single-file
damage that is not the loss of one of the version's own hunks.  No property statements here.
-/
set_option linter.unusedSimpArgs false
namespace Conserve.Contain
open Conserve Conserve.NP

variable {H : Str → Str}

/-! ### `C10.Good` piece by piece -/

theorem good_dirsOk {s : Store} (g : C10.Good H s) : DirsOk s := by
  have := g.2.2.1
  simp only [treeShaped, List.all_eq_true] at this
  exact this

theorem good_keys {s : Store} (g : C10.Good H s) : (s.map (·.1)).Nodup := by
  simpa [keysNodup] using g.2.1

theorem good_bandOK {s : Store} (g : C10.Good H s) {b : Nat} (hb : b ∈ bandIdsOf s) : BandOK H s b := by
  have := g.1
  simp only [Conforms, Bool.and_eq_true, List.all_eq_true] at this
  exact bandOK_of_conforms (this.2 b hb)

theorem good_blockRoot {s : Store} (g : C10.Good H s) : s.get? .blockRoot = some .dir := by
  have := g.1
  simp only [Conforms, Bool.and_eq_true, beq_iff_eq] at this
  exact this.1.1.2

theorem good_root {s : Store} (g : C10.Good H s) : s.get? .root = some .dir := by
  have := g.1
  simp only [Conforms, Bool.and_eq_true, beq_iff_eq] at this
  exact this.1.1.1.2

/-- A version whose tail file exists has a directory. -/
theorem bandIds_of_tail {s : Store} (hd : DirsOk s) {b : Nat} {v : FileVal}
    (h : s.get? (.bandTail b) = some v) : b ∈ bandIdsOf s :=
  mem_bandIdsOf'.mpr (Store.mem_of_get?' (parent_dir hd h rfl))

/-! ### Usable hunks versus decodable hunks -/

/-- A usable hunk is the decodable hunk, or nothing (an entry fails `IndexEntry::check`), or the
zero-length leftover. -/
theorem usableHunk_cases (s : Store) (b n : Nat) :
    usableHunk s b n = selHunk (s.get? (.hunk b n)) ∨ usableHunk s b n = none ∨ usableHunk s b n = some [] := by
  unfold usableHunk selHunk
  cases hg : s.get? (.hunk b n) with
  | none => exact .inl rfl
  | some v =>
    cases v with
    | hunk es => by_cases hu : es.all entryUsable = true <;> simp [hu]
    | empty => exact .inr (.inr rfl)
    | _ => exact .inl rfl

theorem flatten_filterMap_sublist {α β : Type} {f g : α → Option (List β)} {l : List α}
    (h : ∀ x ∈ l, f x = g x ∨ f x = none ∨ f x = some []) :
    ((l.filterMap f).flatten).Sublist ((l.filterMap g).flatten) := by
  induction l with
  | nil => exact List.Sublist.refl _
  | cons a l ih =>
    have ih := ih (fun x hx => h x (List.mem_cons_of_mem _ hx))
    rcases h a (List.mem_cons_self ..) with he | he | he
    · simp only [List.filterMap_cons, he]
      cases g a with
      | none => exact ih
      | some es => simp only [List.flatten_cons]; exact List.Sublist.append (List.Sublist.refl _) ih
    · simp only [List.filterMap_cons, he]
      cases g a with
      | none => exact ih
      | some es => simp only [List.flatten_cons]; exact ih.trans (List.sublist_append_right _ _)
    · simp only [List.filterMap_cons, he, List.flatten_cons, List.nil_append]
      cases g a with
      | none => exact ih
      | some es => simp only [List.flatten_cons]; exact ih.trans (List.sublist_append_right _ _)

/-- The usable entries of a version are a sub-list of its decodable entries. -/
theorem ownEntries_sublist_decoded (s : Store) (b : Nat) :
    (ownEntries s b).Sublist (((hunkNumsOf s b).filterMap fun n => selHunk (s.get? (.hunk b n))).flatten) :=
  flatten_filterMap_sublist fun n _ => usableHunk_cases s b n

/-- **`Conforms`, a map, a tree → `ArchWF`.**  The documented format (strictly increasing paths over
the DECODABLE hunks of each version) gives C08's well-formedness (strictly increasing over the USABLE
hunks).  Values out of range only remove hunks from the usable ones. -/
theorem archWF_of_conforms {s : Store} (hc : Conforms H s = true) (nd : keysNodup s = true)
    (tr : treeShaped s = true) : ArchWF s := by
  have hdirs : DirsOk s := by
    simp only [treeShaped, List.all_eq_true] at tr
    exact tr
  have hkeys : (s.map (·.1)).Nodup := by simpa [keysNodup] using nd
  refine ⟨nd, tr, ?_⟩
  simp only [bandsSorted, List.all_eq_true]
  intro kv hm
  split
  · rename_i b n hk
    obtain ⟨k, v⟩ := kv
    simp only at hk
    subst hk
    have hb : b ∈ bandIdsOf s := bandDir_of_hunk hdirs (mem_get? hkeys hm)
    have hall := hc
    simp only [Conforms, Bool.and_eq_true, List.all_eq_true] at hall
    have hs := (bandOK_of_conforms (hall.2 b hb)).sorted
    rw [Conserve.strictlySorted_iff] at hs ⊢
    exact hs.sublist ((ownEntries_sublist_decoded s b).map _)
  · rfl

/-- **`Good H s → ArchWF s`.** -/
theorem good_archWF {s : Store} (g : C10.Good H s) : ArchWF s := archWF_of_conforms g.1 g.2.1 g.2.2.1

/-! ### `check_index_hunks` accepts a conforming version -/

/-- `Good.indexCheck_none` of Proofs/ValidateGood.lean from `BandOK` alone. -/
theorem bandOK_indexCheck_none {s : Store} {b : Nat} (ok : BandOK H s b) : indexCheckError s b = none := by
  have hr : (hunkNumsOf s b != List.range (hunkNumsOf s b).length) = false := by
    simp only [bne_eq_false_iff_eq]; exact ok.range
  have hne : ∀ n, (∃ es, s.get? (.hunk b n) = some (.hunk es)) → hunkNonEmpty s b n = true := by
    rintro n ⟨es, he⟩; simp [hunkNonEmpty, he]
  unfold indexCheckError
  simp only [hr, Bool.false_eq_true, if_false]
  rcases ok.tail with ht | ⟨ht, hall⟩
  · have hti : tailInfo s b = (false, none) := by simp [tailInfo, ht]
    rw [hti]
    simp only [countMismatch, Bool.false_eq_true, if_false]
    have : badEmptyHunk false ((hunkNumsOf s b).map fun n => (n, hunkNonEmpty s b n)) = false := by
      generalize hm : (hunkNumsOf s b).length = m
      have hrange := ok.range
      rw [hm] at hrange
      cases m with
      | zero => rw [hrange]; rfl
      | succ m =>
        rw [hrange, List.range_succ, List.map_append, List.map_singleton]
        apply badEmptyHunk_open_last
        intro p hp
        obtain ⟨n, hn, rfl⟩ := List.mem_map.mp hp
        have hn' := List.mem_range.mp hn
        have hmem : n ∈ hunkNumsOf s b := by rw [hrange]; exact List.mem_range.mpr (by omega)
        rcases ok.vals n hmem with hd | ⟨_, _, hl⟩
        · exact hne n hd
        · omega
    simp [this]
  · have hall' : ∀ p ∈ (hunkNumsOf s b).map fun n => (n, hunkNonEmpty s b n), p.2 = true := by
      intro p hp
      obtain ⟨n, hn, rfl⟩ := List.mem_map.mp hp
      exact hne n (hall n hn)
    have hb' := badEmptyHunk_all_nonEmpty (tailInfo s b).1 _ hall'
    rcases ht with ht | ht
    · have hti : (tailInfo s b).2 = some (hunkNumsOf s b).length := by simp [tailInfo, ht]
      simp [hti, countMismatch, hb']
    · have hti : (tailInfo s b).2 = none := by simp [tailInfo, ht]
      simp [hti, countMismatch, hb']

/-! ### File entries of a conforming version read back -/

theorem readBack_of_all_isSome {s : Store} {as : List Addr}
    (h : ∀ a ∈ as, (readAddrPure H s a).isSome = true) : ∃ c, readBack H s as = some c := by
  induction as with
  | nil => exact ⟨[], rfl⟩
  | cons a as ih =>
    obtain ⟨c, hc⟩ := ih (fun x hx => h x (List.mem_cons_of_mem _ hx))
    obtain ⟨x, hx⟩ := Option.isSome_iff_exists.mp (h a (List.mem_cons_self ..))
    exact ⟨x ++ c, by simp [readBack, hx, hc]⟩

/-- Every FILE entry of a decodable hunk of a conforming version reads back. -/
theorem bandOK_readBack {s : Store} {b n : Nat} (ok : BandOK H s b) {es : List IndexEntry}
    (hh : hunkAt s b n = some es) {e : IndexEntry} (he : e ∈ es) (hk : e.kind = .file) :
    ∃ c, readBack H s e.addrs = some c := by
  have hg : s.get? (.hunk b n) = some (.hunk es) := by
    unfold hunkAt at hh
    cases hv : s.get? (.hunk b n) with
    | none => simp [hv] at hh
    | some v => cases v <;> simp [hv] at hh; rw [hh]
  have hn : n ∈ hunkNumsOf s b := by
    rw [hunkNumsOf_eq, mem_sortNat, mem_hunkSelAll]
    exact ⟨_, get?_mem hg, rfl⟩
  have hc := ok.entries n hn es hg e he
  unfold entryConforms at hc
  simp only [hk, Bool.and_eq_true, List.all_eq_true] at hc
  exact readBack_of_all_isSome hc.2.2

/-! ### An entry sits in one hunk only -/

theorem flatten_pairwise_unique {ι α : Type} {R : α → α → Prop} (hR : ∀ a, ¬ R a a) {f : ι → Option (List α)} :
    ∀ {l : List ι}, ((l.filterMap f).flatten).Pairwise R → ∀ {i j : ι}, i ∈ l → j ∈ l →
      ∀ {a b : List α}, f i = some a → f j = some b → ∀ {e : α}, e ∈ a → e ∈ b →
      (l.Pairwise (· ≠ ·)) → i = j := by
  intro l
  induction l with
  | nil => intro _ i j hi; cases hi
  | cons x l ih =>
    intro hp i j hi hj a b hfi hfj e hea heb hnd
    have inRest : ∀ {t : ι} {c : List α}, t ∈ l → f t = some c → e ∈ c → e ∈ (l.filterMap f).flatten :=
      fun ht hft hec => List.mem_flatten.mpr ⟨_, List.mem_filterMap.mpr ⟨_, ht, hft⟩, hec⟩
    rcases List.mem_cons.mp hi with rfl | hi'
    · rcases List.mem_cons.mp hj with rfl | hj'
      · rfl
      · exfalso
        simp only [List.filterMap_cons, hfi, List.flatten_cons, List.pairwise_append] at hp
        exact hR e (hp.2.2 e hea e (inRest hj' hfj heb))
    · rcases List.mem_cons.mp hj with rfl | hj'
      · exfalso
        simp only [List.filterMap_cons, hfj, List.flatten_cons, List.pairwise_append] at hp
        exact hR e (hp.2.2 e heb e (inRest hi' hfi hea))
      · have hp' : ((l.filterMap f).flatten).Pairwise R := by
          cases hx : f x with
          | none => simpa [List.filterMap_cons, hx] using hp
          | some c =>
            simp only [List.filterMap_cons, hx, List.flatten_cons, List.pairwise_append] at hp
            exact hp.2.1
        exact ih hp' hi' hj' hfi hfj hea heb (List.pairwise_cons.mp hnd).2

theorem cmp_irrefl (a : Str) : ¬ apathCmp a a = .lt := by
  intro h
  have := C11.cmp_swap a a
  rw [h] at this
  cases this

/-- In a conforming version an entry occurs in ONE decodable hunk. -/
theorem bandOK_hunk_unique {s : Store} (nd : (s.map (·.1)).Nodup) {b : Nat} (ok : BandOK H s b)
    {n1 n2 : Nat} {es1 es2 : List IndexEntry}
    (h1 : hunkAt s b n1 = some es1) (h2 : hunkAt s b n2 = some es2) {e : IndexEntry}
    (he1 : e ∈ es1) (he2 : e ∈ es2) : n1 = n2 := by
  have conv : ∀ {n es}, hunkAt s b n = some es → s.get? (.hunk b n) = some (.hunk es) := by
    intro n es hh
    unfold hunkAt at hh
    cases hv : s.get? (.hunk b n) with
    | none => simp [hv] at hh
    | some v => cases v <;> simp [hv] at hh; rw [hh]
  have mem : ∀ {n es}, hunkAt s b n = some es → n ∈ hunkNumsOf s b := by
    intro n es hh
    exact (NP.mem_hunkNumsOf nd).mpr ⟨_, conv hh, rfl⟩
  have hs := ok.sorted
  rw [Conserve.strictlySorted_iff, List.pairwise_map] at hs
  have hnd : (hunkNumsOf s b).Pairwise (· ≠ ·) :=
    (hunkNumsOf_strict nd b).imp (fun h => Nat.ne_of_lt h)
  exact flatten_pairwise_unique (R := fun x y : IndexEntry => apathCmp x.apath y.apath = .lt)
    (fun a => cmp_irrefl a.apath) hs (mem h1) (mem h2)
    (by simp [conv h1, selHunk]) (by simp [conv h2, selHunk]) he1 he2 hnd

/-! ### Damage that is not to a hunk of the version -/

/-- Damage to anything but a hunk file of version `b` leaves `b`'s own entries alone. -/
theorem ownEntries_damage {s s' : Store} (nd : (s.map (·.1)).Nodup) (nd' : (s'.map (·.1)).Nodup)
    {k : Key} (hd : Damage s s' k) {b : Nat} (hk : ∀ n, k ≠ .hunk b n) : ownEntries s' b = ownEntries s b := by
  have hh : ∀ x, s'.get? (.hunk b x) = s.get? (.hunk b x) := fun x => hd _ (fun e => hk x e.symm)
  unfold ownEntries
  rw [hunkNumsOf_congr nd nd' hh]
  congr 2
  funext x
  unfold usableHunk
  rw [hh x]

/-- **`ArchWF` survives damage to any file that is not an index hunk** (a block, a head, a tail, the
lock, a foreign file): `bandsSorted` reads hunk files only. -/
theorem archWF_of_nonhunk_damage {s s' : Store} (wf : ArchWF s) (nd' : keysNodup s' = true)
    (tr' : treeShaped s' = true) {k : Key} (hd : Damage s s' k) (hk : ∀ b n, k ≠ .hunk b n) : ArchWF s' := by
  have nd'' : (s'.map (·.1)).Nodup := by simpa [keysNodup] using nd'
  refine ⟨nd', tr', ?_⟩
  simp only [bandsSorted, List.all_eq_true]
  intro kv _
  split
  · rename_i b n _
    rw [Conserve.strictlySorted_iff, List.pairwise_map, ownEntries_damage wf.keys nd'' hd (hk b)]
    exact wf.sortedOwn b
  · rfl

/-- The listing of a version that HAD a tail, after damage to anything but one of its hunk files and
with the version still readable: the old listing is a PREFIX of the new one.  (Equal unless the tail
is gone; then entries of earlier versions that sort after the last own path follow.) -/
theorem listSpec_prefix_of_damage {s s' : Store} (nd : (s.map (·.1)).Nodup) (nd' : (s'.map (·.1)).Nodup)
    {k : Key} (hd : Damage s s' k) {b m : Nat} (hk : ∀ n, k ≠ .hunk b n)
    (htail : s.get? (.bandTail b) = some (.tail (some m))) (hr' : bandReadable s' b = true) :
    listSpec s b <+: listSpec s' b := by
  have hc : isComplete s b = true := by simp [isComplete, htail, FileVal.isDir]
  simp only [listSpec, hc, if_true, List.append_nil, bandEntries, hr']
  rw [ownEntries_damage nd nd' hd hk]
  by_cases hr : bandReadable s b = true
  · simp only [hr, if_true]; exact List.prefix_append _ _
  · simp only [hr]; exact List.nil_prefix

/-- … and equal when the tail is untouched. -/
theorem listSpec_eq_of_damage {s s' : Store} (nd : (s.map (·.1)).Nodup) (nd' : (s'.map (·.1)).Nodup)
    {k : Key} (hd : Damage s s' k) {b m : Nat} (hk : ∀ n, k ≠ .hunk b n) (hkt : k ≠ .bandTail b)
    (htail : s.get? (.bandTail b) = some (.tail (some m))) (hr : bandReadable s b = true)
    (hr' : bandReadable s' b = true) : listSpec s' b = listSpec s b := by
  have hc : isComplete s b = true := by simp [isComplete, htail, FileVal.isDir]
  have hc' : isComplete s' b = true := by
    simp [isComplete, hd (.bandTail b) (fun e => hkt e.symm), htail, FileVal.isDir]
  simp only [listSpec, hc, hc', if_true, List.append_nil, bandEntries, hr, hr']
  exact ownEntries_damage nd nd' hd hk

/-- Content is the same unless the damaged path is a block. -/
theorem readBack_damage_nonblock {s s' : Store} {k : Key} (hd : Damage s s' k) (hk : ∀ h, k ≠ .block h)
    (as : List Addr) : readBack H s' as = readBack H s as :=
  readBack_congr H as fun a _ => hd _ (fun e => hk a.hash e.symm)

end Conserve.Contain
