import ConserveModel.Proofs.JsonStoreBytes
import ConserveModel.Proofs.ConformsWalk
/-
C13 k, part 4: the source walk (Tree.lean, C11) of a tree whose names, symlink targets and owner
names are UTF-8, whose modes are `u32`s and whose times have `i64` seconds, which holds less than
2^64 bytes in regular files and has fewer than 2^64 nodes, is `SrcJsonGood` — under every exclusion
predicate, in whatever order `read_dir` lists the directories.  No property statements here.
-/
namespace Conserve
open Conserve.Json

/-- What `lstat` reports fits the Rust types of `source::Entry`. -/
structure MetaJGood (m : FsMeta) : Prop where
  user : wfOptStr m.user = true
  group : wfOptStr m.group = true
  mode : m.unixMode < 4294967296
  mtimeLo : -9223372036854775808 * nanosPerSec ≤ m.mtimeNs
  mtimeHi : m.mtimeNs < 9223372036854775808 * nanosPerSec

/-- `MetaJGood` from a computation. -/
theorem MetaJGood.of_decide (m : FsMeta)
    (h : (wfOptStr m.user && wfOptStr m.group && decide (m.unixMode < 4294967296) &&
          decide (-9223372036854775808 * nanosPerSec ≤ m.mtimeNs) &&
          decide (m.mtimeNs < 9223372036854775808 * nanosPerSec)) = true) : MetaJGood m := by
  simp only [Bool.and_eq_true, decide_eq_true_eq] at h
  exact ⟨h.1.1.1.1, h.1.1.1.2, h.1.1.2, h.1.2, h.2⟩

mutual
/-- Every name, symlink target and owner name in the tree is UTF-8, every mode a `u32`, every time
within `i64` seconds. -/
def Node.JGood : Node → Prop
  | .file m _ _ => MetaJGood m
  | .symlink m t => MetaJGood m ∧ validUtf8 t = true
  | .dir m kids => MetaJGood m ∧ kids.JGood
def Forest.JGood : Forest → Prop
  | .nil => True
  | .cons name n rest => validUtf8 name = true ∧ n.JGood ∧ rest.JGood
end

mutual
/-- Bytes in regular files. -/
def Node.bytes : Node → Nat
  | .file _ _ content => content.length
  | .symlink _ _ => 0
  | .dir _ kids => kids.bytes
def Forest.bytes : Forest → Nat
  | .nil => 0
  | .cons _ n rest => n.bytes + rest.bytes
end

end Conserve

namespace Conserve.JStore
open Conserve Conserve.Json Conserve.Rng

/-- Valid UTF-8 concatenates. -/
theorem validUtf8_append (a b : Str) (ha : validUtf8 a = true) (hb : validUtf8 b = true) :
    validUtf8 (a ++ b) = true := by
  fun_induction validUtf8 a <;>
    first
    | (simp only [List.nil_append]; exact hb)
    | (simp_all [validUtf8]; done)
    | (simp only [List.cons_append]; rw [validUtf8.eq_def]; simp_all; done)
    | (simp only [List.cons_append]; rw [validUtf8.eq_def]; simp_all
       (repeat' split) <;> first | omega | simp_all | (exfalso; omega))

theorem validUtf8_apathAppend {ap name : Str} (ha : validUtf8 ap = true) (hn : validUtf8 name = true) :
    validUtf8 (apathAppend ap name) = true := by
  unfold apathAppend
  split
  · exact validUtf8_append _ _ ha hn
  · exact validUtf8_append _ _ (validUtf8_append _ _ ha (by decide)) hn

theorem _root_.Conserve.Forest.JGood.mem {f : Forest} (h : f.JGood) {p : Str × Node} (hp : p ∈ f.toList) :
    validUtf8 p.1 = true ∧ p.2.JGood := by
  induction f using Forest.induct with
  | nil => simp [Forest.toList] at hp
  | cons name n rest ih =>
    simp only [Forest.JGood] at h
    simp only [Forest.toList, List.mem_cons] at hp
    rcases hp with rfl | hp
    · exact ⟨h.1, h.2.1⟩
    · exact ih h.2.2 hp

theorem _root_.Conserve.Node.JGood.kids {n : Node} (h : n.JGood) : n.kids.JGood := by
  cases n with
  | dir m kids => exact h.2
  | file _ _ _ => trivial
  | symlink _ _ => trivial

theorem _root_.Conserve.Node.JGood.fsMeta {n : Node} (h : n.JGood) : MetaJGood n.fsMeta := by
  cases n with
  | dir m kids => exact h.1
  | file _ _ _ => exact h
  | symlink _ _ => exact h.1

theorem _root_.Conserve.Node.entry_jgood {n : Node} (h : n.JGood) {ap : Str} (ha : validUtf8 ap = true) :
    SrcEntryJsonGood (n.entry ap) := by
  have hm := h.fsMeta
  cases n with
  | dir m kids => exact ⟨ha, hm.user, hm.group, rfl, hm.mode, hm.mtimeLo, hm.mtimeHi⟩
  | file m _ _ => exact ⟨ha, hm.user, hm.group, rfl, hm.mode, hm.mtimeLo, hm.mtimeHi⟩
  | symlink m t => exact ⟨ha, hm.user, hm.group, h.2, hm.mode, hm.mtimeLo, hm.mtimeHi⟩

/-- Every entry of the walk below a good directory listing is good. -/
theorem walkBelow_jgood (excl : Str → Bool) (f : Forest) :
    f.JGood → ∀ ap, validUtf8 ap = true → ∀ e ∈ f.walkBelow excl ap, SrcEntryJsonGood e := by
  induction f using Forest.kids_induction with
  | h f ih =>
    intro hf ap ha e he
    rw [Forest.walkBelow_eq] at he
    rcases List.mem_append.mp he with he | he
    · obtain ⟨p, hp, rfl⟩ := List.mem_map.mp he
      have hp' := (mem_live.mp (mem_sortBy.mp hp)).1
      obtain ⟨hn, hg⟩ := hf.mem hp'
      exact Node.entry_jgood hg (validUtf8_apathAppend ha hn)
    · obtain ⟨p, hp, hep⟩ := List.mem_flatMap.mp he
      have hp' := (mem_live.mp (List.mem_filter.mp (mem_sortBy.mp hp)).1).1
      obtain ⟨hn, hg⟩ := hf.mem hp'
      exact ih p hp' hg.kids _ (validUtf8_apathAppend ha hn) e hep

/-! ### Bytes -/

theorem _root_.Conserve.Forest.bytes_eq_sum (f : Forest) : f.bytes = (f.toList.map (·.2.bytes)).sum := by
  induction f using Forest.induct with
  | nil => simp [Forest.bytes, Forest.toList]
  | cons name n rest ih => simp [Forest.bytes, Forest.toList, ih]

theorem srcBytes_append (a b : List SrcEntry) : srcBytes (a ++ b) = srcBytes a + srcBytes b := by
  simp [srcBytes]

theorem srcBytes_flatMap {α : Type} (L : List α) (g : α → List SrcEntry) :
    srcBytes (L.flatMap g) = (L.map fun x => srcBytes (g x)).sum := by
  induction L with
  | nil => rfl
  | cons x L ih => simp [List.flatMap_cons, srcBytes_append, ih]

theorem fileBytes_entry_le (n : Node) (ap : Str) : fileBytes (n.entry ap) ≤ n.bytes := by
  cases n <;> simp [Node.entry, fileBytes, Node.bytes]

theorem _root_.Conserve.Node.kids_bytes_le (n : Node) : n.kids.bytes ≤ n.bytes := by
  cases n <;> simp [Node.kids, Node.bytes, Forest.bytes]

private theorem sum_le (L : List (Str × Node)) (q r : Str × Node → Bool) (own g tot : Str × Node → Nat)
    (hg : ∀ p ∈ L, (r p = true → own p + g p ≤ tot p) ∧ own p ≤ tot p) :
    ((L.filter q).map own).sum + (((L.filter q).filter r).map g).sum ≤ (L.map tot).sum := by
  induction L with
  | nil => simp
  | cons p L ih =>
    have h1 := hg p List.mem_cons_self
    have h2 := ih (fun x hx => hg x (List.mem_cons_of_mem _ hx))
    rw [List.filter_cons]
    by_cases hq : q p = true
    · rw [if_pos hq, List.filter_cons]
      by_cases hr : r p = true
      · have := h1.1 hr
        rw [if_pos hr]; simp only [List.map_cons, List.sum_cons]; omega
      · have := h1.2
        rw [if_neg hr]; simp only [List.map_cons, List.sum_cons]; omega
    · rw [if_neg hq]; simp only [List.map_cons, List.sum_cons]; omega

/-- The walk reads at most the bytes the tree holds. -/
theorem walkBelow_bytes_le (excl : Str → Bool) (f : Forest) :
    ∀ ap, srcBytes (f.walkBelow excl ap) ≤ f.bytes := by
  induction f using Forest.kids_induction with
  | h f ih =>
    intro ap
    rw [Forest.walkBelow_eq, srcBytes_append, srcBytes_flatMap, Forest.bytes_eq_sum]
    have e1 : srcBytes ((sortBy nameLe (live excl ap f)).map fun p => p.2.entry (apathAppend ap p.1)) =
        ((live excl ap f).map fun p => fileBytes (p.2.entry (apathAppend ap p.1))).sum := by
      unfold srcBytes
      rw [List.map_map]
      exact ((sortBy_perm nameLe _).map _).sum_nat
    rw [e1, ((sortBy_perm (childApLe ap) _).map _).sum_nat]
    unfold live
    apply sum_le
    intro p hp
    have h1 := ih p hp (apathAppend ap p.1)
    have h2 := p.2.kids_bytes_le
    have h3 := fileBytes_entry_le p.2 (apathAppend ap p.1)
    refine ⟨?_, h3⟩
    intro hd
    have : fileBytes (p.2.entry (apathAppend ap p.1)) = 0 := by
      cases hn : p.2 with
      | dir m kids => simp [Node.entry, fileBytes]
      | file _ _ _ => rw [hn] at hd; cases hd
      | symlink _ _ => rw [hn] at hd; cases hd
    omega

/-- **The source walk of a good tree is `SrcJsonGood`**, under any exclusion predicate. -/
theorem walk_srcJsonGood (T : Node) (excl : Str → Bool) (hg : T.JGood) (hb : T.bytes < u64)
    (hc : T.size < u64) : SrcJsonGood (C11.walk T excl) := by
  have hwalk : C11.walk T excl = T.entry [slash] :: T.kids.walkBelow excl [slash] := by
    unfold C11.walk
    rw [C11.walk_deque_eq_rec, walkRec_eq]
  rw [hwalk]
  refine ⟨?_, ?_, ?_⟩
  · intro e he
    rcases List.mem_cons.mp he with rfl | he
    · exact Node.entry_jgood hg (by decide)
    · exact walkBelow_jgood excl _ hg.kids _ (by decide) e he
  · have h1 := walkBelow_bytes_le excl T.kids [slash]
    have h2 := fileBytes_entry_le T [slash]
    have h3 : fileBytes (T.entry [slash]) + T.kids.bytes ≤ T.bytes := by
      cases T <;> simp [Node.entry, fileBytes, Node.kids, Node.bytes, Forest.bytes]
    simp only [srcBytes, List.map_cons, List.sum_cons] at h1 ⊢
    omega
  · have h1 := Forest.walkBelow_length_le excl T.kids [slash]
    have h2 := T.kids_size_lt
    simp only [List.length_cons]
    omega

end Conserve.JStore
