import ConserveModel.Glob
/-
Helper lemmas for C15, matcher side: `matchT` is concatenation of the single-token languages.
-/
namespace Conserve

theorem starTail_iff (f : Str → Bool) (s : Str) :
    starTail f s = true ↔ ∃ u t, s = u ++ t ∧ (∀ c ∈ u, c ≠ slash) ∧ f t = true := by
  induction s with
  | nil =>
    simp only [starTail]
    constructor
    · intro h; exact ⟨[], [], rfl, by simp, h⟩
    · rintro ⟨u, t, h, _, hf⟩
      have : t = [] := by
        have := congrArg List.length h; simp at this; exact List.eq_nil_of_length_eq_zero (by omega)
      rw [this] at hf; exact hf
  | cons c s ih =>
    simp only [starTail, Bool.or_eq_true, Bool.and_eq_true, bne_iff_ne, ne_eq]
    constructor
    · rintro (h | ⟨hc, h⟩)
      · exact ⟨[], c :: s, rfl, by simp, h⟩
      · obtain ⟨u, t, rfl, hu, hf⟩ := ih.mp h
        refine ⟨c :: u, t, rfl, ?_, hf⟩
        intro d hd
        rcases List.mem_cons.mp hd with rfl | hd
        · exact hc
        · exact hu d hd
    · rintro ⟨u, t, h, hu, hf⟩
      cases u with
      | nil => left; simp at h; rw [h]; exact hf
      | cons d u =>
        simp only [List.cons_append, List.cons.injEq] at h
        obtain ⟨rfl, rfl⟩ := h
        right
        refine ⟨hu c (by simp), ih.mpr ⟨u, t, rfl, fun d hd => hu d (by simp [hd]), hf⟩⟩

theorem anyTail_iff (f : Str → Bool) (s : Str) :
    anyTail f s = true ↔ ∃ u t, s = u ++ t ∧ f t = true := by
  induction s with
  | nil =>
    simp only [anyTail]
    constructor
    · intro h; exact ⟨[], [], rfl, h⟩
    · rintro ⟨u, t, h, hf⟩
      have : t = [] := by
        have := congrArg List.length h; simp at this; exact List.eq_nil_of_length_eq_zero (by omega)
      rw [this] at hf; exact hf
  | cons c s ih =>
    simp only [anyTail, Bool.or_eq_true]
    constructor
    · rintro (h | h)
      · exact ⟨[], c :: s, rfl, h⟩
      · obtain ⟨u, t, rfl, hf⟩ := ih.mp h
        exact ⟨c :: u, t, rfl, hf⟩
    · rintro ⟨u, t, h, hf⟩
      cases u with
      | nil => left; simp at h; rw [h]; exact hf
      | cons d u =>
        simp only [List.cons_append, List.cons.injEq] at h
        obtain ⟨rfl, rfl⟩ := h
        right; exact ih.mpr ⟨u, t, rfl, hf⟩

theorem afterSlash_iff (f : Str → Bool) (s : Str) :
    afterSlash f s = true ↔ ∃ u t, s = u ++ slash :: t ∧ f t = true := by
  induction s with
  | nil => simp [afterSlash]
  | cons c s ih =>
    simp only [afterSlash, Bool.or_eq_true, Bool.and_eq_true, beq_iff_eq]
    constructor
    · rintro (⟨rfl, h⟩ | h)
      · exact ⟨[], s, rfl, h⟩
      · obtain ⟨u, t, rfl, hf⟩ := ih.mp h
        exact ⟨c :: u, t, rfl, hf⟩
    · rintro ⟨u, t, h, hf⟩
      cases u with
      | nil =>
        simp only [List.nil_append, List.cons.injEq] at h
        obtain ⟨rfl, rfl⟩ := h
        left; exact ⟨rfl, hf⟩
      | cons d u =>
        simp only [List.cons_append, List.cons.injEq] at h
        obtain ⟨rfl, rfl⟩ := h
        right; exact ih.mpr ⟨u, t, rfl, hf⟩

/-- The language of one token: the strings matched by its regex fragment. -/
def TokLang : Tok → Str → Prop
  | .lit b, u => u = [b]
  | .any, u => ∃ c, u = [c] ∧ c ≠ slash
  | .cls neg rs, u => ∃ c, u = [c] ∧ clsMatch neg rs c = true
  | .star, u => ∀ c ∈ u, c ≠ slash
  | .recPrefix, u => u = [] ∨ ∃ w, u = w ++ [slash]
  | .recSuffix, u => ∃ w, u = slash :: w
  | .recMid, u => u = [slash] ∨ ∃ w, u = slash :: (w ++ [slash])

theorem matchT_nil (s : Str) : matchT [] s = true ↔ s = [] := by
  simp [matchT]

theorem matchT_cons (t : Tok) (ts : List Tok) (s : Str) :
    matchT (t :: ts) s = true ↔ ∃ u v, s = u ++ v ∧ TokLang t u ∧ matchT ts v = true := by
  cases t with
  | lit b =>
    cases s with
    | nil => simp [matchT, TokLang]
    | cons c s' =>
      simp only [matchT, TokLang, Bool.and_eq_true, beq_iff_eq]
      constructor
      · rintro ⟨rfl, h⟩; exact ⟨[c], s', rfl, rfl, h⟩
      · rintro ⟨u, v, h, rfl, hv⟩
        simp only [List.cons_append, List.nil_append, List.cons.injEq] at h
        obtain ⟨rfl, rfl⟩ := h
        exact ⟨rfl, hv⟩
  | any =>
    cases s with
    | nil => simp [matchT, TokLang]
    | cons c s' =>
      simp only [matchT, TokLang, Bool.and_eq_true, bne_iff_ne, ne_eq]
      constructor
      · rintro ⟨hc, h⟩; exact ⟨[c], s', rfl, ⟨c, rfl, hc⟩, h⟩
      · rintro ⟨u, v, h, ⟨d, rfl, hd⟩, hv⟩
        simp only [List.cons_append, List.nil_append, List.cons.injEq] at h
        obtain ⟨rfl, rfl⟩ := h
        exact ⟨hd, hv⟩
  | cls neg rs =>
    cases s with
    | nil => simp [matchT, TokLang]
    | cons c s' =>
      simp only [matchT, TokLang, Bool.and_eq_true]
      constructor
      · rintro ⟨hc, h⟩; exact ⟨[c], s', rfl, ⟨c, rfl, hc⟩, h⟩
      · rintro ⟨u, v, h, ⟨d, rfl, hd⟩, hv⟩
        simp only [List.cons_append, List.nil_append, List.cons.injEq] at h
        obtain ⟨rfl, rfl⟩ := h
        exact ⟨hd, hv⟩
  | star =>
    simp only [matchT, TokLang]
    exact starTail_iff _ _
  | recPrefix =>
    simp only [matchT, TokLang, Bool.or_eq_true]
    constructor
    · rintro (h | h)
      · exact ⟨[], s, rfl, Or.inl rfl, h⟩
      · obtain ⟨w, t, rfl, hf⟩ := (afterSlash_iff _ _).mp h
        exact ⟨w ++ [slash], t, by simp, Or.inr ⟨w, rfl⟩, hf⟩
    · rintro ⟨u, v, rfl, (rfl | ⟨w, rfl⟩), hv⟩
      · left; simpa using hv
      · right; exact (afterSlash_iff _ _).mpr ⟨w, v, by simp, hv⟩
  | recSuffix =>
    cases s with
    | nil => simp [matchT, TokLang]
    | cons c s' =>
      simp only [matchT, TokLang, Bool.and_eq_true, beq_iff_eq]
      constructor
      · rintro ⟨rfl, h⟩
        obtain ⟨w, t, rfl, hf⟩ := (anyTail_iff _ _).mp h
        exact ⟨slash :: w, t, rfl, ⟨w, rfl⟩, hf⟩
      · rintro ⟨u, v, h, ⟨w, rfl⟩, hv⟩
        simp only [List.cons_append, List.cons.injEq] at h
        obtain ⟨rfl, rfl⟩ := h
        exact ⟨rfl, (anyTail_iff _ _).mpr ⟨w, v, rfl, hv⟩⟩
  | recMid =>
    cases s with
    | nil => simp [matchT, TokLang]
    | cons c s' =>
      simp only [matchT, TokLang, Bool.and_eq_true, beq_iff_eq, Bool.or_eq_true]
      constructor
      · rintro ⟨rfl, h | h⟩
        · exact ⟨[slash], s', rfl, Or.inl rfl, h⟩
        · obtain ⟨w, t, rfl, hf⟩ := (afterSlash_iff _ _).mp h
          exact ⟨slash :: (w ++ [slash]), t, by simp, Or.inr ⟨w, rfl⟩, hf⟩
      · rintro ⟨u, v, h, (rfl | ⟨w, rfl⟩), hv⟩
        · simp only [List.cons_append, List.nil_append, List.cons.injEq] at h
          obtain ⟨rfl, rfl⟩ := h
          exact ⟨rfl, Or.inl hv⟩
        · simp only [List.cons_append, List.append_assoc, List.nil_append, List.cons.injEq] at h
          obtain ⟨rfl, rfl⟩ := h
          exact ⟨rfl, Or.inr ((afterSlash_iff _ _).mpr ⟨w, v, rfl, hv⟩)⟩

/-- Matching a concatenation of token lists = splitting the string. -/
theorem matchT_append (ts₁ ts₂ : List Tok) (s : Str) :
    matchT (ts₁ ++ ts₂) s = true ↔ ∃ u v, s = u ++ v ∧ matchT ts₁ u = true ∧ matchT ts₂ v = true := by
  induction ts₁ generalizing s with
  | nil =>
    simp only [List.nil_append, matchT_nil]
    constructor
    · intro h; exact ⟨[], s, rfl, rfl, h⟩
    · rintro ⟨u, v, rfl, rfl, h⟩; simpa using h
  | cons t ts ih =>
    rw [List.cons_append, matchT_cons]
    constructor
    · rintro ⟨u, v, rfl, ht, hv⟩
      obtain ⟨v₁, v₂, rfl, h1, h2⟩ := (ih v).mp hv
      exact ⟨u ++ v₁, v₂, by simp, (matchT_cons t ts _).mpr ⟨u, v₁, rfl, ht, h1⟩, h2⟩
    · rintro ⟨u, v, rfl, hu, hv⟩
      obtain ⟨u₁, u₂, rfl, ht, h2⟩ := (matchT_cons t ts u).mp hu
      exact ⟨u₁, u₂ ++ v, by simp, ht, (ih _).mpr ⟨u₂, v, rfl, h2, hv⟩⟩

theorem matchT_recSuffix (v : Str) : matchT [.recSuffix] v = true ↔ ∃ z, v = slash :: z := by
  rw [matchT_cons]
  constructor
  · rintro ⟨u, w, rfl, ⟨z, rfl⟩, hw⟩
    rw [matchT_nil] at hw; subst hw
    exact ⟨z, by simp⟩
  · rintro ⟨z, rfl⟩
    exact ⟨slash :: z, [], by simp, ⟨z, rfl⟩, by simp [matchT]⟩

/-- Token-level suffix rule: `ts` followed by `/.*` matches `x` iff `ts` matches a prefix of `x`
that is followed by a slash. -/
theorem matchT_snoc_recSuffix (ts : List Tok) (x : Str) :
    matchT (ts ++ [.recSuffix]) x = true ↔ ∃ y z, x = y ++ slash :: z ∧ matchT ts y = true := by
  rw [matchT_append]
  constructor
  · rintro ⟨u, v, rfl, hu, hv⟩
    obtain ⟨z, rfl⟩ := (matchT_recSuffix v).mp hv
    exact ⟨u, z, rfl, hu⟩
  · rintro ⟨y, z, rfl, hy⟩
    exact ⟨y, slash :: z, rfl, hy, (matchT_recSuffix _).mpr ⟨z, rfl⟩⟩

theorem matchToks_of_ne {ts : List Tok} (h : ts ≠ [.recPrefix]) (s : Str) :
    matchToks ts s = matchT ts s := by
  simp [matchToks, h]

theorem matchToks_recPrefix (s : Str) : matchToks [.recPrefix] s = true := by
  simp [matchToks]

theorem snoc_ne_recPrefix (ts : List Tok) : ts ++ [Tok.recSuffix] ≠ [.recPrefix] := by
  intro h
  cases ts with
  | nil => simp at h
  | cons t ts =>
    cases ts with
    | nil => simp at h
    | cons t2 ts => simp at h

/-- Token-level suffix rule for `matchToks` (the glob that is only `**` excepted). -/
theorem matchToks_snoc_recSuffix {ts : List Tok} (h : ts ≠ [.recPrefix]) (x : Str) :
    matchToks (ts ++ [.recSuffix]) x = true ↔ ∃ y z, x = y ++ slash :: z ∧ matchToks ts y = true := by
  rw [matchToks_of_ne (snoc_ne_recPrefix ts), matchT_snoc_recSuffix]
  simp only [matchToks_of_ne h]

/-- A glob ending in `RecursiveSuffix` that matches `a` matches everything below `a`. -/
theorem matchToks_recSuffix_closed (ts : List Tok) (a z : Str)
    (h : matchToks (ts ++ [.recSuffix]) a = true) :
    matchToks (ts ++ [.recSuffix]) (a ++ slash :: z) = true := by
  rw [matchToks_of_ne (snoc_ne_recPrefix ts)] at h ⊢
  rw [matchT_snoc_recSuffix] at h ⊢
  obtain ⟨y, w, rfl, hy⟩ := h
  exact ⟨y, w ++ slash :: z, by simp, hy⟩

end Conserve
