import ConserveModel.Proofs.FsWalk
/-
The destination directory `D`: when its own path is plain (every prefix a directory), paths
`D ++ cs` over clean components resolve to themselves, and local changes at such paths leave
everything outside `D` alone (`Grows`).
-/
namespace Conserve

/-- The destination path is plain in `fs`: real names only, and every prefix of it (the root,
…, `D` itself) is a directory — no symlink component. -/
structure DestOk (fs : Fs) (D : Path) : Prop where
  good : ∀ c ∈ D, goodName c = true
  dirs : ∀ pre, pre <+: D → fs.isDir pre = true

theorem Fs.isDir_iff {fs : Fs} {p : Path} : fs.isDir p = true ↔ ∃ x, fs.node p = some x ∧ x.kind = .dir := by
  unfold Fs.isDir
  cases fs.node p <;> simp

theorem noneOrDir_of_isDir {fs : Fs} {p : Path} (h : fs.isDir p = true) : NoneOrDir (fs.node p) := by
  obtain ⟨x, hx, hk⟩ := Fs.isDir_iff.1 h
  intro y hy; rw [hx] at hy; cases hy; exact hk

/-- No proper prefix of `cs` below `D` is a symlink (files are allowed: resolution through them
fails with ENOTDIR and nothing happens). -/
def CleanTo (fs : Fs) (D : Path) (cs : List Str) : Prop :=
  ∀ pre, pre <+: cs → pre ≠ cs → NotLink (fs.node (D ++ pre))

/-- … and `D ++ cs` itself is no symlink either. -/
def CleanFullL (fs : Fs) (D : Path) (cs : List Str) : Prop :=
  ∀ pre, pre <+: cs → NotLink (fs.node (D ++ pre))

/-- Every prefix of `cs` below `D`, `D ++ cs` included, is absent or a directory. -/
def CleanFull (fs : Fs) (D : Path) (cs : List Str) : Prop :=
  ∀ pre, pre <+: cs → NoneOrDir (fs.node (D ++ pre))

theorem CleanFull.toL {fs : Fs} {D : Path} {cs : List Str} (h : CleanFull fs D cs) : CleanFullL fs D cs :=
  fun pre hp => (h pre hp).notLink

theorem CleanFullL.to {fs : Fs} {D : Path} {cs : List Str} (h : CleanFullL fs D cs) : CleanTo fs D cs :=
  fun pre hp _ => h pre hp

theorem CleanFull.to {fs : Fs} {D : Path} {cs : List Str} (h : CleanFull fs D cs) : CleanTo fs D cs :=
  h.toL.to

theorem CleanFull.prefix {fs : Fs} {D : Path} {cs pre : List Str} (h : CleanFull fs D cs)
    (hp : pre <+: cs) : CleanFull fs D pre :=
  fun q hq => h q (hq.trans hp)

theorem CleanFullL.prefix {fs : Fs} {D : Path} {cs pre : List Str} (h : CleanFullL fs D cs)
    (hp : pre <+: cs) : CleanFullL fs D pre :=
  fun q hq => h q (hq.trans hp)

theorem prefix_append_cases {D pre cs : List Str} (h : pre <+: D ++ cs) :
    pre <+: D ∨ ∃ pre', pre = D ++ pre' ∧ pre' <+: cs := by
  rcases List.prefix_or_prefix_of_prefix h (List.prefix_append D cs) with h1 | ⟨t, ht⟩
  · exact Or.inl h1
  · refine Or.inr ⟨t, ht.symm, ?_⟩
    rw [← ht] at h
    exact (List.prefix_append_right_inj D).1 h

theorem resolve_clean {fs : Fs} {D : Path} {cs trail : List Str} {follow : Bool}
    (hD : DestOk fs D) (hg : ∀ c ∈ cs, goodName c = true) (ht : ∀ c ∈ trail, c = [])
    (hc : CleanTo fs D cs)
    (hfin : (follow = false ∧ trail = []) ∨ ∀ x, fs.node (D ++ cs) = some x → x.kind ≠ .symlink) :
    ∀ p, fs.resolve follow (D ++ cs ++ trail) = .ok p → p = D ++ cs := by
  intro p h
  unfold Fs.resolve at h
  have := walk_clean fs follow resolveFuel maxSymlinks [] (D ++ cs) trail
    (fun c hc' => by
      rcases List.mem_append.1 hc' with h1 | h1
      · exact hD.good c h1
      · exact hg c h1) ht
    (fun pre hp _ hne => by
      rw [List.nil_append]
      rcases prefix_append_cases hp with h1 | ⟨pre', rfl, h1⟩
      · exact (noneOrDir_of_isDir (hD.dirs pre h1)).notLink
      · exact hc pre' h1 (fun e => hne (by rw [e])))
    (by simpa using hfin) p h
  simpa using this

/-- Resolving the destination itself never says ENOENT. -/
theorem resolve_dest_ne_enoent {fs : Fs} {D : Path} {follow : Bool} (hD : DestOk fs D) :
    fs.resolve follow D ≠ .error .ENOENT := by
  intro h
  unfold Fs.resolve at h
  have hfin : (follow = false ∧ ([] : List Str) = []) ∨
      ∀ x, fs.node ([] ++ D) = some x → x.kind ≠ .symlink := by
    refine Or.inr fun x hx => ?_
    rw [List.nil_append] at hx
    have := noneOrDir_of_isDir (hD.dirs D (List.prefix_refl _)) x hx
    rw [this]; decide
  obtain ⟨pre, hp, _, hn⟩ := walk_clean_enoent fs follow resolveFuel maxSymlinks [] D []
    hD.good (fun _ hc => nomatch hc)
    (fun pre hp _ _ => by rw [List.nil_append]; exact noneOrDir_of_isDir (hD.dirs pre hp))
    hfin (by simpa using h)
  rw [List.nil_append] at hn
  obtain ⟨x, hx, _⟩ := Fs.isDir_iff.1 (hD.dirs pre hp)
  rw [hx] at hn; cases hn

/-! ### Consequences of `Local` -/

theorem Local.eqMod_of_ne {k : FKind} {fs fs' : Fs} {p q : Path} (h : Local k fs fs' p) (hq : q ≠ p) :
    EqMod (fs.node q) (fs'.node q) := by
  by_cases hd : q = p.dropLast
  · subst hd
    exact (h.parent (fun e => hq e)).1
  · exact EqMod.of_eq (h.frame q hq hd).symm

theorem Local.kept {k : FKind} {fs fs' : Fs} {p : Path} (h : Local k fs fs' p) :
    ∀ q x, fs.node q = some x → ∃ x', fs'.node q = some x' ∧ x'.kind = x.kind := by
  intro q x hx
  by_cases hq : q = p
  · subst hq; exact h.self x hx
  · obtain ⟨y, hy, hk, _⟩ := (h.eqMod_of_ne hq).some_left hx
    exact ⟨y, hy, hk⟩

/-- What a run of local changes below `D` does, seen from outside: `T` = the relative paths
aimed at, `N` = those where a non-directory may have been created. -/
structure Grows (D : Path) (T N : List Str → Prop) (fs fs' : Fs) : Prop where
  outside : ∀ q, ¬ D <+: q → fs'.node q = fs.node q
  kept : ∀ q x, fs.node q = some x → ∃ x', fs'.node q = some x' ∧ x'.kind = x.kind
  stable : ∀ cs, ¬ T cs → EqMod (fs.node (D ++ cs)) (fs'.node (D ++ cs))
  fresh : ∀ cs x, fs.node (D ++ cs) = none → fs'.node (D ++ cs) = some x → x.kind = .dir ∨ N cs

theorem Grows.refl (D : Path) (T N : List Str → Prop) (fs : Fs) : Grows D T N fs fs :=
  ⟨fun _ _ => rfl, fun _ x h => ⟨x, h, rfl⟩, fun _ _ => EqMod.refl _,
   fun _ x h1 h2 => by rw [h1] at h2; cases h2⟩

theorem Grows.mono {D : Path} {T N T' N' : List Str → Prop} {fs fs' : Fs} (h : Grows D T N fs fs')
    (hT : ∀ c, T c → T' c) (hN : ∀ c, N c → N' c) : Grows D T' N' fs fs' :=
  ⟨h.outside, h.kept, fun cs hc => h.stable cs (fun a => hc (hT cs a)),
   fun cs x a b => (h.fresh cs x a b).imp id (hN cs)⟩

theorem Grows.trans {D : Path} {T N : List Str → Prop} {fs fs1 fs2 : Fs}
    (h1 : Grows D T N fs fs1) (h2 : Grows D T N fs1 fs2) : Grows D T N fs fs2 := by
  refine ⟨fun q hq => (h2.outside q hq).trans (h1.outside q hq), fun q x hx => ?_,
    fun cs hc => (h1.stable cs hc).trans (h2.stable cs hc), fun cs x hn hs => ?_⟩
  · obtain ⟨x1, hx1, hk1⟩ := h1.kept q x hx
    obtain ⟨x2, hx2, hk2⟩ := h2.kept q x1 hx1
    exact ⟨x2, hx2, hk2.trans hk1⟩
  · cases hm : fs1.node (D ++ cs) with
    | none => exact h2.fresh cs x hm hs
    | some x1 =>
      obtain ⟨x2, hx2, hk2⟩ := h2.kept _ x1 hm
      rw [hs] at hx2; cases hx2
      rw [hk2]
      exact h1.fresh cs x1 hn hm

theorem dropLast_dest_append {D cs : List Str} (h : cs ≠ []) : (D ++ cs).dropLast = D ++ cs.dropLast :=
  List.dropLast_append_of_ne_nil h

theorem Local.grows {k : FKind} {fs fs' : Fs} {D : Path} {cs : List Str}
    (h : Local k fs fs' (D ++ cs)) (hD : fs.node D ≠ none) :
    Grows D (· = cs) (fun c => c = cs ∧ k ≠ .dir) fs fs' := by
  refine ⟨fun q hq => ?_, h.kept, fun cs' hc => ?_, fun cs' x hn hs => ?_⟩
  · have hqp : q ≠ D ++ cs := fun e => hq (e ▸ List.prefix_append D cs)
    by_cases hd : q = (D ++ cs).dropLast
    · by_cases hcs : cs = []
      · subst hcs
        rw [List.append_nil] at hd hqp h
        subst hd
        exact (h.parent (fun e => hqp e)).2 hD
      · rw [dropLast_dest_append hcs] at hd
        exact absurd (hd ▸ List.prefix_append D _) hq
    · exact h.frame q hqp hd
  · exact h.eqMod_of_ne (fun e => hc (List.append_cancel_left e))
  · by_cases he : cs' = cs
    · subst he
      have := h.created x hn hs
      by_cases hk : k = .dir
      · exact Or.inl (this.trans hk)
      · exact Or.inr ⟨rfl, hk⟩
    · have := (h.eqMod_of_ne (fun e => he (List.append_cancel_left e))).none_iff.1 hn
      rw [this] at hs; cases hs

/-! ### The invariant of the restore loop -/

/-- `D` is plain, and every non-directory below `D` sits at a relative path in `S`. -/
structure Inv (D : Path) (S : List Str → Prop) (fs : Fs) : Prop where
  dest : DestOk fs D
  below : ∀ cs x, fs.node (D ++ cs) = some x → x.kind = .dir ∨ S cs

theorem Grows.destOk {D : Path} {T N : List Str → Prop} {fs fs' : Fs} (h : Grows D T N fs fs')
    (hD : DestOk fs D) : DestOk fs' D := by
  refine ⟨hD.good, fun pre hp => ?_⟩
  obtain ⟨x, hx, hk⟩ := Fs.isDir_iff.1 (hD.dirs pre hp)
  obtain ⟨x', hx', hk'⟩ := h.kept pre x hx
  exact Fs.isDir_iff.2 ⟨x', hx', hk'.trans hk⟩

theorem Inv.grows {D : Path} {S T N : List Str → Prop} {fs fs' : Fs} (hI : Inv D S fs)
    (h : Grows D T N fs fs') : Inv D (fun c => N c ∨ S c) fs' := by
  refine ⟨h.destOk hI.dest, fun cs x hx => ?_⟩
  cases hn : fs.node (D ++ cs) with
  | none => exact (h.fresh cs x hn hx).imp id Or.inl
  | some y =>
    obtain ⟨x', hx', hk'⟩ := h.kept _ y hn
    rw [hx] at hx'; cases hx'
    rw [hk']
    exact (hI.below cs y hn).imp id Or.inr

theorem Inv.cleanFull {D : Path} {S : List Str → Prop} {fs : Fs} (hI : Inv D S fs) {cs : List Str}
    (hc : ∀ pre, pre <+: cs → ¬ S pre) : CleanFull fs D cs := by
  intro pre hp x hx
  rcases hI.below pre x hx with h | h
  · exact h
  · exact absurd h (hc pre hp)

theorem Inv.dest_ne_none {D : Path} {S : List Str → Prop} {fs : Fs} (hI : Inv D S fs) : fs.node D ≠ none := by
  obtain ⟨x, hx, _⟩ := Fs.isDir_iff.1 (hI.dest.dirs D (List.prefix_refl _))
  rw [hx]; simp

end Conserve
