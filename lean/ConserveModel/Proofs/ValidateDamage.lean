import ConserveModel.Proofs.ValidateGood
import ConserveModel.Proofs.StoreNoDup
/-
Single-file damage: `s'` is `s` with the file at one key removed or replaced.  What the
specification functions (`listSpec`, `listErrors`, `bandIdsOf`, `hunkNumsOf`, …) do under such a
change, and that the damaged store is still well-formed enough for `run_validate`.
No property statements.
-/
set_option linter.unusedSimpArgs false
namespace Conserve

/-- Nothing lives below `k` (it is a file position: header, head, tail, hunk, block, …). -/
def Key.isLeaf (k : Key) : Prop := ∀ k' : Key, k'.parent ≠ some k

theorem Key.isLeaf_header : Key.isLeaf .header := by intro k'; cases k' <;> simp [Key.parent]
theorem Key.isLeaf_bandHead (b : Nat) : Key.isLeaf (.bandHead b) := by intro k'; cases k' <;> simp [Key.parent]
theorem Key.isLeaf_hunk (b n : Nat) : Key.isLeaf (.hunk b n) := by intro k'; cases k' <;> simp [Key.parent]
theorem Key.isLeaf_block (h : Str) : Key.isLeaf (.block h) := by intro k'; cases k' <;> simp [Key.parent]

/-- `s'` is `s` with the FILE at `k` damaged: now absent (`d = none`) or holding `d = some v`
(not a directory); every other path is untouched; `s'` is still a function. -/
structure DamagedAt (k : Key) (d : Option FileVal) (s s' : Store) : Prop where
  nodup : keysNodup s' = true
  was : ∃ v, s.get? k = some v ∧ v.isDir = false
  now : s'.get? k = d
  notDir : d ≠ some .dir
  same : ∀ k', k' ≠ k → s'.get? k' = s.get? k'

theorem keysNodup_iff (s : Store) : keysNodup s = true ↔ s.NoDupKeys := by
  simp [keysNodup, Store.NoDupKeys]

/-- Deleting the file. -/
theorem DamagedAt.erase {s : Store} {k : Key} (hn : keysNodup s = true)
    (was : ∃ v, s.get? k = some v ∧ v.isDir = false) : DamagedAt k none s (s.erase k) :=
  ⟨(keysNodup_iff _).mpr (((keysNodup_iff _).mp hn).erase k), was, by simp, by simp,
    fun k' h => Store.get?_erase_ne s h⟩

/-- Overwriting the file. -/
theorem DamagedAt.put {s : Store} {k : Key} {v : FileVal} (hn : keysNodup s = true)
    (was : ∃ v, s.get? k = some v ∧ v.isDir = false) (hv : v ≠ .dir) :
    DamagedAt k (some v) s (s.put k v) :=
  ⟨(keysNodup_iff _).mpr (((keysNodup_iff _).mp hn).put k v), was, by simp, by simpa using hv,
    fun k' h => Store.get?_put_ne s v h⟩

/-! ### General consequences -/

theorem bandIdsOf_sorted_lt {s : Store} (hn : UniqueKeys s) : (bandIdsOf s).Pairwise (· < ·) := by
  apply sortNat_sorted_lt
  apply hn.nodup_filterMap
  rintro ⟨k, v⟩ ⟨k', v'⟩ n hf hf'
  cases k <;> cases v <;> simp at hf
  cases k' <;> cases v' <;> simp at hf'
  simp [hf, hf']

theorem mem_bandIdsOf_get? {s : Store} (hn : UniqueKeys s) {b : Nat} :
    b ∈ bandIdsOf s ↔ s.get? (.bandDir b) = some .dir := by
  rw [mem_bandIdsOf', Store.mem_iff_get? hn]

theorem mem_hunkNumsOf_get? {s : Store} (hn : UniqueKeys s) {b n : Nat} :
    n ∈ hunkNumsOf s b ↔ ∃ v, s.get? (.hunk b n) = some v ∧ v.isDir = false := by
  rw [mem_hunkNumsOf]
  constructor
  · rintro ⟨v, hm, hv⟩; exact ⟨v, (Store.mem_iff_get? hn).mp hm, hv⟩
  · rintro ⟨v, hg, hv⟩; exact ⟨v, Store.mem_of_get?' hg, hv⟩

theorem sorted_sub_eq_filter {l' l : List Nat} (h' : l'.Pairwise (· < ·)) (h : l.Pairwise (· < ·))
    (hs : ∀ a ∈ l', a ∈ l) : l' = l.filter fun a => decide (a ∈ l') := by
  apply eq_of_sorted_lt h' (h.filter _)
  intro a
  simp only [List.mem_filter, decide_eq_true_eq]
  exact ⟨fun ha => ⟨hs a ha, ha⟩, fun ha => ha.2⟩

theorem flatten_filterMap_sublist {α β : Type} {f g : α → Option (List β)} {l' l : List α}
    (hl : l'.Sublist l) (h : ∀ x ∈ l', f x = g x ∨ f x = none ∨ f x = some []) :
    ((l'.filterMap f).flatten).Sublist ((l.filterMap g).flatten) := by
  induction hl with
  | slnil => simp
  | cons a _ ih =>
    have ih := ih h
    simp only [List.filterMap_cons]
    cases g a with
    | none => exact ih
    | some x => simp only [List.flatten_cons]; exact List.sublist_append_of_sublist_right ih
  | cons_cons a _ ih =>
    have ih := ih (fun x hx => h x (List.mem_cons_of_mem _ hx))
    simp only [List.filterMap_cons]
    rcases h a (List.mem_cons_self ..) with he | he | he
    · rw [he]
      cases g a with
      | none => exact ih
      | some x => simp only [List.flatten_cons]; exact List.Sublist.append (List.Sublist.refl _) ih
    · rw [he]
      cases g a with
      | none => exact ih
      | some x => simp only [List.flatten_cons]; exact List.sublist_append_of_sublist_right ih
    · rw [he]
      cases g a with
      | none => simpa using ih
      | some x =>
        simp only [List.flatten_cons, List.nil_append]
        exact List.sublist_append_of_sublist_right ih

section
variable {k : Key} {d : Option FileVal} {s s' : Store}

theorem DamagedAt.uniqueKeys' (dm : DamagedAt k d s s') : UniqueKeys s' := by
  have := dm.nodup
  simp only [keysNodup, decide_eq_true_eq] at this
  exact (uniqueKeys_iff_nodup s').mpr this

/-- Directories are the same before and after. -/
theorem DamagedAt.get?_dir (dm : DamagedAt k d s s') (p : Key) :
    s'.get? p = some .dir ↔ s.get? p = some .dir := by
  by_cases hp : p = k
  · subst hp
    obtain ⟨v, hv, hnd⟩ := dm.was
    rw [dm.now, hv]
    constructor
    · intro h; exact absurd h dm.notDir
    · intro h; cases h; simp [FileVal.isDir] at hnd
  · rw [dm.same p hp]

theorem DamagedAt.dirsOk' (dm : DamagedAt k d s s') (leaf : k.isLeaf) (hd : DirsOk s) : DirsOk s' := by
  intro kv hm
  obtain ⟨k1, v1⟩ := kv
  have hg := Store.get?_of_mem_unique dm.uniqueKeys' hm
  have hs : ∃ v, s.get? k1 = some v := by
    by_cases hk : k1 = k
    · subst hk; obtain ⟨v, hv, _⟩ := dm.was; exact ⟨v, hv⟩
    · rw [dm.same k1 hk] at hg; exact ⟨v1, hg⟩
  obtain ⟨v, hv⟩ := hs
  have := hd.parent_of_get? hv
  simp only [Store.parentOk] at this ⊢
  cases hp : k1.parent with
  | none => rfl
  | some p =>
    rw [hp] at this
    simp only [beq_iff_eq] at this ⊢
    exact (dm.get?_dir p).mpr this

theorem DamagedAt.bandIdsOf_eq (dm : DamagedAt k d s s') (hn : UniqueKeys s) : bandIdsOf s' = bandIdsOf s := by
  apply eq_of_sorted_lt (bandIdsOf_sorted_lt dm.uniqueKeys') (bandIdsOf_sorted_lt hn)
  intro b
  rw [mem_bandIdsOf_get? dm.uniqueKeys', mem_bandIdsOf_get? hn, dm.get?_dir]

theorem DamagedAt.hunkNumsOf_sub (dm : DamagedAt k d s s') (hn : UniqueKeys s) {b n : Nat}
    (h : n ∈ hunkNumsOf s' b) : n ∈ hunkNumsOf s b := by
  rw [mem_hunkNumsOf_get? dm.uniqueKeys'] at h
  rw [mem_hunkNumsOf_get? hn]
  obtain ⟨v, hv, hnd⟩ := h
  by_cases hk : Key.hunk b n = k
  · rw [hk]; exact dm.was
  · rw [dm.same _ hk] at hv; exact ⟨v, hv, hnd⟩

theorem DamagedAt.hunkNumsOf_filter (dm : DamagedAt k d s s') (hn : UniqueKeys s) (b : Nat) :
    hunkNumsOf s' b = (hunkNumsOf s b).filter fun n => decide (n ∈ hunkNumsOf s' b) :=
  sorted_sub_eq_filter (hunkNumsOf_sorted_lt dm.uniqueKeys' b) (hunkNumsOf_sorted_lt hn b)
    (fun _ h => dm.hunkNumsOf_sub hn h)

theorem DamagedAt.hunkNumsOf_sublist (dm : DamagedAt k d s s') (hn : UniqueKeys s) (b : Nat) :
    (hunkNumsOf s' b).Sublist (hunkNumsOf s b) := by
  rw [dm.hunkNumsOf_filter hn b]; exact List.filter_sublist

/-- The hunk numbers of a version change only if one of its hunk files is deleted. -/
theorem DamagedAt.hunkNumsOf_eq (dm : DamagedAt k d s s') (hn : UniqueKeys s) (b : Nat)
    (h : (∀ n, k ≠ .hunk b n) ∨ d ≠ none) : hunkNumsOf s' b = hunkNumsOf s b := by
  rw [dm.hunkNumsOf_filter hn b]
  apply List.filter_eq_self.mpr
  intro n hm
  simp only [decide_eq_true_eq]
  rw [mem_hunkNumsOf_get? hn] at hm
  rw [mem_hunkNumsOf_get? dm.uniqueKeys']
  by_cases hk : Key.hunk b n = k
  · rcases h with h | h
    · exact absurd hk.symm (h n)
    · rw [hk, dm.now]
      cases hd : d with
      | none => exact absurd hd h
      | some v =>
        refine ⟨v, rfl, ?_⟩
        cases v <;> first | rfl | exact absurd hd dm.notDir
  · rw [dm.same _ hk]; exact hm

theorem DamagedAt.usableHunk_cases (dm : DamagedAt k d s s') (hnh : ∀ es, d ≠ some (.hunk es)) (b n : Nat) :
    usableHunk s' b n = usableHunk s b n ∨ usableHunk s' b n = none ∨ usableHunk s' b n = some [] := by
  by_cases hk : Key.hunk b n = k
  · right
    unfold usableHunk
    rw [hk, dm.now]
    cases hd : d with
    | none => left; rfl
    | some v =>
      cases v with
      | hunk es => exact absurd hd (hnh es)
      | empty => right; rfl
      | _ => left; rfl
  · left
    unfold usableHunk
    rw [dm.same _ hk]

theorem DamagedAt.ownEntries_sublist (dm : DamagedAt k d s s') (hn : UniqueKeys s)
    (hnh : ∀ es, d ≠ some (.hunk es)) (b : Nat) : (ownEntries s' b).Sublist (ownEntries s b) :=
  flatten_filterMap_sublist (dm.hunkNumsOf_sublist hn b) (fun n _ => dm.usableHunk_cases hnh b n)

/-- The damaged store is still well-formed for listing. -/
theorem DamagedAt.archWF (dm : DamagedAt k d s s') (leaf : k.isLeaf) (hnh : ∀ es, d ≠ some (.hunk es))
    (wf : ArchWF s) : ArchWF s' := by
  have hd' := dm.dirsOk' leaf wf.dirsOk
  refine ⟨dm.nodup, ?_, ?_⟩
  · simp only [treeShaped, List.all_eq_true]; exact hd'
  · simp only [bandsSorted, List.all_eq_true]
    intro kv _
    split
    · rename_i b n _
      rw [strictlySorted_iff, List.pairwise_map]
      exact (wf.sortedOwn b).sublist (dm.ownEntries_sublist wf.uniqueKeys hnh b)
    · rfl

theorem DamagedAt.archOK (dm : DamagedAt k d s s') (leaf : k.isLeaf) (hnh : ∀ es, d ≠ some (.hunk es))
    (ok : ArchOK s) : ArchOK s' :=
  ⟨dm.archWF leaf hnh ok.wf, (dm.get?_dir _).mpr ok.root, (dm.get?_dir _).mpr ok.blockRoot⟩

end

/-! ### Damage outside the indexes: listings and their errors are unchanged -/

/-- The two stores hold the same versions, heads, tails, index directories and hunk files. -/
structure IndexSame (s s' : Store) : Prop where
  nums : ∀ b, hunkNumsOf s' b = hunkNumsOf s b
  hunk : ∀ b n, s'.get? (.hunk b n) = s.get? (.hunk b n)
  head : ∀ b, s'.get? (.bandHead b) = s.get? (.bandHead b)
  tail : ∀ b, s'.get? (.bandTail b) = s.get? (.bandTail b)
  idir : ∀ b, s'.get? (.indexDir b) = s.get? (.indexDir b)

theorem DamagedAt.indexSame {k : Key} {d : Option FileVal} {s s' : Store} (dm : DamagedAt k d s s')
    (hn : UniqueKeys s)
    (hk : ∀ b n, k ≠ .hunk b n ∧ k ≠ .bandHead b ∧ k ≠ .bandTail b ∧ k ≠ .indexDir b) : IndexSame s s' :=
  ⟨fun b => dm.hunkNumsOf_eq hn b (Or.inl fun n => (hk b n).1),
   fun b n => dm.same _ (Ne.symm (hk b n).1),
   fun b => dm.same _ (Ne.symm (hk b 0).2.1),
   fun b => dm.same _ (Ne.symm (hk b 0).2.2.1),
   fun b => dm.same _ (Ne.symm (hk b 0).2.2.2)⟩

section
variable {s s' : Store} (h : IndexSame s s')
include h

theorem IndexSame.usableHunk_eq (b n : Nat) : usableHunk s' b n = usableHunk s b n := by
  simp only [usableHunk, h.hunk]

theorem IndexSame.ownEntries_eq (b : Nat) : ownEntries s' b = ownEntries s b := by
  simp only [ownEntries, h.nums, funext (h.usableHunk_eq b)]

theorem IndexSame.bandPresent_eq (b : Nat) : bandPresent s' b = bandPresent s b := by
  simp only [bandPresent, h.head]

theorem IndexSame.bandReadable_eq (b : Nat) : bandReadable s' b = bandReadable s b := by
  simp only [bandReadable, h.head, h.idir]

theorem IndexSame.isComplete_eq (b : Nat) : isComplete s' b = isComplete s b := by
  simp only [isComplete, h.tail]

theorem IndexSame.bandEntries_eq (b : Nat) : bandEntries s' b = bandEntries s b := by
  simp only [bandEntries, h.bandReadable_eq, h.ownEntries_eq]

theorem IndexSame.contSpec_eq (b : Nat) (last : Option Str) : contSpec s' b last = contSpec s b last := by
  induction b generalizing last with
  | zero => rfl
  | succ b ih => simp only [contSpec, h.bandPresent_eq, h.bandEntries_eq, h.isComplete_eq, ih]

theorem IndexSame.listSpec_eq (n : Nat) : listSpec s' n = listSpec s n := by
  simp only [listSpec, h.bandEntries_eq, h.isComplete_eq, h.contSpec_eq]

theorem IndexSame.chainBelow_eq (b : Nat) : chainBelow s' b = chainBelow s b := by
  induction b with
  | zero => rfl
  | succ b ih => simp only [chainBelow, h.bandPresent_eq, h.isComplete_eq, ih]

theorem IndexSame.chain_eq (n : Nat) : chain s' n = chain s n := by
  simp only [chain, h.isComplete_eq, h.chainBelow_eq]

theorem IndexSame.bandErrors_eq (b : Nat) : bandErrors s' b = bandErrors s b := by
  have h1 : unreadableError s' b = unreadableError s b := by simp only [unreadableError, h.head, h.idir]
  have h2 : tailInfo s' b = tailInfo s b := by simp only [tailInfo, h.tail]
  have h3 : ∀ n, hunkNonEmpty s' b n = hunkNonEmpty s b n := by intro n; simp only [hunkNonEmpty, h.hunk]
  have h4 : ∀ n, hunkError s' b n = hunkError s b n := by intro n; simp only [hunkError, h.hunk]
  have h5 : indexCheckError s' b = indexCheckError s b := by
    simp only [indexCheckError, h.nums, h2, funext h3]
  simp only [bandErrors, h.bandReadable_eq, h1, h5, h.nums, funext h4]

theorem IndexSame.headLost_eq (b : Nat) : headLost s' b = headLost s b := by
  simp only [headLost, h.bandPresent_eq, h.hunk]

theorem IndexSame.errorsBelow_eq (b : Nat) : errorsBelow s' b = errorsBelow s b := by
  induction b with
  | zero => rfl
  | succ b ih =>
    simp only [errorsBelow, h.bandPresent_eq, h.bandErrors_eq, h.isComplete_eq, h.headLost_eq, ih]

theorem IndexSame.listErrors_eq (n : Nat) : listErrors s' n = listErrors s n := by
  simp only [listErrors, h.bandErrors_eq, h.isComplete_eq, h.errorsBelow_eq]

theorem IndexSame.headError_eq (b : Nat) : headError s' b = headError s b := by
  simp only [headError, h.head]

theorem IndexSame.bandRefs_eq : bandRefs s' = bandRefs s := by
  funext m b
  simp only [bandRefs, h.headError_eq, h.listSpec_eq]

end

end Conserve
