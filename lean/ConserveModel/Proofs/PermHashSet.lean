import ConserveModel.Proofs.PermGc
/-
Helper lemmas for C17: the loop of `delete_bands` that removes the unreferenced blocks gives the
same store and the same error count in whatever order it visits the blocks (the real code
iterates a `HashSet`; the model uses name order).  Clean worlds only (no faults, no crash).
-/
namespace Conserve
open Prog

/-- Is there a file (not a directory) at this path? -/
def isFileAt (s : Store) (k : Key) : Bool :=
  match s.get? k with
  | some v => !v.isDir
  | none => false

/-- What the block-removal loop does to the store and to its error counter. -/
def removeBlocksPure (s : Store) (n : Nat) : List Str → Store × Nat
  | [] => (s, n)
  | h :: hs =>
    if isFileAt s (.block h) then removeBlocksPure (s.erase (.block h)) n hs
    else removeBlocksPure s (n + 1) hs

theorem isFileAt_congr {s t : Store} (h : StoreEquiv s t) (k : Key) : isFileAt s k = isFileAt t k := by
  unfold isFileAt; rw [h k]

theorem isFileAt_erase_ne (s : Store) {j k : Key} (h : j ≠ k) : isFileAt (s.erase k) j = isFileAt s j := by
  unfold isFileAt; rw [Store.get?_erase]; simp [h]

theorem removeBlocksPure_congr {s t : Store} (h : StoreEquiv s t) (n : Nat) (l : List Str) :
    StoreEquiv (removeBlocksPure s n l).1 (removeBlocksPure t n l).1 ∧
    (removeBlocksPure s n l).2 = (removeBlocksPure t n l).2 := by
  induction l generalizing s t n with
  | nil => exact ⟨h, rfl⟩
  | cons x l ih =>
    simp only [removeBlocksPure, ← isFileAt_congr h]
    split
    · exact ih (h.erase _) n
    · exact ih h (n + 1)

/-- The loop is invariant under permutations of the list of blocks. -/
theorem removeBlocksPure_perm {l l' : List Str} (hp : l.Perm l') {s t : Store} (h : StoreEquiv s t) (n : Nat) :
    StoreEquiv (removeBlocksPure s n l).1 (removeBlocksPure t n l').1 ∧
    (removeBlocksPure s n l).2 = (removeBlocksPure t n l').2 := by
  induction hp generalizing s t n with
  | nil => exact ⟨h, rfl⟩
  | cons x _ ih =>
    simp only [removeBlocksPure, ← isFileAt_congr h]
    split
    · exact ih (h.erase _) n
    · exact ih h (n + 1)
  | swap x y l =>
    by_cases hxy : x = y
    · subst hxy
      exact removeBlocksPure_congr h n _
    · have h1 : (Key.block x) ≠ (Key.block y) := by intro e; injection e with e; exact hxy e
      have h2 : (Key.block y) ≠ (Key.block x) := fun e => h1 e.symm
      have b := removeBlocksPure_congr h n (x :: y :: l)
      have a : StoreEquiv (removeBlocksPure s n (y :: x :: l)).1 (removeBlocksPure s n (x :: y :: l)).1 ∧
          (removeBlocksPure s n (y :: x :: l)).2 = (removeBlocksPure s n (x :: y :: l)).2 := by
        simp only [removeBlocksPure]
        by_cases hx : isFileAt s (.block x) = true <;> by_cases hy : isFileAt s (.block y) = true <;>
          simp only [hx, hy, isFileAt_erase_ne s h1, isFileAt_erase_ne s h2, if_true, if_false,
            Bool.false_eq_true]
        · rw [Store.erase_comm]
          exact ⟨StoreEquiv.refl _, rfl⟩
        · exact ⟨StoreEquiv.refl _, trivial⟩
        · exact ⟨StoreEquiv.refl _, trivial⟩
        · exact ⟨StoreEquiv.refl _, trivial⟩
      exact ⟨a.1.trans b.1, a.2.trans b.2⟩
  | trans _ _ ih₁ ih₂ =>
    have a := ih₁ (StoreEquiv.refl s) n
    have b := ih₂ h n
    exact ⟨a.1.trans b.1, a.2.trans b.2⟩

theorem removeBlocksPure_nodup {s : Store} (h : Store.NoDupKeys s) (n : Nat) (l : List Str) :
    Store.NoDupKeys (removeBlocksPure s n l).1 := by
  induction l generalizing s n with
  | nil => exact h
  | cons x l ih =>
    simp only [removeBlocksPure]
    split
    · exact ih (h.erase _) n
    · exact ih h (n + 1)

/-- A world without faults, crash point, and not dead. -/
structure World.IsClean (w : World) : Prop where
  faults : w.faults = []
  crashAt : w.crashAt = none
  dead : w.dead = false

theorem World.clean_isClean (s : Store) : (World.clean s).IsClean := ⟨rfl, rfl, rfl⟩

/-- `remove_file` in a clean world. -/
theorem exec_removeFile_clean {w : World} (hc : w.IsClean) (k : Key) :
    (w.exec (.removeFile k)).1.IsClean ∧
    (w.exec (.removeFile k)).1.store = (if isFileAt w.store k then w.store.erase k else w.store) ∧
    ((w.exec (.removeFile k)).2 = .unit ↔ isFileAt w.store k = true) := by
  obtain ⟨hf, hcr, hd⟩ := hc
  obtain ⟨s, ecn, fa, cr, steps, tr, ev, dead⟩ := w
  simp only at hf hcr hd
  subst hf hcr hd
  cases hg : Store.get? s k with
  | none =>
    simp [World.exec, World.faultFor, World.crashesAt, Op.isMutating, applyOp, isFileAt, hg]
    exact ⟨rfl, rfl, rfl⟩
  | some v =>
    cases v <;>
      simp [World.exec, World.faultFor, World.crashesAt, Op.isMutating, applyOp, isFileAt, hg, FileVal.isDir] <;>
      exact ⟨rfl, rfl, rfl⟩

/-- The block-removal loop of `delete_bands` in a clean world computes `removeBlocksPure`. -/
theorem delBlocks_run_clean (hs : List Str) (n : Nat) {w : World} (hc : w.IsClean) :
    ((deleteBody.delBlocks hs n).run w).1 = .ok (removeBlocksPure w.store n hs).2 ∧
    ((deleteBody.delBlocks hs n).run w).2.store = (removeBlocksPure w.store n hs).1 ∧
    ((deleteBody.delBlocks hs n).run w).2.IsClean := by
  induction hs generalizing n w with
  | nil => exact ⟨rfl, rfl, hc⟩
  | cons h hs ih =>
    have e := exec_removeFile_clean hc (.block h)
    unfold deleteBody.delBlocks
    simp only [Prog.bind_def, Prog.perform, Prog.op_bind, Prog.ret_bind, Prog.run_op, removeBlocksPure]
    by_cases hf : isFileAt w.store (.block h) = true
    · have hr := e.2.2.2 hf
      rw [hr]
      simp only [hf, if_true] at e ⊢
      have := ih n e.1
      rw [e.2.1] at this
      exact this
    · have hr : (w.exec (.removeFile (.block h))).2 ≠ .unit := fun h' => hf (e.2.2.1 h')
      simp only [hf, if_false, Bool.false_eq_true] at e ⊢
      have := ih (n + 1) e.1
      rw [e.2.1] at this
      revert this
      cases hx : (w.exec (.removeFile (.block h))).2 <;> first | exact absurd hx hr | exact id

end Conserve
