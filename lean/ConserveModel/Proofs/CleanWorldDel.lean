import ConserveModel.Proofs.StoreLemmas
import ConserveModel.Proofs.ProgLemmas
/-
What the read-only building blocks return in a fault-free, crash-free world (`World.clean s`
and every world reached from it), as pure functions of the store.  Shared by the property files.

`w.Quiet`            no faults, no crash point, not dead (true of `World.clean s`, kept by every
                     operation executed in such a world).
`Runs p w out s' ev` running `p` in `w` gives outcome `out`, ends in a quiet world whose store is
                     `s'`, having emitted the events `ev` (newest first); `enforceCreateNew` is kept.
                     Only the trace and the step counter are not described.
-/
set_option linter.unusedSimpArgs false
namespace Conserve
open Prog

/-! ### Quiet worlds and `Runs` -/

structure World.Quiet (w : World) : Prop where
  noFaults : w.faults = []
  noCrash : w.crashAt = none
  alive : w.dead = false

theorem World.clean_quiet (s : Store) : (World.clean s).Quiet := ⟨rfl, rfl, rfl⟩

/-- `w'` is a later state of the quiet world `w`: store `s'`, additional events `ev`. -/
structure World.Next (w : World) (s' : Store) (ev : List Event) (w' : World) : Prop where
  store : w'.store = s'
  events : w'.events = ev ++ w.events
  quiet : w'.Quiet
  ecn : w'.enforceCreateNew = w.enforceCreateNew

theorem World.Next.rfl' {w : World} (hq : w.Quiet) : w.Next w.store [] w := ⟨rfl, rfl, hq, rfl⟩

theorem World.Next.trans {w w1 w2 : World} {s1 s2 : Store} {e1 e2 : List Event}
    (h1 : w.Next s1 e1 w1) (h2 : w1.Next s2 e2 w2) : w.Next s2 (e2 ++ e1) w2 :=
  ⟨h2.store, by rw [h2.events, h1.events, List.append_assoc], h2.quiet, h2.ecn.trans h1.ecn⟩

/-- Running `p` in `w`: outcome `out`, final store `s'`, events `ev` emitted, world still quiet. -/
def Runs {α : Type} (p : Prog α) (w : World) (out : Outcome α) (s' : Store) (ev : List Event) : Prop :=
  (p.run w).1 = out ∧ w.Next s' ev (p.run w).2

theorem Runs.run_eq {α : Type} {p : Prog α} {w : World} {out : Outcome α} {s' : Store}
    {ev : List Event} (h : Runs p w out s' ev) : p.run w = (out, (p.run w).2) := by
  rw [← h.1]

/-- What `Runs` says on `World.clean s`. -/
theorem Runs.clean {α : Type} {p : Prog α} {s s' : Store} {out : Outcome α} {ev : List Event}
    (h : Runs p (World.clean s) out s' ev) :
    (p.run (World.clean s)).1 = out ∧ (p.run (World.clean s)).2.store = s' ∧
      (p.run (World.clean s)).2.events = ev := by
  refine ⟨h.1, h.2.store, ?_⟩
  have := h.2.events
  simpa [World.clean] using this

theorem Runs.ret {α : Type} {w : World} (hq : w.Quiet) (a : α) : Runs (.ret a) w (.ok a) w.store [] :=
  ⟨rfl, World.Next.rfl' hq⟩

theorem Runs.pure {α : Type} {w : World} (hq : w.Quiet) (a : α) :
    Runs (Pure.pure a : Prog α) w (.ok a) w.store [] := Runs.ret hq a

theorem Runs.fail {α : Type} {w : World} (hq : w.Quiet) (e : Err) :
    Runs (.fail e : Prog α) w (.err e) w.store [] :=
  ⟨rfl, World.Next.rfl' hq⟩

theorem Runs.panic {α : Type} {w : World} (hq : w.Quiet) (site : String) :
    Runs (.panic site : Prog α) w (.panic site) w.store [] :=
  ⟨rfl, World.Next.rfl' hq⟩

theorem Runs.emit {α : Type} {w : World} {ev : Event} {k : Prog α} {out : Outcome α} {s' : Store}
    {evs : List Event} (hq : w.Quiet)
    (h : ∀ w1, w.Next w.store [ev] w1 → Runs k w1 out s' evs) : Runs (.emit ev k) w out s' (evs ++ [ev]) := by
  have h0 : w.Next w.store [ev] { w with events := ev :: w.events } :=
    ⟨rfl, rfl, ⟨hq.noFaults, hq.noCrash, hq.alive⟩, rfl⟩
  have h1 := h _ h0
  exact ⟨h1.1, h0.trans h1.2⟩

theorem Runs.bind_ok {α β : Type} {p : Prog α} {f : α → Prog β} {w : World} {a : α} {s1 s2 : Store}
    {e1 e2 : List Event} {out : Outcome β}
    (hp : Runs p w (.ok a) s1 e1)
    (hf : ∀ w1, w.Next s1 e1 w1 → Runs (f a) w1 out s2 e2) : Runs (p.bind f) w out s2 (e2 ++ e1) := by
  have h1 := hf _ hp.2
  unfold Runs
  rw [Prog.run_bind, hp.run_eq]
  exact ⟨h1.1, hp.2.trans h1.2⟩

/-- `bind_ok` when the first part emits nothing. -/
theorem Runs.bind_ok0 {α β : Type} {p : Prog α} {f : α → Prog β} {w : World} {a : α} {s1 s2 : Store}
    {e2 : List Event} {out : Outcome β}
    (hp : Runs p w (.ok a) s1 [])
    (hf : ∀ w1, w.Next s1 [] w1 → Runs (f a) w1 out s2 e2) : Runs (p.bind f) w out s2 e2 := by
  have := Runs.bind_ok hp hf
  simpa using this

theorem Runs.bind_err {α β : Type} {p : Prog α} {f : α → Prog β} {w : World} {e : Err} {s1 : Store}
    {e1 : List Event} (hp : Runs p w (.err e) s1 e1) : Runs (p.bind f) w (.err e) s1 e1 := by
  unfold Runs
  rw [Prog.run_bind, hp.run_eq]
  exact ⟨rfl, hp.2⟩

theorem Runs.bind_panic {α β : Type} {p : Prog α} {f : α → Prog β} {w : World} {site : String}
    {s1 : Store} {e1 : List Event} (hp : Runs p w (.panic site) s1 e1) :
    Runs (p.bind f) w (.panic site) s1 e1 := by
  unfold Runs
  rw [Prog.run_bind, hp.run_eq]
  exact ⟨rfl, hp.2⟩

theorem Runs.attempt_ok {α : Type} {p : Prog α} {w : World} {a : α} {s1 : Store} {e1 : List Event}
    (hp : Runs p w (.ok a) s1 e1) : Runs p.attempt w (.ok (.ok a)) s1 e1 := by
  unfold Runs
  rw [Prog.run_attempt, hp.run_eq]
  exact ⟨rfl, hp.2⟩

theorem Runs.attempt_err {α : Type} {p : Prog α} {w : World} {e : Err} {s1 : Store} {e1 : List Event}
    (hp : Runs p w (.err e) s1 e1) : Runs p.attempt w (.ok (.error e)) s1 e1 := by
  unfold Runs
  rw [Prog.run_attempt, hp.run_eq]
  exact ⟨rfl, hp.2⟩

theorem Runs.attempt_panic {α : Type} {p : Prog α} {w : World} {site : String} {s1 : Store}
    {e1 : List Event} (hp : Runs p w (.panic site) s1 e1) : Runs p.attempt w (.panic site) s1 e1 := by
  unfold Runs
  rw [Prog.run_attempt, hp.run_eq]
  exact ⟨rfl, hp.2⟩

theorem Prog.run_attemptAll {α : Type} (p : Prog α) (w : World) :
    p.attemptAll.run w = (.ok (p.run w).1, (p.run w).2) := by
  induction p generalizing w with
  | ret a => simp [Prog.attemptAll]
  | fail e => simp [Prog.attemptAll]
  | panic s => simp [Prog.attemptAll]
  | emit ev k ih => simp [Prog.attemptAll, ih]
  | op o k ih => simp [Prog.attemptAll, ih]

theorem Runs.attemptAll {α : Type} {p : Prog α} {w : World} {out : Outcome α} {s1 : Store}
    {e1 : List Event} (hp : Runs p w out s1 e1) : Runs p.attemptAll w (.ok out) s1 e1 := by
  unfold Runs
  rw [Prog.run_attemptAll, hp.1]
  exact ⟨rfl, hp.2⟩

/-- Change of the described store / events along an equality. -/
theorem Runs.congr {α : Type} {p : Prog α} {w : World} {out out' : Outcome α} {s1 s2 : Store}
    {e1 e2 : List Event} (h : Runs p w out s1 e1) (ho : out = out') (hs : s1 = s2) (he : e1 = e2) :
    Runs p w out' s2 e2 := by subst ho hs he; exact h

theorem Runs.congr_prog {α : Type} {p q : Prog α} {w : World} {out : Outcome α} {s1 : Store}
    {e1 : List Event} (h : Runs q w out s1 e1) (e : p = q) : Runs p w out s1 e1 := by subst e; exact h

/-! ### Single operations in a quiet world -/

/-- Response of `read k` on local storage. -/
def readResp (s : Store) (k : Key) : Resp :=
  match s.get? k with
  | none => .err .notFound
  | some .dir => .err .other
  | some v => .val v

/-- Response of `listDir k`. -/
def listResp (s : Store) (k : Key) : Resp :=
  match s.get? k with
  | none => .err .notFound
  | some .dir => .listing (s.children k)
  | some _ => .err .other

/-- Response of `metadata k`. -/
def statResp (s : Store) (k : Key) : Resp :=
  match s.get? k with
  | none => .err .notFound
  | some v => .stat (!v.isDir) (!v.isDir && !v.isEmptyFile)

theorem applyOp_read (ecn : Bool) (s : Store) (k : Key) : applyOp ecn s (.read k) = (s, readResp s k) := by
  simp only [applyOp, readResp]
  cases s.get? k with
  | none => rfl
  | some v => cases v <;> rfl

theorem applyOp_listDir (ecn : Bool) (s : Store) (k : Key) :
    applyOp ecn s (.listDir k) = (s, listResp s k) := by
  simp only [applyOp, listResp]
  cases s.get? k with
  | none => rfl
  | some v => cases v <;> rfl

theorem applyOp_metadata (ecn : Bool) (s : Store) (k : Key) :
    applyOp ecn s (.metadata k) = (s, statResp s k) := by
  simp only [applyOp, statResp]
  cases s.get? k with
  | none => rfl
  | some v => cases v <;> rfl

/-- The response of a non-mutating operation on local storage, as a function of the store. -/
def roResp (s : Store) : Op → Resp
  | .read k => readResp s k
  | .listDir k => listResp s k
  | .metadata k => statResp s k
  | _ => .unit

theorem applyOp_ro (ecn : Bool) (s : Store) (o : Op) (h : o.isMutating = false) :
    applyOp ecn s o = (s, roResp s o) := by
  cases o with
  | read k => exact applyOp_read ecn s k
  | listDir k => exact applyOp_listDir ecn s k
  | metadata k => exact applyOp_metadata ecn s k
  | write k v m => simp [Op.isMutating] at h
  | createDir k => simp [Op.isMutating] at h
  | removeFile k => simp [Op.isMutating] at h
  | removeDirAll k => simp [Op.isMutating] at h

/-- A non-mutating operation in a quiet world: the real response, the world only logs it. -/
theorem World.exec_quiet_ro {w : World} (hq : w.Quiet) {o : Op} (h : o.isMutating = false) :
    (w.exec o).2 = roResp w.store o ∧ w.Next w.store [] (w.exec o).1 := by
  unfold World.exec
  simp only [hq.alive, Bool.false_eq_true, if_false, World.faultFor, hq.noFaults, List.find?_nil,
    Option.map_none, h, Bool.not_false, if_true, applyOp_ro _ _ _ h]
  refine ⟨?_, ?_, ?_, ⟨?_, ?_, ?_⟩, ?_⟩ <;> simp [hq.noFaults, hq.noCrash, hq.alive]

theorem Runs.op_ro {α : Type} {w : World} {o : Op} {k : Resp → Prog α} {out : Outcome α} {s' : Store}
    {ev : List Event} (hq : w.Quiet) (h : o.isMutating = false)
    (hk : ∀ w1, w.Next w.store [] w1 → Runs (k (roResp w.store o)) w1 out s' ev) :
    Runs (.op o k) w out s' ev := by
  obtain ⟨hr, hn⟩ := World.exec_quiet_ro hq h
  have h1 := hk _ hn
  unfold Runs
  rw [Prog.run_op, hr]
  refine ⟨h1.1, ?_⟩
  have := hn.trans h1.2
  simpa using this

/-- A single-step mutating operation (everything but `write`) in a quiet world. -/
theorem World.exec_quiet_mut {w : World} (hq : w.Quiet) {o : Op} (h : o.isMutating = true)
    (hw : ∀ k v m, o ≠ .write k v m) :
    (w.exec o).2 = (applyOp w.enforceCreateNew w.store o).2 ∧
      w.Next (applyOp w.enforceCreateNew w.store o).1 [] (w.exec o).1 := by
  unfold World.exec
  simp only [hq.alive, Bool.false_eq_true, if_false, World.faultFor, hq.noFaults, List.find?_nil,
    Option.map_none, h, Bool.not_true, World.crashesAt, hq.noCrash]
  cases o with
  | write k v m => exact absurd rfl (hw k v m)
  | read k => simp [Op.isMutating] at h
  | listDir k => simp [Op.isMutating] at h
  | metadata k => simp [Op.isMutating] at h
  | createDir k => refine ⟨?_, ?_, ?_, ⟨?_, ?_, ?_⟩, ?_⟩ <;> simp [hq.noFaults, hq.noCrash, hq.alive]
  | removeFile k => refine ⟨?_, ?_, ?_, ⟨?_, ?_, ?_⟩, ?_⟩ <;> simp [hq.noFaults, hq.noCrash, hq.alive]
  | removeDirAll k => refine ⟨?_, ?_, ?_, ⟨?_, ?_, ?_⟩, ?_⟩ <;> simp [hq.noFaults, hq.noCrash, hq.alive]

theorem Runs.op_mut {α : Type} {w : World} {o : Op} {k : Resp → Prog α} {out : Outcome α} {s' : Store}
    {ev : List Event} (hq : w.Quiet) (h : o.isMutating = true) (hw : ∀ k v m, o ≠ .write k v m)
    (hk : ∀ w1, w.Next (applyOp w.enforceCreateNew w.store o).1 [] w1 →
      Runs (k (applyOp w.enforceCreateNew w.store o).2) w1 out s' ev) :
    Runs (.op o k) w out s' ev := by
  obtain ⟨hr, hn⟩ := World.exec_quiet_mut hq h hw
  have h1 := hk _ hn
  unfold Runs
  rw [Prog.run_op, hr]
  refine ⟨h1.1, ?_⟩
  have := hn.trans h1.2
  simpa using this

/-- A successful `write` in a quiet world (both micro-steps): the file holds `v`. -/
theorem World.exec_quiet_write_ok {w : World} (hq : w.Quiet) {k : Key} {v : FileVal} {m : WriteMode}
    (hp : w.store.parentOk k = true) (habs : w.store.get? k = none) :
    (w.exec (.write k v m)).2 = .unit ∧ w.Next (w.store.put k v) [] (w.exec (.write k v m)).1 := by
  unfold World.exec
  simp only [hq.alive, Bool.false_eq_true, if_false, World.faultFor, hq.noFaults, List.find?_nil,
    Option.map_none, Op.isMutating, Bool.not_true, World.crashesAt, hq.noCrash, applyOp, hp, habs]
  refine ⟨?_, ?_, ?_, ⟨?_, ?_, ?_⟩, ?_⟩ <;> simp [hq.noFaults, hq.noCrash, hq.alive, Store.put_put']

/-- A failing `write` in a quiet world: nothing changes. -/
theorem World.exec_quiet_write_err {w : World} (hq : w.Quiet) {k : Key} {v : FileVal} {m : WriteMode}
    {e : ErrKind} (he : (applyOp w.enforceCreateNew w.store (.write k .empty m)) = (w.store, .err e)) :
    (w.exec (.write k v m)).2 = .err e ∧ w.Next w.store [] (w.exec (.write k v m)).1 := by
  unfold World.exec
  simp only [hq.alive, Bool.false_eq_true, if_false, World.faultFor, hq.noFaults, List.find?_nil,
    Option.map_none, Op.isMutating, Bool.not_true, World.crashesAt, hq.noCrash, he]
  refine ⟨?_, ?_, ?_, ⟨?_, ?_, ?_⟩, ?_⟩ <;> simp [hq.noFaults, hq.noCrash, hq.alive]

theorem Runs.ret' {α : Type} {w w1 : World} {s : Store} (hn : w.Next s [] w1) (a : α) :
    Runs (.ret a) w1 (.ok a) s [] := by
  have := Runs.ret hn.quiet a
  rwa [hn.store] at this

theorem Runs.fail' {α : Type} {w w1 : World} {s : Store} (hn : w.Next s [] w1) (e : Err) :
    Runs (.fail e : Prog α) w1 (.err e) s [] := by
  have := Runs.fail (α := α) hn.quiet e
  rwa [hn.store] at this

theorem Runs.panic' {α : Type} {w w1 : World} {s : Store} (hn : w.Next s [] w1) (site : String) :
    Runs (.panic site : Prog α) w1 (.panic site) s [] := by
  have := Runs.panic (α := α) hn.quiet site
  rwa [hn.store] at this

theorem Runs.op_write_ok {α : Type} {w : World} {k : Key} {v : FileVal} {m : WriteMode}
    {kont : Resp → Prog α} {out : Outcome α} {s' : Store} {ev : List Event} (hq : w.Quiet)
    (hp : w.store.parentOk k = true) (habs : w.store.get? k = none)
    (hk : ∀ w1, w.Next (w.store.put k v) [] w1 → Runs (kont .unit) w1 out s' ev) :
    Runs (.op (.write k v m) kont) w out s' ev := by
  obtain ⟨hr, hn⟩ := World.exec_quiet_write_ok (v := v) (m := m) hq hp habs
  have h1 := hk _ hn
  unfold Runs
  rw [Prog.run_op, hr]
  refine ⟨h1.1, ?_⟩
  have := hn.trans h1.2
  simpa using this

theorem Runs.op_write_err {α : Type} {w : World} {k : Key} {v : FileVal} {m : WriteMode} {e : ErrKind}
    {kont : Resp → Prog α} {out : Outcome α} {s' : Store} {ev : List Event} (hq : w.Quiet)
    (he : (applyOp w.enforceCreateNew w.store (.write k .empty m)) = (w.store, .err e))
    (hk : ∀ w1, w.Next w.store [] w1 → Runs (kont (.err e)) w1 out s' ev) :
    Runs (.op (.write k v m) kont) w out s' ev := by
  obtain ⟨hr, hn⟩ := World.exec_quiet_write_err (v := v) hq he
  have h1 := hk _ hn
  unfold Runs
  rw [Prog.run_op, hr]
  refine ⟨h1.1, ?_⟩
  have := hn.trans h1.2
  simpa using this

/-! ### Read-only building blocks of Archive.lean / IndexRead.lean -/

theorem filterMap_congr' {α β : Type} {f g : α → Option β} {l : List α} (h : ∀ x ∈ l, f x = g x) :
    l.filterMap f = l.filterMap g := by
  induction l with
  | nil => rfl
  | cons x l ih =>
    simp only [List.filterMap_cons, h x (List.mem_cons_self ..)]
    rw [ih fun y hy => h y (List.mem_cons_of_mem _ hy)]

/-- `filterMap` over a directory listing, as a `filterMap` over the store. -/
theorem filterMap_children {β : Type} (s : Store) (k : Key) (f : DirEnt → Option β) :
    (s.children k).filterMap f =
      s.filterMap fun kv =>
        if kv.1.parent == some k then
          f { key := kv.1, isDir := kv.2.isDir, nonEmpty := !kv.2.isDir && !kv.2.isEmptyFile }
        else none := by
  induction s with
  | nil => rfl
  | cons kv s ih =>
    simp only [Store.children] at ih
    by_cases h : kv.1.parent == some k
    · simp only [Store.children, List.filter_cons, h, if_true, List.map_cons, List.filterMap_cons, ih]
    · have h' : (kv.1.parent == some k) = false := by simpa using h
      simp only [Store.children, List.filter_cons, h', Bool.false_eq_true, if_false, List.filterMap_cons, ih]

/-- Is there a file (anything but a directory) at `k`?  What `Transport::is_file` answers. -/
def fileAt (s : Store) (k : Key) : Bool :=
  match s.get? k with
  | some v => !v.isDir
  | none => false

theorem isComplete_eq_fileAt (s : Store) (b : Nat) : isComplete s b = fileAt s (.bandTail b) := rfl

/-- `isFile k` in a quiet world: never fails, answers `fileAt`. -/
theorem isFile_runs {w : World} (hq : w.Quiet) (k : Key) :
    Runs (isFile k) w (.ok (fileAt w.store k)) w.store [] := by
  simp only [isFile, perform, bind_def, op_bind, ret_bind]
  refine Runs.op_ro hq rfl fun w1 hn => ?_
  simp only [roResp, statResp, fileAt]
  cases hk : w.store.get? k with
  | none => exact Runs.ret' hn _
  | some v => exact Runs.ret' hn _

theorem bandIsClosed_runs {w : World} (hq : w.Quiet) (b : Nat) :
    Runs (bandIsClosed b) w (.ok (isComplete w.store b)) w.store [] := isFile_runs hq _

theorem bandExists_runs {w : World} (hq : w.Quiet) (b : Nat) :
    Runs (bandExists b) w (.ok (fileAt w.store (.bandHead b))) w.store [] := isFile_runs hq _

theorem gcIsLocked_runs {w : World} (hq : w.Quiet) :
    Runs gcIsLocked w (.ok (fileAt w.store .gcLock)) w.store [] := isFile_runs hq _

theorem bandIds_listing (s : Store) :
    (sortNat <| (s.children .root).filterMap fun e =>
      match e.key with
      | .bandDir b => if e.isDir then some b else none
      | _ => none) = bandIdsOf s := by
  rw [filterMap_children, bandIdsOf]
  congr 1
  apply filterMap_congr'
  intro kv _
  obtain ⟨k, v⟩ := kv
  cases k <;> cases v <;> simp [Key.parent, FileVal.isDir]

/-- `listBandIds` when the archive root is a directory. -/
theorem listBandIds_runs {w : World} (hq : w.Quiet) (hroot : w.store.get? .root = some .dir) :
    Runs listBandIds w (.ok (bandIdsOf w.store)) w.store [] := by
  simp only [listBandIds, perform, bind_def, op_bind, ret_bind]
  refine Runs.op_ro hq rfl fun w1 hn => ?_
  simp only [roResp, listResp, hroot, pure_def]
  exact (Runs.ret' hn _).congr (congrArg Outcome.ok (bandIds_listing _)) rfl rfl

/-! ### The second look `backup` takes at the gc lock -/

/-- What `gcLockListed` answers on a store: does the listing of the archive directory show a
FILE named GC_LOCK? -/
def lockListedOf (s : Store) : Bool :=
  (s.children .root).any fun e => e.key == .gcLock && !e.isDir

/-- No GC_LOCK in the store: the listing shows none. -/
theorem lockListedOf_of_get?_none {s : Store} (h : s.get? .gcLock = none) : lockListedOf s = false := by
  simp only [lockListedOf, Store.children, List.any_map, List.any_filter, List.any_eq_false]
  rintro ⟨k, v⟩ hm
  by_cases hk : k = .gcLock
  · subst hk
    induction s with
    | nil => cases hm
    | cons kv s ih =>
      obtain ⟨k', v'⟩ := kv
      by_cases hk' : Key.gcLock = k'
      · subst hk'; simp [Store.get?, List.lookup] at h
      · have hne : (Key.gcLock == k') = false := by simpa using hk'
        simp only [Store.get?, List.lookup, hne] at h
        rcases List.mem_cons.mp hm with he | hm
        · cases he; exact absurd rfl hk'
        · exact ih h hm
  · simp [hk]

/-- With unique keys, the listing shows a file GC_LOCK iff there is one (`fileAt`), i.e. both looks
at the lock agree on the same store. -/
theorem lockListedOf_eq_fileAt {s : Store} (hn : UniqueKeys s) : lockListedOf s = fileAt s .gcLock := by
  cases hg : s.get? .gcLock with
  | none => rw [lockListedOf_of_get?_none hg]; simp [fileAt, hg]
  | some v =>
    simp only [fileAt, hg]
    have hm := Store.mem_of_get?' hg
    cases hv : v.isDir with
    | false =>
      simp only [lockListedOf, Store.children, List.any_map, List.any_filter, Bool.not_false, List.any_eq_true]
      exact ⟨(.gcLock, v), hm, by simp [Key.parent, hv]⟩
    | true =>
      simp only [lockListedOf, Store.children, List.any_map, List.any_filter, Bool.not_true, List.any_eq_false]
      rintro ⟨k, v'⟩ hm'
      by_cases hk : k = .gcLock
      · subst hk
        have := Store.get?_of_mem_unique hn hm'
        rw [hg] at this
        cases this
        simp [hv]
      · simp [hk]

/-- `gcLockListed` when the archive root is a directory: never fails, answers `lockListedOf`,
changes nothing. -/
theorem gcLockListed_runs {w : World} (hq : w.Quiet) (hroot : w.store.get? .root = some .dir) :
    Runs gcLockListed w (.ok (lockListedOf w.store)) w.store [] := by
  simp only [gcLockListed, perform, bind_def, op_bind, ret_bind]
  refine Runs.op_ro hq rfl fun w1 hn => ?_
  simp only [roResp, listResp, hroot, pure_def]
  exact Runs.ret' hn _

/-- `gcLockListed` when there is no archive directory / it is not a directory. -/
theorem gcLockListed_runs_err {w : World} (hq : w.Quiet) (hroot : w.store.get? .root ≠ some .dir) :
    Runs gcLockListed w
      (.err (.transport (if w.store.get? .root = none then .notFound else .other))) w.store [] := by
  simp only [gcLockListed, perform, bind_def, op_bind, ret_bind]
  refine Runs.op_ro hq rfl fun w1 hn => ?_
  simp only [roResp, listResp]
  cases hk : w.store.get? .root with
  | none => exact Runs.fail' hn _
  | some v =>
    cases v <;> first | exact absurd hk hroot | exact Runs.fail' hn _

/-- `listBandIds` when there is no archive directory / it is not a directory. -/
theorem listBandIds_runs_err {w : World} (hq : w.Quiet) (hroot : w.store.get? .root ≠ some .dir) :
    Runs listBandIds w
      (.err (.transport (if w.store.get? .root = none then .notFound else .other))) w.store [] := by
  simp only [listBandIds, perform, bind_def, op_bind, ret_bind]
  refine Runs.op_ro hq rfl fun w1 hn => ?_
  simp only [roResp, listResp]
  cases hk : w.store.get? .root with
  | none => exact Runs.fail' hn _
  | some v =>
    cases v <;> first | exact absurd hk hroot | exact Runs.fail' hn _

theorem lastBandId_runs {w : World} (hq : w.Quiet) (hroot : w.store.get? .root = some .dir) :
    Runs lastBandId w (.ok (maxNat? (bandIdsOf w.store))) w.store [] := by
  simp only [lastBandId, bind_def]
  have := Runs.bind_ok (f := fun ids => (Pure.pure (maxNat? ids) : Prog _)) (listBandIds_runs hq hroot)
    (fun w1 hn => Runs.ret' hn _)
  simpa using this

/-- What `Band::open` decides from the head file. -/
def headOutcome (s : Store) (b : Nat) : Outcome Unit :=
  match s.get? (.bandHead b) with
  | none => .err (.bandHeadMissing b)
  | some .dir => .err (.transport .other)
  | some (.head .invalid _) => .err (.unsupportedBandVersion b)
  | some (.head .tooNew _) => .err (.unsupportedBandVersion b)
  | some (.head _ flags) => if flags.isEmpty then .ok () else .err (.unsupportedBandFlags b)
  | some _ => .err .json

/-- `bandOpen b` in a quiet world. -/
theorem bandOpen_runs {w : World} (hq : w.Quiet) (b : Nat) :
    Runs (bandOpen b) w (headOutcome w.store b) w.store [] := by
  simp only [bandOpen, perform, bind_def, op_bind, ret_bind]
  refine Runs.op_ro hq rfl fun w1 hn => ?_
  simp only [roResp, readResp, headOutcome]
  cases hk : w.store.get? (.bandHead b) with
  | none => exact Runs.fail' hn _
  | some v =>
    cases v with
    | head ver flags =>
      cases ver with
      | invalid => exact Runs.fail' hn _
      | tooNew => exact Runs.fail' hn _
      | ok =>
        simp only
        split
        · exact Runs.ret' hn _
        · exact Runs.fail' hn _
      | absent =>
        simp only
        split
        · exact Runs.ret' hn _
        · exact Runs.fail' hn _
    | _ => exact Runs.fail' hn _

/-- A head the current program accepts. -/
def headReadable (s : Store) (b : Nat) : Bool :=
  s.get? (.bandHead b) == some (.head .ok []) || s.get? (.bandHead b) == some (.head .absent [])

theorem headOutcome_of_readable {s : Store} {b : Nat} (h : headReadable s b = true) :
    headOutcome s b = .ok () := by
  simp only [headReadable, Bool.or_eq_true, beq_iff_eq] at h
  rcases h with h | h <;> simp [headOutcome, h]

/-- What `read_hunk` returns: a hunk that decodes must also pass `IndexEntry::check` on every
entry; a zero-length file (leftover of an interrupted write) reads as no entries. -/
def readHunkOutcome (s : Store) (b n : Nat) : Outcome (Option (List IndexEntry)) :=
  match s.get? (.hunk b n) with
  | none => .ok none
  | some .dir => .err (.transport .other)
  | some (.hunk es) => if es.all entryUsable then .ok (some es) else .err .invalidMetadata
  | some .empty => .ok (some [])
  | some _ => .err .json

theorem readHunk_runs {w : World} (hq : w.Quiet) (b n : Nat) :
    Runs (readHunk b n) w (readHunkOutcome w.store b n) w.store [] := by
  simp only [readHunk, perform, bind_def, op_bind, ret_bind, pure_def]
  refine Runs.op_ro hq rfl fun w1 hn => ?_
  simp only [roResp, readResp, readHunkOutcome]
  cases hk : w.store.get? (.hunk b n) with
  | none => exact Runs.ret' hn _
  | some v =>
    cases v with
    | hunk es =>
      simp only
      split
      · exact Runs.ret' hn _
      · exact Runs.fail' hn _
    | empty => exact Runs.ret' hn _
    | _ => exact Runs.fail' hn _

/-- Hunk file `n` of band `b` can be read by `read_hunk`: it decodes and every entry passes
`IndexEntry::check`, or it is zero-length (then it reads as no entries). -/
def hunkUsable (s : Store) (b n : Nat) : Bool :=
  match s.get? (.hunk b n) with
  | some (.hunk es) => es.all entryUsable
  | some .empty => true
  | _ => false

/-- A readable hunk reads as its decoded entries (`[]` for a zero-length file). -/
theorem readHunkOutcome_of_usable {s : Store} {b n : Nat} (h : hunkUsable s b n = true) :
    readHunkOutcome s b n = .ok (some ((hunkAt s b n).getD [])) := by
  simp only [hunkUsable] at h
  simp only [readHunkOutcome, hunkAt]
  cases hk : s.get? (.hunk b n) with
  | none => simp [hk] at h
  | some v => cases v <;> simp_all

theorem hunkUsable_of_hunkAt {s : Store} {b n : Nat} {es : List IndexEntry}
    (h : hunkAt s b n = some es) (hu : es.all entryUsable = true) : hunkUsable s b n = true := by
  simp only [hunkAt] at h
  simp only [hunkUsable]
  split at h
  · rename_i es' hk; simp at h; subst h; simp [hk, hu]
  · simp at h

/-! ### `hunksAvailable` -/

/-- Subdirectories (numbers) of the index of band `b`, ascending. -/
def hunkDirsOf (s : Store) (b : Nat) : List Nat :=
  sortNat <| s.filterMap fun kv =>
    match kv.1 with
    | .hunkDir b' d => if b' = b && kv.2.isDir then some d else none
    | _ => none

/-- Hunk files of band `b` inside index subdirectory `d`, ascending. -/
def hunksInDir (s : Store) (b d : Nat) : List Nat :=
  sortNat <| s.filterMap fun kv =>
    match kv.1 with
    | .hunk b' n => if b' = b && n / hunksPerSubdir = d && !kv.2.isDir then some n else none
    | _ => none

/-- What `hunks_available` returns: directory by directory. -/
def hunksListed (s : Store) (b : Nat) : List Nat := (hunkDirsOf s b).flatMap (hunksInDir s b)

theorem hunkDirs_listing (s : Store) (b : Nat) :
    (sortNat <| (s.children (.indexDir b)).filterMap fun e =>
      match e.key with
      | .hunkDir _ d => if e.isDir then some d else none
      | _ => none) = hunkDirsOf s b := by
  rw [filterMap_children, hunkDirsOf]
  congr 1
  apply filterMap_congr'
  intro kv _
  obtain ⟨k, v⟩ := kv
  cases k with
  | hunkDir b' d => by_cases hb : b' = b <;> simp [Key.parent, hb]
  | _ => simp [Key.parent]

theorem hunksInDir_listing (s : Store) (b d : Nat) :
    (sortNat <| (s.children (.hunkDir b d)).filterMap fun e =>
      match e.key with
      | .hunk _ n => if !e.isDir then some n else none
      | _ => none) = hunksInDir s b d := by
  rw [filterMap_children, hunksInDir]
  congr 1
  apply filterMap_congr'
  intro kv _
  obtain ⟨k, v⟩ := kv
  cases k with
  | hunk b' n => by_cases hb : b' = b <;> by_cases hd : n / hunksPerSubdir = d <;> simp [Key.parent, hb, hd]
  | _ => simp [Key.parent]

theorem hunksAvailable_go_runs (b : Nat) (ds : List Nat) :
    ∀ {w : World} (acc : List Nat), w.Quiet →
      (∀ d ∈ ds, w.store.get? (.hunkDir b d) = some .dir) →
      Runs (hunksAvailable.go b ds acc) w (.ok (acc ++ ds.flatMap (hunksInDir w.store b))) w.store [] := by
  induction ds with
  | nil =>
    intro w acc hq _
    simp only [hunksAvailable.go, List.flatMap_nil, List.append_nil]
    exact Runs.ret hq _
  | cons d ds ih =>
    intro w acc hq hd
    simp only [hunksAvailable.go, perform, bind_def, op_bind, ret_bind]
    refine Runs.op_ro hq rfl fun w1 hn => ?_
    simp only [roResp, listResp, hd d (List.mem_cons_self ..)]
    have h1 := ih (w := w1) (acc ++ hunksInDir w.store b d) hn.quiet
      (by intro d' hd'; rw [hn.store]; exact hd d' (List.mem_cons_of_mem _ hd'))
    rw [hn.store] at h1
    refine Runs.congr_prog (h1.congr ?_ rfl rfl)
      (congrArg (fun x => hunksAvailable.go b ds (acc ++ x)) (hunksInDir_listing w.store b d))
    simp [List.flatMap_cons, List.append_assoc]

/-- `hunksAvailable b` when the index directory exists and the listed subdirectories are
directories (automatic when keys are not duplicated). -/
theorem hunksAvailable_runs {w : World} (hq : w.Quiet) (b : Nat)
    (hi : w.store.get? (.indexDir b) = some .dir)
    (hd : ∀ d ∈ hunkDirsOf w.store b, w.store.get? (.hunkDir b d) = some .dir) :
    Runs (hunksAvailable b) w (.ok (hunksListed w.store b)) w.store [] := by
  simp only [hunksAvailable, perform, bind_def, op_bind, ret_bind]
  refine Runs.op_ro hq rfl fun w1 hn => ?_
  simp only [roResp, listResp, hi]
  have h1 := hunksAvailable_go_runs b (hunkDirsOf w.store b) (w := w1) [] hn.quiet
    (by intro d hd'; rw [hn.store]; exact hd d hd')
  rw [hn.store] at h1
  refine Runs.congr_prog (h1.congr ?_ rfl rfl)
    (congrArg (fun x => hunksAvailable.go b x []) (hunkDirs_listing w.store b))
  simp [hunksListed]

/-- `hunksAvailable b` when the index directory is missing or not a directory. -/
theorem hunksAvailable_runs_err {w : World} (hq : w.Quiet) (b : Nat)
    (hi : w.store.get? (.indexDir b) ≠ some .dir) :
    Runs (hunksAvailable b) w
      (.err (.transport (if w.store.get? (.indexDir b) = none then .notFound else .other))) w.store [] := by
  simp only [hunksAvailable, perform, bind_def, op_bind, ret_bind]
  refine Runs.op_ro hq rfl fun w1 hn => ?_
  simp only [roResp, listResp]
  cases hk : w.store.get? (.indexDir b) with
  | none => exact Runs.fail' hn _
  | some v =>
    cases v <;> first | exact absurd hk hi | exact Runs.fail' hn _

theorem mem_sortNat {n : Nat} {l : List Nat} : n ∈ sortNat l ↔ n ∈ l := List.mem_mergeSort

theorem mem_hunkDirsOf {s : Store} {b d : Nat} : d ∈ hunkDirsOf s b ↔ (Key.hunkDir b d, FileVal.dir) ∈ s := by
  simp only [hunkDirsOf, mem_sortNat, List.mem_filterMap]
  constructor
  · rintro ⟨⟨k, v⟩, hm, hf⟩
    cases k with
    | hunkDir b' d' =>
      by_cases hb : b' = b
      · subst hb
        cases v <;> simp [FileVal.isDir] at hf
        subst hf; exact hm
      · simp [hb] at hf
    | _ => simp at hf
  · intro hm
    exact ⟨_, hm, by simp [FileVal.isDir]⟩

theorem mem_hunksInDir {s : Store} {b d n : Nat} :
    n ∈ hunksInDir s b d ↔ n / hunksPerSubdir = d ∧ ∃ v, (Key.hunk b n, v) ∈ s ∧ v.isDir = false := by
  simp only [hunksInDir, mem_sortNat, List.mem_filterMap]
  constructor
  · rintro ⟨⟨k, v⟩, hm, hf⟩
    cases k with
    | hunk b' n' =>
      by_cases hb : b' = b
      · subst hb
        by_cases hd : n' / hunksPerSubdir = d
        · simp [hd] at hf
          obtain ⟨hv, rfl⟩ := hf
          exact ⟨hd, v, hm, hv⟩
        · simp [hd] at hf
      · simp [hb] at hf
    | _ => simp at hf
  · rintro ⟨hd, v, hm, hv⟩
    exact ⟨_, hm, by simp [hd, hv]⟩

theorem mem_hunkNumsOf {s : Store} {b n : Nat} :
    n ∈ hunkNumsOf s b ↔ ∃ v, (Key.hunk b n, v) ∈ s ∧ v.isDir = false := by
  simp only [hunkNumsOf, mem_sortNat, List.mem_filterMap]
  constructor
  · rintro ⟨⟨k, v⟩, hm, hf⟩
    cases k with
    | hunk b' n' =>
      by_cases hb : b' = b
      · subst hb
        simp at hf
        obtain ⟨hv, rfl⟩ := hf
        exact ⟨v, hm, hv⟩
      · simp [hb] at hf
    | _ => simp at hf
  · rintro ⟨v, hm, hv⟩
    exact ⟨_, hm, by simp [hv]⟩

/-- Every hunk file's subdirectory is a directory of the store (part of `DirsOk`). -/
def HunkDirsOk (s : Store) (b : Nat) : Prop :=
  ∀ n v, (Key.hunk b n, v) ∈ s → (Key.hunkDir b (n / hunksPerSubdir), FileVal.dir) ∈ s

/-- The listing finds exactly the hunk files (as a set), when every hunk file sits in a
subdirectory that is a directory. -/
theorem mem_hunksListed {s : Store} {b n : Nat} (hd : HunkDirsOk s b) :
    n ∈ hunksListed s b ↔ n ∈ hunkNumsOf s b := by
  simp only [hunksListed, List.mem_flatMap, mem_hunkDirsOf, mem_hunksInDir, mem_hunkNumsOf]
  constructor
  · rintro ⟨d, _, _, h⟩; exact h
  · rintro ⟨v, hm, hv⟩
    exact ⟨_, hd n v hm, rfl, v, hm, hv⟩

/-! ### `listBlocks` -/

/-- Three-character subdirectories of `d/`, in name order. -/
def blockSubdirsOf (s : Store) : List Str :=
  (s.filterMap fun kv =>
    match kv.1 with
    | .blockDir p => if kv.2.isDir && p.length == subdirNameChars then some p else none
    | _ => none).mergeSort (fun a b => compare a b != .gt)

/-- Names of the non-empty block files in subdirectory `p`, in store order. -/
def blocksInDir (s : Store) (p : Str) : List Str :=
  s.filterMap fun kv =>
    match kv.1 with
    | .block h => if h.take subdirNameChars = p && !kv.2.isDir && !kv.2.isEmptyFile then some h else none
    | _ => none

def blockNamesFrom (s : Store) : List Str → List Str → List Str
  | [], acc => acc
  | p :: ps, acc => blockNamesFrom s ps (acc ++ (blocksInDir s p).filter fun h => !acc.contains h)

/-- What `list_blocks` returns: subdirectory by subdirectory, first occurrences only. -/
def blockNamesOf (s : Store) : List Str := blockNamesFrom s (blockSubdirsOf s) []

theorem blockSubdirs_listing (s : Store) :
    ((s.children .blockRoot).filterMap fun e =>
      match e.key with
      | .blockDir p => if e.isDir && p.length == subdirNameChars then some p else none
      | _ => none).mergeSort (fun a b => compare a b != .gt) = blockSubdirsOf s := by
  rw [filterMap_children, blockSubdirsOf]
  congr 1
  apply filterMap_congr'
  intro kv _
  obtain ⟨k, v⟩ := kv
  cases k <;> simp [Key.parent]

theorem blocksInDir_listing (s : Store) (p : Str) :
    ((s.children (.blockDir p)).filterMap fun e =>
      match e.key with
      | .block h => if !e.isDir && e.nonEmpty then some h else none
      | _ => none) = blocksInDir s p := by
  rw [filterMap_children, blocksInDir]
  apply filterMap_congr'
  intro kv _
  obtain ⟨k, v⟩ := kv
  cases k with
  | block h =>
    by_cases hp : h.take subdirNameChars = p <;> simp [Key.parent, hp]
  | _ => simp [Key.parent]

theorem listBlocks_go_runs (ps : List Str) :
    ∀ {w : World} (acc : List Str), w.Quiet →
      (∀ p ∈ ps, w.store.get? (.blockDir p) = some .dir) →
      Runs (listBlocks.go ps acc) w (.ok (blockNamesFrom w.store ps acc)) w.store [] := by
  induction ps with
  | nil =>
    intro w acc hq _
    simp only [listBlocks.go, blockNamesFrom]
    exact Runs.ret hq _
  | cons p ps ih =>
    intro w acc hq hd
    simp only [listBlocks.go, perform, bind_def, op_bind, ret_bind]
    refine Runs.op_ro hq rfl fun w1 hn => ?_
    simp only [roResp, listResp, hd p (List.mem_cons_self ..)]
    have h1 := ih (w := w1) (acc ++ (blocksInDir w.store p).filter fun h => !acc.contains h) hn.quiet
      (by intro d' hd'; rw [hn.store]; exact hd d' (List.mem_cons_of_mem _ hd'))
    rw [hn.store] at h1
    exact Runs.congr_prog (h1.congr (by simp [blockNamesFrom]) rfl rfl)
      (congrArg (fun x => listBlocks.go ps (acc ++ x.filter fun h => !acc.contains h))
        (blocksInDir_listing w.store p))

/-- `listBlocks` when `d/` is a directory and the listed subdirectories are directories
(automatic when keys are not duplicated). -/
theorem listBlocks_runs {w : World} (hq : w.Quiet) (hr : w.store.get? .blockRoot = some .dir)
    (hd : ∀ p ∈ blockSubdirsOf w.store, w.store.get? (.blockDir p) = some .dir) :
    Runs listBlocks w (.ok (blockNamesOf w.store)) w.store [] := by
  simp only [listBlocks, perform, bind_def, op_bind, ret_bind]
  refine Runs.op_ro hq rfl fun w1 hn => ?_
  simp only [roResp, listResp, hr]
  have h1 := listBlocks_go_runs (blockSubdirsOf w.store) (w := w1) [] hn.quiet
    (by intro d hd'; rw [hn.store]; exact hd d hd')
  rw [hn.store] at h1
  exact Runs.congr_prog h1 (congrArg (fun x => listBlocks.go x []) (blockSubdirs_listing w.store))

theorem mem_blockSubdirsOf {s : Store} {p : Str} :
    p ∈ blockSubdirsOf s ↔ (Key.blockDir p, FileVal.dir) ∈ s ∧ p.length = subdirNameChars := by
  simp only [blockSubdirsOf, List.mem_mergeSort, List.mem_filterMap]
  constructor
  · rintro ⟨⟨k, v⟩, hm, hf⟩
    cases k with
    | blockDir p' =>
      cases v <;> simp [FileVal.isDir] at hf
      obtain ⟨hl, rfl⟩ := hf
      exact ⟨hm, hl⟩
    | _ => simp at hf
  · rintro ⟨hm, hl⟩
    exact ⟨_, hm, by simp [FileVal.isDir, hl]⟩

theorem mem_blocksInDir {s : Store} {p h : Str} :
    h ∈ blocksInDir s p ↔
      h.take subdirNameChars = p ∧ ∃ v, (Key.block h, v) ∈ s ∧ v.isDir = false ∧ v.isEmptyFile = false := by
  simp only [blocksInDir, List.mem_filterMap]
  constructor
  · rintro ⟨⟨k, v⟩, hm, hf⟩
    cases k with
    | block h' =>
      by_cases hp : h'.take subdirNameChars = p
      · simp [hp] at hf
        obtain ⟨⟨h1, h2⟩, rfl⟩ := hf
        exact ⟨hp, v, hm, h1, h2⟩
      · simp [hp] at hf
    | _ => simp at hf
  · rintro ⟨hp, v, hm, h1, h2⟩
    exact ⟨_, hm, by simp [hp, h1, h2]⟩

theorem mem_blockNamesFrom {s : Store} {h : Str} (ps : List Str) :
    ∀ acc, h ∈ blockNamesFrom s ps acc ↔ h ∈ acc ∨ ∃ p ∈ ps, h ∈ blocksInDir s p := by
  induction ps with
  | nil => intro acc; simp [blockNamesFrom]
  | cons p ps ih =>
    intro acc
    simp only [blockNamesFrom, ih, List.mem_append, List.mem_filter, Bool.not_eq_true',
      List.mem_cons, exists_eq_or_imp]
    constructor
    · rintro ((h1 | ⟨h1, _⟩) | h1)
      · exact Or.inl h1
      · exact Or.inr (Or.inl h1)
      · exact Or.inr (Or.inr h1)
    · rintro (h1 | h1 | h1)
      · exact Or.inl (Or.inl h1)
      · by_cases hc : h ∈ acc
        · exact Or.inl (Or.inl hc)
        · refine Or.inl (Or.inr ⟨h1, ?_⟩)
          simpa using hc
      · exact Or.inr h1

theorem nodup_blockNamesFrom {s : Store} (hb : ∀ p, (blocksInDir s p).Nodup) (ps : List Str) :
    ∀ acc, acc.Nodup → (blockNamesFrom s ps acc).Nodup := by
  induction ps with
  | nil => intro acc h; simpa [blockNamesFrom] using h
  | cons p ps ih =>
    intro acc h
    simp only [blockNamesFrom]
    apply ih
    rw [List.nodup_append]
    refine ⟨h, List.Nodup.sublist List.filter_sublist (hb p), ?_⟩
    intro a ha b hb' hab
    subst hab
    simp only [List.mem_filter, Bool.not_eq_true'] at hb'
    have := hb'.2
    simp [ha] at this

/-- A non-empty block file named `h` is present (what `list_blocks` can see). -/
def blockListed (s : Store) (h : Str) : Prop :=
  ∃ v, s.get? (.block h) = some v ∧ v.isDir = false ∧ v.isEmptyFile = false

/-! ### Well-formed directory structure -/

/-- Every stored key's parent is a directory. -/
def DirsOk (s : Store) : Prop := ∀ kv ∈ s, s.parentOk kv.1 = true

instance (s : Store) : Decidable (DirsOk s) := by unfold DirsOk; infer_instance

theorem DirsOk.parent_of_get? {s : Store} (hd : DirsOk s) {k : Key} {v : FileVal} (h : s.get? k = some v) :
    s.parentOk k = true := hd _ (Store.mem_of_get?' h)

theorem DirsOk.hunkDirsOk {s : Store} (hd : DirsOk s) (b : Nat) : HunkDirsOk s b := by
  intro n v hm
  have := hd _ hm
  simp only [Store.parentOk, Key.parent, beq_iff_eq] at this
  exact Store.mem_of_get?' this

theorem hunkDirs_are_dirs {s : Store} (hn : UniqueKeys s) (b : Nat) :
    ∀ d ∈ hunkDirsOf s b, s.get? (.hunkDir b d) = some .dir :=
  fun _ hd => Store.get?_of_mem_unique hn (mem_hunkDirsOf.1 hd)

theorem blockSubdirs_are_dirs {s : Store} (hn : UniqueKeys s) :
    ∀ p ∈ blockSubdirsOf s, s.get? (.blockDir p) = some .dir :=
  fun _ hp => Store.get?_of_mem_unique hn (mem_blockSubdirsOf.1 hp).1

theorem nodup_blocksInDir {s : Store} (hn : UniqueKeys s) (p : Str) : (blocksInDir s p).Nodup := by
  apply hn.nodup_filterMap
  rintro ⟨k, v⟩ ⟨k', v'⟩ h hf hf'
  cases k with
  | block h1 =>
    cases k' with
    | block h2 =>
      by_cases hp : h1.take subdirNameChars = p <;> by_cases hp' : h2.take subdirNameChars = p <;>
        simp [hp, hp'] at hf hf'
      rw [hf.2, hf'.2]
    | _ => simp at hf'
  | _ => simp at hf

theorem nodup_blockNamesOf {s : Store} (hn : UniqueKeys s) : (blockNamesOf s).Nodup :=
  nodup_blockNamesFrom (nodup_blocksInDir hn) _ _ List.nodup_nil

/-- In a store with unique keys and directories in place, `list_blocks` sees exactly the non-empty
block files whose name has at least three characters. -/
theorem mem_blockNamesOf {s : Store} (hn : UniqueKeys s) (hd : DirsOk s) {h : Str} :
    h ∈ blockNamesOf s ↔ blockListed s h ∧ subdirNameChars ≤ h.length := by
  simp only [blockNamesOf, mem_blockNamesFrom, List.not_mem_nil, false_or, mem_blocksInDir,
    mem_blockSubdirsOf, blockListed]
  constructor
  · rintro ⟨p, ⟨_, hl⟩, hp, v, hm, h1, h2⟩
    refine ⟨⟨v, Store.get?_of_mem_unique hn hm, h1, h2⟩, ?_⟩
    subst hp
    simp only [List.length_take] at hl
    omega
  · rintro ⟨⟨v, hg, h1, h2⟩, hl⟩
    have hm := Store.mem_of_get?' hg
    have hp := hd _ hm
    simp only [Store.parentOk, Key.parent, beq_iff_eq] at hp
    refine ⟨_, ⟨Store.mem_of_get?' hp, ?_⟩, rfl, v, hm, h1, h2⟩
    simp only [List.length_take]
    omega

theorem hunkNumsOf_of_get? {s : Store} {b n : Nat} {v : FileVal} (h : s.get? (.hunk b n) = some v)
    (hv : v.isDir = false) : n ∈ hunkNumsOf s b := mem_hunkNumsOf.2 ⟨v, Store.mem_of_get?' h, hv⟩

theorem hunkNumsOf_of_hunkAt {s : Store} {b n : Nat} {es : List IndexEntry} (h : hunkAt s b n = some es) :
    n ∈ hunkNumsOf s b := by
  simp only [hunkAt] at h
  split at h
  · rename_i es' hk; exact hunkNumsOf_of_get? hk rfl
  · simp at h

theorem mem_bandIdsOf' {s : Store} {b : Nat} : b ∈ bandIdsOf s ↔ (Key.bandDir b, FileVal.dir) ∈ s := by
  simp only [bandIdsOf, mem_sortNat, List.mem_filterMap]
  constructor
  · rintro ⟨⟨k, v⟩, hm, hf⟩
    cases k <;> cases v <;> simp at hf
    subst hf; exact hm
  · intro hm; exact ⟨_, hm, rfl⟩

/-! ### `hunksAvailable` returns exactly `hunkNumsOf` -/

theorem sortNat_sorted (l : List Nat) : (sortNat l).Pairwise (· ≤ ·) := by
  have := List.pairwise_mergeSort (le := fun a b : Nat => decide (a ≤ b))
    (by intro a b c; simp; omega) (by intro a b; simp; omega) l
  exact this.imp (by intro a b h; simpa using h)

theorem sortNat_nodup {l : List Nat} (h : l.Nodup) : (sortNat l).Nodup :=
  (List.mergeSort_perm _ _).nodup_iff.2 h

theorem sortNat_sorted_lt {l : List Nat} (h : l.Nodup) : (sortNat l).Pairwise (· < ·) :=
  ((sortNat_sorted l).and (sortNat_nodup h)).imp (by intro a b hab; omega)

/-- Strictly increasing lists with the same members are equal. -/
theorem eq_of_sorted_lt {l₁ l₂ : List Nat} (h1 : l₁.Pairwise (· < ·)) (h2 : l₂.Pairwise (· < ·))
    (hm : ∀ a, a ∈ l₁ ↔ a ∈ l₂) : l₁ = l₂ := by
  have n1 : l₁.Nodup := h1.imp (by intro a b h; omega)
  have n2 : l₂.Nodup := h2.imp (by intro a b h; omega)
  exact List.Perm.eq_of_pairwise (le := (· < ·)) (by intro a b _ _ hab hba; omega) h1 h2
    ((List.perm_ext_iff_of_nodup n1 n2).2 hm)

theorem hunkNumsOf_sorted_lt {s : Store} (hn : UniqueKeys s) (b : Nat) : (hunkNumsOf s b).Pairwise (· < ·) := by
  apply sortNat_sorted_lt
  apply hn.nodup_filterMap
  rintro ⟨k, v⟩ ⟨k', v'⟩ n hf hf'
  cases k with
  | hunk b1 n1 =>
    cases k' with
    | hunk b2 n2 =>
      by_cases h1 : b1 = b <;> by_cases h2 : b2 = b <;> simp [h1, h2] at hf hf'
      rw [hf.2, hf'.2, h1, h2]
    | _ => simp at hf'
  | _ => simp at hf

theorem hunkDirsOf_sorted_lt {s : Store} (hn : UniqueKeys s) (b : Nat) : (hunkDirsOf s b).Pairwise (· < ·) := by
  apply sortNat_sorted_lt
  apply hn.nodup_filterMap
  rintro ⟨k, v⟩ ⟨k', v'⟩ n hf hf'
  cases k with
  | hunkDir b1 d1 =>
    cases k' with
    | hunkDir b2 d2 =>
      by_cases h1 : b1 = b <;> by_cases h2 : b2 = b <;> simp [h1, h2] at hf hf'
      rw [hf.2, hf'.2, h1, h2]
    | _ => simp at hf'
  | _ => simp at hf

theorem hunksInDir_sorted_lt {s : Store} (hn : UniqueKeys s) (b d : Nat) :
    (hunksInDir s b d).Pairwise (· < ·) := by
  apply sortNat_sorted_lt
  apply hn.nodup_filterMap
  rintro ⟨k, v⟩ ⟨k', v'⟩ n hf hf'
  cases k with
  | hunk b1 n1 =>
    cases k' with
    | hunk b2 n2 =>
      by_cases h1 : b1 = b <;> by_cases h2 : b2 = b <;> simp [h1, h2] at hf hf'
      rw [hf.2, hf'.2, h1, h2]
    | _ => simp at hf'
  | _ => simp at hf

theorem hunksListed_sorted_lt {s : Store} (hn : UniqueKeys s) (b : Nat) :
    (hunksListed s b).Pairwise (· < ·) := by
  rw [hunksListed, List.pairwise_flatMap]
  refine ⟨fun d _ => hunksInDir_sorted_lt hn b d, ?_⟩
  refine (hunkDirsOf_sorted_lt hn b).imp ?_
  intro d1 d2 hd x hx y hy
  have h1 := (mem_hunksInDir.1 hx).1
  have h2 := (mem_hunksInDir.1 hy).1
  simp only [hunksPerSubdir] at h1 h2
  omega

/-- With unique keys and every hunk file inside a real subdirectory, what `hunks_available` lists
is exactly `hunkNumsOf s b` (the same list). -/
theorem hunksListed_eq_hunkNumsOf {s : Store} (hn : UniqueKeys s) {b : Nat} (hd : HunkDirsOk s b) :
    hunksListed s b = hunkNumsOf s b :=
  eq_of_sorted_lt (hunksListed_sorted_lt hn b) (hunkNumsOf_sorted_lt hn b) fun _ => mem_hunksListed hd

/-- `hunksAvailable b` = `hunkNumsOf s b` in a well-formed store. -/
theorem hunksAvailable_runs_nums {w : World} (hq : w.Quiet) (b : Nat) (hn : UniqueKeys w.store)
    (hd : DirsOk w.store) (hi : w.store.get? (.indexDir b) = some .dir) :
    Runs (hunksAvailable b) w (.ok (hunkNumsOf w.store b)) w.store [] := by
  have := hunksAvailable_runs hq b hi (hunkDirs_are_dirs hn b)
  rwa [hunksListed_eq_hunkNumsOf hn (hd.hunkDirsOk b)] at this

/-- `UniqueKeys` (pairwise distinct keys) is the same as "the list of keys has no duplicates". -/
theorem uniqueKeys_iff_nodup (s : Store) : UniqueKeys s ↔ (s.map Prod.fst).Nodup := by
  rw [UniqueKeys, List.Nodup, List.pairwise_map]

/-! ### Two stores that answer alike along a run -/

/-- Along the fault-free run of `p` on store `s`, every operation is read-only and store `s'`
gives the same answer to it. -/
def ReadsAgree {α : Type} (s s' : Store) : Prog α → Prop
  | .ret _ => True
  | .fail _ => True
  | .panic _ => True
  | .emit _ k => ReadsAgree s s' k
  | .op o k => o.isMutating = false ∧ roResp s' o = roResp s o ∧ ReadsAgree s s' (k (roResp s o))

/-- If `s'` answers like `s` along the run of `p` on `s`, then `p` has the same outcome and emits the
same events on both (in any two quiet worlds on these stores). -/
theorem run_agree {α : Type} {s s' : Store} (p : Prog α) :
    ∀ (w w' : World), ReadsAgree s s' p → w.Quiet → w'.Quiet → w.store = s → w'.store = s' →
      (p.run w').1 = (p.run w).1 ∧
        ∃ ev, (p.run w).2.events = ev ++ w.events ∧ (p.run w').2.events = ev ++ w'.events := by
  induction p with
  | ret a => intro w w' _ _ _ _ _; exact ⟨rfl, [], rfl, rfl⟩
  | fail e => intro w w' _ _ _ _ _; exact ⟨rfl, [], rfl, rfl⟩
  | panic site => intro w w' _ _ _ _ _; exact ⟨rfl, [], rfl, rfl⟩
  | emit ev k ih =>
    intro w w' h hq hq' hs hs'
    simp only [Prog.run_emit]
    obtain ⟨h1, evs, h2, h3⟩ := ih { w with events := ev :: w.events } { w' with events := ev :: w'.events } h
      ⟨hq.noFaults, hq.noCrash, hq.alive⟩ ⟨hq'.noFaults, hq'.noCrash, hq'.alive⟩ hs hs'
    exact ⟨h1, evs ++ [ev], by simpa using h2, by simpa using h3⟩
  | op o k ih =>
    intro w w' h hq hq' hs hs'
    obtain ⟨hro, hresp, hk⟩ := h
    obtain ⟨r1, n1⟩ := World.exec_quiet_ro hq hro
    obtain ⟨r2, n2⟩ := World.exec_quiet_ro hq' hro
    simp only [Prog.run_op, r1, r2, hs, hs', hresp]
    obtain ⟨h1, evs, h2, h3⟩ := ih (roResp s o) _ _ hk n1.quiet n2.quiet (n1.store.trans hs) (n2.store.trans hs')
    refine ⟨h1, evs, ?_, ?_⟩
    · rw [h2, n1.events]; rfl
    · rw [h3, n2.events]; rfl

end Conserve
