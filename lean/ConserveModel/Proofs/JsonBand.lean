import ConserveModel.Proofs.JsonSound
/-
Helper lemmas for Props/C13j.lean: the band head and tail.
-/
namespace Conserve.Json
open Conserve

theorem validUtf8_bandKeys :
    validUtf8 kStartTime = true ∧ validUtf8 kBandFormatVersion = true ∧ validUtf8 kFormatFlags = true ∧
    validUtf8 kEndTime = true ∧ validUtf8 kIndexHunkCount = true := by
  decide

theorem headField_startTime (f : Nat) (acc : HeadAcc) (s : Str) :
    headField f acc kStartTime s =
      if acc.startTime.isSome then none else (parseI64 s).map fun (v, r) => ({ acc with startTime := some v }, r) := by
  simp [headField]

theorem headField_version (f : Nat) (acc : HeadAcc) (s : Str) :
    headField f acc kBandFormatVersion s =
      if acc.bandFormatVersion.isSome then none
      else (parseOptStr f s).map fun (v, r) => ({ acc with bandFormatVersion := some v }, r) := by
  simp [headField, kBandFormatVersion, kStartTime]

theorem headField_flags (f : Nat) (acc : HeadAcc) (s : Str) :
    headField f acc kFormatFlags s =
      if acc.formatFlags.isSome then none
      else (parseArray parseStr f s).map fun (v, r) => ({ acc with formatFlags := some v }, r) := by
  simp [headField, kBandFormatVersion, kStartTime, kFormatFlags]

theorem renderString_head (s : Str) :
    ∃ c tl, renderString s = c :: tl ∧ c ≠ 32 ∧ c ≠ 10 ∧ c ≠ 9 ∧ c ≠ 13 ∧ c ≠ 93 :=
  ⟨34, _, rfl, by decide, by decide, by decide, by decide, by decide⟩

theorem parseHead_render (h : HeadJson) (hh : wfHead h = true) : parseHead (renderHead h) = some h := by
  obtain ⟨hk1, hk2, hk3, _, _⟩ := validUtf8_bandKeys
  simp only [wfHead, Bool.and_eq_true, decide_eq_true_eq] at hh
  obtain ⟨⟨⟨h1, h2⟩, hv⟩, hfl⟩ := hh
  generalize hFdef : (renderHead h).length = F
  have hF : (renderHead h).length ≤ F := by omega
  unfold parseHead
  rw [hFdef]
  simp only [renderHead] at hF ⊢
  rw [skipWs_cons_of_ne (by decide) (by decide) (by decide) (by decide)]
  simp only []
  rw [parseMembersF_first headField _ kStartTime _ hk1 F (by simp at hF ⊢; omega), headField_startTime]
  rw [parseI64_render h.startTime h1 h2 _ (Delim.commaKey _ _).numEnd]
  simp only [Option.isSome_none, Bool.false_eq_true, if_false, Option.map_some, Option.bind_some]
  rw [parseMembersF_next headField _ kBandFormatVersion _ hk2 (F - 1)
    (by simp [renderString] at hF ⊢; omega), headField_version]
  rw [parseOptStr_render h.bandFormatVersion _ (by intro s hs; rw [hs] at hv; exact hv) (F - 1 - 1)
    (by simp [renderString, commaKey] at hF ⊢; omega)]
  simp only [Option.isSome_none, Bool.false_eq_true, if_false, Option.map_some, Option.bind_some]
  rw [parseMembersF_next headField _ kFormatFlags _ hk3 (F - 1 - 1)
    (by simp [renderString, commaKey] at hF ⊢; omega), headField_flags]
  rw [parseArray_render parseStr renderString h.formatFlags (fun s _ => renderString_head s)
    (fun s hs f rest' _ hlen => parseStr_render s rest' (List.all_eq_true.mp hfl s hs) f hlen) _ (F - 1 - 1 - 1)
    (by simp [renderString, commaKey] at hF ⊢; omega)]
  simp only [Option.isSome_none, Bool.false_eq_true, if_false, Option.map_some, Option.bind_some]
  rw [parseMembersF_end _ _ _ _ _ (by simp [renderString, commaKey] at hF ⊢; omega)]
  cases h
  simp [HeadAcc.finish, skipWs]

theorem tailField_endTime (f : Nat) (acc : TailAcc) (s : Str) :
    tailField f acc kEndTime s =
      if acc.endTime.isSome then none else (parseI64 s).map fun (v, r) => ({ acc with endTime := some v }, r) := by
  simp [tailField]

theorem tailField_count (f : Nat) (acc : TailAcc) (s : Str) :
    tailField f acc kIndexHunkCount s =
      if acc.indexHunkCount.isSome then none
      else (parseOptU64 s).map fun (v, r) => ({ acc with indexHunkCount := some v }, r) := by
  simp [tailField, kIndexHunkCount, kEndTime]

theorem parseTail_render (t : TailJson) (ht : wfTail t = true) : parseTail (renderTail t) = some t := by
  obtain ⟨_, _, _, hk1, hk2⟩ := validUtf8_bandKeys
  simp only [wfTail, Bool.and_eq_true, decide_eq_true_eq] at ht
  obtain ⟨⟨h1, h2⟩, hc⟩ := ht
  generalize hFdef : (renderTail t).length = F
  have hF : (renderTail t).length ≤ F := by omega
  unfold parseTail
  rw [hFdef]
  simp only [renderTail] at hF ⊢
  rw [skipWs_cons_of_ne (by decide) (by decide) (by decide) (by decide)]
  simp only []
  rw [parseMembersF_first tailField _ kEndTime _ hk1 F (by simp at hF ⊢; omega), tailField_endTime]
  rw [parseI64_render t.endTime h1 h2 _ (Delim.commaKey _ _).numEnd]
  simp only [Option.isSome_none, Bool.false_eq_true, if_false, Option.map_some, Option.bind_some]
  rw [parseMembersF_next tailField _ kIndexHunkCount _ hk2 (F - 1)
    (by simp [renderString] at hF ⊢; omega), tailField_count]
  rw [parseOptU64_render t.indexHunkCount
    (by intro n hn; rw [hn] at hc; simp only [u64Bound] at hc; exact of_decide_eq_true hc) _ (Delim.cons125 _).numEnd]
  simp only [Option.isSome_none, Bool.false_eq_true, if_false, Option.map_some, Option.bind_some]
  rw [parseMembersF_end _ _ _ _ _ (by simp [renderString, commaKey] at hF ⊢; omega)]
  cases t
  simp [TailAcc.finish, skipWs]

end Conserve.Json
