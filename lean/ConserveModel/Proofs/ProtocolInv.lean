import ConserveModel.Proofs.ProtocolBasic
/-
Invariants of the protocol skeleton, relative to the configuration the run started from.
Group 1: local facts (parameters never change, gc's work lists, the lock, log ↔ program counters).
-/
set_option linter.unusedVariables false  -- uniform lemma signatures

namespace Conserve.Proto

/-- `B.mkdir` has been performed (`refused2`: the backup refused at its second lock check, its
band stays behind). -/
def BPc.mkdirDone : BPc → Bool
  | .head | .lockCheck2 | .listBlocks | .blocks | .tail | .done | .refused2 | .failed => true
  | _ => false

def BPc.listIdDone : BPc → Bool
  | .mkdir => true
  | pc => pc.mkdirDone

/-- gc holds the lock file. -/
def GPc.locked : GPc → Bool
  | .listKeep | .readRefs | .listBlocks | .measure | .sweep | .abort => true
  | _ => false

/-- `G.last` done, `G.check` not yet. -/
def GPc.pending : GPc → Bool
  | .tailCheck | .lockCheck | .lockWrite | .listKeep | .readRefs | .listBlocks | .measure => true
  | _ => false

/-- `G.tailCheck` passed, `G.check` not yet. -/
def GPc.pending2 : GPc → Bool
  | .lockCheck | .lockWrite | .listKeep | .readRefs | .listBlocks | .measure => true
  | _ => false

/-- The band is the one the running backup created. -/
def isNew (p : State) (b : Band) : Prop := p.b.pc.mkdirDone = true ∧ b.id = p.b.newId

@[simp] theorem mkdirBeforeCheck_cons (e : Ev) (l : List Ev) :
    mkdirBeforeCheck (e :: l) = (mkdirBeforeCheck l && (e != .gCheck || l.contains .bMkdir)) := rfl
@[simp] theorem lockWriteBeforeLockCheck_cons (e : Ev) (l : List Ev) :
    lockWriteBeforeLockCheck (e :: l) = (lockWriteBeforeLockCheck l && (e != .bLockCheck || l.contains .gLockWrite)) := rfl
@[simp] theorem rmBlocksBeforeListBlocks_cons (e : Ev) (l : List Ev) :
    rmBlocksBeforeListBlocks (e :: l) = (rmBlocksBeforeListBlocks l && (!e.isRmBlock || !l.contains .bListBlocks)) := rfl

structure Inv1 (c : Config) (p : State) : Prop where
  needed : p.b.needed = c.needed
  del : p.g.del = c.del
  recheck : p.b.recheck = c.recheck
  todoBlocks : ∀ g ∈ p.g.todoBlocks, g ∈ p.g.unref
  todoBands : ∀ i ∈ p.g.todoBands, i ∈ c.del
  todoEmpty : p.g.passed = false → p.g.todoBlocks = [] ∧ p.g.todoBands = []
  passed : p.g.passed = true → p.g.pc = .sweep ∨ p.g.pc = .abort ∨ p.g.pc = .done ∨ p.g.pc = .failed
  sweepPassed : p.g.pc = .sweep → p.g.passed = true
  lock : p.g.pc.locked = true → p.lock = true
  logMkdir : Ev.bMkdir ∈ p.log → p.b.pc.mkdirDone = true
  mkdirLogged : p.b.pc.mkdirDone = true → Ev.bMkdir ∈ p.log
  logCheck : mkdirBeforeCheck p.log = false →
    p.g.pc = .sweep ∨ p.g.pc = .abort ∨ p.g.pc = .done ∨ p.g.pc = .failed
  logListBlocks : p.b.pc = .blocks ∨ p.b.pc = .tail ∨ p.b.pc = .done → Ev.bListBlocks ∈ p.log
  logLockWrite : Ev.gLockWrite ∈ p.log → p.g.pc.locked = true ∨ p.g.pc.fin = true

theorem Inv1.start (c : Config) : Inv1 c c.start := by
  constructor <;> simp [Config.start, GPc.locked, BPc.mkdirDone, mkdirBeforeCheck]

theorem Inv1.presB {c : Config} {p : State} (h : Inv1 c p) : Inv1 c (stepB p) := by
  obtain ⟨h1, h2, h2r, h3, h4, h4', h5, h5', h6, h7, h7', h7'', h8, h9⟩ := h
  unfold stepB
  repeat' split
  all_goals constructor
  all_goals simp_all [BPc.mkdirDone]

theorem Inv1.presG {c : Config} {p : State} (h : Inv1 c p) : Inv1 c (stepG p) := by
  obtain ⟨h1, h2, h2r, h3, h4, h4', h5, h5', h6, h7, h7', h7'', h8, h9⟩ := h
  unfold stepG
  repeat' split
  all_goals constructor
  all_goals simp_all [GPc.locked, GPc.fin]


/-! Group 2: which bands there are. -/

@[simp] theorem setRefs_id (i : Nat) (r : List Nat) (b : Band) : (setRefs i r b).id = b.id := by
  unfold setRefs; split <;> rfl
@[simp] theorem setRefs_complete (i : Nat) (r : List Nat) (b : Band) : (setRefs i r b).complete = b.complete := by
  unfold setRefs; split <;> rfl
@[simp] theorem setHead_id (i : Nat) (b : Band) : (setHead i b).id = b.id := by
  unfold setHead; split <;> rfl
@[simp] theorem setHead_complete (i : Nat) (b : Band) : (setHead i b).complete = b.complete := by
  unfold setHead; split <;> rfl
@[simp] theorem setHead_refs (i : Nat) (b : Band) : (setHead i b).refs = b.refs := by
  unfold setHead; split <;> rfl
@[simp] theorem setComplete_id (i : Nat) (b : Band) : (setComplete i b).id = b.id := by
  unfold setComplete; split <;> rfl
@[simp] theorem setComplete_refs (i : Nat) (b : Band) : (setComplete i b).refs = b.refs := by
  unfold setComplete; split <;> rfl
theorem setRefs_of_ne {i : Nat} {r : List Nat} {b : Band} (h : b.id ≠ i) : setRefs i r b = b := by
  unfold setRefs; simp [h]
theorem setRefs_of_eq {i : Nat} {r : List Nat} {b : Band} (h : b.id = i) : (setRefs i r b).refs = r := by
  unfold setRefs; simp [h]
theorem setHead_of_ne {i : Nat} {b : Band} (h : b.id ≠ i) : setHead i b = b := by
  unfold setHead; simp [h]
theorem setComplete_of_ne {i : Nat} {b : Band} (h : b.id ≠ i) : setComplete i b = b := by
  unfold setComplete; simp [h]

/-- Case analysis over one step function, then `simp_all`, then `grind`. -/
syntax "pres_step " ident : tactic
macro_rules
  | `(tactic| pres_step $f) => `(tactic|
    (unfold $f
     repeat' split
     all_goals
       ((try simp_all [isNew, BPc.mkdirDone, BPc.listIdDone, GPc.pending, GPc.pending2, GPc.locked, GPc.fin,
                       newestClosed]) <;>
        grind [setHead_of_ne, setRefs_of_ne, setComplete_of_ne, setRefs_of_eq, setHead_id, setRefs_id,
               setComplete_id, setHead_refs, setComplete_refs, setHead_complete, setRefs_complete])))

/-- A band that is not the backup's own is one of the initial bands, unchanged. -/
def OldBands (c : Config) (p : State) : Prop := ∀ b ∈ p.bands, ¬isNew p b → b ∈ c.bands
/-- Once the new id is chosen every other band has a smaller id. -/
def Below (p : State) : Prop := p.b.pc.listIdDone = true → ∀ b ∈ p.bands, ¬isNew p b → b.id < p.b.newId
/-- The backup's own band: references appear with `B.hunk`, all of them needed; complete only at the end. -/
def NewBand (p : State) : Prop := ∀ b ∈ p.bands, isNew p b →
    (b.refs = [] ∨ p.b.pc = .tail ∨ p.b.pc = .done) ∧ (∀ g ∈ b.refs, g ∈ p.b.needed) ∧
    (b.complete = true → p.b.pc = .done)
/-- Until gc's `check()` has passed nothing removes the new band. -/
def NewPresent (p : State) : Prop :=
  p.b.pc.mkdirDone = true → p.g.passed = false → ∃ b ∈ p.bands, b.id = p.b.newId
def FailedGone (p : State) : Prop := p.b.pc = .failed → ∀ b ∈ p.bands, b.id ≠ p.b.newId
/-- Until `check()` the remembered newest id is the id of a band that is there. -/
def NewestWitness (p : State) : Prop :=
  p.g.pc.pending = true → ∀ m, p.g.newest = some m → ∃ b ∈ p.bands, b.id = m

structure Inv2 (c : Config) (p : State) : Prop where
  old : OldBands c p
  below : Below p
  newBand : NewBand p
  newPresent : NewPresent p
  failedGone : FailedGone p
  newestWitness : NewestWitness p

theorem Inv2.start (c : Config) : Inv2 c c.start := by
  constructor <;>
    simp [Config.start, isNew, BPc.mkdirDone, BPc.listIdDone, GPc.pending, OldBands, Below, NewBand,
      NewPresent, FailedGone, NewestWitness]

section
variable {c : Config} {p : State}

theorem OldBands.presB (h1 : Inv1 c p) (h : Inv2 c p) : OldBands c (stepB p) := by
  have o1 := h.old
  have o2 := h.below
  have hb := @hasBand_iff p.bands p.b.newId
  simp only [OldBands, Below] at *
  pres_step stepB

theorem OldBands.presG (h1 : Inv1 c p) (h : Inv2 c p) : OldBands c (stepG p) := by
  have o1 := h.old
  simp only [OldBands] at *
  pres_step stepG

theorem Below.presB (h1 : Inv1 c p) (h : Inv2 c p) : Below (stepB p) := by
  have o2 := h.below
  have hlt := @lt_nextId p.bands
  have hb := @hasBand_iff p.bands p.b.newId
  have hbf := @hasBand_false_iff p.bands p.b.newId
  simp only [Below] at *
  pres_step stepB

theorem Below.presG (h1 : Inv1 c p) (h : Inv2 c p) : Below (stepG p) := by
  have o2 := h.below
  simp only [Below] at *
  pres_step stepG

theorem NewBand.presB (h1 : Inv1 c p) (h : Inv2 c p) : NewBand (stepB p) := by
  have o3 := h.newBand
  have o2 := h.below
  have hb := @hasBand_iff p.bands p.b.newId
  simp only [NewBand, Below] at *
  pres_step stepB

theorem NewBand.presG (h1 : Inv1 c p) (h : Inv2 c p) : NewBand (stepG p) := by
  have o3 := h.newBand
  simp only [NewBand] at *
  pres_step stepG

theorem NewPresent.presB (h1 : Inv1 c p) (h : Inv2 c p) : NewPresent (stepB p) := by
  have o4 := h.newPresent
  have hb := @hasBand_iff p.bands p.b.newId
  have hbf := @hasBand_false_iff p.bands p.b.newId
  simp only [NewPresent] at *
  pres_step stepB

theorem NewPresent.presG (h1 : Inv1 c p) (h : Inv2 c p) : NewPresent (stepG p) := by
  have o4 := h.newPresent
  have hp := h1.passed
  have hsp := h1.sweepPassed
  simp only [NewPresent] at *
  pres_step stepG

theorem FailedGone.presB (h1 : Inv1 c p) (h : Inv2 c p) : FailedGone (stepB p) := by
  have o5 := h.failedGone
  have hbf := @hasBand_false_iff p.bands p.b.newId
  simp only [FailedGone] at *
  pres_step stepB

theorem FailedGone.presG (h1 : Inv1 c p) (h : Inv2 c p) : FailedGone (stepG p) := by
  have o5 := h.failedGone
  simp only [FailedGone] at *
  pres_step stepG

theorem NewestWitness.presB (h1 : Inv1 c p) (h : Inv2 c p) : NewestWitness (stepB p) := by
  have o6 := h.newestWitness
  simp only [NewestWitness] at *
  pres_step stepB

theorem NewestWitness.presG (h1 : Inv1 c p) (h : Inv2 c p) : NewestWitness (stepG p) := by
  have o6 := h.newestWitness
  have hn := @newestId_some p.bands
  have hp := h1.passed
  simp only [NewestWitness] at *
  pres_step stepG

theorem Inv2.presB (h1 : Inv1 c p) (h : Inv2 c p) : Inv2 c (stepB p) :=
  ⟨OldBands.presB h1 h, Below.presB h1 h, NewBand.presB h1 h, NewPresent.presB h1 h,
   FailedGone.presB h1 h, NewestWitness.presB h1 h⟩

theorem Inv2.presG (h1 : Inv1 c p) (h : Inv2 c p) : Inv2 c (stepG p) :=
  ⟨OldBands.presG h1 h, Below.presG h1 h, NewBand.presG h1 h, NewPresent.presG h1 h,
   FailedGone.presG h1 h, NewestWitness.presG h1 h⟩

end

end Conserve.Proto
