import ConserveModel.Proofs.BackupBasis
/-
`backup()` as a whole in all worlds: its split into prelude and main part, and the final
invariant theorem `backup_sat`.  No property statements here.
-/
namespace Conserve.Inv
open Conserve Prog

/-- Everything `backup` does before its main loop: lock check, basis band, new band, second look
at the lock (in the listing of the archive directory), block listing, basis listing.  Returns the new band id, the names of the present blocks, the basis listing. -/
def backupPrelude : Prog (Nat × List Str × List IndexEntry) :=
  gcIsLocked.bind fun locked =>
    if locked = true then Prog.fail .gcLockHeld
    else lastBandId.bind fun basisBand => bandCreate.bind fun band =>
      gcLockListed.bind fun locked2 =>
      if locked2 = true then Prog.fail .gcLockHeld
      else listBlocks.bind fun blocks =>
      match basisBand with
      | some b => (listEntries b [slash] fun _ => false).bind fun basis => Prog.ret (band, blocks, basis)
      | none => Prog.ret (band, blocks, [])

/-- Everything `backup` does from its main loop on. -/
def backupMain (H : Str → Str) (o : BackupOpts) (src : List SrcEntry) (x : Nat × List Str × List IndexEntry) :
    Prog Stats :=
  (backupLoop H o { band := x.1, exists_ := x.2.1 } (mergeTrees x.2.2 src)).bind fun w =>
  (flushGroup H w).bind fun w =>
  (finishHunk w).bind fun w =>
  (bandClose w.band w.hunksWritten).bind fun _ =>
  Prog.ret w.stats

theorem backup_eq (H : Str → Str) (o : BackupOpts) (src : List SrcEntry) :
    backup H o src = backupPrelude.bind (backupMain H o src) := by
  unfold backup backupPrelude
  simp only [Prog.bind_def, Prog.pure_def, Prog.inv_bind_assoc]
  congr 1; funext locked
  cases locked
  · simp only [Bool.false_eq_true, if_false, Prog.inv_bind_assoc]
    congr 1; funext basisBand; congr 1; funext band; congr 1; funext locked2
    cases locked2
    · simp only [Bool.false_eq_true, if_false, Prog.inv_bind_assoc]
      congr 1; funext blocks
      cases basisBand <;> simp [Prog.inv_bind_assoc, backupMain]
    · simp
  · simp


section
variable {H : Str → Str} {src : List SrcEntry} {s0 : Store}

/-- Read-only programs keep the invariant and the store. -/
theorem Sat.of_ro' {α : Type} {p : Prog α} (hp : Prog.AllOps RO p) {w : World} (hw : WOK H src s0 w) :
    Sat H src s0 p w (fun _ w' => w'.store = w.store) :=
  ((Sat.of_ro hp hw).and_run (fun _ _ => run_ro_store hp w)).mono fun _ _ _ h => h.2

/-- The assumption `backup` makes when it reuses a basis entry's addresses, for a whole basis
listing: whenever a basis entry for the same path as a source file looks unchanged (kind, mtime,
size) and its blocks are all present, its addresses read back to the source file's content.
Stated for every later store so that it survives the run. -/
def BasisOK (H : Str → Str) (src : List SrcEntry) (s : Store) (basis : List IndexEntry) : Prop :=
  ∀ b ∈ basis, ∀ sf ∈ src, sf.kind = .file → b.apath = sf.apath → ∀ s', Extends s s' →
    heuristicallyUnchanged sf b = some true →
    (∀ a ∈ b.addrs, ∃ c, blockContent H s' a.hash = some c) →
    readBack H s' b.addrs = some (sf.content.take sf.size)

theorem BasisOK.nil (s : Store) : BasisOK H src s [] := fun _ h => nomatch h

theorem mergeTrees_matchedOK {s : Store} {basis : List IndexEntry} (hb : BasisOK H src s basis)
    (bs : List IndexEntry) (ss : List SrcEntry) (hbs : ∀ b ∈ bs, b ∈ basis) (hss : ∀ x ∈ ss, x ∈ src) :
    ∀ m ∈ mergeTrees bs ss, MatchedOK H src s m := by
  fun_induction mergeTrees bs ss with
  | case1 ss =>
    intro m hm
    obtain ⟨x, hx, rfl⟩ := List.mem_map.mp hm
    exact hss x hx
  | case2 bs _ =>
    intro m hm
    obtain ⟨x, hx, rfl⟩ := List.mem_map.mp hm
    trivial
  | case3 b bs x ss hcmp ih =>
    intro m hm
    rcases List.mem_cons.mp hm with rfl | hm
    · have hap : b.apath = x.apath := (C11.cmp_eq_iff _ _).mp hcmp
      exact ⟨hss x (List.mem_cons_self ..), fun s' hx' hkf hh hall =>
        hb b (hbs b (List.mem_cons_self ..)) x (hss x (List.mem_cons_self ..)) hkf hap s' hx' hh hall⟩
    · exact ih (fun b' hb' => hbs b' (List.mem_cons_of_mem _ hb')) (fun x' hx' => hss x' (List.mem_cons_of_mem _ hx')) m hm
  | case4 b bs x ss hcmp ih =>
    intro m hm
    rcases List.mem_cons.mp hm with rfl | hm
    · trivial
    · exact ih (fun b' hb' => hbs b' (List.mem_cons_of_mem _ hb')) hss m hm
  | case5 b bs x ss hcmp ih =>
    intro m hm
    rcases List.mem_cons.mp hm with rfl | hm
    · exact hss x (List.mem_cons_self ..)
    · exact ih hbs (fun x' hx' => hss x' (List.mem_cons_of_mem _ hx')) m hm

/-- The prelude in every world: invariant kept; the block names it returns are present intact
blocks; with no band directories in the archive the basis listing is empty; in any case every
basis entry comes out of a decodable hunk of the store. -/
theorem backupPrelude_sat (w : World) (hw : WOK H src s0 w) :
    Sat H src s0 backupPrelude w
      (fun x w1 => ExistsOK H w1.store x.2.1 ∧ (NoBands w.store → x.2.2 = []) ∧
        FromHunks w1.store x.2.2) := by
  unfold backupPrelude
  apply Sat.bind
  refine (Sat.of_ro' (isFile_ro .gcLock) hw).mono ?_
  intro locked w1 hf1 hst1
  split
  · exact Sat.fail hf1.wok
  · apply Sat.bind
    refine ((Sat.of_ro' lastBandId_ro hf1.wok).and_run (Q' := fun r _ => NoBands w1.store → r = none)
      (fun r hr hnb => lastBandId_noBands w1 hnb r hr)).mono ?_
    intro basisBand w2 hf2 ⟨hst2, hnone⟩
    apply Sat.bind
    refine (Sat.of_allOps bandCreate_fine hf2.wok).mono ?_
    intro band w3' hf3' _
    apply Sat.bind
    refine (Sat.of_ro' gcLockListed_ro hf3'.wok).mono ?_
    intro locked2 w3 hf3 _
    split
    · exact Sat.fail hf3.wok
    apply Sat.bind
    refine ((Sat.of_ro' listBlocks_ro hf3.wok).and_run (Q' := fun hs _ => ExistsOK H w3.store hs)
      (listBlocks_result w3 hf3.wok.good.noDup hf3.wok.good.blocks)).mono ?_
    intro blocks w4 hf4 ⟨hst4, hex⟩
    have hex4 : ExistsOK H w4.store blocks := hst4 ▸ hex
    cases basisBand with
    | none => exact Sat.ret hf4.wok ⟨hex4, fun _ => rfl, FromHunks.nil _⟩
    | some b =>
      apply Sat.bind
      refine ((Sat.of_ro' (listEntries_ro b [slash] fun _ => false) hf4.wok).and_run
        (Q' := fun basis _ => FromHunks w4.store basis)
        (fun a ha => ((listEntries_spec w4.store b _ _) w4 rfl).2 a ha)).mono ?_
      intro basis w5 hf5 ⟨hst5, hfh⟩
      refine Sat.ret hf5.wok ⟨hst5 ▸ hex4, fun hnb => ?_, hst5 ▸ hfh⟩
      have := hnone (hst1 ▸ hnb)
      cases this

/-- The main part in every world, from a sound block list and a sound basis listing. -/
theorem backupMain_sat (hinj : Function.Injective H) (o : BackupOpts) (hmax : 0 < o.maxBlockSize)
    (hwf : SrcWF src) (x : Nat × List Str × List IndexEntry) (w : World) (hw : WOK H src s0 w)
    (hex : ExistsOK H w.store x.2.1) (hb : BasisOK H src w.store x.2.2) :
    Sat H src s0 (backupMain H o src x) w (fun _ _ => True) := by
  unfold backupMain
  apply Sat.bind
  have hwr : WriterOK H src w.store { band := x.1, exists_ := x.2.1 } :=
    ⟨hex, fun _ h => (nomatch h), fun _ h => (nomatch h), fun _ h => (nomatch h)⟩
  refine (backupLoop_sat hinj o hmax hwf _ _ w hw hwr
    (mergeTrees_matchedOK hb _ _ (fun _ h => h) (fun _ h => h))).mono ?_
  intro wr1 w1 hf1 hwr1
  apply Sat.bind
  refine (flushGroup_sat hinj wr1 w1 hf1.wok hwr1).mono ?_
  intro wr2 w2 hf2 hwr2
  apply Sat.bind
  refine (finishHunk_sat wr2 w2 hf2.wok hwr2).mono ?_
  intro wr3 w3 hf3 _
  apply Sat.bind
  refine (Sat.of_allOps (bandClose_fine _ _) hf3.wok).mono ?_
  intro _ w4 hf4 _
  exact Sat.ret hf4.wok trivial

/-- The heuristic assumption for the basis listing the run itself computes in world `w`. -/
def HeuristicSound (H : Str → Str) (src : List SrcEntry) (w : World) : Prop :=
  ∀ band blocks basis w1, backupPrelude.run w = (.ok (band, blocks, basis), w1) →
    BasisOK H src w1.store basis

/-- `backup` in every world keeps the invariant. -/
theorem backup_sat (hinj : Function.Injective H) (o : BackupOpts) (hmax : 0 < o.maxBlockSize)
    (hwf : SrcWF src) (w : World) (hw : WOK H src s0 w)
    (hb : NoBands w.store ∨ HeuristicSound H src w) :
    Sat H src s0 (backup H o src) w (fun _ _ => True) := by
  rw [backup_eq]
  apply Sat.bind
  have hrun : ∀ a, (backupPrelude.run w).1 = .ok a →
      (HeuristicSound H src w → BasisOK H src (backupPrelude.run w).2.store a.2.2) := by
    intro a ha hs
    obtain ⟨band, blocks, basis⟩ := a
    exact hs band blocks basis _ (Prod.ext ha rfl)
  refine ((backupPrelude_sat w hw).and_run
    (Q' := fun a w' => HeuristicSound H src w → BasisOK H src w'.store a.2.2) hrun).mono ?_
  intro x w1 hf1 ⟨⟨hex, hnil, _⟩, hbasis⟩
  refine backupMain_sat hinj o hmax hwf x w1 hf1.wok hex ?_
  rcases hb with hb | hb
  · rw [hnil hb]; exact BasisOK.nil _
  · exact hbasis hb

/-- The same assumption stated on the archive the backup starts from: every FILE entry of every
decodable hunk that has the path of a source file and looks unchanged (kind, mtime, size), and
whose blocks are all present, reads back to that source file's content. -/
def HeuristicSoundStore (H : Str → Str) (src : List SrcEntry) (s : Store) : Prop :=
  ∀ b n es, hunkAt s b n = some es → ∀ e ∈ es, ∀ sf ∈ src, sf.kind = .file → e.apath = sf.apath →
    heuristicallyUnchanged sf e = some true →
    (∀ a ∈ e.addrs, ∃ c, blockContent H s a.hash = some c) →
    readBack H s e.addrs = some (sf.content.take sf.size)

theorem heuristicallyUnchanged_kind {sf : SrcEntry} {b : IndexEntry}
    (h : heuristicallyUnchanged sf b = some true) : b.kind = sf.kind := by
  unfold heuristicallyUnchanged at h
  split at h
  · cases h
  · rename_i hk
    simpa using hk

/-- In every world (faults, crash point) over a store without dangling references, the
store-level assumption implies the run-level one: the basis listing only contains entries of
hunks that were already there (the prelude writes no hunk with a file entry — here derived from
the invariant instantiated with an empty source), and those resolve by `NoDangling`. -/
theorem heuristicSound_of_store (w : World) (he : w.enforceCreateNew = true) (hnd : NoDupKeys w.store)
    (hbg : BlocksGood H w.store) (hd : NoDangling H w.store) (hs : HeuristicSoundStore H src w.store) :
    HeuristicSound H src w := by
  have hw0 : WOK H [] w.store w :=
    ⟨he, ⟨hnd, hbg, fun h => h, fun b n es h0 h1 => by rw [h0] at h1; cases h1⟩⟩
  obtain ⟨hf, hq⟩ := backupPrelude_sat w hw0
  intro band blocks basis w1 hrun
  rw [hrun] at hf hq
  obtain ⟨_, _, hfh⟩ := hq _ rfl
  intro b hb sf hsf hkf hap s' hx hh hall
  obtain ⟨b', n, hes, hhunk, hmem⟩ := hfh b hb
  have hbk : b.kind = .file := (heuristicallyUnchanged_kind hh).trans hkf
  cases h0 : hunkAt w.store b' n with
  | none =>
    obtain ⟨sf', hmem', _⟩ := hf.wok.good.newRec b' n hes h0 hhunk b hmem hbk
    cases hmem'
  | some hes0 =>
    have heq : hes0 = hes := by
      have := hunkAt_mono h0 hf.ext
      rw [hhunk] at this
      cases this; rfl
    subst heq
    have hprem : ∀ a ∈ b.addrs, ∃ c, blockContent H w.store a.hash = some c := by
      intro a ha
      have := hd b' n hes0 h0 b hmem a ha
      unfold readAddrPure at this
      cases hc : blockContent H w.store a.hash with
      | none => simp [hc] at this
      | some c => exact ⟨c, rfl⟩
    have := hs b' n hes0 h0 b hmem sf hsf hkf hap hh hprem
    exact readBack_mono H (readBack_mono H this hf.ext) hx

end

end Conserve.Inv
