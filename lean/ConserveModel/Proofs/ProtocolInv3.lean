import ConserveModel.Proofs.ProtocolInv
/-
Invariants of the protocol skeleton, group 3: what gc may remove, seen from the bands that
existed at the start (no hypothesis on the schedule).  These give `c06_old_versions_safe`.
-/
set_option linter.unusedVariables false  -- uniform lemma signatures

namespace Conserve.Proto

/-- Before `B.mkdir` nothing has been written: blocks (and gc's `unref`) are initial blocks. -/
def NoWriteYet (c : Config) (p : State) : Prop :=
  p.b.pc.mkdirDone = false → (∀ g ∈ p.present, g ∈ c.present) ∧ (∀ g ∈ p.g.unref, g ∈ c.present)
/-- An initial block that is gone was in gc's `unref`, removed after `check()` passed and after
every requested band was removed. -/
def Removed (c : Config) (p : State) : Prop :=
  ∀ g ∈ c.present, g ∈ p.present ∨ (g ∈ p.g.unref ∧ p.g.passed = true ∧ p.g.todoBands = [])
/-- After `check()`: a band whose id is to be deleted is still on gc's list, or is the backup's. -/
def DelBands (c : Config) (p : State) : Prop :=
  p.g.passed = true → ∀ b ∈ p.bands, b.id ∈ c.del → b.id ∈ p.g.todoBands ∨ isNew p b
/-- Initial bands that are not to be deleted stay, unchanged, and below the new id. -/
def Kept (c : Config) (p : State) : Prop :=
  ∀ b ∈ c.bands, b.id ∉ c.del → b ∈ p.bands ∧ (p.b.pc.listIdDone = true → b.id < p.b.newId)
def KeptListed (c : Config) (p : State) : Prop :=
  p.g.pc = .readRefs → ∀ b ∈ c.bands, b.id ∉ c.del → b.id ∈ p.g.keep
def KeptRead (c : Config) (p : State) : Prop :=
  p.g.pc = .listBlocks → ∀ b ∈ c.bands, b.id ∉ c.del → ∀ g ∈ b.refs, g ∈ p.g.referenced
/-- gc's `unref` never contains a block referenced by an initial band that is kept. -/
def UnrefOld (c : Config) (p : State) : Prop :=
  ∀ g ∈ p.g.unref, ∀ b ∈ c.bands, b.id ∉ c.del → g ∉ b.refs

structure Inv3 (c : Config) (p : State) : Prop where
  noWriteYet : NoWriteYet c p
  removed : Removed c p
  delBands : DelBands c p
  kept : Kept c p
  keptListed : KeptListed c p
  keptRead : KeptRead c p
  unrefOld : UnrefOld c p

theorem Inv3.start (c : Config) : Inv3 c c.start := by
  constructor <;>
    simp [Config.start, isNew, BPc.mkdirDone, BPc.listIdDone, NoWriteYet, Removed, DelBands, Kept,
      KeptListed, KeptRead, UnrefOld]
  all_goals grind
  all_goals grind

section
variable {c : Config} {p : State}

theorem NoWriteYet.presB (h1 : Inv1 c p) (h2 : Inv2 c p) (h : Inv3 c p) : NoWriteYet c (stepB p) := by
  have e1 := h.noWriteYet
  simp only [NoWriteYet] at *
  pres_step stepB

theorem NoWriteYet.presG (h1 : Inv1 c p) (h2 : Inv2 c p) (h : Inv3 c p) : NoWriteYet c (stepG p) := by
  have e1 := h.noWriteYet
  simp only [NoWriteYet] at *
  pres_step stepG

theorem Removed.presB (h1 : Inv1 c p) (h2 : Inv2 c p) (h : Inv3 c p) : Removed c (stepB p) := by
  have e2 := h.removed
  simp only [Removed] at *
  pres_step stepB

theorem Removed.presG (h1 : Inv1 c p) (h2 : Inv2 c p) (h : Inv3 c p) : Removed c (stepG p) := by
  have e2 := h.removed
  have htk := h1.todoBlocks
  have hsp := h1.sweepPassed
  have hp := h1.passed
  simp only [Removed] at *
  pres_step stepG

theorem DelBands.presB (h1 : Inv1 c p) (h2 : Inv2 c p) (h : Inv3 c p) : DelBands c (stepB p) := by
  have e3 := h.delBands
  have o2 := h2.below
  simp only [DelBands, Below] at *
  pres_step stepB

theorem DelBands.presG (h1 : Inv1 c p) (h2 : Inv2 c p) (h : Inv3 c p) : DelBands c (stepG p) := by
  have e3 := h.delBands
  have hdel := h1.del
  simp only [DelBands] at *
  pres_step stepG

theorem Kept.presB (h1 : Inv1 c p) (h2 : Inv2 c p) (h : Inv3 c p) : Kept c (stepB p) := by
  have e4 := h.kept
  have hlt := @lt_nextId p.bands
  simp only [Kept] at *
  pres_step stepB

theorem Kept.presG (h1 : Inv1 c p) (h2 : Inv2 c p) (h : Inv3 c p) : Kept c (stepG p) := by
  have e4 := h.kept
  have htb := h1.todoBands
  simp only [Kept] at *
  pres_step stepG

theorem KeptListed.presB (h1 : Inv1 c p) (h2 : Inv2 c p) (h : Inv3 c p) : KeptListed c (stepB p) := by
  have e5 := h.keptListed
  simp only [KeptListed] at *
  pres_step stepB

theorem KeptListed.presG (h1 : Inv1 c p) (h2 : Inv2 c p) (h : Inv3 c p) : KeptListed c (stepG p) := by
  have e4 := h.kept
  have hdel := h1.del
  simp only [KeptListed, Kept] at *
  pres_step stepG

theorem KeptRead.presB (h1 : Inv1 c p) (h2 : Inv2 c p) (h : Inv3 c p) : KeptRead c (stepB p) := by
  have e6 := h.keptRead
  simp only [KeptRead] at *
  pres_step stepB

theorem KeptRead.presG (h1 : Inv1 c p) (h2 : Inv2 c p) (h : Inv3 c p) : KeptRead c (stepG p) := by
  have e4 := h.kept
  have e5 := h.keptListed
  simp only [KeptRead, Kept, KeptListed] at *
  pres_step stepG

theorem UnrefOld.presB (h1 : Inv1 c p) (h2 : Inv2 c p) (h : Inv3 c p) : UnrefOld c (stepB p) := by
  have e7 := h.unrefOld
  simp only [UnrefOld] at *
  pres_step stepB

theorem UnrefOld.presG (h1 : Inv1 c p) (h2 : Inv2 c p) (h : Inv3 c p) : UnrefOld c (stepG p) := by
  have e6 := h.keptRead
  have e7 := h.unrefOld
  simp only [UnrefOld, KeptRead] at *
  pres_step stepG

theorem Inv3.presB (h1 : Inv1 c p) (h2 : Inv2 c p) (h : Inv3 c p) : Inv3 c (stepB p) :=
  ⟨NoWriteYet.presB h1 h2 h, Removed.presB h1 h2 h, DelBands.presB h1 h2 h, Kept.presB h1 h2 h,
   KeptListed.presB h1 h2 h, KeptRead.presB h1 h2 h, UnrefOld.presB h1 h2 h⟩

theorem Inv3.presG (h1 : Inv1 c p) (h2 : Inv2 c p) (h : Inv3 c p) : Inv3 c (stepG p) :=
  ⟨NoWriteYet.presG h1 h2 h, Removed.presG h1 h2 h, DelBands.presG h1 h2 h, Kept.presG h1 h2 h,
   KeptListed.presG h1 h2 h, KeptRead.presG h1 h2 h, UnrefOld.presG h1 h2 h⟩

end

end Conserve.Proto
