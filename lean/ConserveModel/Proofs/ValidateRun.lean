import ConserveModel.ValidateSpec
import ConserveModel.Props.C08
import ConserveModel.Proofs.CleanWorld
/-
`validate` in a fault-free, crash-free world, as a pure function of the store: every piece of
Validate.lean run in a `Quiet` world (Proofs/StitchRun.lean), composed into `run_validate`.
No property statements here.
-/
namespace Conserve
open Prog

/-! ### Bridges between the nodup / tree predicates and the two quiet-world toolkits -/

theorem ArchWF.uniqueKeys {s : Store} (wf : ArchWF s) : UniqueKeys s :=
  (uniqueKeys_iff_nodup s).mpr wf.keys

theorem ArchWF.dirsOk {s : Store} (wf : ArchWF s) : DirsOk s := by
  have := wf.tree
  simp only [treeShaped, List.all_eq_true] at this
  exact this

theorem World.exec_crashAt (w : World) (o : Op) : (w.exec o).1.crashAt = w.crashAt := by
  unfold World.exec
  repeat' split
  all_goals rfl

theorem Prog.run_crashAt {α : Type} (p : Prog α) (w : World) : (p.run w).2.crashAt = w.crashAt := by
  induction p generalizing w with
  | ret a => rfl
  | fail e => rfl
  | panic s => rfl
  | emit ev k ih => exact ih _
  | op o k ih => rw [Prog.run_op, ih, World.exec_crashAt]

/-- From the `Runs` toolkit (CleanWorldDel) to the `Quiet s evs` one (StitchRun). -/
theorem Quiet.of_runs {α : Type} {p : Prog α} {s s' : Store} {evs ev : List Event} {w : World}
    {out : Outcome α} (h : Quiet s evs w) (hc : w.crashAt = none)
    (hr : w.Quiet → Runs p w out s' ev) :
    ∃ w', p.run w = (out, w') ∧ Quiet s' (ev ++ evs) w' := by
  have hr := hr ⟨h.faults, hc, h.dead⟩
  refine ⟨(p.run w).2, hr.run_eq, hr.2.store, hr.2.quiet.alive, hr.2.quiet.noFaults, ?_⟩
  rw [hr.2.events, h.events]

/-! ### Single steps -/

theorem run_listBandIds {s : Store} {evs : List Event} {w : World} (h : Quiet s evs w)
    (hroot : s.get? .root = some .dir) :
    ∃ w', listBandIds.run w = (.ok (bandIdsOf s), w') ∧ Quiet s evs w' := by
  obtain ⟨w', he, hq⟩ := h.exec_ro (.listDir .root) rfl
  refine ⟨w', ?_, hq⟩
  simp only [listBandIds, perform, Prog.bind_def, Prog.op_bind, Prog.ret_bind, Prog.run_op, he,
    quietResp, hroot, Prog.pure_def, Prog.run_ret]
  exact congrArg (fun x => (Outcome.ok x, w')) (bandIds_listing s)

theorem run_listBlocks {s : Store} {evs : List Event} {w : World} (h : Quiet s evs w)
    (hc : w.crashAt = none) (hn : UniqueKeys s) (hr : s.get? .blockRoot = some .dir) :
    ∃ w', listBlocks.run w = (.ok (blockNamesOf s), w') ∧ Quiet s evs w' := by
  have hs := h.store
  subst hs
  have := Quiet.of_runs h hc (fun hq => listBlocks_runs hq hr (blockSubdirs_are_dirs hn))
  simpa using this

theorem headError_eq (s : Store) (b : Nat) :
    bandOpenP s b = match headError s b with
      | none => .ok ()
      | some e => .error e := by
  unfold bandOpenP headError
  cases s.get? (.bandHead b) with
  | none => rfl
  | some v =>
    cases v with
    | head ver flags => cases ver <;> simp <;> split <;> simp_all
    | _ => rfl

theorem children_any_head {s : Store} {b : Nat} {v : FileVal} (h : s.get? (.bandHead b) = some v) :
    ((s.children (.bandDir b)).any fun e => e.key == .bandHead b) = true := by
  rw [List.any_eq_true]
  refine ⟨⟨.bandHead b, v.isDir, !v.isDir && !v.isEmptyFile⟩, ?_, by simp⟩
  simp only [Store.children, List.mem_map, List.mem_filter]
  exact ⟨(.bandHead b, v), ⟨get?_mem h, by simp [Key.parent]⟩, rfl⟩

theorem isPrefix_root {a : Str} (h : isValid a = true) : isPrefixOfImpl [slash] a = true := by
  cases a with
  | nil => simp [isValid] at h
  | cons c rest =>
    have hc : c = slash := by
      by_cases hc : c = slash
      · exact hc
      · simp [isValid, hc] at h
    subst hc
    cases rest with
    | nil => simp [isPrefixOfImpl]
    | cons d r => simp [isPrefixOfImpl, List.isPrefixOf]

/-- What `validate_stored_tree` walks: the whole listing of version `b`. -/
theorem run_listEntries_all {s : Store} (wf : ArchWF s) (b : Nat) {evs : List Event} {w : World}
    (h : Quiet s evs w) :
    ∃ w', (listEntries b [slash] (fun _ => false)).run w = (.ok (listSpec s b), w') ∧
      Quiet s (evsOf (listErrors s b) ++ evs) w' := by
  obtain ⟨w', h1, q⟩ := run_stitchAll b h
  rw [stitchAllP_fst wf] at h1
  rw [stitchAllP_snd wf] at q
  refine ⟨w', ?_, q⟩
  simp only [listEntries, Prog.bind_def, Prog.run_bind, h1]
  rw [run_filterEntries [slash] _ (listSpec s b) w' (fun e he _ => C08.listed_valid he)]
  congr 2
  apply List.filter_eq_self.mpr
  intro e he
  simp [isPrefix_root (C08.listed_valid he)]

/-! ### `validateBands` -/

theorem run_validateBands {s : Store} (wf : ArchWF s) (bs : List Nat)
    (hbs : ∀ b ∈ bs, s.get? (.bandDir b) = some .dir) :
    ∀ (m : List (Str × Nat)) (evs : List Event) (w : World), Quiet s evs w →
    ∃ w', (validateBands bs m).run w = (.ok (bs.foldl (bandRefs s) m), w') ∧
      Quiet s (evsOf (bs.flatMap (bandValidateErrors s)) ++ evs) w' := by
  induction bs with
  | nil => intro m evs w h; exact ⟨w, rfl, by simpa [evsOf] using h⟩
  | cons b bs ih =>
    intro m evs w h
    have ih := ih (fun x hx => hbs x (List.mem_cons_of_mem _ hx))
    obtain ⟨w1, h1, q1⟩ := run_bandOpen h b
    simp only [validateBands, Prog.bind_def, Prog.run_bind, Prog.run_attempt, h1, List.foldl_cons,
      List.flatMap_cons, bandRefs, bandValidateErrors, headError_eq]
    cases hh : headError s b with
    | some e =>
      obtain ⟨w2, h2, q2⟩ := ih m _ _ (q1.emit (.error e))
      refine ⟨w2, ?_, ?_⟩
      · simpa [toOutcome, logError, Prog.run_bind] using h2
      · rw [evsOf_append]; simpa [evsOf] using q2
    | none =>
      have hd := hbs b (List.mem_cons_self ..)
      obtain ⟨w2, he2, q2⟩ := q1.exec_ro (.listDir (.bandDir b)) rfl
      obtain ⟨v, hv⟩ : ∃ v, s.get? (.bandHead b) = some v := by
        cases hg : s.get? (.bandHead b) with
        | none => simp [headError, hg] at hh
        | some v => exact ⟨v, rfl⟩
      obtain ⟨w3, h3, q3⟩ := run_bandOpen q2 b
      obtain ⟨w4, h4, q4⟩ := run_listEntries_all wf b q3
      obtain ⟨w5, h5, q5⟩ := ih (entryLens m (listSpec s b)) _ _ q4
      refine ⟨w5, ?_, ?_⟩
      · simp only [toOutcome, perform, Prog.op_bind, Prog.ret_bind, Prog.run_op, he2, quietResp, hd,
          children_any_head hv]
        simp [Prog.run_bind, Prog.run_attempt, h3, headError_eq, hh, h4, h5, toOutcome]
      · rw [evsOf_append]; simpa using q5

/-! ### `for` loops that only report -/

theorem run_forIn_log {α : Type} {s : Store} (f : α → Option Err)
    (body : α → PUnit → Prog (ForInStep PUnit))
    (hbody : ∀ x u, body x u = match f x with
      | some e => (logError e).bind fun _ => pure (ForInStep.yield PUnit.unit)
      | none => pure (ForInStep.yield PUnit.unit)) (xs : List α) :
    ∀ (evs : List Event) (w : World), Quiet s evs w →
    ∃ w', (forIn xs PUnit.unit body).run w = (.ok PUnit.unit, w') ∧
      Quiet s (evsOf (xs.filterMap f) ++ evs) w' := by
  induction xs with
  | nil => intro evs w h; exact ⟨w, rfl, by simpa [evsOf] using h⟩
  | cons x xs ih =>
    intro evs w h
    rw [List.forIn_cons, hbody]
    cases hf : f x with
    | none =>
      obtain ⟨w1, h1, q1⟩ := ih evs w h
      exact ⟨w1, by simpa using h1, by simpa [hf] using q1⟩
    | some e =>
      obtain ⟨w1, h1, q1⟩ := ih _ _ (h.emit (.error e))
      refine ⟨w1, by simpa [logError] using h1, ?_⟩
      simp only [List.filterMap_cons, hf]
      rw [evsOf_cons]; exact q1

/-! ### `validateBlocks` -/

section
variable (H : Str → Str)

theorem run_getBlockContent {s : Store} {evs : List Event} {w : World} (h : Quiet s evs w) (hash : Str) :
    ∃ w', (getBlockContent H hash).run w = (.ok (blockRead H s hash), w') ∧ Quiet s evs w' := by
  obtain ⟨w', he, hq⟩ := h.exec_ro (.read (.block hash)) rfl
  refine ⟨w', ?_, hq⟩
  simp only [getBlockContent, perform, Prog.bind_def, Prog.op_bind, Prog.ret_bind, Prog.run_op, he,
    quietResp, blockRead]
  cases s.get? (.block hash) with
  | none => rfl
  | some v =>
    cases v with
    | blockData c => by_cases hc : H c = hash <;> simp [hc]
    | _ => rfl

/-- The (hash, decompressed length) table of `BlockDir::validate`. -/
def blockLens (s : Store) (hs : List Str) : List (Str × Nat) :=
  hs.filterMap fun h =>
    match blockRead H s h with
    | .ok c => some (h, c.length)
    | .error _ => none

theorem run_validateBlocks {s : Store} (hs : List Str) :
    ∀ (evs : List Event) (w : World), Quiet s evs w →
    ∃ w', (validateBlocks H hs).run w = (.ok (blockLens H s hs), w') ∧
      Quiet s (evsOf (hs.filterMap (blockReadError H s)) ++ evs) w' := by
  induction hs with
  | nil => intro evs w h; exact ⟨w, rfl, by simpa [evsOf] using h⟩
  | cons x hs ih =>
    intro evs w h
    obtain ⟨w1, h1, q1⟩ := run_getBlockContent H h x
    simp only [validateBlocks, Prog.bind_def, Prog.run_bind, h1, blockLens, List.filterMap_cons,
      blockReadError]
    cases hr : blockRead H s x with
    | ok c =>
      obtain ⟨w2, h2, q2⟩ := ih evs w1 q1
      exact ⟨w2, by simp [Prog.run_bind, h2, blockLens], by simpa using q2⟩
    | error e =>
      obtain ⟨w2, h2, q2⟩ := ih _ _ (q1.emit (.error e))
      refine ⟨w2, by simpa [logError, blockLens] using h2, ?_⟩
      simp only [evsOf_cons]; exact q2

theorem lookup_blockLens (s : Store) (hs : List Str) (h : Str) :
    (blockLens H s hs).lookup h =
      if hs.contains h then
        match blockRead H s h with
        | .ok c => some c.length
        | .error _ => none
      else none := by
  induction hs with
  | nil => rfl
  | cons x hs ih =>
    simp only [blockLens, List.filterMap_cons, List.contains_cons] at ih ⊢
    by_cases hx : h = x
    · subst hx
      cases hr : blockRead H s h with
      | ok c => simp
      | error e => simp [ih, hr]
    · have hb : (h == x) = false := by simpa using hx
      cases hr : blockRead H s x with
      | ok c => simp [List.lookup_cons, hb, ih]
      | error e => simp [hb, ih]

/-! ### `validate` -/

/-- Body of the loop of step 3a. -/
def quickBody (present : List Str) (x : Str × Nat) (_ : PUnit) : Prog (ForInStep PUnit) :=
  if (!present.contains x.fst) = true then
    (logError (Err.blockMissing x.fst)).bind fun _ => pure (ForInStep.yield PUnit.unit)
  else pure (ForInStep.yield PUnit.unit)

/-- Body of the loop of step 3b. -/
def fullBody (lens : List (Str × Nat)) (x : Str × Nat) (_ : PUnit) : Prog (ForInStep PUnit) :=
  match List.lookup x.fst lens with
  | some actual =>
    if x.snd > actual then
      (logError (Err.blockTooShort x.fst)).bind fun _ => pure (ForInStep.yield PUnit.unit)
    else pure (ForInStep.yield PUnit.unit)
  | none => (logError (Err.blockMissing x.fst)).bind fun _ => pure (ForInStep.yield PUnit.unit)

/-- `validate` after `referenced` and `present` are known. -/
def validateTail (quick : Bool) (referenced : List (Str × Nat)) (present : List Str) : Prog Unit :=
  if quick = true then (forIn referenced PUnit.unit (quickBody present)).bind fun _ => pure ()
  else
    (validateBlocks H (present.mergeSort strLe)).bind fun lens =>
      (forIn referenced PUnit.unit (fullBody lens)).bind fun _ => pure ()

theorem run_validateTail {s : Store} (quick : Bool) (refs : List (Str × Nat)) {evs : List Event}
    {w : World} (h : Quiet s evs w) :
    ∃ w', (validateTail H quick refs (blockNamesOf s)).run w = (.ok (), w') ∧
      Quiet s (evsOf (if quick then refs.filterMap (refErrorQuick s)
        else (presentSorted s).filterMap (blockReadError H s) ++ refs.filterMap (refErrorFull H s)) ++ evs) w' := by
  unfold validateTail
  cases quick with
  | true =>
    obtain ⟨w4, h4, q4⟩ := run_forIn_log (s := s) (refErrorQuick s) (quickBody (blockNamesOf s))
      (by intro x u; unfold refErrorQuick quickBody
          by_cases hx : x.1 ∈ blockNamesOf s <;> simp [hx])
      refs _ _ h
    exact ⟨w4, by simp [Prog.run_bind, h4], by simpa using q4⟩
  | false =>
    obtain ⟨w4, h4, q4⟩ := run_validateBlocks H (s := s) ((blockNamesOf s).mergeSort strLe) _ _ h
    obtain ⟨w5, h5, q5⟩ := run_forIn_log (s := s) (refErrorFull H s)
      (fullBody (blockLens H s ((blockNamesOf s).mergeSort strLe)))
      (by
        intro x u
        unfold refErrorFull fullBody
        rw [lookup_blockLens]
        simp only [List.contains_eq_mem, List.mem_mergeSort]
        by_cases hx : x.1 ∈ blockNamesOf s
        · cases hr : blockRead H s x.1 with
          | ok c => by_cases hl : x.2 > c.length <;> simp [hx, hl]
          | error e => simp [hx]
        · simp [hx])
      refs _ _ q4
    refine ⟨w5, by simp [Prog.run_bind, h4, h5], ?_⟩
    simpa [evsOf_append, presentSorted] using q5

theorem run_validate {s : Store} (ok : ArchOK s) (quick : Bool) {evs : List Event} {w : World}
    (h : Quiet s evs w) (hc : w.crashAt = none) :
    ∃ w', (validate H quick).run w = (.ok (), w') ∧
      Quiet s (evsOf (validateErrors H quick s) ++ evs) w' := by
  obtain ⟨w0, he0, q0⟩ := h.exec_ro (.listDir .root) rfl
  obtain ⟨w1, h1, q1⟩ := run_listBandIds q0 ok.root
  have hn := ok.wf.uniqueKeys
  have hbs : ∀ b ∈ bandIdsOf s, s.get? (.bandDir b) = some .dir :=
    fun b hb => Store.get?_of_mem_unique hn (mem_bandIdsOf'.mp hb)
  obtain ⟨w2, h2, q2⟩ := run_validateBands ok.wf (bandIdsOf s) hbs [] _ _ q1
  have hc2 : w2.crashAt = none := by
    have e0 : w0.crashAt = none := by
      have := World.exec_crashAt w (.listDir .root); rw [he0] at this; rw [this, hc]
    have e1 : w1.crashAt = none := by
      have := Prog.run_crashAt listBandIds w0; rw [h1] at this; rw [this, e0]
    have := Prog.run_crashAt (validateBands (bandIdsOf s) []) w1; rw [h2] at this; rw [this, e1]
  obtain ⟨w3, h3, q3⟩ := run_listBlocks q2 hc2 hn ok.blockRoot
  obtain ⟨w4, h4, q4⟩ := run_validateTail H quick (referencedOf s) q3
  have hstart : (validate H quick).run w =
      (validateTail H quick (referencedOf s) (blockNamesOf s)).run w3 := by
    simp only [validate, perform, Prog.bind_def, Prog.op_bind, Prog.ret_bind, Prog.run_op, he0,
      quietResp, ok.root, Prog.pure_def, Prog.run_bind, h1, h2, h3, referencedOf]
    rfl
  refine ⟨w4, by rw [hstart, h4], ?_⟩
  unfold validateErrors
  rw [evsOf_append, List.append_assoc]
  exact q4

/-- `conserve validate`: `Archive::open`, then `Archive::validate`. -/
def check (quick : Bool) : Prog Unit := archiveOpen.bind fun _ => validate H quick

theorem run_archiveOpen {s : Store} {evs : List Event} {w : World} (h : Quiet s evs w) :
    ∃ w', archiveOpen.run w =
      ((match headerError s with
        | none => Outcome.ok ()
        | some e => Outcome.err e), w') ∧ Quiet s evs w' := by
  obtain ⟨w', he, hq⟩ := h.exec_ro (.read .header) rfl
  refine ⟨w', ?_, hq⟩
  simp only [archiveOpen, perform, Prog.bind_def, Prog.op_bind, Prog.ret_bind, Prog.run_op, he,
    quietResp, headerError]
  cases s.get? .header with
  | none => rfl
  | some v =>
    cases v with
    | header ver => by_cases hv : ver = [48, 46, 54] <;> simp [hv]
    | _ => rfl

/-- The driver: a header that does not open ends the run with that error and nothing else;
otherwise `validate` runs to the end and reports `validateErrors`. -/
theorem run_check {s : Store} (ok : ArchOK s) (quick : Bool) :
    ((check H quick).run (World.clean s)).1 =
        (match headerError s with
         | none => Outcome.ok ()
         | some e => Outcome.err e) ∧
      ((check H quick).run (World.clean s)).2.store = s ∧
      ((check H quick).run (World.clean s)).2.events =
        (match headerError s with
         | none => evsOf (validateErrors H quick s)
         | some _ => []) := by
  obtain ⟨w1, h1, q1⟩ := run_archiveOpen (Quiet.clean s)
  have hc1 : w1.crashAt = none := by
    have := Prog.run_crashAt archiveOpen (World.clean s); rw [h1] at this; rw [this]; rfl
  unfold check
  rw [Prog.run_bind, h1]
  cases hh : headerError s with
  | some e => exact ⟨rfl, q1.store, q1.events⟩
  | none =>
    obtain ⟨w2, h2, q2⟩ := run_validate H ok quick q1 hc1
    simp only [h2]
    exact ⟨trivial, q2.store, by simpa using q2.events⟩

end
end Conserve
