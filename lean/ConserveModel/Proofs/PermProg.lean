import ConserveModel.Proofs.PermStore
/-
Helper lemmas for C17: running programs in worlds that differ only in the order of the
association list.

`WEquiv w w'`: same faults, crash point, step count, events, liveness; equivalent stores; traces
that agree operation by operation, with responses equal up to the order of listings.
`ProgEquiv R p q`: `p` and `q` issue the same operations as long as they are given responses that
agree up to the order of listings, and end in `R`-related results.  `run_equiv` is the
fundamental lemma: equivalent programs in equivalent worlds end in related outcomes and
equivalent worlds.
-/
namespace Conserve
open Prog

/-- Two trace events: the same operation; responses equal up to the order of a listing, and equal
outright for every operation that is not a `listDir`. -/
def TraceEv.Equiv (a b : TraceEv) : Prop :=
  a.op = b.op ∧ Resp.Equiv a.resp b.resp ∧ (a.op.verb ≠ .listDir → a.resp = b.resp)

/-- Traces that agree event by event. -/
inductive TraceEquiv : List TraceEv → List TraceEv → Prop
  | nil : TraceEquiv [] []
  | cons {a b : TraceEv} {t t' : List TraceEv} : TraceEv.Equiv a b → TraceEquiv t t' →
      TraceEquiv (a :: t) (b :: t')

structure WEquiv (w w' : World) : Prop where
  store : StoreEquiv w.store w'.store
  nd₁ : Store.NoDupKeys w.store
  nd₂ : Store.NoDupKeys w'.store
  ecn : w.enforceCreateNew = w'.enforceCreateNew
  faults : w.faults = w'.faults
  crashAt : w.crashAt = w'.crashAt
  steps : w.steps = w'.steps
  events : w.events = w'.events
  dead : w.dead = w'.dead
  trace : TraceEquiv w.trace w'.trace

theorem TraceEquiv.filter_length {t t' : List TraceEv} (h : TraceEquiv t t') (p : Op → Bool) :
    (t.filter fun ev => p ev.op).length = (t'.filter fun ev => p ev.op).length := by
  induction h with
  | nil => rfl
  | cons hab _ ih =>
    simp only [List.filter_cons, hab.1]
    split <;> simp [ih]

theorem WEquiv.faultFor {w w' : World} (h : WEquiv w w') (o : Op) : w.faultFor o = w'.faultFor o := by
  unfold World.faultFor World.occurrences
  rw [h.faults, h.trace.filter_length (fun op => op.verb == o.verb && op.key == o.key)]

/-- Equivalent traces issue the same operations in the same order. -/
theorem TraceEquiv.ops_eq {t t' : List TraceEv} (h : TraceEquiv t t') : t.map (·.op) = t'.map (·.op) := by
  induction h with
  | nil => rfl
  | cons hab _ ih => simp [hab.1, ih]

theorem TraceEquiv.length_eq {t t' : List TraceEv} (h : TraceEquiv t t') : t.length = t'.length := by
  induction h with
  | nil => rfl
  | cons _ _ ih => simp [ih]

/-- Equivalent traces agree completely (operation and response) on every event that is not a
listing; in particular on all mutating operations. -/
theorem TraceEquiv.filter_eq {t t' : List TraceEv} (h : TraceEquiv t t') (p : Op → Bool)
    (hp : ∀ o, p o = true → o.verb ≠ .listDir) :
    t.filter (fun ev => p ev.op) = t'.filter (fun ev => p ev.op) := by
  induction h with
  | nil => rfl
  | @cons a b _ _ hab _ ih =>
    simp only [List.filter_cons, ← hab.1]
    split
    · rename_i hpa
      have : a = b := by
        obtain ⟨ao, ar⟩ := a
        obtain ⟨bo, br⟩ := b
        obtain ⟨h1, _, h3⟩ := hab
        simp only at h1 h3 hpa
        subst h1
        rw [h3 (hp _ hpa)]
      rw [this, ih]
    · exact ih

theorem TraceEquiv.mutating_eq {t t' : List TraceEv} (h : TraceEquiv t t') :
    t.filter (fun ev => ev.op.isMutating) = t'.filter (fun ev => ev.op.isMutating) :=
  h.filter_eq Op.isMutating (by intro o; cases o <;> simp [Op.isMutating, Op.verb])

/-- Fault-free, crash-free worlds over equivalent stores are equivalent. -/
theorem WEquiv.clean {s t : Store} (h : StoreEquiv s t) (hs : Store.NoDupKeys s) (ht : Store.NoDupKeys t) :
    WEquiv (World.clean s) (World.clean t) :=
  ⟨h, hs, ht, rfl, rfl, rfl, rfl, rfl, rfl, .nil⟩

/-- What `exec_equiv` and `run_equiv` say about a response pair for operation `o`. -/
def RespRel (o : Op) (r r' : Resp) : Prop :=
  Resp.Equiv r r' ∧ (o.verb ≠ .listDir → r = r') ∧ (∀ xs, r = .listing xs → GoodListing o.key xs)

theorem RespRel.rfl' (o : Op) (r : Resp)
    (hg : ∀ xs, r = .listing xs → GoodListing o.key xs := by intro _ h; cases h) : RespRel o r r :=
  ⟨.refl _, fun _ => rfl, hg⟩

theorem applyOp_respRel (e : Bool) {s t : Store} (h : StoreEquiv s t) (hs : Store.NoDupKeys s) (ht : Store.NoDupKeys t)
    (o : Op) : RespRel o (applyOp e s o).2 (applyOp e t o).2 :=
  ⟨(applyOp_equiv e h hs ht o).2.1, (applyOp_equiv e h hs ht o).2.2, fun _ hx => applyOp_listing_good e hs o hx⟩

/-- **One step**: executing the same operation in equivalent worlds (any faults, any crash point,
dead or alive) gives equivalent worlds and responses equal up to the order of a listing. -/
theorem exec_equiv {w w' : World} (h : WEquiv w w') (o : Op) :
    WEquiv (w.exec o).1 (w'.exec o).1 ∧ RespRel o (w.exec o).2 (w'.exec o).2 := by
  have hf := h.faultFor o
  obtain ⟨hst, hn1, hn2, hecn, hfa, hcr, hsteps, hev, hdead, htr⟩ := h
  obtain ⟨s, ecn, fa, cr, steps, tr, ev, dead⟩ := w
  obtain ⟨s', ecn', fa', cr', steps', tr', ev', dead'⟩ := w'
  simp only at hst hn1 hn2 hecn hfa hcr hsteps hev hdead htr
  subst hecn hfa hcr hsteps hev hdead
  have mk : ∀ (a b : Store) (n : Nat) (d : Bool) (t t' : List TraceEv), StoreEquiv a b → Store.NoDupKeys a →
      Store.NoDupKeys b → TraceEquiv t t' →
      WEquiv ⟨a, ecn, fa, cr, n, t, ev, d⟩ ⟨b, ecn, fa, cr, n, t', ev, d⟩ :=
    fun a b n d t t' h1 h2 h3 h4 => ⟨h1, h2, h3, rfl, rfl, rfl, rfl, rfl, rfl, h4⟩
  have push : ∀ (r r' : Resp), RespRel o r r' → TraceEquiv (⟨o, r⟩ :: tr) (⟨o, r'⟩ :: tr') :=
    fun r r' hr => .cons ⟨rfl, hr.1, hr.2.1⟩ htr
  unfold World.exec
  simp only
  rw [← hf]
  generalize World.faultFor ⟨s, ecn, fa, cr, steps, tr, ev, dead⟩ o = ff
  cases dead with
  | true =>
    simp only [if_true]
    exact ⟨mk _ _ _ _ _ _ hst hn1 hn2 htr, RespRel.rfl' _ _⟩
  | false =>
    simp only [Bool.false_eq_true, if_false]
    cases ff with
    | some e =>
      exact ⟨mk _ _ _ _ _ _ hst hn1 hn2 (push _ _ (RespRel.rfl' _ _)), RespRel.rfl' _ _⟩
    | none =>
      have hap := applyOp_equiv ecn hst hn1 hn2 o
      by_cases hm : o.isMutating = true
      · simp only [hm, Bool.not_true, Bool.false_eq_true, if_false, World.crashesAt]
        by_cases hc : (cr == some steps) = true
        · simp only [hc, if_true]
          exact ⟨mk _ _ _ _ _ _ hst hn1 hn2 htr, RespRel.rfl' _ _⟩
        · simp only [hc]
          cases o with
          | write k v m =>
            have hap1 := applyOp_equiv ecn hst hn1 hn2 (.write k .empty m)
            have hnd1 := applyOp_noDupKeys ecn hn1 (.write k .empty m)
            have hnd2 := applyOp_noDupKeys ecn hn2 (.write k .empty m)
            have hreq := hap1.2.2 (by simp [Op.verb])
            simp only
            rw [← hreq]
            cases hr : (applyOp ecn s (.write k .empty m)).2 with
            | unit =>
              simp only
              by_cases hc2 : (cr == some (steps + 1)) = true
              · simp only [hc2, if_true]
                exact ⟨mk _ _ _ _ _ _ hap1.1 hnd1 hnd2 htr, RespRel.rfl' _ _⟩
              · simp only [hc2]
                exact ⟨mk _ _ _ _ _ _ (hap1.1.put _ _) (hnd1.put _ _) (hnd2.put _ _)
                  (push _ _ (RespRel.rfl' _ _)), RespRel.rfl' _ _⟩
            | val _ | listing _ | stat _ _ | err _ =>
              simp only
              have hg := fun xs hx => applyOp_listing_good ecn hn1 (.write k .empty m) (xs := xs) (hr.trans hx)
              exact ⟨mk _ _ _ _ _ _ hst hn1 hn2 (push _ _ (RespRel.rfl' _ _ hg)), RespRel.rfl' _ _ hg⟩
          | read k | listDir k | metadata k => simp [Op.isMutating] at hm
          | createDir k | removeFile k | removeDirAll k =>
            simp only
            have hreq := hap.2.2 (by simp [Op.verb])
            rw [← hreq]
            exact ⟨mk _ _ _ _ _ _ hap.1 (applyOp_noDupKeys ecn hn1 _) (applyOp_noDupKeys ecn hn2 _)
              (push _ _ (RespRel.rfl' _ _ (fun _ hx => applyOp_listing_good ecn hn1 _ hx))),
              RespRel.rfl' _ _ (fun _ hx => applyOp_listing_good ecn hn1 _ hx)⟩
      · simp only [hm, Bool.not_false, if_true]
        have hr := applyOp_respRel ecn hst hn1 hn2 o
        exact ⟨mk _ _ _ _ _ _ hst hn1 hn2 (push _ _ hr), hr⟩

/-! ### Equivalent programs -/

/-- `p` and `q` do the same thing whenever the storage answers them the same up to the order of
listings, and return `R`-related results. -/
inductive ProgEquiv {α β : Type} (R : α → β → Prop) : Prog α → Prog β → Prop
  | ret {a : α} {b : β} : R a b → ProgEquiv R (.ret a) (.ret b)
  | fail (e : Err) : ProgEquiv R (.fail e) (.fail e)
  | panic (s : String) : ProgEquiv R (.panic s) (.panic s)
  | emit (ev : Event) {k : Prog α} {k' : Prog β} : ProgEquiv R k k' → ProgEquiv R (.emit ev k) (.emit ev k')
  | op (o : Op) {k : Resp → Prog α} {k' : Resp → Prog β} :
      (∀ r r', RespRel o r r' → ProgEquiv R (k r) (k' r')) → ProgEquiv R (.op o k) (.op o k')

/-- Outcomes related through `R` on results; errors and panics equal. -/
inductive Outcome.Rel {α β : Type} (R : α → β → Prop) : Outcome α → Outcome β → Prop
  | ok {a : α} {b : β} : R a b → Outcome.Rel R (.ok a) (.ok b)
  | err (e : Err) : Outcome.Rel R (.err e) (.err e)
  | panic (s : String) : Outcome.Rel R (.panic s) (.panic s)

theorem Outcome.Rel.eq {α : Type} {a b : Outcome α} (h : Outcome.Rel Eq a b) : a = b := by
  cases h with
  | ok h => rw [h]
  | err => rfl
  | panic => rfl

/-- **Fundamental lemma**: equivalent programs run in equivalent worlds end with related outcomes
in equivalent worlds. -/
theorem run_equiv {α β : Type} {R : α → β → Prop} {p : Prog α} {q : Prog β} (hpq : ProgEquiv R p q)
    {w w' : World} (hw : WEquiv w w') :
    Outcome.Rel R (p.run w).1 (q.run w').1 ∧ WEquiv (p.run w).2 (q.run w').2 := by
  induction hpq generalizing w w' with
  | ret h => exact ⟨.ok h, hw⟩
  | fail e => exact ⟨.err e, hw⟩
  | panic s => exact ⟨.panic s, hw⟩
  | emit ev _ ih =>
    simp only [Prog.run_emit]
    apply ih
    exact { hw with events := by simp [hw.events] }
  | op o _ ih =>
    simp only [Prog.run_op]
    have := exec_equiv hw o
    exact ih _ _ this.2 this.1

namespace ProgEquiv
variable {α β γ δ : Type}

theorem mono {R S : α → β → Prop} {p : Prog α} {q : Prog β} (h : ProgEquiv R p q)
    (hRS : ∀ a b, R a b → S a b) : ProgEquiv S p q := by
  induction h with
  | ret h => exact .ret (hRS _ _ h)
  | fail e => exact .fail e
  | panic s => exact .panic s
  | emit ev _ ih => exact .emit ev ih
  | op o _ ih => exact .op o ih

theorem bind' {R : α → β → Prop} {S : γ → δ → Prop} {p : Prog α} {q : Prog β}
    {f : α → Prog γ} {g : β → Prog δ} (h : ProgEquiv R p q)
    (hfg : ∀ a b, R a b → ProgEquiv S (f a) (g b)) : ProgEquiv S (p.bind f) (q.bind g) := by
  induction h with
  | ret h => exact hfg _ _ h
  | fail e => exact .fail e
  | panic s => exact .panic s
  | emit ev _ ih => exact .emit ev ih
  | op o _ ih => exact .op o ih

theorem bind {R : α → β → Prop} {S : γ → δ → Prop} {p : Prog α} {q : Prog β}
    {f : α → Prog γ} {g : β → Prog δ} (h : ProgEquiv R p q)
    (hfg : ∀ a b, R a b → ProgEquiv S (f a) (g b)) : ProgEquiv S (p >>= f) (q >>= g) := bind' h hfg

/-- Sequencing after a program whose two runs return equal results. -/
theorem bindEq {S : γ → δ → Prop} {p q : Prog α} {f : α → Prog γ} {g : α → Prog δ}
    (h : ProgEquiv Eq p q) (hfg : ∀ a, ProgEquiv S (f a) (g a)) : ProgEquiv S (p >>= f) (q >>= g) :=
  bind' h (fun a _ hab => hab ▸ hfg a)

/-- Relation on `Except Err _` values produced by `attempt`. -/
inductive ExceptRel (R : α → β → Prop) : Except Err α → Except Err β → Prop
  | ok {a : α} {b : β} : R a b → ExceptRel R (.ok a) (.ok b)
  | error (e : Err) : ExceptRel R (.error e) (.error e)

theorem ExceptRel.eq {a b : Except Err α} (h : ExceptRel Eq a b) : a = b := by
  cases h with
  | ok h => rw [h]
  | error => rfl

theorem attempt {R : α → β → Prop} {p : Prog α} {q : Prog β} (h : ProgEquiv R p q) :
    ProgEquiv (ExceptRel R) p.attempt q.attempt := by
  induction h with
  | ret h => exact .ret (.ok h)
  | fail e => exact .ret (.error e)
  | panic s => exact .panic s
  | emit ev _ ih => exact .emit ev ih
  | op o _ ih => exact .op o ih

theorem attemptEq {p q : Prog α} (h : ProgEquiv Eq p q) : ProgEquiv Eq p.attempt q.attempt :=
  (attempt h).mono fun _ _ h => h.eq

theorem attemptAll {R : α → β → Prop} {p : Prog α} {q : Prog β} (h : ProgEquiv R p q) :
    ProgEquiv (Outcome.Rel R) p.attemptAll q.attemptAll := by
  induction h with
  | ret h => exact .ret (.ok h)
  | fail e => exact .ret (.err e)
  | panic s => exact .ret (.panic s)
  | emit ev _ ih => exact .emit ev ih
  | op o _ ih => exact .op o ih

theorem attemptAllEq {p q : Prog α} (h : ProgEquiv Eq p q) : ProgEquiv Eq p.attemptAll q.attemptAll :=
  (attemptAll h).mono fun _ _ h => h.eq

/-- One operation: the two responses are related by `RespRel`. -/
theorem perform (o : Op) : ProgEquiv (RespRel o) (Prog.perform o) (Prog.perform o) :=
  .op o fun _ _ h => .ret h

/-- One operation that is not a listing: the two responses are equal. -/
theorem performEq (o : Op) (h : o.verb ≠ .listDir) : ProgEquiv Eq (Prog.perform o) (Prog.perform o) :=
  .op o fun _ _ hr => .ret (hr.2.1 h)

theorem pure {R : α → β → Prop} {a : α} {b : β} (h : R a b) :
    ProgEquiv R (Pure.pure a : Prog α) (Pure.pure b : Prog β) := .ret h

theorem pureEq (a : α) : ProgEquiv Eq (Pure.pure a : Prog α) (Pure.pure a) := .ret rfl

end ProgEquiv

end Conserve
