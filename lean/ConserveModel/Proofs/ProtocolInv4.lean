import ConserveModel.Proofs.ProtocolInv3
/-
Invariants of the protocol skeleton, group 4: the backup's own band as gc sees it.
`CheckLemma` is the heart of the interlock: when `check()` passes, either no band directory had
been created by the backup yet (the window of defect D7), or the backup had already finished
before gc looked at the newest band — and then gc treats the new band like any other.
-/
set_option linter.unusedVariables false  -- uniform lemma signatures

namespace Conserve.Proto

/-- While blocks are being handled, every needed block is still to do or known to `exists`. -/
def Handled (p : State) : Prop :=
  p.b.pc = .blocks → ∀ g ∈ p.b.needed, g ∈ p.b.todo ∨ g ∈ p.b.exists_
/-- If the newest band gc remembered is the backup's, and gc got past `G.tailCheck`, the backup
had finished. -/
def SawDone (p : State) : Prop :=
  p.g.pc.pending2 = true → p.b.pc.mkdirDone = true → p.g.newest = some p.b.newId → p.b.pc = .done
def NewListed (c : Config) (p : State) : Prop :=
  p.g.pc = .readRefs → p.b.pc.mkdirDone = true → p.g.newest = some p.b.newId →
    p.b.newId ∈ c.del ∨ p.b.newId ∈ p.g.keep
def NewRead (c : Config) (p : State) : Prop :=
  p.g.pc = .listBlocks → p.b.pc.mkdirDone = true → p.g.newest = some p.b.newId →
    p.b.newId ∈ c.del ∨ ∀ b ∈ p.bands, b.id = p.b.newId → ∀ g ∈ b.refs, g ∈ p.g.referenced
def NewUnref (c : Config) (p : State) : Prop :=
  p.g.pc = .measure → p.b.pc.mkdirDone = true → p.g.newest = some p.b.newId →
    p.b.newId ∈ c.del ∨ ∀ b ∈ p.bands, b.id = p.b.newId → ∀ g ∈ b.refs, g ∉ p.g.unref
/-- After `check()` passed: it ran before `B.mkdir`, or the backup is done and its band is either
about to be deleted or shares no block with `unref`. -/
def CheckLemma (p : State) : Prop :=
  p.g.passed = true → mkdirBeforeCheck p.log = false ∨
    (p.b.pc = .done ∧ ∀ b ∈ p.bands, isNew p b → b.id ∈ p.g.todoBands ∨ ∀ g ∈ b.refs, g ∉ p.g.unref)
/-- If `check()` ran before `B.mkdir`, `unref` consists of initial blocks. -/
def WindowUnref (c : Config) (p : State) : Prop :=
  mkdirBeforeCheck p.log = false → ∀ g ∈ p.g.unref, g ∈ c.present

structure Inv4 (c : Config) (p : State) : Prop where
  handled : Handled p
  sawDone : SawDone p
  newListed : NewListed c p
  newRead : NewRead c p
  newUnref : NewUnref c p
  checkLemma : CheckLemma p
  windowUnref : WindowUnref c p

theorem Inv4.start (c : Config) : Inv4 c c.start := by
  constructor <;>
    simp [Config.start, isNew, BPc.mkdirDone, GPc.pending2, Handled, SawDone, NewListed, NewRead,
      NewUnref, CheckLemma, WindowUnref, mkdirBeforeCheck]

section
variable {c : Config} {p : State}

theorem Handled.presB (h1 : Inv1 c p) (h2 : Inv2 c p) (h3 : Inv3 c p) (h : Inv4 c p) :
    Handled (stepB p) := by
  have f1 := h.handled
  simp only [Handled] at *
  pres_step stepB

theorem Handled.presG (h1 : Inv1 c p) (h2 : Inv2 c p) (h3 : Inv3 c p) (h : Inv4 c p) :
    Handled (stepG p) := by
  have f1 := h.handled
  simp only [Handled] at *
  pres_step stepG

theorem SawDone.presB (h1 : Inv1 c p) (h2 : Inv2 c p) (h3 : Inv3 c p) (h : Inv4 c p) :
    SawDone (stepB p) := by
  have f2 := h.sawDone
  have o6 := h2.newestWitness
  have o2 := h2.below
  simp only [SawDone, NewestWitness, Below] at *
  pres_step stepB

theorem SawDone.presG (h1 : Inv1 c p) (h2 : Inv2 c p) (h3 : Inv3 c p) (h : Inv4 c p) :
    SawDone (stepG p) := by
  have f2 := h.sawDone
  have o3 := h2.newBand
  simp only [SawDone, NewBand] at *
  pres_step stepG

theorem NewListed.presB (h1 : Inv1 c p) (h2 : Inv2 c p) (h3 : Inv3 c p) (h : Inv4 c p) :
    NewListed c (stepB p) := by
  have f3 := h.newListed
  have o6 := h2.newestWitness
  have o2 := h2.below
  simp only [NewListed, NewestWitness, Below] at *
  pres_step stepB

theorem NewListed.presG (h1 : Inv1 c p) (h2 : Inv2 c p) (h3 : Inv3 c p) (h : Inv4 c p) :
    NewListed c (stepG p) := by
  have f3 := h.newListed
  have o4 := h2.newPresent
  have hp := h1.passed
  have hdel := h1.del
  simp only [NewListed, NewPresent] at *
  pres_step stepG

theorem NewRead.presB (h1 : Inv1 c p) (h2 : Inv2 c p) (h3 : Inv3 c p) (h : Inv4 c p) :
    NewRead c (stepB p) := by
  have f4 := h.newRead
  have f2 := h.sawDone
  have o6 := h2.newestWitness
  have o2 := h2.below
  simp only [NewRead, SawDone, NewestWitness, Below] at *
  pres_step stepB

theorem NewRead.presG (h1 : Inv1 c p) (h2 : Inv2 c p) (h3 : Inv3 c p) (h : Inv4 c p) :
    NewRead c (stepG p) := by
  have f4 := h.newRead
  have f3 := h.newListed
  simp only [NewRead, NewListed] at *
  pres_step stepG

theorem NewUnref.presB (h1 : Inv1 c p) (h2 : Inv2 c p) (h3 : Inv3 c p) (h : Inv4 c p) :
    NewUnref c (stepB p) := by
  have f5 := h.newUnref
  have f2 := h.sawDone
  have o6 := h2.newestWitness
  have o2 := h2.below
  simp only [NewUnref, SawDone, NewestWitness, Below] at *
  pres_step stepB

theorem NewUnref.presG (h1 : Inv1 c p) (h2 : Inv2 c p) (h3 : Inv3 c p) (h : Inv4 c p) :
    NewUnref c (stepG p) := by
  have f5 := h.newUnref
  have f4 := h.newRead
  simp only [NewUnref, NewRead] at *
  pres_step stepG

theorem CheckLemma.presB (h1 : Inv1 c p) (h2 : Inv2 c p) (h3 : Inv3 c p) (h : Inv4 c p) :
    CheckLemma (stepB p) := by
  have f6 := h.checkLemma
  simp only [CheckLemma] at *
  pres_step stepB

theorem WindowUnref.presB (h1 : Inv1 c p) (h2 : Inv2 c p) (h3 : Inv3 c p) (h : Inv4 c p) :
    WindowUnref c (stepB p) := by
  have f7 := h.windowUnref
  simp only [WindowUnref] at *
  pres_step stepB

theorem WindowUnref.presG (h1 : Inv1 c p) (h2 : Inv2 c p) (h3 : Inv3 c p) (h : Inv4 c p) :
    WindowUnref c (stepG p) := by
  have f7 := h.windowUnref
  have e1 := h3.noWriteYet
  have hml := h1.mkdirLogged
  have hlc := h1.logCheck
  simp only [WindowUnref, NoWriteYet] at *
  pres_step stepG

theorem newestId_eq_of {bs : List Band} {m : Nat} (hw : ∃ b ∈ bs, b.id = m) (hle : ∀ b ∈ bs, b.id ≤ m) :
    newestId bs = some m := by
  cases h : newestId bs with
  | none => rw [newestId_none.mp h] at hw; simp at hw
  | some k =>
    obtain ⟨h1, b, hb, h2⟩ := newestId_some h
    obtain ⟨b', hb', h3⟩ := hw
    have := hle b hb
    have := h1 b' hb'
    congr 1; omega

theorem mkdirDone_listIdDone {pc : BPc} (h : pc.mkdirDone = true) : pc.listIdDone = true := by
  cases pc <;> simp_all [BPc.mkdirDone, BPc.listIdDone]

/-- The moment `check()` passes. -/
theorem check_pass_case (h1 : Inv1 c p) (h2 : Inv2 c p) (h : Inv4 c p)
    (hpc : p.g.pc = .measure) (heq : newestId p.bands = p.g.newest) :
    p.b.pc.mkdirDone = false ∨
      (p.b.pc = .done ∧ (p.b.newId ∈ c.del ∨ ∀ b ∈ p.bands, b.id = p.b.newId → ∀ g ∈ b.refs, g ∉ p.g.unref)) := by
  cases hm : p.b.pc.mkdirDone with
  | false => exact Or.inl rfl
  | true =>
    right
    have hpassed : p.g.passed = false := by
      cases hps : p.g.passed with
      | false => rfl
      | true => have := h1.passed hps; simp [hpc] at this
    obtain ⟨b0, hb0, hid⟩ := h2.newPresent hm hpassed
    have hle : ∀ b ∈ p.bands, b.id ≤ p.b.newId := by
      intro b hb
      by_cases hbn : b.id = p.b.newId
      · omega
      · have := h2.below (mkdirDone_listIdDone hm) b hb (fun hn => hbn hn.2)
        omega
    have hnew : p.g.newest = some p.b.newId := by
      rw [← heq]; exact newestId_eq_of ⟨b0, hb0, hid⟩ hle
    exact ⟨h.sawDone (by simp [hpc, GPc.pending2]) hm hnew, h.newUnref hpc hm hnew⟩

theorem CheckLemma.presG (h1 : Inv1 c p) (h2 : Inv2 c p) (_h3 : Inv3 c p) (h : Inv4 c p) :
    CheckLemma (stepG p) := by
  have f6 := h.checkLemma
  have hlm := h1.logMkdir
  have hdel := h1.del
  have hcp := check_pass_case h1 h2 h
  have hp := h1.passed
  simp only [CheckLemma] at *
  pres_step stepG

theorem Inv4.presB (h1 : Inv1 c p) (h2 : Inv2 c p) (h3 : Inv3 c p) (h : Inv4 c p) : Inv4 c (stepB p) :=
  ⟨Handled.presB h1 h2 h3 h, SawDone.presB h1 h2 h3 h, NewListed.presB h1 h2 h3 h, NewRead.presB h1 h2 h3 h,
   NewUnref.presB h1 h2 h3 h, CheckLemma.presB h1 h2 h3 h, WindowUnref.presB h1 h2 h3 h⟩

theorem Inv4.presG (h1 : Inv1 c p) (h2 : Inv2 c p) (h3 : Inv3 c p) (h : Inv4 c p) : Inv4 c (stepG p) :=
  ⟨Handled.presG h1 h2 h3 h, SawDone.presG h1 h2 h3 h, NewListed.presG h1 h2 h3 h, NewRead.presG h1 h2 h3 h,
   NewUnref.presG h1 h2 h3 h, CheckLemma.presG h1 h2 h3 h, WindowUnref.presG h1 h2 h3 h⟩

end

end Conserve.Proto
