import ConserveModel.Proofs.FaultStrict
import ConserveModel.Proofs.ExactTop
import ConserveModel.Proofs.NoPanicRead
/-
`backup()` in a world with ANY injected faults (no crash point) that returns statistics with
`errors = 0`: the prelude found what the fault-free prelude finds (except for the basis listing,
which may be any list of usable entries), the main part hit no fault (`backupMain_strict`), hence
ran exactly like the fault-free main part (`Fault.sim`), hence the archive it leaves is `Final`.
No property statements here.
-/
set_option linter.unusedSimpArgs false
namespace Conserve.Fault
open Conserve Conserve.Exact Conserve.Inv Prog

variable {H : Str → Str} {o : BackupOpts}

/-! ### Strictness of the prelude's pieces -/

theorem listBandIds_strict : Strict listBandIds (fun _ => True) := by
  unfold listBandIds
  simp only [Prog.bind_def, Prog.pure_def, perform, Prog.op_bind, Prog.ret_bind]
  refine Strict.op (fun e => .fail _) fun r => ?_
  split
  · exact Strict.ret _ _
  · exact Strict.fail _ _
  · exact Strict.fail _ _

theorem lastBandId_strict : Strict lastBandId (fun _ => True) := by
  unfold lastBandId
  simp only [Prog.bind_def, Prog.pure_def]
  exact Strict.bind' listBandIds_strict fun _ => Strict.ret _ _

theorem bandCreate_strict : Strict bandCreate (fun _ => True) := by
  unfold bandCreate
  simp only [Prog.bind_def, Prog.pure_def]
  refine Strict.bind' lastBandId_strict fun _ => ?_
  refine Strict.bind' (performUnit_strict _) fun _ => ?_
  refine Strict.bind' (performUnit_strict _) fun _ => ?_
  exact Strict.bind' (performUnit_strict _) fun _ => Strict.ret _ _

theorem listBlocks_go_strict (ps : List Str) : ∀ acc, Strict (listBlocks.go ps acc) (fun _ => True) := by
  induction ps with
  | nil => intro acc; unfold listBlocks.go; exact Strict.ret _ _
  | cons p ps ih =>
    intro acc
    unfold listBlocks.go
    simp only [Prog.bind_def, Prog.pure_def, perform, Prog.op_bind, Prog.ret_bind]
    refine Strict.op (fun e => .fail _) fun r => ?_
    split
    · exact ih _
    · exact Strict.fail _ _
    · exact Strict.fail _ _

theorem listBlocks_strict : Strict listBlocks (fun _ => True) := by
  unfold listBlocks
  simp only [Prog.bind_def, Prog.pure_def, perform, Prog.op_bind, Prog.ret_bind]
  refine Strict.op (fun e => .fail _) fun r => ?_
  split
  · exact listBlocks_go_strict _ _
  · exact Strict.fail _ _
  · exact Strict.fail _ _

/-! ### The prelude in a live world -/

/-- What a live world looks like after a program ran: still live, the store as stated. -/
structure LiveAt (w : World) (s : Store) : Prop where
  live : Live w
  store : w.store = s

/-- A strict program that returned, in a live world, did what the fault-free run does. -/
theorem strict_runsAt {α : Type} {p : Prog α} {w : World} {s s' : Store} {a : α} {out : Outcome α}
    {ev : List Event} (hw : LiveAt w s) (hp : Strict p (fun _ => True)) (hrun : (p.run w).1 = .ok a)
    (hr : RunsAt p s out s' ev) : out = .ok a ∧ LiveAt (p.run w).2 s' := by
  have hu := hp w hw.live a hrun trivial
  obtain ⟨h1, h2, _⟩ := sim_runsAt hw.live hu (hw.store ▸ hr)
  exact ⟨h1.symm.trans hrun, hw.live.run p, h2⟩

theorem ro_liveAt {α : Type} {p : Prog α} {w : World} {s : Store} (hw : LiveAt w s) (hp : Prog.AllOps RO p) :
    LiveAt (p.run w).2 s := ⟨hw.live.run p, (run_ro_store hp w).trans hw.store⟩

/-- **The prelude with faults.**  From a good archive, in a live world (any faults): if the prelude
returns, it returns the new version's id, the names of all present blocks, and SOME list of usable
entries as the basis listing (read faults may have shortened or changed it); the store is the one
with the new version's directory, index directory and head. -/
theorem prelude_faulty (hlen : ∀ d, subdirNameChars ≤ (H d).length) {src : List SrcEntry} {s : Store}
    (hst : StoreOK H s) {w : World} (hw : LiveAt w s) {x : Nat × List Str × List IndexEntry}
    (hrun : (backupPrelude.run w).1 = .ok x) :
    x.1 = newBandOf s ∧ x.2.1 = blockNamesOf (withNewBand s) ∧ LiveAt (backupPrelude.run w).2 (withNewBand s) ∧
      NP.AllUsable x.2.2 := by
  have hst1 : StoreOK H (withNewBand s) := withNewBand_storeOK hst
  have hlast : RunsAt lastBandId s (.ok (maxNat? (bandIdsOf s))) s [] := fun w hw => by
    have := lastBandId_runs hw.quiet (by rw [hw.store]; exact hst.root)
    rwa [hw.store] at this
  have hblocks : RunsAt listBlocks (withNewBand s) (.ok (blockNamesOf (withNewBand s))) (withNewBand s) [] :=
    fun w hw => by
      have := listBlocks_runs hw.quiet (by rw [hw.store]; exact hst1.blockRoot)
        (by rw [hw.store]; exact blockSubdirs_are_dirs hst1.uniqueKeys)
      rwa [hw.store] at this
  unfold backupPrelude at hrun ⊢
  -- the first look at the lock
  obtain ⟨locked, h1, hrun⟩ := Prog.run_bind_ok_inv hrun
  rw [Prog.run_bind_ok h1]
  have hw1 : LiveAt (gcIsLocked.run w).2 s := ro_liveAt hw (Inv.isFile_ro .gcLock)
  generalize (gcIsLocked.run w).2 = w1 at hw1 hrun ⊢
  cases locked with
  | true => simp at hrun
  | false =>
    simp only [Bool.false_eq_true, if_false] at hrun ⊢
    -- the newest existing version
    obtain ⟨bb, h2, hrun⟩ := Prog.run_bind_ok_inv hrun
    rw [Prog.run_bind_ok h2]
    obtain ⟨hbb, hw2⟩ := strict_runsAt hw1 lastBandId_strict h2 hlast
    generalize (lastBandId.run w1).2 = w2 at hw2 hrun ⊢
    -- the new version
    obtain ⟨band, h3, hrun⟩ := Prog.run_bind_ok_inv hrun
    rw [Prog.run_bind_ok h3]
    obtain ⟨hband, hw3⟩ := strict_runsAt hw2 bandCreate_strict h3 (bandCreate_runs hst)
    generalize (bandCreate.run w2).2 = w3 at hw3 hrun ⊢
    -- the second look at the lock
    obtain ⟨locked2, h4, hrun⟩ := Prog.run_bind_ok_inv hrun
    rw [Prog.run_bind_ok h4]
    have hw4 : LiveAt (gcLockListed.run w3).2 (withNewBand s) := ro_liveAt hw3 Inv.gcLockListed_ro
    generalize (gcLockListed.run w3).2 = w4 at hw4 hrun ⊢
    cases locked2 with
    | true => simp at hrun
    | false =>
      simp only [Bool.false_eq_true, if_false] at hrun ⊢
      -- the blocks
      obtain ⟨blocks, h5, hrun⟩ := Prog.run_bind_ok_inv hrun
      rw [Prog.run_bind_ok h5]
      obtain ⟨hbl, hw5⟩ := strict_runsAt hw4 listBlocks_strict h5 hblocks
      generalize (listBlocks.run w4).2 = w5 at hw5 hrun ⊢
      simp only [Outcome.ok.injEq] at hband hbl
      -- the basis listing
      cases bb with
      | none =>
        simp only [Prog.run_ret, Outcome.ok.injEq] at hrun ⊢
        subst hrun
        exact ⟨hband.symm, hbl.symm, hw5, NP.AllUsable.nil⟩
      | some b =>
        simp only at hrun ⊢
        obtain ⟨basis, h6, hrun⟩ := Prog.run_bind_ok_inv hrun
        rw [Prog.run_bind_ok h6]
        have hw6 : LiveAt ((listEntries b [slash] fun _ => false).run w5).2 (withNewBand s) :=
          ro_liveAt hw5 (Inv.listEntries_ro b [slash] fun _ => false)
        have hus : NP.AllUsable basis := (NP.listEntries_safe b [slash] fun _ => false).ensures.ok h6
        simp only [Prog.run_ret, Outcome.ok.injEq] at hrun ⊢
        subst hrun
        exact ⟨hband.symm, hbl.symm, hw6, hus⟩

/-! ### The whole backup -/

/-- The loop invariant right after the prelude (the part of `backupPrelude_runs` that does not depend
on the run). -/
theorem prelude_linv (hlen : ∀ d, subdirNameChars ≤ (H d).length) {s : Store} (hst : StoreOK H s) :
    LInv H o (newBandOf s) s (withNewBand s)
      { band := newBandOf s, exists_ := blockNamesOf (withNewBand s) } [] [] [] 0 := by
  have hst1 : StoreOK H (withNewBand s) := withNewBand_storeOK hst
  have hframe := withNewBand_frame s
  have hfresh : ∀ k, Key.isUnder (.bandDir (newBandOf s)) k = true → k ≠ .bandHead (newBandOf s) →
      k ≠ .indexDir (newBandOf s) → k ≠ .bandDir (newBandOf s) → (withNewBand s).get? k = none := by
    intro k hk h1 h2 h3
    rw [get?_withNewBand]
    simp only [h1, h2, h3, if_false]
    exact fresh_under_new hst hk
  refine ⟨⟨hst1, ?_, by simp [groupEntries], (fun _ h => nomatch h), (fun _ h => nomatch h), Nat.le_refl _⟩, rfl, rfl,
    rfl, ⟨?_, ?_, ?_, ?_, ?_, ?_⟩, rfl, rfl, (fun _ h => nomatch h), hframe⟩
  · intro h hbl
    refine (mem_blockNamesOf hst1.uniqueKeys hst1.dirsOk).2 ⟨hbl, ?_⟩
    obtain ⟨v, hgv, h1, h2⟩ := hbl
    rcases hst1.blocks h v hgv with rfl | ⟨c, rfl, hc⟩
    · simp [FileVal.isEmptyFile] at h2
    · rw [← hc]; exact hlen c
  · intro n
    rw [hfresh _ (by simp [Key.isUnder, Key.parent]) (by simp) (by simp) (by simp)]
    simp
  · intro d
    rw [hfresh _ (by simp [Key.isUnder, Key.parent]) (by simp) (by simp) (by simp)]
    simp
  · simp [get?_withNewBand]
  · simp [get?_withNewBand]
  · simp [get?_withNewBand]
  · exact hfresh _ (by simp [Key.isUnder, Key.parent]) (by simp) (by simp) (by simp)

/-- **Success with no error counted, under any faults, leaves the final store of a complete backup.**
`w`: any fault list, no crash point, alive.  If `backup` returns statistics with `errors = 0`, the
archive it leaves holds the new version with hunks `hs` recording exactly the source (`Final`), and
the run emitted no error event after the prelude. -/
theorem backup_faulty_final (hlen : ∀ d, subdirNameChars ≤ (H d).length) (hmax : 0 < o.maxBlockSize)
    {src : List SrcEntry} {s : Store} (hsrc : SrcGood src) (hst : StoreOK H s) {w : World} (hw : LiveAt w s)
    {stats : Stats} (hrun : ((backup H o src).run w).1 = .ok stats) (herr : stats.errors = 0) :
    ∃ hs, Final H o (newBandOf s) s ((backup H o src).run w).2.store hs src := by
  rw [backup_eq] at hrun ⊢
  obtain ⟨x, h1, hrun⟩ := Prog.run_bind_ok_inv hrun
  rw [Prog.run_bind_ok h1]
  obtain ⟨hx1, hx2, hw1, hus⟩ := prelude_faulty hlen (src := src) hst hw h1
  obtain ⟨band, blocks, basis⟩ := x
  simp only at hx1 hx2 hus
  subst hx1 hx2
  have hl : LInv H o (newBandOf s) s (withNewBand s)
      { band := newBandOf s, exists_ := blockNamesOf (withNewBand s) } [] [] [] 0 := prelude_linv hlen hst
  obtain ⟨s', hs, evs, stats', hr2, _, _, hf⟩ :=
    backupMain_runs hmax (newBandOf s, blockNamesOf (withNewBand s), basis) hl hsrc.entryGood
      (fun b hb => entryUsable_time (hus b hb)) hsrc.sorted hsrc.bytes
  have hu := backupMain_strict (H := H) o src (newBandOf s, blockNamesOf (withNewBand s), basis) _ hw1.live stats hrun herr
  have hr2' : RunsAt (backupMain H o src (newBandOf s, blockNamesOf (withNewBand s), basis))
      (backupPrelude.run w).2.store (.ok stats') s' evs := by rw [hw1.store]; exact hr2
  obtain ⟨_, h2, _⟩ := sim_runsAt hw1.live hu hr2'
  rw [h2]; exact ⟨hs, hf⟩

end Conserve.Fault
