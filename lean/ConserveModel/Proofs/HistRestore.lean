import ConserveModel.Proofs.HistCongr
/-
C02 (history): `restore(Specified(b), "/", nothing excluded)` as a pure function of ANY store that is a
map (`restoreRaw`: no tree shape, no sortedness, no readable heads assumed), and the frame lemma
`restoreRaw_same`: the function gives the same value on two stores that agree on what it reads.
No property statements here.
-/
set_option linter.unusedSimpArgs false
namespace Conserve.Hist
open Conserve Conserve.Exact Prog

variable {H : Str → Str}

/-! ### `filterEntries` is a pure computation -/

/-- The filter of `Stitch::next` on a list (`panic`: the `assert!(is_valid)` of `Exclude::matches`). -/
def filterP (subtree : Str) (excl : Str → Bool) : List IndexEntry → Outcome (List IndexEntry)
  | [] => .ok []
  | e :: es =>
    if !isPrefixOfImpl subtree e.apath then filterP subtree excl es
    else if !isValid e.apath then .panic "Exclude::matches: assert is_valid"
    else if excl e.apath then filterP subtree excl es
    else Outcome.map (e :: ·) (filterP subtree excl es)

theorem filterEntries_run (subtree : Str) (excl : Str → Bool) (es : List IndexEntry) (w : World) :
    (filterEntries subtree excl es).run w = (filterP subtree excl es, w) := by
  induction es with
  | nil => rfl
  | cons e es ih =>
    simp only [filterEntries, filterP, Prog.bind_def]
    by_cases hp : isPrefixOfImpl subtree e.apath = true
    · by_cases hv : isValid e.apath = true
      · by_cases hx : excl e.apath = true
        · simp [hp, hv, hx, ih]
        · simp only [hp, hv, hx, Bool.not_true, Bool.false_eq_true, if_false, Prog.run_bind, ih]
          cases filterP subtree excl es <;> rfl
      · simp [hp, hv]
    · simp [hp, ih]

/-- Every entry that passes the filter was in the list. -/
theorem mem_of_filterP {subtree : Str} {excl : Str → Bool} :
    ∀ {es out : List IndexEntry}, filterP subtree excl es = .ok out → ∀ e ∈ out, e ∈ es := by
  intro es
  induction es with
  | nil => intro out h e he; simp only [filterP, Outcome.ok.injEq] at h; subst h; cases he
  | cons x es ih =>
    intro out h e he
    simp only [filterP] at h
    split at h
    · exact List.mem_cons_of_mem _ (ih h e he)
    · split at h
      · cases h
      · split at h
        · exact List.mem_cons_of_mem _ (ih h e he)
        · cases hf : filterP subtree excl es with
          | ok out' =>
            rw [hf] at h
            simp only [Outcome.map, Outcome.ok.injEq] at h
            subst h
            rcases List.mem_cons.mp he with rfl | he
            · exact List.mem_cons_self ..
            · exact List.mem_cons_of_mem _ (ih hf e he)
          | err e' => rw [hf] at h; cases h
          | panic m => rw [hf] at h; cases h

/-- `listEntries` on any store: the filter applied to what `stitchAll` returns. -/
theorem listEntries_raw_runsAt (s : Store) (n : Nat) (subtree : Str) (excl : Str → Bool) :
    RunsAt (listEntries n subtree excl) s (filterP subtree excl (stitchAllP s n).1) s
      (evsOf (stitchAllP s n).2) := by
  intro w hw
  have hq : Quiet s w.events w := ⟨hw.store, hw.quiet.alive, hw.quiet.noFaults, rfl⟩
  obtain ⟨w', h1, q⟩ := run_stitchAll n hq
  have hcl := Prog.run_clean (stitchAll n) hw.toClean
  rw [h1] at hcl
  have hle : (listEntries n subtree excl).run w = (filterP subtree excl (stitchAllP s n).1, w') := by
    simp only [listEntries, Prog.bind_def]
    rw [Prog.run_bind, h1]
    exact filterEntries_run subtree excl _ _
  unfold Runs
  rw [hle]
  exact ⟨rfl, q.store, q.events, hcl.quiet, hcl.1.trans hw.ecn.symm⟩

/-! ### `list_blocks` as far as `restore` depends on it: does it fail? -/

theorem listBlocks_runsAt_ok {s : Store} (hn : UniqueKeys s) (hr : s.get? .blockRoot = some .dir) :
    RunsAt listBlocks s (.ok (blockNamesOf s)) s [] := fun w hw => by
  have := listBlocks_runs hw.quiet (by rw [hw.store]; exact hr)
    (by rw [hw.store]; exact blockSubdirs_are_dirs hn)
  rwa [hw.store] at this

/-- The error `list_blocks` ends with when `d/` is not a directory. -/
def blockRootErr (s : Store) : Err :=
  .transport (if s.get? .blockRoot = none then .notFound else .other)

theorem listBlocks_runsAt_err {s : Store} (hr : s.get? .blockRoot ≠ some .dir) :
    RunsAt listBlocks s (.err (blockRootErr s)) s [] := fun w hw => by
  simp only [listBlocks, perform, bind_def, op_bind, ret_bind]
  refine hw.op_ro rfl fun w1 hw1 => ?_
  simp only [roResp, listResp, blockRootErr]
  cases hk : s.get? .blockRoot with
  | none => exact hw1.fail _
  | some v =>
    cases v <;> first | exact absurd hk hr | exact hw1.fail _

/-! ### `restore` of a given version on any map -/

/-- What `restore(Specified(b), "/", no exclusions)` returns and reports on a store (any store
without duplicate keys): open the head; list the blocks (fails iff `d/` is no directory); stitch and
filter the listing; restore entry by entry. -/
def restoreRaw (H : Str → Str) (s : Store) (b : Nat) : Outcome (List RNode) × List Event :=
  match headOutcome s b with
  | .err e => (.err e, [])
  | .panic m => (.panic m, [])
  | .ok () =>
    if s.get? .blockRoot = some .dir then
      match filterP [slash] (fun _ => false) (stitchAllP s b).1 with
      | .ok es => ((restoreP H s [] es).1, (restoreP H s [] es).2 ++ evsOf (stitchAllP s b).2)
      | .err e => (.err e, evsOf (stitchAllP s b).2)
      | .panic m => (.panic m, evsOf (stitchAllP s b).2)
    else (.err (blockRootErr s), [])

theorem RunsAt.bind_err' {α β : Type} {p : Prog α} {f : α → Prog β} {s s1 s2 : Store} {a : α} {e : Err}
    {e1 e2 : List Event} (hp : RunsAt p s (.ok a) s1 e1) (hf : RunsAt (f a) s1 (.err e) s2 e2) :
    RunsAt (p.bind f) s (.err e) s2 (e2 ++ e1) := RunsAt.bind hp hf

theorem restoreBody_raw_runs {s : Store} (hn : UniqueKeys s) (b : Nat) :
    RunsAt ((bandOpen b).bind fun _ => listBlocks.bind fun _ =>
        (listEntries b [slash] (fun _ => false)).bind fun es => restoreEntries H [] es) s
      (restoreRaw H s b).1 s (restoreRaw H s b).2 := by
  unfold restoreRaw
  have ho := bandOpen_runsAt s b
  cases hh : headOutcome s b with
  | ok u =>
    rw [hh] at ho
    refine RunsAt.bind0 ho ?_
    by_cases hr : s.get? .blockRoot = some .dir
    · simp only [hr, if_true]
      refine RunsAt.bind0 (listBlocks_runsAt_ok hn hr) ?_
      have hle := listEntries_raw_runsAt s b [slash] (fun _ => false)
      cases hf : filterP [slash] (fun _ => false) (stitchAllP s b).1 with
      | ok es =>
        rw [hf] at hle
        exact RunsAt.bind hle (restoreEntries_runs s _ [])
      | err e => rw [hf] at hle; exact RunsAt.bind_err hle
      | panic m => rw [hf] at hle; exact RunsAt.bind_panic hle
    · simp only [hr, if_false]
      exact RunsAt.bind_err (listBlocks_runsAt_err hr)
  | err e => rw [hh] at ho; exact RunsAt.bind_err ho
  | panic m => rw [hh] at ho; exact RunsAt.bind_panic ho

/-- `restore(Specified(b), "/", nothing excluded)` on ANY store that is a map. -/
theorem restore_raw_runs {s : Store} (hn : UniqueKeys s) (b : Nat) :
    RunsAt (restore H (.specified b) [slash] (fun _ => false)) s (restoreRaw H s b).1 s
      (restoreRaw H s b).2 := by
  have := restoreBody_raw_runs (H := H) hn b
  simpa [restore, resolveBandId] using this

/-! ### Where listed entries come from -/

theorem mem_trimAfter {a : Str} {es : List IndexEntry} {e : IndexEntry} (h : e ∈ trimAfter a es) : e ∈ es :=
  (List.dropWhile_sublist _).mem h

theorem hunkAt_of_readHunkP {s : Store} {b n : Nat} {es : List IndexEntry} {e : IndexEntry}
    (h : readHunkP s b n = .ok (some es)) (he : e ∈ es) : hunkAt s b n = some es := by
  unfold readHunkP at h
  unfold hunkAt
  cases hg : s.get? (.hunk b n) with
  | none => rw [hg] at h; cases h
  | some v =>
    rw [hg] at h
    cases v with
    | hunk es' =>
      simp only at h
      split at h
      · cases h; rfl
      · cases h
    | empty => simp only [Except.ok.injEq, Option.some.injEq] at h; subst h; cases he
    | _ => cases h

/-- Every entry `readHunks` returns sits in a decodable hunk file of that version. -/
theorem mem_readHunksP {s : Store} {b : Nat} {e : IndexEntry} (ns : List Nat) :
    ∀ after last, e ∈ (readHunksP s b ns after last).1 → ∃ n es, hunkAt s b n = some es ∧ e ∈ es := by
  induction ns with
  | nil => intro _ _ h; cases h
  | cons n ns ih =>
    intro after last h
    simp only [readHunksP] at h
    cases hr : readHunkP s b n with
    | error err => rw [hr] at h; exact ih _ _ h
    | ok r =>
      rw [hr] at h
      cases r with
      | none => cases h
      | some es =>
        simp only at h
        cases after with
        | none =>
          simp only at h
          split at h
          · exact ih _ _ h
          · rcases List.mem_append.mp h with h | h
            · exact ⟨n, es, hunkAt_of_readHunkP hr h, h⟩
            · exact ih _ _ h
        | some a =>
          simp only at h
          split at h
          · exact ih _ _ h
          · split at h
            · rcases List.mem_append.mp h with h | h
              · exact ⟨n, es, hunkAt_of_readHunkP hr h, h⟩
              · exact ih _ _ h
            · rcases List.mem_append.mp h with h | h
              · exact ⟨n, es, hunkAt_of_readHunkP hr (mem_trimAfter h), mem_trimAfter h⟩
              · exact ih _ _ h

theorem mem_bandTake {s : Store} {b : Nat} {last : Option Str} {e : IndexEntry}
    (h : e ∈ (bandTake s b last).1) : ∃ n es, hunkAt s b n = some es ∧ e ∈ es := by
  unfold bandTake at h
  split at h
  · exact mem_readHunksP _ _ _ h
  · cases h

theorem mem_stitchDownP {s : Store} {e : IndexEntry} (b : Nat) :
    ∀ last, e ∈ (stitchDownP s b last).1 → ∃ b', b' < b ∧ ∃ n es, hunkAt s b' n = some es ∧ e ∈ es := by
  induction b with
  | zero => intro _ h; cases h
  | succ b ih =>
    intro last h
    simp only [stitchDownP] at h
    split at h
    · split at h
      · exact ⟨b, Nat.lt_succ_self b, mem_bandTake h⟩
      · rcases List.mem_append.mp h with h | h
        · exact ⟨b, Nat.lt_succ_self b, mem_bandTake h⟩
        · obtain ⟨b', hb', r⟩ := ih _ h
          exact ⟨b', Nat.lt_succ_of_lt hb', r⟩
    · obtain ⟨b', hb', r⟩ := ih _ h
      exact ⟨b', Nat.lt_succ_of_lt hb', r⟩

/-- Every entry of a listing of a version WITH a tail sits in one of its own hunk files. -/
theorem mem_stitchAllP_complete {s : Store} {b : Nat} {e : IndexEntry} (hc : isComplete s b = true)
    (h : e ∈ (stitchAllP s b).1) : ∃ n es, hunkAt s b n = some es ∧ e ∈ es := by
  unfold stitchAllP at h
  rw [isFileP_tail_eq, hc] at h
  exact mem_bandTake h

theorem mem_stitchDownP_chain {s : Store} {e : IndexEntry} (b : Nat) :
    ∀ last, e ∈ (stitchDownP s b last).1 → ∃ c ∈ chainBelow s b, ∃ n es, hunkAt s c n = some es ∧ e ∈ es := by
  induction b with
  | zero => intro _ h; cases h
  | succ b ih =>
    intro last h
    have hp : bandPresent s b = isFileP s (.bandHead b) := rfl
    have hc : isComplete s b = isFileP s (.bandTail b) := rfl
    simp only [stitchDownP] at h
    simp only [chainBelow, hp, hc]
    split at h
    · rename_i hh
      simp only [hh, if_true]
      split at h
      · exact ⟨b, List.mem_cons_self .., mem_bandTake h⟩
      · rename_i ht
        rcases List.mem_append.mp h with h | h
        · exact ⟨b, List.mem_cons_self .., mem_bandTake h⟩
        · obtain ⟨c, hc', r⟩ := ih _ h
          refine ⟨c, List.mem_cons_of_mem _ ?_, r⟩
          simpa [ht] using hc'
    · rename_i hh
      simp only [hh, if_false]
      exact ih _ h

/-- Every entry of a listing sits in a hunk file of a version of the chain (`chain`, StitchSpec.lean:
the version itself, then each nearest earlier version with a head, up to the first with a tail). -/
theorem mem_stitchAllP {s : Store} {b : Nat} {e : IndexEntry}
    (h : e ∈ (stitchAllP s b).1) : ∃ c ∈ chain s b, ∃ n es, hunkAt s c n = some es ∧ e ∈ es := by
  have hc : isComplete s b = isFileP s (.bandTail b) := rfl
  unfold stitchAllP at h
  simp only [chain, hc]
  split at h
  · exact ⟨b, List.mem_cons_self .., mem_bandTake h⟩
  · rename_i ht
    rcases List.mem_append.mp h with h | h
    · exact ⟨b, List.mem_cons_self .., mem_bandTake h⟩
    · obtain ⟨c, hc', r⟩ := mem_stitchDownP_chain _ _ h
      refine ⟨c, List.mem_cons_of_mem _ ?_, r⟩
      simpa [ht] using hc'

/-- From "the chain's versions hold the same, and no version appears" to `ChainSame`. -/
theorem chainSame_of_chainBelow {s s' : Store} (b : Nat)
    (hsame : ∀ c ∈ chainBelow s b, BandSame s s' c)
    (hnone : ∀ b', b' < b → bandPresent s b' = false → bandPresent s' b' = false)
    (hlost : ∀ b', b' < b → bandPresent s b' = false → headLost s' b' = headLost s b') :
    ChainSame s s' b := by
  induction b with
  | zero => trivial
  | succ b ih =>
    have hp : ∀ t, bandPresent t b = isFileP t (.bandHead b) := fun _ => rfl
    have hct : isComplete s b = isFileP s (.bandTail b) := rfl
    simp only [ChainSame]
    simp only [chainBelow, hp, hct] at hsame
    by_cases hh : isFileP s (.bandHead b) = true
    · simp only [hh, if_true] at hsame ⊢
      refine ⟨hsame b (List.mem_cons_self ..), fun ht => ?_⟩
      simp only [ht, Bool.false_eq_true, if_false] at hsame
      exact ih (fun c hc => hsame c (List.mem_cons_of_mem _ hc))
        (fun b' hb' => hnone b' (Nat.lt_succ_of_lt hb')) (fun b' hb' => hlost b' (Nat.lt_succ_of_lt hb'))
    · have hh' : isFileP s (.bandHead b) = false := by simpa using hh
      simp only [hh', Bool.false_eq_true, if_false] at hsame ⊢
      have hps : bandPresent s b = false := by rw [hp]; exact hh'
      have hps' : bandPresent s' b = false := hnone b (Nat.lt_succ_self b) hps
      have hl := hlost b (Nat.lt_succ_self b) hps
      rw [← headLost_eq s b hps, ← headLost_eq s' b hps'] at hl
      exact ⟨by rw [← hp]; exact hps', hl,
        ih hsame (fun b' hb' => hnone b' (Nat.lt_succ_of_lt hb'))
          (fun b' hb' => hlost b' (Nat.lt_succ_of_lt hb'))⟩

/-! ### `restoreP` depends on the blocks only through `blockContent` -/

theorem getBlockP_of_content {s : Store} {h c : Str} (hc : blockContent H s h = some c) :
    getBlockP H s h = .ok c := by
  unfold blockContent at hc
  unfold getBlockP
  cases hg : s.get? (.block h) with
  | none => simp [hg] at hc
  | some v =>
    cases v with
    | blockData c' =>
      simp only [hg] at hc ⊢
      split at hc
      · rename_i hh; simp only [hh, if_true]; cases hc; rfl
      · cases hc
    | _ => simp [hg] at hc

theorem getBlockP_of_no_content {s : Store} {h : Str} (hc : blockContent H s h = none) :
    ∃ e, getBlockP H s h = .error e := by
  unfold blockContent at hc
  unfold getBlockP
  cases hg : s.get? (.block h) with
  | none => exact ⟨_, rfl⟩
  | some v =>
    cases v with
    | blockData c' =>
      simp only [hg] at hc ⊢
      split at hc
      · cases hc
      · rename_i hh; simp only [hh, if_false]; exact ⟨_, rfl⟩
    | _ => exact ⟨_, rfl⟩

/-- `read_address` on two stores with the same content for the block: the same bytes, or an error on both. -/
theorem readAddressP_content {s s' : Store} {a : Addr}
    (h : blockContent H s' a.hash = blockContent H s a.hash) :
    readAddressP H s' a = readAddressP H s a ∨
      ((∃ e, readAddressP H s' a = .error e) ∧ ∃ e, readAddressP H s a = .error e) := by
  cases hc : blockContent H s a.hash with
  | some c =>
    left
    simp only [readAddressP, getBlockP_of_content hc, getBlockP_of_content (h.trans hc)]
  | none =>
    right
    obtain ⟨e1, h1⟩ := getBlockP_of_no_content hc
    obtain ⟨e2, h2⟩ := getBlockP_of_no_content (h.trans hc)
    exact ⟨⟨e2, by simp only [readAddressP, h2]⟩, ⟨e1, by simp only [readAddressP, h1]⟩⟩

theorem readContentP_content {s s' : Store} {as : List Addr}
    (h : ∀ a ∈ as, blockContent H s' a.hash = blockContent H s a.hash) :
    ∀ acc, (readContentP H s' as acc).1 = (readContentP H s as acc).1 ∧
      (readContentP H s' as acc).2.map (·.1) = (readContentP H s as acc).2.map (·.1) := by
  induction as with
  | nil => intro acc; exact ⟨rfl, rfl⟩
  | cons a as ih =>
    intro acc
    rcases readAddressP_content (h a (List.mem_cons_self ..)) with heq | ⟨⟨e', he'⟩, ⟨e, he⟩⟩
    · simp only [readContentP, heq]
      cases readAddressP H s a with
      | error e => exact ⟨rfl, rfl⟩
      | ok bytes => exact ih (fun a' ha' => h a' (List.mem_cons_of_mem _ ha')) _
    · simp [readContentP, he', he]

theorem restoreP_content {s s' : Store} {es : List IndexEntry}
    (h : ∀ e ∈ es, ∀ a ∈ e.addrs, blockContent H s' a.hash = blockContent H s a.hash) :
    ∀ syms, restoreP H s' syms es = restoreP H s syms es := by
  induction es with
  | nil => intro syms; rfl
  | cons e es ih =>
    intro syms
    have ih' := ih (fun e' he' => h e' (List.mem_cons_of_mem _ he'))
    obtain ⟨hc1, hc2⟩ := readContentP_content (H := H) (h e (List.mem_cons_self ..)) []
    simp only [restoreP, ih', hc1]
    split
    · rfl
    · cases e.kind with
      | file =>
        simp only
        cases hb' : (readContentP H s' e.addrs []).2 with
        | none =>
          cases hb : (readContentP H s e.addrs []).2 with
          | none => rfl
          | some p => rw [hb', hb] at hc2; cases hc2
        | some p' =>
          cases hb : (readContentP H s e.addrs []).2 with
          | none => rw [hb', hb] at hc2; cases hc2
          | some p =>
            rw [hb', hb] at hc2
            simp only [Option.map_some, Option.some.injEq] at hc2
            obtain ⟨h1, e1⟩ := p'
            obtain ⟨h2, e2⟩ := p
            simp only at hc2
            subst hc2
            rfl
      | _ => rfl

/-! ### The frame lemma -/

/-- **`restore` of a version reads only**: the keys at or under the version's directory (and, for a
version without tail, those of the earlier versions its listing continues into), whether `d/` is a
directory, and the content of the blocks its listed entries name. -/
theorem restoreRaw_same {s s' : Store} (hs : s.NoDupKeys) (hs' : s'.NoDupKeys) {b : Nat}
    (hb : BandSame s s' b) (hc : isComplete s b = false → ChainSame s s' b)
    (hroot : s'.get? .blockRoot = s.get? .blockRoot)
    (hblocks : ∀ e ∈ (stitchAllP s b).1, ∀ a ∈ e.addrs,
      blockContent H s' a.hash = blockContent H s a.hash) :
    restoreRaw H s' b = restoreRaw H s b := by
  have hst := stitchAllP_same hs hs' hb hc
  have hhead : headOutcome s' b = headOutcome s b := by simp only [headOutcome, hb.head]
  have hbe : blockRootErr s' = blockRootErr s := by simp only [blockRootErr, hroot]
  unfold restoreRaw
  rw [hhead, hst, hroot, hbe]
  cases headOutcome s b with
  | ok u =>
    simp only
    split
    · cases hf : filterP [slash] (fun _ => false) (stitchAllP s b).1 with
      | ok es =>
        simp only
        rw [restoreP_content (fun e he => hblocks e (mem_of_filterP hf e he)) []]
      | err e => rfl
      | panic m => rfl
    · rfl
  | err e => rfl
  | panic m => rfl

end Conserve.Hist
