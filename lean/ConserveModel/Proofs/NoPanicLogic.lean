import ConserveModel.Proofs.ProgLemmas
/-
A logic for "no panic leaf is reachable" (property C10).

`Safe Q p` is a purely syntactic judgement on the program tree: on EVERY branch — that is, for
every sequence of responses the storage could possibly give, whether or not any store produces
it — the program ends in `ret a` with `Q a`, or in `fail e`; never in `panic`.  Because it
quantifies over all responses it covers every store, every injected fault, every crash point
and the dead world at once (`Safe.ensures`, `Safe.noPanic`).  No property statements here.
-/
namespace Conserve.NP
open Conserve Prog

/-- No branch of the program ends in a panic, and every returned value satisfies `Q`. -/
inductive Safe {α : Type} (Q : α → Prop) : Prog α → Prop
  | ret {a : α} : Q a → Safe Q (.ret a)
  | fail (e : Err) : Safe Q (.fail e)
  | emit (ev : Event) {k : Prog α} : Safe Q k → Safe Q (.emit ev k)
  | op (o : Op) {k : Resp → Prog α} : (∀ r, Safe Q (k r)) → Safe Q (.op o k)

/-- Semantic reading, for every world: the outcome is a value with `Q`, or an error. -/
def Ensures {α : Type} (Q : α → Prop) (p : Prog α) : Prop :=
  ∀ w : World, match (p.run w).1 with
    | .ok a => Q a
    | .err _ => True
    | .panic _ => False

/-- The program does not panic, whatever the store holds, whatever faults are injected and
wherever the world crashes. -/
def NoPanic {α : Type} (p : Prog α) : Prop :=
  ∀ w : World, ∀ site, (p.run w).1 ≠ .panic site

namespace Safe
variable {α β : Type}

theorem mono {Q Q' : α → Prop} {p : Prog α} (hp : Safe Q p) (h : ∀ a, Q a → Q' a) : Safe Q' p := by
  induction hp with
  | ret ha => exact .ret (h _ ha)
  | fail e => exact .fail e
  | emit ev _ ih => exact .emit ev ih
  | op o _ ih => exact .op o ih

theorem triv {Q : α → Prop} {p : Prog α} (hp : Safe Q p) : Safe (fun _ => True) p :=
  hp.mono fun _ _ => trivial

theorem bind {Q1 : α → Prop} {Q : β → Prop} {p : Prog α} {f : α → Prog β}
    (hp : Safe Q1 p) (hf : ∀ a, Q1 a → Safe Q (f a)) : Safe Q (p.bind f) := by
  induction hp with
  | ret ha => exact hf _ ha
  | fail e => exact .fail e
  | emit ev _ ih => exact .emit ev ih
  | op o _ ih => exact .op o ih

/-- `>>=` with nothing known about the intermediate value. -/
theorem bind' {Q1 : α → Prop} {Q : β → Prop} {p : Prog α} {f : α → Prog β}
    (hp : Safe Q1 p) (hf : ∀ a, Safe Q (f a)) : Safe Q (p.bind f) :=
  hp.bind fun a _ => hf a

theorem attempt {Q : α → Prop} {p : Prog α} (hp : Safe Q p) :
    Safe (fun r => ∀ a, r = .ok a → Q a) p.attempt := by
  induction hp with
  | ret ha => exact .ret (fun a h => by cases h; exact ha)
  | fail e => exact .ret (fun a h => nomatch h)
  | emit ev _ ih => exact .emit ev ih
  | op o _ ih => exact .op o ih

/-- `attempt`, when nothing is needed of the result. -/
theorem attempt_triv {Q : α → Prop} {p : Prog α} (hp : Safe Q p) : Safe (fun _ => True) p.attempt :=
  hp.attempt.triv

/-- `attemptAll` of a safe program never yields the `panic` outcome. -/
theorem attemptAll {Q : α → Prop} {p : Prog α} (hp : Safe Q p) :
    Safe (fun r => match r with | .ok a => Q a | .err _ => True | .panic _ => False) p.attemptAll := by
  induction hp with
  | ret ha => exact .ret ha
  | fail e => exact .ret trivial
  | emit ev _ ih => exact .emit ev ih
  | op o _ ih => exact .op o ih

theorem perform (o : Op) : Safe (fun _ => True) (perform o) := .op o (fun _ => .ret trivial)

theorem ensures {Q : α → Prop} {p : Prog α} (hp : Safe Q p) : Ensures Q p := by
  intro w
  induction hp generalizing w with
  | ret ha => exact ha
  | fail e => exact trivial
  | emit ev _ ih => exact ih _
  | op o _ ih => exact ih _ _

theorem noPanic {Q : α → Prop} {p : Prog α} (hp : Safe Q p) : NoPanic p := by
  intro w site h
  have := hp.ensures w
  rw [h] at this
  exact this

end Safe

theorem Ensures.noPanic {α : Type} {Q : α → Prop} {p : Prog α} (hp : Ensures Q p) : NoPanic p := by
  intro w site h
  have := hp w
  rw [h] at this
  exact this

theorem Ensures.ok {α : Type} {Q : α → Prop} {p : Prog α} (hp : Ensures Q p) {w : World} {a : α}
    (h : (p.run w).1 = .ok a) : Q a := by
  have := hp w
  rw [h] at this
  exact this

/-- `NoPanic` is the same as "the outcome is a value or a conserve error". -/
theorem noPanic_iff {α : Type} (p : Prog α) :
    NoPanic p ↔ ∀ w : World, (∃ a, (p.run w).1 = .ok a) ∨ (∃ e, (p.run w).1 = .err e) := by
  constructor
  · intro h w
    cases hr : (p.run w).1 with
    | ok a => exact .inl ⟨a, rfl⟩
    | err e => exact .inr ⟨e, rfl⟩
    | panic s => exact absurd hr (h w s)
  · intro h w site hs
    rcases h w with ⟨a, ha⟩ | ⟨e, he⟩
    · rw [ha] at hs; cases hs
    · rw [he] at hs; cases hs

theorem Safe.logError (e : Err) : Safe (fun _ => True) (logError e) := .emit _ (.ret trivial)
theorem Safe.report (ev : Event) : Safe (fun _ => True) (report ev) := .emit _ (.ret trivial)

/-- Try the structural rules for `Safe` with the trivial postcondition.  The rules that take the
program apart only fire on programs that ARE syntactically of that form (no unfolding of
definitions), so that lemmas about named sub-programs get their chance first. -/
macro "safe_step" : tactic => `(tactic| first
  | assumption
  | exact Safe.ret trivial
  | exact Safe.fail _
  | exact Safe.perform _
  | exact Safe.logError _
  | exact Safe.report _
  | with_reducible apply Safe.emit
  | with_reducible refine Safe.op _ (fun _ => ?_)
  | with_reducible apply Safe.attempt_triv
  | with_reducible refine Safe.bind' (Q1 := fun _ => True) ?_ (fun _ => ?_)
  | split)

/-- `safe_using [h₁, …]`: decompose the program with the structural rules, closing leaves with
the given lemmas (tried before the program is taken apart any further). -/
syntax "safe_using" "[" term,* "]" : tactic
macro_rules
  | `(tactic| safe_using [$ts,*]) =>
    `(tactic| repeat (first $[| exact $ts]* | safe_step))

end Conserve.NP
