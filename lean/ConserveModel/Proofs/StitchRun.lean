import ConserveModel.IndexRead
import ConserveModel.StitchSpec
import ConserveModel.Proofs.ProgLemmas
/-
From programs to pure functions of the store: what the read-only programs of
Archive.lean / IndexRead.lean return when they run in a fault-free, crash-free world.

`Quiet s evs w` says: world `w` holds store `s`, has emitted `evs`, is not dead and has no
faults to inject.  Read-only operations keep a world quiet (only the trace grows), and their
response is a function of the store.  Every lemma `run_X` has the shape
  `Quiet s evs w → ∃ w', (X …).run w = (result as a pure function of s, w') ∧ Quiet s (new ++ evs) w'`.
No property statements here.
-/
namespace Conserve
open Prog

/-- A world in which read-only programs behave as functions of the store. -/
structure Quiet (s : Store) (evs : List Event) (w : World) : Prop where
  store : w.store = s
  dead : w.dead = false
  faults : w.faults = []
  events : w.events = evs

theorem Quiet.clean (s : Store) : Quiet s [] (World.clean s) := ⟨rfl, rfl, rfl, rfl⟩

theorem Quiet.emit {s : Store} {evs : List Event} {w : World} (h : Quiet s evs w) (ev : Event) :
    Quiet s (ev :: evs) { w with events := ev :: w.events } :=
  ⟨h.store, h.dead, h.faults, by simp [h.events]⟩

/-- Response of a read-only operation, as a function of the store. -/
def quietResp (s : Store) : Op → Resp
  | .read k =>
    match s.get? k with
    | none => .err .notFound
    | some .dir => .err .other
    | some v => .val v
  | .listDir k =>
    match s.get? k with
    | none => .err .notFound
    | some .dir => .listing (s.children k)
    | some _ => .err .other
  | .metadata k =>
    match s.get? k with
    | none => .err .notFound
    | some v => .stat (!v.isDir) (!v.isDir && !v.isEmptyFile)
  | _ => .unit

theorem Quiet.exec_ro {s : Store} {evs : List Event} {w : World} (h : Quiet s evs w) (o : Op)
    (ho : o.isMutating = false) : ∃ w', w.exec o = (w', quietResp s o) ∧ Quiet s evs w' := by
  obtain ⟨hs, hd, hf, he⟩ := h
  refine ⟨{ w with trace := ⟨o, quietResp s o⟩ :: w.trace }, ?_, ⟨hs, hd, hf, he⟩⟩
  have hr : (applyOp w.enforceCreateNew w.store o).2 = quietResp s o := by
    subst hs
    cases o with
    | read k => simp only [applyOp, quietResp]; cases w.store.get? k with
      | none => rfl
      | some v => cases v <;> rfl
    | listDir k => simp only [applyOp, quietResp]; cases w.store.get? k with
      | none => rfl
      | some v => cases v <;> rfl
    | metadata k => simp only [applyOp, quietResp]; cases w.store.get? k with
      | none => rfl
      | some v => rfl
    | _ => simp [Op.isMutating] at ho
  unfold World.exec
  simp [hd, World.faultFor, hf, ho, hr]

/-- Running `match ← perform o with …` for a read-only `o`. -/
theorem Quiet.run_op {α : Type} {s : Store} {evs : List Event} {w : World} (h : Quiet s evs w)
    (o : Op) (ho : o.isMutating = false) (k : Resp → Prog α) :
    ∃ w', (Prog.op o k).run w = (k (quietResp s o)).run w' ∧ Quiet s evs w' := by
  obtain ⟨w', he, hq⟩ := h.exec_ro o ho
  exact ⟨w', by rw [Prog.run_op, he], hq⟩

/-! ### `isFile`, `bandExists`, `bandIsClosed` -/

/-- `Transport::is_file` on a store. -/
def isFileP (s : Store) (k : Key) : Bool :=
  match s.get? k with
  | some v => !v.isDir
  | none => false

theorem run_isFile {s : Store} {evs : List Event} {w : World} (h : Quiet s evs w) (k : Key) :
    ∃ w', (isFile k).run w = (.ok (isFileP s k), w') ∧ Quiet s evs w' := by
  obtain ⟨w', he, hq⟩ := h.exec_ro (.metadata k) rfl
  refine ⟨w', ?_, hq⟩
  simp only [isFile, perform, Prog.bind_def, Prog.op_bind, Prog.ret_bind, Prog.run_op, he, quietResp, isFileP]
  cases s.get? k <;> simp

theorem run_unwrapOr_isFile {s : Store} {evs : List Event} {w : World} (h : Quiet s evs w) (k : Key)
    (d : Bool) : ∃ w', (unwrapOr (isFile k) d).run w = (.ok (isFileP s k), w') ∧ Quiet s evs w' := by
  obtain ⟨w', hr, hq⟩ := run_isFile h k
  refine ⟨w', ?_, hq⟩
  unfold unwrapOr
  simp [Prog.run_bind, Prog.run_attempt, hr]

/-! ### `bandOpen` -/

def toOutcome {α : Type} : Except Err α → Outcome α
  | .ok a => .ok a
  | .error e => .err e

/-- `Band::open` on a store. -/
def bandOpenP (s : Store) (b : Nat) : Except Err Unit :=
  match s.get? (.bandHead b) with
  | none => .error (.bandHeadMissing b)
  | some .dir => .error (.transport .other)
  | some (.head .invalid _) => .error (.unsupportedBandVersion b)
  | some (.head .tooNew _) => .error (.unsupportedBandVersion b)
  | some (.head _ flags) => if flags.isEmpty then .ok () else .error (.unsupportedBandFlags b)
  | some _ => .error .json

theorem run_bandOpen {s : Store} {evs : List Event} {w : World} (h : Quiet s evs w) (b : Nat) :
    ∃ w', (bandOpen b).run w = (toOutcome (bandOpenP s b), w') ∧ Quiet s evs w' := by
  obtain ⟨w', he, hq⟩ := h.exec_ro (.read (.bandHead b)) rfl
  refine ⟨w', ?_, hq⟩
  simp only [bandOpen, perform, Prog.bind_def, Prog.op_bind, Prog.ret_bind, Prog.run_op, he, quietResp, bandOpenP]
  cases s.get? (.bandHead b) with
  | none => simp [toOutcome]
  | some v =>
    cases v with
    | head ver flags => cases ver <;> simp [toOutcome] <;> split <;> simp
    | _ => simp [toOutcome]

/-! ### `hunksAvailable` -/

/-- Sub-directories of a band's index directory, by number. -/
def hunkSubdirsP (s : Store) (b : Nat) : List Nat :=
  sortNat <| (s.children (.indexDir b)).filterMap fun e =>
    match e.key with
    | .hunkDir _ d => if e.isDir then some d else none
    | _ => none

/-- Hunk numbers with a file in one sub-directory. -/
def hunksInSubdirP (s : Store) (b d : Nat) : Except Err (List Nat) :=
  match s.get? (.hunkDir b d) with
  | none => .error (.transport .notFound)
  | some .dir => .ok (sortNat <| (s.children (.hunkDir b d)).filterMap fun e =>
      match e.key with
      | .hunk _ n => if !e.isDir then some n else none
      | _ => none)
  | some _ => .error (.transport .other)

def hunksGoP (s : Store) (b : Nat) : List Nat → List Nat → Except Err (List Nat)
  | [], acc => .ok acc
  | d :: ds, acc =>
    match hunksInSubdirP s b d with
    | .ok hs => hunksGoP s b ds (acc ++ hs)
    | .error e => .error e

/-- `IndexRead::hunks_available` on a store. -/
def hunksAvailableP (s : Store) (b : Nat) : Except Err (List Nat) :=
  match s.get? (.indexDir b) with
  | none => .error (.transport .notFound)
  | some .dir => hunksGoP s b (hunkSubdirsP s b) []
  | some _ => .error (.transport .other)

theorem run_hunksAvailable_go {s : Store} {evs : List Event} (b : Nat) (ds : List Nat) :
    ∀ (acc : List Nat) (w : World), Quiet s evs w →
    ∃ w', (hunksAvailable.go b ds acc).run w = (toOutcome (hunksGoP s b ds acc), w') ∧ Quiet s evs w' := by
  induction ds with
  | nil => intro acc w h; exact ⟨w, rfl, h⟩
  | cons d ds ih =>
    intro acc w h
    obtain ⟨w1, he, hq⟩ := h.exec_ro (.listDir (.hunkDir b d)) rfl
    simp only [hunksAvailable.go, perform, Prog.bind_def, Prog.op_bind, Prog.ret_bind, Prog.run_op, he, quietResp,
      hunksGoP, hunksInSubdirP]
    cases hg : s.get? (.hunkDir b d) with
    | none => exact ⟨w1, by simp [toOutcome], hq⟩
    | some v =>
      cases v with
      | dir =>
        obtain ⟨w2, h2, q2⟩ := ih (acc ++ (sortNat <| (s.children (.hunkDir b d)).filterMap fun e =>
          match e.key with
          | .hunk _ n => if !e.isDir then some n else none
          | _ => none)) w1 hq
        exact ⟨w2, h2, q2⟩
      | _ => exact ⟨w1, by simp [toOutcome], hq⟩

theorem run_hunksAvailable {s : Store} {evs : List Event} {w : World} (h : Quiet s evs w) (b : Nat) :
    ∃ w', (hunksAvailable b).run w = (toOutcome (hunksAvailableP s b), w') ∧ Quiet s evs w' := by
  obtain ⟨w1, he, hq⟩ := h.exec_ro (.listDir (.indexDir b)) rfl
  simp only [hunksAvailable, perform, Prog.bind_def, Prog.op_bind, Prog.ret_bind, Prog.run_op, he, quietResp,
    hunksAvailableP]
  cases hg : s.get? (.indexDir b) with
  | none => exact ⟨w1, by simp [toOutcome], hq⟩
  | some v =>
    cases v with
    | dir =>
      obtain ⟨w2, h2, q2⟩ := run_hunksAvailable_go (s := s) b (hunkSubdirsP s b) [] w1 hq
      exact ⟨w2, h2, q2⟩
    | _ => exact ⟨w1, by simp [toOutcome], hq⟩

/-! ### `readHunk`, `readHunks` -/

/-- `IndexRead::read_hunk` on a store. -/
def readHunkP (s : Store) (b n : Nat) : Except Err (Option (List IndexEntry)) :=
  match s.get? (.hunk b n) with
  | none => .ok none
  | some .dir => .error (.transport .other)
  | some (.hunk es) => if es.all entryUsable then .ok (some es) else .error .invalidMetadata
  | some .empty => .ok (some [])
  | some _ => .error .json

theorem run_readHunk {s : Store} {evs : List Event} {w : World} (h : Quiet s evs w) (b n : Nat) :
    ∃ w', (readHunk b n).run w = (toOutcome (readHunkP s b n), w') ∧ Quiet s evs w' := by
  obtain ⟨w', he, hq⟩ := h.exec_ro (.read (.hunk b n)) rfl
  refine ⟨w', ?_, hq⟩
  simp only [readHunk, perform, Prog.bind_def, Prog.op_bind, Prog.ret_bind, Prog.run_op, he, quietResp, readHunkP]
  cases s.get? (.hunk b n) with
  | none => simp [toOutcome]
  | some v =>
    cases v with
    | hunk es => by_cases hu : es.all entryUsable = true <;> simp [toOutcome, hu]
    | _ => simp [toOutcome]

def lastApath? (es : List IndexEntry) : Option Str := es.getLast?.map (fun (l : IndexEntry) => l.apath)

/-- First test of `IndexHunkIter::next`: the whole hunk is at or before `after`. -/
def hunkAllBefore (a : Str) (es : List IndexEntry) : Bool :=
  match es.getLast? with
  | some (l : IndexEntry) => apathLe l.apath a
  | none => false

/-- Second test: the whole hunk is after `after`. -/
def hunkAllAfter (a : Str) (es : List IndexEntry) : Bool :=
  match es.head? with
  | some (f : IndexEntry) => apathCmp f.apath a == Ordering.gt
  | none => false

/-- The defining equation of `readHunks`, with the tests named. -/
theorem readHunks_cons (b n : Nat) (rest : List Nat) (after last : Option Str) :
    readHunks b (n :: rest) after last =
      ((readHunk b n).attempt.bind fun r =>
        match r with
        | .ok none => pure ([], last)
        | .error e => (logError e).bind fun _ => readHunks b rest after last
        | .ok (some es) =>
          match after with
          | some a =>
            if hunkAllBefore a es then readHunks b rest after last
            else if hunkAllAfter a es then
              (readHunks b rest none (lastApath? es)).bind fun r => pure (es ++ r.1, r.2)
            else
              (readHunks b rest after (lastOr (trimAfter a es) last)).bind fun r =>
                pure (trimAfter a es ++ r.1, r.2)
          | none =>
            if es.isEmpty then readHunks b rest none last
            else (readHunks b rest none (lastApath? es)).bind fun r => pure (es ++ r.1, r.2)) := by
  rfl

/-- `readHunks` on a store (all remaining `IndexHunkIter::next` calls of one band). -/
def readHunksP (s : Store) (b : Nat) : List Nat → Option Str → Option Str → List IndexEntry × Option Str
  | [], _, last => ([], last)
  | n :: rest, after, last =>
    match readHunkP s b n with
    | .ok none => ([], last)
    | .error _ => readHunksP s b rest after last
    | .ok (some es) =>
      match after with
      | some a =>
        if hunkAllBefore a es then readHunksP s b rest after last
        else if hunkAllAfter a es then
          let r := readHunksP s b rest none (lastApath? es)
          (es ++ r.1, r.2)
        else
          let r := readHunksP s b rest after (lastOr (trimAfter a es) last)
          (trimAfter a es ++ r.1, r.2)
      | none =>
        if es.isEmpty then readHunksP s b rest none last
        else
          let r := readHunksP s b rest none (lastApath? es)
          (es ++ r.1, r.2)

/-- The errors `readHunks` reports: one per hunk file that cannot be read or used, in order
(whether or not the skip-ahead would have skipped it). -/
def readHunksErrs (s : Store) (b : Nat) : List Nat → List Err
  | [] => []
  | n :: rest =>
    match readHunkP s b n with
    | .ok none => []
    | .error e => e :: readHunksErrs s b rest
    | .ok (some _) => readHunksErrs s b rest

/-- Events, newest first, for a list of errors in order of occurrence. -/
def evsOf (errs : List Err) : List Event := (errs.map Event.error).reverse

theorem evsOf_cons (e : Err) (errs : List Err) (evs : List Event) :
    evsOf (e :: errs) ++ evs = evsOf errs ++ (Event.error e :: evs) := by
  simp [evsOf]

theorem evsOf_append (xs ys : List Err) : evsOf (xs ++ ys) = evsOf ys ++ evsOf xs := by
  simp [evsOf]

theorem run_readHunks {s : Store} (b : Nat) (ns : List Nat) :
    ∀ (after last : Option Str) (evs : List Event) (w : World), Quiet s evs w →
    ∃ w', (readHunks b ns after last).run w = (.ok (readHunksP s b ns after last), w') ∧
      Quiet s (evsOf (readHunksErrs s b ns) ++ evs) w' := by
  induction ns with
  | nil => intro after last evs w h; exact ⟨w, rfl, by simpa [readHunksErrs, evsOf] using h⟩
  | cons n rest ih =>
    intro after last evs w h
    obtain ⟨w1, h1, q1⟩ := run_readHunk h b n
    rw [readHunks_cons]
    simp only [readHunksP, readHunksErrs, Prog.run_bind, Prog.run_attempt, h1]
    cases hr : readHunkP s b n with
    | error e =>
      obtain ⟨w2, h2, q2⟩ := ih after last _ _ (q1.emit (.error e))
      refine ⟨w2, ?_, by rw [evsOf_cons]; exact q2⟩
      simpa [toOutcome, logError, Prog.run_bind] using h2
    | ok o =>
      cases o with
      | none => exact ⟨w1, by simp [toOutcome], by simpa [evsOf] using q1⟩
      | some es =>
        simp only [toOutcome]
        cases after with
        | none =>
          by_cases hemp : es.isEmpty = true
          · simpa [hemp] using ih none last evs w1 q1
          · obtain ⟨w2, h2, q2⟩ := ih none (lastApath? es) evs w1 q1
            exact ⟨w2, by simp [hemp, Prog.run_bind, h2], q2⟩
        | some a =>
          by_cases hc1 : hunkAllBefore a es = true
          · simpa [hc1] using ih (some a) last evs w1 q1
          · by_cases hc2 : hunkAllAfter a es = true
            · obtain ⟨w2, h2, q2⟩ := ih none (lastApath? es) evs w1 q1
              exact ⟨w2, by simp [hc1, hc2, Prog.run_bind, h2], q2⟩
            · obtain ⟨w2, h2, q2⟩ := ih (some a) (lastOr (trimAfter a es) last) evs w1 q1
              exact ⟨w2, by simp [hc1, hc2, Prog.run_bind, h2], q2⟩

/-! ### `checkIndexHunks`, `readBand`, `stitchDown`, `stitchAll` -/

/-- Hunk numbers with a file in one sub-directory, each with "the file is not zero-length". -/
def hunkLensInSubdirP (s : Store) (b d : Nat) : Except Err (List (Nat × Bool)) :=
  match s.get? (.hunkDir b d) with
  | none => .error (.transport .notFound)
  | some .dir => .ok (((s.children (.hunkDir b d)).filterMap fun e =>
      match e.key with
      | .hunk _ n => if !e.isDir then some (n, e.nonEmpty) else none
      | _ => none).mergeSort fun x y => x.1 ≤ y.1)
  | some _ => .error (.transport .other)

def hunkLensGoP (s : Store) (b : Nat) : List Nat → List (Nat × Bool) → Except Err (List (Nat × Bool))
  | [], acc => .ok acc
  | d :: ds, acc =>
    match hunkLensInSubdirP s b d with
    | .ok hs => hunkLensGoP s b ds (acc ++ hs)
    | .error e => .error e

/-- `IndexRead::hunk_lengths` on a store. -/
def hunkLengthsP (s : Store) (b : Nat) : Except Err (List (Nat × Bool)) :=
  match s.get? (.indexDir b) with
  | none => .error (.transport .notFound)
  | some .dir => hunkLensGoP s b (hunkSubdirsP s b) []
  | some _ => .error (.transport .other)

theorem run_hunkLengths_go {s : Store} {evs : List Event} (b : Nat) (ds : List Nat) :
    ∀ (acc : List (Nat × Bool)) (w : World), Quiet s evs w →
    ∃ w', (hunkLengths.go b ds acc).run w = (toOutcome (hunkLensGoP s b ds acc), w') ∧ Quiet s evs w' := by
  induction ds with
  | nil => intro acc w h; exact ⟨w, rfl, h⟩
  | cons d ds ih =>
    intro acc w h
    obtain ⟨w1, he, hq⟩ := h.exec_ro (.listDir (.hunkDir b d)) rfl
    simp only [hunkLengths.go, perform, Prog.bind_def, Prog.op_bind, Prog.ret_bind, Prog.run_op, he, quietResp,
      hunkLensGoP, hunkLensInSubdirP]
    cases hg : s.get? (.hunkDir b d) with
    | none => exact ⟨w1, by simp [toOutcome], hq⟩
    | some v =>
      cases v with
      | dir =>
        obtain ⟨w2, h2, q2⟩ := ih (acc ++ (((s.children (.hunkDir b d)).filterMap fun e =>
          match e.key with
          | .hunk _ n => if !e.isDir then some (n, e.nonEmpty) else none
          | _ => none).mergeSort fun x y => x.1 ≤ y.1)) w1 hq
        exact ⟨w2, h2, q2⟩
      | _ => exact ⟨w1, by simp [toOutcome], hq⟩

theorem run_hunkLengths {s : Store} {evs : List Event} {w : World} (h : Quiet s evs w) (b : Nat) :
    ∃ w', (hunkLengths b).run w = (toOutcome (hunkLengthsP s b), w') ∧ Quiet s evs w' := by
  obtain ⟨w1, he, hq⟩ := h.exec_ro (.listDir (.indexDir b)) rfl
  simp only [hunkLengths, perform, Prog.bind_def, Prog.op_bind, Prog.ret_bind, Prog.run_op, he, quietResp,
    hunkLengthsP]
  cases hg : s.get? (.indexDir b) with
  | none => exact ⟨w1, by simp [toOutcome], hq⟩
  | some v =>
    cases v with
    | dir =>
      obtain ⟨w2, h2, q2⟩ := run_hunkLengths_go (s := s) b (hunkSubdirsP s b) [] w1 hq
      exact ⟨w2, h2, q2⟩
    | _ => exact ⟨w1, by simp [toOutcome], hq⟩

/-- `Band::check_index_hunks` on a store. -/
def checkIndexHunksP (s : Store) (b : Nat) : Except Err Unit :=
  match hunkLengthsP s b with
  | .error e => .error e
  | .ok hunks =>
    if hunks.map (·.1) != List.range hunks.length then .error .invalidMetadata
    else if countMismatch (tailInfo s b).2 hunks.length then .error .invalidMetadata
    else if badEmptyHunk (tailInfo s b).1 hunks then .error .invalidMetadata
    else .ok ()

theorem run_checkIndexHunks {s : Store} {evs : List Event} {w : World} (h : Quiet s evs w) (b : Nat) :
    ∃ w', (checkIndexHunks b).run w = (toOutcome (checkIndexHunksP s b), w') ∧ Quiet s evs w' := by
  obtain ⟨w1, h1, q1⟩ := run_hunkLengths h b
  simp only [checkIndexHunks, checkIndexHunksP, Prog.bind_def, Prog.run_bind, h1]
  cases hh : hunkLengthsP s b with
  | error e => exact ⟨w1, by simp [toOutcome], q1⟩
  | ok hunks =>
    simp only [toOutcome]
    by_cases hr : (hunks.map (·.1) != List.range hunks.length) = true
    · exact ⟨w1, by simp [hr], q1⟩
    · obtain ⟨w2, he, q2⟩ := q1.exec_ro (.read (.bandTail b)) rfl
      refine ⟨w2, ?_, q2⟩
      cases hg : s.get? (.bandTail b) with
      | none =>
        by_cases hb : badEmptyHunk false hunks = true <;>
          simp [hr, perform, he, quietResp, tailInfo, countMismatch, hg, hb]
      | some v =>
        cases v with
        | tail c =>
          cases c with
          | none =>
            by_cases hb : badEmptyHunk true hunks = true <;>
              simp [hr, perform, he, quietResp, tailInfo, countMismatch, hg, hb]
          | some k =>
            by_cases hk : hunks.length = k
            · subst hk
              by_cases hb : badEmptyHunk true hunks = true <;>
                simp [hr, perform, he, quietResp, tailInfo, countMismatch, hg, hb]
            · simp [hr, perform, he, quietResp, tailInfo, countMismatch, hg, hk]
        | _ =>
          by_cases hb : badEmptyHunk true hunks = true <;>
            simp [hr, perform, he, quietResp, tailInfo, countMismatch, hg, hb]

/-- The errors reported while version `b` is read (`monitor.error` in `State::BeforeBand` and
in the hunk iterator), in order. -/
def bandErrs (s : Store) (b : Nat) : List Err :=
  match bandOpenP s b with
  | .error e => [e]
  | .ok () =>
    match hunksAvailableP s b with
    | .error e => [e]
    | .ok hs =>
      (match checkIndexHunksP s b with
       | .error e => [e]
       | .ok () => []) ++ readHunksErrs s b hs

/-- What `readBand` returns on a store. -/
def bandTake (s : Store) (b : Nat) (last : Option Str) : List IndexEntry × Option Str :=
  match bandOpenP s b, hunksAvailableP s b with
  | .ok (), .ok hs => readHunksP s b hs last last
  | _, _ => ([], last)

theorem run_readBand {s : Store} {evs : List Event} {w : World} (h : Quiet s evs w) (b : Nat)
    (last : Option Str) :
    ∃ w', (readBand b last).run w = (.ok (bandTake s b last), w') ∧
      Quiet s (evsOf (bandErrs s b) ++ evs) w' := by
  obtain ⟨w1, h1, q1⟩ := run_bandOpen h b
  simp only [readBand, Prog.bind_def, Prog.run_bind, Prog.run_attempt, h1, bandTake, bandErrs]
  cases ho : bandOpenP s b with
  | error e =>
    refine ⟨{ w1 with events := .error e :: w1.events }, ?_, by simpa [evsOf] using q1.emit (.error e)⟩
    simp [toOutcome, logError]
  | ok u =>
    obtain ⟨w2, h2, q2⟩ := run_hunksAvailable q1 b
    simp only [toOutcome, Prog.run_bind, Prog.run_attempt, h2]
    cases hh : hunksAvailableP s b with
    | error e =>
      refine ⟨{ w2 with events := .error e :: w2.events }, ?_, by simpa [evsOf] using q2.emit (.error e)⟩
      simp [logError]
    | ok hs =>
      obtain ⟨w3, h3, q3⟩ := run_checkIndexHunks q2 b
      simp only [Prog.run_bind, Prog.run_attempt, h3]
      cases hc : checkIndexHunksP s b with
      | error e =>
        obtain ⟨w4, h4, q4⟩ := run_readHunks (s := s) b hs last last _ _ (q3.emit (.error e))
        refine ⟨w4, ?_, ?_⟩
        · simpa [toOutcome, logError, Prog.run_bind] using h4
        · rw [evsOf_append]; simpa [evsOf] using q4
      | ok u =>
        obtain ⟨w4, h4, q4⟩ := run_readHunks (s := s) b hs last last _ _ q3
        exact ⟨w4, by simpa [toOutcome, Prog.run_bind] using h4, by simpa [evsOf] using q4⟩

/-- `stitchDown` on a store: entries, and the errors reported (in order). -/
def stitchDownP (s : Store) : Nat → Option Str → List IndexEntry × List Err
  | 0, _ => ([], [])
  | b + 1, last =>
    if isFileP s (.bandHead b) then
      let r := bandTake s b last
      if isFileP s (.bandTail b) then (r.1, bandErrs s b)
      else
        let m := stitchDownP s b r.2
        (r.1 ++ m.1, bandErrs s b ++ m.2)
    else
      let m := stitchDownP s b last
      (m.1, (if isFileP s (.hunk b 0) then [Err.bandHeadMissing b] else []) ++ m.2)

theorem run_stitchDown {s : Store} (b : Nat) :
    ∀ (last : Option Str) (evs : List Event) (w : World), Quiet s evs w →
    ∃ w', (stitchDown b last).run w = (.ok (stitchDownP s b last).1, w') ∧
      Quiet s (evsOf (stitchDownP s b last).2 ++ evs) w' := by
  induction b with
  | zero => intro last evs w h; exact ⟨w, rfl, by simpa [stitchDownP, evsOf] using h⟩
  | succ b ih =>
    intro last evs w h
    obtain ⟨w1, h1, q1⟩ := run_unwrapOr_isFile h (.bandHead b) false
    simp only [stitchDown, stitchDownP, bandExists, bandIsClosed, Prog.bind_def, Prog.run_bind, h1]
    by_cases hex : isFileP s (.bandHead b) = true
    · obtain ⟨w2, h2, q2⟩ := run_readBand q1 b last
      obtain ⟨w3, h3, q3⟩ := run_unwrapOr_isFile q2 (.bandTail b) false
      simp only [hex, if_true, Prog.run_bind, h2, h3]
      by_cases hcl : isFileP s (.bandTail b) = true
      · exact ⟨w3, by simp [hcl], by simpa [hcl] using q3⟩
      · obtain ⟨w4, h4, q4⟩ := ih (bandTake s b last).2 _ w3 q3
        refine ⟨w4, by simp [hcl, Prog.run_bind, h4], ?_⟩
        simp only [hcl, Bool.false_eq_true, if_false, evsOf_append, List.append_assoc]
        exact q4
    · obtain ⟨w2, h2, q2⟩ := run_unwrapOr_isFile q1 (.hunk b 0) false
      simp only [hex, Bool.false_eq_true, if_false, Prog.run_bind, h2]
      by_cases hk : isFileP s (.hunk b 0) = true
      · obtain ⟨w3, h3, q3⟩ := ih last _ _ (q2.emit (.error (.bandHeadMissing b)))
        refine ⟨w3, by simpa [hk, logError, Prog.run_bind] using h3, ?_⟩
        simp only [hk, if_true, List.singleton_append, evsOf_cons]
        exact q3
      · obtain ⟨w3, h3, q3⟩ := ih last evs w2 q2
        exact ⟨w3, by simpa [hk] using h3, by simpa [hk] using q3⟩

/-- `stitchAll` on a store: entries, and the errors reported (in order). -/
def stitchAllP (s : Store) (n : Nat) : List IndexEntry × List Err :=
  let r := bandTake s n none
  if isFileP s (.bandTail n) then (r.1, bandErrs s n)
  else
    let m := stitchDownP s n r.2
    (r.1 ++ m.1, bandErrs s n ++ m.2)

theorem run_stitchAll {s : Store} (n : Nat) {evs : List Event} {w : World} (h : Quiet s evs w) :
    ∃ w', (stitchAll n).run w = (.ok (stitchAllP s n).1, w') ∧
      Quiet s (evsOf (stitchAllP s n).2 ++ evs) w' := by
  obtain ⟨w2, h2, q2⟩ := run_readBand h n none
  obtain ⟨w3, h3, q3⟩ := run_unwrapOr_isFile q2 (.bandTail n) false
  simp only [stitchAll, stitchAllP, bandIsClosed, Prog.bind_def, Prog.run_bind, h2, h3]
  by_cases hcl : isFileP s (.bandTail n) = true
  · exact ⟨w3, by simp [hcl], by simpa [hcl] using q3⟩
  · obtain ⟨w4, h4, q4⟩ := run_stitchDown n (bandTake s n none).2 _ w3 q3
    refine ⟨w4, by simp [hcl, Prog.run_bind, h4], ?_⟩
    simp only [hcl, Bool.false_eq_true, if_false, evsOf_append, List.append_assoc]
    exact q4

/-! ### `filterEntries` -/

theorem run_filterEntries (subtree : Str) (excl : Str → Bool) (es : List IndexEntry) (w : World)
    (hv : ∀ e ∈ es, isPrefixOfImpl subtree e.apath = true → isValid e.apath = true) :
    (filterEntries subtree excl es).run w =
      (.ok (es.filter fun e => isPrefixOfImpl subtree e.apath && !excl e.apath), w) := by
  induction es with
  | nil => rfl
  | cons e es ih =>
    have ih' := ih (fun x hx => hv x (List.mem_cons_of_mem _ hx))
    simp only [filterEntries, Prog.bind_def]
    by_cases hp : isPrefixOfImpl subtree e.apath = true
    · have hval := hv e (List.mem_cons_self ..) hp
      by_cases hx : excl e.apath = true
      · simp [hp, hval, hx, ih']
      · simp [hp, hval, hx, ih', Prog.run_bind]
    · simp [hp, ih']

end Conserve
