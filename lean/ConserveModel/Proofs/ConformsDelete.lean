import ConserveModel.Proofs.ConformsStep
import ConserveModel.Proofs.DeleteSpec
/-
C13 for `delete_bands`: removing whole band directories, unreferenced block files and the lock
file keeps the store invariant `CI` (`Conforms` + `DirsOk` + distinct keys), in every world.
The invariant is preserved by every single step; what makes block removal safe is carried as
pre/postconditions: the referenced set covers every kept band's addresses (C05's
`referencedBlocks_sound`), and blocks are only removed once all bands of `D` are gone.
No property statements here.
-/
namespace Conserve.Conf
open Conserve Conserve.Inv Prog

section
variable (H : Str → Str)

/-! ### `Conforms` when entries are removed or irrelevant keys change -/

theorem entryConforms_of_blocks {s s' : Store} {e : IndexEntry}
    (hb : ∀ a ∈ e.addrs, s'.get? (.block a.hash) = s.get? (.block a.hash))
    (h : entryConforms H s e = true) : entryConforms H s' e = true := by
  unfold entryConforms at h ⊢
  simp only [Bool.and_eq_true] at h ⊢
  refine ⟨h.1, ?_⟩
  have h2 := h.2
  cases hk : e.kind <;> simp only [hk] at h2 ⊢
  · simp only [Bool.and_eq_true, List.all_eq_true] at h2 ⊢
    refine ⟨h2.1, fun a ha => ?_⟩
    have := h2.2 a ha
    simpa only [readAddrPure, blockContent, hb a ha] using this
  · exact h2
  · exact h2
  · exact h2

/-- Keys `blocksConform` constrains. -/
def isBlockish (k : Key) : Prop := (∃ h, k = .block h) ∨ (∃ p, k = .blockDir p)

theorem blockEntryOk_of_not_blockish {k : Key} {v : FileVal} (h : ¬ isBlockish k) :
    blockEntryOk H (k, v) = true := by
  cases k <;> first | rfl | exact absurd (Or.inl ⟨_, rfl⟩) h | exact absurd (Or.inr ⟨_, rfl⟩) h

/-- **`Conforms` through `get?`.**  If the header, root and block root read the same, every
block-ish entry of `s'` was in `s`, and every band directory of `s'` was one in `s` whose hunks,
tail and head read the same and whose entries' blocks read the same, then `s'` conforms if `s` does. -/
theorem conforms_of_get {s s' : Store} (hn : NoDupKeys s) (hn' : NoDupKeys s') (hc : Conforms H s = true)
    (hhdr : s'.get? .header = s.get? .header) (hroot : s'.get? .root = s.get? .root)
    (hbr : s'.get? .blockRoot = s.get? .blockRoot)
    (hblk : ∀ k v, s'.get? k = some v → isBlockish k → s.get? k = some v)
    (hband : ∀ b, s'.get? (.bandDir b) = some .dir → s.get? (.bandDir b) = some .dir ∧ BandKeysSame b s s' ∧
      (∀ n es, s.get? (.hunk b n) = some (.hunk es) → ∀ e ∈ es, ∀ a ∈ e.addrs,
        s'.get? (.block a.hash) = s.get? (.block a.hash))) :
    Conforms H s' = true := by
  unfold Conforms at hc ⊢
  simp only [Bool.and_eq_true, beq_iff_eq] at hc ⊢
  obtain ⟨⟨⟨⟨h1, h2⟩, h3⟩, h4⟩, h5⟩ := hc
  refine ⟨⟨⟨⟨hhdr.trans h1, hroot.trans h2⟩, hbr.trans h3⟩, ?_⟩, ?_⟩
  · rw [blocksConform_eq, List.all_eq_true] at h4 ⊢
    rintro ⟨k, v⟩ hkv
    by_cases hb : isBlockish k
    · exact h4 _ (Store.mem_of_get? (hblk k v (hn'.get?_of_mem hkv) hb))
    · exact blockEntryOk_of_not_blockish H hb
  · rw [List.all_eq_true] at h5 ⊢
    intro b hb
    obtain ⟨hbd, hsame, hblocks⟩ := hband b ((mem_bandIdsOf_iff_get? hn').1 hb)
    exact bandConforms_congr' H (hunkNumsOf_congr hn hn' hsame.1) hsame.1 hsame.2.1 hsame.2.2
      (fun n es hes e he => entryConforms_of_blocks H (hblocks n es hes e he))
      (h5 b ((mem_bandIdsOf_iff_get? hn).2 hbd))

variable {H}

/-! ### The three kinds of change `delete_bands` makes -/

/-- Changing only the lock file keeps the invariant. -/
theorem CI.of_lock_frame {s s' : Store} (h : CI H s) (hn' : NoDupKeys s')
    (hf : FrameOff (fun k => k = .gcLock) s s') : CI H s' := by
  have hroot : s.get? .root = some .dir := by
    have := h.conf
    unfold Conforms at this
    simp only [Bool.and_eq_true, beq_iff_eq] at this
    exact this.1.1.1.2
  refine ⟨?_, ?_, hn'⟩
  · refine conforms_of_get H h.nodup hn' h.conf (hf _ (by simp)) (hf _ (by simp)) (hf _ (by simp)) ?_ ?_
    · rintro k v hv (⟨hh, rfl⟩ | ⟨p, rfl⟩)
      · rw [← hf _ (by simp)]; exact hv
      · rw [← hf _ (by simp)]; exact hv
    · intro b hb
      refine ⟨by rw [← hf _ (by simp)]; exact hb, ⟨fun n => hf _ (by simp), hf _ (by simp), hf _ (by simp)⟩,
        fun _ _ _ _ _ a _ => hf _ (by simp)⟩
  · intro kv hkv
    have hget := hn'.get?_of_mem hkv
    by_cases hk : kv.1 = .gcLock
    · rw [hk]
      simp only [Store.parentOk, Key.parent, beq_iff_eq]
      rw [hf _ (by simp)]; exact hroot
    · rw [hf _ hk] at hget
      have hp := h.dirs.parent_of_get? hget
      unfold Store.parentOk at hp ⊢
      cases hpar : kv.1.parent with
      | none => rfl
      | some p =>
        simp only [hpar] at hp ⊢
        have hne : p ≠ .gcLock := by
          rintro rfl
          cases hkk : kv.1 <;> simp [hkk, Key.parent] at hpar
        rw [hf _ hne]; exact hp

/-- Removing a band directory with everything below it keeps the invariant. -/
theorem CI.eraseTree_band {s : Store} (h : CI H s) (b : Nat) : CI H (s.eraseTree (.bandDir b)) := by
  have hn' : NoDupKeys (s.eraseTree (.bandDir b)) := Store.NoDupKeys.eraseTree h.nodup _
  have hkeep : ∀ k, Key.isUnder (.bandDir b) k = false → (s.eraseTree (.bandDir b)).get? k = s.get? k := by
    intro k hk; rw [Store.get?_eraseTree, hk]; simp
  have hother : ∀ b' k, b' ≠ b → Key.isUnder (.bandDir b') k = true → Key.isUnder (.bandDir b) k = false := by
    intro b' k hne hk
    cases hu : Key.isUnder (.bandDir b) k with
    | false => rfl
    | true => exact absurd (isUnder_bandDir_unique hk hu) hne
  refine ⟨?_, ?_, hn'⟩
  · refine conforms_of_get H h.nodup hn' h.conf (hkeep _ (by simp [Key.isUnder, Key.parent]))
      (hkeep _ (by simp [Key.isUnder, Key.parent])) (hkeep _ (by simp [Key.isUnder, Key.parent])) ?_ ?_
    · rintro k v hv _
      rw [Store.get?_eraseTree] at hv
      split at hv
      · cases hv
      · exact hv
    · intro b' hb'
      rw [Store.get?_eraseTree] at hb'
      split at hb'
      · cases hb'
      · rename_i hnu
        have hne : b' ≠ b := by
          rintro rfl
          simp [Key.isUnder] at hnu
        refine ⟨hb', ⟨fun n => hkeep _ (hother b' _ hne (by simp [Key.isUnder, Key.parent])),
          hkeep _ (hother b' _ hne (by simp [Key.isUnder, Key.parent])),
          hkeep _ (hother b' _ hne (by simp [Key.isUnder, Key.parent]))⟩,
          fun _ _ _ _ _ a _ => hkeep _ (by simp [Key.isUnder, Key.parent])⟩
  · intro kv hkv
    obtain ⟨hm, hnu⟩ := List.mem_filter.mp hkv
    have hp := h.dirs _ hm
    unfold Store.parentOk at hp ⊢
    cases hpar : kv.1.parent with
    | none => rfl
    | some p =>
      simp only [hpar, beq_iff_eq] at hp ⊢
      rw [hkeep _ ?_]; exact hp
      cases hu : Key.isUnder (.bandDir b) p with
      | false => rfl
      | true =>
        have := isUnder_of_parent hpar hu
        simp [this] at hnu

/-- Removing a block file that no entry of any band directory's decodable hunks names keeps the
invariant. -/
theorem CI.erase_block {s : Store} (h : CI H s) {hh : Str} {v : FileVal}
    (hv : s.get? (.block hh) = some v) (hnd : v ≠ .dir)
    (hunref : ∀ b, s.get? (.bandDir b) = some .dir → ∀ n es, s.get? (.hunk b n) = some (.hunk es) →
      ∀ e ∈ es, ∀ a ∈ e.addrs, a.hash ≠ hh) : CI H (s.erase (.block hh)) := by
  have hn' : NoDupKeys (s.erase (.block hh)) := Store.NoDupKeys.erase h.nodup _
  have hkeep : ∀ k, k ≠ .block hh → (s.erase (.block hh)).get? k = s.get? k :=
    fun k hk => Store.get?_erase_ne s hk
  refine ⟨?_, ?_, hn'⟩
  · refine conforms_of_get H h.nodup hn' h.conf (hkeep _ (by simp)) (hkeep _ (by simp)) (hkeep _ (by simp)) ?_ ?_
    · rintro k v' hv' _
      rw [Store.get?_erase_ite] at hv'
      split at hv'
      · cases hv'
      · exact hv'
    · intro b hb
      rw [hkeep _ (by simp)] at hb
      refine ⟨hb, ⟨fun n => hkeep _ (by simp), hkeep _ (by simp), hkeep _ (by simp)⟩, ?_⟩
      intro n es hes e he a ha
      exact hkeep _ (by simpa using hunref b hb n es hes e he a ha)
  · intro kv hkv
    obtain ⟨hm, hne⟩ := List.mem_filter.mp hkv
    have hp := h.dirs _ hm
    unfold Store.parentOk at hp ⊢
    cases hpar : kv.1.parent with
    | none => rfl
    | some p =>
      simp only [hpar, beq_iff_eq] at hp ⊢
      rw [hkeep _ ?_]; exact hp
      rintro rfl
      rw [hv] at hp
      cases hp
      exact hnd rfl

end

/-! ### `exec` on the removing operations -/

theorem exec_removeFile_cases (w : World) (k : Key) :
    (w.exec (.removeFile k)).1.store = w.store ∨
    ((w.exec (.removeFile k)).1.store = w.store.erase k ∧ ∃ v, w.store.get? k = some v ∧ v ≠ .dir) := by
  rcases (World.exec_cases w (.removeFile k)).2 with ⟨hs, _, _⟩ | ⟨k', v, m, ho, _⟩ | ⟨e, hs, _, _⟩ | ⟨hs, _, _⟩
  · exact Or.inl hs
  · cases ho
  · exact Or.inl hs
  · rw [hs]
    simp only [applyOp]
    split
    · exact Or.inl rfl
    · exact Or.inl rfl
    · rename_i v hnd hv
      refine Or.inr ⟨rfl, v, hv, fun e => ?_⟩
      subst e
      exact hnd rfl

theorem exec_removeDirAll_cases (w : World) (k : Key) :
    ((w.exec (.removeDirAll k)).1.store = w.store ∧ ∃ e, (w.exec (.removeDirAll k)).2 = .err e) ∨
    (w.exec (.removeDirAll k)).1.store = w.store.eraseTree k := by
  rcases (World.exec_cases w (.removeDirAll k)).2 with ⟨hs, _, hr⟩ | ⟨k', v, m, ho, _⟩ | ⟨e, hs, _, hr⟩ | ⟨hs, _, hr⟩
  · exact Or.inl ⟨hs, _, hr⟩
  · cases ho
  · exact Or.inl ⟨hs, _, hr⟩
  · rw [hs, hr]
    simp only [applyOp]
    split
    · exact Or.inl ⟨rfl, _, rfl⟩
    · exact Or.inr rfl

/-! ### A small Hoare logic with a store invariant -/

/-- `ISat I p w Q`: whatever the outcome, the final store satisfies `I`; if `p` returns `a`, `Q a`
holds of the final world. -/
def ISat (I : Store → Prop) {α : Type} (p : Prog α) (w : World) (Q : α → World → Prop) : Prop :=
  I (p.run w).2.store ∧ ∀ a, (p.run w).1 = .ok a → Q a (p.run w).2

namespace ISat
variable {I : Store → Prop}

theorem ret {α : Type} {a : α} {w : World} {Q : α → World → Prop} (hI : I w.store) (hq : Q a w) :
    ISat I (.ret a) w Q := ⟨hI, fun _ h => by cases h; exact hq⟩

theorem fail {α : Type} {e : Err} {w : World} {Q : α → World → Prop} (hI : I w.store) :
    ISat I (.fail e) w Q := ⟨hI, fun _ h => nomatch h⟩

theorem panic {α : Type} {m : String} {w : World} {Q : α → World → Prop} (hI : I w.store) :
    ISat I (.panic m) w Q := ⟨hI, fun _ h => nomatch h⟩

theorem bind {α β : Type} {p : Prog α} {f : α → Prog β} {w : World} {Q : β → World → Prop}
    (hp : ISat I p w (fun a w' => ISat I (f a) w' Q)) : ISat I (p.bind f) w Q := by
  unfold ISat at hp ⊢
  rw [Prog.run_bind]
  obtain ⟨hi, hq⟩ := hp
  cases hrun : p.run w with
  | mk out w1 =>
    rw [hrun] at hi hq
    cases out with
    | ok a => exact hq a rfl
    | err e => exact ⟨hi, fun _ h => nomatch h⟩
    | panic s => exact ⟨hi, fun _ h => nomatch h⟩

theorem mono {α : Type} {p : Prog α} {w : World} {Q Q' : α → World → Prop} (hp : ISat I p w Q)
    (h : ∀ a w', I w'.store → Q a w' → Q' a w') : ISat I p w Q' :=
  ⟨hp.1, fun a ha => h a _ hp.1 (hp.2 a ha)⟩

theorem op {α : Type} {o : Op} {k : Resp → Prog α} {w : World} {Q : α → World → Prop}
    (hk : ∀ r, r = (w.exec o).2 → ISat I (k r) (w.exec o).1 Q) : ISat I (.op o k) w Q :=
  hk _ rfl

/-- Catching everything: the store is the one `p` ends in. -/
theorem attemptAll {α : Type} {p : Prog α} {w : World} {Q : α → World → Prop} (hp : ISat I p w Q) :
    ISat I p.attemptAll w (fun _ w' => I w'.store) := by
  unfold ISat
  rw [Prog.run_attemptAll]
  exact ⟨hp.1, fun _ _ => hp.1⟩

/-- A read-only program. -/
theorem of_ro {α : Type} {p : Prog α} (hp : ReadOnlyProg p) {w : World} (hI : I w.store) :
    ISat I p w (fun _ w' => w'.store = w.store) :=
  ⟨by rw [hp.store_eq w]; exact hI, fun _ _ => hp.store_eq w⟩

theorem and_run {α : Type} {p : Prog α} {w : World} {Q Q' : α → World → Prop} (hp : ISat I p w Q)
    (h : ∀ a, (p.run w).1 = .ok a → Q' a (p.run w).2) : ISat I p w (fun a w' => Q a w' ∧ Q' a w') :=
  ⟨hp.1, fun a ha => ⟨hp.2 a ha, h a ha⟩⟩

end ISat

section
variable {H : Str → Str}

/-- A program that only touches the lock file keeps `CI`. -/
theorem ISat.of_lock {α : Type} {p : Prog α} (hp : TouchesOnly (fun k => k = .gcLock) p) {w : World}
    (hI : CI H w.store) :
    ISat (CI H) p w (fun _ w' => FrameOff (fun k => k = .gcLock) w.store w'.store) :=
  ⟨hI.of_lock_frame (Prog.run_noDupKeys p w hI.nodup) (hp.frame w), fun _ _ => hp.frame w⟩

/-- The referenced set names every block of every band directory outside `D`. -/
def RefsCover (D : List Nat) (refs : List Str) (s : Store) : Prop :=
  ∀ b, s.get? (.bandDir b) = some .dir → b ∉ D → ∀ n es, s.get? (.hunk b n) = some (.hunk es) →
    ∀ e ∈ es, ∀ a ∈ e.addrs, a.hash ∈ refs

theorem RefsCover.of_same {D : List Nat} {refs : List Str} {s s' : Store} (h : RefsCover D refs s)
    (hd : ∀ b, s'.get? (.bandDir b) = some .dir → s.get? (.bandDir b) = some .dir)
    (hh : ∀ b n, s'.get? (.bandDir b) = some .dir → s'.get? (.hunk b n) = s.get? (.hunk b n)) :
    RefsCover D refs s' := by
  intro b hb hbD n es hes
  rw [hh b n hb] at hes
  exact h b (hd b hb) hbD n es hes

theorem RefsCover.of_lock_frame {D : List Nat} {refs : List Str} {s s' : Store} (h : RefsCover D refs s)
    (hf : FrameOff (fun k => k = .gcLock) s s') : RefsCover D refs s' :=
  h.of_same (fun b hb => by rw [← hf _ (by simp)]; exact hb) (fun b n _ => hf _ (by simp))

/-- Deleting the band directories one by one: `CI` after every step; if it completes, every
listed band directory is gone, and nothing that was gone came back. -/
theorem delBands_isat (D : List Nat) (refs : List Str) (D' : List Nat) :
    ∀ (n : Nat) (w : World), CI H w.store → RefsCover D refs w.store →
      ISat (CI H) (deleteBody.delBands D' n) w (fun _ w' =>
        RefsCover D refs w'.store ∧ (∀ b ∈ D', w'.store.get? (.bandDir b) = none) ∧
        (∀ b, w.store.get? (.bandDir b) = none → w'.store.get? (.bandDir b) = none)) := by
  induction D' with
  | nil =>
    intro n w hI hc
    simp only [deleteBody.delBands, Prog.pure_def]
    exact ISat.ret hI ⟨hc, (by intro b hb; cases hb), fun _ h => h⟩
  | cons b D' ih =>
    intro n w hI hc
    simp only [deleteBody.delBands, bandDelete, perform, Prog.bind_def, Prog.op_bind, Prog.ret_bind, Prog.pure_def]
    apply ISat.op
    intro r hr
    have hI1 : CI H (w.exec (.removeDirAll (.bandDir b))).1.store := by
      rcases exec_removeDirAll_cases w (.bandDir b) with ⟨hs, _⟩ | hs
      · rw [hs]; exact hI
      · rw [hs]; exact hI.eraseTree_band b
    cases r with
    | unit =>
      have hs : (w.exec (.removeDirAll (.bandDir b))).1.store = w.store.eraseTree (.bandDir b) := by
        rcases exec_removeDirAll_cases w (.bandDir b) with ⟨_, e, he⟩ | hs
        · rw [he] at hr; cases hr
        · exact hs
      have hc1 : RefsCover D refs (w.exec (.removeDirAll (.bandDir b))).1.store := by
        rw [hs]
        refine hc.of_same ?_ ?_
        · intro b' hb'
          rw [Store.get?_eraseTree] at hb'
          split at hb'
          · cases hb'
          · exact hb'
        · intro b' n' hb'
          rw [Store.get?_eraseTree] at hb' ⊢
          split at hb'
          · cases hb'
          · rename_i hnu
            have hne : b' ≠ b := by rintro rfl; simp [Key.isUnder] at hnu
            have : Key.isUnder (.bandDir b) (.hunk b' n') = false := by
              cases hu : Key.isUnder (.bandDir b) (.hunk b' n') with
              | false => rfl
              | true =>
                exact absurd (isUnder_bandDir_unique (k := .hunk b' n') (by simp [Key.isUnder, Key.parent]) hu) hne
            simp [this]
      simp only [Prog.ret_bind]
      refine (ih (n + 1) _ hI1 hc1).mono ?_
      intro _ w' _ ⟨hc', hgone, hstay⟩
      have hb0 : (w.exec (.removeDirAll (.bandDir b))).1.store.get? (.bandDir b) = none := by
        rw [hs, Store.get?_eraseTree]; simp [Key.isUnder]
      refine ⟨hc', ?_, ?_⟩
      · intro b' hb'
        rcases List.mem_cons.mp hb' with rfl | hb'
        · exact hstay _ hb0
        · exact hgone b' hb'
      · intro b' hb'
        apply hstay
        rw [hs, Store.get?_eraseTree]
        split
        · rfl
        · exact hb'
    | err e =>
      cases e <;> exact ISat.fail hI1
    | val v => exact ISat.fail hI1
    | listing xs => exact ISat.fail hI1
    | stat a b => exact ISat.fail hI1

/-- Removing unreferenced blocks once every band of `D` is gone: `CI` after every step. -/
theorem delBlocks_isat (D : List Nat) (refs : List Str) (hs : List Str) :
    ∀ (n : Nat) (w : World), CI H w.store → RefsCover D refs w.store →
      (∀ b ∈ D, w.store.get? (.bandDir b) ≠ some .dir) → (∀ h ∈ hs, h ∉ refs) →
      ISat (CI H) (deleteBody.delBlocks hs n) w (fun _ _ => True) := by
  induction hs with
  | nil =>
    intro n w hI _ _ _
    simp only [deleteBody.delBlocks, Prog.pure_def]
    exact ISat.ret hI trivial
  | cons h hs ih =>
    intro n w hI hc hgone hun
    simp only [deleteBody.delBlocks, perform, Prog.bind_def, Prog.op_bind, Prog.ret_bind]
    apply ISat.op
    intro r _
    have hkeep : ∀ k, k ≠ .block h → (w.exec (.removeFile (.block h))).1.store.get? k = w.store.get? k := by
      intro k hk
      rcases exec_removeFile_cases w (.block h) with hs' | ⟨hs', _⟩
      · rw [hs']
      · rw [hs']; exact Store.get?_erase_ne _ hk
    have hI1 : CI H (w.exec (.removeFile (.block h))).1.store := by
      rcases exec_removeFile_cases w (.block h) with hs' | ⟨hs', v, hv, hnd⟩
      · rw [hs']; exact hI
      · rw [hs']
        refine hI.erase_block hv hnd ?_
        intro b hb n' es hes e he a ha heq
        have hbD : b ∉ D := fun hbD => hgone b hbD hb
        have := hc b hb hbD n' es hes e he a ha
        rw [heq] at this
        exact hun h (List.mem_cons_self ..) this
    have hc1 : RefsCover D refs (w.exec (.removeFile (.block h))).1.store :=
      hc.of_same (fun b hb => by rw [← hkeep _ (by simp)]; exact hb) (fun b n' _ => hkeep _ (by simp))
    have hgone1 : ∀ b ∈ D, (w.exec (.removeFile (.block h))).1.store.get? (.bandDir b) ≠ some .dir := by
      intro b hb; rw [hkeep _ (by simp)]; exact hgone b hb
    have hun1 : ∀ h' ∈ hs, h' ∉ refs := fun h' hh' => hun h' (List.mem_cons_of_mem _ hh')
    split
    · exact ih _ _ hI1 hc1 hgone1 hun1
    · exact ih _ _ hI1 hc1 hgone1 hun1

/-- `delete_bands` after the referenced set is known. -/
theorem bodyRest_isat (D : List Nat) (o : DeleteOpts) (held : Option Nat) (refs : List Str) (w : World)
    (hI : CI H w.store) (hc : RefsCover D refs w.store) :
    ISat (CI H) (bodyRest D o held refs) w (fun _ _ => True) := by
  simp only [bodyRest]
  apply ISat.bind
  refine (ISat.of_ro readOnly_listBlocks hI).mono ?_
  intro present w1 hI1 hst1
  apply ISat.bind
  refine (ISat.of_ro (readOnly_measure _) hI1).mono ?_
  intro _ w2 hI2 hst2
  have hc2 : RefsCover D refs w2.store := by rw [hst2, hst1]; exact hc
  have hrelease : ∀ (st : DeleteStats) (w' : World), CI H w'.store →
      ISat (CI H) (gcLockRelease.bind fun _ => Prog.ret st) w' (fun _ _ => True) := by
    intro st w' hI'
    apply ISat.bind
    refine (ISat.of_lock (touches_gcLockRelease (fun k => k = Key.gcLock) rfl) hI').mono ?_
    intro _ w'' hI'' _
    exact ISat.ret hI'' trivial
  split
  · simp only [Prog.ret_bind]
    exact hrelease _ w2 hI2
  · apply ISat.bind
    refine (ISat.of_ro (readOnly_gcLockCheck _) hI2).mono ?_
    intro _ w3 hI3 hst3
    apply ISat.bind
    refine (delBands_isat D refs D 0 w3 hI3 (by rw [hst3]; exact hc2)).mono ?_
    intro nb w4 hI4 ⟨hc4, hgone, _⟩
    apply ISat.bind
    refine (delBlocks_isat D refs _ 0 w4 hI4 hc4 (fun b hb => by rw [hgone b hb]; simp) ?_).mono ?_
    · intro h hh
      simp only [List.mem_mergeSort, List.mem_filter, Bool.not_eq_true', List.contains_eq_mem,
        decide_eq_false_iff_not] at hh
      exact hh.2
    · intro errs w5 hI5 _
      simp only [Prog.ret_bind]
      exact hrelease _ w5 hI5

/-- The body of `delete_bands` (strict mode) in every world. -/
theorem deleteBody_isat (D : List Nat) (o : DeleteOpts) (held : Option Nat) (w : World)
    (hI : CI H w.store) : ISat (CI H) (deleteBody true D o held) w (fun _ _ => True) := by
  rw [deleteBody_eq]
  apply ISat.bind
  refine ((ISat.of_ro readOnly_listBandIds hI).and_run (Q' := fun all _ => all = bandIdsOf w.store)
    (fun all hall => listBandIds_sound hall)).mono ?_
  intro all w1 hI1 ⟨hst1, hall⟩
  apply ISat.bind
  refine ((ISat.of_ro (readOnly_referencedBlocks true _) hI1).and_run
    (Q' := fun refs _ => RefsCover D refs w1.store) ?_).mono ?_
  · intro refs hr b hbdir hbD n es hes e he a ha
    refine referencedBlocks_sound _ w1 refs hr b ?_ ?_ n es (by simp [hunkAt, hes]) e he a ha
    · rw [List.mem_filter, hall, ← hst1]
      exact ⟨(mem_bandIdsOf_iff_get? hI1.nodup).2 hbdir, by simpa using hbD⟩
    · intro n' v hv
      exact (hI1.dirs.hunkTreeOk b n' v hv).1
  · intro refs w2 hI2 ⟨hst2, hcov⟩
    exact bodyRest_isat D o held refs w2 hI2 (by rw [hst2]; exact hcov)

/-- **`delete_bands` (strict mode) keeps `CI` in every world**: any faults, any crash point. -/
theorem deleteBands_isat (D : List Nat) (o : DeleteOpts) (w : World) (hI : CI H w.store) :
    ISat (CI H) (deleteBands true D o) w (fun _ _ => True) := by
  rw [deleteBands_eq]
  apply ISat.bind
  refine (ISat.of_lock (touches_acquire (fun k => k = Key.gcLock) rfl o) hI).mono ?_
  intro held w1 hI1 _
  simp only [withLock]
  apply ISat.bind
  refine (ISat.attemptAll (deleteBody_isat D o held w1 hI1)).mono ?_
  intro r w2 hI2 _
  cases r with
  | ok st => exact ISat.ret hI2 trivial
  | err e =>
    apply ISat.bind
    refine (ISat.of_lock (touches_gcLockReleaseOnError (fun k => k = Key.gcLock) rfl) hI2).mono ?_
    intro _ w3 hI3 _
    exact ISat.fail hI3
  | panic site =>
    apply ISat.bind
    refine (ISat.of_lock (touches_gcLockDrop (fun k => k = Key.gcLock) rfl) hI2).mono ?_
    intro _ w3 hI3 _
    exact ISat.panic hI3

end

end Conserve.Conf
