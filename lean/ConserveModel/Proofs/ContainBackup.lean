import ConserveModel.Proofs.ExactTop
/-
C10, clause 3: a fault-free `backup` onto an archive that is only "fair" — a well-formed map and
tree with sorted hunks and no lock (`StoreOK`, `ArchWF`), but possibly with versions that do not list
silently, hunks missing, and index entries that refer to missing blocks — still completes and the new
version restores exactly.  This generalises `Exact.backup_summary` (Proofs/ExactTop.lean), which
assumes `ArchiveGood` (every version lists silently, no dangling reference): the basis listing may
now report errors, and the tool's "looks unchanged ⇒ is unchanged" assumption is needed only for
basis entries whose blocks are all present (`Inv.HeuristicSound`, which is stated that way).
No property statements here.
-/
set_option linter.unusedSimpArgs false
namespace Conserve.Contain
open Conserve Conserve.Exact Prog

variable {H : Str → Str} {o : BackupOpts}

/-! ### The prelude without "every version lists silently" -/

/-- `Exact.backupPrelude_runs` without `ArchiveGood.bands`: the basis listing is still `basisListing s`
(C08's rule), but the run may report the listing's errors. -/
theorem backupPrelude_runs_fair (hlen : ∀ d, subdirNameChars ≤ (H d).length) {s : Store}
    (hst : StoreOK H s) (hwf0 : ArchWF s) (noLock : s.get? .gcLock = none) :
    ∃ evs, RunsAt Inv.backupPrelude s (.ok (newBandOf s, blockNamesOf (withNewBand s), basisListing s))
        (withNewBand s) evs ∧
      (∀ b ∈ basisListing s, (entryTimeNs b.mtime b.mtimeNanos).isSome = true) ∧
      LInv H o (newBandOf s) s (withNewBand s)
        { band := newBandOf s, exists_ := blockNamesOf (withNewBand s) } [] [] [] 0 := by
  have hst1 : StoreOK H (withNewBand s) := withNewBand_storeOK hst
  have hframe := withNewBand_frame s
  have hfresh : ∀ k, Key.isUnder (.bandDir (newBandOf s)) k = true → k ≠ .bandHead (newBandOf s) →
      k ≠ .indexDir (newBandOf s) → k ≠ .bandDir (newBandOf s) → (withNewBand s).get? k = none := by
    intro k hk h1 h2 h3
    rw [get?_withNewBand]
    simp only [h1, h2, h3, if_false]
    exact fresh_under_new hst hk
  have hlock : RunsAt gcIsLocked s (.ok false) s [] := fun w hw => by
    have := gcIsLocked_runs hw.quiet
    rw [hw.store] at this
    simpa [fileAt, noLock] using this
  have hlast : RunsAt lastBandId s (.ok (maxNat? (bandIdsOf s))) s [] := fun w hw => by
    have := lastBandId_runs hw.quiet (by rw [hw.store]; exact hst.root)
    rwa [hw.store] at this
  have hlock2 : RunsAt gcLockListed (withNewBand s) (.ok false) (withNewBand s) [] := fun w hw => by
    have := gcLockListed_runs hw.quiet (by rw [hw.store]; exact hst1.root)
    rw [hw.store] at this
    rwa [lockListedOf_of_get?_none (by rw [get?_withNewBand]; simpa using noLock)] at this
  have hblocks : RunsAt listBlocks (withNewBand s) (.ok (blockNamesOf (withNewBand s))) (withNewBand s) [] :=
    fun w hw => by
      have := listBlocks_runs hw.quiet (by rw [hw.store]; exact hst1.blockRoot)
        (by rw [hw.store]; exact blockSubdirs_are_dirs hst1.uniqueKeys)
      rwa [hw.store] at this
  have hl : LInv H o (newBandOf s) s (withNewBand s)
      { band := newBandOf s, exists_ := blockNamesOf (withNewBand s) } [] [] [] 0 := by
    refine ⟨⟨hst1, ?_, by simp [groupEntries], (fun _ h => nomatch h), (fun _ h => nomatch h), Nat.le_refl _⟩, rfl, rfl,
      rfl, ⟨?_, ?_, ?_, ?_, ?_, ?_⟩, rfl, rfl, (fun _ h => nomatch h), hframe⟩
    · intro h hbl
      refine (mem_blockNamesOf hst1.uniqueKeys hst1.dirsOk).2 ⟨hbl, ?_⟩
      obtain ⟨v, hgv, h1, h2⟩ := hbl
      rcases hst1.blocks h v hgv with rfl | ⟨c, rfl, hc⟩
      · simp [FileVal.isEmptyFile] at h2
      · rw [← hc]; exact hlen c
    · intro n
      rw [hfresh _ (by simp [Key.isUnder, Key.parent]) (by simp) (by simp) (by simp)]
      simp
    · intro d
      rw [hfresh _ (by simp [Key.isUnder, Key.parent]) (by simp) (by simp) (by simp)]
      simp
    · simp [get?_withNewBand]
    · simp [get?_withNewBand]
    · simp [get?_withNewBand]
    · exact hfresh _ (by simp [Key.isUnder, Key.parent]) (by simp) (by simp) (by simp)
  unfold Inv.backupPrelude basisListing
  cases hmax : maxNat? (bandIdsOf s) with
  | none =>
    refine ⟨[], ?_, (fun _ h => nomatch h), hl⟩
    refine RunsAt.bind0 hlock ?_
    simp only [Bool.false_eq_true, if_false]
    refine RunsAt.bind0 hlast ?_
    refine RunsAt.bind0 (bandCreate_runs hst) ?_
    refine RunsAt.bind0 hlock2 ?_
    simp only [Bool.false_eq_true, if_false]
    refine RunsAt.bind0 hblocks ?_
    simp only [hmax]
    exact RunsAt.ret _ _
  | some b =>
    have hbmem : b ∈ bandIdsOf s := maxNat?_mem hmax
    have hblt : b < newBandOf s := nextBandId_gt _ b hbmem
    have hsame : ∀ c, c ≤ b → BandSame s (withNewBand s) c := fun c hc =>
      bandSame_of_frame hframe (by omega)
    have hwf1 : ArchWF (withNewBand s) := by
      refine archWF_frame hwf0 hst1 hframe ?_
      have : hunkNumsOf (withNewBand s) (newBandOf s) = [] := by
        apply hunkNumsOf_nil_of_no_hunk
        intro kv hkv n hk
        obtain ⟨k, v⟩ := kv
        simp only at hk
        subst hk
        have := hst1.noDup.get?_of_mem hkv
        rw [hfresh _ (by simp [Key.isUnder, Key.parent]) (by simp) (by simp) (by simp)] at this
        cases this
      simp [ownEntries, this, strictlySorted]
    have hlist : listSpec (withNewBand s) b = listSpec s b :=
      listSpec_same hwf0.uniqueKeys hst1.uniqueKeys b hsame
    refine ⟨((listErrors (withNewBand s) b).map Event.error).reverse, ?_, ?_, hl⟩
    · refine RunsAt.bind0 hlock ?_
      simp only [Bool.false_eq_true, if_false]
      refine RunsAt.bind0 hlast ?_
      refine RunsAt.bind0 (bandCreate_runs hst) ?_
      refine RunsAt.bind0 hlock2 ?_
      simp only [Bool.false_eq_true, if_false]
      refine RunsAt.bind0 hblocks ?_
      simp only [hmax]
      have hle := listEntries_runsAt hwf1 b [slash] (fun _ => false)
      rw [rootFilter_listSpec, hlist] at hle
      exact RunsAt.bind_r0 hle (RunsAt.ret _ _)
    · intro e he
      obtain ⟨_, _, es, _, hu, hee⟩ := C08.listed_is_stored he
      exact entryUsable_time (List.all_eq_true.mp hu e hee)

/-! ### The tool's assumption on a damaged archive -/

theorem readBack_congr_content {s s' : Store} (as : List Addr)
    (h : ∀ a ∈ as, blockContent H s' a.hash = blockContent H s a.hash) :
    readBack H s' as = readBack H s as := by
  induction as with
  | nil => rfl
  | cons a as ih =>
    have ha := h a (List.mem_cons_self ..)
    have ih' := ih (fun x hx => h x (List.mem_cons_of_mem _ hx))
    simp only [readBack, readAddrPure, ha, ih']

theorem blockContent_hash {s : Store} {h c : Str} (hb : blockContent H s h = some c) : H c = h := by
  unfold blockContent at hb
  split at hb
  · split at hb
    · rename_i hh; cases hb; exact hh
    · cases hb
  · cases hb

/-- **The run-level assumption (`Inv.HeuristicSound`) for a DAMAGED archive `s'`**, from the
store-level assumption on the archive `s` it was damaged from: every decodable hunk of `s'` is a hunk
of `s`, `s` had no dangling reference, and the block hash is injective.  A basis entry that looks
unchanged and whose blocks are all present (in `s'` or re-created since) names blocks with the
content they had in `s` — a block is determined by its name — so it reads back as it did in `s`. -/
theorem heuristicSound_of_damaged (hinj : Function.Injective H) {src : List SrcEntry} {s s' : Store}
    (hnd' : Inv.NoDupKeys s') (hbg' : Inv.BlocksGood H s')
    (hhunks : ∀ b n es, hunkAt s' b n = some es → hunkAt s b n = some es)
    (hd : NoDangling H s) (hs : Inv.HeuristicSoundStore H src s) :
    Inv.HeuristicSound H src (World.clean s') := by
  have hw0 : Inv.WOK H [] s' (World.clean s') :=
    ⟨rfl, ⟨hnd', hbg', fun h => h, fun b n es h0 h1 => by
      change hunkAt s' b n = some es at h1; rw [h0] at h1; cases h1⟩⟩
  obtain ⟨hf, hq⟩ := Inv.backupPrelude_sat (World.clean s') hw0
  intro band blocks basis w1 hrun
  rw [hrun] at hf hq
  obtain ⟨_, _, hfh⟩ := hq _ rfl
  intro b hb sf hsf hkf hap s'' hx hh hall
  obtain ⟨b', n, hes, hhunk, hmem⟩ := hfh b hb
  have hbk : b.kind = .file := (Inv.heuristicallyUnchanged_kind hh).trans hkf
  cases h0 : hunkAt s' b' n with
  | none =>
    obtain ⟨sf', hmem', _⟩ := hf.wok.good.newRec b' n hes h0 hhunk b hmem hbk
    cases hmem'
  | some hes0 =>
    have heq : hes0 = hes := by
      have := Inv.hunkAt_mono h0 hf.ext
      rw [hhunk] at this
      cases this; rfl
    subst heq
    have h0s := hhunks b' n hes0 h0
    have hprem : ∀ a ∈ b.addrs, ∃ c, blockContent H s a.hash = some c := by
      intro a ha
      have := hd b' n hes0 h0s b hmem a ha
      unfold readAddrPure at this
      cases hc : blockContent H s a.hash with
      | none => simp [hc] at this
      | some c => exact ⟨c, rfl⟩
    have hrb := hs b' n hes0 h0s b hmem sf hsf hkf hap hh hprem
    rw [← hrb]
    refine readBack_congr_content _ fun a ha => ?_
    obtain ⟨c, hc⟩ := hprem a ha
    obtain ⟨c'', hc''⟩ := hall a ha
    have : c'' = c := hinj ((blockContent_hash hc'').trans (blockContent_hash hc).symm)
    rw [hc, hc'', this]

/-! ### The summary -/

/-- `Exact.Summary` without "reports nothing" and without "no dangling reference". -/
structure FairSummary (H : Str → Str) (o : BackupOpts) (src : List SrcEntry) (s s' : Store)
    (hs : List (List IndexEntry)) (stats : Stats) (evs : List Event) : Prop where
  runs : RunsAt (backup H o src) s (.ok stats) s' evs
  noErr : stats.errors = 0
  final : Final H o (newBandOf s) s s' hs src
  records : Paired (Records H o s') src hs.flatten
  usable : ∀ e ∈ hs.flatten, entryUsable e = true
  wf : ArchWF s'
  ext : Extends s s'

/-- **`Exact.backup_summary` for a fair archive.**  `StoreOK`, `ArchWF`, no lock, and the tool's
assumption for the basis this run computes. -/
theorem backup_summary_fair (hinj : Function.Injective H) (hlen : ∀ d, subdirNameChars ≤ (H d).length)
    (hmax : 0 < o.maxBlockSize) {src : List SrcEntry} {s : Store} (hsrc : SrcGood src)
    (hst : StoreOK H s) (hwf : ArchWF s) (noLock : s.get? .gcLock = none)
    (hheur : Inv.NoBands s ∨ Inv.HeuristicSound H src (World.clean s)) :
    ∃ s' hs stats evs, FairSummary H o src s s' hs stats evs := by
  obtain ⟨evs1, hr1, hbasis, hl⟩ := backupPrelude_runs_fair (o := o) hlen hst hwf noLock
  obtain ⟨s', hs, evs, stats, hr2, herr, hne, hf⟩ :=
    backupMain_runs hmax (newBandOf s, blockNamesOf (withNewBand s), basisListing s) hl hsrc.entryGood hbasis
      hsrc.sorted hsrc.bytes
  have hrun : RunsAt (backup H o src) s (.ok stats) s' (evs ++ evs1) := by
    rw [Inv.backup_eq]
    exact RunsAt.bind hr1 hr2
  obtain ⟨_, hstore, _⟩ := hrun.clean
  have hset : C04.Setting H o src (World.clean s) :=
    ⟨hinj, hmax, hsrc.wf, rfl, hst.noDup, hst.blocks, hheur⟩
  have hext : Extends s s' := hstore ▸ C04.faults_extends hset
  have hrec : ∀ n es, hunkAt s' (newBandOf s) n = some es → ∀ e ∈ es, e.kind = .file → Inv.RecOK H src s' e := by
    intro n es hh
    have h0 : hunkAt s (newBandOf s) n = none := by
      simp [hunkAt, fresh_under_new hst (k := .hunk (newBandOf s) n) (by simp [Key.isUnder, Key.parent])]
    have := C04.faults_recorded_content hset (newBandOf s) n es h0 (by rw [hstore]; exact hh)
    rwa [hstore] at this
  have hrecs := final_records hf hsrc hrec
  have husable : ∀ e ∈ hs.flatten, entryUsable e = true := by
    have : ∀ {l1 : List SrcEntry} {l2 : List IndexEntry}, Paired (Records H o s') l1 l2 →
        (∀ sf ∈ l1, sf ∈ src) → ∀ e ∈ l2, entryUsable e = true := by
      intro l1 l2 hp
      induction hp with
      | nil => intro _ e he; cases he
      | cons hab _ ih =>
        intro hsub e he
        rcases List.mem_cons.mp he with rfl | he
        · exact hab.usable hsrc (hsub _ (List.mem_cons_self ..)) hf.st.small
        · exact ih (fun x hx => hsub x (List.mem_cons_of_mem _ hx)) e he
    exact this hrecs (fun _ h => h)
  exact ⟨s', hs, stats, evs ++ evs1, hrun, herr, hf, hrecs, husable,
    final_archWF hf hwf husable hsrc.sorted, hext⟩

section summary
variable {src : List SrcEntry} {s s' : Store} {hs : List (List IndexEntry)} {stats : Stats} {evs : List Event}

theorem FairSummary.head_ok (h : FairSummary H o src s s' hs stats evs) : headOutcome s' (newBandOf s) = .ok () :=
  headOutcome_of_readable (by simp [headReadable, h.final.head])

/-- Restoring the new version: exactly the source, nothing reported. -/
theorem FairSummary.restoreSpec (h : FairSummary H o src s s' hs stats evs) (hsrc : SrcGood src) :
    restoreSpecP H s' (newBandOf s) = (.ok (src.map (expectedNode o)), []) := by
  unfold restoreSpecP
  rw [h.head_ok, final_listSpec h.final h.usable, final_listErrors h.final h.usable,
    restoreP_records hsrc h.records (fun _ hx => hx) [] (fun _ hp => nomatch hp)]
  rfl

theorem FairSummary.bandIds_mem (h : FairSummary H o src s s' hs stats evs) : newBandOf s ∈ bandIdsOf s' :=
  (mem_bandIdsOf h.final.st).2 h.final.bandDir

theorem FairSummary.bandIds_le (h : FairSummary H o src s s' hs stats evs) (hst : StoreOK H s) :
    ∀ b ∈ bandIdsOf s', b ≤ newBandOf s := by
  intro b hb
  by_cases hne : b = newBandOf s
  · omega
  · have := (mem_bandIdsOf h.final.st).1 hb
    rw [h.final.frame _ (by simp [newKey, Key.isUnder, Key.parent, isBlockish, hne])] at this
    exact Nat.le_of_lt (nextBandId_gt _ b ((mem_bandIdsOf hst).2 this))

end summary

end Conserve.Contain
