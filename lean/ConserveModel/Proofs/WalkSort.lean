import ConserveModel.Tree
import ConserveModel.Proofs.ApathOrder
/-
Helper lemmas: insertion sort (`insertBy`, `sortBy`) is a sort; it commutes with key-preserving
maps and with filters; two sorts of permuted lists agree when the order is antisymmetric on the
elements.
-/
namespace Conserve

variable {α β : Type}

/-- A total preorder given as a Boolean `≤`. -/
structure TotalPreorder (le : α → α → Bool) : Prop where
  total : ∀ a b, le a b = true ∨ le b a = true
  trans : ∀ a b c, le a b = true → le b c = true → le a c = true

theorem insertBy_cons (le : α → α → Bool) (x y : α) (ys : List α) :
    insertBy le x (y :: ys) = if le x y then x :: y :: ys else y :: insertBy le x ys := rfl

theorem insertBy_perm (le : α → α → Bool) (x : α) (l : List α) :
    (insertBy le x l).Perm (x :: l) := by
  induction l with
  | nil => exact List.Perm.refl _
  | cons y ys ih =>
    unfold insertBy
    split
    · exact List.Perm.refl _
    · exact (List.Perm.cons y ih).trans (List.Perm.swap x y ys)

theorem sortBy_perm (le : α → α → Bool) (l : List α) : (sortBy le l).Perm l := by
  induction l with
  | nil => exact List.Perm.refl _
  | cons x xs ih => exact (insertBy_perm le x _).trans (List.Perm.cons x ih)

theorem mem_sortBy {le : α → α → Bool} {l : List α} {x : α} : x ∈ sortBy le l ↔ x ∈ l :=
  (sortBy_perm le l).mem_iff

theorem length_sortBy (le : α → α → Bool) (l : List α) : (sortBy le l).length = l.length :=
  (sortBy_perm le l).length_eq

theorem insertBy_pairwise {le : α → α → Bool} (h : TotalPreorder le) (x : α) {l : List α}
    (hl : l.Pairwise (fun a b => le a b = true)) :
    (insertBy le x l).Pairwise (fun a b => le a b = true) := by
  induction l with
  | nil => simp [insertBy]
  | cons y ys ih =>
    rw [List.pairwise_cons] at hl
    unfold insertBy
    split
    · rename_i hxy
      refine List.pairwise_cons.2 ⟨?_, List.pairwise_cons.2 hl⟩
      intro z hz
      rcases List.mem_cons.1 hz with rfl | hz
      · exact hxy
      · exact h.trans _ _ _ hxy (hl.1 z hz)
    · rename_i hxy
      refine List.pairwise_cons.2 ⟨?_, ih hl.2⟩
      intro z hz
      rcases List.mem_cons.1 ((insertBy_perm le x ys).mem_iff.1 hz) with rfl | hz
      · rcases h.total z y with h1 | h1
        · exact absurd h1 hxy
        · exact h1
      · exact hl.1 z hz

theorem sortBy_pairwise {le : α → α → Bool} (h : TotalPreorder le) (l : List α) :
    (sortBy le l).Pairwise (fun a b => le a b = true) := by
  induction l with
  | nil => exact List.Pairwise.nil
  | cons x xs ih => exact insertBy_pairwise h x ih

theorem insertBy_map (f : α → β) {le' : β → β → Bool} {le : α → α → Bool}
    (h : ∀ a b, le' (f a) (f b) = le a b) (x : α) (l : List α) :
    insertBy le' (f x) (l.map f) = (insertBy le x l).map f := by
  induction l with
  | nil => rfl
  | cons y ys ih =>
    simp only [List.map_cons, insertBy, h]
    split
    · rfl
    · rw [List.map_cons, ih]

/-- Sorting commutes with a map that preserves the comparison. -/
theorem sortBy_map (f : α → β) {le' : β → β → Bool} {le : α → α → Bool}
    (h : ∀ a b, le' (f a) (f b) = le a b) (l : List α) :
    sortBy le' (l.map f) = (sortBy le l).map f := by
  induction l with
  | nil => rfl
  | cons x xs ih => simp only [List.map_cons, sortBy, ih, insertBy_map f h]

theorem insertBy_of_le_head {le : α → α → Bool} (_h : TotalPreorder le) (x : α) {l : List α}
    (hx : ∀ z ∈ l, le x z = true) : insertBy le x l = x :: l := by
  cases l with
  | nil => rfl
  | cons y ys => simp [insertBy, hx y (List.mem_cons_self)]

theorem filter_insertBy {le : α → α → Bool} (h : TotalPreorder le) (p : α → Bool) (x : α)
    {l : List α} (hl : l.Pairwise (fun a b => le a b = true)) :
    (insertBy le x l).filter p =
      if p x then insertBy le x (l.filter p) else l.filter p := by
  induction l with
  | nil => simp only [insertBy, List.filter_cons, List.filter_nil]
  | cons y ys ih =>
    rw [List.pairwise_cons] at hl
    rw [insertBy_cons]
    by_cases hxy : le x y = true
    · rw [if_pos hxy]
      by_cases hpx : p x = true
      · rw [if_pos hpx, List.filter_cons, if_pos hpx]
        by_cases hpy : p y = true
        · rw [List.filter_cons, if_pos hpy, insertBy_cons, if_pos hxy]
        · rw [List.filter_cons, if_neg hpy]
          rw [insertBy_of_le_head h]
          intro z hz
          exact h.trans _ _ _ hxy (hl.1 z (List.mem_filter.1 hz).1)
      · rw [if_neg hpx, List.filter_cons, if_neg hpx]
    · rw [if_neg hxy]
      by_cases hpy : p y = true
      · rw [List.filter_cons, if_pos hpy, ih hl.2, List.filter_cons (x := y) (xs := ys), if_pos hpy]
        split
        · rw [insertBy_cons, if_neg hxy]
        · rfl
      · rw [List.filter_cons, if_neg hpy, ih hl.2, List.filter_cons (x := y) (xs := ys), if_neg hpy]

/-- Sorting commutes with filtering (the sort is stable and the order a total preorder). -/
theorem filter_sortBy {le : α → α → Bool} (h : TotalPreorder le) (p : α → Bool) (l : List α) :
    (sortBy le l).filter p = sortBy le (l.filter p) := by
  induction l with
  | nil => rfl
  | cons x xs ih =>
    simp only [sortBy]
    rw [filter_insertBy h p x (sortBy_pairwise h xs), ih, List.filter_cons]
    split <;> rfl

/-- Any two sorts of permuted lists agree when `le` is antisymmetric on the elements
(e.g. the keys are pairwise distinct): the result does not depend on the input order, nor
on the sorting algorithm (`sort_unstable`). -/
theorem sortBy_eq_of_perm {le : α → α → Bool} (h : TotalPreorder le) {l₁ l₂ : List α}
    (hp : l₁.Perm l₂)
    (anti : ∀ a b, a ∈ l₁ → b ∈ l₁ → le a b = true → le b a = true → a = b) :
    sortBy le l₁ = sortBy le l₂ := by
  apply List.Perm.eq_of_pairwise (le := fun a b => le a b = true)
  · intro a b ha hb
    exact anti a b (mem_sortBy.1 ha) (hp.mem_iff.2 (mem_sortBy.1 hb))
  · exact sortBy_pairwise h l₁
  · exact sortBy_pairwise h l₂
  · exact (sortBy_perm le l₁).trans (hp.trans (sortBy_perm le l₂).symm)

/-- A sorted list is left alone. -/
theorem sortBy_of_pairwise {le : α → α → Bool} (h : TotalPreorder le) {l : List α}
    (hl : l.Pairwise (fun a b => le a b = true)) : sortBy le l = l := by
  induction l with
  | nil => rfl
  | cons x xs ih =>
    rw [List.pairwise_cons] at hl
    simp only [sortBy, ih hl.2]
    exact insertBy_of_le_head h x hl.1

/-! The two orders used by the walk are total preorders on their keys. -/

theorem compareLe_totalPreorder {κ : Type} [Ord κ] [Std.TransOrd κ] (key : α → κ) :
    TotalPreorder (fun a b : α => compare (key a) (key b) != .gt) := by
  constructor
  · intro a b
    have := Std.OrientedCmp.eq_swap (cmp := (compare : κ → κ → Ordering)) (a := key a) (b := key b)
    cases h : compare (key b) (key a) <;> simp_all
  · intro a b c h1 h2
    have h1' : (compare (key a) (key b)).isLE = true := by
      cases h : compare (key a) (key b) <;> simp_all [Ordering.isLE]
    have h2' : (compare (key b) (key c)).isLE = true := by
      cases h : compare (key b) (key c) <;> simp_all [Ordering.isLE]
    have := Std.TransCmp.isLE_trans h1' h2'
    cases h : compare (key a) (key c) <;> simp_all [Ordering.isLE]

theorem strLe_totalPreorder (key : α → Str) :
    TotalPreorder (fun a b : α => strLe (key a) (key b)) :=
  compareLe_totalPreorder key

theorem apathLe_totalPreorder (key : α → Str) :
    TotalPreorder (fun a b : α => apathLe (key a) (key b)) := by
  have : (fun a b : α => apathLe (key a) (key b)) =
      (fun a b : α => compare (keys (key a)) (keys (key b)) != .gt) := by
    funext a b; unfold apathLe; rw [apathCmp_eq_keys]
  rw [this]
  exact compareLe_totalPreorder (fun a => keys (key a))

end Conserve
