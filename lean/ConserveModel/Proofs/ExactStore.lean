import ConserveModel.Proofs.CleanWorldDel
import ConserveModel.Proofs.CleanWorld
import ConserveModel.Proofs.BackupPrelude
import ConserveModel.StitchSpec
/-
Store-level facts for the end-to-end theorem C01 (a): the well-formedness a fault-free backup keeps
(`StoreOK`), what one `put` of a fresh key does to it, the frame of a backup (`newKey`), and
congruence of the listing specification (`hunkNumsOf`, `ownEntries`) along stores that agree on a
version's keys.  No property statements here.
-/
set_option linter.unusedSimpArgs false
namespace Conserve.Exact
open Conserve Prog

/-! ### Worlds -/

/-- `w` is a fault-free, crash-free, alive world that honours `CreateNew` and holds store `s`. -/
structure At (w : World) (s : Store) : Prop where
  quiet : w.Quiet
  ecn : w.enforceCreateNew = true
  store : w.store = s

theorem At.clean (s : Store) : At (World.clean s) s := ⟨World.clean_quiet s, rfl, rfl⟩

theorem At.next {w w1 : World} {s s1 : Store} {ev : List Event} (h : At w s) (hn : w.Next s1 ev w1) :
    At w1 s1 := ⟨hn.quiet, hn.ecn.trans h.ecn, hn.store⟩

theorem At.toClean {w : World} {s : Store} (h : At w s) : w.Clean :=
  ⟨h.ecn, h.quiet.noFaults, h.quiet.noCrash, h.quiet.alive⟩

theorem At.ret {α : Type} {w : World} {s : Store} (h : At w s) (a : α) : Runs (.ret a) w (.ok a) s [] := by
  have := Runs.ret h.quiet a
  rwa [h.store] at this

theorem At.fail {α : Type} {w : World} {s : Store} (h : At w s) (e : Err) :
    Runs (.fail e : Prog α) w (.err e) s [] := by
  have := Runs.fail (α := α) h.quiet e
  rwa [h.store] at this

/-- Sequencing with `At`. -/
theorem At.bind {α β : Type} {p : Prog α} {f : α → Prog β} {w : World} {s : Store} {a : α} {s1 s2 : Store}
    {e1 e2 : List Event} {out : Outcome β} (h : At w s)
    (hp : Runs p w (.ok a) s1 e1)
    (hf : ∀ w1, At w1 s1 → Runs (f a) w1 out s2 e2) : Runs (p.bind f) w out s2 (e2 ++ e1) :=
  Runs.bind_ok hp fun w1 hn => hf w1 (h.next hn)

theorem At.bind0 {α β : Type} {p : Prog α} {f : α → Prog β} {w : World} {s : Store} {a : α} {s1 s2 : Store}
    {e2 : List Event} {out : Outcome β} (h : At w s)
    (hp : Runs p w (.ok a) s1 [])
    (hf : ∀ w1, At w1 s1 → Runs (f a) w1 out s2 e2) : Runs (p.bind f) w out s2 e2 := by
  simpa using h.bind hp hf

/-- A read-only operation. -/
theorem At.op_ro {α : Type} {w : World} {s : Store} {o : Op} {k : Resp → Prog α} {out : Outcome α} {s' : Store}
    {ev : List Event} (h : At w s) (ho : o.isMutating = false)
    (hk : ∀ w1, At w1 s → Runs (k (roResp s o)) w1 out s' ev) : Runs (.op o k) w out s' ev := by
  refine Runs.op_ro h.quiet ho fun w1 hn => ?_
  rw [h.store] at hn ⊢
  exact hk w1 (h.next hn)

/-- An emitted event. -/
theorem At.emit {α : Type} {w : World} {s : Store} {ev : Event} {k : Prog α} {out : Outcome α} {s' : Store}
    {evs : List Event} (h : At w s)
    (hk : ∀ w1, At w1 s → Runs k w1 out s' evs) : Runs (.emit ev k) w out s' (evs ++ [ev]) := by
  refine Runs.emit h.quiet fun w1 hn => ?_
  rw [h.store] at hn
  exact hk w1 (h.next hn)

/-- `createDir` of an absent key whose parent is a directory. -/
theorem At.op_createDir {α : Type} {w : World} {s : Store} {k : Key} {kont : Resp → Prog α}
    {out : Outcome α} {s' : Store} {ev : List Event} (h : At w s)
    (habs : s.get? k = none) (hp : s.parentOk k = true)
    (hk : ∀ w1, At w1 (s.put k .dir) → Runs (kont .unit) w1 out s' ev) :
    Runs (.op (.createDir k) kont) w out s' ev := by
  refine Runs.op_mut h.quiet rfl (fun _ _ _ hh => by cases hh) fun w1 hn => ?_
  have hhas : s.has k = false := by simp [Store.has, habs]
  have happ : applyOp w.enforceCreateNew w.store (.createDir k) = (s.put k .dir, .unit) := by
    rw [h.store]
    simp [applyOp, hhas, hp]
  rw [happ] at hn ⊢
  exact hk w1 (h.next hn)

/-- `createDir` of a key that is already there. -/
theorem At.op_createDir_exists {α : Type} {w : World} {s : Store} {k : Key} {kont : Resp → Prog α}
    {out : Outcome α} {s' : Store} {ev : List Event} (h : At w s) {v : FileVal}
    (hex : s.get? k = some v)
    (hk : ∀ w1, At w1 s → Runs (kont .unit) w1 out s' ev) :
    Runs (.op (.createDir k) kont) w out s' ev := by
  refine Runs.op_mut h.quiet rfl (fun _ _ _ hh => by cases hh) fun w1 hn => ?_
  have hhas : s.has k = true := by simp [Store.has, hex]
  have happ : applyOp w.enforceCreateNew w.store (.createDir k) = (s, .unit) := by
    rw [h.store]
    simp [applyOp, hhas]
  rw [happ] at hn ⊢
  exact hk w1 (h.next hn)

/-- A `CreateNew` write onto nothing or onto a zero-length file, parent directory in place. -/
theorem At.op_write {α : Type} {w : World} {s : Store} {k : Key} {v : FileVal} {kont : Resp → Prog α}
    {out : Outcome α} {s' : Store} {ev : List Event} (h : At w s)
    (hp : s.parentOk k = true) (habs : s.get? k = none ∨ s.get? k = some .empty)
    (hk : ∀ w1, At w1 (s.put k v) → Runs (kont .unit) w1 out s' ev) :
    Runs (.op (.write k v .createNew) kont) w out s' ev := by
  rcases habs with habs | habs
  · refine Runs.op_write_ok h.quiet (by rw [h.store]; exact hp) (by rw [h.store]; exact habs) fun w1 hn => ?_
    rw [h.store] at hn
    exact hk w1 (h.next hn)
  · have hex : (w.exec (.write k v .createNew)).2 = .unit ∧
        w.Next (s.put k v) [] (w.exec (.write k v .createNew)).1 := by
      have hq := h.quiet
      unfold World.exec
      simp only [hq.alive, Bool.false_eq_true, if_false, World.faultFor, hq.noFaults, List.find?_nil,
        Option.map_none, Op.isMutating, Bool.not_true, World.crashesAt, hq.noCrash, applyOp, h.store, hp, habs,
        h.ecn, FileVal.isEmptyFile]
      refine ⟨?_, ?_, ?_, ⟨?_, ?_, ?_⟩, ?_⟩ <;> simp [hq.noFaults, hq.noCrash, hq.alive, Store.put_put', h.ecn]
    obtain ⟨hr, hn⟩ := hex
    have h1 := hk _ (h.next hn)
    unfold Runs
    rw [Prog.run_op, hr]
    refine ⟨h1.1, ?_⟩
    have := hn.trans h1.2
    simpa using this

/-! ### `RunsAt`: the run of a program from any fault-free world holding a given store -/

/-- From every fault-free world holding `s`, program `p` has outcome `out`, ends with store `s'` and
emits `ev` (newest first). -/
def RunsAt {α : Type} (p : Prog α) (s : Store) (out : Outcome α) (s' : Store) (ev : List Event) : Prop :=
  ∀ w, At w s → Runs p w out s' ev

theorem RunsAt.ret {α : Type} (a : α) (s : Store) : RunsAt (.ret a) s (.ok a) s [] := fun _ hw => hw.ret a

theorem RunsAt.pure {α : Type} (a : α) (s : Store) : RunsAt (Pure.pure a : Prog α) s (.ok a) s [] :=
  fun _ hw => hw.ret a

theorem RunsAt.fail {α : Type} (e : Err) (s : Store) : RunsAt (.fail e : Prog α) s (.err e) s [] :=
  fun _ hw => hw.fail e

theorem RunsAt.bind {α β : Type} {p : Prog α} {f : α → Prog β} {s s1 s2 : Store} {a : α}
    {e1 e2 : List Event} {out : Outcome β} (hp : RunsAt p s (.ok a) s1 e1) (hf : RunsAt (f a) s1 out s2 e2) :
    RunsAt (p.bind f) s out s2 (e2 ++ e1) := fun w hw => hw.bind (hp w hw) hf

theorem RunsAt.bind0 {α β : Type} {p : Prog α} {f : α → Prog β} {s s1 s2 : Store} {a : α}
    {e2 : List Event} {out : Outcome β} (hp : RunsAt p s (.ok a) s1 []) (hf : RunsAt (f a) s1 out s2 e2) :
    RunsAt (p.bind f) s out s2 e2 := fun w hw => hw.bind0 (hp w hw) hf

theorem RunsAt.bind_r0 {α β : Type} {p : Prog α} {f : α → Prog β} {s s1 s2 : Store} {a : α}
    {e1 : List Event} {out : Outcome β} (hp : RunsAt p s (.ok a) s1 e1) (hf : RunsAt (f a) s1 out s2 []) :
    RunsAt (p.bind f) s out s2 e1 := by
  simpa using RunsAt.bind hp hf

theorem RunsAt.bind_err {α β : Type} {p : Prog α} {f : α → Prog β} {s s1 : Store} {e : Err}
    {e1 : List Event} (hp : RunsAt p s (.err e) s1 e1) : RunsAt (p.bind f) s (.err e) s1 e1 :=
  fun w hw => Runs.bind_err (hp w hw)

theorem RunsAt.op_ro {α : Type} {s : Store} {o : Op} {k : Resp → Prog α} {out : Outcome α} {s' : Store}
    {ev : List Event} (ho : o.isMutating = false) (hk : RunsAt (k (roResp s o)) s out s' ev) :
    RunsAt (.op o k) s out s' ev := fun _ hw => hw.op_ro ho hk

theorem RunsAt.emit {α : Type} {s : Store} {ev : Event} {k : Prog α} {out : Outcome α} {s' : Store}
    {evs : List Event} (hk : RunsAt k s out s' evs) : RunsAt (.emit ev k) s out s' (evs ++ [ev]) :=
  fun _ hw => hw.emit hk

theorem RunsAt.op_createDir {α : Type} {s : Store} {k : Key} {kont : Resp → Prog α} {out : Outcome α}
    {s' : Store} {ev : List Event} (habs : s.get? k = none) (hp : s.parentOk k = true)
    (hk : RunsAt (kont .unit) (s.put k .dir) out s' ev) : RunsAt (.op (.createDir k) kont) s out s' ev :=
  fun _ hw => hw.op_createDir habs hp hk

theorem RunsAt.op_createDir_exists {α : Type} {s : Store} {k : Key} {kont : Resp → Prog α} {out : Outcome α}
    {s' : Store} {ev : List Event} {v : FileVal} (hex : s.get? k = some v)
    (hk : RunsAt (kont .unit) s out s' ev) : RunsAt (.op (.createDir k) kont) s out s' ev :=
  fun _ hw => hw.op_createDir_exists hex hk

theorem RunsAt.op_write {α : Type} {s : Store} {k : Key} {v : FileVal} {kont : Resp → Prog α}
    {out : Outcome α} {s' : Store} {ev : List Event} (hp : s.parentOk k = true)
    (habs : s.get? k = none ∨ s.get? k = some .empty)
    (hk : RunsAt (kont .unit) (s.put k v) out s' ev) : RunsAt (.op (.write k v .createNew) kont) s out s' ev :=
  fun _ hw => hw.op_write hp habs hk

theorem RunsAt.congr {α : Type} {p : Prog α} {s : Store} {out out' : Outcome α} {s1 s2 : Store}
    {e1 e2 : List Event} (h : RunsAt p s out s1 e1) (ho : out = out') (hs : s1 = s2) (he : e1 = e2) :
    RunsAt p s out' s2 e2 := by subst ho hs he; exact h

/-- What `RunsAt` says on `World.clean s`. -/
theorem RunsAt.clean {α : Type} {p : Prog α} {s s' : Store} {out : Outcome α} {ev : List Event}
    (h : RunsAt p s out s' ev) :
    (p.run (World.clean s)).1 = out ∧ (p.run (World.clean s)).2.store = s' ∧
      (p.run (World.clean s)).2.events = ev := (h _ (At.clean s)).clean

/-! ### Kinds of keys -/

/-- Keys that are directories in the archive layout. -/
def isDirKey : Key → Bool
  | .root | .bandDir _ | .indexDir _ | .hunkDir _ _ | .blockRoot | .blockDir _ => true
  | _ => false

/-- Is the value of the right kind (directory / file) for its key?  Foreign entries of the archive
directory (`other`) are not constrained. -/
def kindOk (k : Key) (v : FileVal) : Bool :=
  match k with
  | .other _ => true
  | _ => v.isDir == isDirKey k

/-- Block files and block sub-directories: the keys under `d/`. -/
def isBlockish : Key → Bool
  | .block _ | .blockDir _ => true
  | _ => false

/-- The keys a backup that creates version `nb` may create or complete: everything at or below the
new version's directory, block sub-directories and block files. -/
def newKey (nb : Nat) (k : Key) : Bool := Key.isUnder (.bandDir nb) k || isBlockish k

theorem parent_ne_self (k : Key) : k.parent ≠ some k := by
  cases k <;> simp [Key.parent]

theorem parent_not_block (k : Key) (h : Str) : k.parent ≠ some (.block h) := by
  cases k <;> simp [Key.parent]

/-! ### The store well-formedness a clean backup maintains -/

/-- Every block that decodes is shorter than 2^64 bytes. -/
def BlocksSmall (s : Store) : Prop :=
  ∀ h c, s.get? (.block h) = some (.blockData c) → c.length < 18446744073709551616

structure StoreOK (H : Str → Str) (s : Store) : Prop where
  noDup : Inv.NoDupKeys s
  dirs : ∀ k v, s.get? k = some v → s.parentOk k = true
  kinds : ∀ k v, s.get? k = some v → kindOk k v = true
  root : s.get? .root = some .dir
  blockRoot : s.get? .blockRoot = some .dir
  blocks : Inv.BlocksGood H s
  small : BlocksSmall s

theorem get?_put (s : Store) (k k' : Key) (v : FileVal) :
    (s.put k v).get? k' = if k' = k then some v else s.get? k' := Store.inv_get?_put s k k' v

theorem parentOk_put {s : Store} {k k' : Key} {v : FileVal} (h : s.parentOk k' = true)
    (hk : s.get? k ≠ some .dir ∨ v = .dir) : (s.put k v).parentOk k' = true := by
  unfold Store.parentOk at h ⊢
  cases hp : k'.parent with
  | none => rfl
  | some p =>
    simp only [hp, beq_iff_eq] at h ⊢
    rw [get?_put]
    by_cases hpk : p = k
    · subst hpk
      rcases hk with hk | hk
      · exact absurd h hk
      · simp [hk]
    · simp [hpk, h]

variable {H : Str → Str}

/-- One `put` of a fresh key (or the completion of a zero-length block file) under an existing
directory keeps the store well-formed. -/
theorem StoreOK.put {s : Store} (h : StoreOK H s) {k : Key} {v : FileVal} (hp : s.parentOk k = true)
    (habs : s.get? k = none ∨ (∃ hh, k = .block hh ∧ s.get? k = some .empty))
    (hk : kindOk k v = true)
    (hb : ∀ hh, k = .block hh → ∃ c, v = .blockData c ∧ H c = hh ∧ c.length < 18446744073709551616) :
    StoreOK H (s.put k v) := by
  have hnd : s.get? k ≠ some .dir := by
    rcases habs with h0 | ⟨_, _, h0⟩ <;> simp [h0]
  have hne : ∀ k', k' ≠ k → (s.put k v).get? k' = s.get? k' := fun k' hk' => by simp [get?_put, hk']
  refine ⟨h.noDup.put k v, ?_, ?_, ?_, ?_, ?_, ?_⟩
  · intro k' v' hg
    rw [get?_put] at hg
    by_cases hkk : k' = k
    · subst hkk
      exact parentOk_put hp (Or.inl hnd)
    · simp only [hkk, if_false] at hg
      exact parentOk_put (h.dirs k' v' hg) (Or.inl hnd)
  · intro k' v' hg
    rw [get?_put] at hg
    by_cases hkk : k' = k
    · subst hkk; simp only [if_true, Option.some.injEq] at hg; subst hg; exact hk
    · simp only [hkk, if_false] at hg; exact h.kinds k' v' hg
  · have : Key.root ≠ k := by
      intro e; subst e
      rcases habs with h0 | ⟨_, h1, _⟩
      · rw [h.root] at h0; cases h0
      · cases h1
    rw [hne _ this]; exact h.root
  · have : Key.blockRoot ≠ k := by
      intro e; subst e
      rcases habs with h0 | ⟨_, h1, _⟩
      · rw [h.blockRoot] at h0; cases h0
      · cases h1
    rw [hne _ this]; exact h.blockRoot
  · intro hh v' hg
    rw [get?_put] at hg
    by_cases hkk : Key.block hh = k
    · simp only [hkk, if_true, Option.some.injEq] at hg
      subst hg
      obtain ⟨c, hv, hc, _⟩ := hb hh hkk.symm
      exact Or.inr ⟨c, hv, hc⟩
    · simp only [hkk, if_false] at hg
      exact h.blocks hh v' hg
  · intro hh c hg
    rw [get?_put] at hg
    by_cases hkk : Key.block hh = k
    · simp only [hkk, if_true, Option.some.injEq] at hg
      obtain ⟨c', hv, _, hlen⟩ := hb hh hkk.symm
      rw [hv] at hg
      cases hg
      exact hlen
    · simp only [hkk, if_false] at hg
      exact h.small hh c hg

theorem StoreOK.uniqueKeys {s : Store} (h : StoreOK H s) : UniqueKeys s :=
  (uniqueKeys_iff_nodup s).2 h.noDup

theorem StoreOK.dirsOk {s : Store} (h : StoreOK H s) : DirsOk s := by
  intro kv hkv
  obtain ⟨k, v⟩ := kv
  exact h.dirs k v (h.noDup.get?_of_mem hkv)

/-- A block sub-directory that exists is a directory. -/
theorem StoreOK.blockDir_dir {s : Store} (h : StoreOK H s) {p : Str} {v : FileVal}
    (hg : s.get? (.blockDir p) = some v) : v = .dir := by
  have := h.kinds _ _ hg
  simp only [kindOk, isDirKey, beq_iff_eq] at this
  cases v <;> simp_all [FileVal.isDir]

theorem StoreOK.bandDir_dir {s : Store} (h : StoreOK H s) {b : Nat} {v : FileVal}
    (hg : s.get? (.bandDir b) = some v) : v = .dir := by
  have := h.kinds _ _ hg
  simp only [kindOk, isDirKey, beq_iff_eq] at this
  cases v <;> simp_all [FileVal.isDir]

/-! ### Band ids -/

/-- The id the next version gets. -/
def newBandOf (s : Store) : Nat := nextBandId (bandIdsOf s)

theorem mem_bandIdsOf {s : Store} (h : StoreOK H s) {b : Nat} :
    b ∈ bandIdsOf s ↔ s.get? (.bandDir b) = some .dir := by
  rw [mem_bandIdsOf']
  exact Store.mem_iff_get? h.uniqueKeys

/-- Nothing at or below the directory the next version will get. -/
theorem fresh_under_new {s : Store} (h : StoreOK H s) {k : Key}
    (hu : Key.isUnder (.bandDir (newBandOf s)) k = true) : s.get? k = none := by
  have hband : s.get? (.bandDir (newBandOf s)) = none := by
    cases hg : s.get? (.bandDir (newBandOf s)) with
    | none => rfl
    | some v =>
      have hv := h.bandDir_dir hg
      subst hv
      have := nextBandId_gt (bandIdsOf s) _ ((mem_bandIdsOf h).2 hg)
      exact absurd this (Nat.lt_irrefl _)
  -- the parent of an existing key is an existing directory
  have up : ∀ k p, k.parent = some p → s.get? p = none → s.get? k = none := by
    intro k p hp hn
    cases hg : s.get? k with
    | none => rfl
    | some v =>
      have := h.dirs k v hg
      simp only [Store.parentOk, hp, beq_iff_eq] at this
      rw [hn] at this; cases this
  cases k with
  | bandDir b =>
    simp only [Key.isUnder, Key.parent, beq_iff_eq, Key.bandDir.injEq, Bool.or_eq_true] at hu
    rcases hu with hu | hu
    · rw [hu]; exact hband
    · simp at hu
  | bandHead b =>
    have hb : b = newBandOf s := by simpa [Key.isUnder, Key.parent] using hu
    subst hb
    exact up _ _ rfl hband
  | bandTail b =>
    have hb : b = newBandOf s := by simpa [Key.isUnder, Key.parent] using hu
    subst hb
    exact up _ _ rfl hband
  | indexDir b =>
    have hb : b = newBandOf s := by simpa [Key.isUnder, Key.parent] using hu
    subst hb
    exact up _ _ rfl hband
  | hunkDir b d =>
    have hb : b = newBandOf s := by simpa [Key.isUnder, Key.parent] using hu
    subst hb
    exact up _ _ rfl (up (.indexDir _) _ rfl hband)
  | hunk b n =>
    have hb : b = newBandOf s := by simpa [Key.isUnder, Key.parent] using hu
    subst hb
    exact up _ _ rfl (up (.hunkDir _ _) _ rfl (up (.indexDir _) _ rfl hband))
  | root => simp [Key.isUnder, Key.parent] at hu
  | header => simp [Key.isUnder, Key.parent] at hu
  | gcLock => simp [Key.isUnder, Key.parent] at hu
  | blockRoot => simp [Key.isUnder, Key.parent] at hu
  | blockDir p => simp [Key.isUnder, Key.parent] at hu
  | block hh => simp [Key.isUnder, Key.parent] at hu
  | other p => simp [Key.isUnder, Key.parent] at hu

end Conserve.Exact
