import ConserveModel.Validate
import ConserveModel.Proofs.PermProg
import ConserveModel.Proofs.WalkSort
import ConserveModel.Proofs.WalkPerm
/-
Helper lemmas for C17: the pure functions the model applies to a directory listing (or to a set
obtained from listings) do not depend on its order.
-/
namespace Conserve
open Std

/-- Sorting with a total, transitive, antisymmetric `≤` is a function of the multiset. -/
theorem mergeSort_eq_of_perm {α : Type} {le : α → α → Bool}
    (trans : ∀ a b c : α, le a b = true → le b c = true → le a c = true)
    (total : ∀ a b : α, (le a b || le b a) = true)
    (antisymm : ∀ a b : α, le a b = true → le b a = true → a = b)
    {xs ys : List α} (h : xs.Perm ys) : xs.mergeSort le = ys.mergeSort le := by
  apply List.Perm.eq_of_pairwise (le := fun a b => le a b = true)
  · intro a b _ _ h1 h2; exact antisymm a b h1 h2
  · exact List.pairwise_mergeSort trans total xs
  · exact List.pairwise_mergeSort trans total ys
  · exact (List.mergeSort_perm xs le).trans (h.trans (List.mergeSort_perm ys le).symm)

/-- The same when the order is antisymmetric only on the elements that occur. -/
theorem mergeSort_eq_of_perm_on {α : Type} {le : α → α → Bool}
    (trans : ∀ a b c : α, le a b = true → le b c = true → le a c = true)
    (total : ∀ a b : α, (le a b || le b a) = true)
    {xs ys : List α} (h : xs.Perm ys)
    (antisymm : ∀ a b : α, a ∈ xs → b ∈ xs → le a b = true → le b a = true → a = b) :
    xs.mergeSort le = ys.mergeSort le := by
  apply List.Perm.eq_of_pairwise (le := fun a b => le a b = true)
  · intro a b ha hb h1 h2
    rw [List.mem_mergeSort] at ha hb
    exact antisymm a b ha (h.mem_iff.2 hb) h1 h2
  · exact List.pairwise_mergeSort trans total xs
  · exact List.pairwise_mergeSort trans total ys
  · exact (List.mergeSort_perm xs le).trans (h.trans (List.mergeSort_perm ys le).symm)

/-- `IndexRead::hunk_lengths`, one subdirectory: (hunk number, non-empty) pairs sorted by number.
The order is not antisymmetric on pairs, but in a real listing of `bNNNN/i/DDDDD` every hunk
number occurs once, so the result still ignores the order of the listing. -/
theorem hunkPairs_eq_of_perm {b d : Nat} {xs ys : List DirEnt} (hp : xs.Perm ys)
    (hg : GoodListing (.hunkDir b d) xs) (f : DirEnt → Option (Nat × Bool))
    (hf : ∀ e p, f e = some p → ∃ b', e.key = .hunk b' p.1 ∧ p.2 = e.nonEmpty) :
    (xs.filterMap f).mergeSort (fun x y => decide (x.1 ≤ y.1)) =
    (ys.filterMap f).mergeSort (fun x y => decide (x.1 ≤ y.1)) := by
  apply mergeSort_eq_of_perm_on _ _ (hp.filterMap _)
  · intro p q hpm hqm h1 h2
    simp only [decide_eq_true_eq] at h1 h2
    have hn : p.1 = q.1 := by omega
    simp only [List.mem_filterMap] at hpm hqm
    obtain ⟨e, he, hfe⟩ := hpm
    obtain ⟨e', he', hfe'⟩ := hqm
    have key : ∀ (e : DirEnt) (p : Nat × Bool), e ∈ xs → f e = some p →
        e.key = .hunk b p.1 ∧ p.2 = e.nonEmpty := by
      intro e p he hfe
      have hpar := hg.2 e he
      obtain ⟨b', hk, hne⟩ := hf e p hfe
      rw [hk] at hpar ⊢
      simp only [Key.parent, Option.some.injEq, Key.hunkDir.injEq] at hpar
      exact ⟨by rw [hpar.1], hne⟩
    have k1 := key e p he hfe
    have k2 := key e' q he' hfe'
    have : e = e' := hg.eq_of_key he he' (by rw [k1.1, k2.1, hn])
    subst this
    exact Prod.ext hn (by rw [k1.2, k2.2])
  · intro a b c h1 h2; simp only [decide_eq_true_eq] at *; omega
  · intro a b; simp only [Bool.or_eq_true, decide_eq_true_eq]; omega

/-- `sortNat` (band ids, hunk directory numbers, hunk numbers) ignores the input order. -/
theorem sortNat_eq_of_perm {xs ys : List Nat} (h : xs.Perm ys) : sortNat xs = sortNat ys := by
  unfold sortNat
  apply mergeSort_eq_of_perm (le := fun a b => decide (a ≤ b)) _ _ _ h
  · intro a b c h1 h2; simp only [decide_eq_true_eq] at *; omega
  · intro a b; simp only [Bool.or_eq_true, decide_eq_true_eq]; omega
  · intro a b h1 h2; simp only [decide_eq_true_eq] at *; omega

/-- Filtering/parsing a listing and sorting: `list_band_ids`, both levels of `hunks_available`. -/
theorem sortNat_filterMap_eq_of_perm {α : Type} (f : α → Option Nat) {xs ys : List α} (h : xs.Perm ys) :
    sortNat (xs.filterMap f) = sortNat (ys.filterMap f) :=
  sortNat_eq_of_perm (h.filterMap f)

theorem strLe_trans (a b c : Str) (h1 : strLe a b = true) (h2 : strLe b c = true) : strLe a c = true :=
  (strLe_totalPreorder (fun x : Str => x)).trans a b c h1 h2

theorem strLe_total (a b : Str) : (strLe a b || strLe b a) = true := by
  rw [Bool.or_eq_true]; exact (strLe_totalPreorder (fun x : Str => x)).total a b

theorem strLe_antisymm (a b : Str) (h1 : strLe a b = true) (h2 : strLe b a = true) : a = b :=
  LawfulEqCmp.eq_of_compare (cmp := (compare : Str → Str → Ordering)) (compare_eq_of_le_le h1 h2)

/-- Sorting names byte-wise (`unref` in `delete_bands`, block names in `validate`) ignores the
input order. -/
theorem mergeSort_strLe_eq_of_perm {xs ys : List Str} (h : xs.Perm ys) :
    xs.mergeSort strLe = ys.mergeSort strLe :=
  mergeSort_eq_of_perm strLe_trans strLe_total strLe_antisymm h

/-- The same with the comparison written out, as in `list_blocks`' subdirectory order. -/
theorem mergeSort_compare_eq_of_perm {xs ys : List Str} (h : xs.Perm ys) :
    xs.mergeSort (fun a b => compare a b != .gt) = ys.mergeSort (fun a b => compare a b != .gt) :=
  mergeSort_strLe_eq_of_perm h

/-! ### `maxNat?` -/

theorem perm_foldl_max_ge (xs : List Nat) (a : Nat) : a ≤ xs.foldl max a ∧ ∀ x ∈ xs, x ≤ xs.foldl max a := by
  induction xs generalizing a with
  | nil => simp
  | cons y ys ih =>
    rw [List.foldl_cons]
    have := ih (max a y)
    refine ⟨by omega, fun x hx => ?_⟩
    rcases List.mem_cons.1 hx with rfl | hx
    · omega
    · exact this.2 x hx

theorem perm_foldl_max_mem (xs : List Nat) (a : Nat) : xs.foldl max a = a ∨ xs.foldl max a ∈ xs := by
  induction xs generalizing a with
  | nil => simp
  | cons y ys ih =>
    rw [List.foldl_cons]
    rcases ih (max a y) with h | h
    · rw [h]
      rcases Nat.le_total a y with hle | hle
      · right; simp [Nat.max_eq_right hle]
      · left; exact Nat.max_eq_left hle
    · right; exact List.mem_cons_of_mem _ h

/-- `maxNat?` returns the greatest element. -/
theorem maxNat?_eq_some {xs : List Nat} {m : Nat} :
    maxNat? xs = some m ↔ m ∈ xs ∧ ∀ x ∈ xs, x ≤ m := by
  cases xs with
  | nil => simp [maxNat?]
  | cons y ys =>
    simp only [maxNat?, Option.some.injEq]
    have hge := perm_foldl_max_ge ys y
    have hmem := perm_foldl_max_mem ys y
    constructor
    · rintro rfl
      refine ⟨?_, fun x hx => ?_⟩
      · rcases hmem with h | h
        · rw [h]; exact List.mem_cons_self
        · exact List.mem_cons_of_mem _ h
      · rcases List.mem_cons.1 hx with rfl | hx
        · exact hge.1
        · exact hge.2 x hx
    · rintro ⟨hm, hle⟩
      have h1 : List.foldl max y ys ≤ m := by
        rcases hmem with h | h
        · rw [h]; exact hle y List.mem_cons_self
        · exact hle _ (List.mem_cons_of_mem _ h)
      have h2 : m ≤ List.foldl max y ys := by
        rcases List.mem_cons.1 hm with rfl | hm
        · exact hge.1
        · exact hge.2 m hm
      omega

/-- `Archive::last_band_id` ignores the order of the ids. -/
theorem maxNat?_eq_of_perm {xs ys : List Nat} (h : xs.Perm ys) : maxNat? xs = maxNat? ys := by
  apply Option.ext
  intro m
  rw [maxNat?_eq_some, maxNat?_eq_some]
  constructor
  · rintro ⟨h1, h2⟩; exact ⟨h.mem_iff.1 h1, fun x hx => h2 x (h.mem_iff.2 hx)⟩
  · rintro ⟨h1, h2⟩; exact ⟨h.mem_iff.2 h1, fun x hx => h2 x (h.mem_iff.1 hx)⟩

/-- `Band::validate`'s "is there a BANDHEAD in the listing" ignores the order. -/
theorem any_eq_of_perm {α : Type} (p : α → Bool) {xs ys : List α} (h : xs.Perm ys) : xs.any p = ys.any p :=
  h.any_eq

/-! ### `list_blocks`: one accumulation step -/

/-- One step of `list_blocks`' accumulation keeps the accumulated names equal as multisets when
both the accumulator and the sub-directory listing are permuted. -/
theorem listBlocks_step_perm {acc acc' hs hs' : List Str} (ha : acc.Perm acc') (hh : hs.Perm hs') :
    (acc ++ hs.filter (fun h => !acc.contains h)).Perm (acc' ++ hs'.filter (fun h => !acc'.contains h)) := by
  have : (fun h => !acc.contains h) = (fun h => !acc'.contains h) := by
    funext h; rw [ha.contains_eq]
  rw [this]
  exact ha.append (hh.filter _)

end Conserve
