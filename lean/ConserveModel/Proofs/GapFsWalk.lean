import ConserveModel.Proofs.FsLink
import ConserveModel.Proofs.FsOk
/-
More about path resolution, for the ORDER-AWARE confinement proof (the C16e gap):
* a successful resolution of a clean path went through existing DIRECTORIES (`walk_clean_dirs`);
* a resolution that meets a non-directory before its last component fails (`walk_blocked`);
* resolution never says EEXIST (`walk_ne_eexist`);
* following or not following the final component makes no difference if the result is not a symlink
  (`walk_true_of_false`).
-/
namespace Conserve

/-- Path resolution itself never fails with EEXIST (only ELOOP, ENOENT, ENOTDIR). -/
theorem walk_ne_eexist (fs : Fs) (follow : Bool) :
    ∀ (fuel links : Nat) (cur : Path) (path : List Str),
      walk fs follow fuel links cur path ≠ .error .EEXIST := by
  intro fuel
  induction fuel with
  | zero => intro links cur path h; simp [walk] at h
  | succ fuel ih =>
    intro links cur path
    cases path with
    | nil => intro h; simp [walk] at h
    | cons c rest =>
      simp only [walk]
      repeat' split
      all_goals first
        | exact ih _ _ _
        | (intro h; cases h)

theorem resolve_ne_eexist (fs : Fs) (follow : Bool) (path : List Str) :
    fs.resolve follow path ≠ .error .EEXIST :=
  walk_ne_eexist fs follow _ _ _ _

/-- If the no-follow resolution ends at a node that is not a symlink (or at nothing), the following
resolution ends there too. -/
theorem walk_true_of_false (fs : Fs) :
    ∀ (fuel links : Nat) (cur : Path) (path : List Str) (p : Path),
      walk fs false fuel links cur path = .ok p → NotLink (fs.node p) →
      walk fs true fuel links cur path = .ok p := by
  intro fuel
  induction fuel with
  | zero => intro links cur path p h; simp [walk] at h
  | succ fuel ih =>
    intro links cur path p h hp
    cases path with
    | nil => simpa [walk] using h
    | cons c rest =>
      simp only [walk] at h ⊢
      cases hn : fs.node cur with
      | none => simp [hn] at h
      | some x =>
        simp only [hn] at h ⊢
        by_cases hk : x.kind = .dir
        · simp only [hk, ne_eq, not_true_eq_false, if_false] at h ⊢
          by_cases h1 : c = [] ∨ c = [dot]
          · rw [if_pos h1] at h ⊢; exact ih _ _ _ _ h hp
          · rw [if_neg h1] at h ⊢
            by_cases h2 : c = [dot, dot]
            · rw [if_pos h2] at h ⊢; exact ih _ _ _ _ h hp
            · rw [if_neg h2] at h ⊢
              cases hy : fs.node (cur ++ [c]) with
              | none => simpa [hy] using h
              | some y =>
                simp only [hy] at h ⊢
                split at h
                · rename_i hc
                  have hc2 : y.kind = .symlink ∧ ¬ (rest.isEmpty = true ∧ true = false) := ⟨hc.1, by simp⟩
                  rw [if_pos hc2]
                  by_cases ht : y.target = []
                  · simp [ht] at h
                  · rw [if_neg ht] at h ⊢
                    cases links with
                    | zero => simp at h
                    | succ l =>
                      dsimp only at h ⊢
                      by_cases hh : y.target.head? = some slash
                      · rw [if_pos hh] at h ⊢; exact ih _ _ _ _ h hp
                      · rw [if_neg hh] at h ⊢; exact ih _ _ _ _ h hp
                · rename_i hc
                  by_cases hs : y.kind = .symlink
                  · -- final symlink, not followed: the result is that symlink — excluded
                    have hrest : rest = [] := by
                      apply Classical.byContradiction
                      intro hne
                      exact hc ⟨hs, by simp [hne]⟩
                    subst hrest
                    cases fuel with
                    | zero => simp [walk] at h
                    | succ f =>
                      simp only [walk, Except.ok.injEq] at h
                      subst h
                      exact absurd hs (hp y hy)
                  · have hc2 : ¬ (y.kind = .symlink ∧ ¬ (rest.isEmpty = true ∧ true = false)) := fun a => hs a.1
                    rw [if_neg hc2]
                    exact ih _ _ _ _ h hp
        · simp [hk] at h

/-- A successful walk over a clean path passed through DIRECTORIES: every proper prefix of the
path (the starting point included) is an existing directory.  Same hypotheses as `walk_clean`. -/
theorem walk_clean_dirs (fs : Fs) (follow : Bool) :
    ∀ (fuel links : Nat) (cur : Path) (cs trail : List Str),
      (∀ c ∈ cs, goodName c = true) → (∀ c ∈ trail, c = []) →
      (∀ pre, pre <+: cs → pre ≠ [] → pre ≠ cs → NotLink (fs.node (cur ++ pre))) →
      ((follow = false ∧ trail = []) ∨ ∀ x, fs.node (cur ++ cs) = some x → x.kind ≠ .symlink) →
      ∀ p, walk fs follow fuel links cur (cs ++ trail) = .ok p →
        ∀ pre, pre <+: cs → pre ≠ cs → fs.isDir (cur ++ pre) = true := by
  intro fuel
  induction fuel with
  | zero => intro links cur cs trail _ _ _ _ p h; simp [walk] at h
  | succ fuel ih =>
    intro links cur cs trail hg ht hpre hfin p h pre hp hne
    cases cs with
    | nil => exact absurd (List.prefix_nil.1 hp) hne
    | cons c cs' =>
      obtain ⟨hc1, hc2, hc3⟩ := goodName_ne (hg c List.mem_cons_self)
      simp only [List.cons_append, walk] at h
      cases hn : fs.node cur with
      | none => simp [hn] at h
      | some x =>
        simp only [hn] at h
        by_cases hk : x.kind = .dir
        · have hcur : fs.isDir cur = true := Fs.isDir_iff.2 ⟨x, hn, hk⟩
          simp only [hk, ne_eq, not_true_eq_false, if_false, hc1, hc2, hc3, or_self] at h
          cases pre with
          | nil => simpa using hcur
          | cons a pre' =>
            obtain ⟨rfl, hp'⟩ := List.cons_prefix_cons.1 hp
            have hne' : pre' ≠ cs' := fun e => hne (by rw [e])
            cases hy : fs.node (cur ++ [a]) with
            | none =>
              simp only [hy] at h
              by_cases he : (cs' ++ trail).isEmpty = true
              · have : cs' = [] := (List.append_eq_nil_iff.1 (List.isEmpty_iff.1 he)).1
                subst this
                exact absurd (List.prefix_nil.1 hp') hne'
              · simp [he] at h
            | some y =>
              simp only [hy] at h
              have hnot : ¬ (y.kind = .symlink ∧ ¬ ((cs' ++ trail).isEmpty = true ∧ follow = false)) := by
                rintro ⟨hs, hne2⟩
                by_cases hcs : cs' = []
                · subst hcs
                  rcases hfin with ⟨hf, htr⟩ | hf
                  · subst htr; exact hne2 ⟨rfl, hf⟩
                  · exact hf y hy hs
                · exact hpre [a] (by simp) (by simp) (by simp [hcs]) y hy hs
              rw [if_neg hnot] at h
              have := ih links (cur ++ [a]) cs' trail (fun d hd => hg d (List.mem_cons_of_mem _ hd)) ht
                (fun q hq hqne hqne2 => by
                  have := hpre (a :: q) (by simpa using hq) (by simp) (by simpa using hqne2)
                  simpa using this)
                (by
                  rcases hfin with hf | hf
                  · exact Or.inl hf
                  · exact Or.inr (by simpa using hf)) p h pre' hp' hne'
              simpa using this
        · simp [hk] at h

/-- A walk that has to pass THROUGH a node that is not a directory does not succeed: all the
components before it exist and are no symlinks, so it gets there, and stops (ENOTDIR, or an earlier
error). -/
theorem walk_blocked (fs : Fs) (follow : Bool) :
    ∀ (fuel links : Nat) (cur : Path) (pre0 : List Str) (c : Str) (rest : List Str),
      (∀ c ∈ pre0, goodName c = true) →
      (∀ pre, pre <+: pre0 → pre ≠ [] → ∃ x, fs.node (cur ++ pre) = some x ∧ x.kind ≠ .symlink) →
      (∀ x, fs.node (cur ++ pre0) = some x → x.kind ≠ .dir) →
      ∀ p, walk fs follow fuel links cur (pre0 ++ c :: rest) ≠ .ok p := by
  intro fuel
  induction fuel with
  | zero => intro links cur pre0 c rest _ _ _ p h; simp [walk] at h
  | succ fuel ih =>
    intro links cur pre0 c rest hg hsolid hblock p h
    cases pre0 with
    | nil =>
      simp only [List.nil_append, walk] at h
      cases hn : fs.node cur with
      | none => simp [hn] at h
      | some x =>
        have := hblock x (by simpa using hn)
        simp [hn, this] at h
    | cons a pre0' =>
      obtain ⟨hc1, hc2, hc3⟩ := goodName_ne (hg a List.mem_cons_self)
      simp only [List.cons_append, walk] at h
      cases hn : fs.node cur with
      | none => simp [hn] at h
      | some x =>
        simp only [hn] at h
        by_cases hk : x.kind = .dir
        · simp only [hk, ne_eq, not_true_eq_false, if_false, hc1, hc2, hc3, or_self] at h
          obtain ⟨y, hy, hyk⟩ := hsolid [a] (by simp) (by simp)
          simp only [hy] at h
          have hnot : ¬ (y.kind = .symlink ∧ ¬ ((pre0' ++ c :: rest).isEmpty = true ∧ follow = false)) :=
            fun hh => hyk hh.1
          rw [if_neg hnot] at h
          exact ih links (cur ++ [a]) pre0' c rest (fun d hd => hg d (List.mem_cons_of_mem _ hd))
            (fun q hq hqne => by
              have := hsolid (a :: q) (by simpa using hq) (by simp)
              simpa using this)
            (fun x hx => hblock x (by simpa using hx)) p h
        · simp [hk] at h

end Conserve
