import ConserveModel.Proofs.BackupHunk
import ConserveModel.Props.C11
/-
The main loop of `backup()` in all worlds.  No property statements here.
-/
namespace Conserve.Inv
open Conserve Prog

section
variable {H : Str → Str} {src : List SrcEntry} {s0 : Store}

/-- What the loop needs of one merged pair: the source entry really is one, and — the assumption
the tool makes — if the basis entry looks unchanged and its blocks are all there, its addresses
read back to the source content.  Stated for every later store so that it survives the run. -/
def MatchedOK (H : Str → Str) (src : List SrcEntry) (s : Store) : Matched → Prop
  | .left _ => True
  | .right sf => sf ∈ src
  | .both b sf => sf ∈ src ∧ ∀ s', Extends s s' → sf.kind = .file → heuristicallyUnchanged sf b = some true →
      (∀ a ∈ b.addrs, ∃ c, blockContent H s' a.hash = some c) →
      readBack H s' b.addrs = some (sf.content.take sf.size)

theorem MatchedOK.mono {s s' : Store} {m : Matched} (h : MatchedOK H src s m) (hx : Extends s s') :
    MatchedOK H src s' m := by
  cases m with
  | left b => trivial
  | right sf => exact h
  | both b sf => exact ⟨h.1, fun s'' hx' => h.2 s'' (hx.inv_trans hx')⟩

/-- What the loop does after `copy_entry` returned. -/
def loopCont (H : Str → Str) (o : BackupOpts) (s : SrcEntry) (rest : List Matched) :
    Writer × Except Err (Option ChangeKind) → Prog Writer
  | (w, .error e) =>
    (logError e).bind fun _ =>
      backupLoop H o { w with stats := { w.stats with errors := w.stats.errors + 1 } } rest
  | (w, .ok ch) =>
    (match ch with
      | some ck => report (.change s.apath ck)
      | none => Prog.ret ()).bind fun _ =>
    (if w.pending.length + w.queue.length ≥ o.maxEntriesPerHunk then flushGroup H w else Prog.ret w).bind fun w =>
    backupLoop H o w rest

theorem backupLoop_left (o : BackupOpts) (w : Writer) (b : IndexEntry) (rest : List Matched) :
    backupLoop H o w (.left b :: rest) =
      (report (.change b.apath .deleted)).bind fun _ => backupLoop H o w rest := by
  rw [backupLoop]; rfl

theorem backupLoop_right (o : BackupOpts) (w : Writer) (s : SrcEntry) (rest : List Matched) :
    backupLoop H o w (.right s :: rest) = (copyEntry H o w none s).bind (loopCont H o s rest) := by
  rw [backupLoop]
  · simp only [Prog.bind_def]
    congr 1
    funext x
    obtain ⟨w', r⟩ := x
    cases r with
    | error e => rfl
    | ok ch =>
      by_cases hc : w'.pending.length + w'.queue.length ≥ o.maxEntriesPerHunk <;>
        cases ch <;> simp [loopCont, hc]

theorem backupLoop_both (o : BackupOpts) (w : Writer) (b : IndexEntry) (s : SrcEntry) (rest : List Matched) :
    backupLoop H o w (.both b s :: rest) = (copyEntry H o w (some b) s).bind (loopCont H o s rest) := by
  rw [backupLoop]
  · simp only [Prog.bind_def]
    congr 1
    funext x
    obtain ⟨w', r⟩ := x
    cases r with
    | error e => rfl
    | ok ch =>
      by_cases hc : w'.pending.length + w'.queue.length ≥ o.maxEntriesPerHunk <;>
        cases ch <;> simp [loopCont, hc]

theorem copyEntry_sat (hinj : Function.Injective H) (o : BackupOpts) (hmax : 0 < o.maxBlockSize)
    (hwf : SrcWF src) (wr : Writer) (basis : Option IndexEntry) (sf : SrcEntry) (w : World)
    (hw : WOK H src s0 w) (hwr : WriterOK H src w.store wr) (hsrc : sf ∈ src)
    (hbasis : ∀ b, basis = some b → sf.kind = .file → heuristicallyUnchanged sf b = some true →
      (∀ a ∈ b.addrs, ∃ c, blockContent H w.store a.hash = some c) →
      readBack H w.store b.addrs = some (sf.content.take sf.size)) :
    Sat H src s0 (copyEntry H o wr basis sf) w (fun x w' => WriterOK H src w'.store x.1) := by
  rcases copyEntry_spec hinj o hmax hwf wr basis sf w hw hwr (fun _ => hsrc) hbasis with
    ⟨wr', r, w', hrun, hf, hwr'⟩ | ⟨site, hrun⟩
  · exact Sat.of_ok ⟨(wr', r), w', hrun, hf, hwr'⟩
  · unfold Sat
    rw [hrun]
    exact ⟨Frame.refl hw, fun _ h => nomatch h⟩

/-- After `copy_entry`: log or report, maybe flush the group, go on. -/
theorem loopCont_sat (hinj : Function.Injective H) (o : BackupOpts) (sf : SrcEntry) (rest : List Matched)
    (ih : ∀ wr w, WOK H src s0 w → WriterOK H src w.store wr →
      (∀ m ∈ rest, MatchedOK H src w.store m) →
      Sat H src s0 (backupLoop H o wr rest) w (fun wr' w' => WriterOK H src w'.store wr'))
    (x : Writer × Except Err (Option ChangeKind)) (w : World) (hw : WOK H src s0 w)
    (hwr : WriterOK H src w.store x.1) (hms : ∀ m ∈ rest, MatchedOK H src w.store m) :
    Sat H src s0 (loopCont H o sf rest x) w (fun wr' w' => WriterOK H src w'.store wr') := by
  obtain ⟨wr, r⟩ := x
  cases r with
  | error e =>
    simp only [loopCont, logError, Prog.emit_bind, Prog.ret_bind]
    apply Sat.emit
    exact ih _ _ ⟨hw.enforce, hw.good⟩ (hwr.setStats _) hms
  | ok ch =>
    have hrest : ∀ w1 : World, WOK H src s0 w1 → w1.store = w.store →
        Sat H src s0 ((if wr.pending.length + wr.queue.length ≥ o.maxEntriesPerHunk then flushGroup H wr
            else Prog.ret wr).bind fun w => backupLoop H o w rest) w1
          (fun wr' w' => WriterOK H src w'.store wr') := by
      intro w1 hw1 hst
      have hwr1 : WriterOK H src w1.store wr := by rw [hst]; exact hwr
      have hms1 : ∀ m ∈ rest, MatchedOK H src w1.store m := by rw [hst]; exact hms
      apply Sat.bind
      split
      · refine (flushGroup_sat hinj wr w1 hw1 hwr1).mono ?_
        intro wr2 w2 hf2 hwr2
        exact ih wr2 w2 hf2.wok hwr2 (fun m hm => (hms1 m hm).mono hf2.ext)
      · exact Sat.ret hw1 (ih wr w1 hw1 hwr1 hms1)
    cases ch with
    | none =>
      simp only [loopCont, Prog.ret_bind]
      exact hrest w hw rfl
    | some ck =>
      simp only [loopCont, report, Prog.emit_bind, Prog.ret_bind]
      apply Sat.emit
      exact hrest _ ⟨hw.enforce, hw.good⟩ rfl

/-- The main loop of `backup()` in every world: the world invariant holds at the end whatever
happened (value, error abort from a failed flush, panic), and on normal termination the writer
is still fine. -/
theorem backupLoop_sat (hinj : Function.Injective H) (o : BackupOpts) (hmax : 0 < o.maxBlockSize)
    (hwf : SrcWF src) (ms : List Matched) :
    ∀ (wr : Writer) (w : World), WOK H src s0 w → WriterOK H src w.store wr →
      (∀ m ∈ ms, MatchedOK H src w.store m) →
      Sat H src s0 (backupLoop H o wr ms) w (fun wr' w' => WriterOK H src w'.store wr') := by
  induction ms with
  | nil =>
    intro wr w hw hwr _
    rw [backupLoop]
    exact Sat.ret hw hwr
  | cons m rest ih =>
    intro wr w hw hwr hms
    have hrest : ∀ m ∈ rest, MatchedOK H src w.store m := fun m hm => hms m (List.mem_cons_of_mem _ hm)
    have hm := hms m (List.mem_cons_self ..)
    cases m with
    | left b =>
      rw [backupLoop_left]
      simp only [report, Prog.emit_bind, Prog.ret_bind]
      apply Sat.emit
      exact ih wr _ ⟨hw.enforce, hw.good⟩ hwr hrest
    | right sf =>
      rw [backupLoop_right]
      apply Sat.bind
      refine (copyEntry_sat hinj o hmax hwf wr none sf w hw hwr hm (fun _ h => nomatch h)).mono ?_
      intro x w1 hf1 hwr1
      exact loopCont_sat hinj o sf rest ih x w1 hf1.wok hwr1 (fun m hm => (hrest m hm).mono hf1.ext)
    | both b sf =>
      rw [backupLoop_both]
      apply Sat.bind
      refine (copyEntry_sat hinj o hmax hwf wr (some b) sf w hw hwr hm.1 ?_).mono ?_
      · intro b' hb' hkf hh hall
        cases hb'
        exact hm.2 w.store (Extends.refl _) hkf hh hall
      · intro x w1 hf1 hwr1
        exact loopCont_sat hinj o sf rest ih x w1 hf1.wok hwr1 (fun m hm => (hrest m hm).mono hf1.ext)

end

end Conserve.Inv
