import ConserveModel.Proofs.ProducedArchive
/-
C14p residuals, part 1: `KindsOK` — directories where the layout has directories, files where it has
files — is kept by every `FineOp` step in EVERY world and for EVERY store, also one that is not a map
(`Rng.exec_kindsOK` asks for `NoDupKeys`; it is not needed, because `erase` and `eraseTree` filter by
key only, so a lookup in the filtered store is a lookup in the original one).  Hence `backup` and
`delete_bands` keep `KindsOK` in every world with no side condition at all.  No property statements.
-/
namespace Conserve.Gaps.Kinds
open Conserve Conserve.Inv Conserve.Conf Conserve.Exact Conserve.Rng Prog

theorem kindsOK_erase {s : Store} (h : KindsOK s) (k : Key) : KindsOK (s.erase k) := by
  intro k' v hg
  rw [Store.get?_erase] at hg
  split at hg
  · cases hg
  · exact h k' v hg

theorem kindsOK_eraseTree {s : Store} (h : KindsOK s) (k : Key) : KindsOK (s.eraseTree k) := by
  intro k' v hg
  rw [Store.get?_eraseTree] at hg
  split at hg
  · cases hg
  · exact h k' v hg

/-- One fault-free `FineOp` keeps `KindsOK`, whatever the store. -/
theorem applyOp_kindsOK (e : Bool) {s : Store} {o : Op} (ho : FineOp o) (h : KindsOK s) :
    KindsOK (applyOp e s o).1 := by
  cases o with
  | read k => rw [applyOp_readOnly_store (by simp [ReadOnly])]; exact h
  | listDir k => rw [applyOp_readOnly_store (by simp [ReadOnly])]; exact h
  | metadata k => rw [applyOp_readOnly_store (by simp [ReadOnly])]; exact h
  | write k v m =>
    rcases applyOp_write_store e s k v m with ⟨_, hs⟩ | ⟨_, hs⟩
    · rw [hs]; exact kindsOK_put h ho.write_kind.1
    · rw [hs]; exact h
  | createDir k =>
    rcases applyOp_createDir_store e s k with hs | ⟨_, hs⟩
    · rw [hs]; exact h
    · rw [hs]; exact kindsOK_put h ho.createDir_kind
  | removeFile k =>
    simp only [applyOp]
    split
    · exact h
    · exact h
    · exact kindsOK_erase h k
  | removeDirAll k =>
    simp only [applyOp]
    split
    · exact h
    · exact kindsOK_eraseTree h k

/-- **One `FineOp` step keeps `KindsOK` in every world**: injected fault, killed in the middle of
a write (the zero-length file left is a file where a file belongs), dead, or carried out. -/
theorem exec_kindsOK (w : World) {o : Op} (ho : FineOp o) (h : KindsOK w.store) :
    KindsOK (w.exec o).1.store := by
  rcases (World.exec_cases w o).2 with ⟨hs, _, _⟩ | ⟨k, v, m, rfl, _, hs, _, _⟩ | ⟨e, hs, _, _⟩ | ⟨hs, _, _⟩
  · rw [hs]; exact h
  · rw [hs]; exact kindsOK_put h ho.write_kind.2
  · rw [hs]; exact h
  · rw [hs]; exact applyOp_kindsOK _ ho h

/-- A program all of whose operations are `FineOp` keeps `KindsOK`, in every world. -/
theorem run_kindsOK {α : Type} {p : Prog α} (hp : Prog.AllOps FineOp p) (w : World)
    (h : KindsOK w.store) : KindsOK (p.run w).2.store :=
  Prog.run_world_inv (P := FineOp) (I := fun w' => KindsOK w'.store)
    (fun _ _ h => h) (fun w' _ ho h' => exec_kindsOK w' ho h') hp w h

/-- **`backup` keeps `KindsOK` in every world**, from every store (no `NoDupKeys`), for every hash
function, all options and every source listing. -/
theorem backup_kindsOK (H : Str → Str) (o : BackupOpts) (src : List SrcEntry) (w : World)
    (h : KindsOK w.store) : KindsOK ((backup H o src).run w).2.store :=
  run_kindsOK (backup_fine H o src) w h

/-- **`delete_bands` (either mode) keeps `KindsOK` in every world**, from every store. -/
theorem delete_kindsOK (strict : Bool) (D : List Nat) (o : DeleteOpts) (w : World)
    (h : KindsOK w.store) : KindsOK ((deleteBands strict D o).run w).2.store :=
  run_kindsOK (AllOps.fine2_fine (deleteBands_fine2 strict D o)) w h

end Conserve.Gaps.Kinds
