import ConserveModel.Proofs.JsonLex
/-
Helper lemmas for the JSON round trip (Props/C13j.lean): objects, arrays, and the types of an
index hunk.
-/
namespace Conserve.Json
open Conserve

/-! ### objects: one step of the member loop on rendered text -/

/-- First member `"k":v…` of an object. -/
theorem parseMembersF_first {σ : Type} (field : Nat → σ → Str → Str → Option (σ × Str)) (acc : σ)
    (k v : Str) (hk : validUtf8 k = true) (F : Nat) (hF : (renderString k ++ 58 :: v).length ≤ F) :
    parseMembersF field F true acc (renderString k ++ 58 :: v) =
      (field (F - 1) acc k v).bind (fun p => parseMembersF field (F - 1) false p.1 p.2) := by
  cases F with
  | zero => simp [renderString] at hF
  | succ f =>
    have hf : (renderChars k ++ 58 :: v).length ≤ f := by simp [renderString] at hF ⊢; omega
    simp only [renderString, List.cons_append, parseMembersF, Nat.add_sub_cancel]
    rw [skipWs_cons_of_ne (by decide) (by decide) (by decide) (by decide)]
    cases hfld : field f acc k v with
    | none => simp [parseStrBody_render k (58 :: v) hk f hf, skipWs, hfld]
    | some p =>
      obtain ⟨a, r⟩ := p
      simp [parseStrBody_render k (58 :: v) hk f hf, skipWs, hfld]

/-- A further member `,"k":v…`. -/
theorem parseMembersF_next {σ : Type} (field : Nat → σ → Str → Str → Option (σ × Str)) (acc : σ)
    (k v : Str) (hk : validUtf8 k = true) (F : Nat) (hF : (commaKey k ++ v).length ≤ F) :
    parseMembersF field F false acc (commaKey k ++ v) =
      (field (F - 1) acc k v).bind (fun p => parseMembersF field (F - 1) false p.1 p.2) := by
  cases F with
  | zero => simp [commaKey] at hF
  | succ f =>
    have hf : (renderChars k ++ 58 :: v).length ≤ f := by simp [commaKey, renderString] at hF ⊢; omega
    simp only [commaKey, renderString, List.cons_append, List.append_assoc, parseMembersF, Nat.add_sub_cancel]
    rw [skipWs_cons_of_ne (by decide) (by decide) (by decide) (by decide)]
    cases hfld : field f acc k v with
    | none => simp [parseStrBody_render k (58 :: v) hk f hf, skipWs, hfld]
    | some p =>
      obtain ⟨a, r⟩ := p
      simp [parseStrBody_render k (58 :: v) hk f hf, skipWs, hfld]

/-- The closing brace. -/
theorem parseMembersF_end {σ : Type} (field : Nat → σ → Str → Str → Option (σ × Str)) (acc : σ)
    (first : Bool) (rest : Str) (F : Nat) (hF : (125 :: rest).length ≤ F) :
    parseMembersF field F first acc (125 :: rest) = some (acc, rest) := by
  cases F with
  | zero => simp at hF
  | succ f => simp [parseMembersF, skipWs]

/-! ### arrays -/

theorem parseSeqF_tail {α : Type} (elem : Nat → Str → Option (α × Str)) (render : α → Str) (xs : List α)
    (hhead : ∀ x ∈ xs, ∃ c tl, render x = c :: tl ∧ c ≠ 32 ∧ c ≠ 10 ∧ c ≠ 9 ∧ c ≠ 13 ∧ c ≠ 93)
    (helem : ∀ x ∈ xs, ∀ f rest', Delim rest' → (render x ++ rest').length ≤ f →
      elem f (render x ++ rest') = some (x, rest')) :
    ∀ (rest : Str) (F : Nat), (renderSeqTail render xs ++ rest).length ≤ F →
      parseSeqF elem F false (renderSeqTail render xs ++ rest) = some (xs, rest) := by
  induction xs with
  | nil =>
    intro rest F hF
    cases F with
    | zero => simp [renderSeqTail] at hF
    | succ f => simp [renderSeqTail, parseSeqF, skipWs]
  | cons x xs ih =>
    intro rest F hF
    cases F with
    | zero => simp [renderSeqTail] at hF
    | succ f =>
      obtain ⟨c, tl, htl, hc1, hc2, hc3, hc4, hc5⟩ := hhead x (by simp)
      have hd : Delim (renderSeqTail render xs ++ rest) := by
        cases xs with
        | nil => exact Delim.cons93 _
        | cons y ys => exact Delim.cons44 _
      have hlen : (render x ++ (renderSeqTail render xs ++ rest)).length ≤ f := by
        simp [renderSeqTail] at hF ⊢; omega
      have he := helem x (by simp) f _ hd hlen
      have hrec := ih (fun y hy => hhead y (by simp [hy])) (fun y hy => helem y (by simp [hy])) rest f
        (by simp at hlen ⊢; omega)
      simp only [renderSeqTail, List.cons_append, List.append_assoc, parseSeqF]
      rw [skipWs_cons_of_ne (by decide) (by decide) (by decide) (by decide)]
      rw [htl] at he ⊢
      simp only [List.cons_append] at he ⊢
      rw [skipWs_cons_of_ne hc1 hc2 hc3 hc4]
      simp [he, hrec, hc5]

theorem parseArray_render {α : Type} (elem : Nat → Str → Option (α × Str)) (render : α → Str) (xs : List α)
    (hhead : ∀ x ∈ xs, ∃ c tl, render x = c :: tl ∧ c ≠ 32 ∧ c ≠ 10 ∧ c ≠ 9 ∧ c ≠ 13 ∧ c ≠ 93)
    (helem : ∀ x ∈ xs, ∀ f rest', Delim rest' → (render x ++ rest').length ≤ f →
      elem f (render x ++ rest') = some (x, rest'))
    (rest : Str) (F : Nat) (hF : (renderSeq render xs ++ rest).length ≤ F) :
    parseArray elem F (renderSeq render xs ++ rest) = some (xs, rest) := by
  cases xs with
  | nil =>
    cases F with
    | zero => simp [renderSeq] at hF
    | succ f => simp [renderSeq, parseArray, parseSeqF, skipWs]
  | cons x xs =>
    cases F with
    | zero => simp [renderSeq] at hF
    | succ f =>
      obtain ⟨c, tl, htl, hc1, hc2, hc3, hc4, hc5⟩ := hhead x (by simp)
      have hd : Delim (renderSeqTail render xs ++ rest) := by
        cases xs with
        | nil => exact Delim.cons93 _
        | cons y ys => exact Delim.cons44 _
      have hlen : (render x ++ (renderSeqTail render xs ++ rest)).length ≤ f := by
        simp [renderSeq] at hF ⊢; omega
      have he := helem x (by simp) f _ hd hlen
      have hrec := parseSeqF_tail elem render xs (fun y hy => hhead y (by simp [hy]))
        (fun y hy => helem y (by simp [hy])) rest f (by simp at hlen ⊢; omega)
      simp only [renderSeq, List.cons_append, List.append_assoc, parseArray, parseSeqF]
      rw [skipWs_cons_of_ne (by decide) (by decide) (by decide) (by decide)]
      rw [htl] at he ⊢
      simp only [List.cons_append] at he ⊢
      rw [skipWs_cons_of_ne hc1 hc2 hc3 hc4]
      simp [he, hrec, hc5]

/-! ### kind, hash, address -/

theorem validUtf8_keys :
    validUtf8 kApath = true ∧ validUtf8 kKind = true ∧ validUtf8 kMtime = true ∧ validUtf8 kUnixMode = true ∧
    validUtf8 kUser = true ∧ validUtf8 kGroup = true ∧ validUtf8 kMtimeNanos = true ∧ validUtf8 kAddrs = true ∧
    validUtf8 kTarget = true ∧ validUtf8 kHash = true ∧ validUtf8 kStart = true ∧ validUtf8 kLen = true := by
  decide

theorem parseKind_render (k : Kind) (rest : Str) (f : Nat)
    (hf : (renderString (kindName k) ++ rest).length ≤ f) :
    parseKind f (renderString (kindName k) ++ rest) = some (k, rest) := by
  have hv : validUtf8 (kindName k) = true := by cases k <;> decide
  have hk : kindOfName (kindName k) = some k := by cases k <;> decide
  have hf' : (renderChars (kindName k) ++ rest).length ≤ f := by simp [renderString] at hf ⊢; omega
  simp only [renderString, List.cons_append, parseKind]
  rw [skipWs_cons_of_ne (by decide) (by decide) (by decide) (by decide)]
  simp [parseStrBody_render _ rest hv f hf', hk]

theorem lowerHex_facts {c : Nat} (h : isLowerHex c = true) :
    c ≠ 34 ∧ c ≠ 92 ∧ ¬ c < 32 ∧ isHex c = true ∧ toLowerHex c = c := by
  simp [isLowerHex] at h
  refine ⟨by omega, by omega, by omega, by simp [isHex, isLowerHex]; omega, ?_⟩
  have : ¬ (65 ≤ c ∧ c ≤ 70) := by omega
  simp [toLowerHex, this]

theorem scanRaw_render (h rest : Str) (hh : h.all isLowerHex = true) :
    scanRaw (renderChars h ++ rest) = some (h, rest) := by
  induction h with
  | nil => simp [renderChars, scanRaw]
  | cons c cs ih =>
    simp only [List.all_cons, Bool.and_eq_true] at hh
    obtain ⟨h34, h92, h32, _, _⟩ := lowerHex_facts hh.1
    have hb8 : c ≠ 8 := by omega
    have hb9 : c ≠ 9 := by omega
    have hb10 : c ≠ 10 := by omega
    have hb12 : c ≠ 12 := by omega
    have hb13 : c ≠ 13 := by omega
    simp [renderChars, escByte, h34, h92, h32, hb8, hb9, hb10, hb12, hb13, scanRaw, ih hh.2]

theorem parseHash_render (h rest : Str) (hh : wfHash h = true) :
    parseHash (renderString h ++ rest) = some (h, rest) := by
  simp only [wfHash, Bool.and_eq_true, beq_iff_eq] at hh
  have hall : h.all isHex = true := by
    rw [List.all_eq_true] at hh ⊢
    intro c hc
    exact (lowerHex_facts (hh.2 c hc)).2.2.2.1
  have hmap : h.map toLowerHex = h := by
    have : ∀ c ∈ h, toLowerHex c = c := by
      intro c hc
      exact (lowerHex_facts ((List.all_eq_true.mp hh.2) c hc)).2.2.2.2
    calc h.map toLowerHex = h.map id := List.map_congr_left this
      _ = h := by simp
  simp only [renderString, List.cons_append, parseHash]
  rw [skipWs_cons_of_ne (by decide) (by decide) (by decide) (by decide)]
  simp [scanRaw_render h rest hh.2, hh.1, hall, hmap]

theorem addrField_hash (f : Nat) (acc : AddrAcc) (s : Str) :
    addrField f acc kHash s =
      if acc.hash.isSome then none else (parseHash s).map fun (v, r) => ({ acc with hash := some v }, r) := by
  simp [addrField]

theorem addrField_start (f : Nat) (acc : AddrAcc) (s : Str) :
    addrField f acc kStart s =
      if acc.start.isSome then none
      else (parseUnsigned u64Bound s).map fun (v, r) => ({ acc with start := some v }, r) := by
  simp [addrField, kStart, kHash]

theorem addrField_len (f : Nat) (acc : AddrAcc) (s : Str) :
    addrField f acc kLen s =
      if acc.len.isSome then none
      else (parseUnsigned u64Bound s).map fun (v, r) => ({ acc with len := some v }, r) := by
  simp [addrField, kStart, kHash, kLen]

theorem Delim.commaKey (k r : Str) : Delim (commaKey k ++ r) := ⟨44, _, rfl, Or.inl rfl⟩

theorem renderAddr_head (a : Addr) :
    ∃ c tl, renderAddr a = c :: tl ∧ c ≠ 32 ∧ c ≠ 10 ∧ c ≠ 9 ∧ c ≠ 13 ∧ c ≠ 93 :=
  ⟨123, _, rfl, by decide, by decide, by decide, by decide, by decide⟩

theorem parseAddr_render (a : Addr) (ha : wfAddr a = true) (rest : Str) (F : Nat)
    (hF : (renderAddr a ++ rest).length ≤ F) :
    parseAddr F (renderAddr a ++ rest) = some (a, rest) := by
  obtain ⟨_, _, _, _, _, _, _, _, _, hkHash, hkStart, hkLen⟩ := validUtf8_keys
  simp only [wfAddr, Bool.and_eq_true, decide_eq_true_eq] at ha
  obtain ⟨⟨hh, hstart⟩, hlen⟩ := ha
  cases F with
  | zero => simp [renderAddr] at hF
  | succ f =>
  simp only [renderAddr, List.cons_append, List.append_assoc, parseAddr] at hF ⊢
  rw [skipWs_cons_of_ne (by decide) (by decide) (by decide) (by decide)]
  simp only []
  rw [parseMembersF_first addrField _ kHash _ hkHash (f + 1) (by simp at hF ⊢; omega)]
  rw [addrField_hash, parseHash_render a.hash _ hh]
  simp only [Option.isSome_none, Bool.false_eq_true, if_false, Option.map_some, Option.bind_some,
    Nat.add_sub_cancel]
  by_cases hs : a.start = 0
  · simp only [hs, if_true, List.nil_append]
    rw [parseMembersF_next addrField _ kLen _ hkLen f (by simp [hs] at hF ⊢; omega)]
    rw [addrField_len, parseUnsigned_render u64Bound a.len hlen _ (Delim.cons125 _).numEnd]
    simp only [Option.isSome_none, Bool.false_eq_true, if_false, Option.map_some, Option.bind_some]
    rw [parseMembersF_end _ _ _ _ _ (by simp [hs, commaKey, renderString] at hF ⊢; omega)]
    cases a
    simp_all [AddrAcc.finish]
  · simp only [hs, if_false, List.append_assoc]
    rw [parseMembersF_next addrField _ kStart _ hkStart f (by simp [hs] at hF ⊢; omega)]
    rw [addrField_start, parseUnsigned_render u64Bound a.start hstart _ (Delim.commaKey _ _).numEnd]
    simp only [Option.isSome_none, Bool.false_eq_true, if_false, Option.map_some, Option.bind_some]
    rw [parseMembersF_next addrField _ kLen _ hkLen (f - 1)
      (by simp [hs, commaKey, renderString] at hF ⊢; omega)]
    rw [addrField_len, parseUnsigned_render u64Bound a.len hlen _ (Delim.cons125 _).numEnd]
    simp only [Option.isSome_none, Bool.false_eq_true, if_false, Option.map_some, Option.bind_some]
    rw [parseMembersF_end _ _ _ _ _ (by simp [hs, commaKey, renderString] at hF ⊢; omega)]
    cases a
    simp_all [AddrAcc.finish]

/-! ### entries -/

theorem entryField_apath (f : Nat) (acc : EntryAcc) (s : Str) :
    entryField f acc kApath s =
      if acc.apath.isSome then none else (parseStr f s).map fun (v, r) => ({ acc with apath := some v }, r) := by
  simp [entryField]

theorem entryField_kind (f : Nat) (acc : EntryAcc) (s : Str) :
    entryField f acc kKind s =
      if acc.kind.isSome then none else (parseKind f s).map fun (v, r) => ({ acc with kind := some v }, r) := by
  simp [entryField, kKind, kApath]

theorem entryField_mtime (f : Nat) (acc : EntryAcc) (s : Str) :
    entryField f acc kMtime s =
      if acc.mtime.isSome then none else (parseI64 s).map fun (v, r) => ({ acc with mtime := some v }, r) := by
  simp [entryField, kKind, kApath, kMtime]

theorem entryField_unixMode (f : Nat) (acc : EntryAcc) (s : Str) :
    entryField f acc kUnixMode s =
      if acc.unixMode.isSome then none
      else (parseOptU32 s).map fun (v, r) => ({ acc with unixMode := some v }, r) := by
  simp [entryField, kKind, kApath, kMtime, kUnixMode]

theorem entryField_mtimeNanos (f : Nat) (acc : EntryAcc) (s : Str) :
    entryField f acc kMtimeNanos s =
      if acc.mtimeNanos.isSome then none
      else (parseUnsigned u32Bound s).map fun (v, r) => ({ acc with mtimeNanos := some v }, r) := by
  simp [entryField, kKind, kApath, kMtime, kUnixMode, kMtimeNanos]

theorem entryField_addrs (f : Nat) (acc : EntryAcc) (s : Str) :
    entryField f acc kAddrs s =
      if acc.addrs.isSome then none
      else (parseArray parseAddr f s).map fun (v, r) => ({ acc with addrs := some v }, r) := by
  simp [entryField, kKind, kApath, kMtime, kUnixMode, kMtimeNanos, kAddrs]

theorem entryField_target (f : Nat) (acc : EntryAcc) (s : Str) :
    entryField f acc kTarget s =
      if acc.target.isSome then none
      else (parseOptStr f s).map fun (v, r) => ({ acc with target := some v }, r) := by
  simp [entryField, kKind, kApath, kMtime, kUnixMode, kMtimeNanos, kAddrs, kTarget]

theorem entryField_user (f : Nat) (acc : EntryAcc) (s : Str) :
    entryField f acc kUser s =
      if acc.user.isSome then none
      else (parseOptStr f s).map fun (v, r) => ({ acc with user := some v }, r) := by
  simp [entryField, kKind, kApath, kMtime, kUnixMode, kMtimeNanos, kAddrs, kTarget, kUser]

theorem entryField_group (f : Nat) (acc : EntryAcc) (s : Str) :
    entryField f acc kGroup s =
      if acc.group.isSome then none
      else (parseOptStr f s).map fun (v, r) => ({ acc with group := some v }, r) := by
  simp [entryField, kKind, kApath, kMtime, kUnixMode, kMtimeNanos, kAddrs, kTarget, kUser, kGroup]

/-- The optional members of an entry, one by one (`renderEntryTail` is their concatenation). -/
def ownerPart (u g : Option Str) : Str :=
  if u.isNone && g.isNone then [] else commaKey kUser ++ (renderOptStr u ++ (commaKey kGroup ++ renderOptStr g))
def nanosPart (n : Nat) : Str := if n = 0 then [] else commaKey kMtimeNanos ++ renderNat n
def addrsPart (as : List Addr) : Str := if as.isEmpty then [] else commaKey kAddrs ++ renderSeq renderAddr as
def targetPart (t : Option Str) : Str :=
  match t with
  | none => []
  | some t => commaKey kTarget ++ renderString t

theorem renderEntryTail_eq (e : IndexEntry) :
    renderEntryTail e = ownerPart e.user e.group ++ (nanosPart e.mtimeNanos ++ (addrsPart e.addrs ++
      (targetPart e.target ++ [125]))) := rfl

theorem members_target (acc : EntryAcc) (hacc : acc.target = none) (t : Option Str) (ht : wfOptStr t = true)
    (rest : Str) (F : Nat) (hF : (targetPart t ++ 125 :: rest).length ≤ F) :
    parseMembersF entryField F false acc (targetPart t ++ 125 :: rest) =
      some ({ acc with target := t.map some }, rest) := by
  obtain ⟨_, _, _, _, _, _, _, _, hk, _, _, _⟩ := validUtf8_keys
  cases t with
  | none =>
    simp only [targetPart, List.nil_append] at hF ⊢
    rw [parseMembersF_end _ _ _ _ _ hF]
    cases acc; simp_all
  | some t =>
    simp only [targetPart, List.append_assoc] at hF ⊢
    rw [parseMembersF_next entryField _ kTarget _ hk F hF, entryField_target]
    have hp := parseOptStr_render (some t) (125 :: rest) (by intro s hs; cases hs; exact ht) (F - 1)
      (by simp [commaKey, renderOptStr] at hF ⊢; omega)
    simp only [renderOptStr] at hp
    simp only [hacc, Option.isSome_none, Bool.false_eq_true, if_false, hp, Option.map_some, Option.bind_some]
    rw [parseMembersF_end _ _ _ _ _ (by simp [commaKey, renderString] at hF ⊢; omega)]

theorem Delim_targetPart (t : Option Str) (rest : Str) : Delim (targetPart t ++ 125 :: rest) := by
  cases t with
  | none => exact Delim.cons125 _
  | some t => simp only [targetPart, List.append_assoc]; exact Delim.commaKey _ _

theorem members_addrs (acc : EntryAcc) (hacc : acc.addrs = none ∧ acc.target = none)
    (as : List Addr) (has : as.all wfAddr = true) (t : Option Str) (ht : wfOptStr t = true)
    (rest : Str) (F : Nat) (hF : (addrsPart as ++ (targetPart t ++ 125 :: rest)).length ≤ F) :
    parseMembersF entryField F false acc (addrsPart as ++ (targetPart t ++ 125 :: rest)) =
      some ({ acc with addrs := if as.isEmpty then none else some as, target := t.map some }, rest) := by
  obtain ⟨_, _, _, _, _, _, _, hk, _, _, _, _⟩ := validUtf8_keys
  by_cases hempty : as.isEmpty = true
  · simp only [addrsPart, hempty, if_true, List.nil_append] at hF ⊢
    rw [members_target acc hacc.2 t ht rest F hF]
    cases acc; simp_all
  · simp only [addrsPart, hempty, Bool.false_eq_true, if_false, List.append_assoc] at hF ⊢
    rw [parseMembersF_next entryField _ kAddrs _ hk F hF, entryField_addrs]
    have hp := parseArray_render parseAddr renderAddr as (fun a _ => renderAddr_head a)
      (fun a ha f rest' _ hlen => parseAddr_render a (List.all_eq_true.mp has a ha) rest' f hlen)
      (targetPart t ++ 125 :: rest) (F - 1) (by simp [commaKey] at hF ⊢; omega)
    simp only [hacc.1, Option.isSome_none, Bool.false_eq_true, if_false, hp, Option.map_some, Option.bind_some]
    rw [members_target { acc with addrs := some as } hacc.2 t ht rest (F - 1) (by simp [commaKey, renderString] at hF ⊢; omega)]

theorem Delim_addrsPart (as : List Addr) (t : Option Str) (rest : Str) :
    Delim (addrsPart as ++ (targetPart t ++ 125 :: rest)) := by
  by_cases hempty : as.isEmpty = true
  · simp only [addrsPart, hempty, if_true, List.nil_append]; exact Delim_targetPart t rest
  · simp only [addrsPart, hempty, Bool.false_eq_true, if_false, List.append_assoc]; exact Delim.commaKey _ _

theorem members_nanos (acc : EntryAcc) (hacc : acc.mtimeNanos = none ∧ acc.addrs = none ∧ acc.target = none)
    (n : Nat) (hn : n < u32Bound)
    (as : List Addr) (has : as.all wfAddr = true) (t : Option Str) (ht : wfOptStr t = true)
    (rest : Str) (F : Nat) (hF : (nanosPart n ++ (addrsPart as ++ (targetPart t ++ 125 :: rest))).length ≤ F) :
    parseMembersF entryField F false acc (nanosPart n ++ (addrsPart as ++ (targetPart t ++ 125 :: rest))) =
      some ({ acc with mtimeNanos := if n = 0 then none else some n,
                       addrs := if as.isEmpty then none else some as, target := t.map some }, rest) := by
  obtain ⟨_, _, _, _, _, _, hk, _, _, _, _, _⟩ := validUtf8_keys
  by_cases hz : n = 0
  · simp only [nanosPart, hz, if_true, List.nil_append] at hF ⊢
    rw [members_addrs acc hacc.2 as has t ht rest F hF]
    cases acc; simp_all
  · simp only [nanosPart, hz, if_false, List.append_assoc] at hF ⊢
    rw [parseMembersF_next entryField _ kMtimeNanos _ hk F hF, entryField_mtimeNanos]
    rw [parseUnsigned_render u32Bound n hn _ (Delim_addrsPart as t rest).numEnd]
    simp only [hacc.1, Option.isSome_none, Bool.false_eq_true, if_false, Option.map_some, Option.bind_some]
    rw [members_addrs { acc with mtimeNanos := some n } hacc.2 as has t ht rest (F - 1) (by simp [commaKey, renderString] at hF ⊢; omega)]

theorem Delim_nanosPart (n : Nat) (as : List Addr) (t : Option Str) (rest : Str) :
    Delim (nanosPart n ++ (addrsPart as ++ (targetPart t ++ 125 :: rest))) := by
  by_cases hz : n = 0
  · simp only [nanosPart, hz, if_true, List.nil_append]; exact Delim_addrsPart as t rest
  · simp only [nanosPart, hz, if_false, List.append_assoc]; exact Delim.commaKey _ _

theorem members_owner (acc : EntryAcc)
    (hacc : acc.user = none ∧ acc.group = none ∧ acc.mtimeNanos = none ∧ acc.addrs = none ∧ acc.target = none)
    (u g : Option Str) (hu : wfOptStr u = true) (hg : wfOptStr g = true)
    (n : Nat) (hn : n < u32Bound)
    (as : List Addr) (has : as.all wfAddr = true) (t : Option Str) (ht : wfOptStr t = true)
    (rest : Str) (F : Nat)
    (hF : (ownerPart u g ++ (nanosPart n ++ (addrsPart as ++ (targetPart t ++ 125 :: rest)))).length ≤ F) :
    parseMembersF entryField F false acc
        (ownerPart u g ++ (nanosPart n ++ (addrsPart as ++ (targetPart t ++ 125 :: rest)))) =
      some ({ acc with user := if u.isNone && g.isNone then none else some u,
                       group := if u.isNone && g.isNone then none else some g,
                       mtimeNanos := if n = 0 then none else some n,
                       addrs := if as.isEmpty then none else some as, target := t.map some }, rest) := by
  obtain ⟨_, _, _, _, hkU, hkG, _, _, _, _, _, _⟩ := validUtf8_keys
  by_cases habs : (u.isNone && g.isNone) = true
  · simp only [ownerPart, habs, if_true, List.nil_append] at hF ⊢
    rw [members_nanos acc hacc.2.2 n hn as has t ht rest F hF]
    cases acc; simp_all
  · simp only [ownerPart, habs, Bool.false_eq_true, if_false, List.append_assoc] at hF ⊢
    rw [parseMembersF_next entryField _ kUser _ hkU F hF, entryField_user]
    rw [parseOptStr_render u _ (by intro s hs; subst hs; exact hu) (F - 1) (by simp [commaKey] at hF ⊢; omega)]
    simp only [hacc.1, Option.isSome_none, Bool.false_eq_true, if_false, Option.map_some, Option.bind_some]
    rw [parseMembersF_next entryField _ kGroup _ hkG (F - 1) (by simp [commaKey, renderString] at hF ⊢; omega),
      entryField_group]
    rw [parseOptStr_render g _ (by intro s hs; subst hs; exact hg) (F - 1 - 1)
      (by simp [commaKey, renderString] at hF ⊢; omega)]
    simp only [hacc.2.1, Option.isSome_none, Bool.false_eq_true, if_false, Option.map_some, Option.bind_some]
    rw [members_nanos { acc with user := some u, group := some g } hacc.2.2 n hn as has t ht rest (F - 1 - 1)
      (by simp [commaKey, renderString] at hF ⊢; omega)]

theorem Delim_renderEntryTail (e : IndexEntry) (rest : Str) : Delim (renderEntryTail e ++ rest) := by
  rw [renderEntryTail_eq]
  simp only [List.append_assoc, List.cons_append, List.nil_append]
  by_cases habs : (e.user.isNone && e.group.isNone) = true
  · simp only [ownerPart, habs, if_true, List.nil_append]; exact Delim_nanosPart _ _ _ _
  · simp only [ownerPart, habs, Bool.false_eq_true, if_false, List.append_assoc]; exact Delim.commaKey _ _

theorem renderEntry_head (e : IndexEntry) :
    ∃ c tl, renderEntry e = c :: tl ∧ c ≠ 32 ∧ c ≠ 10 ∧ c ≠ 9 ∧ c ≠ 13 ∧ c ≠ 93 :=
  ⟨123, _, rfl, by decide, by decide, by decide, by decide, by decide⟩

theorem parseEntry_render (e : IndexEntry) (he : wfEntry e = true) (rest : Str) (F : Nat)
    (hF : (renderEntry e ++ rest).length ≤ F) :
    parseEntry F (renderEntry e ++ rest) = some (e, rest) := by
  obtain ⟨hkA, hkK, hkM, hkX, _, _, _, _, _, _, _, _⟩ := validUtf8_keys
  simp only [wfEntry, Bool.and_eq_true, decide_eq_true_eq] at he
  obtain ⟨⟨⟨⟨⟨⟨⟨⟨hap, hm1⟩, hm2⟩, hnanos⟩, hmode⟩, hu⟩, hg⟩, has⟩, ht⟩ := he
  have hdt := Delim_renderEntryTail e rest
  cases F with
  | zero => simp [renderEntry] at hF
  | succ f =>
  simp only [renderEntry, List.cons_append, List.append_assoc, parseEntry] at hF hdt ⊢
  rw [skipWs_cons_of_ne (by decide) (by decide) (by decide) (by decide)]
  simp only []
  rw [parseMembersF_first entryField _ kApath _ hkA (f + 1) (by simp at hF ⊢; omega), entryField_apath]
  rw [parseStr_render e.apath _ hap _ (by simp [renderString] at hF ⊢; omega)]
  simp only [Option.isSome_none, Bool.false_eq_true, if_false, Option.map_some, Option.bind_some,
    Nat.add_sub_cancel]
  rw [parseMembersF_next entryField _ kKind _ hkK f (by simp [renderString] at hF ⊢; omega), entryField_kind]
  rw [parseKind_render e.kind _ _ (by simp [renderString, commaKey] at hF ⊢; omega)]
  simp only [Option.isSome_none, Bool.false_eq_true, if_false, Option.map_some, Option.bind_some]
  rw [parseMembersF_next entryField _ kMtime _ hkM (f - 1) (by simp [renderString, commaKey] at hF ⊢; omega),
    entryField_mtime]
  rw [parseI64_render e.mtime hm1 hm2 _ (Delim.commaKey _ _).numEnd]
  simp only [Option.isSome_none, Bool.false_eq_true, if_false, Option.map_some, Option.bind_some]
  rw [parseMembersF_next entryField _ kUnixMode _ hkX (f - 1 - 1)
    (by simp [renderString, commaKey] at hF ⊢; omega), entryField_unixMode]
  rw [parseOptU32_render e.unixMode (by intro n hn; rw [hn] at hmode; simp only [wfOptU32, u32Bound] at hmode; exact of_decide_eq_true hmode) _ hdt.numEnd]
  simp only [Option.isSome_none, Bool.false_eq_true, if_false, Option.map_some, Option.bind_some]
  rw [renderEntryTail_eq] at hF ⊢
  simp only [List.append_assoc, List.cons_append, List.nil_append] at hF ⊢
  rw [members_owner _ ⟨rfl, rfl, rfl, rfl, rfl⟩ e.user e.group hu hg e.mtimeNanos hnanos e.addrs has e.target ht
    rest (f - 1 - 1 - 1) (by simp [renderString, commaKey] at hF ⊢; omega)]
  clear hF hdt hu hg has ht hmode hnanos hap hm1 hm2
  cases e with
  | mk apath kind mtime mtimeNanos unixMode user group addrs target =>
  simp [EntryAcc.finish]
  refine ⟨?_, ?_, ?_, ?_, ?_⟩
  · by_cases hz : mtimeNanos = 0 <;> simp [hz]
  · cases user <;> cases group <;> simp
  · cases user <;> cases group <;> simp
  · cases addrs <;> simp
  · cases target <;> simp

end Conserve.Json
