import ConserveModel.Proofs.FsLoop
/-
`restoreToFs` as a whole: `ensure_dir_exists`, the emptiness test, loop, deferrals.
-/
namespace Conserve

/-- Every node but the root has a parent directory (true of every real file system). -/
def Fs.wf (fs : Fs) : Bool := fs.nodes.all fun kv => kv.1 == [] || fs.isDir kv.1.dropLast

theorem Fs.node_mem {fs : Fs} {p : Path} {x : FNode} (h : fs.node p = some x) : (p, x) ∈ fs.nodes := by
  unfold Fs.node at h
  cases hf : fs.nodes.find? (fun kv => kv.1 == p) with
  | none => rw [hf] at h; cases h
  | some kv =>
    rw [hf] at h
    simp only [Option.map_some, Option.some.injEq] at h
    have h1 := List.mem_of_find?_eq_some hf
    have h2 := List.find?_some hf
    simp only [beq_iff_eq] at h2
    rw [← h2, ← h]; exact h1

theorem Fs.wf_parent {fs : Fs} (hwf : fs.wf = true) {p : Path} {x : FNode} (h : fs.node p = some x)
    (hp : p ≠ []) : fs.isDir p.dropLast = true := by
  have := List.all_eq_true.1 hwf _ (Fs.node_mem h)
  simpa [hp] using this

theorem Fs.hasChild_of_node {fs : Fs} {p : Path} {x : FNode} (h : fs.node p = some x) (hp : p ≠ []) :
    fs.hasChild p.dropLast = true := by
  unfold Fs.hasChild
  exact List.any_eq_true.2 ⟨_, Fs.node_mem h, by simp [hp]⟩

theorem no_descendants {fs : Fs} {D : Path} (hwf : fs.wf = true) (hch : ∀ c, fs.node (D ++ [c]) = none) :
    ∀ (n : Nat) (cs : List Str), cs.length = n → cs ≠ [] → fs.node (D ++ cs) = none := by
  intro n
  induction n with
  | zero => intro cs hl hne; exact absurd (List.eq_nil_of_length_eq_zero hl) hne
  | succ n ih =>
    intro cs hl hne
    obtain ⟨cs', c, rfl⟩ : ∃ cs' c, cs = cs' ++ [c] :=
      ⟨cs.dropLast, cs.getLast hne, (List.dropLast_concat_getLast hne).symm⟩
    by_cases hcs : cs' = []
    · subst hcs; exact hch c
    · cases hx : fs.node (D ++ (cs' ++ [c])) with
      | none => rfl
      | some x =>
        have := Fs.wf_parent hwf hx (by simp)
        rw [← List.append_assoc, List.dropLast_concat] at this
        have hnone := ih cs' (by simpa using hl) hcs
        simp [Fs.isDir, hnone] at this

/-- What the caller must guarantee about the destination path: real names, no symlink (or
file) among its proper prefixes, and the destination itself a directory or absent. -/
structure DestPlain (fs : Fs) (D : Path) : Prop where
  good : ∀ c ∈ D, goodName c = true
  dirs : ∀ pre, pre <+: D → pre ≠ D → fs.isDir pre = true
  self : NoneOrDir (fs.node D)

theorem DestPlain.res {fs : Fs} {D : Path} (hP : DestPlain fs D) (follow : Bool) :
    ∀ p, fs.resolve follow D = .ok p → p = D := by
  intro p h
  unfold Fs.resolve at h
  have := walk_clean fs follow resolveFuel maxSymlinks [] D [] hP.good (fun _ hc => nomatch hc)
    (fun pre hp _ hne => by rw [List.nil_append]; exact (noneOrDir_of_isDir (hP.dirs pre hp hne)).notLink)
    (Or.inr (by rw [List.nil_append]; exact FinalNotLink.of_noneOrDir hP.self)) p (by simpa using h)
  simpa using this

theorem DestPlain.res_ok {fs : Fs} {D : Path} (hP : DestPlain fs D) (hlen : D.length < resolveFuel)
    (follow : Bool) : fs.resolve follow D = .ok D := by
  unfold Fs.resolve
  have := walk_clean_ok fs follow resolveFuel maxSymlinks [] D hlen hP.good
    (fun hne => hP.dirs [] List.nil_prefix (fun e => hne e.symm))
    (fun pre hp _ hne => by rw [List.nil_append]; exact hP.dirs pre hp hne)
    (Or.inr (by rw [List.nil_append]; exact FinalNotLink.of_noneOrDir hP.self))
  simpa using this

theorem Local.destPlain {fs fs' : Fs} {D : Path} (h : Local .dir fs fs' D) (hP : DestPlain fs D) :
    DestPlain fs' D := by
  refine ⟨hP.good, fun pre hp hne => ?_, fun x' hx' => ?_⟩
  · obtain ⟨x, hx, hk⟩ := Fs.isDir_iff.1 (hP.dirs pre hp hne)
    obtain ⟨x', hx', hk'⟩ := h.kept pre x hx
    exact Fs.isDir_iff.2 ⟨x', hx', hk'.trans hk⟩
  · cases hn : fs.node D with
    | none => exact h.created x' hn hx'
    | some x =>
      obtain ⟨y, hy, hky⟩ := h.self x hn
      rw [hx'] at hy; cases hy
      rw [hky]; exact hP.self x hn

theorem ensureDir_local {fs : Fs} {D : Path} (hP : DestPlain fs D) :
    Local .dir fs (fs.ensureDir D).1 D := by
  have L := Fs.mkdir_local (hP.res false)
  unfold Fs.ensureDir
  split
  · exact Local.refl _ _ _
  · exact L

theorem Fs.readDirEmpty_ok {fs : Fs} {D : Path} (hP : DestPlain fs D) {b : Bool}
    (h : fs.readDirEmpty D = .ok b) : fs.isDir D = true ∧ b = !fs.hasChild D := by
  unfold Fs.readDirEmpty at h
  cases hr : fs.resolve true D with
  | error e => rw [hr] at h; cases h
  | ok p =>
    have hp := hP.res true p hr
    subst hp
    rw [hr] at h
    dsimp only at h
    cases hn : fs.node p with
    | none => rw [hn] at h; cases h
    | some x =>
      rw [hn] at h
      dsimp only at h
      by_cases hk : x.kind = .dir
      · rw [if_pos hk] at h
        cases h
        exact ⟨Fs.isDir_iff.2 ⟨x, hn, hk⟩, rfl⟩
      · rw [if_neg hk] at h; cases h

theorem length_dropLast_lt {D : Path} (h : D ≠ []) : D.dropLast.length < D.length := by
  rw [List.length_dropLast]
  have := List.length_pos_iff.2 h
  omega

theorem ne_dest_append {D cs q : Path} (h : q.length ≤ D.length) (hcs : cs ≠ []) : D ++ cs ≠ q := by
  intro e
  have := congrArg List.length e
  have := List.length_pos_iff.2 hcs
  simp at *
  omega

/-- After a successful `ensure_dir_exists` and an emptiness test that said "empty", the loop
invariant holds initially, and the destination is the only thing at or below its path. -/
theorem inv_initial' {fs fs0 : Fs} {D : Path} (hwf : fs.wf = true) (hP : DestPlain fs D)
    (L : Local .dir fs fs0 D) (hempty : fs0.readDirEmpty D = .ok true) :
    Inv D (fun _ => False) fs0 ∧ ∀ cs, cs ≠ [] → fs0.node (D ++ cs) = none := by
  have hP0 := L.destPlain hP
  obtain ⟨hdir, hb⟩ := Fs.readDirEmpty_ok hP0 hempty
  have hnc : fs0.hasChild D = false := by
    cases h : fs0.hasChild D with
    | false => rfl
    | true => rw [h] at hb; cases hb
  have hframe : ∀ cs, cs ≠ [] → fs0.node (D ++ cs) = fs.node (D ++ cs) := fun cs hcs =>
    L.frame _ (ne_dest_append (Nat.le_refl _) hcs)
      (ne_dest_append (by rw [List.length_dropLast]; omega) hcs)
  have hch : ∀ c, fs.node (D ++ [c]) = none := by
    intro c
    rw [← hframe [c] (by simp)]
    cases hx : fs0.node (D ++ [c]) with
    | none => rfl
    | some x =>
      have := Fs.hasChild_of_node hx (by simp)
      rw [List.dropLast_concat, hnc] at this
      cases this
  have honly : ∀ cs, cs ≠ [] → fs0.node (D ++ cs) = none := fun cs hcs => by
    rw [hframe cs hcs, no_descendants hwf hch cs.length cs rfl hcs]
  refine ⟨⟨⟨hP0.good, fun pre hp => ?_⟩, fun cs x hx => ?_⟩, honly⟩
  · by_cases he : pre = D
    · rw [he]; exact hdir
    · exact hP0.dirs pre hp he
  · by_cases hcs : cs = []
    · subst hcs
      rw [List.append_nil] at hx
      obtain ⟨y, hy, hk⟩ := Fs.isDir_iff.1 hdir
      rw [hx] at hy; cases hy
      exact Or.inl hk
    · rw [honly cs hcs] at hx
      cases hx

theorem inv_initial {fs fs0 : Fs} {D : Path} (hwf : fs.wf = true) (hP : DestPlain fs D)
    (L : Local .dir fs fs0 D) (hempty : fs0.readDirEmpty D = .ok true) :
    Inv D (fun _ => False) fs0 := (inv_initial' hwf hP L hempty).1

theorem Local.outside_dest {fs fs0 : Fs} {D : Path} (L : Local .dir fs fs0 D) :
    ∀ q, ¬ D <+: q → (q ≠ D.dropLast ∨ fs.node D ≠ none) → fs0.node q = fs.node q := by
  intro q hq hor
  have hqD : q ≠ D := fun e => hq (e ▸ List.prefix_refl _)
  by_cases hd : q = D.dropLast
  · rcases hor with h | h
    · exact absurd hd h
    · subst hd
      exact (L.parent (fun e => hqD e)).2 h
  · exact L.frame q hqD hd

/-- **Confinement**, for any listing restore can replay safely and without the overwrite
option: nothing outside the destination changes, except that creating an absent destination
stamps the mtime of its parent directory. -/
theorem restoreToFs_outside {uidOf gidOf : Str → Option Nat} {old : Bool} {fs : Fs} {D : Path}
    {nodes : List RNode} (hC : Confinable nodes) (hwf : fs.wf = true) (hP : DestPlain fs D) :
    ∀ q, ¬ D <+: q → (q ≠ D.dropLast ∨ fs.node D ≠ none) →
      (restoreToFs fs D false nodes uidOf gidOf old).1.node q = fs.node q := by
  intro q hq hor
  have L := ensureDir_local hP
  have hL := L.outside_dest q hq hor
  unfold restoreToFs
  rcases he : fs.ensureDir D with ⟨fs0, r⟩
  rw [he] at L hL
  cases r with
  | error e => exact hL
  | ok u =>
    dsimp only
    cases hr : fs0.readDirEmpty D with
    | error e => exact hL
    | ok empty =>
      dsimp only
      cases empty with
      | false => simpa using hL
      | true =>
        simp only [Bool.not_false, Bool.not_true, Bool.and_false, Bool.false_eq_true, if_false]
        have hI := inv_initial hwf hP L hr
        exact (restoreBody_outside hC hI q hq).trans hL

/-- The parent of the destination keeps everything but (possibly) its mtime. -/
theorem restoreToFs_parent {uidOf gidOf : Str → Option Nat} {old : Bool} {fs : Fs} {D : Path}
    {nodes : List RNode} (hC : Confinable nodes) (hwf : fs.wf = true) (hP : DestPlain fs D)
    (hD : D ≠ []) :
    EqMod (fs.node D.dropLast) ((restoreToFs fs D false nodes uidOf gidOf old).1.node D.dropLast) := by
  have hne : D.dropLast ≠ D := fun e => by
    have := length_dropLast_lt hD
    rw [e] at this; omega
  have hnp : ¬ D <+: D.dropLast := fun h => by
    have := h.length_le
    have := length_dropLast_lt hD
    omega
  have L := ensureDir_local hP
  have hL := (L.parent hne).1
  unfold restoreToFs
  rcases he : fs.ensureDir D with ⟨fs0, r⟩
  rw [he] at L hL
  cases r with
  | error e => exact hL
  | ok u =>
    dsimp only
    cases hr : fs0.readDirEmpty D with
    | error e => exact hL
    | ok empty =>
      dsimp only
      cases empty with
      | false => simpa using hL
      | true =>
        simp only [Bool.not_false, Bool.not_true, Bool.and_false, Bool.false_eq_true, if_false]
        have hI := inv_initial hwf hP L hr
        rw [restoreBody_outside hC hI _ hnp]
        exact hL

/-- **Refusal**: an existing non-empty destination, no overwrite option: the error is
`DestinationNotEmpty` and the file system is untouched. -/
theorem restoreToFs_refuses {uidOf gidOf : Str → Option Nat} {old : Bool} {fs : Fs} {D : Path}
    {nodes : List RNode} (hP : DestPlain fs D) (hlen : D.length < resolveFuel)
    (hdir : fs.isDir D = true) (hne : fs.hasChild D = true) :
    restoreToFs fs D false nodes uidOf gidOf old = (fs, [], some .destinationNotEmpty) := by
  obtain ⟨x, hx, hk⟩ := Fs.isDir_iff.1 hdir
  have hmk : fs.ensureDir D = (fs, .ok ()) := by
    unfold Fs.ensureDir Fs.mkdir
    rw [hP.res_ok hlen false]
    simp [hx]
  have hrd : fs.readDirEmpty D = .ok false := by
    unfold Fs.readDirEmpty
    rw [hP.res_ok hlen true]
    simp [hx, hk, hne]
  unfold restoreToFs
  rw [hmk]
  dsimp only
  rw [hrd]
  simp

end Conserve
