import ConserveModel.Proofs.FaultSim
import ConserveModel.Proofs.BackupLoop
/-
"Strictness" of the writer half of `backup()`: in a world with injected faults (no crash point),
if a piece of the writer returns WITHOUT an error value — and the main loop without having counted
an error — then none of its operations hit a fault.  Two judgements:

* `Post Q p` (syntactic, all worlds): every value `p` can return satisfies `Q`;
* `Strict p G` (live worlds): if `p` returns a value satisfying `G`, the run was `Unfaulted`.

Together with `Fault.sim` this reduces "success reported in a faulty world" to the fault-free run.
No property statements here.
-/
namespace Conserve.Fault
open Conserve Conserve.Inv Prog

/-! ### `Post`: what a program can return, on every branch -/

/-- On every branch (every sequence of responses) the program ends in `ret a` with `Q a`, in `fail`,
or in `panic`. -/
inductive Post {α : Type} (Q : α → Prop) : Prog α → Prop
  | ret {a : α} : Q a → Post Q (.ret a)
  | fail (e : Err) : Post Q (.fail e)
  | panic (s : String) : Post Q (.panic s)
  | emit (ev : Event) {k : Prog α} : Post Q k → Post Q (.emit ev k)
  | op (o : Op) {k : Resp → Prog α} : (∀ r, Post Q (k r)) → Post Q (.op o k)

namespace Post
variable {α β : Type}

theorem mono {Q Q' : α → Prop} {p : Prog α} (hp : Post Q p) (h : ∀ a, Q a → Q' a) : Post Q' p := by
  induction hp with
  | ret ha => exact .ret (h _ ha)
  | fail e => exact .fail e
  | panic s => exact .panic s
  | emit ev _ ih => exact .emit ev ih
  | op o _ ih => exact .op o ih

theorem bind {Q1 : α → Prop} {Q : β → Prop} {p : Prog α} {f : α → Prog β}
    (hp : Post Q1 p) (hf : ∀ a, Q1 a → Post Q (f a)) : Post Q (p.bind f) := by
  induction hp with
  | ret ha => exact hf _ ha
  | fail e => exact .fail e
  | panic s => exact .panic s
  | emit ev _ ih => exact .emit ev ih
  | op o _ ih => exact .op o ih

theorem run {Q : α → Prop} {p : Prog α} (hp : Post Q p) {w : World} {a : α} (h : (p.run w).1 = .ok a) : Q a := by
  induction hp generalizing w with
  | ret ha => simp only [Prog.run_ret, Outcome.ok.injEq] at h; exact h ▸ ha
  | fail e => cases h
  | panic s => cases h
  | emit ev _ ih => exact ih h
  | op o _ ih => exact ih _ h

theorem perform (o : Op) : Post (fun _ => True) (perform o) := .op o fun _ => .ret trivial
theorem logError (e : Err) : Post (fun _ => True) (logError e) := .emit _ (.ret trivial)
theorem report (ev : Event) : Post (fun _ => True) (report ev) := .emit _ (.ret trivial)

end Post

/-! ### `Strict` -/

/-- In every live world: if `p` returns a value satisfying `G`, no operation of the run hit a fault. -/
def Strict {α : Type} (p : Prog α) (G : α → Prop) : Prop :=
  ∀ w, Live w → ∀ a, (p.run w).1 = .ok a → G a → Unfaulted p w

namespace Strict
variable {α β : Type}

theorem ret (a : α) (G : α → Prop) : Strict (.ret a) G := fun _ _ _ _ _ => trivial
theorem fail (e : Err) (G : α → Prop) : Strict (.fail e : Prog α) G := fun _ _ _ _ _ => trivial
theorem panic (s : String) (G : α → Prop) : Strict (.panic s : Prog α) G := fun _ _ _ _ _ => trivial

theorem emit {ev : Event} {k : Prog α} {G : α → Prop} (h : Strict k G) : Strict (.emit ev k) G :=
  fun w hl a ha hG => h _ (hl.events _) a ha hG

theorem mono {p : Prog α} {G G' : α → Prop} (h : Strict p G) (hi : ∀ a, G' a → G a) : Strict p G' :=
  fun w hl a ha hG => h w hl a ha (hi a hG)

/-- An operation whose error response can only lead to a value that is not `G`. -/
theorem op {o : Op} {k : Resp → Prog α} {G : α → Prop}
    (herr : ∀ e, Post (fun b => ¬ G b) (k (.err e))) (hk : ∀ r, Strict (k r) G) : Strict (.op o k) G := by
  intro w hl b hb hG
  simp only [Prog.run_op] at hb
  cases hf : w.faultFor o with
  | some e =>
    rw [exec_fault hl hf] at hb
    exact absurd hG ((herr e).run hb)
  | none => exact ⟨hf, hk _ _ (hl.exec o) b hb hG⟩

/-- Sequencing: `G` of the final value must imply `G1` of the intermediate one. -/
theorem bind {p : Prog α} {f : α → Prog β} {G1 : α → Prop} {G : β → Prop}
    (hp : Strict p G1) (hf : ∀ a, Strict (f a) G)
    (hback : ∀ a, ¬ G1 a → Post (fun b => ¬ G b) (f a)) : Strict (p.bind f) G := by
  intro w hl b hb hG
  obtain ⟨a, ha, hfb⟩ := Prog.run_bind_ok_inv hb
  have hG1 : G1 a := Classical.byContradiction fun hn => (hback a hn).run hfb hG
  refine unfaulted_bind.mpr ⟨hp w hl a ha hG1, fun a' ha' => ?_⟩
  have : a' = a := by rw [ha] at ha'; cases ha'; rfl
  subst this
  exact hf a' _ (hl.run p) b hfb hG

/-- Sequencing, knowing what the first part can return. -/
theorem bind_post {p : Prog α} {f : α → Prog β} {Q1 G1 : α → Prop} {G : β → Prop}
    (hq : Post Q1 p) (hp : Strict p G1) (hf : ∀ a, Q1 a → Strict (f a) G)
    (hback : ∀ a, Q1 a → ¬ G1 a → Post (fun b => ¬ G b) (f a)) : Strict (p.bind f) G := by
  intro w hl b hb hG
  obtain ⟨a, ha, hfb⟩ := Prog.run_bind_ok_inv hb
  have hQ : Q1 a := hq.run ha
  have hG1 : G1 a := Classical.byContradiction fun hn => (hback a hQ hn).run hfb hG
  refine unfaulted_bind.mpr ⟨hp w hl a ha hG1, fun a' ha' => ?_⟩
  have : a' = a := by rw [ha] at ha'; cases ha'; rfl
  subst this
  exact hf a' hQ _ (hl.run p) b hfb hG

/-- A program that cannot return a `G` value is vacuously strict. -/
theorem of_post_not {p : Prog α} {G : α → Prop} (h : Post (fun b => ¬ G b) p) : Strict p G :=
  fun _ _ _ ha hG => absurd hG (h.run ha)

/-- Sequencing when every intermediate value is fine. -/
theorem bind' {p : Prog α} {f : α → Prog β} {G : β → Prop}
    (hp : Strict p (fun _ => True)) (hf : ∀ a, Strict (f a) G) : Strict (p.bind f) G :=
  hp.bind hf fun _ hn => (hn trivial).elim

end Strict

/-! ### The block store and the combiner -/

section
variable {H : Str → Str}

/-- The value is not an error value. -/
def IsOk {ε α : Type} (r : Except ε α) : Prop := ∃ a, r = .ok a

theorem not_isOk_error {ε α : Type} (e : ε) : ¬ IsOk (.error e : Except ε α) := fun ⟨_, h⟩ => nomatch h
theorem isOk_ok {ε α : Type} (a : α) : IsOk (.ok a : Except ε α) := ⟨a, rfl⟩

theorem storeOrDedup_post (wr : Writer) (d : Str) :
    Post (fun x => x.1.stats.errors = wr.stats.errors) (storeOrDedup H wr d) := by
  unfold storeOrDedup
  simp only [Prog.bind_def, Prog.pure_def, perform, Prog.op_bind, Prog.ret_bind]
  split
  · exact .ret rfl
  · refine .op _ fun r => ?_
    split
    · exact .ret rfl
    · refine .op _ fun r2 => ?_
      split <;> exact .ret rfl

theorem storeOrDedup_strict (wr : Writer) (d : Str) : Strict (storeOrDedup H wr d) (fun x => IsOk x.2) := by
  unfold storeOrDedup
  simp only [Prog.bind_def, Prog.pure_def, perform, Prog.op_bind, Prog.ret_bind]
  split
  · exact Strict.ret _ _
  · refine Strict.op (fun e => .ret (not_isOk_error _)) fun r => ?_
    split
    · exact Strict.ret _ _
    · refine Strict.op (fun e => .ret (not_isOk_error _)) fun r2 => ?_
      split <;> exact Strict.ret _ _

theorem combinerFlush_post (wr : Writer) :
    Post (fun x => x.1.stats.errors = wr.stats.errors) (combinerFlush H wr) := by
  unfold combinerFlush
  simp only [Prog.bind_def, Prog.pure_def]
  split
  · exact .ret rfl
  · refine Post.bind (storeOrDedup_post _ _) fun x hx => ?_
    obtain ⟨w1, r⟩ := x
    cases r with
    | error e => exact .ret hx
    | ok h => exact .ret hx

theorem combinerFlush_strict (wr : Writer) : Strict (combinerFlush H wr) (fun x => IsOk x.2) := by
  unfold combinerFlush
  simp only [Prog.bind_def, Prog.pure_def]
  split
  · exact Strict.ret _ _
  · refine Strict.bind (storeOrDedup_strict _ _) (fun x => ?_) (fun x hx => ?_)
    · obtain ⟨w1, r⟩ := x
      cases r <;> exact Strict.ret _ _
    · obtain ⟨w1, r⟩ := x
      cases r with
      | error e => exact .ret (not_isOk_error _)
      | ok h => exact absurd (isOk_ok h) hx

theorem combinerPush_post (o : BackupOpts) (wr : Writer) (sf : SrcEntry) :
    Post (fun x => x.1.stats.errors = wr.stats.errors) (combinerPush H o wr sf) := by
  unfold combinerPush
  simp only [metadataFrom_eq, Prog.pure_def]
  split
  · exact .ret rfl
  · split
    · exact (combinerFlush_post _).mono fun x hx => hx
    · exact .ret rfl

theorem combinerPush_strict (o : BackupOpts) (wr : Writer) (sf : SrcEntry) :
    Strict (combinerPush H o wr sf) (fun x => IsOk x.2) := by
  unfold combinerPush
  simp only [metadataFrom_eq, Prog.pure_def]
  split
  · exact Strict.ret _ _
  · split
    · exact combinerFlush_strict _
    · exact Strict.ret _ _

theorem storeChunks_post (cs : List Str) : ∀ (wr : Writer) (acc : List Addr),
    Post (fun x => x.1.stats.errors = wr.stats.errors) (storeChunks H wr cs acc) := by
  induction cs with
  | nil => intro wr acc; unfold storeChunks; exact .ret rfl
  | cons c cs ih =>
    intro wr acc
    unfold storeChunks
    simp only [Prog.bind_def, Prog.pure_def]
    refine Post.bind (storeOrDedup_post _ _) fun x hx => ?_
    obtain ⟨w1, r⟩ := x
    cases r with
    | error e => exact .ret hx
    | ok h => exact (ih w1 _).mono fun y hy => hy.trans hx

theorem storeChunks_strict (cs : List Str) : ∀ (wr : Writer) (acc : List Addr),
    Strict (storeChunks H wr cs acc) (fun x => IsOk x.2) := by
  induction cs with
  | nil => intro wr acc; unfold storeChunks; exact Strict.ret _ _
  | cons c cs ih =>
    intro wr acc
    unfold storeChunks
    simp only [Prog.bind_def, Prog.pure_def]
    refine Strict.bind (storeOrDedup_strict _ _) (fun x => ?_) (fun x hx => ?_)
    · obtain ⟨w1, r⟩ := x
      cases r with
      | error e => exact Strict.ret _ _
      | ok h => exact ih _ _
    · obtain ⟨w1, r⟩ := x
      cases r with
      | error e => exact .ret (not_isOk_error _)
      | ok h => exact absurd (isOk_ok h) hx

theorem storeFileContent_post (o : BackupOpts) (wr : Writer) (sf : SrcEntry) :
    Post (fun x => x.1.stats.errors = wr.stats.errors) (storeFileContent H o wr sf) := by
  unfold storeFileContent
  simp only [Prog.bind_def, Prog.pure_def]
  refine Post.bind (storeChunks_post _ _ _) fun x hx => ?_
  obtain ⟨w1, r⟩ := x
  cases r with
  | error e => exact .ret hx
  | ok as =>
    refine .ret ?_
    simp only at hx ⊢
    split <;> exact hx

theorem storeFileContent_strict (o : BackupOpts) (wr : Writer) (sf : SrcEntry) :
    Strict (storeFileContent H o wr sf) (fun x => IsOk x.2) := by
  unfold storeFileContent
  simp only [Prog.bind_def, Prog.pure_def]
  refine Strict.bind (storeChunks_strict _ _ _) (fun x => ?_) (fun x hx => ?_)
  · obtain ⟨w1, r⟩ := x
    cases r <;> exact Strict.ret _ _
  · obtain ⟨w1, r⟩ := x
    cases r with
    | error e => exact .ret (not_isOk_error _)
    | ok h => exact absurd (isOk_ok h) hx

/-! ### One entry -/

theorem copyFileStore_post (o : BackupOpts) (wr : Writer) (ck : ChangeKind) (sf : SrcEntry) :
    Post (fun x => x.1.stats.errors = wr.stats.errors) (copyFileStore H o wr ck sf) := by
  unfold copyFileStore
  simp only [metadataFrom_eq, Prog.pure_def, Prog.bind_def]
  split
  · exact .ret rfl
  · split
    · refine Post.bind (combinerPush_post _ _ _) fun x hx => ?_
      obtain ⟨w1, r⟩ := x
      cases r <;> exact .ret hx
    · refine Post.bind (storeFileContent_post _ _ _) fun x hx => ?_
      obtain ⟨w1, r⟩ := x
      cases r <;> exact .ret hx

theorem copyFileStore_strict (o : BackupOpts) (wr : Writer) (ck : ChangeKind) (sf : SrcEntry) :
    Strict (copyFileStore H o wr ck sf) (fun x => IsOk x.2) := by
  unfold copyFileStore
  simp only [metadataFrom_eq, Prog.pure_def, Prog.bind_def]
  split
  · exact Strict.ret _ _
  · split
    · refine Strict.bind (combinerPush_strict _ _ _) (fun x => ?_) (fun x hx => ?_)
      · obtain ⟨w1, r⟩ := x
        cases r <;> exact Strict.ret _ _
      · obtain ⟨w1, r⟩ := x
        cases r with
        | error e => exact .ret (not_isOk_error _)
        | ok h => exact absurd (isOk_ok h) hx
    · refine Strict.bind (storeFileContent_strict _ _ _) (fun x => ?_) (fun x hx => ?_)
      · obtain ⟨w1, r⟩ := x
        cases r <;> exact Strict.ret _ _
      · obtain ⟨w1, r⟩ := x
        cases r with
        | error e => exact .ret (not_isOk_error _)
        | ok h => exact absurd (isOk_ok h) hx

theorem copyFile_post (o : BackupOpts) (wr : Writer) (basis : Option IndexEntry) (sf : SrcEntry) :
    Post (fun x => x.1.stats.errors = wr.stats.errors) (copyFile H o wr basis sf) := by
  cases basis with
  | none => rw [copyFile_none]; exact (copyFileStore_post _ _ _ _).mono fun x hx => hx
  | some b =>
    cases hh : heuristicallyUnchanged sf b with
    | none => rw [copyFile_panic o wr b sf hh]; exact .panic _
    | some t =>
      cases t with
      | false => rw [copyFile_changed o wr b sf hh]; exact (copyFileStore_post _ _ _ _).mono fun x hx => hx
      | true =>
        cases hall : b.addrs.all (fun a => wr.exists_.contains a.hash) with
        | false => rw [copyFile_damaged o wr b sf hh hall]; exact (copyFileStore_post _ _ _ _).mono fun x hx => hx
        | true =>
          unfold copyFile
          simp only [hh, hall, metadataFrom_eq]
          exact .ret rfl

theorem copyFile_strict (o : BackupOpts) (wr : Writer) (basis : Option IndexEntry) (sf : SrcEntry) :
    Strict (copyFile H o wr basis sf) (fun x => IsOk x.2) := by
  cases basis with
  | none => rw [copyFile_none]; exact copyFileStore_strict _ _ _ _
  | some b =>
    cases hh : heuristicallyUnchanged sf b with
    | none => rw [copyFile_panic o wr b sf hh]; exact Strict.panic _ _
    | some t =>
      cases t with
      | false => rw [copyFile_changed o wr b sf hh]; exact copyFileStore_strict _ _ _ _
      | true =>
        cases hall : b.addrs.all (fun a => wr.exists_.contains a.hash) with
        | false => rw [copyFile_damaged o wr b sf hh hall]; exact copyFileStore_strict _ _ _ _
        | true =>
          obtain ⟨st', ck, heq⟩ := copyFile_unchanged (H := H) o wr b sf hh hall
          rw [heq]; exact Strict.ret _ _

theorem copyEntry_post (o : BackupOpts) (wr : Writer) (basis : Option IndexEntry) (sf : SrcEntry) :
    Post (fun x => x.1.stats.errors = wr.stats.errors) (copyEntry H o wr basis sf) := by
  unfold copyEntry
  simp only [metadataFrom_eq, Prog.pure_def]
  cases sf.kind with
  | file => exact copyFile_post _ _ _ _
  | dir => exact .ret rfl
  | symlink => exact .ret rfl
  | unknown => exact .ret rfl

theorem copyEntry_strict (o : BackupOpts) (wr : Writer) (basis : Option IndexEntry) (sf : SrcEntry) :
    Strict (copyEntry H o wr basis sf) (fun x => IsOk x.2) := by
  unfold copyEntry
  simp only [metadataFrom_eq, Prog.pure_def]
  cases sf.kind with
  | file => exact copyFile_strict _ _ _ _
  | dir => exact Strict.ret _ _
  | symlink => exact Strict.ret _ _
  | unknown => exact Strict.ret _ _

/-! ### Hunks -/

theorem performUnit_strict (op : Op) : Strict (performUnit op) (fun _ => True) := by
  unfold performUnit
  simp only [Prog.bind_def, Prog.pure_def, perform, Prog.op_bind, Prog.ret_bind]
  refine Strict.op (fun e => .fail _) fun r => ?_
  split
  · exact Strict.ret _ _
  · exact Strict.fail _ _
  · exact Strict.fail _ _

theorem finishHunk_post (wr : Writer) : Post (fun x => x.stats.errors = wr.stats.errors) (finishHunk wr) := by
  unfold finishHunk
  simp only [Prog.bind_def, Prog.pure_def]
  split
  · exact .ret rfl
  · split
    · exact Post.bind (Q1 := fun _ => True) ((Post.perform _).bind fun _ _ => by split <;> first | exact .ret trivial | exact .fail _)
        fun _ _ => Post.bind (Q1 := fun _ => True)
          ((Post.perform _).bind fun _ _ => by split <;> first | exact .ret trivial | exact .fail _) fun _ _ => .ret rfl
    · exact Post.bind (Q1 := fun _ => True)
          ((Post.perform _).bind fun _ _ => by split <;> first | exact .ret trivial | exact .fail _) fun _ _ => .ret rfl

theorem finishHunk_strict (wr : Writer) : Strict (finishHunk wr) (fun _ => True) := by
  unfold finishHunk
  simp only [Prog.bind_def, Prog.pure_def]
  split
  · exact Strict.ret _ _
  · split
    · exact Strict.bind' (performUnit_strict _) fun _ => Strict.bind' (performUnit_strict _) fun _ => Strict.ret _ _
    · exact Strict.bind' (performUnit_strict _) fun _ => Strict.ret _ _

theorem flushGroup_post (wr : Writer) : Post (fun x => x.stats.errors = wr.stats.errors) (flushGroup H wr) := by
  unfold flushGroup
  simp only [Prog.bind_def, Prog.pure_def]
  refine Post.bind (combinerFlush_post _) fun x hx => ?_
  obtain ⟨w1, r⟩ := x
  cases r with
  | error e => exact .fail _
  | ok u => exact (finishHunk_post _).mono fun y hy => hy.trans hx

theorem flushGroup_strict (wr : Writer) : Strict (flushGroup H wr) (fun _ => True) := by
  unfold flushGroup
  simp only [Prog.bind_def, Prog.pure_def]
  refine Strict.bind (combinerFlush_strict _) (fun x => ?_) (fun x hx => ?_)
  · obtain ⟨w1, r⟩ := x
    cases r with
    | error e => exact Strict.fail _ _
    | ok u => exact finishHunk_strict _
  · obtain ⟨w1, r⟩ := x
    cases r with
    | error e => exact .fail _
    | ok h => exact absurd (isOk_ok h) hx

/-! ### The main loop -/

theorem loopCont_post (o : BackupOpts) (sf : SrcEntry) (rest : List Matched)
    (ih : ∀ wr, Post (fun y => wr.stats.errors ≤ y.stats.errors) (backupLoop H o wr rest))
    (x : Writer × Except Err (Option ChangeKind)) :
    Post (fun y => x.1.stats.errors ≤ y.stats.errors ∧ (¬ IsOk x.2 → x.1.stats.errors < y.stats.errors))
      (loopCont H o sf rest x) := by
  obtain ⟨w1, r⟩ := x
  cases r with
  | error e =>
    simp only [loopCont, logError, Prog.emit_bind, Prog.ret_bind]
    refine .emit _ ((ih _).mono fun y hy => ?_)
    simp only at hy ⊢
    exact ⟨by omega, fun _ => by omega⟩
  | ok ch =>
    simp only [loopCont]
    refine Post.bind (Q1 := fun _ => True) ?_ fun _ _ => ?_
    · cases ch with
      | none => exact .ret trivial
      | some ck => exact Post.report _
    · refine Post.bind (Q1 := fun w2 => w2.stats.errors = w1.stats.errors) ?_ fun w2 h2 => ?_
      · split
        · exact flushGroup_post _
        · exact .ret rfl
      · exact (ih w2).mono fun y hy => ⟨h2 ▸ hy, fun hn => absurd (isOk_ok _) hn⟩

/-- The error count never decreases along the main loop. -/
theorem backupLoop_post (o : BackupOpts) (ms : List Matched) :
    ∀ wr, Post (fun y => wr.stats.errors ≤ y.stats.errors) (backupLoop H o wr ms) := by
  induction ms with
  | nil => intro wr; rw [backupLoop]; exact .ret (Nat.le_refl _)
  | cons m rest ih =>
    intro wr
    cases m with
    | left b =>
      rw [backupLoop_left]
      simp only [report, Prog.emit_bind, Prog.ret_bind]
      exact .emit _ (ih wr)
    | right sf =>
      rw [backupLoop_right]
      refine Post.bind (copyEntry_post o wr none sf) fun x hx => ?_
      exact (loopCont_post o sf rest ih x).mono fun y hy => hx ▸ hy.1
    | both b sf =>
      rw [backupLoop_both]
      refine Post.bind (copyEntry_post o wr (some b) sf) fun x hx => ?_
      exact (loopCont_post o sf rest ih x).mono fun y hy => hx ▸ hy.1

theorem loopCont_strict (o : BackupOpts) (sf : SrcEntry) (rest : List Matched)
    (ih : ∀ wr, Strict (backupLoop H o wr rest) (fun y => y.stats.errors = wr.stats.errors))
    (x : Writer × Except Err (Option ChangeKind)) :
    Strict (loopCont H o sf rest x) (fun y => y.stats.errors = x.1.stats.errors) := by
  obtain ⟨w1, r⟩ := x
  cases r with
  | error e =>
    refine Strict.of_post_not ((loopCont_post o sf rest (backupLoop_post o rest) (w1, .error e)).mono fun y hy => ?_)
    have := hy.2 (not_isOk_error _)
    simp only at this ⊢
    omega
  | ok ch =>
    simp only [loopCont]
    have h1 : Strict (match ch with
        | some ck => report (Event.change sf.apath ck)
        | none => Prog.ret ()) (fun _ => True) := by
      cases ch with
      | none => exact Strict.ret _ _
      | some ck => exact Strict.emit (Strict.ret _ _)
    refine Strict.bind' h1 fun _ => ?_
    refine Strict.bind_post (Q1 := fun w2 => w2.stats.errors = w1.stats.errors) (G1 := fun _ => True) ?_ ?_
      (fun w2 h2 => (ih w2).mono fun y hy => hy.trans h2.symm) (fun _ _ hn => (hn trivial).elim)
    · split
      · exact flushGroup_post _
      · exact .ret rfl
    · split
      · exact flushGroup_strict _
      · exact Strict.ret _ _

/-- **The main loop is strict**: if it returns without having counted an error, none of its
operations hit a fault. -/
theorem backupLoop_strict (o : BackupOpts) (ms : List Matched) :
    ∀ wr, Strict (backupLoop H o wr ms) (fun y => y.stats.errors = wr.stats.errors) := by
  induction ms with
  | nil => intro wr; rw [backupLoop]; exact Strict.ret _ _
  | cons m rest ih =>
    intro wr
    have hstep : ∀ basis sf, Strict ((copyEntry H o wr basis sf).bind (loopCont H o sf rest))
        (fun y => y.stats.errors = wr.stats.errors) := by
      intro basis sf
      refine Strict.bind_post (copyEntry_post o wr basis sf) (copyEntry_strict o wr basis sf)
        (fun x hx => (loopCont_strict o sf rest ih x).mono fun y hy => hy.trans hx.symm) (fun x hx hn => ?_)
      refine (loopCont_post o sf rest (backupLoop_post o rest) x).mono fun y hy => ?_
      have := hy.2 hn
      omega
    cases m with
    | left b =>
      rw [backupLoop_left]
      simp only [report, Prog.emit_bind, Prog.ret_bind]
      exact Strict.emit (ih wr)
    | right sf => rw [backupLoop_right]; exact hstep none sf
    | both b sf => rw [backupLoop_both]; exact hstep (some b) sf

/-! ### The main part of `backup()` -/

/-- **`backupMain` is strict**: success with `errors = 0` ⇒ no operation hit a fault. -/
theorem backupMain_strict (o : BackupOpts) (src : List SrcEntry) (x : Nat × List Str × List IndexEntry) :
    Strict (backupMain H o src x) (fun st => st.errors = 0) := by
  unfold backupMain
  refine Strict.bind_post (Q1 := fun _ => True) (G1 := fun w1 => w1.stats.errors = 0)
    ((backupLoop_post o _ _).mono fun _ _ => trivial)
    ((backupLoop_strict o _ _).mono fun y hy => hy) (fun w1 _ => ?_) (fun w1 _ hn => ?_)
  · refine Strict.bind' (flushGroup_strict w1) fun w2 => ?_
    refine Strict.bind' (finishHunk_strict w2) fun w3 => ?_
    exact Strict.bind' (performUnit_strict _) fun _ => Strict.ret _ _
  · refine Post.bind (flushGroup_post w1) fun w2 h2 => ?_
    refine Post.bind (finishHunk_post w2) fun w3 h3 => ?_
    refine Post.bind (Q1 := fun _ => True) ?_ fun _ _ => .ret ?_
    · unfold bandClose performUnit
      simp only [Prog.bind_def, Prog.pure_def]
      exact (Post.perform _).bind fun _ _ => by split <;> first | exact .ret trivial | exact .fail _
    · rw [h3, h2]; exact hn

end

end Conserve.Fault
