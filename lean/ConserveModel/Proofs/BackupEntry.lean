import ConserveModel.Proofs.BackupCombiner
import ConserveModel.Props.C01
/-
Recording one source entry: `store_file_content`, `copy_file`, `copy_entry` in all worlds.
No property statements here.
-/
namespace Conserve.Inv
open Conserve Prog

/-- Source well-formedness: for files, `st_size` is the length of what reading returns. -/
def SrcWF (src : List SrcEntry) : Prop :=
  ∀ sf ∈ src, sf.kind = .file → sf.size = sf.content.length

section
variable {H : Str → Str} {src : List SrcEntry} {s0 : Store}

theorem WriterOK.setExists {s s' : Store} {wr : Writer} (h : WriterOK H src s wr) (hx : Extends s s')
    {ex' : List Str} (hex : ExistsOK H s' ex') (st' : Stats) :
    WriterOK H src s' { wr with exists_ := ex', stats := st' } :=
  ⟨hex, h.comb, fun e he => (h.pending e he).mono hx, fun e he => (h.finished e he).mono hx⟩

theorem WriterOK.setStats {s : Store} {wr : Writer} (h : WriterOK H src s wr) (st' : Stats) :
    WriterOK H src s { wr with stats := st' } :=
  ⟨h.exists_, h.comb, h.pending, h.finished⟩

theorem WriterOK.pushPending {s : Store} {wr : Writer} (h : WriterOK H src s wr) {e : IndexEntry}
    (he : EntryOK H src s e) (st' : Stats) :
    WriterOK H src s { wr with pending := wr.pending ++ [e], stats := st' } := by
  refine ⟨h.exists_, h.comb, ?_, h.finished⟩
  intro e' he'
  simp only [List.mem_append, List.mem_singleton] at he'
  rcases he' with he' | rfl
  · exact h.pending e' he'
  · exact he

/-- `store_file_content`'s loop: the addresses collected so far read back to the bytes stored so far. -/
theorem storeChunks_spec (hinj : Function.Injective H) (cs : List Str) (wr : Writer) (acc : List Addr)
    (pre : Str) (w : World) (hw : WOK H src s0 w) (hwr : WriterOK H src w.store wr)
    (hacc : readBack H w.store acc = some pre) :
    ∃ wr' r w', (storeChunks H wr cs acc).run w = (.ok (wr', r), w') ∧
      Frame H src s0 w w' ∧ WriterOK H src w'.store wr' ∧ wr'.pending = wr.pending ∧
      (∀ addrs, r = .ok addrs → readBack H w'.store addrs = some (pre ++ cs.flatten)) := by
  induction cs generalizing wr acc pre w with
  | nil =>
    refine ⟨wr, .ok acc, w, rfl, Frame.refl hw, hwr, rfl, ?_⟩
    intro addrs h; cases h; simpa using hacc
  | cons c cs ih =>
    unfold storeChunks
    obtain ⟨ex', st', r, w1, hrun, hf, hex, hok, _⟩ := storeOrDedup_spec hinj wr c w hw hwr.exists_
    simp only [Prog.bind_def, Prog.pure_def]
    rw [Prog.run_bind, hrun]
    have hwr1 := hwr.setExists hf.ext hex st'
    cases r with
    | error e =>
      exact ⟨_, _, w1, rfl, hf, hwr1, rfl, fun _ h => nomatch h⟩
    | ok h =>
      obtain ⟨rfl, hb⟩ := hok _ rfl
      have hacc1 : readBack H w1.store (acc ++ [{ hash := H c, start := 0, len := c.length }]) =
          some (pre ++ c) := by
        have := readBack_single (start := 0) (len := c.length) hb (by simp)
        simp only [List.drop_zero, List.take_length] at this
        exact readBack_append H (readBack_mono H hacc hf.ext) this
      obtain ⟨wr', r, w', hrun', hf', hwr', hp, hres⟩ := ih _ _ _ w1 hf.wok hwr1 hacc1
      refine ⟨wr', r, w', hrun', hf.trans hf', hwr', hp, ?_⟩
      intro addrs hr
      rw [hres addrs hr]; simp

/-- `store_file_content` in every world: on success the addresses read back to the whole content. -/
theorem storeFileContent_spec (hinj : Function.Injective H) (o : BackupOpts) (hmax : 0 < o.maxBlockSize)
    (wr : Writer) (sf : SrcEntry) (w : World) (hw : WOK H src s0 w) (hwr : WriterOK H src w.store wr) :
    ∃ wr' r w', (storeFileContent H o wr sf).run w = (.ok (wr', r), w') ∧
      Frame H src s0 w w' ∧ WriterOK H src w'.store wr' ∧ wr'.pending = wr.pending ∧
      (∀ addrs, r = .ok addrs → readBack H w'.store addrs = some sf.content) := by
  unfold storeFileContent
  obtain ⟨wr1, r, w1, hrun, hf, hwr1, hp, hres⟩ :=
    storeChunks_spec hinj (chunks o.maxBlockSize sf.content) wr [] [] w hw hwr rfl
  simp only [Prog.bind_def, Prog.pure_def]
  rw [Prog.run_bind, hrun]
  cases r with
  | error e => exact ⟨_, _, w1, rfl, hf, hwr1, hp, fun _ h => nomatch h⟩
  | ok addrs =>
    refine ⟨_, _, w1, rfl, hf, hwr1.setStats _, hp, ?_⟩
    intro addrs' h
    cases h
    simpa [C01.chunks_flatten _ hmax] using hres addrs rfl

/-- The "store it" half of `copy_file` (after the decision not to reuse the basis addresses). -/
def copyFileStore (H : Str → Str) (o : BackupOpts) (w : Writer) (ck : ChangeKind) (s : SrcEntry) :
    Prog (Writer × Except Err (Option ChangeKind)) :=
  if s.size = 0 then
    match metadataFrom o s with
    | none => .panic "metadata_from: mtime_nanos try_into u32 unwrap"
    | some ie =>
      pure ({ w with pending := w.pending ++ [ie],
                     stats := { w.stats with emptyFiles := w.stats.emptyFiles + 1 } }, .ok (some ck))
  else if s.size ≤ o.smallFileCap then do
    let (w, r) ← combinerPush H o w s
    match r with
    | .error e => pure (w, .error e)
    | .ok () => pure (w, .ok (some ck))
  else do
    let (w, r) ← storeFileContent H o w s
    match r with
    | .error e => pure (w, .error e)
    | .ok addrs =>
      match metadataFrom o s with
      | none => .panic "metadata_from: mtime_nanos try_into u32 unwrap"
      | some ie => pure ({ w with pending := w.pending ++ [{ ie with addrs := addrs }] }, .ok (some ck))

theorem copyFileStore_spec (hinj : Function.Injective H) (o : BackupOpts) (hmax : 0 < o.maxBlockSize)
    (hwf : SrcWF src) (wr : Writer) (ck : ChangeKind) (sf : SrcEntry) (w : World)
    (hw : WOK H src s0 w) (hwr : WriterOK H src w.store wr) (hsrc : sf ∈ src) (hkind : sf.kind = .file) :
    ∃ wr' r w', (copyFileStore H o wr ck sf).run w = (.ok (wr', r), w') ∧
      Frame H src s0 w w' ∧ WriterOK H src w'.store wr' := by
  unfold copyFileStore
  simp only [metadataFrom_eq, Prog.pure_def, Prog.bind_def]
  split
  · rename_i hz
    refine ⟨_, _, w, rfl, Frame.refl hw, hwr.pushPending ?_ _⟩
    refine ⟨fun _ => ⟨sf, hsrc, rfl, hkind, ?_⟩, fun hne => absurd hkind hne⟩
    simp [metaOf, readBack, hz]
  · split
    · obtain ⟨wr1, r, w1, hrun, hf, hwr1, _⟩ := combinerPush_spec hinj o wr sf w hw hwr hsrc hkind
      rw [Prog.run_bind, hrun]
      cases r with
      | error e => exact ⟨_, _, w1, rfl, hf, hwr1⟩
      | ok u => exact ⟨_, _, w1, rfl, hf, hwr1⟩
    · obtain ⟨wr1, r, w1, hrun, hf, hwr1, _, hres⟩ := storeFileContent_spec hinj o hmax wr sf w hw hwr
      rw [Prog.run_bind, hrun]
      cases r with
      | error e => exact ⟨_, _, w1, rfl, hf, hwr1⟩
      | ok addrs =>
        refine ⟨_, _, w1, rfl, hf, ?_⟩
        have := hwr1.pushPending (e := { metaOf o sf with addrs := addrs }) ?_ wr1.stats
        · exact this
        · refine ⟨fun _ => ⟨sf, hsrc, rfl, hkind, ?_⟩, fun hne => absurd hkind hne⟩
          rw [hres addrs rfl, hwf sf hsrc hkind, List.take_length]

/-- `copy_file` without a basis entry. -/
theorem copyFile_none (o : BackupOpts) (w : Writer) (s : SrcEntry) :
    copyFile H o w none s =
      copyFileStore H o { w with stats := { w.stats with files := w.stats.files + 1,
                                                          newFiles := w.stats.newFiles + 1 } } .added s := rfl

theorem copyFile_panic (o : BackupOpts) (w : Writer) (b : IndexEntry) (s : SrcEntry)
    (h : heuristicallyUnchanged s b = none) :
    copyFile H o w (some b) s = .panic "IndexEntry::mtime: Timestamp::new expect" := by
  unfold copyFile
  simp only [h]

theorem copyFile_changed (o : BackupOpts) (w : Writer) (b : IndexEntry) (s : SrcEntry)
    (h : heuristicallyUnchanged s b = some false) :
    copyFile H o w (some b) s =
      copyFileStore H o { w with stats := { w.stats with files := w.stats.files + 1,
                                                          modifiedFiles := w.stats.modifiedFiles + 1 } } .changed s := by
  unfold copyFile
  simp only [h]
  rfl

theorem copyFile_damaged (o : BackupOpts) (w : Writer) (b : IndexEntry) (s : SrcEntry)
    (h : heuristicallyUnchanged s b = some true)
    (hall : b.addrs.all (fun a => w.exists_.contains a.hash) = false) :
    copyFile H o w (some b) s =
      copyFileStore H o { w with stats := { w.stats with files := w.stats.files + 1,
                                                          modifiedFiles := w.stats.modifiedFiles + 1,
                                                          replacedDamagedBlocks := w.stats.replacedDamagedBlocks + 1 } } .changed s := by
  unfold copyFile
  simp only [h, hall]
  rfl

theorem copyFile_unchanged (o : BackupOpts) (w : Writer) (b : IndexEntry) (s : SrcEntry)
    (h : heuristicallyUnchanged s b = some true)
    (hall : b.addrs.all (fun a => w.exists_.contains a.hash) = true) :
    ∃ st' ck, copyFile H o w (some b) s =
      .ret ({ w with pending := w.pending ++ [{ metaOf o s with addrs := b.addrs }], stats := st' }, .ok (some ck)) := by
  unfold copyFile
  simp only [h, hall, metadataFrom_eq]
  exact ⟨_, _, rfl⟩

/-- `copy_file` in every world: whatever the outcome (value with or without an error inside, or
the panic of `IndexEntry::mtime()` on an out-of-range stored time) the world keeps its
invariant; when it returns, the writer keeps its invariant.  It never fails with `.err`.
`hbasis` is the assumption the tool itself makes when it reuses the basis addresses. -/
theorem copyFile_spec (hinj : Function.Injective H) (o : BackupOpts) (hmax : 0 < o.maxBlockSize)
    (hwf : SrcWF src) (wr : Writer) (basis : Option IndexEntry) (sf : SrcEntry) (w : World)
    (hw : WOK H src s0 w) (hwr : WriterOK H src w.store wr) (hsrc : sf ∈ src) (hkind : sf.kind = .file)
    (hbasis : ∀ b, basis = some b → heuristicallyUnchanged sf b = some true →
      (∀ a ∈ b.addrs, ∃ c, blockContent H w.store a.hash = some c) →
      readBack H w.store b.addrs = some (sf.content.take sf.size)) :
    (∃ wr' r w', (copyFile H o wr basis sf).run w = (.ok (wr', r), w') ∧
      Frame H src s0 w w' ∧ WriterOK H src w'.store wr') ∨
    (∃ site, (copyFile H o wr basis sf).run w = (.panic site, w)) := by
  cases basis with
  | none =>
    rw [copyFile_none]
    exact Or.inl (copyFileStore_spec hinj o hmax hwf _ _ sf w hw (hwr.setStats _) hsrc hkind)
  | some b =>
    cases hh : heuristicallyUnchanged sf b with
    | none => rw [copyFile_panic o wr b sf hh]; exact Or.inr ⟨_, rfl⟩
    | some t =>
      cases t with
      | false =>
        rw [copyFile_changed o wr b sf hh]
        exact Or.inl (copyFileStore_spec hinj o hmax hwf _ _ sf w hw (hwr.setStats _) hsrc hkind)
      | true =>
        cases hall : b.addrs.all (fun a => wr.exists_.contains a.hash) with
        | false =>
          rw [copyFile_damaged o wr b sf hh hall]
          exact Or.inl (copyFileStore_spec hinj o hmax hwf _ _ sf w hw (hwr.setStats _) hsrc hkind)
        | true =>
          obtain ⟨st', ck, heq⟩ := copyFile_unchanged (H := H) o wr b sf hh hall
          rw [heq]
          refine Or.inl ⟨_, _, w, rfl, Frame.refl hw, hwr.pushPending ?_ st'⟩
          refine ⟨fun _ => ⟨sf, hsrc, rfl, hkind, ?_⟩, fun hne => absurd hkind hne⟩
          apply hbasis b rfl hh
          intro a ha
          have := (List.all_eq_true.mp hall) a ha
          exact hwr.exists_ a.hash (by simpa using this)

/-- `copy_entry` in every world. -/
theorem copyEntry_spec (hinj : Function.Injective H) (o : BackupOpts) (hmax : 0 < o.maxBlockSize)
    (hwf : SrcWF src) (wr : Writer) (basis : Option IndexEntry) (sf : SrcEntry) (w : World)
    (hw : WOK H src s0 w) (hwr : WriterOK H src w.store wr) (hsrc : sf.kind = .file → sf ∈ src)
    (hbasis : ∀ b, basis = some b → sf.kind = .file → heuristicallyUnchanged sf b = some true →
      (∀ a ∈ b.addrs, ∃ c, blockContent H w.store a.hash = some c) →
      readBack H w.store b.addrs = some (sf.content.take sf.size)) :
    (∃ wr' r w', (copyEntry H o wr basis sf).run w = (.ok (wr', r), w') ∧
      Frame H src s0 w w' ∧ WriterOK H src w'.store wr') ∨
    (∃ site, (copyEntry H o wr basis sf).run w = (.panic site, w)) := by
  unfold copyEntry
  simp only [metadataFrom_eq, Prog.pure_def]
  cases hk : sf.kind with
  | file => exact copyFile_spec hinj o hmax hwf wr basis sf w hw hwr (hsrc hk) hk (fun b hb => hbasis b hb hk)
  | dir =>
    refine Or.inl ⟨_, _, w, rfl, Frame.refl hw, hwr.pushPending ?_ _⟩
    exact ⟨fun h => by simp [metaOf, hk] at h, fun _ => rfl⟩
  | symlink =>
    refine Or.inl ⟨_, _, w, rfl, Frame.refl hw, hwr.pushPending ?_ _⟩
    exact ⟨fun h => by simp [metaOf, hk] at h, fun _ => rfl⟩
  | unknown => exact Or.inl ⟨_, _, w, rfl, Frame.refl hw, hwr.setStats _⟩

end

end Conserve.Inv
