import ConserveModel.Proofs.GapCrashTwin
/-
The store a backup killed at or after the start of its tail write leaves: it is the store of the
uninterrupted run, except that the tail may still be zero-length (`crashed_tail_started`); what the
listing functions compute on two stores that agree on a version's hunk files (`ownEntries_congr`).
No property statements here.
-/
set_option linter.unusedSimpArgs false
namespace Conserve.Crash
open Conserve Conserve.Exact Conserve.Inv Prog

variable {H : Str → Str} {o : BackupOpts}

/-- **A killed run whose store has the new version's tail key** (zero-length or filled) did everything
before the tail write exactly as the uninterrupted run: there is a store `s2` without that key such
that the uninterrupted run ends in `s2` + tail, and the killed run in `s2` + zero-length tail or in
`s2` + tail. -/
theorem crashed_tail_started (hlen : ∀ d, subdirNameChars ≤ (H d).length) (hmax : 0 < o.maxBlockSize)
    {src : List SrcEntry} {s : Store} (hsrc : SrcGood src) (hg : ArchiveGood H src s) (j : Nat)
    (htail : ((crashed H o src s j).get? (.bandTail (newBandOf s))).isSome = true) :
    ∃ (s2 : Store) (c : Nat), s2.get? (.bandTail (newBandOf s)) = none ∧
      ((backup H o src).run (World.clean s)).2.store = s2.put (.bandTail (newBandOf s)) (.tail (some c)) ∧
      (crashed H o src s j = s2.put (.bandTail (newBandOf s)) .empty ∨
        crashed H o src s j = s2.put (.bandTail (newBandOf s)) (.tail (some c))) := by
  obtain ⟨s2, wr2, hs, evs, hr, hband, hhw, hnone, hpar, _⟩ :=
    backupBefore_runs (o := o) hlen hmax hsrc hg
  refine ⟨s2, hs.length, hnone, ?_, ?_⟩
  · -- the uninterrupted run
    have hclose : RunsAt (backupClose wr2) s2 (.ok wr2.stats)
        (s2.put (.bandTail (newBandOf s)) (.tail (some hs.length))) [] := by
      unfold backupClose
      rw [hband, hhw]
      exact RunsAt.bind0 (a := ()) (RunsAt.performUnit_write hpar (Or.inl hnone)) (RunsAt.ret _ _)
    have hrun : RunsAt (backup H o src) s (.ok wr2.stats)
        (s2.put (.bandTail (newBandOf s)) (.tail (some hs.length))) evs := by
      rw [backup_eq_before_close]
      exact RunsAt.bind_r0 hr hclose
    exact hrun.clean.2.1
  · -- the killed run
    have hcl := hr.clean
    have htw := Twin.start s j
    have hst : crashed H o src s j =
        (((backupBefore H o src).bind backupClose).run { store := s, crashAt := some j }).2.store := by
      unfold crashed
      rw [backup_eq_before_close]
    rcases run_twin (backupBefore H o src) htw with hd | ⟨hout, ht⟩
    · -- died before the tail write: its store has no tail key
      exfalso
      have hx : Extends ((backupBefore H o src).run { store := s, crashAt := some j }).2.store s2 := by
        have := crash_prefix (backupBefore_createOnly H o src) htw
        rwa [hcl.2.1] at this
      rw [hst, run_bind_dead_store _ _ _ hd] at htail
      obtain ⟨v, hv⟩ := Option.isSome_iff_exists.mp htail
      rcases hx _ _ hv with h1 | ⟨_, h1⟩
      · rw [hnone] at h1; cases h1
      · rw [hnone] at h1; cases h1
    · rw [hcl.1] at hout
      have hrun : ((backupBefore H o src).bind backupClose).run { store := s, crashAt := some j } =
          (backupClose wr2).run ((backupBefore H o src).run { store := s, crashAt := some j }).2 :=
        Prog.run_bind_ok hout
      rw [hst, hrun]
      have := backupClose_twin (wr := wr2) ht hcl.2.1 (by rw [hband]; exact hpar) (by rw [hband]; exact hnone)
      rw [hband, hhw] at this
      rcases this with h0 | h1 | h2
      · exfalso
        rw [hst, hrun, h0, hnone] at htail
        cases htail
      · exact Or.inl h1
      · exact Or.inr h2

/-! ### Stores that agree on a version's hunk files -/

theorem hunkNumsOf_congr {s s' : Store} {b : Nat} (hn : UniqueKeys s) (hn' : UniqueKeys s')
    (h : ∀ n, s'.get? (.hunk b n) = s.get? (.hunk b n)) : hunkNumsOf s' b = hunkNumsOf s b := by
  refine eq_of_sorted_lt (hunkNumsOf_sorted_lt hn' b) (hunkNumsOf_sorted_lt hn b) fun n => ?_
  simp only [mem_hunkNumsOf, Store.mem_iff_get? hn, Store.mem_iff_get? hn', h]

theorem ownEntries_congr {s s' : Store} {b : Nat} (hn : UniqueKeys s) (hn' : UniqueKeys s')
    (h : ∀ n, s'.get? (.hunk b n) = s.get? (.hunk b n)) : ownEntries s' b = ownEntries s b := by
  unfold ownEntries
  rw [hunkNumsOf_congr hn hn' h]
  congr 2
  funext n
  simp only [usableHunk, h]

theorem bandReadable_congr {s s' : Store} {b : Nat} (h1 : s'.get? (.bandHead b) = s.get? (.bandHead b))
    (h2 : s'.get? (.indexDir b) = s.get? (.indexDir b)) : bandReadable s' b = bandReadable s b := by
  simp only [bandReadable, h1, h2]

theorem Paired.length_eq {α β : Type} {R : α → β → Prop} {l1 : List α} {l2 : List β} (h : Paired R l1 l2) :
    l1.length = l2.length := by
  induction h with
  | nil => rfl
  | cons _ _ ih => simp [ih]

/-! ### The crash point between the two micro-steps of the tail write exists -/

theorem exec_steps_le (w : World) (o : Op) : w.steps ≤ (w.exec o).1.steps := by
  unfold World.exec
  repeat' (first | exact Nat.le_refl _ | (simp only []; omega) | split)

theorem run_steps_le {α : Type} (p : Prog α) : ∀ (w : World), w.steps ≤ (p.run w).2.steps := by
  induction p with
  | ret a => intro _; exact Nat.le_refl _
  | fail e => intro _; exact Nat.le_refl _
  | panic s => intro _; exact Nat.le_refl _
  | emit ev k ih => intro w; exact ih { w with events := ev :: w.events }
  | op o k ih => intro w; rw [Prog.run_op]; exact Nat.le_trans (exec_steps_le w o) (ih _ _)

theorem exec_crashAt (w : World) (o : Op) : (w.exec o).1.crashAt = w.crashAt := by
  unfold World.exec
  repeat' (first | rfl | split)

theorem run_crashAt {α : Type} (p : Prog α) : ∀ (w : World), (p.run w).2.crashAt = w.crashAt := by
  induction p with
  | ret a => intro _; rfl
  | fail e => intro _; rfl
  | panic s => intro _; rfl
  | emit ev k ih => intro w; exact ih { w with events := ev :: w.events }
  | op o k ih => intro w; rw [Prog.run_op, ih, exec_crashAt]

/-- A crash point beyond the micro-steps the uninterrupted run makes is never reached: the killed
world stays the twin of the fault-free one. -/
theorem run_twin_alive {α : Type} {j : Nat} (p : Prog α) : ∀ {w c : World}, Twin w c → c.crashAt = some j →
    (p.run w).2.steps < j → (p.run c).1 = (p.run w).1 ∧ Twin (p.run w).2 (p.run c).2 := by
  induction p with
  | ret a => intro w c h _ _; exact ⟨rfl, h⟩
  | fail e => intro w c h _ _; exact ⟨rfl, h⟩
  | panic s => intro w c h _ _; exact ⟨rfl, h⟩
  | emit ev k ih => intro w c h hj hlt; exact ih (h.events ev) hj hlt
  | op o k ih =>
    intro w c h hj hlt
    simp only [Prog.run_op] at hlt ⊢
    have h1 := exec_steps_le w o
    have h2 := run_steps_le (k (w.exec o).2) (w.exec o).1
    rcases exec_twin h o with ⟨_, hcr | ⟨hcr, hst⟩⟩ | ⟨hr, ht⟩
    · rw [hj] at hcr
      have : j = w.steps := by simpa using hcr
      omega
    · rw [hj] at hcr
      have : j = w.steps + 1 := by simpa using hcr
      omega
    · rw [hr]
      exact ih _ ht (by rw [exec_crashAt]; exact hj) hlt

/-- **The crash point of the gap exists**: killed between the two micro-steps of its tail write — at
micro-step `j = N + 1`, `N` the micro-steps the run makes before `Band::close` — the backup leaves a
zero-length tail. -/
theorem crashed_tail_zero_length (hlen : ∀ d, subdirNameChars ≤ (H d).length) (hmax : 0 < o.maxBlockSize)
    {src : List SrcEntry} {s : Store} (hsrc : SrcGood src) (hg : ArchiveGood H src s) :
    ∃ j, (crashed H o src s j).get? (.bandTail (newBandOf s)) = some .empty := by
  obtain ⟨s2, wr2, hs, evs, hr, hband, hhw, hnone, hpar, _⟩ :=
    backupBefore_runs (o := o) hlen hmax hsrc hg
  have hcl := hr.clean
  refine ⟨((backupBefore H o src).run (World.clean s)).2.steps + 1, ?_⟩
  generalize hN : ((backupBefore H o src).run (World.clean s)).2.steps = N
  have htw := Twin.start s (N + 1)
  obtain ⟨hout, ht⟩ := run_twin_alive (backupBefore H o src) htw rfl (by omega)
  rw [hcl.1] at hout
  unfold crashed
  rw [backup_eq_before_close, Prog.run_bind_ok hout]
  generalize hc1 : ((backupBefore H o src).run { store := s, crashAt := some (N + 1) }).2 = c1 at ht
  have hcr : c1.crashAt = some (N + 1) := by rw [← hc1, run_crashAt]
  have hsteps : c1.steps = N := ht.steps.trans hN
  have hcs : c1.store = s2 := ht.store.trans hcl.2.1
  have hffc : c1.faultFor (.write (.bandTail wr2.band) (.tail (some wr2.hunksWritten)) .createNew) = none := by
    simp [World.faultFor, ht.noFaults]
  have hres : (applyOp c1.enforceCreateNew c1.store
      (.write (.bandTail wr2.band) (.tail (some wr2.hunksWritten)) .createNew)).2 = .unit := by
    simp [applyOp, hcs, hband, hpar, hnone]
  have hc0 : c1.crashesAt c1.steps = false := by simp [World.crashesAt, hcr, hsteps]
  have hc2 : c1.crashesAt (c1.steps + 1) = true := by simp [World.crashesAt, hcr, hsteps]
  have hcx := World.exec_write_eq c1 _ (.tail (some wr2.hunksWritten)) .createNew ht.alive hffc hc0
  rw [if_pos hres, if_pos hc2] at hcx
  unfold backupClose bandClose performUnit
  simp only [Prog.bind_def, Prog.perform, Prog.op_bind, Prog.run_op, Prog.ret_bind]
  rw [hcx]
  simp [hband, get?_put]

end Conserve.Crash
