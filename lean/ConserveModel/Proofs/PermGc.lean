import ConserveModel.Proofs.PermBackup
/-
Helper lemmas for C17: `delete_bands`, `restore` and `validate` are insensitive to the order of
the listings they receive.
-/
namespace Conserve
open Prog

theorem bandHunkEntries_equiv (strict : Bool) (b : Nat) (ns : List Nat) :
    ProgEquiv Eq (bandHunkEntries strict b ns) (bandHunkEntries strict b ns) := by
  induction ns with
  | nil => exact .ret rfl
  | cons n rest ih =>
    unfold bandHunkEntries
    apply ProgEquiv.bindEq (readHunk_equiv b n).attemptEq; intro a
    repeat' (first
      | pe_leaf
      | exact ih
      | exact ProgEquiv.bindEq ih (fun _ => .ret rfl)
      | split)

theorem referencedBlocks_equiv (strict : Bool) (bs : List Nat) :
    ProgEquiv Eq (referencedBlocks strict bs) (referencedBlocks strict bs) := by
  induction bs with
  | nil => exact .ret rfl
  | cons b bs ih =>
    unfold referencedBlocks
    apply ProgEquiv.bindEq (bandOpen_equiv b); intro _
    simp only []
    split
    · apply ProgEquiv.bindEq (hunksAvailable_equiv b); intro hunks
      apply ProgEquiv.bindEq (bandHunkEntries_equiv _ b hunks); intro es
      exact ProgEquiv.bindEq ih (fun _ => .ret rfl)
    · apply ProgEquiv.bindEq (iterAvailableHunks_equiv b); intro hunks
      apply ProgEquiv.bindEq (bandHunkEntries_equiv _ b hunks); intro es
      exact ProgEquiv.bindEq ih (fun _ => .ret rfl)

theorem deleteBody_measure_equiv (hs : List Str) :
    ProgEquiv Eq (deleteBody.measure hs) (deleteBody.measure hs) := by
  induction hs with
  | nil => exact .ret rfl
  | cons h hs ih =>
    unfold deleteBody.measure
    pe_op
    split
    · exact ih
    · pe_leaf
    · pe_leaf

theorem deleteBody_delBands_equiv (bs : List Nat) (n : Nat) :
    ProgEquiv Eq (deleteBody.delBands bs n) (deleteBody.delBands bs n) := by
  induction bs generalizing n with
  | nil => exact .ret rfl
  | cons b bs ih =>
    unfold deleteBody.delBands
    exact ProgEquiv.bindEq (bandDelete_equiv b) fun _ => ih _

theorem deleteBody_delBlocks_equiv (hs : List Str) (n : Nat) :
    ProgEquiv Eq (deleteBody.delBlocks hs n) (deleteBody.delBlocks hs n) := by
  induction hs generalizing n with
  | nil => exact .ret rfl
  | cons h hs ih =>
    unfold deleteBody.delBlocks
    pe_op
    split
    · exact ih _
    · exact ih _

theorem deleteBody_equiv (strict : Bool) (D : List Nat) (o : DeleteOpts) (held : Option Nat) :
    ProgEquiv Eq (deleteBody strict D o held) (deleteBody strict D o held) := by
  unfold deleteBody
  simp only []
  apply ProgEquiv.bindEq listBandIds_equiv; intro all
  apply ProgEquiv.bindEq (referencedBlocks_equiv strict _); intro referenced
  apply ProgEquiv.bind listBlocks_equiv; intro present present' hp
  have hu : (present'.filter fun h => !referenced.contains h).mergeSort strLe =
      (present.filter fun h => !referenced.contains h).mergeSort strLe :=
    mergeSort_strLe_eq_of_perm (hp.symm.filter _)
  simp only [hu]
  apply ProgEquiv.bindEq (deleteBody_measure_equiv _); intro _
  split
  · apply ProgEquiv.bindEq (.ret rfl); intro stats
    apply ProgEquiv.bindEq gcLockRelease_equiv; intro _
    exact .ret rfl
  · apply ProgEquiv.bindEq (gcLockCheck_equiv held); intro _
    apply ProgEquiv.bindEq (deleteBody_delBands_equiv D 0); intro nb
    apply ProgEquiv.bindEq (deleteBody_delBlocks_equiv _ 0); intro errs
    apply ProgEquiv.bindEq (.ret rfl); intro stats
    apply ProgEquiv.bindEq gcLockRelease_equiv; intro _
    exact .ret rfl

theorem gcLockReleaseOnError_equiv : ProgEquiv Eq gcLockReleaseOnError gcLockReleaseOnError := by
  unfold gcLockReleaseOnError
  pe_op
  split
  · exact .ret rfl
  · exact gcLockDrop_equiv

set_option hygiene false in
local macro "db_tail" : tactic => `(tactic| (
  apply ProgEquiv.bindEq (deleteBody_equiv strict D o held).attemptAllEq; intro r
  split
  · pe_leaf
  · exact ProgEquiv.bindEq gcLockReleaseOnError_equiv fun _ => .fail _
  · exact ProgEquiv.bindEq gcLockDrop_equiv fun _ => .panic _))

/-- **`delete_bands` is insensitive to the order of every listing.**  The unreferenced blocks
are removed in name order (the model's stand-in for the iteration order of the hash set). -/
theorem deleteBands_equiv (strict : Bool) (D : List Nat) (o : DeleteOpts) :
    ProgEquiv Eq (deleteBands strict D o) (deleteBands strict D o) := by
  unfold deleteBands
  simp only []
  split
  · apply ProgEquiv.bindEq gcBreakLock_equiv; intro held
    db_tail
  · apply ProgEquiv.bindEq gcLockNew_equiv; intro held
    db_tail

/-! ### Restore -/


section
variable (H : Str → Str)

theorem getBlockContent_equiv (h : Str) : ProgEquiv Eq (getBlockContent H h) (getBlockContent H h) := by
  unfold getBlockContent
  pe_op
  repeat' (first | pe_leaf | split)

theorem readAddress_equiv (a : Addr) : ProgEquiv Eq (readAddress H a) (readAddress H a) := by
  unfold readAddress
  apply ProgEquiv.bindEq (getBlockContent_equiv H _); intro r
  repeat' (first | pe_leaf | split)

theorem readContent_equiv (as : List Addr) (acc : Str) :
    ProgEquiv Eq (readContent H as acc) (readContent H as acc) := by
  induction as generalizing acc with
  | nil => exact .ret rfl
  | cons a as ih =>
    unfold readContent
    apply ProgEquiv.bindEq (readAddress_equiv H a); intro r
    split
    · pe_leaf
    · exact ih _

theorem restoreEntries_equiv (syms : List Str) (es : List IndexEntry) :
    ProgEquiv Eq (restoreEntries H syms es) (restoreEntries H syms es) := by
  induction es generalizing syms with
  | nil => exact .ret rfl
  | cons e es ih =>
    unfold restoreEntries
    split
    · exact .emit _ (ih _)
    · split
      · split
        · pe_leaf
        · exact ProgEquiv.bindEq (ih _) fun _ => .ret rfl
      · apply ProgEquiv.bindEq (readContent_equiv H _ _); rintro ⟨bytes, bad⟩
        simp only []
        split
        · exact ProgEquiv.logError_then _ (ProgEquiv.bindEq (ih _) fun _ => .ret rfl)
        · split
          · pe_leaf
          · exact ProgEquiv.bindEq (ih _) fun _ => .ret rfl
      · split
        · exact .emit _ (ih _)
        · split
          · pe_leaf
          · exact ProgEquiv.bindEq (ih _) fun _ => .ret rfl
      · exact .emit _ (ih _)

/-- **`restore` is insensitive to the order of every listing**: it restores the same nodes with
the same content and reports the same problems. -/
theorem restore_equiv (sel : BandSelection) (subtree : Str) (excl : Str → Bool) :
    ProgEquiv Eq (restore H sel subtree excl) (restore H sel subtree excl) := by
  unfold restore
  apply ProgEquiv.bindEq (resolveBandId_equiv sel); intro b
  apply ProgEquiv.bindEq (bandOpen_equiv b); intro _
  apply ProgEquiv.bind listBlocks_equiv; intro _ _ _
  apply ProgEquiv.bindEq (listEntries_equiv b subtree excl); intro es
  exact restoreEntries_equiv H [] es

end

/-! ### Validate -/

/-- `validate_bands`: the only use of the listing of `bNNNN/` is "does it contain BANDHEAD". -/
theorem validateBands_equiv (bs : List Nat) (m : List (Str × Nat)) :
    ProgEquiv Eq (validateBands bs m) (validateBands bs m) := by
  induction bs generalizing m with
  | nil => exact .ret rfl
  | cons b bs ih =>
    unfold validateBands
    apply ProgEquiv.bindEq (bandOpen_equiv b).attemptEq; intro a
    split
    · exact ProgEquiv.logError_then _ (ih _)
    · apply ProgEquiv.bind (ProgEquiv.perform _)
      rintro r r' ⟨he, -⟩
      have tail : ∀ xs : List DirEnt, ProgEquiv Eq
          (do
            if !(xs.any fun e => e.key == .bandHead b) then logError (.bandHeadMissing b)
            match ← (bandOpen b).attempt with
            | .error e =>
              logError e
              validateBands bs m
            | .ok () =>
              let es ← listEntries b [slash] (fun _ => false)
              validateBands bs (entryLens m es))
          (do
            if !(xs.any fun e => e.key == .bandHead b) then logError (.bandHeadMissing b)
            match ← (bandOpen b).attempt with
            | .error e =>
              logError e
              validateBands bs m
            | .ok () =>
              let es ← listEntries b [slash] (fun _ => false)
              validateBands bs (entryLens m es)) := by
        intro xs
        have t2 : ProgEquiv Eq
            (do
              match ← (bandOpen b).attempt with
              | .error e =>
                logError e
                validateBands bs m
              | .ok () =>
                let es ← listEntries b [slash] (fun _ => false)
                validateBands bs (entryLens m es))
            (do
              match ← (bandOpen b).attempt with
              | .error e =>
                logError e
                validateBands bs m
              | .ok () =>
                let es ← listEntries b [slash] (fun _ => false)
                validateBands bs (entryLens m es)) := by
          apply ProgEquiv.bindEq (bandOpen_equiv b).attemptEq; intro a
          split
          · exact ProgEquiv.logError_then _ (ih _)
          · exact ProgEquiv.bindEq (listEntries_equiv _ _ _) fun _ => ih _
        simp only []
        split
        · exact ProgEquiv.logError_then _ t2
        · exact t2
      cases he with
      | listing hp =>
        simp only [any_eq_of_perm _ hp]
        exact tail _
      | refl =>
        split
        · exact ProgEquiv.logError_then _ (ih _)
        · exact tail _
        · exact ProgEquiv.logError_then _ (ih _)

theorem forIn_equiv {α β : Type} (xs : List α) {f g : α → β → Prog (ForInStep β)}
    (h : ∀ a b, ProgEquiv Eq (f a b) (g a b)) (b : β) : ProgEquiv Eq (forIn xs b f) (forIn xs b g) := by
  induction xs generalizing b with
  | nil => exact .ret rfl
  | cons a as ih =>
    rw [List.forIn_cons, List.forIn_cons]
    apply ProgEquiv.bindEq (h a b); intro r
    split
    · exact .ret rfl
    · exact ih _

section
variable (H : Str → Str)

theorem validateBlocks_equiv (hs : List Str) : ProgEquiv Eq (validateBlocks H hs) (validateBlocks H hs) := by
  induction hs with
  | nil => exact .ret rfl
  | cons h hs ih =>
    unfold validateBlocks
    apply ProgEquiv.bindEq (getBlockContent_equiv H h); intro r
    split
    · exact ProgEquiv.bindEq ih fun _ => .ret rfl
    · exact ProgEquiv.logError_then _ ih

set_option hygiene false in
local macro "vl_tail" : tactic => `(tactic| (
  apply ProgEquiv.bindEq listBandIds_equiv; intro bands
  apply ProgEquiv.bindEq (validateBands_equiv _ _); intro referenced
  apply ProgEquiv.bind listBlocks_equiv; intro present present' hp
  simp only [hp.contains_eq, mergeSort_strLe_eq_of_perm hp]
  split
  · refine ProgEquiv.bindEq (forIn_equiv _ ?_ _) fun _ => .ret rfl
    rintro ⟨h, n⟩ b
    simp only []
    split
    · exact ProgEquiv.logError_then _ (.ret rfl)
    · exact .ret rfl
  · apply ProgEquiv.bindEq (validateBlocks_equiv H _); intro lens
    refine ProgEquiv.bindEq (forIn_equiv _ ?_ _) fun _ => .ret rfl
    rintro ⟨h, n⟩ b
    simp only []
    split
    · split
      · exact ProgEquiv.logError_then _ (.ret rfl)
      · exact .ret rfl
    · exact ProgEquiv.logError_then _ (.ret rfl)))

/-- **`validate` is insensitive to the order of every listing.** -/
theorem validate_equiv (quick : Bool) : ProgEquiv Eq (validate H quick) (validate H quick) := by
  unfold validate
  apply ProgEquiv.bind (ProgEquiv.perform _)
  rintro r r' ⟨he, -⟩
  simp only []
  cases he with
  | listing hp =>
    simp only []
    vl_tail
  | refl =>
    split
    · exact .fail _
    · vl_tail
end

end Conserve
