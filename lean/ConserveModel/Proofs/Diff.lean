import ConserveModel.DiffSpec
import ConserveModel.Props.C11
/-
Helper lemmas for C18: the two-cursor merge on strictly sorted inputs.
-/
namespace Conserve.DM
open Conserve.C11

/-- Strictly increasing apaths (what the stitched index and the source walk deliver, C08/C11). -/
def SortedA (A : List IndexEntry) : Prop :=
  A.Pairwise fun x y => apathCmp x.apath y.apath = .lt
def SortedB (B : List SrcEntry) : Prop :=
  B.Pairwise fun x y => apathCmp x.apath y.apath = .lt

/-- The set-level meaning of a merge result. -/
def Classified (A : List IndexEntry) (B : List SrcEntry) : Matched → Prop
  | .left a => a ∈ A ∧ ∀ b ∈ B, b.apath ≠ a.apath
  | .right b => b ∈ B ∧ ∀ a ∈ A, a.apath ≠ b.apath
  | .both a b => a ∈ A ∧ b ∈ B ∧ a.apath = b.apath

theorem lt_ne {x y : Str} (h : apathCmp x y = .lt) : x ≠ y := by
  intro e; subst e; exact cmp_irrefl x h

theorem gt_lt {x y : Str} (h : apathCmp x y = .gt) : apathCmp y x = .lt := by
  have := cmp_swap y x; rw [h] at this; exact this

theorem merge_mem_apath {A : List IndexEntry} {B : List SrcEntry} {m : Matched}
    (h : m ∈ mergeEntries A B) :
    (∃ a ∈ A, a.apath = m.apath) ∨ (∃ b ∈ B, b.apath = m.apath) := by
  fun_induction mergeEntries A B with
  | case1 => simp at h
  | case2 a as ih =>
    rcases List.mem_cons.1 h with rfl | h
    · exact .inl ⟨a, by simp, rfl⟩
    · rcases ih h with ⟨x, hx, e⟩ | ⟨x, hx, _⟩
      · exact .inl ⟨x, by simp [hx], e⟩
      · simp at hx
  | case3 b bs ih =>
    rcases List.mem_cons.1 h with rfl | h
    · exact .inr ⟨b, by simp, rfl⟩
    · rcases ih h with ⟨x, hx, _⟩ | ⟨x, hx, e⟩
      · simp at hx
      · exact .inr ⟨x, by simp [hx], e⟩
  | case4 a as b bs hc ih =>
    rcases List.mem_cons.1 h with rfl | h
    · exact .inl ⟨a, by simp, rfl⟩
    · rcases ih h with ⟨x, hx, e⟩ | ⟨x, hx, e⟩
      · exact .inl ⟨x, by simp [hx], e⟩
      · exact .inr ⟨x, by simp [hx], e⟩
  | case5 a as b bs hc ih =>
    rcases List.mem_cons.1 h with rfl | h
    · exact .inl ⟨a, by simp, rfl⟩
    · rcases ih h with ⟨x, hx, e⟩ | ⟨x, hx, e⟩
      · exact .inl ⟨x, by simp [hx], e⟩
      · exact .inr ⟨x, hx, e⟩
  | case6 a as b bs hc ih =>
    rcases List.mem_cons.1 h with rfl | h
    · exact .inr ⟨b, by simp, rfl⟩
    · rcases ih h with ⟨x, hx, e⟩ | ⟨x, hx, e⟩
      · exact .inl ⟨x, hx, e⟩
      · exact .inr ⟨x, by simp [hx], e⟩

theorem merge_mem_sides {A : List IndexEntry} {B : List SrcEntry} {m : Matched}
    (h : m ∈ mergeEntries A B) :
    (∀ a, m = .left a → a ∈ A) ∧ (∀ b, m = .right b → b ∈ B) ∧
      (∀ a b, m = .both a b → a ∈ A ∧ b ∈ B) := by
  fun_induction mergeEntries A B with
  | case1 => simp at h
  | case2 a as ih =>
    rcases List.mem_cons.1 h with rfl | h
    · simp
    · have := ih h; cases m <;> simp_all
  | case3 b bs ih =>
    rcases List.mem_cons.1 h with rfl | h
    · simp
    · have := ih h; cases m <;> simp_all
  | case4 a as b bs hc ih =>
    rcases List.mem_cons.1 h with rfl | h
    · simp
    · have := ih h; cases m <;> simp_all
  | case5 a as b bs hc ih =>
    rcases List.mem_cons.1 h with rfl | h
    · simp
    · have := ih h; cases m <;> simp_all
  | case6 a as b bs hc ih =>
    rcases List.mem_cons.1 h with rfl | h
    · simp
    · have := ih h; cases m <;> simp_all

theorem merge_lt_all {A : List IndexEntry} {B : List SrcEntry} {p : Str}
    (hA : ∀ a ∈ A, apathCmp p a.apath = .lt) (hB : ∀ b ∈ B, apathCmp p b.apath = .lt) :
    ∀ m ∈ mergeEntries A B, apathCmp p m.apath = .lt := by
  intro m hm
  rcases merge_mem_apath hm with ⟨x, hx, e⟩ | ⟨x, hx, e⟩
  · rw [← e]; exact hA x hx
  · rw [← e]; exact hB x hx

theorem merge_sorted {A : List IndexEntry} {B : List SrcEntry}
    (hA : SortedA A) (hB : SortedB B) :
    (mergeEntries A B).Pairwise fun m m' => apathCmp m.apath m'.apath = .lt := by
  unfold SortedA at hA; unfold SortedB at hB
  fun_induction mergeEntries A B with
  | case1 => simp
  | case2 a as ih =>
    rw [List.pairwise_cons] at hA ⊢
    exact ⟨merge_lt_all hA.1 (by simp), ih hA.2 hB⟩
  | case3 b bs ih =>
    rw [List.pairwise_cons] at hB ⊢
    exact ⟨merge_lt_all (by simp) hB.1, ih hA hB.2⟩
  | case4 a as b bs hc ih =>
    rw [List.pairwise_cons] at hA hB ⊢
    have e : a.apath = b.apath := (cmp_eq_iff _ _).1 hc
    refine ⟨merge_lt_all hA.1 ?_, ih hA.2 hB.2⟩
    intro x hx; show apathCmp a.apath x.apath = .lt; rw [e]; exact hB.1 x hx
  | case5 a as b bs hc ih =>
    have hB' := hB
    rw [List.pairwise_cons] at hA hB ⊢
    refine ⟨merge_lt_all hA.1 ?_, ih hA.2 hB'⟩
    intro x hx
    rcases List.mem_cons.1 hx with rfl | hx
    · exact hc
    · exact cmp_trans hc (hB.1 x hx)
  | case6 a as b bs hc ih =>
    have hA' := hA
    rw [List.pairwise_cons] at hA hB ⊢
    refine ⟨merge_lt_all ?_ hB.1, ih hA' hB.2⟩
    intro x hx
    rcases List.mem_cons.1 hx with rfl | hx
    · exact gt_lt hc
    · exact cmp_trans (gt_lt hc) (hA.1 x hx)

theorem merge_mem_iff {A : List IndexEntry} {B : List SrcEntry}
    (hA : SortedA A) (hB : SortedB B) (m : Matched) :
    m ∈ mergeEntries A B ↔ Classified A B m := by
  unfold SortedA at hA; unfold SortedB at hB
  fun_induction mergeEntries A B with
  | case1 => cases m <;> simp [Classified]
  | case2 a as ih =>
    rw [List.pairwise_cons] at hA
    rw [List.mem_cons, ih hA.2 hB]
    cases m <;> simp [Classified]
  | case3 b bs ih =>
    rw [List.pairwise_cons] at hB
    rw [List.mem_cons, ih hA hB.2]
    cases m <;> simp [Classified]
  | case4 a as b bs hc ih =>
    rw [List.pairwise_cons] at hA hB
    have e : a.apath = b.apath := (cmp_eq_iff _ _).1 hc
    have ha : ∀ x ∈ as, x.apath ≠ a.apath := fun x hx => (lt_ne (hA.1 x hx)).symm
    have hb : ∀ x ∈ bs, x.apath ≠ b.apath := fun x hx => (lt_ne (hB.1 x hx)).symm
    rw [List.mem_cons, ih hA.2 hB.2]
    cases m with
    | left a' =>
      simp only [Classified, reduceCtorEq, false_or, List.mem_cons, forall_eq_or_imp]
      constructor
      · rintro ⟨h1, h2⟩
        exact ⟨.inr h1, by rw [← e]; exact (ha a' h1).symm, h2⟩
      · rintro ⟨h1 | h1, h2, h3⟩
        · subst h1; exact absurd e.symm h2
        · exact ⟨h1, h3⟩
    | right b' =>
      simp only [Classified, reduceCtorEq, false_or, List.mem_cons, forall_eq_or_imp]
      constructor
      · rintro ⟨h1, h2⟩
        exact ⟨.inr h1, by rw [e]; exact (hb b' h1).symm, h2⟩
      · rintro ⟨h1 | h1, h2, h3⟩
        · subst h1; exact absurd e h2
        · exact ⟨h1, h3⟩
    | both a' b' =>
      simp only [Classified, Matched.both.injEq, List.mem_cons]
      constructor
      · rintro (⟨rfl, rfl⟩ | ⟨h1, h2, h3⟩)
        · exact ⟨.inl rfl, .inl rfl, e⟩
        · exact ⟨.inr h1, .inr h2, h3⟩
      · rintro ⟨h1 | h1, h2 | h2, h3⟩
        · exact .inl ⟨h1, h2⟩
        · subst h1; exact absurd (e ▸ h3).symm (hb b' h2)
        · subst h2; exact absurd (e ▸ h3) (ha a' h1)
        · exact .inr ⟨h1, h2, h3⟩
  | case5 a as b bs hc ih =>
    have hB' := hB
    rw [List.pairwise_cons] at hA hB
    -- a is below everything in b :: bs
    have hlt : ∀ x ∈ b :: bs, apathCmp a.apath x.apath = .lt := by
      intro x hx
      rcases List.mem_cons.1 hx with rfl | hx
      · exact hc
      · exact cmp_trans hc (hB.1 x hx)
    rw [List.mem_cons, ih hA.2 hB']
    cases m with
    | left a' =>
      simp only [Classified, Matched.left.injEq, List.mem_cons]
      constructor
      · rintro (rfl | ⟨h1, h2⟩)
        · exact ⟨.inl rfl, fun x hx => (lt_ne (hlt x (List.mem_cons.2 hx))).symm⟩
        · exact ⟨.inr h1, h2⟩
      · rintro ⟨h1 | h1, h2⟩
        · exact .inl h1
        · exact .inr ⟨h1, h2⟩
    | right b' =>
      simp only [Classified, reduceCtorEq, false_or, List.mem_cons, forall_eq_or_imp]
      constructor
      · rintro ⟨h1, h2⟩
        exact ⟨h1, lt_ne (hlt b' (List.mem_cons.2 h1)), h2⟩
      · rintro ⟨h1, _, h3⟩
        exact ⟨h1, h3⟩
    | both a' b' =>
      simp only [Classified, reduceCtorEq, false_or, List.mem_cons]
      constructor
      · rintro ⟨h1, h2, h3⟩
        exact ⟨.inr h1, h2, h3⟩
      · rintro ⟨h1 | h1, h2, h3⟩
        · subst h1; exact absurd h3 (lt_ne (hlt b' (List.mem_cons.2 h2)))
        · exact ⟨h1, h2, h3⟩
  | case6 a as b bs hc ih =>
    have hA' := hA
    rw [List.pairwise_cons] at hA hB
    have hlt : ∀ x ∈ a :: as, apathCmp b.apath x.apath = .lt := by
      intro x hx
      rcases List.mem_cons.1 hx with rfl | hx
      · exact gt_lt hc
      · exact cmp_trans (gt_lt hc) (hA.1 x hx)
    rw [List.mem_cons, ih hA' hB.2]
    cases m with
    | left a' =>
      simp only [Classified, reduceCtorEq, false_or, List.mem_cons, forall_eq_or_imp]
      constructor
      · rintro ⟨h1, h2⟩
        exact ⟨h1, lt_ne (hlt a' (List.mem_cons.2 h1)), h2⟩
      · rintro ⟨h1, _, h3⟩
        exact ⟨h1, h3⟩
    | right b' =>
      simp only [Classified, Matched.right.injEq, List.mem_cons]
      constructor
      · rintro (rfl | ⟨h1, h2⟩)
        · exact ⟨.inl rfl, fun x hx => (lt_ne (hlt x (List.mem_cons.2 hx))).symm⟩
        · exact ⟨.inr h1, h2⟩
      · rintro ⟨h1 | h1, h2⟩
        · exact .inl h1
        · exact .inr ⟨h1, h2⟩
    | both a' b' =>
      simp only [Classified, reduceCtorEq, false_or, List.mem_cons]
      constructor
      · rintro ⟨h1, h2, h3⟩
        exact ⟨h1, .inr h2, h3⟩
      · rintro ⟨h1, h2 | h2, h3⟩
        · subst h2; exact absurd h3.symm (lt_ne (hlt a' (List.mem_cons.2 h1)))
        · exact ⟨h1, h2, h3⟩

/-! ### From the merge to the report -/

theorem toEntryChange_fst (m : Matched) : m.toEntryChange.1 = m.apath := by
  cases m <;> rfl

theorem diffLoop_eq (inc : Bool) (ms : List Matched) :
    diffLoop inc ms = (ms.map Matched.toEntryChange).filter fun ec => keep inc ec.2 := by
  induction ms with
  | nil => rfl
  | cons m ms ih =>
    simp only [diffLoop, List.map_cons, List.filter_cons, keep, ih]

theorem lookupA_eq_some {A : List IndexEntry} (hA : SortedA A) (p : Str) (a : IndexEntry) :
    lookupA A p = some a ↔ a ∈ A ∧ a.apath = p := by
  unfold lookupA
  constructor
  · intro h
    exact ⟨List.mem_of_find?_eq_some h, by simpa using List.find?_some h⟩
  · rintro ⟨hm, rfl⟩
    unfold SortedA at hA
    induction A with
    | nil => simp at hm
    | cons x xs ih =>
      rw [List.pairwise_cons] at hA
      rcases List.mem_cons.1 hm with rfl | hm
      · simp
      · have : x.apath ≠ a.apath := lt_ne (hA.1 a hm)
        rw [List.find?_cons, show (x.apath == a.apath) = false from by simpa using this]
        exact ih hA.2 hm

theorem lookupB_eq_some {B : List SrcEntry} (hB : SortedB B) (p : Str) (b : SrcEntry) :
    lookupB B p = some b ↔ b ∈ B ∧ b.apath = p := by
  unfold lookupB
  constructor
  · intro h
    exact ⟨List.mem_of_find?_eq_some h, by simpa using List.find?_some h⟩
  · rintro ⟨hm, rfl⟩
    unfold SortedB at hB
    induction B with
    | nil => simp at hm
    | cons x xs ih =>
      rw [List.pairwise_cons] at hB
      rcases List.mem_cons.1 hm with rfl | hm
      · simp
      · have : x.apath ≠ b.apath := lt_ne (hB.1 b hm)
        rw [List.find?_cons, show (x.apath == b.apath) = false from by simpa using this]
        exact ih hB.2 hm

theorem lookupA_eq_none (A : List IndexEntry) (p : Str) :
    lookupA A p = none ↔ ∀ a ∈ A, a.apath ≠ p := by
  unfold lookupA; simp

theorem lookupB_eq_none (B : List SrcEntry) (p : Str) :
    lookupB B p = none ↔ ∀ b ∈ B, b.apath ≠ p := by
  unfold lookupB; simp

/-- A merge result classifies its path as the spec does. -/
theorem classified_iff_classify {A : List IndexEntry} {B : List SrcEntry}
    (hA : SortedA A) (hB : SortedB B) (p : Str) (k : ChangeKind) :
    (∃ m, Classified A B m ∧ m.toEntryChange = (p, k)) ↔ classify A B p = some k := by
  constructor
  · rintro ⟨m, hm, e⟩
    cases m with
    | left a =>
      obtain ⟨h1, h2⟩ := hm
      simp only [Matched.toEntryChange, Prod.mk.injEq] at e
      obtain ⟨rfl, rfl⟩ := e
      have l1 := (lookupA_eq_some hA a.apath a).2 ⟨h1, rfl⟩
      have l2 := (lookupB_eq_none B a.apath).2 h2
      simp [classify, l1, l2]
    | right b =>
      obtain ⟨h1, h2⟩ := hm
      simp only [Matched.toEntryChange, Prod.mk.injEq] at e
      obtain ⟨rfl, rfl⟩ := e
      have l1 := (lookupB_eq_some hB b.apath b).2 ⟨h1, rfl⟩
      have l2 := (lookupA_eq_none A b.apath).2 h2
      simp [classify, l1, l2]
    | both a b =>
      obtain ⟨h1, h2, h3⟩ := hm
      simp only [Matched.toEntryChange, Prod.mk.injEq] at e
      obtain ⟨rfl, rfl⟩ := e
      have l1 := (lookupA_eq_some hA a.apath a).2 ⟨h1, rfl⟩
      have l2 := (lookupB_eq_some hB a.apath b).2 ⟨h2, h3.symm⟩
      simp [classify, l1, l2]
  · intro h
    unfold classify at h
    cases l1 : lookupA A p with
    | none =>
      cases l2 : lookupB B p with
      | none => simp [l1, l2] at h
      | some b =>
        simp only [l1, l2, Option.some.injEq] at h
        obtain ⟨hb, rfl⟩ := (lookupB_eq_some hB p b).1 l2
        exact ⟨.right b, ⟨hb, (lookupA_eq_none A _).1 l1⟩, by simp [Matched.toEntryChange, h]⟩
    | some a =>
      obtain ⟨ha, rfl⟩ := (lookupA_eq_some hA p a).1 l1
      cases l2 : lookupB B a.apath with
      | none =>
        simp only [l1, l2, Option.some.injEq] at h
        exact ⟨.left a, ⟨ha, (lookupB_eq_none B _).1 l2⟩, by simp [Matched.toEntryChange, h]⟩
      | some b =>
        simp only [l1, l2, Option.some.injEq] at h
        obtain ⟨hb, e⟩ := (lookupB_eq_some hB a.apath b).1 l2
        exact ⟨.both a b, ⟨ha, hb, e.symm⟩, by simp [Matched.toEntryChange, h]⟩

theorem diff_mem_iff {A : List IndexEntry} {B : List SrcEntry}
    (hA : SortedA A) (hB : SortedB B) (inc : Bool) (p : Str) (k : ChangeKind) :
    (p, k) ∈ diff A B inc ↔ classify A B p = some k ∧ keep inc k = true := by
  unfold diff
  rw [diffLoop_eq, List.mem_filter, List.mem_map, ← classified_iff_classify hA hB]
  constructor
  · rintro ⟨⟨m, hm, e⟩, hk⟩
    exact ⟨⟨m, (merge_mem_iff hA hB m).1 hm, e⟩, hk⟩
  · rintro ⟨⟨m, hm, e⟩, hk⟩
    exact ⟨⟨m, (merge_mem_iff hA hB m).2 hm, e⟩, hk⟩

theorem diff_sorted {A : List IndexEntry} {B : List SrcEntry}
    (hA : SortedA A) (hB : SortedB B) (inc : Bool) :
    (diff A B inc).Pairwise fun x y => apathCmp x.1 y.1 = .lt := by
  unfold diff
  rw [diffLoop_eq]
  apply List.Pairwise.filter
  rw [List.pairwise_map]
  simp only [toEntryChange_fst]
  exact merge_sorted hA hB

/-- A list of (path, _) strictly sorted by path is determined by its members. -/
theorem sorted_ext {α : Type} {l₁ l₂ : List (Str × α)}
    (h₁ : l₁.Pairwise fun x y => apathCmp x.1 y.1 = .lt)
    (h₂ : l₂.Pairwise fun x y => apathCmp x.1 y.1 = .lt)
    (h : ∀ x, x ∈ l₁ ↔ x ∈ l₂) : l₁ = l₂ := by
  have nd : ∀ {l : List (Str × α)}, (l.Pairwise fun x y => apathCmp x.1 y.1 = .lt) → l.Nodup :=
    fun hl => hl.imp fun hxy e => lt_ne hxy (congrArg Prod.fst e)
  refine List.Perm.eq_of_pairwise ?_ h₁ h₂ ((List.perm_ext_iff_of_nodup (nd h₁) (nd h₂)).2 h)
  intro a b _ _ hab hba
  exact absurd (cmp_trans hab hba) (cmp_irrefl _)

/-! ### The declarative report is sorted and has the same members -/

theorem apathLe_trans (a b c : Str) (h1 : apathLe a b = true) (h2 : apathLe b c = true) :
    apathLe a c = true := by
  unfold apathLe at *
  rw [cmp_eq_keys] at *
  simp only [bne_iff_ne, ne_eq] at *
  have h1' : (compare (keys a) (keys b)).isLE := by
    cases h : compare (keys a) (keys b) <;> simp_all
  have h2' : (compare (keys b) (keys c)).isLE := by
    cases h : compare (keys b) (keys c) <;> simp_all
  have := Std.TransCmp.isLE_trans h1' h2'
  intro e; rw [e] at this; cases this

theorem apathLe_total (a b : Str) : (apathLe a b || apathLe b a) = true := by
  unfold apathLe
  have := cmp_swap a b
  cases h : apathCmp b a <;> simp_all

theorem unionPaths_mem (A : List IndexEntry) (B : List SrcEntry) (p : Str) :
    p ∈ unionPaths A B ↔ (∃ a ∈ A, a.apath = p) ∨ (∃ b ∈ B, b.apath = p) := by
  unfold unionPaths
  rw [List.mem_mergeSort, List.mem_append, List.mem_filter]
  simp only [List.mem_map, List.contains_eq_mem, Bool.not_eq_eq_eq_not, Bool.not_true,
    decide_eq_false_iff_not, not_exists, not_and]
  constructor
  · rintro (h | ⟨h, _⟩)
    · exact .inl h
    · exact .inr h
  · rintro (h | h)
    · exact .inl h
    · by_cases hc : ∃ a ∈ A, a.apath = p
      · exact .inl hc
      · exact .inr ⟨h, fun x hx e => hc ⟨x, hx, e⟩⟩

theorem unionPaths_sorted {A : List IndexEntry} {B : List SrcEntry}
    (hA : SortedA A) (hB : SortedB B) :
    (unionPaths A B).Pairwise fun x y => apathCmp x y = .lt := by
  have hle := List.pairwise_mergeSort apathLe_trans apathLe_total
    (A.map (·.apath) ++ (B.map (·.apath)).filter fun p => !(A.map (·.apath)).contains p)
  have ndA : (A.map (·.apath)).Nodup := by
    unfold SortedA at hA
    rw [List.Nodup, List.pairwise_map]
    exact hA.imp fun h => lt_ne h
  have ndB : (B.map (·.apath)).Nodup := by
    unfold SortedB at hB
    rw [List.Nodup, List.pairwise_map]
    exact hB.imp fun h => lt_ne h
  have nd : (unionPaths A B).Nodup := by
    unfold unionPaths
    rw [(List.mergeSort_perm _ _).nodup_iff, List.nodup_append]
    refine ⟨ndA, List.Pairwise.filter _ ndB, ?_⟩
    intro a ha b hb e
    subst e
    rw [List.mem_filter] at hb
    simp only [List.contains_eq_mem, Bool.not_eq_eq_eq_not, Bool.not_true,
      decide_eq_false_iff_not] at hb
    exact hb.2 ha
  unfold unionPaths at nd ⊢
  refine (hle.and nd).imp ?_
  rintro x y ⟨h1, h2⟩
  unfold apathLe at h1
  have := cmp_eq_iff x y
  cases h : apathCmp x y with
  | lt => rfl
  | eq => exact absurd (this.1 h) h2
  | gt => simp [h] at h1

theorem specDiff_mem_iff (A : List IndexEntry) (B : List SrcEntry)
    (inc : Bool) (p : Str) (k : ChangeKind) :
    (p, k) ∈ specDiff A B inc ↔ classify A B p = some k ∧ keep inc k = true := by
  unfold specDiff
  rw [List.mem_filterMap]
  constructor
  · rintro ⟨q, _, hq⟩
    cases hc : classify A B q with
    | none => simp [hc] at hq
    | some k' =>
      simp only [hc] at hq
      by_cases hk : keep inc k' = true
      · simp only [hk, if_true, Option.some.injEq, Prod.mk.injEq] at hq
        obtain ⟨rfl, rfl⟩ := hq
        exact ⟨hc, hk⟩
      · simp [hk] at hq
  · rintro ⟨hc, hk⟩
    refine ⟨p, ?_, by simp [hc, hk]⟩
    rw [unionPaths_mem]
    unfold classify at hc
    cases l1 : lookupA A p with
    | some a =>
      exact .inl ⟨a, List.mem_of_find?_eq_some l1, by simpa using List.find?_some l1⟩
    | none =>
      cases l2 : lookupB B p with
      | some b =>
        exact .inr ⟨b, List.mem_of_find?_eq_some l2, by simpa using List.find?_some l2⟩
      | none => simp [l1, l2] at hc

theorem specDiff_sorted {A : List IndexEntry} {B : List SrcEntry}
    (hA : SortedA A) (hB : SortedB B) (inc : Bool) :
    (specDiff A B inc).Pairwise fun x y => apathCmp x.1 y.1 = .lt := by
  unfold specDiff
  refine List.Pairwise.filterMap _ ?_ (unionPaths_sorted hA hB)
  intro p q hpq x hx y hy
  have fx : x.1 = p := by
    cases hc : classify A B p with
    | none => simp [hc] at hx
    | some k =>
      simp only [hc] at hx
      split at hx
      · cases hx; rfl
      · cases hx
  have fy : y.1 = q := by
    cases hc : classify A B q with
    | none => simp [hc] at hy
    | some k =>
      simp only [hc] at hy
      split at hy
      · cases hy; rfl
      · cases hy
  rw [fx, fy]; exact hpq

end Conserve.DM
