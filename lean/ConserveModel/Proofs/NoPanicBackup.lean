import ConserveModel.Proofs.NoPanicRestore
/-
No panic in backup (property C10): the basis listing is usable, so `IndexEntry::mtime()` on a
basis entry cannot panic; `metadata_from` is total since the repair of D3.
No property statements here.
-/
namespace Conserve.NP
open Conserve Prog

theorem metadataFrom_some (o : BackupOpts) (s : SrcEntry) : ∃ ie, metadataFrom o s = some ie := by
  simp [metadataFrom, mtimeToIndex]

section
variable (H : Str → Str)

theorem storeOrDedup_safe (w : Writer) (data : Str) : Safe (fun _ => True) (storeOrDedup H w data) := by
  unfold storeOrDedup
  simp only [Prog.bind_def, Prog.pure_def]
  repeat safe_step

theorem combinerFlush_safe (w : Writer) : Safe (fun _ => True) (combinerFlush H w) := by
  unfold combinerFlush
  simp only [Prog.bind_def, Prog.pure_def]
  split
  · exact .ret trivial
  · refine Safe.bind' (storeOrDedup_safe H _ _) (fun r => ?_)
    repeat safe_step

theorem combinerPush_safe (o : BackupOpts) (w : Writer) (s : SrcEntry) :
    Safe (fun _ => True) (combinerPush H o w s) := by
  obtain ⟨ie, hie⟩ := metadataFrom_some o s
  unfold combinerPush
  simp only [Prog.pure_def, hie]
  split
  · exact .ret trivial
  · split
    · exact combinerFlush_safe H _
    · exact .ret trivial

theorem storeChunks_safe (w : Writer) (cs : List Str) (acc : List Addr) :
    Safe (fun _ => True) (storeChunks H w cs acc) := by
  induction cs generalizing w acc with
  | nil => exact .ret trivial
  | cons c cs ih =>
    unfold storeChunks
    simp only [Prog.bind_def, Prog.pure_def]
    refine Safe.bind' (storeOrDedup_safe H _ _) (fun r => ?_)
    split
    · exact .ret trivial
    · exact ih _ _

theorem storeFileContent_safe (o : BackupOpts) (w : Writer) (s : SrcEntry) :
    Safe (fun _ => True) (storeFileContent H o w s) := by
  unfold storeFileContent
  simp only [Prog.bind_def, Prog.pure_def]
  refine Safe.bind' (storeChunks_safe H _ _ _) (fun r => ?_)
  repeat safe_step

/-- `content_heuristically_unchanged` does not panic on a usable basis entry. -/
theorem heuristicallyUnchanged_some (s : SrcEntry) {b : IndexEntry} (hb : entryUsable b = true) :
    ∃ r, heuristicallyUnchanged s b = some r := by
  obtain ⟨t, ht⟩ := usable_time hb
  unfold heuristicallyUnchanged
  split
  · exact ⟨_, rfl⟩
  · simp [ht]

theorem copyFile_safe (o : BackupOpts) (w : Writer) (basis : Option IndexEntry) (s : SrcEntry)
    (hb : ∀ b, basis = some b → entryUsable b = true) :
    Safe (fun _ => True) (copyFile H o w basis s) := by
  obtain ⟨ie, hie⟩ := metadataFrom_some o s
  unfold copyFile
  simp only [Prog.bind_def, Prog.pure_def, hie]
  cases basis with
  | none =>
    simp only []
    split
    · exact .ret trivial
    · split
      · refine Safe.bind' (combinerPush_safe H _ _ _) (fun r => ?_)
        repeat safe_step
      · refine Safe.bind' (storeFileContent_safe H _ _ _) (fun r => ?_)
        repeat safe_step
  | some b =>
    obtain ⟨r, hr⟩ := heuristicallyUnchanged_some s (hb b rfl)
    simp only [hr]
    cases r with
    | false =>
      simp only []
      split
      · exact .ret trivial
      · split
        · refine Safe.bind' (combinerPush_safe H _ _ _) (fun r => ?_)
          repeat safe_step
        · refine Safe.bind' (storeFileContent_safe H _ _ _) (fun r => ?_)
          repeat safe_step
    | true =>
      by_cases hall : (b.addrs.all fun a => w.exists_.contains a.hash) = true
      · simp only [hall, if_true]
        exact .ret trivial
      · simp only [hall, Bool.false_eq_true, if_false]
        split
        · exact .ret trivial
        · split
          · refine Safe.bind' (combinerPush_safe H _ _ _) (fun r => ?_)
            repeat safe_step
          · refine Safe.bind' (storeFileContent_safe H _ _ _) (fun r => ?_)
            repeat safe_step

theorem copyEntry_safe (o : BackupOpts) (w : Writer) (basis : Option IndexEntry) (s : SrcEntry)
    (hb : ∀ b, basis = some b → entryUsable b = true) :
    Safe (fun _ => True) (copyEntry H o w basis s) := by
  obtain ⟨ie, hie⟩ := metadataFrom_some o s
  unfold copyEntry
  simp only [Prog.pure_def, hie]
  split
  · exact .ret trivial
  · exact .ret trivial
  · exact copyFile_safe H o w basis s hb
  · exact .ret trivial

theorem finishHunk_safe (w : Writer) : Safe (fun _ => True) (finishHunk w) := by
  unfold finishHunk
  simp only [Prog.bind_def, Prog.pure_def]
  split
  · exact .ret trivial
  · split
    · refine Safe.bind' (performUnit_safe _) (fun _ => ?_)
      exact Safe.bind' (performUnit_safe _) (fun _ => .ret trivial)
    · exact Safe.bind' (performUnit_safe _) (fun _ => .ret trivial)

theorem flushGroup_safe (w : Writer) : Safe (fun _ => True) (flushGroup H w) := by
  unfold flushGroup
  simp only [Prog.bind_def]
  refine Safe.bind' (combinerFlush_safe H w) (fun r => ?_)
  split
  · exact .fail _
  · exact finishHunk_safe _

/-- The basis side of every merged pair passed `IndexEntry::check`. -/
def MatchedUsable (ms : List Matched) : Prop :=
  ∀ m ∈ ms, ∀ b s, m = .both b s → entryUsable b = true

theorem mergeTrees_usable (bs : List IndexEntry) (ss : List SrcEntry) (hbs : AllUsable bs) :
    MatchedUsable (mergeTrees bs ss) := by
  fun_induction mergeTrees bs ss with
  | case1 ss =>
    intro m hm b s hmb
    subst hmb
    simp at hm
  | case2 bs _ =>
    intro m hm b s hmb
    subst hmb
    simp at hm
  | case3 b bs s ss hc ih =>
    intro m hm b' s' hmb
    rcases List.mem_cons.mp hm with h | h
    · subst hmb
      cases h
      exact hbs _ (List.mem_cons_self ..)
    · exact ih (hbs.sub fun x hx => List.mem_cons_of_mem _ hx) m h b' s' hmb
  | case4 b bs s ss hc ih =>
    intro m hm b' s' hmb
    rcases List.mem_cons.mp hm with h | h
    · subst hmb; cases h
    · exact ih (hbs.sub fun x hx => List.mem_cons_of_mem _ hx) m h b' s' hmb
  | case5 b bs s ss hc ih =>
    intro m hm b' s' hmb
    rcases List.mem_cons.mp hm with h | h
    · subst hmb; cases h
    · exact ih hbs m h b' s' hmb

theorem backupLoop_safe (o : BackupOpts) (w : Writer) (ms : List Matched) (hms : MatchedUsable ms) :
    Safe (fun _ => True) (backupLoop H o w ms) := by
  induction ms generalizing w with
  | nil => exact .ret trivial
  | cons m rest ih =>
    have hrest : MatchedUsable rest := fun x hx => hms x (List.mem_cons_of_mem _ hx)
    cases m with
    | left b =>
      unfold backupLoop
      simp only [Prog.bind_def, report]
      exact .emit _ (Safe.bind' (Q1 := fun _ => True) (.ret trivial) (fun _ => ih _ hrest))
    | right s =>
      unfold backupLoop
      simp only [Prog.bind_def, Prog.pure_def, logError, report]
      refine Safe.bind' (copyEntry_safe H o w none s (fun _ h => nomatch h)) (fun x => ?_)
      repeat (first | exact ih _ hrest | exact flushGroup_safe H _ | safe_step)
    | both b s =>
      have hb : ∀ b', some b = some b' → entryUsable b' = true := fun b' h => by
        cases h
        exact hms _ (List.mem_cons_self ..) b s rfl
      unfold backupLoop
      simp only [Prog.bind_def, Prog.pure_def, logError, report]
      refine Safe.bind' (copyEntry_safe H o w (some b) s hb) (fun x => ?_)
      repeat (first | exact ih _ hrest | exact flushGroup_safe H _ | safe_step)

theorem bandCreate_safe : Safe (fun _ => True) bandCreate := by
  unfold bandCreate
  simp only [Prog.bind_def, Prog.pure_def]
  refine Safe.bind' lastBandId_safe (fun _ => ?_)
  refine Safe.bind' (performUnit_safe _) (fun _ => ?_)
  refine Safe.bind' (performUnit_safe _) (fun _ => ?_)
  exact Safe.bind' (performUnit_safe _) (fun _ => .ret trivial)

theorem backup_safe (o : BackupOpts) (src : List SrcEntry) : Safe (fun _ => True) (backup H o src) := by
  unfold backup
  simp only [Prog.bind_def, Prog.pure_def]
  refine Safe.bind' gcIsLocked_safe (fun locked => ?_)
  have htail : ∀ band blocks basis, AllUsable basis → Safe (fun _ => True)
      ((backupLoop H o { band := band, exists_ := blocks } (mergeTrees basis src)).bind fun w =>
          (flushGroup H w).bind fun w => (finishHunk w).bind fun w =>
            (bandClose w.band w.hunksWritten).bind fun _ => Prog.ret w.stats) := by
    intro band blocks basis hbasis
    refine Safe.bind' (backupLoop_safe H o _ _ (mergeTrees_usable basis src hbasis)) (fun w => ?_)
    refine Safe.bind' (flushGroup_safe H w) (fun w => ?_)
    refine Safe.bind' (finishHunk_safe w) (fun w => ?_)
    exact Safe.bind' (performUnit_safe _) (fun _ => .ret trivial)
  split
  · exact Safe.bind (Q1 := fun _ => False) (.fail _) (fun _ h => h.elim)
  refine Safe.bind' lastBandId_safe (fun basisBand => ?_)
  refine Safe.bind' bandCreate_safe (fun band => ?_)
  refine Safe.bind' gcLockListed_safe (fun locked2 => ?_)
  split
  · exact Safe.bind (Q1 := fun _ => False) (.fail _) (fun _ h => h.elim)
  refine Safe.bind' listBlocks_safe (fun blocks => ?_)
  cases basisBand with
  | none => exact htail _ _ _ AllUsable.nil
  | some b => exact Safe.bind (listEntries_safe b _ _) (fun basis hb => htail _ _ _ hb)

end
end Conserve.NP
