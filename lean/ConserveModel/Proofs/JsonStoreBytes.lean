import ConserveModel.Proofs.JsonStoreBackup
import ConserveModel.Proofs.ProducedOps
import ConserveModel.Proofs.GapKindsHist
import ConserveModel.Proofs.Blake2bVectors
import ConserveModel.Props.C13j
/-
C13 k, part 3: the bytes view of the JSON-carried files of the abstract store.

* `encodeFile` / `decodeFile`: from a `FileVal` to the (decompressed) bytes of the file and back, for
  index hunks, band heads and band tails.  The abstract store drops `start_time`, `end_time` and the
  text of `band_format_version` (it keeps its class, `VerClass`); `encodeFile` takes them as
  parameters (`Dropped`), `decodeFile` takes the classification of version strings as a parameter.
* `Placed`: JSON-carried values sit at the keys the layout gives them (a hunk value at a hunk key,
  a head at `BANDHEAD`, a tail at `BANDTAIL`), so that the path alone tells the reader which of the
  three parsers to use; kept by `backup` and `delete_bands` in every world (they are `FineOp`s).
* lifting of `StoreJsonGood` and `Placed` over the histories of `C13` (`C13.Step`, `C13.states`).
* `blake2bHex_hashHex`: the model of BLAKE2b-512 that the driver instantiates `H` with is `HashHex`.
No property statements here.
-/
namespace Conserve.JStore
open Conserve Conserve.Inv Conserve.Conf Conserve.Rng Conserve.Json Prog

/-! ### Encoding and decoding -/

/-- Which of the three JSON documents a file is. -/
inductive JsonKind
  | hunk | head | tail
  deriving DecidableEq, Repr

/-- By the layout: `bNNNN/i/DDDDD/NNNNNNNNN`, `bNNNN/BANDHEAD`, `bNNNN/BANDTAIL`. -/
def jsonKindOfKey : Key → Option JsonKind
  | .hunk _ _ => some .hunk
  | .bandHead _ => some .head
  | .bandTail _ => some .tail
  | _ => none

def jsonKindOfVal : FileVal → Option JsonKind
  | .hunk _ => some .hunk
  | .head _ _ => some .head
  | .tail _ => some .tail
  | _ => none

/-- What the abstract `FileVal` dropped of a head or tail: the time (`start_time` of a head,
`end_time` of a tail) and the text of `band_format_version`. -/
structure Dropped where
  time : Int := 0
  version : Option Str := none
  deriving DecidableEq, Repr

/-- The times are `i64`s and the version is a `String`. -/
def Dropped.wf (d : Dropped) : Prop :=
  -9223372036854775808 ≤ d.time ∧ d.time < 9223372036854775808 ∧ wfOptStr d.version = true

/-- The bytes (before Snappy, for a hunk) of a JSON-carried file. -/
def encodeFile (d : Dropped) : FileVal → Option Str
  | .hunk es => some (renderHunk es)
  | .head _ flags => some (renderHead { startTime := d.time, bandFormatVersion := d.version, formatFlags := flags })
  | .tail n => some (renderTail { endTime := d.time, indexHunkCount := n })
  | _ => none

/-- The abstract value of the bytes of a JSON-carried file; `cls` classifies `band_format_version`
(semver comparison with the program's version; not modelled). -/
def decodeFile (cls : Option Str → VerClass) : JsonKind → Str → Option FileVal
  | .hunk, b => (parseHunk b).map .hunk
  | .head, b => (parseHead b).map fun h => .head (cls h.bandFormatVersion) h.formatFlags
  | .tail, b => (parseTail b).map fun t => .tail t.indexHunkCount

/-- Reading back what was written gives the abstract value, for every JSON-carried value that is
`FileJsonGood`, whatever was dropped (as long as it classifies to the class the value records). -/
theorem decode_encode_val (cls : Option Str → VerClass) (d : Dropped) (hd : d.wf) {v : FileVal}
    (hv : FileJsonGood v) {jk : JsonKind} (hk : jsonKindOfVal v = some jk)
    (hcls : ∀ c fl, v = .head c fl → cls d.version = c) :
    ∃ b, encodeFile d v = some b ∧ decodeFile cls jk b = some v := by
  obtain ⟨h1, h2, h3⟩ := hd
  cases v with
  | hunk es =>
    cases hk
    exact ⟨_, rfl, by simp only [decodeFile, C13j.parse_render_hunk es hv]; rfl⟩
  | head c fl =>
    cases hk
    refine ⟨_, rfl, ?_⟩
    have hw : wfHead { startTime := d.time, bandFormatVersion := d.version, formatFlags := fl } = true := by
      simp only [wfHead, Bool.and_eq_true, decide_eq_true_eq, List.all_eq_true]
      exact ⟨⟨⟨h1, h2⟩, h3⟩, hv⟩
    simp only [decodeFile, parseHead_render _ hw, Option.map_some, hcls c fl rfl]
  | tail n =>
    cases hk
    refine ⟨_, rfl, ?_⟩
    have hw : wfTail { endTime := d.time, indexHunkCount := n } = true := by
      simp only [wfTail, Bool.and_eq_true, decide_eq_true_eq]
      refine ⟨⟨h1, h2⟩, ?_⟩
      cases n with
      | none => rfl
      | some n => exact decide_eq_true (show n < u64Bound from hv)
    simp only [decodeFile, parseTail_render _ hw, Option.map_some]
  | dir => cases hk
  | empty => cases hk
  | header _ => cases hk
  | blockData _ => cases hk
  | lock => cases hk
  | junk _ => cases hk

/-! ### JSON-carried values sit where the layout puts them -/

/-- A hunk value at a hunk key, a head at `BANDHEAD`, a tail at `BANDTAIL`. -/
def placed (k : Key) (v : FileVal) : Prop :=
  ∀ jk, jsonKindOfVal v = some jk → jsonKindOfKey k = some jk

def Placed (s : Store) : Prop := ∀ kv ∈ s, placed kv.1 kv.2

theorem Placed.get {s : Store} (h : Placed s) {k : Key} {v : FileVal} (hg : s.get? k = some v) :
    placed k v := h (k, v) (Store.mem_of_get?' hg)

theorem placed_put {s : Store} {k : Key} {v : FileVal} (h : Placed s) (hv : placed k v) : Placed (s.put k v) := by
  intro kv hm
  simp only [Store.put, Store.erase, List.mem_append, List.mem_filter, List.mem_singleton] at hm
  rcases hm with ⟨hm, _⟩ | rfl
  · exact h kv hm
  · exact hv

theorem placed_filter {s : Store} (p : Key × FileVal → Bool) (h : Placed s) : Placed (s.filter p) :=
  fun kv hm => h kv (List.mem_filter.mp hm).1

theorem FineOp.placed {k : Key} {v : FileVal} {m : WriteMode} (h : FineOp (.write k v m)) : placed k v := by
  obtain ⟨_, hv⟩ := h
  rcases hv with ⟨b, ver, fl, rfl, rfl⟩ | ⟨b, n, es, rfl, rfl⟩ | ⟨b, c, rfl, rfl⟩ | ⟨h, c, rfl, rfl⟩ | ⟨rfl, rfl⟩ <;>
    (intro jk hjk; cases hjk <;> rfl)

theorem applyOp_placed (e : Bool) {s : Store} {o : Op} (ho : FineOp o) (h : Placed s) :
    Placed (applyOp e s o).1 := by
  cases o with
  | read k => rw [applyOp_readOnly_store (by simp [ReadOnly])]; exact h
  | listDir k => rw [applyOp_readOnly_store (by simp [ReadOnly])]; exact h
  | metadata k => rw [applyOp_readOnly_store (by simp [ReadOnly])]; exact h
  | write k v m =>
    rcases applyOp_write_store e s k v m with ⟨_, hs⟩ | ⟨_, hs⟩
    · rw [hs]; exact placed_put h (FineOp.placed ho)
    · rw [hs]; exact h
  | createDir k =>
    rcases applyOp_createDir_store e s k with hs | ⟨_, hs⟩
    · rw [hs]; exact h
    · rw [hs]; exact placed_put h (fun _ hjk => nomatch hjk)
  | removeFile k =>
    simp only [applyOp]
    split
    · exact h
    · exact h
    · exact placed_filter _ h
  | removeDirAll k =>
    simp only [applyOp]
    split
    · exact h
    · exact placed_filter _ h

theorem exec_placed (w : World) {o : Op} (ho : FineOp o) (h : Placed w.store) : Placed (w.exec o).1.store := by
  rcases (World.exec_cases w o).2 with ⟨hs, _, _⟩ | ⟨k, v, m, _, _, hs, _, _⟩ | ⟨e, hs, _, _⟩ | ⟨hs, _, _⟩
  · rw [hs]; exact h
  · rw [hs]; exact placed_put h (fun _ hjk => nomatch hjk)
  · rw [hs]; exact h
  · rw [hs]; exact applyOp_placed _ ho h

theorem run_placed {α : Type} {p : Prog α} (hp : Prog.AllOps FineOp p) (w : World) (h : Placed w.store) :
    Placed (p.run w).2.store :=
  Prog.run_world_inv (P := FineOp) (I := fun w' => Placed w'.store)
    (fun _ _ h => h) (fun w' _ ho h' => exec_placed w' ho h') hp w h

theorem backup_placed (H : Str → Str) (o : BackupOpts) (src : List SrcEntry) (w : World) (h : Placed w.store) :
    Placed ((backup H o src).run w).2.store := run_placed (backup_fine H o src) w h

theorem delete_placed (strict : Bool) (D : List Nat) (o : DeleteOpts) (w : World) (h : Placed w.store) :
    Placed ((deleteBands strict D o).run w).2.store :=
  run_placed (AllOps.fine2_fine (deleteBands_fine2 strict D o)) w h

/-! ### Histories -/

/-- What is assumed of a step: a backup's source listing is `SrcJsonGood`; nothing of its world or
options, nothing of a delete. -/
def StepJ : C13.Step → Prop
  | .backup _ src _ => SrcJsonGood src
  | .delete _ _ _ => True

theorem step_sj {H : Str → Str} (hH : HashHex H) (st : C13.Step) (s : Store) (hok : StepJ st)
    (h : StoreJsonGood s) : StoreJsonGood (st.run H s) := by
  cases st with
  | backup o src w => exact backup_sj hH o hok { w with store := s } h
  | delete D opts w => exact delete_sj true D opts { w with store := s } h

theorem step_placed {H : Str → Str} (st : C13.Step) (s : Store) (h : Placed s) : Placed (st.run H s) := by
  cases st with
  | backup o src w => exact backup_placed H o src { w with store := s } h
  | delete D opts w => exact delete_placed true D opts { w with store := s } h

theorem emptyArchive_sj : StoreJsonGood C13.emptyArchive := by
  intro kv hkv
  simp only [C13.emptyArchive, List.mem_cons, List.not_mem_nil, or_false] at hkv
  rcases hkv with rfl | rfl | rfl <;> trivial

theorem emptyArchive_placed : Placed C13.emptyArchive := by
  intro kv hkv
  simp only [C13.emptyArchive, List.mem_cons, List.not_mem_nil, or_false] at hkv
  rcases hkv with rfl | rfl | rfl <;> (intro jk hjk; cases hjk)

theorem states_sj {H : Str → Str} (hH : HashHex H) (hist : List C13.Step) (hok : ∀ st ∈ hist, StepJ st)
    (s : Store) (h : StoreJsonGood s) : ∀ s' ∈ C13.states H hist s, StoreJsonGood s' :=
  Gaps.Kinds.states_inv (H := H) (I := StoreJsonGood) (A := StepJ) (fun st s hA hI => step_sj hH st s hA hI)
    hist hok s h

theorem states_placed {H : Str → Str} (hist : List C13.Step) (s : Store) (h : Placed s) :
    ∀ s' ∈ C13.states H hist s, Placed s' :=
  Gaps.Kinds.states_inv (H := H) (I := Placed) (A := fun _ => True) (fun st s _ hI => step_placed st s hI)
    hist (fun _ _ => trivial) s h

/-! ### The model's BLAKE2b-512 is `HashHex` -/

open Blake2b in
theorem and_ff_lt (w : UInt64) : (w &&& 0xff).toNat < 256 := by
  rw [UInt64.toNat_and]
  have : w.toNat &&& (0xff : UInt64).toNat ≤ (0xff : UInt64).toNat := Nat.and_le_right
  have h2 : (0xff : UInt64).toNat = 255 := by decide
  omega

theorem shr56_lt (w : UInt64) : (w >>> 56).toNat < 256 := by
  rw [UInt64.toNat_shiftRight]
  have := w.toNat_lt
  have h2 : (56 : UInt64).toNat % 64 = 56 := by decide
  rw [h2, Nat.shiftRight_eq_div_pow]
  omega

open Blake2b in
theorem wordBytes_lt (w : UInt64) (acc : List Nat) (h : ∀ b ∈ acc, b < 256) :
    ∀ b ∈ wordBytes w acc, b < 256 := by
  intro b hb
  simp only [wordBytes, List.mem_cons] at hb
  rcases hb with rfl | rfl | rfl | rfl | rfl | rfl | rfl | rfl | hb
  all_goals first | exact and_ff_lt _ | exact shr56_lt _ | exact h b hb

open Blake2b in
theorem foldr_wordBytes_lt (l : List UInt64) : ∀ b ∈ l.foldr wordBytes [], b < 256 := by
  induction l with
  | nil => intro b hb; cases hb
  | cons w l ih => exact wordBytes_lt w _ ih

/-- Every byte of the digest is a byte. -/
theorem blake2b512_lt (msg : List Nat) : ∀ b ∈ blake2b512 msg, b < 256 := by
  unfold blake2b512
  simp only []
  rw [← Array.foldr_toList]
  exact foldr_wordBytes_lt _

open Blake2b in
theorem hexDigitCode_lower (n : Nat) (h : n < 16) : isLowerHex (hexDigitCode n) = true := by
  unfold hexDigitCode isLowerHex
  split <;> simp <;> omega

/-- The file name the model's BLAKE2b-512 gives a block is 128 lower-case hex digits, for every
content. -/
theorem blake2bHex_hashHex : HashHex blake2bHex := by
  intro msg
  unfold wfHash
  rw [blake2bHex_length]
  simp only [beq_self_eq_true, Bool.true_and, List.all_eq_true]
  intro c hc
  unfold blake2bHex at hc
  rw [List.mem_flatMap] at hc
  obtain ⟨b, hb, hc⟩ := hc
  have := blake2b512_lt msg b hb
  simp only [List.mem_cons, List.not_mem_nil, or_false] at hc
  rcases hc with rfl | rfl
  · exact hexDigitCode_lower _ (by omega)
  · exact hexDigitCode_lower _ (by omega)

/-! ### `HashHex` and injectivity exclude each other -/

/-- The sixteen lower-case hex digits. -/
def hexDigits : List Nat := [48, 49, 50, 51, 52, 53, 54, 55, 56, 57, 97, 98, 99, 100, 101, 102]

theorem mem_hexDigits {c : Nat} (h : isLowerHex c = true) : c ∈ hexDigits := by
  simp only [isLowerHex, Bool.or_eq_true, Bool.and_eq_true, decide_eq_true_eq] at h
  simp only [hexDigits, List.mem_cons, List.not_mem_nil, or_false]
  omega

/-- All strings of `n` lower-case hex digits. -/
def allHex : Nat → List Str
  | 0 => [[]]
  | n + 1 => (allHex n).flatMap fun s => hexDigits.map (· :: s)

theorem mem_allHex : ∀ (n : Nat) (s : Str), s.length = n → s.all isLowerHex = true → s ∈ allHex n
  | 0, s, hl, _ => by
    have : s = [] := List.eq_nil_of_length_eq_zero hl
    simp [this, allHex]
  | n + 1, [], hl, _ => by simp at hl
  | n + 1, c :: s, hl, ha => by
    simp only [List.all_cons, Bool.and_eq_true] at ha
    simp only [allHex, List.mem_flatMap, List.mem_map]
    exact ⟨s, mem_allHex n s (by simpa using hl) ha.2, c, mem_hexDigits ha.1, rfl⟩

/-- **No `HashHex` function is injective**: there are only finitely many names of 128 hex digits.
(C13 and others assume `Function.Injective H` — the usual idealisation "no collisions"; the two
hypotheses cannot be made about the same `H`.) -/
theorem hashHex_not_injective {H : Str → Str} (hH : HashHex H) : ¬ Function.Injective H := by
  intro hinj
  let N := (allHex 128).length
  let inputs : List Str := (List.range (N + 1)).map fun i => List.replicate i 0
  have hnd : inputs.Nodup := by
    refine List.Pairwise.map _ ?_ List.nodup_range
    intro a b hab h
    exact hab (by simpa using congrArg List.length h)
  have hnd2 : (inputs.map H).Nodup := List.Pairwise.map _ (fun a b hab h => hab (hinj h)) hnd
  have hsub : inputs.map H ⊆ allHex 128 := by
    intro x hx
    obtain ⟨d, _, rfl⟩ := List.mem_map.mp hx
    have := hH d
    simp only [wfHash, Bool.and_eq_true, beq_iff_eq] at this
    exact mem_allHex 128 _ this.1 this.2
  have := hnd2.length_le_of_subset hsub
  simp only [inputs, N, List.length_map, List.length_range] at this
  omega

end Conserve.JStore
