import ConserveModel.Proofs.NoPanicDelete
/-
The index reader with the hunk reader as a parameter, so that the code before the repair of D9
(entries used as decoded, without `IndexEntry::check`) can be run next to the repaired code.
`listEntriesW readHunk = listEntries` shows the parametrised copy IS the model.
No property statements here.
-/
namespace Conserve.NP
open Conserve Prog

/-- `IndexRead::read_hunk` before the repair: whatever decodes is returned. -/
def readHunkUnchecked (b n : Nat) : Prog (Option (List IndexEntry)) := do
  match ← perform (.read (.hunk b n)) with
  | .err .notFound => pure none
  | .err e => .fail (.transport e)
  | .val (.hunk es) => pure (some es)
  | .val .empty => pure (some [])
  | .val _ => .fail .json
  | _ => .fail (.transport .other)

section
variable (rd : Nat → Nat → Prog (Option (List IndexEntry)))

/-- `readHunks` (IndexRead.lean) over the reader `rd`. -/
def readHunksW (b : Nat) : List Nat → Option Str → Option Str → Prog (List IndexEntry × Option Str)
  | [], _, last => pure ([], last)
  | n :: rest, after, last => do
    match ← (rd b n).attempt with
    | .ok none => pure ([], last)
    | .error e =>
      logError e
      readHunksW b rest after last
    | .ok (some es) =>
      match after with
      | some a =>
        if (match es.getLast? with | some (l : IndexEntry) => apathLe l.apath a | none => false) then
          readHunksW b rest after last
        else if (match es.head? with | some (f : IndexEntry) => apathCmp f.apath a == Ordering.gt | none => false) then
          let (more, last') ← readHunksW b rest none (es.getLast?.map (fun (l : IndexEntry) => l.apath))
          pure (es ++ more, last')
        else
          let part := trimAfter a es
          let last1 := match part.getLast? with | some (l : IndexEntry) => some l.apath | none => last
          let (more, last') ← readHunksW b rest after last1
          pure (part ++ more, last')
      | none =>
        if es.isEmpty then readHunksW b rest none last
        else
          let (more, last') ← readHunksW b rest none (es.getLast?.map (fun (l : IndexEntry) => l.apath))
          pure (es ++ more, last')

/-- `readBand` over the reader `rd`. -/
def readBandW (b : Nat) (last : Option Str) : Prog (List IndexEntry × Option Str) := do
  match ← (bandOpen b).attempt with
  | .error e =>
    logError e
    pure ([], last)
  | .ok () =>
    match ← (hunksAvailable b).attempt with
    | .error e =>
      logError e
      pure ([], last)
    | .ok hunks =>
      match ← (checkIndexHunks b).attempt with
      | .error e => logError e
      | .ok () => pure ()
      readHunksW rd b hunks last last

/-- `stitchDown` over the reader `rd`. -/
def stitchDownW : Nat → Option Str → Prog (List IndexEntry)
  | 0, _ => pure []
  | b + 1, last => do
    if ← unwrapOr (bandExists b) false then
      let (es, last') ← readBandW rd b last
      if ← unwrapOr (bandIsClosed b) false then pure es
      else
        let more ← stitchDownW b last'
        pure (es ++ more)
    else
      if ← unwrapOr (isFile (.hunk b 0)) false then logError (.bandHeadMissing b)
      stitchDownW b last

/-- `stitchAll` over the reader `rd`. -/
def stitchAllW (b : Nat) : Prog (List IndexEntry) := do
  let (es, last) ← readBandW rd b none
  if ← unwrapOr (bandIsClosed b) false then pure es
  else
    let more ← stitchDownW rd b last
    pure (es ++ more)

/-- `listEntries` over the reader `rd`. -/
def listEntriesW (b : Nat) (subtree : Str) (excl : Str → Bool) : Prog (List IndexEntry) := do
  filterEntries subtree excl (← stitchAllW rd b)

/-- `restore` for a specified version over the reader `rd`. -/
def restoreW (H : Str → Str) (b : Nat) (subtree : Str) (excl : Str → Bool) : Prog (List RNode) := do
  bandOpen b
  let _ ← listBlocks
  let es ← listEntriesW rd b subtree excl
  restoreEntries H [] es

end

theorem readHunksW_checked (b : Nat) (ns : List Nat) (after last : Option Str) :
    readHunksW readHunk b ns after last = readHunks b ns after last := by
  induction ns generalizing after last with
  | nil => rfl
  | cons n rest ih =>
    unfold readHunksW readHunks
    simp only [ih]
    rfl

theorem readBandW_checked (b : Nat) (last : Option Str) : readBandW readHunk b last = readBand b last := by
  unfold readBandW readBand
  simp only [readHunksW_checked]
  rfl

theorem stitchDownW_checked (b : Nat) (last : Option Str) :
    stitchDownW readHunk b last = stitchDown b last := by
  induction b generalizing last with
  | zero => rfl
  | succ b ih =>
    unfold stitchDownW stitchDown
    simp only [ih, readBandW_checked]

theorem stitchAllW_checked (b : Nat) : stitchAllW readHunk b = stitchAll b := by
  unfold stitchAllW stitchAll
  simp only [stitchDownW_checked, readBandW_checked]

/-- With the checked reader the parametrised listing is the model's listing. -/
theorem listEntriesW_checked (b : Nat) (subtree : Str) (excl : Str → Bool) :
    listEntriesW readHunk b subtree excl = listEntries b subtree excl := by
  unfold listEntriesW listEntries
  simp only [stitchAllW_checked]

theorem restoreW_checked (H : Str → Str) (b : Nat) (subtree : Str) (excl : Str → Bool) :
    restoreW readHunk H b subtree excl = restore H (.specified b) subtree excl := by
  unfold restoreW restore resolveBandId
  simp only [listEntriesW_checked]
  rfl

/-- The panic site of an outcome, if it is a panic. -/
def panicSite? {α : Type} : Outcome α → Option String
  | .panic s => some s
  | _ => none

theorem panicSite?_eq_some {α : Type} {o : Outcome α} {site : String} :
    panicSite? o = some site ↔ o = .panic site := by
  cases o <;> simp [panicSite?]

/-- The error of an outcome, if it is a conserve error. -/
def errOf? {α : Type} : Outcome α → Option Err
  | .err e => some e
  | _ => none

theorem errOf?_eq_some {α : Type} {o : Outcome α} {e : Err} : errOf? o = some e ↔ o = .err e := by
  cases o <;> simp [errOf?]

/-- The value of an outcome, if it is one. -/
def okOf? {α : Type} : Outcome α → Option α
  | .ok a => some a
  | _ => none

theorem okOf?_eq_some {α : Type} {o : Outcome α} {a : α} : okOf? o = some a ↔ o = .ok a := by
  cases o <;> simp [okOf?]

/-- A one-version archive whose only hunk holds the single entry `e`. -/
def oneEntryStore (e : IndexEntry) : Store :=
  [ (.root, .dir), (.header, .header [48, 46, 54]), (.blockRoot, .dir),
    (.bandDir 0, .dir), (.bandHead 0, .head .ok []), (.indexDir 0, .dir),
    (.hunkDir 0 0, .dir), (.hunk 0 0, .hunk [e]), (.bandTail 0, .tail (some 1)) ]

/-- A directory entry as conserve writes it. -/
def dirEntry (p : Str) : IndexEntry :=
  { apath := p, kind := .dir, mtime := 0, mtimeNanos := 0, unixMode := some 493,
    user := none, group := none, addrs := [], target := none }

end Conserve.NP
