import ConserveModel.Proofs.ConformsLoop
import ConserveModel.Proofs.CleanWorld
/-
C13: the main loop, `Band::create`, the prelude and `backup()` as a whole in all worlds
(`backup_csat`).  No property statements here.
-/
namespace Conserve.Conf
open Conserve Conserve.Inv Prog

section
variable {H : Str → Str}

/-- `StepOf`, remembering that an entry is only recorded for a known kind. -/
def StepOf' (o : BackupOpts) (sf : SrcEntry) (wr wr' : Writer) : Prop :=
  ∃ xs, (xs = [] ∨ (xs = [sig (metaOf o sf)] ∧ sf.kind ≠ .unknown)) ∧ BufStep wr wr' xs

theorem copyEntry_ret' (H : Str → Str) (o : BackupOpts) (wr : Writer) (basis : Option IndexEntry)
    (sf : SrcEntry) : RetSpec (copyEntry H o wr basis sf) (fun x => StepOf' o sf wr x.1) := by
  unfold copyEntry
  simp only [metadataFrom_eq, Prog.pure_def]
  cases hk : sf.kind with
  | file =>
    refine (copyFile_ret H o wr basis sf).mono ?_
    rintro x ⟨xs, hxs, hstep⟩
    refine ⟨xs, ?_, hstep⟩
    rcases hxs with h | h
    · exact Or.inl h
    · exact Or.inr ⟨h, by rw [hk]; exact fun h => nomatch h⟩
  | dir =>
    exact RetSpec.ret ⟨_, Or.inr ⟨rfl, by rw [hk]; exact fun h => nomatch h⟩, BufStep.pushPending wr _ _⟩
  | symlink =>
    exact RetSpec.ret ⟨_, Or.inr ⟨rfl, by rw [hk]; exact fun h => nomatch h⟩, BufStep.pushPending wr _ _⟩
  | unknown => exact RetSpec.ret ⟨[], Or.inl rfl, BufStep.of_eq rfl rfl rfl rfl⟩

/-- `copy_entry` in every world: the writer invariant, `CI`, non-block keys untouched, and the pure
step relation on the writer. -/
theorem copyEntry_csat (hinj : Function.Injective H) (hlen : HashLen H) (o : BackupOpts)
    (wr : Writer) (basis : Option IndexEntry) (sf : SrcEntry) (w : World) (hw : CWOK H w)
    (hwr : W2 H w.store wr)
    (hbasis : ∀ b, basis = some b → b.kind = .file → ∀ a ∈ b.addrs, (readAddrPure H w.store a).isSome = true) :
    CSat H (copyEntry H o wr basis sf) w (fun x w' =>
      (W2 H w'.store x.1 ∧ NonBlockSame w.store w'.store) ∧ StepOf' o sf wr x.1) :=
  ((copyEntry_w2 hinj hlen o wr basis sf w hw hwr hbasis).and_post
    (CSat.of_blk hlen (copyEntry_blk H o wr basis sf) hw)).and_ret (copyEntry_ret' H o wr basis sf)

theorem LoopSt.step {o : BackupOpts} {sf : SrcEntry} {todo : List SrcEntry} {hs : List (List IndexEntry)}
    {s s1 : Store} {wr wr1 : Writer} (hst : LoopSt H (sf :: todo) hs s wr) (hsrc : SrcOK (sf :: todo))
    (hwr1 : W2 H s1 wr1) (hsame : NonBlockSame s s1) (hx : Extends s s1)
    (hstep : StepOf' o sf wr wr1) : LoopSt H todo hs s1 wr1 := by
  obtain ⟨xs, hxs, hb⟩ := hstep
  exact ⟨hwr1, by rw [hb.band]; exact hst.band.same (hsame.bandKeys _), hst.hsok.mono hx,
    by rw [hst.len, hb.seq], by rw [hb.hw, hb.seq]; exact hst.count, hst.buf.step hsrc hxs hb.perm⟩

/-- What the loop needs of one merged pair: a basis FILE entry's addresses resolve. -/
def MatchedAddr (H : Str → Str) (s : Store) : Matched → Prop
  | .both b _ => b.kind = .file → ∀ a ∈ b.addrs, (readAddrPure H s a).isSome = true
  | _ => True

theorem MatchedAddr.mono {s s' : Store} {m : Matched} (h : MatchedAddr H s m) (hx : Extends s s') :
    MatchedAddr H s' m := by
  cases m with
  | left b => trivial
  | right sf => trivial
  | both b sf =>
    intro hk a ha
    obtain ⟨x, hx'⟩ := Option.isSome_iff_exists.mp (h hk a ha)
    rw [readAddrPure_mono H hx' hx]; rfl

theorem LoopSt.setStats {todo : List SrcEntry} {hs : List (List IndexEntry)} {s : Store} {wr : Writer}
    (hst : LoopSt H todo hs s wr) (st : Stats) : LoopSt H todo hs s { wr with stats := st } :=
  ⟨hst.wok.setStats st, hst.band, hst.hsok, hst.len, hst.count, hst.buf⟩

/-- The source entries a merged list still holds, in order. -/
def srcOf : List Matched → List SrcEntry
  | [] => []
  | .left _ :: r => srcOf r
  | .right s :: r => s :: srcOf r
  | .both _ s :: r => s :: srcOf r

theorem srcOf_map_right (ss : List SrcEntry) : srcOf (ss.map .right) = ss := by
  induction ss with
  | nil => rfl
  | cons s ss ih => simp [srcOf, ih]

theorem srcOf_map_left (bs : List IndexEntry) : srcOf (bs.map .left) = [] := by
  induction bs with
  | nil => rfl
  | cons b bs ih => simp [srcOf, ih]

theorem srcOf_mergeTrees (bs : List IndexEntry) (ss : List SrcEntry) : srcOf (mergeTrees bs ss) = ss := by
  fun_induction mergeTrees bs ss with
  | case1 ss => exact srcOf_map_right ss
  | case2 bs _ => exact srcOf_map_left bs
  | case3 b bs x ss hcmp ih => simp [srcOf, ih]
  | case4 b bs x ss hcmp ih => simp [srcOf, ih]
  | case5 b bs x ss hcmp ih => simp [srcOf, ih]

/-- After `copy_entry`: log or report, maybe flush the group, go on. -/
theorem loopCont_csat (hinj : Function.Injective H) (hlen : HashLen H) (o : BackupOpts) (sf : SrcEntry)
    (rest : List Matched)
    (ih : ∀ wr w hs, CWOK H w → LoopSt H (srcOf rest) hs w.store wr →
      (∀ m ∈ rest, MatchedAddr H w.store m) →
      CSat H (backupLoop H o wr rest) w (fun wr' w' => ∃ hs', LoopSt H [] hs' w'.store wr'))
    (x : Writer × Except Err (Option ChangeKind)) (w : World) (hs : List (List IndexEntry))
    (hw : CWOK H w) (hst : LoopSt H (srcOf rest) hs w.store x.1)
    (hms : ∀ m ∈ rest, MatchedAddr H w.store m) :
    CSat H (loopCont H o sf rest x) w (fun wr' w' => ∃ hs', LoopSt H [] hs' w'.store wr') := by
  obtain ⟨wr, r⟩ := x
  cases r with
  | error e =>
    simp only [loopCont, logError, Prog.emit_bind, Prog.ret_bind]
    apply CSat.emit
    exact ih _ _ hs (hw.events _) (hst.setStats _) hms
  | ok ch =>
    have hrest : ∀ w1 : World, CWOK H w1 → w1.store = w.store →
        CSat H ((if wr.pending.length + wr.queue.length ≥ o.maxEntriesPerHunk then flushGroup H wr
            else Prog.ret wr).bind fun w => backupLoop H o w rest) w1
          (fun wr' w' => ∃ hs', LoopSt H [] hs' w'.store wr') := by
      intro w1 hw1 hstore
      have hst1 : LoopSt H (srcOf rest) hs w1.store wr := by rw [hstore]; exact hst
      have hms1 : ∀ m ∈ rest, MatchedAddr H w1.store m := by rw [hstore]; exact hms
      apply CSat.bind
      split
      · refine (flushGroup_csat hinj hlen wr w1 _ hs hw1 hst1).mono ?_
        rintro wr2 w2 hf2 ⟨hs2, hst2, _, _⟩
        exact ih wr2 w2 hs2 hf2.wok hst2 (fun m hm => (hms1 m hm).mono hf2.ext)
      · exact CSat.ret hw1 (ih wr w1 hs hw1 hst1 hms1)
    cases ch with
    | none =>
      simp only [loopCont, Prog.ret_bind]
      exact hrest w hw rfl
    | some ck =>
      simp only [loopCont, report, Prog.emit_bind, Prog.ret_bind]
      apply CSat.emit
      exact hrest _ (hw.events _) rfl

/-- The main loop of `backup()` in every world: the archive conforms at the end whatever
happened (and, every crash point being the end of some world's run, at every point in between);
on normal termination the loop invariant holds with nothing left to process. -/
theorem backupLoop_csat (hinj : Function.Injective H) (hlen : HashLen H) (o : BackupOpts)
    (ms : List Matched) :
    ∀ (wr : Writer) (w : World) (hs : List (List IndexEntry)), CWOK H w →
      LoopSt H (srcOf ms) hs w.store wr → SrcOK (srcOf ms) → (∀ m ∈ ms, MatchedAddr H w.store m) →
      CSat H (backupLoop H o wr ms) w (fun wr' w' => ∃ hs', LoopSt H [] hs' w'.store wr') := by
  induction ms with
  | nil =>
    intro wr w hs hw hst _ _
    rw [backupLoop]
    exact CSat.ret hw ⟨hs, hst⟩
  | cons m rest ih =>
    intro wr w hs hw hst hsrc hms
    have hrest : ∀ m ∈ rest, MatchedAddr H w.store m := fun m hm => hms m (List.mem_cons_of_mem _ hm)
    have hm := hms m (List.mem_cons_self ..)
    cases m with
    | left b =>
      rw [backupLoop_left]
      simp only [report, Prog.emit_bind, Prog.ret_bind]
      apply CSat.emit
      exact ih wr _ hs (hw.events _) hst hsrc hrest
    | right sf =>
      have hsrc' : SrcOK (srcOf rest) := hsrc.tail
      rw [backupLoop_right]
      apply CSat.bind
      refine (copyEntry_csat hinj hlen o wr none sf w hw hst.wok (fun _ h => nomatch h)).mono ?_
      rintro x w1 hf1 ⟨⟨hwr1, hsame⟩, hstep⟩
      exact loopCont_csat hinj hlen o sf rest (fun wr w hs hw hst hms => ih wr w hs hw hst hsrc' hms) x w1 hs
        hf1.wok (hst.step hsrc hwr1 hsame hf1.ext hstep) (fun m hm => (hrest m hm).mono hf1.ext)
    | both b sf =>
      have hsrc' : SrcOK (srcOf rest) := hsrc.tail
      rw [backupLoop_both]
      apply CSat.bind
      refine (copyEntry_csat hinj hlen o wr (some b) sf w hw hst.wok ?_).mono ?_
      · intro b' hb' hkf
        cases hb'
        exact hm hkf
      · rintro x w1 hf1 ⟨⟨hwr1, hsame⟩, hstep⟩
        exact loopCont_csat hinj hlen o sf rest (fun wr w hs hw hst hms => ih wr w hs hw hst hsrc' hms) x w1 hs
          hf1.wok (hst.step hsrc hwr1 hsame hf1.ext hstep) (fun m hm => (hrest m hm).mono hf1.ext)

end

end Conserve.Conf
