import ConserveModel.Proofs.ProducedBackup
import ConserveModel.Proofs.ExactStore
/-
C09 (first sentence) / C14: exactly which operations `backup` and `delete_bands` issue (`FineOp`;
`Fine2` = those other than creating a version directory / index directory or writing a head, i.e.
everything but `Band::create`), and two store invariants every such operation keeps in EVERY world:
* `HeadsOK` — every version directory has a readable head and an index directory (kept by `Fine2`);
* `KindsOK` — directories where the layout has directories, files where it has files (kept by `FineOp`).
No property statements here.
-/
namespace Conserve.Rng
open Conserve Conserve.Inv Conserve.Conf Prog

/-- The operations `backup` and `delete_bands` issue. -/
def FineOp : Op → Prop
  | .read _ | .listDir _ | .metadata _ => True
  | .createDir k => (∃ b, k = .bandDir b) ∨ (∃ b, k = .indexDir b) ∨ (∃ b d, k = .hunkDir b d) ∨ (∃ p, k = .blockDir p)
  | .write k v m => m = .createNew ∧
      ((∃ b ver fl, k = .bandHead b ∧ v = .head ver fl) ∨ (∃ b n es, k = .hunk b n ∧ v = .hunk es) ∨
       (∃ b c, k = .bandTail b ∧ v = .tail c) ∨ (∃ h c, k = .block h ∧ v = .blockData c) ∨
       (k = .gcLock ∧ v = .lock))
  | .removeFile k => k = .gcLock ∨ ∃ h, k = .block h
  | .removeDirAll k => ∃ b, k = .bandDir b

/-- … other than the three of `Band::create`. -/
def Fine2 (o : Op) : Prop := FineOp o ∧ ¬ isHeadWrite o ∧ ¬ isBandDirCreate o

theorem ReadOnly.fine2 {o : Op} (h : ReadOnly o) : Fine2 o := by
  cases o <;> simp_all [ReadOnly, Fine2, FineOp, isHeadWrite, isBandDirCreate]

theorem AllOps.ro_fine2 {α : Type} {p : Prog α} (h : Prog.AllOps ReadOnly p) : Prog.AllOps Fine2 p :=
  h.mono fun _ => ReadOnly.fine2

theorem AllOps.fine2_fine {α : Type} {p : Prog α} (h : Prog.AllOps Fine2 p) : Prog.AllOps FineOp p :=
  h.mono fun _ h => h.1

macro "fine_side" : tactic =>
  `(tactic| first
    | assumption
    | focus (simp [Fine2, FineOp, isHeadWrite, isBandDirCreate]; done))

/-- Structural proof of `AllOps Fine2 prog` / `AllOps FineOp prog` (as `allops` of Proofs/FrameOps.lean). -/
syntax "fineops" ("[" term,* "]")? : tactic
macro_rules
  | `(tactic| fineops) => `(tactic| fineops [])
  | `(tactic| fineops [$ts,*]) => do
    let mut alts : Array (Lean.TSyntax `Lean.Parser.Tactic.tacticSeq) := #[]
    for t in ts.getElems do
      alts := alts.push (← `(tacticSeq| apply $t))
      alts := alts.push (← `(tacticSeq| (apply AllOps.ro_fine2; apply $t)))
      alts := alts.push (← `(tacticSeq| (apply AllOps.fine2_fine; apply $t)))
      alts := alts.push (← `(tacticSeq| (apply AllOps.fine2_fine; apply AllOps.ro_fine2; apply $t)))
    `(tactic| repeat (first
      | exact Prog.AllOps.ret _
      | exact Prog.AllOps.fail _
      | exact Prog.AllOps.panic _
      | exact Prog.AllOps.logError _
      | exact Prog.AllOps.report _
      | assumption
      | (first $[| $alts]* | fail)
      | (apply Prog.AllOps.perform; fine_side)
      | apply Prog.AllOps.emit
      | apply Prog.AllOps.bind
      | apply Prog.AllOps.attempt
      | apply Prog.AllOps.attemptAll
      | (apply Prog.AllOps.op; fine_side)
      | fine_side
      | intro _
      | split
      | simp only [Prog.bind_def, Prog.pure_def]
      | dsimp only))

/-! ### Which operations each function issues -/

theorem bandClose_fine2 (b hunks : Nat) : AllOps Fine2 (bandClose b hunks) := by
  unfold bandClose; fineops [performUnit_allOps]

section
variable (H : Str → Str)

theorem storeOrDedup_fine2 (w : Writer) (data : Str) : AllOps Fine2 (storeOrDedup H w data) := by
  unfold storeOrDedup; fineops

theorem combinerFlush_fine2 (w : Writer) : AllOps Fine2 (combinerFlush H w) := by
  unfold combinerFlush; fineops [storeOrDedup_fine2]

theorem combinerPush_fine2 (o : BackupOpts) (w : Writer) (s : SrcEntry) : AllOps Fine2 (combinerPush H o w s) := by
  unfold combinerPush; fineops [combinerFlush_fine2]

theorem storeChunks_fine2 (w : Writer) (cs : List Str) (acc : List Addr) : AllOps Fine2 (storeChunks H w cs acc) := by
  induction cs generalizing w acc with
  | nil => unfold storeChunks; fineops
  | cons c cs ih => unfold storeChunks; fineops [storeOrDedup_fine2, ih]

theorem storeFileContent_fine2 (o : BackupOpts) (w : Writer) (s : SrcEntry) :
    AllOps Fine2 (storeFileContent H o w s) := by
  unfold storeFileContent; fineops [storeChunks_fine2]

theorem copyFile_fine2 (o : BackupOpts) (w : Writer) (basis : Option IndexEntry) (s : SrcEntry) :
    AllOps Fine2 (copyFile H o w basis s) := by
  unfold copyFile; fineops [combinerPush_fine2, storeFileContent_fine2]

theorem copyEntry_fine2 (o : BackupOpts) (w : Writer) (basis : Option IndexEntry) (s : SrcEntry) :
    AllOps Fine2 (copyEntry H o w basis s) := by
  unfold copyEntry; fineops [copyFile_fine2]

theorem finishHunk_fine2 (w : Writer) : AllOps Fine2 (finishHunk w) := by
  unfold finishHunk; fineops [performUnit_allOps]

theorem flushGroup_fine2 (w : Writer) : AllOps Fine2 (flushGroup H w) := by
  unfold flushGroup; fineops [combinerFlush_fine2, finishHunk_fine2]

theorem backupLoop_fine2 (o : BackupOpts) (w : Writer) (ms : List Matched) :
    AllOps Fine2 (backupLoop H o w ms) := by
  induction ms generalizing w with
  | nil => unfold backupLoop; fineops
  | cons m ms ih =>
    cases m with
    | left b => simp only [backupLoop]; fineops [ih]
    | right s => simp only [backupLoop]; fineops [copyEntry_fine2, flushGroup_fine2, ih]
    | both b s => simp only [backupLoop]; fineops [copyEntry_fine2, flushGroup_fine2, ih]

theorem backupMain_fine2 (o : BackupOpts) (src : List SrcEntry) (x : Nat × List Str × List IndexEntry) :
    AllOps Fine2 (backupMain H o src x) := by
  unfold backupMain
  fineops [backupLoop_fine2, flushGroup_fine2, finishHunk_fine2, bandClose_fine2]

end

theorem bandCreate_fine : AllOps FineOp bandCreate := by
  unfold bandCreate; fineops [_root_.Conserve.lastBandId_ro, performUnit_allOps]

theorem backupPrelude_fine : AllOps FineOp backupPrelude := by
  unfold backupPrelude
  fineops [_root_.Conserve.gcIsLocked_ro, _root_.Conserve.lastBandId_ro, bandCreate_fine,
    _root_.Conserve.listBlocks_ro, _root_.Conserve.listEntries_ro]

theorem backup_fine (H : Str → Str) (o : BackupOpts) (src : List SrcEntry) : AllOps FineOp (backup H o src) := by
  rw [backup_eq]
  exact AllOps.bind backupPrelude_fine fun x => AllOps.fine2_fine (backupMain_fine2 H o src x)

/-! #### `delete_bands` -/

theorem gcLockNew_fine2 : AllOps Fine2 gcLockNew := by
  unfold gcLockNew
  fineops [_root_.Conserve.lastBandId_ro, _root_.Conserve.bandIsClosed_ro, unwrapOr_allOps,
    _root_.Conserve.isFile_ro, performUnit_allOps]

theorem gcBreakLock_fine2 : AllOps Fine2 gcBreakLock := by
  unfold gcBreakLock
  have h1 : AllOps Fine2 gcIsLocked := AllOps.ro_fine2 _root_.Conserve.gcIsLocked_ro
  have h2 := gcLockNew_fine2
  fineops [performUnit_allOps]

theorem gcLockRelease_fine2 : AllOps Fine2 gcLockRelease := by
  unfold gcLockRelease
  exact performUnit_allOps (by fine_side)

theorem gcLockDrop_fine2 : AllOps Fine2 gcLockDrop := by
  unfold gcLockDrop; fineops

theorem gcLockReleaseOnError_fine2 : AllOps Fine2 gcLockReleaseOnError := by
  unfold gcLockReleaseOnError
  have h4 := gcLockDrop_fine2
  fineops

theorem bandDelete_fine2 (b : Nat) : AllOps Fine2 (bandDelete b) := by
  unfold bandDelete; fineops

theorem delBands_fine2 (bs : List Nat) (n : Nat) : AllOps Fine2 (deleteBody.delBands bs n) := by
  induction bs generalizing n with
  | nil => unfold deleteBody.delBands; fineops
  | cons b bs ih =>
    unfold deleteBody.delBands
    have h1 := bandDelete_fine2 b
    fineops [ih]

theorem delBlocks_fine2 (hs : List Str) (errs : Nat) : AllOps Fine2 (deleteBody.delBlocks hs errs) := by
  induction hs generalizing errs with
  | nil => unfold deleteBody.delBlocks; fineops
  | cons h hs ih => unfold deleteBody.delBlocks; fineops [ih]

theorem deleteBody_fine2 (strict : Bool) (D : List Nat) (o : DeleteOpts) (held : Option Nat) :
    AllOps Fine2 (deleteBody strict D o held) := by
  unfold deleteBody
  have h1 : AllOps Fine2 listBandIds := AllOps.ro_fine2 _root_.Conserve.listBandIds_ro
  have h2 := fun bs => AllOps.ro_fine2 (referencedBlocks_ro strict bs)
  have h3 : AllOps Fine2 listBlocks := AllOps.ro_fine2 _root_.Conserve.listBlocks_ro
  have h4 := fun hs => AllOps.ro_fine2 (deleteBody_measure_ro hs)
  have h5 := AllOps.ro_fine2 (gcLockCheck_ro held)
  have h6 := gcLockRelease_fine2
  fineops [h2, h4, delBands_fine2, delBlocks_fine2]

/-- What `delete_bands` issues. -/
theorem deleteBands_fine2 (strict : Bool) (D : List Nat) (o : DeleteOpts) :
    AllOps Fine2 (deleteBands strict D o) := by
  unfold deleteBands
  have h1 := gcLockNew_fine2
  have h2 := gcBreakLock_fine2
  have h3 := gcLockDrop_fine2
  have h3' := gcLockReleaseOnError_fine2
  fineops [deleteBody_fine2]

/-! ### `HeadsOK`: every version directory has a readable head and an index directory -/

/-- `AllHeadsReadable`, stated with `get?` (equivalent when keys are distinct). -/
def HeadsOK (s : Store) : Prop := ∀ b, s.get? (.bandDir b) = some .dir → bandReadable s b = true

theorem headsOK_iff {s : Store} (hn : NoDupKeys s) : HeadsOK s ↔ AllHeadsReadable s := by
  constructor
  · intro h b hb
    exact h b ((mem_bandIdsOf_iff_get? hn).1 hb)
  · intro h b hb
    exact h b ((mem_bandIdsOf_iff_get? hn).2 hb)

/-- The three keys of a version `HeadsOK` looks at. -/
def isBandTop : Key → Prop
  | .bandDir _ | .bandHead _ | .indexDir _ => True
  | _ => False

/-- `bandReadable` only reads the head and the index directory. -/
theorem bandReadable_congr {s s' : Store} {b : Nat} (h1 : s'.get? (.bandHead b) = s.get? (.bandHead b))
    (h2 : s'.get? (.indexDir b) = s.get? (.indexDir b)) : bandReadable s' b = bandReadable s b := by
  unfold bandReadable
  rw [h1, h2]

theorem headsOK_of_same {s s' : Store} (h : HeadsOK s) (hs : ∀ k, isBandTop k → s'.get? k = s.get? k) :
    HeadsOK s' := by
  intro b hb
  rw [hs _ (by simp [isBandTop])] at hb
  rw [bandReadable_congr (hs _ (by simp [isBandTop])) (hs _ (by simp [isBandTop]))]
  exact h b hb

theorem headsOK_put {s : Store} (h : HeadsOK s) {k : Key} (v : FileVal) (hk : ¬ isBandTop k) :
    HeadsOK (s.put k v) :=
  headsOK_of_same h fun k' hk' => by
    have hne : k' ≠ k := by rintro rfl; exact hk hk'
    rw [Store.inv_get?_put, if_neg hne]

theorem headsOK_erase {s : Store} (h : HeadsOK s) {k : Key} (hk : ¬ isBandTop k) : HeadsOK (s.erase k) :=
  headsOK_of_same h fun k' hk' => Store.get?_erase_ne _ (by rintro rfl; exact hk hk')

theorem headsOK_eraseTree {s : Store} (h : HeadsOK s) (b0 : Nat) : HeadsOK (s.eraseTree (.bandDir b0)) := by
  intro b hb
  rw [Store.get?_eraseTree] at hb
  split at hb
  · cases hb
  · rename_i hnu
    have hne : b ≠ b0 := by rintro rfl; simp [Key.isUnder] at hnu
    have h1 : (s.eraseTree (.bandDir b0)).get? (.bandHead b) = s.get? (.bandHead b) := by
      rw [Store.get?_eraseTree]
      simp [Key.isUnder, Key.parent, hne]
    have h2 : (s.eraseTree (.bandDir b0)).get? (.indexDir b) = s.get? (.indexDir b) := by
      rw [Store.get?_eraseTree]
      simp [Key.isUnder, Key.parent, hne]
    rw [bandReadable_congr h1 h2]
    exact h b hb

theorem Fine2.write_key {k : Key} {v : FileVal} {m : WriteMode} (h : Fine2 (.write k v m)) : ¬ isBandTop k := by
  obtain ⟨hf, hh, _⟩ := h
  rcases hf.2 with ⟨b, ver, fl, rfl, rfl⟩ | ⟨b, n, es, rfl, rfl⟩ | ⟨b, c, rfl, rfl⟩ | ⟨h', c, rfl, rfl⟩ | ⟨rfl, rfl⟩
  · exact absurd trivial hh
  all_goals simp [isBandTop]

theorem applyOp_headsOK (e : Bool) {s : Store} {o : Op} (ho : Fine2 o) (h : HeadsOK s) :
    HeadsOK (applyOp e s o).1 := by
  cases o with
  | read k => rw [applyOp_readOnly_store (by simp [ReadOnly])]; exact h
  | listDir k => rw [applyOp_readOnly_store (by simp [ReadOnly])]; exact h
  | metadata k => rw [applyOp_readOnly_store (by simp [ReadOnly])]; exact h
  | write k v m =>
    rcases applyOp_write_store e s k v m with ⟨_, hs⟩ | ⟨_, hs⟩
    · rw [hs]; exact headsOK_put h v ho.write_key
    · rw [hs]; exact h
  | createDir k =>
    rcases applyOp_createDir_store e s k with hs | ⟨_, hs⟩
    · rw [hs]; exact h
    · rw [hs]
      refine headsOK_put h _ ?_
      obtain ⟨hf, _, hb⟩ := ho
      rcases hf with ⟨b, rfl⟩ | ⟨b, rfl⟩ | ⟨b, d, rfl⟩ | ⟨p, rfl⟩
      · exact absurd trivial hb
      · exact absurd trivial hb
      · simp [isBandTop]
      · simp [isBandTop]
  | removeFile k =>
    have hk : ¬ isBandTop k := by
      rcases ho.1 with rfl | ⟨h', rfl⟩ <;> simp [isBandTop]
    simp only [applyOp]
    split
    · exact h
    · exact h
    · exact headsOK_erase h hk
  | removeDirAll k =>
    obtain ⟨b0, rfl⟩ := ho.1
    simp only [applyOp]
    split
    · exact h
    · exact headsOK_eraseTree h b0

/-- One `Fine2` step keeps `HeadsOK`, in every world. -/
theorem exec_headsOK (w : World) {o : Op} (ho : Fine2 o) (h : HeadsOK w.store) : HeadsOK (w.exec o).1.store := by
  rcases (World.exec_cases w o).2 with ⟨hs, _, _⟩ | ⟨k, v, m, rfl, _, hs, _, _⟩ | ⟨e, hs, _, _⟩ | ⟨hs, _, _⟩
  · rw [hs]; exact h
  · rw [hs]; exact headsOK_put h _ ho.write_key
  · rw [hs]; exact h
  · rw [hs]; exact applyOp_headsOK _ ho h

/-- A program of `Fine2` operations keeps `HeadsOK`, in every world. -/
theorem run_headsOK {α : Type} {p : Prog α} (hp : Prog.AllOps Fine2 p) (w : World) (h : HeadsOK w.store) :
    HeadsOK (p.run w).2.store :=
  Prog.run_world_inv (P := Fine2) (I := fun w' => HeadsOK w'.store)
    (fun _ _ h => h) (fun w' _ ho h' => exec_headsOK w' ho h') hp w h

/-! ### `KindsOK` -/

/-- Directories where the layout has directories, files where it has files (`StoreOK.kinds`). -/
def KindsOK (s : Store) : Prop := ∀ k v, s.get? k = some v → Exact.kindOk k v = true

theorem kindsOK_put {s : Store} (h : KindsOK s) {k : Key} {v : FileVal} (hv : Exact.kindOk k v = true) :
    KindsOK (s.put k v) := by
  intro k' v' hg
  rw [Store.inv_get?_put] at hg
  split at hg
  · rename_i hk; cases hg; rw [hk]; exact hv
  · exact h k' v' hg

theorem kindsOK_filter {s : Store} (h : KindsOK s) (p : Key × FileVal → Bool) (hn : NoDupKeys s) :
    KindsOK (s.filter p) := by
  intro k v hg
  have hm := Store.mem_of_get?' hg
  have hm' := (List.mem_filter.mp hm).1
  exact h k v ((Store.mem_iff_get? ((uniqueKeys_iff_nodup s).2 hn)).1 hm')

end Conserve.Rng
